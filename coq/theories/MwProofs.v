(* MwProofs.v — proofs for C17 and C18 about the model of Mw.v.
   Section 1 characterises every generated guard (one lemma per guard: a
   changed guard breaks exactly that lemma); all later proofs use only those
   lemmas. *)
From Moc Require Import Base Msg Mw.
From Moc.Gen Require Import GenMw.
Import String.StringSyntax.
Open Scope Z_scope.

(* ================================================================== *)
(** * 1. generated guards *)

Lemma gtb_false a b : (a >? b) = false <-> a <= b.
Proof. rewrite Z.gtb_ltb. apply Z.ltb_ge. Qed.

Lemma g_mw_max_filters_req_ok n max : g_mw_max_filters_req n max = false <-> n <= max.
Proof. unfold g_mw_max_filters_req. apply gtb_false. Qed.
Lemma g_mw_max_filters_count_ok n max : g_mw_max_filters_count n max = false <-> n <= max.
Proof. unfold g_mw_max_filters_count. apply gtb_false. Qed.
Lemma g_mw_max_subid_req_ok n max : g_mw_max_subid_req n max = false <-> n <= max.
Proof. unfold g_mw_max_subid_req. apply gtb_false. Qed.
Lemma g_mw_max_subid_count_ok n max : g_mw_max_subid_count n max = false <-> n <= max.
Proof. unfold g_mw_max_subid_count. apply gtb_false. Qed.
Lemma g_mw_max_event_tags_ok n max : g_mw_max_event_tags n max = false <-> n <= max.
Proof. unfold g_mw_max_event_tags. apply gtb_false. Qed.
Lemma g_mw_max_content_ok n max : g_mw_max_content n max = false <-> n <= max.
Proof. unfold g_mw_max_content. apply gtb_false. Qed.

Lemma g_mw_max_limit_req_ok has l max :
  g_mw_max_limit_req has l max = false <-> (has = true -> l <= max).
Proof.
  unfold g_mw_max_limit_req. destruct has; simpl.
  - rewrite gtb_false. tauto.
  - split; [discriminate | reflexivity].
Qed.
Lemma g_mw_max_limit_count_ok has l max :
  g_mw_max_limit_count has l max = false <-> (has = true -> l <= max).
Proof.
  unfold g_mw_max_limit_count. destruct has; simpl.
  - rewrite gtb_false. tauto.
  - split; [discriminate | reflexivity].
Qed.

Lemma g_mw_created_lower_ok now ts l : g_mw_created_lower now ts l = false <-> now - l <= ts.
Proof. unfold g_mw_created_lower. rewrite gtb_false. lia. Qed.
Lemma g_mw_created_upper_ok now ts u : g_mw_created_upper now ts u = false <-> ts <= now + u.
Proof. unfold g_mw_created_upper. rewrite gtb_false. lia. Qed.
Lemma g_mw_created_window_old_ok now ts from to :
  g_mw_created_window_old now ts from to = false <-> now + from <= ts.
Proof. unfold g_mw_created_window_old. rewrite Z.ltb_ge. lia. Qed.
Lemma g_mw_created_window_far_ok now ts from to :
  g_mw_created_window_far now ts from to = false <-> ts <= now + to.
Proof. unfold g_mw_created_window_far. rewrite Z.ltb_ge. lia. Qed.

Lemma g_mw_allow_reject_ok b : g_mw_allow_reject b = false <-> b = true.
Proof. unfold g_mw_allow_reject. destruct b; simpl; split; congruence. Qed.
Lemma g_mw_deny_reject_ok b : g_mw_deny_reject b = false <-> b = false.
Proof. unfold g_mw_deny_reject. destruct b; simpl; split; congruence. Qed.

Lemma g_quota_over_ok n max : g_quota_over n max = false <-> n <= max.
Proof. unfold g_quota_over. apply gtb_false. Qed.
Lemma g_recv_unique_hit_ok b : g_recv_unique_hit b = b.
Proof. reflexivity. Qed.
Lemma g_send_unique_hit_ok b : g_send_unique_hit b = b.
Proof. reflexivity. Qed.
Lemma g_recv_unique_lookup_promotes_ok : g_recv_unique_lookup_promotes = true.
Proof. reflexivity. Qed.
Lemma g_send_unique_lookup_promotes_ok : g_send_unique_lookup_promotes = true.
Proof. reflexivity. Qed.

Lemma g_mw_ctor_bad_max_subs_ok n : g_mw_ctor_bad_max_subs n = false <-> 1 <= n.
Proof. unfold g_mw_ctor_bad_max_subs. apply Z.ltb_ge. Qed.
Lemma g_mw_ctor_bad_max_filters_ok n : g_mw_ctor_bad_max_filters n = false <-> 1 <= n.
Proof. unfold g_mw_ctor_bad_max_filters. apply Z.ltb_ge. Qed.
Lemma g_mw_ctor_bad_max_limit_ok n : g_mw_ctor_bad_max_limit n = false <-> 1 <= n.
Proof. unfold g_mw_ctor_bad_max_limit. apply Z.ltb_ge. Qed.
Lemma g_mw_ctor_bad_max_event_tags_ok n : g_mw_ctor_bad_max_event_tags n = false <-> 1 <= n.
Proof. unfold g_mw_ctor_bad_max_event_tags. apply Z.ltb_ge. Qed.
Lemma g_mw_ctor_bad_max_content_ok n : g_mw_ctor_bad_max_content n = false <-> 1 <= n.
Proof. unfold g_mw_ctor_bad_max_content. apply Z.ltb_ge. Qed.

(** BuildMiddlewareFromNIP11: the nil-pointer guard, and for a document with
    a limitation block no guard fires *)
Lemma g_nip11_outer_nil l : g_nip11_outer_identity true l = true.
Proof. reflexivity. Qed.
Lemma g_nip11_outer_present : g_nip11_outer_identity false false = false.
Proof. reflexivity. Qed.
Lemma g_nip11_inner_present : g_nip11_inner_identity false false = false.
Proof. reflexivity. Qed.

(** names and order of the chain, and its conditions *)
Lemma g_nip11_chain_names :
  List.map (fun x => (fst (fst x), snd (fst x))) g_nip11_chain =
  [ (txt "MaxSubscriptions", txt "NewMaxSubscriptionsMiddleware");
    (txt "MaxFilters", txt "NewMaxReqFiltersMiddleware");
    (txt "MaxLimit", txt "NewMaxLimitMiddleware");
    (txt "MaxEventTags", txt "NewMaxEventTagsMiddleware");
    (txt "MaxContentLength", txt "NewMaxContentLengthMiddleware");
    (txt "CreatedAtLowerLimit", txt "NewCreatedAtLowerLimitMiddleware");
    (txt "CreatedAtUpperLimit", txt "NewCreatedAtUpperLimitMiddleware") ].
Proof. reflexivity. Qed.

Lemma g_nip11_chain_conds :
  Forall (fun x => forall v, snd x v = negb (v =? 0)) g_nip11_chain.
Proof. unfold g_nip11_chain. repeat constructor. Qed.

(* ================================================================== *)
(** * 2. C17: the stateless limit middlewares *)

Lemma zlen_nonneg {A} (l : list A) : 0 <= zlen l.
Proof. unfold zlen. lia. Qed.

Lemma max_limit_existsb (g : bool -> Z -> Z -> bool) n fs :
  (forall has l, g has l n = false <-> (has = true -> l <= n)) ->
  (existsb (fun f => g (has_some (f_limit f)) (limit_or0 f) n) fs = false <->
   forall f l, In f fs -> f_limit f = Some l -> l <= n).
Proof.
  intro G. induction fs as [|f fs IH]; simpl.
  - split; [intros _ f l [] | reflexivity].
  - rewrite orb_false_iff, IH, G. split.
    + intros [H1 H2] f' l [<-|Hin] E.
      * unfold limit_or0, has_some in H1. rewrite E in H1. now apply H1.
      * eapply H2; eauto.
    + intro H. split.
      * unfold has_some, limit_or0. destruct (f_limit f) as [l|] eqn:E; [|discriminate].
        intros _. eapply H; eauto.
      * intros f' l Hin E. eapply H; eauto.
Qed.

Lemma max_limit_forallb n fs :
  forallb (fun f => match f_limit f with None => true | Some l => l <=? n end) fs = true <->
  forall f l, In f fs -> f_limit f = Some l -> l <= n.
Proof.
  rewrite forallb_forall. split.
  - intros H f l Hin E. specialize (H f Hin). rewrite E in H. now apply Z.leb_le.
  - intros H f Hin. destruct (f_limit f) as [l|] eqn:E; [|reflexivity]. apply Z.leb_le. eauto.
Qed.

Ltac inv_eqs :=
  repeat match goal with
  | E : Some _ = Some _ |- _ => inversion E; subst; clear E
  | E : CEvent _ = CEvent _ |- _ => inversion E; subst; clear E
  | E : None = Some _ |- _ => discriminate E
  | E : CEvent _ = _ |- _ => discriminate E
  | E : CReq _ _ = _ |- _ => discriminate E
  | E : CClose _ = _ |- _ => discriminate E
  | E : CAuth _ = _ |- _ => discriminate E
  | E : CCount _ _ = _ |- _ => discriminate E
  end.

Lemma respectsb_spec k now m : respectsb k now m = true <-> respects k now m.
Proof.
  destruct k, m; cbn [respectsb respects filters_of];
    try (split; [intros _; intros; inv_eqs; exact I | reflexivity]);
    try (split; [intros _; intros; inv_eqs | reflexivity]);
    try rewrite max_limit_forallb;
    rewrite ?andb_true_iff, ?Z.leb_le, ?negb_true_iff;
    (split; [intros H; intros; inv_eqs; eauto | intros H; eauto]).
Qed.

Lemma guard_as_leb (g : bool) a b : (g = false <-> a <= b) -> g = negb (a <=? b).
Proof.
  intro H. destruct (a <=? b) eqn:E; simpl.
  - apply H. now apply Z.leb_le.
  - destruct g; [reflexivity|]. apply Z.leb_gt in E. assert (a <= b) by (now apply H). lia.
Qed.

Lemma bool_eq_by_iff (x y : bool) (P : Prop) : (x = false <-> P) -> (y = true <-> P) -> x = negb y.
Proof.
  destruct x, y; simpl; intros [A B] [C D]; try reflexivity.
  - specialize (B (C eq_refl)). discriminate.
  - specialize (D (A eq_refl)). discriminate.
Qed.

Lemma e_max_filters_req a b : g_mw_max_filters_req a b = negb (a <=? b).
Proof. apply guard_as_leb, g_mw_max_filters_req_ok. Qed.
Lemma e_max_filters_count a b : g_mw_max_filters_count a b = negb (a <=? b).
Proof. apply guard_as_leb, g_mw_max_filters_count_ok. Qed.
Lemma e_max_subid_req a b : g_mw_max_subid_req a b = negb (a <=? b).
Proof. apply guard_as_leb, g_mw_max_subid_req_ok. Qed.
Lemma e_max_subid_count a b : g_mw_max_subid_count a b = negb (a <=? b).
Proof. apply guard_as_leb, g_mw_max_subid_count_ok. Qed.
Lemma e_max_event_tags a b : g_mw_max_event_tags a b = negb (a <=? b).
Proof. apply guard_as_leb, g_mw_max_event_tags_ok. Qed.
Lemma e_max_content a b : g_mw_max_content a b = negb (a <=? b).
Proof. apply guard_as_leb, g_mw_max_content_ok. Qed.
Lemma e_created_lower now ts l : g_mw_created_lower now ts l = negb (now - l <=? ts).
Proof. apply guard_as_leb, g_mw_created_lower_ok. Qed.
Lemma e_created_upper now ts u : g_mw_created_upper now ts u = negb (ts <=? now + u).
Proof. apply guard_as_leb, g_mw_created_upper_ok. Qed.
Lemma e_created_window_old now ts from to : g_mw_created_window_old now ts from to = negb (now + from <=? ts).
Proof. apply guard_as_leb, g_mw_created_window_old_ok. Qed.
Lemma e_created_window_far now ts from to : g_mw_created_window_far now ts from to = negb (ts <=? now + to).
Proof. apply guard_as_leb, g_mw_created_window_far_ok. Qed.
Lemma e_allow b : g_mw_allow_reject b = negb b.
Proof. destruct b; [apply g_mw_allow_reject_ok; reflexivity|]. destruct (g_mw_allow_reject false) eqn:E; [reflexivity|]. apply g_mw_allow_reject_ok in E. discriminate. Qed.
Lemma e_deny b : g_mw_deny_reject b = b.
Proof. destruct b; [|apply g_mw_deny_reject_ok; reflexivity]. destruct (g_mw_deny_reject true) eqn:E; [reflexivity|]. apply g_mw_deny_reject_ok in E. discriminate. Qed.
Lemma e_max_limit_req n fs :
  existsb (fun f => g_mw_max_limit_req (has_some (f_limit f)) (limit_or0 f) n) fs =
  negb (forallb (fun f => match f_limit f with None => true | Some l => l <=? n end) fs).
Proof.
  eapply bool_eq_by_iff; [apply max_limit_existsb; intros; apply g_mw_max_limit_req_ok | apply max_limit_forallb].
Qed.
Lemma e_max_limit_count n fs :
  existsb (fun f => g_mw_max_limit_count (has_some (f_limit f)) (limit_or0 f) n) fs =
  negb (forallb (fun f => match f_limit f with None => true | Some l => l <=? n end) fs).
Proof.
  eapply bool_eq_by_iff; [apply max_limit_existsb; intros; apply g_mw_max_limit_count_ok | apply max_limit_forallb].
Qed.

(** the decision of a stateless middleware: forwards the message itself when
    the limit is respected, otherwise answers with the rejection for its type *)
Lemma mw_client_cases k now m :
  (mw_client k now m = Forward m /\ respectsb k now m = true) \/
  (exists r, mw_client k now m = Reject r /\ respectsb k now m = false /\ reject_shape m r).
Proof.
  destruct k, m; cbn [mw_client respectsb reject_shape]; try (left; split; reflexivity);
    rewrite ?e_max_filters_req, ?e_max_filters_count, ?e_max_subid_req, ?e_max_subid_count,
            ?e_max_event_tags, ?e_max_content, ?e_created_lower, ?e_created_upper,
            ?e_created_window_old, ?e_created_window_far, ?e_allow, ?e_deny,
            ?e_max_limit_req, ?e_max_limit_count;
    repeat match goal with
           | |- context [negb ?b] => destruct b; cbn [negb andb]
           end;
    try (left; split; reflexivity);
    right; eexists; (split; [reflexivity|]); (split; [reflexivity|]); do 2 eexists; reflexivity.
Qed.

(** forwarded unchanged exactly when the limit is respected *)
Theorem mw_iff k now m :
  stateless k = true -> (mw_client k now m = Forward m <-> respects k now m).
Proof.
  intros _. rewrite <- respectsb_spec.
  destruct (mw_client_cases k now m) as [[E R]|[r [E [R _]]]]; rewrite E, R; split; congruence.
Qed.

Theorem mw_forward_unchanged k now m m' : mw_client k now m = Forward m' -> m' = m.
Proof.
  destruct (mw_client_cases k now m) as [[E R]|[r [E _]]]; rewrite E; congruence.
Qed.

(** otherwise the message is answered with the rejection for its type, and
    nothing is forwarded (the result is the reply alone) *)
Theorem mw_reject_iff k now m :
  stateless k = true -> ((exists r, mw_client k now m = Reject r) <-> ~ respects k now m).
Proof.
  intros _. rewrite <- respectsb_spec.
  destruct (mw_client_cases k now m) as [[E R]|[r [E [R _]]]]; rewrite E, R; split.
  - intros [r H]; discriminate.
  - intro H; exfalso; now apply H.
  - intros _; discriminate.
  - intros _; now exists r.
Qed.

Theorem mw_reject_shape k now m r : mw_client k now m = Reject r -> reject_shape m r.
Proof.
  destruct (mw_client_cases k now m) as [[E R]|[r' [E [_ S]]]]; rewrite E; congruence.
Qed.

Lemma reject_shapeb_spec m r : reject_shapeb m r = true <-> reject_shape m r.
Proof.
  destruct m, r; simpl; try (split; [discriminate | intros [p [t H]]; discriminate]);
    try (split; [discriminate | intros []]).
  - destruct accepted; rewrite ?str_eqb_eq; split.
    + discriminate.
    + intros [p [t H]]; inversion H.
    + intros ->. eauto.
    + intros [p [t H]]; inversion H; reflexivity.
  - rewrite str_eqb_eq. split; [intros ->; eauto | intros [p [t H]]; inversion H; reflexivity].
  - rewrite str_eqb_eq. split; [intros ->; eauto | intros [p [t H]]; inversion H; reflexivity].
Qed.

(* ------------------------------------------------------------------ *)
(** ** one step of any middleware, stateful ones included *)

Lemma step_cases k now st m :
  (exists st', mw_client_step k now st m = (st', Forward m)) \/
  (exists st' r, mw_client_step k now st m = (st', Reject r) /\ reject_shape m r).
Proof.
  destruct k;
    try (unfold mw_client_step;
         match goal with |- context [mw_client ?k now m] =>
           destruct (mw_client_cases k now m) as [[E _]|[r [E [_ S]]]]; rewrite E; eauto end).
  - (* quota *)
    destruct m; cbn [mw_client_step quota_client]; eauto.
    destruct (g_quota_over _ _); [right | left]; eauto.
    do 2 eexists. split; [reflexivity|]. simpl. eauto.
  - (* receive-side unique *)
    destruct m; cbn [mw_client_step recv_unique_client]; eauto.
    destruct (lru_get _ _ _) as [w1 found]. destruct (g_recv_unique_hit found); [right | left]; eauto.
    do 2 eexists. split; [reflexivity|]. simpl. eauto.
Qed.

(** messages a middleware is not about pass, and its state is untouched *)
Theorem mw_other_pass k now st m :
  concerns k m = false -> mw_client_step k now st m = (st, Forward m).
Proof. destruct k, m; simpl; intro H; try discriminate; reflexivity. Qed.

(** every middleware but the send-side unique filter is the identity on
    server messages; that one is the identity on everything but EVENT *)
Theorem mw_server_identity k st s :
  (forall n, k <> SendUnique n) \/ smsg_is_event s = false -> mw_server_step k st s = (st, Some s).
Proof.
  intros [H|H].
  - destruct k; try reflexivity. exfalso. eapply H. reflexivity.
  - destruct k; try reflexivity. destruct s; try reflexivity. discriminate.
Qed.

Lemma reject_shape_not_event m r : reject_shape m r -> smsg_is_event r = false.
Proof. destruct m; simpl; try tauto; intros [p [t ->]]; reflexivity. Qed.

Lemma reply_passes k st r : smsg_is_event r = false -> layer_server_many k st [r] = (st, [r]).
Proof.
  intro H. cbn [layer_server_many]. rewrite (mw_server_identity k st r) by (now right). reflexivity.
Qed.

(* ------------------------------------------------------------------ *)
(** ** stacks *)

(** layer [l] forwards [m]; the layer after the message reached it *)
Definition fw (now : Z) (m : cmsg) (l : layer) : Prop :=
  snd (mw_client_step (fst l) now (snd l) m) = Forward m.
Definition adv (now : Z) (m : cmsg) (l : layer) : layer :=
  (fst l, fst (mw_client_step (fst l) now (snd l) m)).

(** A stack forwards a message iff every member, in its current state,
    would; it then forwards the message itself and nothing reaches the
    client.  Otherwise the reply is that of the outermost member that does
    not forward, members inside it never see the message, and nothing is
    forwarded. *)
Theorem stack_client_spec now ls m :
  match stack_client now ls m with
  | (ls', Some m', rs) =>
      m' = m /\ rs = [] /\ Forall (fw now m) ls /\ ls' = List.map (adv now m) ls
  | (ls', None, rs) =>
      exists pre l post r,
        ls = pre ++ l :: post /\ Forall (fw now m) pre /\
        snd (mw_client_step (fst l) now (snd l) m) = Reject r /\ reject_shape m r /\
        rs = [r] /\ ls' = List.map (adv now m) pre ++ adv now m l :: post
  end.
Proof.
  induction ls as [|[k st] inner IH]; cbn [stack_client].
  - repeat split; constructor.
  - assert (A : forall st1 c, mw_client_step k now st m = (st1, c) -> adv now m (k, st) = (k, st1)).
    { intros st1 c E. unfold adv. cbn [fst snd]. now rewrite E. }
    destruct (step_cases k now st m) as [[st1 E]|[st1 [r [E S]]]]; rewrite E.
    + assert (Fk : fw now m (k, st)) by (unfold fw; cbn [fst snd]; now rewrite E).
      destruct (stack_client now inner m) as [[inner' o] rs]. destruct o as [m'|].
      * destruct IH as [-> [-> [F ->]]]. cbn [layer_server_many List.map].
        rewrite (A _ _ E). repeat split. now constructor.
      * destruct IH as [pre [l [post [r [-> [F [R [S [-> ->]]]]]]]]].
        rewrite reply_passes by (eapply reject_shape_not_event; eauto).
        exists ((k, st) :: pre), l, post, r. cbn [List.map app]. rewrite (A _ _ E).
        repeat split; auto.
    + exists [], (k, st), inner, r. cbn [List.map app fst snd]. rewrite (A _ _ E), E.
      repeat split; auto.
Qed.

Lemma stack_init_cons k ks : stack_init (k :: ks) = (k, mw_init k) :: stack_init ks.
Proof. reflexivity. Qed.

Theorem stack_server_stateless ks s :
  Forall (fun k => stateless k = true) ks -> stack_server (stack_init ks) s = (stack_init ks, Some s).
Proof.
  induction 1 as [|k ks Hk _ IH]; [reflexivity|].
  rewrite stack_init_cons. cbn [stack_server]. rewrite IH.
  rewrite mw_server_identity; [reflexivity|]. left. intros n ->. discriminate.
Qed.

(** the reply of the outermost member whose limit is not respected *)
Fixpoint first_reject (ks : list mwk) (now : Z) (m : cmsg) : option smsg :=
  match ks with
  | [] => None
  | k :: r => match mw_client k now m with Reject x => Some x | Forward _ => first_reject r now m end
  end.

Definition all_respectb (ks : list mwk) (now : Z) (m : cmsg) : bool :=
  forallb (fun k => respectsb k now m) ks.

Lemma stateless_step k now st m : stateless k = true -> mw_client_step k now st m = (st, mw_client k now m).
Proof. destruct k; try discriminate; reflexivity. Qed.

Theorem stack_stateless_step now ks m :
  Forall (fun k => stateless k = true) ks ->
  stack_client now (stack_init ks) m =
  (stack_init ks, (if all_respectb ks now m then Some m else None), opt_list (first_reject ks now m)).
Proof.
  induction 1 as [|k ks Hk _ IH]; [reflexivity|].
  rewrite stack_init_cons. cbn [stack_client all_respectb forallb first_reject].
  fold (all_respectb ks now m).
  rewrite (stateless_step _ _ _ _ Hk).
  destruct (mw_client_cases k now m) as [[E R]|[r [E [R S]]]]; rewrite E, R; cbn [andb].
  - rewrite IH. destruct (first_reject ks now m) as [r|] eqn:F; cbn [opt_list layer_server_many]; [|reflexivity].
    assert (S : reject_shape m r).
    { clear - F. induction ks as [|k' ks IH]; [discriminate|]. simpl in F.
      destruct (mw_client k' now m) eqn:E; [now apply IH | inversion F; subst; eapply mw_reject_shape; eauto]. }
    rewrite (mw_server_identity k _ r) by (right; eapply reject_shape_not_event; eauto). reflexivity.
  - reflexivity.
Qed.

Lemma first_reject_none ks now m : first_reject ks now m = None <-> all_respectb ks now m = true.
Proof.
  induction ks as [|k ks IH]; simpl; [tauto|].
  destruct (mw_client_cases k now m) as [[E R]|[r [E [R _]]]]; rewrite E, R; simpl; [exact IH | split; discriminate].
Qed.

Lemma first_reject_some ks now m r :
  first_reject ks now m = Some r ->
  exists pre k post, ks = pre ++ k :: post /\ all_respectb pre now m = true /\
                     respectsb k now m = false /\ mw_client k now m = Reject r /\ reject_shape m r.
Proof.
  induction ks as [|k ks IH]; simpl; [discriminate|].
  destruct (mw_client_cases k now m) as [[E R]|[r' [E [R S]]]]; rewrite E.
  - intro F. destruct (IH F) as [pre [k' [post [-> [A [B [C D]]]]]]].
    exists (k :: pre), k', post. simpl. rewrite R. auto.
  - intro F. inversion F; subst. exists [], k, ks. simpl. auto.
Qed.

Lemma all_respectb_spec ks now m : all_respectb ks now m = true <-> Forall (fun k => respects k now m) ks.
Proof.
  unfold all_respectb. rewrite forallb_forall, Forall_forall.
  split; intros H k Hin; apply respectsb_spec; auto.
Qed.

(** [stack_conj]: a stack of limit middlewares forwards [m] — unchanged, with
    nothing sent to the client — exactly when every member's limit is
    respected; otherwise nothing is forwarded and the client receives exactly
    the reply of the outermost member whose limit is violated. *)
Theorem stack_conj now ks m :
  Forall (fun k => stateless k = true) ks ->
  (stack_client now (stack_init ks) m = (stack_init ks, Some m, []) <->
   Forall (fun k => respects k now m) ks) /\
  (~ Forall (fun k => respects k now m) ks ->
   exists pre k post r,
     ks = pre ++ k :: post /\ Forall (fun k => respects k now m) pre /\ ~ respects k now m /\
     mw_client k now m = Reject r /\ reject_shape m r /\
     stack_client now (stack_init ks) m = (stack_init ks, None, [r])).
Proof.
  intro St. rewrite (stack_stateless_step now ks m St). rewrite <- all_respectb_spec. split.
  - destruct (all_respectb ks now m) eqn:A.
    + apply first_reject_none in A. rewrite A. split; reflexivity.
    + split; [intro H; inversion H | discriminate].
  - intro N. destruct (all_respectb ks now m) eqn:A; [exfalso; now apply N|].
    destruct (first_reject ks now m) as [r|] eqn:F.
    + destruct (first_reject_some _ _ _ _ F) as [pre [k [post [E [P [Q [R S]]]]]]].
      exists pre, k, post, r. repeat split; auto.
      * now apply all_respectb_spec.
      * rewrite <- respectsb_spec. congruence.
    + apply first_reject_none in F. congruence.
Qed.

(** what a stack of limit middlewares shows for one operation *)
Definition stateless_obs (ks : list mwk) (now : Z) (o : op) : obs :=
  match o with
  | OClient m => ((if all_respectb ks now m then [m] else []), opt_list (first_reject ks now m))
  | OServer s => ([], [s])
  end.

(** over every history: the messages reaching the wrapped handler are the
    respected client messages in their order, every other client message is
    answered once, server messages pass unchanged and in order *)
Theorem stack_stateless_run now ks h :
  Forall (fun k => stateless k = true) ks ->
  sess_run now (stack_init ks) h = (stack_init ks, List.map (stateless_obs ks now) h).
Proof.
  intro St. induction h as [|o h IH]; [reflexivity|].
  cbn [sess_run List.map]. destruct o as [m|s]; cbn [sess_step stateless_obs].
  - rewrite (stack_stateless_step now ks m St). rewrite IH.
    destruct (all_respectb ks now m); reflexivity.
  - rewrite (stack_server_stateless ks s St). rewrite IH. reflexivity.
Qed.

Corollary stack_forwarded_in_order now ks ms :
  Forall (fun k => stateless k = true) ks ->
  List.concat (List.map fst (snd (sess_run now (stack_init ks) (List.map OClient ms)))) =
  filter (all_respectb ks now) ms.
Proof.
  intro St. rewrite (stack_stateless_run now ks _ St). cbn [snd].
  induction ms as [|m ms IH]; [reflexivity|]. simpl.
  destruct (all_respectb ks now m); simpl; now rewrite IH.
Qed.

(* ------------------------------------------------------------------ *)
(** ** BuildMiddlewareFromNIP11 *)

(** one entry of the chain whose condition is [v != 0] *)
Lemma chain_step l fld ctor cond rest acc v k :
  lim_field fld l = Some v ->
  (forall x, cond x = negb (x =? 0)) ->
  (v <> 0 -> ctor_mw ctor v = Some (Some k)) ->
  chain_build l ((fld, ctor, cond) :: rest) acc = chain_build l rest (nz v k ++ acc).
Proof.
  intros F C K. cbn [chain_build]. rewrite F, C. unfold nz.
  destruct (v =? 0) eqn:E; cbn [negb app]; [reflexivity|].
  apply Z.eqb_neq in E. now rewrite (K E).
Qed.

Lemma ctor_max_subs v : 0 <= v -> v <> 0 -> ctor_mw (txt "NewMaxSubscriptionsMiddleware") v = Some (Some (MaxSubs v)).
Proof.
  intros H N. assert (E : g_mw_ctor_bad_max_subs v = false) by (apply g_mw_ctor_bad_max_subs_ok; lia).
  cbv [ctor_mw]. cbn. now rewrite E.
Qed.
Lemma ctor_max_filters v : 0 <= v -> v <> 0 -> ctor_mw (txt "NewMaxReqFiltersMiddleware") v = Some (Some (MaxFilters v)).
Proof.
  intros H N. assert (E : g_mw_ctor_bad_max_filters v = false) by (apply g_mw_ctor_bad_max_filters_ok; lia).
  cbv [ctor_mw]. cbn. now rewrite E.
Qed.
Lemma ctor_max_limit v : 0 <= v -> v <> 0 -> ctor_mw (txt "NewMaxLimitMiddleware") v = Some (Some (MaxLimit v)).
Proof.
  intros H N. assert (E : g_mw_ctor_bad_max_limit v = false) by (apply g_mw_ctor_bad_max_limit_ok; lia).
  cbv [ctor_mw]. cbn. now rewrite E.
Qed.
Lemma ctor_max_event_tags v : 0 <= v -> v <> 0 -> ctor_mw (txt "NewMaxEventTagsMiddleware") v = Some (Some (MaxEventTags v)).
Proof.
  intros H N. assert (E : g_mw_ctor_bad_max_event_tags v = false) by (apply g_mw_ctor_bad_max_event_tags_ok; lia).
  cbv [ctor_mw]. cbn. now rewrite E.
Qed.
Lemma ctor_max_content v : 0 <= v -> v <> 0 -> ctor_mw (txt "NewMaxContentLengthMiddleware") v = Some (Some (MaxContentLen v)).
Proof.
  intros H N. assert (E : g_mw_ctor_bad_max_content v = false) by (apply g_mw_ctor_bad_max_content_ok; lia).
  cbv [ctor_mw]. cbn. now rewrite E.
Qed.
Lemma ctor_lower v : ctor_mw (txt "NewCreatedAtLowerLimitMiddleware") v = Some (Some (CreatedLower v)).
Proof. reflexivity. Qed.
Lemma ctor_upper v : ctor_mw (txt "NewCreatedAtUpperLimitMiddleware") v = Some (Some (CreatedUpper v)).
Proof. reflexivity. Qed.

(** the chain of a document with a limitation block is the stack of its
    non-zero limits (counts in range) *)
Theorem nip11_chain_equiv l : lim_nonneg l -> build_nip11 (DocLim l) = BStack (nip11_limits l).
Proof.
  intros (H1 & H2 & H3 & H4 & H5).
  unfold build_nip11. rewrite g_nip11_outer_present, g_nip11_inner_present.
  pose proof g_nip11_chain_names as N. pose proof g_nip11_chain_conds as C.
  destruct g_nip11_chain as [|[[f1 c1] d1] [|[[f2 c2] d2] [|[[f3 c3] d3] [|[[f4 c4] d4] [|[[f5 c5] d5]
    [|[[f6 c6] d6] [|[[f7 c7] d7] [|? ?]]]]]]]]; try discriminate N.
  cbn [List.map fst snd] in N. inversion N; subst; clear N.
  repeat match goal with H : Forall _ (_ :: _) |- _ => inversion H; subst; clear H end.
  cbn [snd] in *.
  rewrite (chain_step l _ _ _ _ _ (l_max_subs l) (MaxSubs (l_max_subs l))); auto using ctor_max_subs.
  rewrite (chain_step l _ _ _ _ _ (l_max_filters l) (MaxFilters (l_max_filters l))); auto using ctor_max_filters.
  rewrite (chain_step l _ _ _ _ _ (l_max_limit l) (MaxLimit (l_max_limit l))); auto using ctor_max_limit.
  rewrite (chain_step l _ _ _ _ _ (l_max_event_tags l) (MaxEventTags (l_max_event_tags l))); auto using ctor_max_event_tags.
  rewrite (chain_step l _ _ _ _ _ (l_max_content l) (MaxContentLen (l_max_content l))); auto using ctor_max_content.
  rewrite (chain_step l _ _ _ _ _ (l_lower l) (CreatedLower (l_lower l))); auto using ctor_lower.
  rewrite (chain_step l _ _ _ _ _ (l_upper l) (CreatedUpper (l_upper l))); auto using ctor_upper.
  cbn [chain_build]. unfold nip11_limits. now rewrite app_nil_r.
Qed.

(** a nil document: the identity *)
Theorem nip11_nil_identity : build_nip11 DocNil = BStack [].
Proof. unfold build_nip11. now rewrite g_nip11_outer_nil. Qed.

(** a limitation block that sets nothing: the identity *)
Theorem nip11_all_zero_identity : build_nip11 (DocLim zero_lim) = BStack [].
Proof.
  assert (H : lim_nonneg zero_lim) by (unfold lim_nonneg, zero_lim; simpl; lia).
  now rewrite (nip11_chain_equiv _ H).
Qed.

(** and the empty stack is the identity middleware *)
Theorem empty_stack_identity now h :
  sess_run now (stack_init []) h =
  (stack_init [], List.map (fun o => match o with OClient m => ([m], []) | OServer s => ([], [s]) end) h).
Proof.
  rewrite stack_stateless_run by constructor. f_equal; try (apply map_ext; intros [m|s]; reflexivity).
Qed.

(** a document without limitation block is the identity as soon as one of
    the generated guards covers it ... *)
Theorem nip11_no_limitation_identity_guarded :
  g_nip11_outer_identity false true || g_nip11_inner_identity false true = true ->
  build_nip11 DocNoLim = BStack [].
Proof.
  unfold build_nip11. intro H. apply orb_true_iff in H as [-> | H]; [reflexivity|].
  rewrite H. now destruct (g_nip11_outer_identity false true).
Qed.

(** ... which the source does since the repair of F4 (a nil guard for the
    limitation block): no limitation block at all => the identity *)
Theorem nip11_no_limitation_identity :
  forall d, no_limitation_block d -> build_nip11 d = BStack [].
Proof.
  intros [| |l] H; [apply nip11_nil_identity | apply nip11_no_limitation_identity_guarded; reflexivity | destruct H].
Qed.


(** out of range: a negative count makes the constructor panic when the
    middleware is applied *)
Example nip11_negative_count_panics : build_nip11 (DocLim (mkLim 2 (-1) 0 0 0 0 0 0)) = BPanic.
Proof. reflexivity. Qed.

(* ================================================================== *)
(** * 3. C18 *)

(** ** sets as lists *)
Lemma set_remove_In x y l : In y (set_remove x l) <-> In y l /\ y <> x.
Proof.
  unfold set_remove. rewrite filter_In, negb_true_iff, str_eqb_neq. intuition congruence.
Qed.

Lemma set_remove_notin x l : ~ In x l -> set_remove x l = l.
Proof.
  induction l as [|y l IH]; simpl; [reflexivity|]. intro H.
  destruct (str_eqb x y) eqn:E; simpl.
  - apply str_eqb_eq in E. subst. exfalso. apply H. now left.
  - f_equal. apply IH. intro. apply H. now right.
Qed.

Lemma set_remove_self x l : ~ In x (set_remove x l).
Proof. rewrite set_remove_In. tauto. Qed.

Lemma set_remove_NoDup x l : NoDup l -> NoDup (set_remove x l).
Proof. apply NoDup_filter. Qed.

Lemma set_remove_length_le x l : (length (set_remove x l) <= length l)%nat.
Proof.
  unfold set_remove. induction l as [|y l IH]; simpl; [lia|]. destruct (negb (str_eqb x y)); simpl; lia.
Qed.

Lemma set_remove_length_in x l : NoDup l -> In x l -> S (length (set_remove x l)) = length l.
Proof.
  induction l as [|y l IH]; simpl; [tauto|]. intros ND [->|Hin]; inversion ND; subst.
  - rewrite str_eqb_refl. simpl. now rewrite set_remove_notin.
  - destruct (str_eqb x y) eqn:E; simpl.
    + apply str_eqb_eq in E. subst. contradiction.
    + f_equal. now apply IH.
Qed.

Lemma set_remove_cons_same x l : set_remove x (x :: l) = set_remove x l.
Proof. unfold set_remove. simpl. now rewrite str_eqb_refl. Qed.

Lemma set_add_NoDup x l : NoDup l -> NoDup (set_add x l).
Proof.
  unfold set_add. destruct (mem_str x l) eqn:E; [auto|]. intro. constructor; [|assumption].
  intro H0. apply mem_str_In in H0. congruence.
Qed.

Lemma mem_str_false x l : mem_str x l = false <-> ~ In x l.
Proof.
  split.
  - intros E H. apply mem_str_In in H. congruence.
  - intro H. destruct (mem_str x l) eqn:E; [|reflexivity]. apply mem_str_In in E. contradiction.
Qed.

Lemma zlen_cons {A} (x : A) l : zlen (x :: l) = zlen l + 1.
Proof. unfold zlen. simpl length. lia. Qed.

(** ** one middleware over a history of client messages *)
Fixpoint layer_run (k : mwk) (now : Z) (st : mstate) (h : list cmsg) : mstate * list cres :=
  match h with
  | [] => (st, [])
  | m :: r =>
      let (st1, c) := mw_client_step k now st m in
      let (st2, cs) := layer_run k now st1 r in
      (st2, c :: cs)
  end.

Definition forwarded (cs : list cres) : list cmsg :=
  flat_map (fun c => match c with Forward m => [m] | Reject _ => [] end) cs.

Lemma forwarded_cons c cs :
  forwarded (c :: cs) = (match c with Forward m => [m] | Reject _ => [] end) ++ forwarded cs.
Proof. reflexivity. Qed.

(** ** the subscription quota *)
Definition q_inv (n : Z) (open : list str) : Prop := NoDup open /\ zlen open <= n.

Lemma quota_req n open sub fs :
  q_inv n open ->
  (In sub open \/ zlen open < n ->
   quota_client n open (CReq sub fs) = (set_add sub open, Forward (CReq sub fs))) /\
  (~ (In sub open \/ zlen open < n) ->
   exists t, quota_client n open (CReq sub fs) = (open, Reject (SClosed sub [] t))).
Proof.
  intros [ND L]. cbn [quota_client]. unfold set_add.
  destruct (mem_str sub open) eqn:M.
  - assert (O : g_quota_over (zlen open) n = false) by (now apply g_quota_over_ok).
    rewrite O. split; [reflexivity|]. apply mem_str_In in M. tauto.
  - apply mem_str_false in M. rewrite zlen_cons.
    destruct (g_quota_over (zlen open + 1) n) eqn:O.
    + split.
      * intros [H|H]; [contradiction|].
        assert (g_quota_over (zlen open + 1) n = false) by (apply g_quota_over_ok; lia). congruence.
      * intros _. rewrite set_remove_cons_same, set_remove_notin by assumption. eauto.
    + split; [reflexivity|]. intro H. exfalso. apply H. right. apply g_quota_over_ok in O. lia.
Qed.

(** a REQ is forwarded iff its id is already open or fewer than N are open;
    otherwise it is answered with CLOSED (its own id) and changes nothing *)
Theorem quota_forward_iff n open sub fs :
  q_inv n open ->
  (snd (quota_client n open (CReq sub fs)) = Forward (CReq sub fs) <-> In sub open \/ zlen open < n).
Proof.
  intro I. destruct (quota_req n open sub fs I) as [A B]. split.
  - intro F. destruct (mem_str sub open) eqn:M; [left; now apply mem_str_In|].
    destruct (Z.lt_ge_cases (zlen open) n) as [L|L]; [now right|].
    destruct B as [t E]; [|rewrite E in F; discriminate].
    apply mem_str_false in M. intros [H|H]; [contradiction | lia].
  - intro H. now rewrite (A H).
Qed.

Lemma quota_step_inv n open m : q_inv n open -> q_inv n (fst (quota_client n open m)).
Proof.
  intros I. destruct m as [e|sub fs|sub|e|sub fs]; try exact I.
  - destruct (quota_req n open sub fs I) as [A B].
    destruct (mem_str sub open) eqn:M.
    + apply mem_str_In in M. rewrite A by (now left). cbn [fst]. unfold set_add.
      apply mem_str_In in M. now rewrite M.
    + destruct (Z.lt_ge_cases (zlen open) n) as [L|L].
      * rewrite A by (now right). cbn [fst]. destruct I as [ND Le]. split; [now apply set_add_NoDup|].
        unfold set_add. rewrite M, zlen_cons. lia.
      * apply mem_str_false in M. destruct B as [t E]; [intros [H|H]; [contradiction|lia]|].
        now rewrite E.
  - cbn [quota_client fst]. destruct I as [ND Le]. split; [now apply set_remove_NoDup|].
    pose proof (set_remove_length_le sub open). unfold zlen in *. lia.
Qed.

(** a CLOSE is always forwarded and frees the slot of its id *)
Theorem close_frees n open sub :
  quota_client n open (CClose sub) = (set_remove sub open, Forward (CClose sub)) /\
  ~ In sub (set_remove sub open) /\
  (q_inv n open -> In sub open -> zlen (set_remove sub open) = zlen open - 1).
Proof.
  split; [reflexivity|]. split; [apply set_remove_self|].
  intros [ND _] Hin. pose proof (set_remove_length_in sub open ND Hin). unfold zlen. lia.
Qed.

Corollary close_then_req_forwarded n open sub sub' fs :
  q_inv n open -> In sub open ->
  snd (quota_client n (fst (quota_client n open (CClose sub))) (CReq sub' fs)) = Forward (CReq sub' fs).
Proof.
  intros I Hin. destruct (close_frees n open sub) as [E [_ L]]. rewrite E. cbn [fst].
  apply quota_forward_iff.
  - pose proof (quota_step_inv n open (CClose sub) I) as I'. now rewrite E in I'.
  - right. rewrite (L I Hin). destruct I. lia.
Qed.

Lemma quota_layer_step n now open m :
  mw_client_step (MaxSubs n) now (StSubs open) m =
  (StSubs (fst (quota_client n open m)), snd (quota_client n open m)).
Proof. destruct m; cbn [mw_client_step st_subs]; try reflexivity; now destruct (quota_client n open _). Qed.

(** [quota_invariant]: at every point of every history at most N ids are open *)
Theorem quota_invariant n now h open :
  q_inv n open -> q_inv n (st_subs (fst (layer_run (MaxSubs n) now (StSubs open) h))).
Proof.
  revert open. induction h as [|m h IH]; intros open I; [exact I|].
  cbn [layer_run]. rewrite quota_layer_step.
  specialize (IH _ (quota_step_inv n open m I)).
  destruct (layer_run (MaxSubs n) now (StSubs (fst (quota_client n open m))) h). exact IH.
Qed.

(** the set kept by the middleware is the set of subscriptions open at the
    wrapped handler, as computed from the messages forwarded to it *)
Lemma quota_step_down n open m :
  q_inv n open ->
  fst (quota_client n open m) =
  down_open (match snd (quota_client n open m) with Forward x => [x] | Reject _ => [] end) open.
Proof.
  intro I. destruct m as [e|sub fs|sub|e|sub fs]; try reflexivity.
  destruct (quota_req n open sub fs I) as [A B].
  destruct (mem_str sub open) eqn:M.
  - apply mem_str_In in M. now rewrite A by (now left).
  - destruct (Z.lt_ge_cases (zlen open) n) as [L|L].
    + now rewrite A by (now right).
    + apply mem_str_false in M. destruct B as [t E]; [intros [H|H]; [contradiction|lia]|]. now rewrite E.
Qed.

Lemma down_open_app a b acc : down_open (a ++ b) acc = down_open b (down_open a acc).
Proof.
  revert acc. induction a as [|m a IH]; intro acc; [reflexivity|].
  destruct m; simpl; apply IH.
Qed.

Theorem quota_open_is_down_open n now h open :
  q_inv n open ->
  st_subs (fst (layer_run (MaxSubs n) now (StSubs open) h)) =
  down_open (forwarded (snd (layer_run (MaxSubs n) now (StSubs open) h))) open.
Proof.
  revert open. induction h as [|m h IH]; intros open I; [reflexivity|].
  cbn [layer_run]. rewrite quota_layer_step.
  specialize (IH _ (quota_step_inv n open m I)).
  destruct (layer_run (MaxSubs n) now (StSubs (fst (quota_client n open m))) h) as [st2 cs].
  cbn [fst snd] in *. rewrite IH. rewrite forwarded_cons, down_open_app.
  now rewrite <- (quota_step_down n open m I).
Qed.

Lemma down_open_bounded_app n a b acc :
  down_open_bounded n (a ++ b) acc = down_open_bounded n a acc && down_open_bounded n b (down_open a acc).
Proof.
  revert acc. induction a as [|m a IH]; intro acc; [reflexivity|].
  cbn [app down_open_bounded]. rewrite IH, andb_assoc.
  replace (down_open (m :: a) acc) with (down_open a (down_open [m] acc)); [reflexivity|].
  now rewrite <- down_open_app.
Qed.

(** hence at most N subscriptions are open downstream after every message *)
Theorem quota_down_bounded n now h open :
  q_inv n open ->
  down_open_bounded n (forwarded (snd (layer_run (MaxSubs n) now (StSubs open) h))) open = true.
Proof.
  revert open. induction h as [|m h IH]; intros open I; [reflexivity|].
  cbn [layer_run]. rewrite quota_layer_step.
  pose proof (quota_step_inv n open m I) as I'. specialize (IH _ I').
  destruct (layer_run (MaxSubs n) now (StSubs (fst (quota_client n open m))) h) as [st2 cs].
  cbn [fst snd] in *. rewrite forwarded_cons, down_open_bounded_app.
  rewrite <- (quota_step_down n open m I), IH, andb_true_r.
  pose proof (quota_step_down n open m I) as D.
  destruct (snd (quota_client n open m)) as [x|r]; [|reflexivity].
  cbn [down_open_bounded]. rewrite <- D, andb_true_r. apply Z.leb_le. apply I'.
Qed.

(* ------------------------------------------------------------------ *)
(** ** the LRU window *)

Lemma recent_In x l : In x (recent l) <-> In x l.
Proof.
  induction l as [|y l IH]; simpl; [tauto|]. rewrite set_remove_In, IH.
  destruct (str_dec x y); intuition congruence.
Qed.

Lemma recent_NoDup l : NoDup (recent l).
Proof.
  induction l as [|y l IH]; simpl; constructor.
  - apply set_remove_self.
  - now apply set_remove_NoDup.
Qed.

Lemma firstn_In {A} n (l : list A) x : In x (firstn n l) -> In x l.
Proof.
  revert l. induction n as [|n IH]; intros [|y l]; simpl; try tauto.
  intros [->|H]; [now left | right; now apply IH].
Qed.

Lemma firstn_NoDup {A} n (l : list A) : NoDup l -> NoDup (firstn n l).
Proof.
  revert l. induction n as [|n IH]; intros [|x l] ND; simpl; try constructor.
  - inversion ND; subst. intro H. apply H1. eapply firstn_In. exact H.
  - inversion ND; subst. now apply IH.
Qed.

Lemma set_remove_cons_neq x y l : str_eqb x y = false -> set_remove x (y :: l) = y :: set_remove x l.
Proof. intro E. unfold set_remove. cbn [filter]. now rewrite E. Qed.

(** removing an element from a prefix of a duplicate-free list *)
Lemma firstn_remove_prefix x k (l : list str) :
  NoDup l -> firstn k (set_remove x (firstn (S k) l)) = firstn k (set_remove x l).
Proof.
  revert k. induction l as [|y l IH]; intros k ND; [reflexivity|].
  inversion ND as [|? ? Hn ND']; subst.
  cbn [firstn]. destruct (str_eqb x y) eqn:E.
  - apply str_eqb_eq in E. subst y. rewrite !set_remove_cons_same.
    rewrite (set_remove_notin x l Hn).
    rewrite set_remove_notin by (intro H; apply Hn; eapply firstn_In; exact H).
    apply firstn_all2. apply firstn_le_length.
  - rewrite !(set_remove_cons_neq _ _ _ E).
    destruct k as [|k]; [reflexivity|]. cbn [firstn]. f_equal. now apply IH.
Qed.

Lemma window_NoDup size seen : NoDup (window size seen).
Proof. apply firstn_NoDup, recent_NoDup. Qed.

Lemma window_len size seen : 0 <= size -> zlen (window size seen) <= size.
Proof. intro H. unfold zlen, window. pose proof (firstn_le_length (Z.to_nat size) (recent seen)). lia. Qed.

Lemma window_In size seen x : In x (window size seen) -> In x seen.
Proof. intro H. apply recent_In. eapply firstn_In. exact H. Qed.

Lemma window_nil size : window size [] = [].
Proof. unfold window. simpl. apply firstn_nil. Qed.

(** one access (hit or miss) of the cache *)
Definition lru_touch (size : Z) (x : str) (w : list str) : list str :=
  firstn (Z.to_nat size) (x :: set_remove x w).

Lemma lru_touch_window size x seen :
  1 <= size -> lru_touch size x (window size seen) = window size (x :: seen).
Proof.
  intro H. unfold lru_touch, window. cbn [recent].
  destruct (Z.to_nat size) as [|k] eqn:E; [lia|]. cbn [firstn]. f_equal.
  apply firstn_remove_prefix, recent_NoDup.
Qed.

(** look-up followed (on a miss) by Add, on a cache within its size *)
Lemma lru_access size x w :
  1 <= size -> NoDup w -> zlen w <= size ->
  (In x w -> lru_get true x w = (lru_touch size x w, true)) /\
  (~ In x w -> lru_get true x w = (w, false) /\ lru_add size x w = lru_touch size x w).
Proof.
  intros S ND L. unfold lru_get, lru_add, lru_touch, lru_promote. split; intro H.
  - assert (M : mem_str x w = true) by (now apply mem_str_In). rewrite M. f_equal.
    symmetry. apply firstn_all2. cbn [length]. rewrite (set_remove_length_in x w ND H).
    unfold zlen in L. lia.
  - assert (M : mem_str x w = false) by (now apply mem_str_false). rewrite M. split; [reflexivity|].
    rewrite (set_remove_notin x w H). rewrite zlen_cons.
    destruct (zlen w + 1 >? size) eqn:G.
    + apply Z.gtb_lt in G. rewrite removelast_firstn_len. cbn [length Nat.pred].
      f_equal. unfold zlen in *. lia.
    + apply gtb_false in G. symmetry. apply firstn_all2. cbn [length]. unfold zlen in *. lia.
Qed.

(** ** receive side *)
Definition recv_reply (e : event) : smsg := SOk (ev_id e) false dup_prefix (txt "the event already found").

Lemma recv_unique_step size w e :
  1 <= size -> NoDup w -> zlen w <= size ->
  recv_unique_client size w (CEvent e) =
  (lru_touch size (ev_id e) w,
   if mem_str (ev_id e) w then Reject (recv_reply e) else Forward (CEvent e)).
Proof.
  intros S ND L. cbn [recv_unique_client]. rewrite g_recv_unique_lookup_promotes_ok.
  destruct (lru_access size (ev_id e) w S ND L) as [A B].
  destruct (mem_str (ev_id e) w) eqn:M.
  - apply mem_str_In in M. rewrite (A M). rewrite g_recv_unique_hit_ok. reflexivity.
  - apply mem_str_false in M. destruct (B M) as [B1 B2]. rewrite B1, g_recv_unique_hit_ok, B2. reflexivity.
Qed.

Lemma recv_layer_event size now w e :
  1 <= size -> NoDup w -> zlen w <= size ->
  mw_client_step (RecvUnique size) now (StLru w) (CEvent e) =
  (StLru (lru_touch size (ev_id e) w),
   if mem_str (ev_id e) w then Reject (recv_reply e) else Forward (CEvent e)).
Proof.
  intros S ND L. cbn [mw_client_step st_lru]. now rewrite (recv_unique_step size w e S ND L).
Qed.

Lemma cev_ids_cons m h acc :
  cev_ids (m :: h) acc = cev_ids h (match m with CEvent e => ev_id e :: acc | _ => acc end).
Proof. destruct m; reflexivity. Qed.

(** [lru_is_recent_window]: after every history the cache holds exactly the
    last [size] distinct event ids seen, newest first *)
Theorem lru_is_recent_window size now h seen :
  1 <= size ->
  fst (layer_run (RecvUnique size) now (StLru (window size seen)) h) = StLru (window size (cev_ids h seen)).
Proof.
  intro S. revert seen. induction h as [|m h IH]; intro seen; [reflexivity|].
  cbn [layer_run]. rewrite cev_ids_cons.
  destruct m as [e| | | |];
    try (cbn [mw_client_step]; specialize (IH seen);
         destruct (layer_run (RecvUnique size) now (StLru (window size seen)) h); exact IH).
  rewrite recv_layer_event by (auto using window_NoDup; apply window_len; lia).
  rewrite lru_touch_window by assumption. specialize (IH (ev_id e :: seen)).
  destruct (layer_run (RecvUnique size) now (StLru (window size (ev_id e :: seen))) h). exact IH.
Qed.

(** the decision for the next EVENT after any history: answered (OK false,
    its own id, the duplicate prefix) and not forwarded iff its id is among
    the last [size] distinct ids seen; forwarded unchanged otherwise *)
Theorem recv_unique_decision size now h e :
  1 <= size ->
  snd (mw_client_step (RecvUnique size) now (fst (layer_run (RecvUnique size) now (StLru []) h)) (CEvent e)) =
  if mem_str (ev_id e) (window size (cev_ids h [])) then Reject (recv_reply e) else Forward (CEvent e).
Proof.
  intro S. pose proof (lru_is_recent_window size now h [] S) as W.
  rewrite (window_nil size) in W. rewrite W.
  rewrite recv_layer_event by (auto using window_NoDup; apply window_len; lia). reflexivity.
Qed.

Theorem recv_unique_no_repeat size now h e :
  1 <= size -> In (ev_id e) (window size (cev_ids h [])) ->
  snd (mw_client_step (RecvUnique size) now (fst (layer_run (RecvUnique size) now (StLru []) h)) (CEvent e)) =
  Reject (SOk (ev_id e) false dup_prefix (txt "the event already found")).
Proof.
  intros S H. rewrite recv_unique_decision by assumption. apply mem_str_In in H. now rewrite H.
Qed.

Theorem recv_unique_no_false_reject size now h e :
  1 <= size -> ~ In (ev_id e) (cev_ids h []) ->
  snd (mw_client_step (RecvUnique size) now (fst (layer_run (RecvUnique size) now (StLru []) h)) (CEvent e)) =
  Forward (CEvent e).
Proof.
  intros S H. rewrite recv_unique_decision by assumption.
  assert (M : mem_str (ev_id e) (window size (cev_ids h [])) = false).
  { apply mem_str_false. intro H1. apply H. eapply window_In; eauto. }
  now rewrite M.
Qed.

(** ** send side *)
Fixpoint server_run (k : mwk) (st : mstate) (h : list smsg) : mstate * list (option smsg) :=
  match h with
  | [] => (st, [])
  | s :: r =>
      let (st1, o) := mw_server_step k st s in
      let (st2, os) := server_run k st1 r in
      (st2, o :: os)
  end.

Lemma send_layer_event size w sub e :
  1 <= size -> NoDup w -> zlen w <= size ->
  mw_server_step (SendUnique size) (StLru w) (SEvent sub e) =
  (StLru (lru_touch size (ev_id e) w), if mem_str (ev_id e) w then None else Some (SEvent sub e)).
Proof.
  intros S ND L. cbn [mw_server_step st_lru send_unique_server]. rewrite g_send_unique_lookup_promotes_ok.
  destruct (lru_access size (ev_id e) w S ND L) as [A B].
  destruct (mem_str (ev_id e) w) eqn:M.
  - apply mem_str_In in M. rewrite (A M). rewrite g_send_unique_hit_ok. reflexivity.
  - apply mem_str_false in M. destruct (B M) as [B1 B2]. rewrite B1, g_send_unique_hit_ok, B2. reflexivity.
Qed.

Lemma sev_ids_cons m h acc :
  sev_ids (m :: h) acc = sev_ids h (match m with SEvent _ e => ev_id e :: acc | _ => acc end).
Proof. destruct m; reflexivity. Qed.

Theorem send_lru_is_recent_window size h seen :
  1 <= size ->
  fst (server_run (SendUnique size) (StLru (window size seen)) h) = StLru (window size (sev_ids h seen)).
Proof.
  intro S. revert seen. induction h as [|m h IH]; intro seen; [reflexivity|].
  cbn [server_run]. rewrite sev_ids_cons.
  destruct m as [ |sub e| | | | | ];
    try (cbn [mw_server_step]; specialize (IH seen);
         destruct (server_run (SendUnique size) (StLru (window size seen)) h); exact IH).
  rewrite send_layer_event by (auto using window_NoDup; apply window_len; lia).
  rewrite lru_touch_window by assumption. specialize (IH (ev_id e :: seen)).
  destruct (server_run (SendUnique size) (StLru (window size (ev_id e :: seen))) h). exact IH.
Qed.

(** an EVENT is dropped (nothing is delivered) iff its id is among the last
    [size] distinct ids delivered-or-dropped before; it is delivered unchanged
    otherwise; every other server message is delivered unchanged *)
Theorem send_unique_decision size h sub e :
  1 <= size ->
  snd (mw_server_step (SendUnique size) (fst (server_run (SendUnique size) (StLru []) h)) (SEvent sub e)) =
  if mem_str (ev_id e) (window size (sev_ids h [])) then None else Some (SEvent sub e).
Proof.
  intro S. pose proof (send_lru_is_recent_window size h [] S) as W.
  rewrite (window_nil size) in W. rewrite W.
  rewrite send_layer_event by (auto using window_NoDup; apply window_len; lia). reflexivity.
Qed.

Theorem send_unique_no_repeat size h sub e :
  1 <= size -> In (ev_id e) (window size (sev_ids h [])) ->
  snd (mw_server_step (SendUnique size) (fst (server_run (SendUnique size) (StLru []) h)) (SEvent sub e)) = None.
Proof.
  intros S H. rewrite send_unique_decision by assumption. apply mem_str_In in H. now rewrite H.
Qed.

Theorem send_unique_no_false_drop size h sub e :
  1 <= size -> ~ In (ev_id e) (sev_ids h []) ->
  snd (mw_server_step (SendUnique size) (fst (server_run (SendUnique size) (StLru []) h)) (SEvent sub e)) =
  Some (SEvent sub e).
Proof.
  intros S H. rewrite send_unique_decision by assumption.
  assert (M : mem_str (ev_id e) (window size (sev_ids h [])) = false).
  { apply mem_str_false. intro H1. apply H. eapply window_In; eauto. }
  now rewrite M.
Qed.

(** consequence, in the words of the property: in every history the
    delivered EVENTs never show the same id twice within a window, i.e. a
    delivered id is never among the last [size] distinct ids before it *)
Theorem send_unique_delivered_outside_window size h sub e :
  1 <= size ->
  snd (mw_server_step (SendUnique size) (fst (server_run (SendUnique size) (StLru []) h)) (SEvent sub e)) <> None ->
  ~ In (ev_id e) (window size (sev_ids h [])).
Proof.
  intros S H Hin. apply H. now apply send_unique_no_repeat.
Qed.

(* ------------------------------------------------------------------ *)
(** ** sessions *)

Lemma nth_error_upd_same {A} i (x : A) l y : nth_error l i = Some y -> nth_error (upd i x l) i = Some x.
Proof.
  revert i. induction l as [|z l IH]; intros [|i]; simpl; try discriminate; auto.
Qed.

Lemma nth_error_upd_other {A} i j (x : A) l : i <> j -> nth_error (upd i x l) j = nth_error l j.
Proof.
  revert i j. induction l as [|z l IH]; intros [|i] [|j] H; simpl; auto; try congruence.
Qed.

(** a step of session [i] leaves every other session's state untouched ... *)
Theorem sys_step_other now sy i j o :
  i <> j -> nth_error (fst (sys_step now sy i o)) j = nth_error sy j.
Proof.
  intro H. unfold sys_step. destruct (nth_error sy i) as [ls|]; [|reflexivity].
  destruct (sess_step now ls o) as [ls' ob]. cbn [fst]. now apply nth_error_upd_other.
Qed.

(** ... and is determined by session [i]'s own state alone *)
Theorem sys_step_local now sy i o ls :
  nth_error sy i = Some ls ->
  snd (sys_step now sy i o) = snd (sess_step now ls o) /\
  nth_error (fst (sys_step now sy i o)) i = Some (fst (sess_step now ls o)).
Proof.
  intro H. unfold sys_step. rewrite H. destruct (sess_step now ls o) as [ls' ob]. cbn [fst snd].
  split; [reflexivity|]. eapply nth_error_upd_same; eauto.
Qed.

(** [sessions_independent]: in every interleaved history of any number of
    sessions, what session [j] shows and the state it ends in are those of
    running its own operations alone *)
Theorem sessions_independent now h : forall sy j ls,
  nth_error sy j = Some ls ->
  nth_error (fst (sys_run now sy h)) j = Some (fst (sess_run now ls (proj j h))) /\
  proj j (combine (List.map fst h) (snd (sys_run now sy h))) = snd (sess_run now ls (proj j h)).
Proof.
  induction h as [|[i o] h IH]; intros sy j ls H; [split; [exact H | reflexivity]|].
  cbn [sys_run proj List.map fst].
  destruct (sys_step now sy i o) as [sy1 ob] eqn:E.
  destruct (Nat.eqb i j) eqn:Eij.
  - apply Nat.eqb_eq in Eij. subst i.
    destruct (sys_step_local now sy j o ls H) as [A B]. rewrite E in A, B. cbn [fst snd] in A, B.
    cbn [sess_run]. destruct (sess_step now ls o) as [ls1 ob1] eqn:E1. cbn [fst snd] in A, B. subst ob1.
    destruct (IH sy1 j ls1 B) as [C D].
    destruct (sys_run now sy1 h) as [sy2 obs]. destruct (sess_run now ls1 (proj j h)) as [ls2 obs'].
    cbn [fst snd combine proj] in *. rewrite Nat.eqb_refl. split; [exact C | now f_equal].
  - apply Nat.eqb_neq in Eij.
    pose proof (sys_step_other now sy i j o Eij) as A. rewrite E in A. cbn [fst] in A. rewrite H in A.
    destruct (IH sy1 j ls A) as [C D].
    destruct (sys_run now sy1 h) as [sy2 obs]. cbn [fst snd combine proj] in *.
    apply Nat.eqb_neq in Eij. rewrite Eij. split; assumption.
Qed.

(* ================================================================== *)
(** * 4. the model satisfies the oracle, for every stack and every history *)

Definition wf_k (k : mwk) : Prop :=
  match k with
  | MaxSubs n => 0 <= n
  | RecvUnique s | SendUnique s => 1 <= s
  | _ => True
  end.

(** the oracle's state of a layer describes the model's state of that layer *)
Definition sim (l : layer) (sl : slayer) : Prop :=
  fst l = fst sl /\ wf_k (fst l) /\
  match fst l with
  | MaxSubs n => exists open, snd l = StSubs open /\ snd sl = SpOpen open /\ q_inv n open
  | RecvUnique size | SendUnique size => exists seen, snd l = StLru (window size seen) /\ snd sl = SpSeen seen
  | _ => True
  end.

Lemma cmsg_eqb_refl m : cmsg_eqb m m = true.
Proof. now apply cmsg_eqb_eq. Qed.
Lemma smsg_eqb_refl m : smsg_eqb m m = true.
Proof. now apply smsg_eqb_eq. Qed.

Lemma sp_reply_ok_plain k m r :
  (forall s, k <> RecvUnique s) -> reject_shape m r -> sp_reply_ok k m r = true.
Proof.
  intros H S. unfold sp_reply_ok. apply reject_shapeb_spec in S. rewrite S.
  destruct k; try reflexivity. exfalso. eapply H. reflexivity.
Qed.

Lemma sim_step now k st ss m :
  sim (k, st) (k, ss) ->
  match mw_client_step k now st m with
  | (st1, Forward m') =>
      m' = m /\ sp_verdict k now ss m <> VReject /\ sim (k, st1) (k, sp_update k ss m true)
  | (st1, Reject r) =>
      sp_verdict k now ss m = VReject /\ sp_reply_ok k m r = true /\
      sim (k, st1) (k, sp_update k ss m false)
  end.
Proof.
  intros (_ & W & S). cbn [fst snd] in *.
  assert (STL : stateless k = true ->
          match mw_client_step k now st m with
          | (st1, Forward m') => m' = m /\ sp_verdict k now ss m <> VReject /\ sim (k, st1) (k, sp_update k ss m true)
          | (st1, Reject r) => sp_verdict k now ss m = VReject /\ sp_reply_ok k m r = true /\
                               sim (k, st1) (k, sp_update k ss m false)
          end).
  { intro St. rewrite (stateless_step k now st m St).
    assert (V : sp_verdict k now ss m = if respectsb k now m then VForward else VReject)
      by (destruct k; try discriminate St; reflexivity).
    assert (U : forall b, sp_update k ss m b = ss) by (destruct k; try discriminate St; reflexivity).
    assert (SM : sim (k, st) (k, ss)) by (repeat split; auto; destruct k; auto; discriminate St).
    destruct (mw_client_cases k now m) as [[E R]|[r [E [R Sh]]]]; rewrite E, V, R, ?U.
    - repeat split; auto. discriminate.
    - repeat split; auto. apply sp_reply_ok_plain; auto. intros s ->. discriminate St. }
  destruct k; try (apply STL; reflexivity); clear STL.
  - (* quota *)
    destruct S as (open & -> & -> & I).
    rewrite quota_layer_step.
    destruct m as [e|sub fs|sub|e|sub fs];
      try solve [cbn [quota_client fst snd sp_verdict sp_update]; repeat split; auto; try discriminate;
                 cbn [fst snd]; eauto].
    + destruct (quota_req n open sub fs I) as [A B].
      cbn [sp_verdict sp_open sp_update].
      destruct (mem_str sub open) eqn:M; cbn [orb].
      * apply mem_str_In in M. rewrite (A (or_introl M)). cbn [fst snd].
        repeat split; auto; try discriminate. cbn [fst snd]. eexists; split; [reflexivity|]; split; [reflexivity|].
        pose proof (quota_step_inv n open (CReq sub fs) I) as I'. now rewrite (A (or_introl M)) in I'.
      * destruct (zlen open <? n) eqn:L.
        -- apply Z.ltb_lt in L. rewrite (A (or_intror L)). cbn [fst snd].
           repeat split; auto; try discriminate. cbn [fst snd]. eexists; split; [reflexivity|]; split; [reflexivity|].
           pose proof (quota_step_inv n open (CReq sub fs) I) as I'. now rewrite (A (or_intror L)) in I'.
        -- apply Z.ltb_ge in L. apply mem_str_false in M.
           destruct B as [t E]; [intros [H|H]; [contradiction | lia]|]. rewrite E. cbn [fst snd].
           repeat split; auto.
           ++ unfold sp_reply_ok. cbn [reject_shapeb]. now rewrite str_eqb_refl.
           ++ cbn [fst snd]. eexists; split; [reflexivity|]; split; [reflexivity|]. exact I.
    + (* CLOSE *)
      cbn [quota_client fst snd sp_verdict sp_update sp_open]. repeat split; auto; try discriminate.
      cbn [fst snd]. eexists; split; [reflexivity|]; split; [reflexivity|].
      apply (quota_step_inv n open (CClose sub) I).
  - (* receive-side unique *)
    destruct S as (seen & -> & ->).
    destruct m as [e|sub fs|sub|e|sub fs];
      try solve [cbn [mw_client_step sp_verdict sp_update]; repeat split; auto; try discriminate;
                 cbn [fst snd]; eauto].
    rewrite recv_layer_event by (auto using window_NoDup; apply window_len; cbn in W; lia).
    rewrite lru_touch_window by exact W.
    cbn [sp_verdict sp_seen sp_update].
    destruct (mem_str (ev_id e) (window size seen)) eqn:M.
    + repeat split; auto.
      * unfold sp_reply_ok, recv_reply. cbn [reject_shapeb]. now rewrite !str_eqb_refl.
      * cbn [fst snd]. eauto.
    + repeat split; auto.
      * destruct (mem_str (ev_id e) seen); discriminate.
      * cbn [fst snd]. eauto.
  - (* send-side unique: the identity on client messages *)
    cbn [mw_client_step mw_client sp_verdict sp_update]. repeat split; auto. discriminate.
Qed.

Lemma is_rejection_single k m r : is_rejection k m [] [r] = sp_reply_ok k m r.
Proof. reflexivity. Qed.

(** client messages *)
Lemma sim_client now m : forall ls sl,
  Forall2 sim ls sl ->
  exists sl',
    sp_client now sl m (opt_list (snd (fst (stack_client now ls m)))) (snd (stack_client now ls m)) = Some sl' /\
    Forall2 sim (fst (fst (stack_client now ls m))) sl'.
Proof.
  induction 1 as [|[k st] [k' ss] ls sl S F IH].
  - exists []. cbn. rewrite cmsg_eqb_refl. split; [reflexivity | constructor].
  - assert (k' = k) by (destruct S as [E _]; now cbn in E). subst k'.
    pose proof (sim_step now k st ss m S) as ST.
    pose proof (stack_client_spec now ls m) as SP.
    cbn [stack_client sp_client].
    destruct (mw_client_step k now st m) as [st1 [m'|r]].
    + destruct ST as (-> & NV & S1).
      destruct (stack_client now ls m) as [[inner' o] rs] eqn:E.
      destruct IH as (sl' & IH1 & IH2). cbn [fst snd] in IH1, IH2.
      assert (P : layer_server_many k st1 rs = (st1, rs)).
      { destruct o as [m'|].
        - destruct SP as (_ & -> & _). reflexivity.
        - destruct SP as (pre & l & post & r & _ & _ & _ & Sh & -> & _).
          apply reply_passes. eapply reject_shape_not_event; eauto. }
      rewrite P. cbn [fst snd]. rewrite IH1.
      exists ((k, sp_update k ss m true) :: sl'). split.
      * destruct (sp_verdict k now ss m); [reflexivity | congruence | reflexivity].
      * constructor; assumption.
    + destruct ST as (V & R & S1). cbn [fst snd opt_list]. rewrite V, is_rejection_single, R.
      exists ((k, sp_update k ss m false) :: sl). split; [reflexivity|]. constructor; assumption.
Qed.

(** server messages *)
Lemma stack_server_app a b s :
  stack_server (a ++ b) s =
  match stack_server b s with
  | (b', None) => (a ++ b', None)
  | (b', Some s') => let (a', o) := stack_server a s' in (a' ++ b', o)
  end.
Proof.
  induction a as [|[k st] a IH]; cbn [app stack_server].
  - destruct (stack_server b s) as [b' [s'|]]; reflexivity.
  - rewrite IH. destruct (stack_server b s) as [b' [s'|]]; [|reflexivity].
    destruct (stack_server a s') as [a' [s''|]]; [|reflexivity].
    destruct (mw_server_step k st s''); reflexivity.
Qed.

Lemma sim_server_step k st ss s :
  sim (k, st) (k, ss) ->
  (* not the send-side filter, or not an EVENT: identity on both sides *)
  ((forall n, k <> SendUnique n) \/ smsg_is_event s = false ->
   mw_server_step k st s = (st, Some s)) /\
  (forall size sub e, k = SendUnique size -> s = SEvent sub e ->
   exists seen, ss = SpSeen seen /\
     mw_server_step k st s =
       (StLru (window size (ev_id e :: seen)),
        if mem_str (ev_id e) (window size seen) then None else Some s) /\
     sim (k, StLru (window size (ev_id e :: seen))) (k, SpSeen (ev_id e :: seen))).
Proof.
  intros (_ & W & S). cbn [fst snd] in *. split; [apply mw_server_identity|].
  intros size sub e -> ->. destruct S as (seen & -> & ->). exists seen. split; [reflexivity|].
  rewrite send_layer_event by (auto using window_NoDup; apply window_len; cbn in W; lia).
  rewrite lru_touch_window by exact W. split; [reflexivity|].
  repeat split; auto. cbn [fst snd]. eauto.
Qed.

Lemma stack_server_single k st s :
  stack_server [(k, st)] s = let (st', o) := mw_server_step k st s in ([(k, st')], o).
Proof. reflexivity. Qed.

Lemma sp_in_other k ss outer s d :
  (forall n, k <> SendUnique n) \/ smsg_is_event s = false ->
  sp_server_in ((k, ss) :: outer) s d =
  match sp_server_in outer s d with Some o' => Some ((k, ss) :: o') | None => None end.
Proof.
  intro C. cbn [sp_server_in]. destruct C as [C|C].
  - destruct k; try reflexivity. exfalso. eapply C. reflexivity.
  - destruct k; try reflexivity. destruct s; try reflexivity. discriminate C.
Qed.

Lemma sp_in_event size ss outer sub e d :
  sp_server_in ((SendUnique size, ss) :: outer) (SEvent sub e) d =
  let seen := sp_seen ss in
  let l' := (SendUnique size, SpSeen (ev_id e :: seen)) in
  let pass := match sp_server_in outer (SEvent sub e) d with Some o' => Some (l' :: o') | None => None end in
  let drop := if d then None else Some (l' :: outer) in
  if mem_str (ev_id e) (window size seen) then drop
  else if mem_str (ev_id e) seen then match pass with Some x => Some x | None => drop end
  else pass.
Proof. reflexivity. Qed.

Definition is_some {A} (o : option A) : bool := match o with Some _ => true | None => false end.

Lemma sim_server s : forall ls sl,
  Forall2 sim ls sl ->
  (snd (stack_server ls s) = None \/ snd (stack_server ls s) = Some s) /\
  exists sl',
    sp_server_in (rev sl) s (is_some (snd (stack_server ls s))) = Some (rev sl') /\
    Forall2 sim (fst (stack_server ls s)) sl'.
Proof.
  intro ls. induction ls as [|l ls IH] using rev_ind; intros sl F.
  - inversion F; subst. split; [now right|]. exists []. split; [reflexivity | constructor].
  - apply Forall2_app_inv_l in F as (sl0 & sl1 & F0 & F1 & ->).
    inversion F1 as [|? x ? ? S F2]; subst. inversion F2; subst. clear F1 F2.
    destruct l as [k st], x as [k' ss].
    assert (k' = k) by (destruct S as [E _]; now cbn in E). subst k'.
    rewrite stack_server_app, rev_app_distr, stack_server_single. cbn [rev app].
    destruct (sim_server_step k st ss s S) as [ID EV].
    assert (Case : ((forall n, k <> SendUnique n) \/ smsg_is_event s = false) \/
                   exists size sub e, k = SendUnique size /\ s = SEvent sub e).
    { destruct k; try (left; left; intros n0 H0; discriminate H0).
      destruct s; try (left; right; reflexivity). right. eauto. }
    destruct Case as [C|(size & sub & e & -> & ->)].
    + rewrite (ID C). cbn [fst snd].
      destruct (IH sl0 F0) as (O & sl' & P & Q).
      destruct (stack_server ls s) as [ls' o] eqn:E. cbn [fst snd] in *.
      split; [exact O|]. exists (sl' ++ [(k, ss)]). split.
      * rewrite (sp_in_other k ss _ s _ C), P, rev_app_distr. reflexivity.
      * apply Forall2_app; [assumption | constructor; [assumption | constructor]].
    + destruct (EV size sub e eq_refl eq_refl) as (seen & -> & ST & S1). rewrite ST, sp_in_event.
      cbn [sp_seen]. destruct (mem_str (ev_id e) (window size seen)) eqn:M; cbn [fst snd is_some].
      * (* dropped by this layer: the outer layers never see it *)
        split; [now left|]. exists (sl0 ++ [(SendUnique size, SpSeen (ev_id e :: seen))]). split.
        -- rewrite rev_app_distr. reflexivity.
        -- apply Forall2_app; [assumption | constructor; [assumption | constructor]].
      * destruct (IH sl0 F0) as (O & sl' & P & Q).
        destruct (stack_server ls (SEvent sub e)) as [ls' o] eqn:E. cbn [fst snd] in *.
        split; [exact O|]. exists (sl' ++ [(SendUnique size, SpSeen (ev_id e :: seen))]). split.
        -- rewrite P, rev_app_distr. cbn [rev app]. destruct (mem_str (ev_id e) seen); reflexivity.
        -- apply Forall2_app; [assumption | constructor; [assumption | constructor]].
Qed.

Lemma sim_init ks : Forall wf_k ks -> Forall2 sim (stack_init ks) (sp_stack_init ks).
Proof.
  induction 1 as [|k ks W _ IH]; [constructor|].
  cbn [stack_init sp_stack_init List.map]. constructor; [|exact IH].
  split; [reflexivity|]. split; [exact W|]. cbn [fst snd].
  destruct k; cbn [mw_init sp_init]; auto.
  - exists []. repeat split; [constructor | exact W].
  - exists []. now rewrite window_nil.
  - exists []. now rewrite window_nil.
Qed.

Lemma sim_step_op now o : forall ls sl,
  Forall2 sim ls sl ->
  exists sl', sp_step now sl o (snd (sess_step now ls o)) = Some sl' /\
              Forall2 sim (fst (sess_step now ls o)) sl'.
Proof.
  intros ls sl F. destruct o as [m|s]; cbn [sess_step sp_step].
  - destruct (sim_client now m ls sl F) as (sl' & A & B).
    destruct (stack_client now ls m) as [[ls' d] rs]. cbn [fst snd] in *. eauto.
  - destruct (sim_server s ls sl F) as (O & sl' & A & B).
    destruct (stack_server ls s) as [ls' d]. cbn [fst snd] in *.
    destruct O as [-> | ->]; cbn [opt_list is_some] in *.
    + cbn. rewrite A, rev_involutive. eauto.
    + cbn [cmsgs_eqb smsgs_eqb list_eqb andb]. rewrite smsg_eqb_refl. cbn [andb].
      rewrite A, rev_involutive. eauto.
Qed.

(** [model_satisfies_oracle]: for every stack of middlewares (quota N >= 0,
    window sizes >= 1) and every history of client and server messages, what
    the model shows is accepted by the oracle that reads the property text *)
Theorem model_satisfies_oracle_from now h : forall ls sl,
  Forall2 sim ls sl -> sp_run now sl h (snd (sess_run now ls h)) = true.
Proof.
  induction h as [|o h IH]; intros ls sl F; [reflexivity|].
  cbn [sess_run]. destruct (sim_step_op now o ls sl F) as (sl' & A & B).
  destruct (sess_step now ls o) as [ls1 ob]. cbn [fst snd] in *.
  specialize (IH ls1 sl' B). destruct (sess_run now ls1 h) as [ls2 obs]. cbn [fst snd] in *.
  cbn [sp_run]. now rewrite A.
Qed.

Theorem model_satisfies_oracle now ks h :
  Forall wf_k ks -> sp_run now (sp_stack_init ks) h (snd (sess_run now (stack_init ks) h)) = true.
Proof. intro W. apply model_satisfies_oracle_from, sim_init, W. Qed.

Lemma nth_error_repeat {A} (x : A) n j : (j < n)%nat -> nth_error (repeat x n) j = Some x.
Proof.
  revert j. induction n as [|n IH]; intros [|j] H; simpl; try lia; [reflexivity | apply IH; lia].
Qed.

(** the same with any number of sessions sharing the middleware value: every
    session's own view of every interleaved history is accepted *)
Theorem model_satisfies_oracle_sys now ks n h j :
  Forall wf_k ks -> (j < n)%nat ->
  sp_run now (sp_stack_init ks) (proj j h)
         (proj j (combine (List.map fst h) (snd (sys_run now (sys_init ks n) h)))) = true.
Proof.
  intros W L.
  destruct (sessions_independent now h (sys_init ks n) j (stack_init ks)) as [_ E].
  { unfold sys_init. now apply nth_error_repeat. }
  rewrite E. now apply model_satisfies_oracle.
Qed.

(* ================================================================== *)
(** * 5. connections that come and go *)

(** a connection that begins starts from the initial state, whatever the
    slot held before (an earlier connection's state, or nothing) *)
Theorem slot_start_fresh ks now c : slot_step ks now c LStart = (Some (stack_init ks), ([], [])).
Proof. reflexivity. Qed.

(** while connected, a slot behaves as a session *)
Lemma slot_run_ops ks now ls ops :
  slot_run ks now (Some ls) (List.map LOp ops) =
  (Some (fst (sess_run now ls ops)), snd (sess_run now ls ops)).
Proof.
  revert ls. induction ops as [|o ops IH]; intro ls; [reflexivity|].
  cbn [List.map slot_run slot_step sess_run].
  destruct (sess_step now ls o) as [ls1 ob]. rewrite IH.
  destruct (sess_run now ls1 ops) as [ls2 obs]. reflexivity.
Qed.

Lemma slot_run_app ks now c a b :
  slot_run ks now c (a ++ b) =
  let (c1, oa) := slot_run ks now c a in
  let (c2, ob) := slot_run ks now c1 b in (c2, oa ++ ob).
Proof.
  revert c. induction a as [|l a IH]; intro c; cbn [app slot_run].
  - destruct (slot_run ks now c b); reflexivity.
  - destruct (slot_step ks now c l) as [c1 o]. rewrite IH.
    destruct (slot_run ks now c1 a) as [c2 oa]. destruct (slot_run ks now c2 b) as [c3 ob]. reflexivity.
Qed.

(** [connection_fresh]: after any history whatsoever in the slot, a
    connection that begins shows exactly what a session run from the initial
    state shows on its operations: nothing of what earlier connections did
    (subscriptions they left open, event ids they saw) is visible *)
Theorem connection_fresh ks now c before ops :
  snd (slot_run ks now c (before ++ LStart :: List.map LOp ops)) =
  snd (slot_run ks now c before) ++ ([], []) :: snd (sess_run now (stack_init ks) ops).
Proof.
  rewrite slot_run_app. destruct (slot_run ks now c before) as [c1 oa].
  cbn [slot_run slot_step]. rewrite slot_run_ops. reflexivity.
Qed.

Theorem lsys_step_other ks now sy i j l :
  i <> j -> nth_error (fst (lsys_step ks now sy i l)) j = nth_error sy j.
Proof.
  intro H. unfold lsys_step. destruct (nth_error sy i) as [c|]; [|reflexivity].
  destruct (slot_step ks now c l) as [c' ob]. cbn [fst]. now apply nth_error_upd_other.
Qed.

Theorem lsys_step_local ks now sy i l c :
  nth_error sy i = Some c ->
  snd (lsys_step ks now sy i l) = snd (slot_step ks now c l) /\
  nth_error (fst (lsys_step ks now sy i l)) i = Some (fst (slot_step ks now c l)).
Proof.
  intro H. unfold lsys_step. rewrite H. destruct (slot_step ks now c l) as [c' ob]. cbn [fst snd].
  split; [reflexivity|]. eapply nth_error_upd_same; eauto.
Qed.

(** [slots_independent]: in every interleaved history of connections that
    begin, talk and end in any number of slots, what slot [j] shows is what
    running its own history alone gives *)
Theorem slots_independent ks now h : forall sy j c,
  nth_error sy j = Some c ->
  nth_error (fst (lsys_run ks now sy h)) j = Some (fst (slot_run ks now c (proj j h))) /\
  proj j (combine (List.map fst h) (snd (lsys_run ks now sy h))) = snd (slot_run ks now c (proj j h)).
Proof.
  induction h as [|[i l] h IH]; intros sy j c H; [split; [exact H | reflexivity]|].
  cbn [lsys_run proj List.map fst].
  destruct (lsys_step ks now sy i l) as [sy1 ob] eqn:E.
  destruct (Nat.eqb i j) eqn:Eij.
  - apply Nat.eqb_eq in Eij. subst i.
    destruct (lsys_step_local ks now sy j l c H) as [A B]. rewrite E in A, B. cbn [fst snd] in A, B.
    cbn [slot_run]. destruct (slot_step ks now c l) as [c1 ob1] eqn:E1. cbn [fst snd] in A, B. subst ob1.
    destruct (IH sy1 j c1 B) as [C D].
    destruct (lsys_run ks now sy1 h) as [sy2 obs]. destruct (slot_run ks now c1 (proj j h)) as [c2 obs'].
    cbn [fst snd combine proj] in *. rewrite Nat.eqb_refl. split; [exact C | now f_equal].
  - apply Nat.eqb_neq in Eij.
    pose proof (lsys_step_other ks now sy i j l Eij) as A. rewrite E in A. cbn [fst] in A. rewrite H in A.
    destruct (IH sy1 j c A) as [C D].
    destruct (lsys_run ks now sy1 h) as [sy2 obs]. cbn [fst snd combine proj] in *.
    apply Nat.eqb_neq in Eij. rewrite Eij. split; assumption.
Qed.

(** the oracle's state of a slot describes the model's state of that slot *)
Definition slot_sim (c : slot) (sc : option (list slayer)) : Prop :=
  match c, sc with
  | None, None => True
  | Some ls, Some sl => Forall2 sim ls sl
  | _, _ => False
  end.

Theorem life_satisfies_oracle_from ks now h : Forall wf_k ks -> forall c sc,
  slot_sim c sc -> sp_life_run now ks sc h (snd (slot_run ks now c h)) = true.
Proof.
  intro W. induction h as [|l h IH]; intros c sc S; [reflexivity|].
  cbn [slot_run]. destruct l as [| |o]; cbn [slot_step].
  - specialize (IH (Some (stack_init ks)) (Some (sp_stack_init ks)) (sim_init ks W)).
    destruct (slot_run ks now (Some (stack_init ks)) h) as [c2 obs]. cbn [fst snd sp_life_run obs_empty andb] in *.
    exact IH.
  - specialize (IH None None I).
    destruct (slot_run ks now None h) as [c2 obs]. cbn [fst snd sp_life_run obs_empty andb] in *. exact IH.
  - destruct c as [ls|], sc as [sl|]; try contradiction.
    + cbn [slot_sim] in S. destruct (sim_step_op now o ls sl S) as (sl' & A & B).
      destruct (sess_step now ls o) as [ls1 ob]. cbn [fst snd] in *.
      specialize (IH (Some ls1) (Some sl') B).
      destruct (slot_run ks now (Some ls1) h) as [c2 obs]. cbn [fst snd sp_life_run] in *. now rewrite A.
    + specialize (IH None None I).
      destruct (slot_run ks now None h) as [c2 obs]. cbn [fst snd sp_life_run obs_empty andb] in *. exact IH.
Qed.

(** [life_model_satisfies_oracle]: one middleware value, any number of slots,
    any interleaving of connections beginning, talking and ending: every
    slot's own view is accepted by the oracle of the correspondence check,
    which judges every connection from the initial state of the text *)
Theorem life_model_satisfies_oracle now ks n h j :
  Forall wf_k ks -> (j < n)%nat ->
  sp_life_run now ks None (proj j h)
              (proj j (combine (List.map fst h) (snd (lsys_run ks now (lsys_init n) h)))) = true.
Proof.
  intros W L.
  destruct (slots_independent ks now h (lsys_init n) j None) as [_ E].
  { unfold lsys_init. now apply nth_error_repeat. }
  rewrite E. now apply life_satisfies_oracle_from.
Qed.
