(* MwProofs.v — proofs for C17 and C18 about the model of Mw.v.
   Section 1 characterises every generated guard (one lemma per guard: a
   changed guard breaks exactly that lemma); all later proofs use only those
   lemmas. *)
From Moc Require Import Base Msg Mw.
From Moc.Gen Require Import GenMw.
Import String.StringSyntax.
Open Scope Z_scope.

(* ================================================================== *)
(** * 1. generated guards *)

Lemma gtb_false a b : (a >? b) = false <-> a <= b.
Proof. rewrite Z.gtb_ltb. apply Z.ltb_ge. Qed.

Lemma g_mw_max_filters_req_ok n max : g_mw_max_filters_req n max = false <-> n <= max.
Proof. unfold g_mw_max_filters_req. apply gtb_false. Qed.
Lemma g_mw_max_filters_count_ok n max : g_mw_max_filters_count n max = false <-> n <= max.
Proof. unfold g_mw_max_filters_count. apply gtb_false. Qed.
Lemma g_mw_max_subid_req_ok n max : g_mw_max_subid_req n max = false <-> n <= max.
Proof. unfold g_mw_max_subid_req. apply gtb_false. Qed.
Lemma g_mw_max_subid_count_ok n max : g_mw_max_subid_count n max = false <-> n <= max.
Proof. unfold g_mw_max_subid_count. apply gtb_false. Qed.
Lemma g_mw_max_event_tags_ok n max : g_mw_max_event_tags n max = false <-> n <= max.
Proof. unfold g_mw_max_event_tags. apply gtb_false. Qed.
Lemma g_mw_max_content_ok n max : g_mw_max_content n max = false <-> n <= max.
Proof. unfold g_mw_max_content. apply gtb_false. Qed.

Lemma g_mw_max_limit_req_ok has l max :
  g_mw_max_limit_req has l max = false <-> (has = true -> l <= max).
Proof.
  unfold g_mw_max_limit_req. destruct has; simpl.
  - rewrite gtb_false. tauto.
  - split; [discriminate | reflexivity].
Qed.
Lemma g_mw_max_limit_count_ok has l max :
  g_mw_max_limit_count has l max = false <-> (has = true -> l <= max).
Proof.
  unfold g_mw_max_limit_count. destruct has; simpl.
  - rewrite gtb_false. tauto.
  - split; [discriminate | reflexivity].
Qed.

Lemma g_mw_created_lower_ok now ts l : g_mw_created_lower now ts l = false <-> now - l <= ts.
Proof. unfold g_mw_created_lower. rewrite gtb_false. lia. Qed.
Lemma g_mw_created_upper_ok now ts u : g_mw_created_upper now ts u = false <-> ts <= now + u.
Proof. unfold g_mw_created_upper. rewrite gtb_false. lia. Qed.
Lemma g_mw_created_window_old_ok now ts from to :
  g_mw_created_window_old now ts from to = false <-> now + from <= ts.
Proof. unfold g_mw_created_window_old. rewrite Z.ltb_ge. lia. Qed.
Lemma g_mw_created_window_far_ok now ts from to :
  g_mw_created_window_far now ts from to = false <-> ts <= now + to.
Proof. unfold g_mw_created_window_far. rewrite Z.ltb_ge. lia. Qed.

Lemma g_mw_allow_reject_ok b : g_mw_allow_reject b = false <-> b = true.
Proof. unfold g_mw_allow_reject. destruct b; simpl; split; congruence. Qed.
Lemma g_mw_deny_reject_ok b : g_mw_deny_reject b = false <-> b = false.
Proof. unfold g_mw_deny_reject. destruct b; simpl; split; congruence. Qed.

Lemma g_quota_over_ok n max : g_quota_over n max = false <-> n <= max.
Proof. unfold g_quota_over. apply gtb_false. Qed.
Lemma g_recv_unique_hit_ok b : g_recv_unique_hit b = b.
Proof. reflexivity. Qed.
Lemma g_send_unique_hit_ok b : g_send_unique_hit b = b.
Proof. reflexivity. Qed.
Lemma g_recv_unique_lookup_promotes_ok : g_recv_unique_lookup_promotes = true.
Proof. reflexivity. Qed.
Lemma g_send_unique_lookup_promotes_ok : g_send_unique_lookup_promotes = true.
Proof. reflexivity. Qed.

Lemma g_mw_ctor_bad_max_subs_ok n : g_mw_ctor_bad_max_subs n = false <-> 1 <= n.
Proof. unfold g_mw_ctor_bad_max_subs. apply Z.ltb_ge. Qed.
Lemma g_mw_ctor_bad_max_filters_ok n : g_mw_ctor_bad_max_filters n = false <-> 1 <= n.
Proof. unfold g_mw_ctor_bad_max_filters. apply Z.ltb_ge. Qed.
Lemma g_mw_ctor_bad_max_limit_ok n : g_mw_ctor_bad_max_limit n = false <-> 1 <= n.
Proof. unfold g_mw_ctor_bad_max_limit. apply Z.ltb_ge. Qed.
Lemma g_mw_ctor_bad_max_event_tags_ok n : g_mw_ctor_bad_max_event_tags n = false <-> 1 <= n.
Proof. unfold g_mw_ctor_bad_max_event_tags. apply Z.ltb_ge. Qed.
Lemma g_mw_ctor_bad_max_content_ok n : g_mw_ctor_bad_max_content n = false <-> 1 <= n.
Proof. unfold g_mw_ctor_bad_max_content. apply Z.ltb_ge. Qed.

(** BuildMiddlewareFromNIP11: the nil-pointer guard, and for a document with
    a limitation block no guard fires *)
Lemma g_nip11_outer_nil l : g_nip11_outer_identity true l = true.
Proof. reflexivity. Qed.
Lemma g_nip11_outer_present : g_nip11_outer_identity false false = false.
Proof. reflexivity. Qed.
Lemma g_nip11_inner_present : g_nip11_inner_identity false false = false.
Proof. reflexivity. Qed.

(** names and order of the chain, and its conditions *)
Lemma g_nip11_chain_names :
  List.map (fun x => (fst (fst x), snd (fst x))) g_nip11_chain =
  [ (txt "MaxSubscriptions", txt "NewMaxSubscriptionsMiddleware");
    (txt "MaxFilters", txt "NewMaxReqFiltersMiddleware");
    (txt "MaxLimit", txt "NewMaxLimitMiddleware");
    (txt "MaxEventTags", txt "NewMaxEventTagsMiddleware");
    (txt "MaxContentLength", txt "NewMaxContentLengthMiddleware");
    (txt "CreatedAtLowerLimit", txt "NewCreatedAtLowerLimitMiddleware");
    (txt "CreatedAtUpperLimit", txt "NewCreatedAtUpperLimitMiddleware") ].
Proof. reflexivity. Qed.

Lemma g_nip11_chain_conds :
  Forall (fun x => forall v, snd x v = negb (v =? 0)) g_nip11_chain.
Proof. unfold g_nip11_chain. repeat constructor. Qed.

(* ================================================================== *)
(** * 2. C17: the stateless limit middlewares *)

Lemma zlen_nonneg {A} (l : list A) : 0 <= zlen l.
Proof. unfold zlen. lia. Qed.

Lemma max_limit_existsb (g : bool -> Z -> Z -> bool) n fs :
  (forall has l, g has l n = false <-> (has = true -> l <= n)) ->
  (existsb (fun f => g (has_some (f_limit f)) (limit_or0 f) n) fs = false <->
   forall f l, In f fs -> f_limit f = Some l -> l <= n).
Proof.
  intro G. induction fs as [|f fs IH]; simpl.
  - split; [intros _ f l [] | reflexivity].
  - rewrite orb_false_iff, IH, G. split.
    + intros [H1 H2] f' l [<-|Hin] E.
      * unfold limit_or0, has_some in H1. rewrite E in H1. now apply H1.
      * eapply H2; eauto.
    + intro H. split.
      * unfold has_some, limit_or0. destruct (f_limit f) as [l|] eqn:E; [|discriminate].
        intros _. eapply H; eauto.
      * intros f' l Hin E. eapply H; eauto.
Qed.
