(* MwProofs.v — proofs for C17 and C18 about the model of Mw.v.
   Section 1 characterises every generated guard (one lemma per guard: a
   changed guard breaks exactly that lemma); all later proofs use only those
   lemmas. *)
From Moc Require Import Base Msg Mw.
From Moc.Gen Require Import GenMw.
Import String.StringSyntax.
Open Scope Z_scope.

(* ================================================================== *)
(** * 1. generated guards *)

Lemma gtb_false a b : (a >? b) = false <-> a <= b.
Proof. rewrite Z.gtb_ltb. apply Z.ltb_ge. Qed.

Lemma g_mw_max_filters_req_ok n max : g_mw_max_filters_req n max = false <-> n <= max.
Proof. unfold g_mw_max_filters_req. apply gtb_false. Qed.
Lemma g_mw_max_filters_count_ok n max : g_mw_max_filters_count n max = false <-> n <= max.
Proof. unfold g_mw_max_filters_count. apply gtb_false. Qed.
Lemma g_mw_max_subid_req_ok n max : g_mw_max_subid_req n max = false <-> n <= max.
Proof. unfold g_mw_max_subid_req. apply gtb_false. Qed.
Lemma g_mw_max_subid_count_ok n max : g_mw_max_subid_count n max = false <-> n <= max.
Proof. unfold g_mw_max_subid_count. apply gtb_false. Qed.
Lemma g_mw_max_event_tags_ok n max : g_mw_max_event_tags n max = false <-> n <= max.
Proof. unfold g_mw_max_event_tags. apply gtb_false. Qed.
Lemma g_mw_max_content_ok n max : g_mw_max_content n max = false <-> n <= max.
Proof. unfold g_mw_max_content. apply gtb_false. Qed.

Lemma g_mw_max_limit_req_ok has l max :
  g_mw_max_limit_req has l max = false <-> (has = true -> l <= max).
Proof.
  unfold g_mw_max_limit_req. destruct has; simpl.
  - rewrite gtb_false. tauto.
  - split; [discriminate | reflexivity].
Qed.
Lemma g_mw_max_limit_count_ok has l max :
  g_mw_max_limit_count has l max = false <-> (has = true -> l <= max).
Proof.
  unfold g_mw_max_limit_count. destruct has; simpl.
  - rewrite gtb_false. tauto.
  - split; [discriminate | reflexivity].
Qed.

Lemma g_mw_created_lower_ok now ts l : g_mw_created_lower now ts l = false <-> now - l <= ts.
Proof. unfold g_mw_created_lower. rewrite gtb_false. lia. Qed.
Lemma g_mw_created_upper_ok now ts u : g_mw_created_upper now ts u = false <-> ts <= now + u.
Proof. unfold g_mw_created_upper. rewrite gtb_false. lia. Qed.
Lemma g_mw_created_window_old_ok now ts from to :
  g_mw_created_window_old now ts from to = false <-> now + from <= ts.
Proof. unfold g_mw_created_window_old. rewrite Z.ltb_ge. lia. Qed.
Lemma g_mw_created_window_far_ok now ts from to :
  g_mw_created_window_far now ts from to = false <-> ts <= now + to.
Proof. unfold g_mw_created_window_far. rewrite Z.ltb_ge. lia. Qed.

Lemma g_mw_allow_reject_ok b : g_mw_allow_reject b = false <-> b = true.
Proof. unfold g_mw_allow_reject. destruct b; simpl; split; congruence. Qed.
Lemma g_mw_deny_reject_ok b : g_mw_deny_reject b = false <-> b = false.
Proof. unfold g_mw_deny_reject. destruct b; simpl; split; congruence. Qed.

Lemma g_quota_over_ok n max : g_quota_over n max = false <-> n <= max.
Proof. unfold g_quota_over. apply gtb_false. Qed.
Lemma g_recv_unique_hit_ok b : g_recv_unique_hit b = b.
Proof. reflexivity. Qed.
Lemma g_send_unique_hit_ok b : g_send_unique_hit b = b.
Proof. reflexivity. Qed.
Lemma g_recv_unique_lookup_promotes_ok : g_recv_unique_lookup_promotes = true.
Proof. reflexivity. Qed.
Lemma g_send_unique_lookup_promotes_ok : g_send_unique_lookup_promotes = true.
Proof. reflexivity. Qed.

Lemma g_mw_ctor_bad_max_subs_ok n : g_mw_ctor_bad_max_subs n = false <-> 1 <= n.
Proof. unfold g_mw_ctor_bad_max_subs. apply Z.ltb_ge. Qed.
Lemma g_mw_ctor_bad_max_filters_ok n : g_mw_ctor_bad_max_filters n = false <-> 1 <= n.
Proof. unfold g_mw_ctor_bad_max_filters. apply Z.ltb_ge. Qed.
Lemma g_mw_ctor_bad_max_limit_ok n : g_mw_ctor_bad_max_limit n = false <-> 1 <= n.
Proof. unfold g_mw_ctor_bad_max_limit. apply Z.ltb_ge. Qed.
Lemma g_mw_ctor_bad_max_event_tags_ok n : g_mw_ctor_bad_max_event_tags n = false <-> 1 <= n.
Proof. unfold g_mw_ctor_bad_max_event_tags. apply Z.ltb_ge. Qed.
Lemma g_mw_ctor_bad_max_content_ok n : g_mw_ctor_bad_max_content n = false <-> 1 <= n.
Proof. unfold g_mw_ctor_bad_max_content. apply Z.ltb_ge. Qed.

(** BuildMiddlewareFromNIP11: the nil-pointer guard, and for a document with
    a limitation block no guard fires *)
Lemma g_nip11_outer_nil l : g_nip11_outer_identity true l = true.
Proof. reflexivity. Qed.
Lemma g_nip11_outer_present : g_nip11_outer_identity false false = false.
Proof. reflexivity. Qed.
Lemma g_nip11_inner_present : g_nip11_inner_identity false false = false.
Proof. reflexivity. Qed.

(** names and order of the chain, and its conditions *)
Lemma g_nip11_chain_names :
  List.map (fun x => (fst (fst x), snd (fst x))) g_nip11_chain =
  [ (txt "MaxSubscriptions", txt "NewMaxSubscriptionsMiddleware");
    (txt "MaxFilters", txt "NewMaxReqFiltersMiddleware");
    (txt "MaxLimit", txt "NewMaxLimitMiddleware");
    (txt "MaxEventTags", txt "NewMaxEventTagsMiddleware");
    (txt "MaxContentLength", txt "NewMaxContentLengthMiddleware");
    (txt "CreatedAtLowerLimit", txt "NewCreatedAtLowerLimitMiddleware");
    (txt "CreatedAtUpperLimit", txt "NewCreatedAtUpperLimitMiddleware") ].
Proof. reflexivity. Qed.

Lemma g_nip11_chain_conds :
  Forall (fun x => forall v, snd x v = negb (v =? 0)) g_nip11_chain.
Proof. unfold g_nip11_chain. repeat constructor. Qed.

(* ================================================================== *)
(** * 2. C17: the stateless limit middlewares *)

Lemma zlen_nonneg {A} (l : list A) : 0 <= zlen l.
Proof. unfold zlen. lia. Qed.

Lemma max_limit_existsb (g : bool -> Z -> Z -> bool) n fs :
  (forall has l, g has l n = false <-> (has = true -> l <= n)) ->
  (existsb (fun f => g (has_some (f_limit f)) (limit_or0 f) n) fs = false <->
   forall f l, In f fs -> f_limit f = Some l -> l <= n).
Proof.
  intro G. induction fs as [|f fs IH]; simpl.
  - split; [intros _ f l [] | reflexivity].
  - rewrite orb_false_iff, IH, G. split.
    + intros [H1 H2] f' l [<-|Hin] E.
      * unfold limit_or0, has_some in H1. rewrite E in H1. now apply H1.
      * eapply H2; eauto.
    + intro H. split.
      * unfold has_some, limit_or0. destruct (f_limit f) as [l|] eqn:E; [|discriminate].
        intros _. eapply H; eauto.
      * intros f' l Hin E. eapply H; eauto.
Qed.

Lemma max_limit_forallb n fs :
  forallb (fun f => match f_limit f with None => true | Some l => l <=? n end) fs = true <->
  forall f l, In f fs -> f_limit f = Some l -> l <= n.
Proof.
  rewrite forallb_forall. split.
  - intros H f l Hin E. specialize (H f Hin). rewrite E in H. now apply Z.leb_le.
  - intros H f Hin. destruct (f_limit f) as [l|] eqn:E; [|reflexivity]. apply Z.leb_le. eauto.
Qed.

Ltac inv_eqs :=
  repeat match goal with
  | E : Some _ = Some _ |- _ => inversion E; subst; clear E
  | E : CEvent _ = CEvent _ |- _ => inversion E; subst; clear E
  | E : None = Some _ |- _ => discriminate E
  | E : CEvent _ = _ |- _ => discriminate E
  | E : CReq _ _ = _ |- _ => discriminate E
  | E : CClose _ = _ |- _ => discriminate E
  | E : CAuth _ = _ |- _ => discriminate E
  | E : CCount _ _ = _ |- _ => discriminate E
  end.

Lemma respectsb_spec k now m : respectsb k now m = true <-> respects k now m.
Proof.
  destruct k, m; cbn [respectsb respects filters_of];
    try (split; [intros _; intros; inv_eqs; exact I | reflexivity]);
    try (split; [intros _; intros; inv_eqs | reflexivity]);
    try rewrite max_limit_forallb;
    rewrite ?andb_true_iff, ?Z.leb_le, ?negb_true_iff;
    (split; [intros H; intros; inv_eqs; eauto | intros H; eauto]).
Qed.

Lemma guard_as_leb (g : bool) a b : (g = false <-> a <= b) -> g = negb (a <=? b).
Proof.
  intro H. destruct (a <=? b) eqn:E; simpl.
  - apply H. now apply Z.leb_le.
  - destruct g; [reflexivity|]. apply Z.leb_gt in E. assert (a <= b) by (now apply H). lia.
Qed.

Lemma bool_eq_by_iff (x y : bool) (P : Prop) : (x = false <-> P) -> (y = true <-> P) -> x = negb y.
Proof.
  destruct x, y; simpl; intros [A B] [C D]; try reflexivity.
  - specialize (B (C eq_refl)). discriminate.
  - specialize (D (A eq_refl)). discriminate.
Qed.

Lemma e_max_filters_req a b : g_mw_max_filters_req a b = negb (a <=? b).
Proof. apply guard_as_leb, g_mw_max_filters_req_ok. Qed.
Lemma e_max_filters_count a b : g_mw_max_filters_count a b = negb (a <=? b).
Proof. apply guard_as_leb, g_mw_max_filters_count_ok. Qed.
Lemma e_max_subid_req a b : g_mw_max_subid_req a b = negb (a <=? b).
Proof. apply guard_as_leb, g_mw_max_subid_req_ok. Qed.
Lemma e_max_subid_count a b : g_mw_max_subid_count a b = negb (a <=? b).
Proof. apply guard_as_leb, g_mw_max_subid_count_ok. Qed.
Lemma e_max_event_tags a b : g_mw_max_event_tags a b = negb (a <=? b).
Proof. apply guard_as_leb, g_mw_max_event_tags_ok. Qed.
Lemma e_max_content a b : g_mw_max_content a b = negb (a <=? b).
Proof. apply guard_as_leb, g_mw_max_content_ok. Qed.
Lemma e_created_lower now ts l : g_mw_created_lower now ts l = negb (now - l <=? ts).
Proof. apply guard_as_leb, g_mw_created_lower_ok. Qed.
Lemma e_created_upper now ts u : g_mw_created_upper now ts u = negb (ts <=? now + u).
Proof. apply guard_as_leb, g_mw_created_upper_ok. Qed.
Lemma e_created_window_old now ts from to : g_mw_created_window_old now ts from to = negb (now + from <=? ts).
Proof. apply guard_as_leb, g_mw_created_window_old_ok. Qed.
Lemma e_created_window_far now ts from to : g_mw_created_window_far now ts from to = negb (ts <=? now + to).
Proof. apply guard_as_leb, g_mw_created_window_far_ok. Qed.
Lemma e_allow b : g_mw_allow_reject b = negb b.
Proof. destruct b; [apply g_mw_allow_reject_ok; reflexivity|]. destruct (g_mw_allow_reject false) eqn:E; [reflexivity|]. apply g_mw_allow_reject_ok in E. discriminate. Qed.
Lemma e_deny b : g_mw_deny_reject b = b.
Proof. destruct b; [|apply g_mw_deny_reject_ok; reflexivity]. destruct (g_mw_deny_reject true) eqn:E; [reflexivity|]. apply g_mw_deny_reject_ok in E. discriminate. Qed.
Lemma e_max_limit_req n fs :
  existsb (fun f => g_mw_max_limit_req (has_some (f_limit f)) (limit_or0 f) n) fs =
  negb (forallb (fun f => match f_limit f with None => true | Some l => l <=? n end) fs).
Proof.
  eapply bool_eq_by_iff; [apply max_limit_existsb; intros; apply g_mw_max_limit_req_ok | apply max_limit_forallb].
Qed.
Lemma e_max_limit_count n fs :
  existsb (fun f => g_mw_max_limit_count (has_some (f_limit f)) (limit_or0 f) n) fs =
  negb (forallb (fun f => match f_limit f with None => true | Some l => l <=? n end) fs).
Proof.
  eapply bool_eq_by_iff; [apply max_limit_existsb; intros; apply g_mw_max_limit_count_ok | apply max_limit_forallb].
Qed.

(** the decision of a stateless middleware: forwards the message itself when
    the limit is respected, otherwise answers with the rejection for its type *)
Lemma mw_client_cases k now m :
  (mw_client k now m = Forward m /\ respectsb k now m = true) \/
  (exists r, mw_client k now m = Reject r /\ respectsb k now m = false /\ reject_shape m r).
Proof.
  destruct k, m; cbn [mw_client respectsb reject_shape]; try (left; split; reflexivity);
    rewrite ?e_max_filters_req, ?e_max_filters_count, ?e_max_subid_req, ?e_max_subid_count,
            ?e_max_event_tags, ?e_max_content, ?e_created_lower, ?e_created_upper,
            ?e_created_window_old, ?e_created_window_far, ?e_allow, ?e_deny,
            ?e_max_limit_req, ?e_max_limit_count;
    repeat match goal with
           | |- context [negb ?b] => destruct b; cbn [negb andb]
           end;
    try (left; split; reflexivity);
    right; eexists; (split; [reflexivity|]); (split; [reflexivity|]); do 2 eexists; reflexivity.
Qed.

(** forwarded unchanged exactly when the limit is respected *)
Theorem mw_iff k now m :
  stateless k = true -> (mw_client k now m = Forward m <-> respects k now m).
Proof.
  intros _. rewrite <- respectsb_spec.
  destruct (mw_client_cases k now m) as [[E R]|[r [E [R _]]]]; rewrite E, R; split; congruence.
Qed.

Theorem mw_forward_unchanged k now m m' : mw_client k now m = Forward m' -> m' = m.
Proof.
  destruct (mw_client_cases k now m) as [[E R]|[r [E _]]]; rewrite E; congruence.
Qed.

(** otherwise the message is answered with the rejection for its type, and
    nothing is forwarded (the result is the reply alone) *)
Theorem mw_reject_iff k now m :
  stateless k = true -> ((exists r, mw_client k now m = Reject r) <-> ~ respects k now m).
Proof.
  intros _. rewrite <- respectsb_spec.
  destruct (mw_client_cases k now m) as [[E R]|[r [E [R _]]]]; rewrite E, R; split.
  - intros [r H]; discriminate.
  - intro H; exfalso; now apply H.
  - intros _; discriminate.
  - intros _; now exists r.
Qed.

Theorem mw_reject_shape k now m r : mw_client k now m = Reject r -> reject_shape m r.
Proof.
  destruct (mw_client_cases k now m) as [[E R]|[r' [E [_ S]]]]; rewrite E; congruence.
Qed.

Lemma reject_shapeb_spec m r : reject_shapeb m r = true <-> reject_shape m r.
Proof.
  destruct m, r; simpl; try (split; [discriminate | intros [p [t H]]; discriminate]);
    try (split; [discriminate | intros []]).
  - destruct accepted; rewrite ?str_eqb_eq; split.
    + discriminate.
    + intros [p [t H]]; inversion H.
    + intros ->. eauto.
    + intros [p [t H]]; inversion H; reflexivity.
  - rewrite str_eqb_eq. split; [intros ->; eauto | intros [p [t H]]; inversion H; reflexivity].
  - rewrite str_eqb_eq. split; [intros ->; eauto | intros [p [t H]]; inversion H; reflexivity].
Qed.

(* ------------------------------------------------------------------ *)
(** ** one step of any middleware, stateful ones included *)

Lemma step_cases k now st m :
  (exists st', mw_client_step k now st m = (st', Forward m)) \/
  (exists st' r, mw_client_step k now st m = (st', Reject r) /\ reject_shape m r).
Proof.
  destruct k;
    try (unfold mw_client_step;
         match goal with |- context [mw_client ?k now m] =>
           destruct (mw_client_cases k now m) as [[E _]|[r [E [_ S]]]]; rewrite E; eauto end).
  - (* quota *)
    destruct m; cbn [mw_client_step quota_client]; eauto.
    destruct (g_quota_over _ _); [right | left]; eauto.
    do 2 eexists. split; [reflexivity|]. simpl. eauto.
  - (* receive-side unique *)
    destruct m; cbn [mw_client_step recv_unique_client]; eauto.
    destruct (lru_get _ _ _) as [w1 found]. destruct (g_recv_unique_hit found); [right | left]; eauto.
    do 2 eexists. split; [reflexivity|]. simpl. eauto.
Qed.

(** messages a middleware is not about pass, and its state is untouched *)
Theorem mw_other_pass k now st m :
  concerns k m = false -> mw_client_step k now st m = (st, Forward m).
Proof. destruct k, m; simpl; intro H; try discriminate; reflexivity. Qed.

(** every middleware but the send-side unique filter is the identity on
    server messages; that one is the identity on everything but EVENT *)
Theorem mw_server_identity k st s :
  (forall n, k <> SendUnique n) \/ smsg_is_event s = false -> mw_server_step k st s = (st, Some s).
Proof.
  intros [H|H].
  - destruct k; try reflexivity. exfalso. eapply H. reflexivity.
  - destruct k; try reflexivity. destruct s; try reflexivity. discriminate.
Qed.

Lemma reject_shape_not_event m r : reject_shape m r -> smsg_is_event r = false.
Proof. destruct m; simpl; try tauto; intros [p [t ->]]; reflexivity. Qed.

Lemma reply_passes k st r : smsg_is_event r = false -> layer_server_many k st [r] = (st, [r]).
Proof.
  intro H. cbn [layer_server_many]. rewrite (mw_server_identity k st r) by (now right). reflexivity.
Qed.

(* ------------------------------------------------------------------ *)
(** ** stacks *)

(** layer [l] forwards [m]; the layer after the message reached it *)
Definition fw (now : Z) (m : cmsg) (l : layer) : Prop :=
  snd (mw_client_step (fst l) now (snd l) m) = Forward m.
Definition adv (now : Z) (m : cmsg) (l : layer) : layer :=
  (fst l, fst (mw_client_step (fst l) now (snd l) m)).

(** A stack forwards a message iff every member, in its current state,
    would; it then forwards the message itself and nothing reaches the
    client.  Otherwise the reply is that of the outermost member that does
    not forward, members inside it never see the message, and nothing is
    forwarded. *)
Theorem stack_client_spec now ls m :
  match stack_client now ls m with
  | (ls', Some m', rs) =>
      m' = m /\ rs = [] /\ Forall (fw now m) ls /\ ls' = List.map (adv now m) ls
  | (ls', None, rs) =>
      exists pre l post r,
        ls = pre ++ l :: post /\ Forall (fw now m) pre /\
        snd (mw_client_step (fst l) now (snd l) m) = Reject r /\ reject_shape m r /\
        rs = [r] /\ ls' = List.map (adv now m) pre ++ adv now m l :: post
  end.
Proof.
  induction ls as [|[k st] inner IH]; cbn [stack_client].
  - repeat split; constructor.
  - assert (A : forall st1 c, mw_client_step k now st m = (st1, c) -> adv now m (k, st) = (k, st1)).
    { intros st1 c E. unfold adv. cbn [fst snd]. now rewrite E. }
    destruct (step_cases k now st m) as [[st1 E]|[st1 [r [E S]]]]; rewrite E.
    + assert (Fk : fw now m (k, st)) by (unfold fw; cbn [fst snd]; now rewrite E).
      destruct (stack_client now inner m) as [[inner' o] rs]. destruct o as [m'|].
      * destruct IH as [-> [-> [F ->]]]. cbn [layer_server_many List.map].
        rewrite (A _ _ E). repeat split. now constructor.
      * destruct IH as [pre [l [post [r [-> [F [R [S [-> ->]]]]]]]]].
        rewrite reply_passes by (eapply reject_shape_not_event; eauto).
        exists ((k, st) :: pre), l, post, r. cbn [List.map app]. rewrite (A _ _ E).
        repeat split; auto.
    + exists [], (k, st), inner, r. cbn [List.map app fst snd]. rewrite (A _ _ E), E.
      repeat split; auto.
Qed.

Lemma stack_init_cons k ks : stack_init (k :: ks) = (k, mw_init k) :: stack_init ks.
Proof. reflexivity. Qed.

Theorem stack_server_stateless ks s :
  Forall (fun k => stateless k = true) ks -> stack_server (stack_init ks) s = (stack_init ks, Some s).
Proof.
  induction 1 as [|k ks Hk _ IH]; [reflexivity|].
  rewrite stack_init_cons. cbn [stack_server]. rewrite IH.
  rewrite mw_server_identity; [reflexivity|]. left. intros n ->. discriminate.
Qed.

(** the reply of the outermost member whose limit is not respected *)
Fixpoint first_reject (ks : list mwk) (now : Z) (m : cmsg) : option smsg :=
  match ks with
  | [] => None
  | k :: r => match mw_client k now m with Reject x => Some x | Forward _ => first_reject r now m end
  end.

Definition all_respectb (ks : list mwk) (now : Z) (m : cmsg) : bool :=
  forallb (fun k => respectsb k now m) ks.

Lemma stateless_step k now st m : stateless k = true -> mw_client_step k now st m = (st, mw_client k now m).
Proof. destruct k; try discriminate; reflexivity. Qed.

Theorem stack_stateless_step now ks m :
  Forall (fun k => stateless k = true) ks ->
  stack_client now (stack_init ks) m =
  (stack_init ks, (if all_respectb ks now m then Some m else None), opt_list (first_reject ks now m)).
Proof.
  induction 1 as [|k ks Hk _ IH]; [reflexivity|].
  rewrite stack_init_cons. cbn [stack_client all_respectb forallb first_reject].
  fold (all_respectb ks now m).
  rewrite (stateless_step _ _ _ _ Hk).
  destruct (mw_client_cases k now m) as [[E R]|[r [E [R S]]]]; rewrite E, R; cbn [andb].
  - rewrite IH. destruct (first_reject ks now m) as [r|] eqn:F; cbn [opt_list layer_server_many]; [|reflexivity].
    assert (S : reject_shape m r).
    { clear - F. induction ks as [|k' ks IH]; [discriminate|]. simpl in F.
      destruct (mw_client k' now m) eqn:E; [now apply IH | inversion F; subst; eapply mw_reject_shape; eauto]. }
    rewrite (mw_server_identity k _ r) by (right; eapply reject_shape_not_event; eauto). reflexivity.
  - reflexivity.
Qed.

Lemma first_reject_none ks now m : first_reject ks now m = None <-> all_respectb ks now m = true.
Proof.
  induction ks as [|k ks IH]; simpl; [tauto|].
  destruct (mw_client_cases k now m) as [[E R]|[r [E [R _]]]]; rewrite E, R; simpl; [exact IH | split; discriminate].
Qed.

Lemma first_reject_some ks now m r :
  first_reject ks now m = Some r ->
  exists pre k post, ks = pre ++ k :: post /\ all_respectb pre now m = true /\
                     respectsb k now m = false /\ mw_client k now m = Reject r /\ reject_shape m r.
Proof.
  induction ks as [|k ks IH]; simpl; [discriminate|].
  destruct (mw_client_cases k now m) as [[E R]|[r' [E [R S]]]]; rewrite E.
  - intro F. destruct (IH F) as [pre [k' [post [-> [A [B [C D]]]]]]].
    exists (k :: pre), k', post. simpl. rewrite R. auto.
  - intro F. inversion F; subst. exists [], k, ks. simpl. auto.
Qed.

Lemma all_respectb_spec ks now m : all_respectb ks now m = true <-> Forall (fun k => respects k now m) ks.
Proof.
  unfold all_respectb. rewrite forallb_forall, Forall_forall.
  split; intros H k Hin; apply respectsb_spec; auto.
Qed.

(** [stack_conj]: a stack of limit middlewares forwards [m] — unchanged, with
    nothing sent to the client — exactly when every member's limit is
    respected; otherwise nothing is forwarded and the client receives exactly
    the reply of the outermost member whose limit is violated. *)
Theorem stack_conj now ks m :
  Forall (fun k => stateless k = true) ks ->
  (stack_client now (stack_init ks) m = (stack_init ks, Some m, []) <->
   Forall (fun k => respects k now m) ks) /\
  (~ Forall (fun k => respects k now m) ks ->
   exists pre k post r,
     ks = pre ++ k :: post /\ Forall (fun k => respects k now m) pre /\ ~ respects k now m /\
     mw_client k now m = Reject r /\ reject_shape m r /\
     stack_client now (stack_init ks) m = (stack_init ks, None, [r])).
Proof.
  intro St. rewrite (stack_stateless_step now ks m St). rewrite <- all_respectb_spec. split.
  - destruct (all_respectb ks now m) eqn:A.
    + apply first_reject_none in A. rewrite A. split; reflexivity.
    + split; [intro H; inversion H | discriminate].
  - intro N. destruct (all_respectb ks now m) eqn:A; [exfalso; now apply N|].
    destruct (first_reject ks now m) as [r|] eqn:F.
    + destruct (first_reject_some _ _ _ _ F) as [pre [k [post [E [P [Q [R S]]]]]]].
      exists pre, k, post, r. repeat split; auto.
      * now apply all_respectb_spec.
      * rewrite <- respectsb_spec. congruence.
    + apply first_reject_none in F. congruence.
Qed.

(** what a stack of limit middlewares shows for one operation *)
Definition stateless_obs (ks : list mwk) (now : Z) (o : op) : obs :=
  match o with
  | OClient m => ((if all_respectb ks now m then [m] else []), opt_list (first_reject ks now m))
  | OServer s => ([], [s])
  end.

(** over every history: the messages reaching the wrapped handler are the
    respected client messages in their order, every other client message is
    answered once, server messages pass unchanged and in order *)
Theorem stack_stateless_run now ks h :
  Forall (fun k => stateless k = true) ks ->
  sess_run now (stack_init ks) h = (stack_init ks, List.map (stateless_obs ks now) h).
Proof.
  intro St. induction h as [|o h IH]; [reflexivity|].
  cbn [sess_run List.map]. destruct o as [m|s]; cbn [sess_step stateless_obs].
  - rewrite (stack_stateless_step now ks m St). rewrite IH.
    destruct (all_respectb ks now m); reflexivity.
  - rewrite (stack_server_stateless ks s St). rewrite IH. reflexivity.
Qed.

Corollary stack_forwarded_in_order now ks ms :
  Forall (fun k => stateless k = true) ks ->
  List.concat (List.map fst (snd (sess_run now (stack_init ks) (List.map OClient ms)))) =
  filter (all_respectb ks now) ms.
Proof.
  intro St. rewrite (stack_stateless_run now ks _ St). cbn [snd].
  induction ms as [|m ms IH]; [reflexivity|]. simpl.
  destruct (all_respectb ks now m); simpl; now rewrite IH.
Qed.

(* ------------------------------------------------------------------ *)
(** ** BuildMiddlewareFromNIP11 *)

(** one entry of the chain whose condition is [v != 0] *)
Lemma chain_step l fld ctor cond rest acc v k :
  lim_field fld l = Some v ->
  (forall x, cond x = negb (x =? 0)) ->
  (v <> 0 -> ctor_mw ctor v = Some (Some k)) ->
  chain_build l ((fld, ctor, cond) :: rest) acc = chain_build l rest (nz v k ++ acc).
Proof.
  intros F C K. cbn [chain_build]. rewrite F, C. unfold nz.
  destruct (v =? 0) eqn:E; cbn [negb app]; [reflexivity|].
  apply Z.eqb_neq in E. now rewrite (K E).
Qed.

Lemma ctor_max_subs v : 0 <= v -> v <> 0 -> ctor_mw (txt "NewMaxSubscriptionsMiddleware") v = Some (Some (MaxSubs v)).
Proof.
  intros H N. assert (E : g_mw_ctor_bad_max_subs v = false) by (apply g_mw_ctor_bad_max_subs_ok; lia).
  cbv [ctor_mw]. cbn. now rewrite E.
Qed.
Lemma ctor_max_filters v : 0 <= v -> v <> 0 -> ctor_mw (txt "NewMaxReqFiltersMiddleware") v = Some (Some (MaxFilters v)).
Proof.
  intros H N. assert (E : g_mw_ctor_bad_max_filters v = false) by (apply g_mw_ctor_bad_max_filters_ok; lia).
  cbv [ctor_mw]. cbn. now rewrite E.
Qed.
Lemma ctor_max_limit v : 0 <= v -> v <> 0 -> ctor_mw (txt "NewMaxLimitMiddleware") v = Some (Some (MaxLimit v)).
Proof.
  intros H N. assert (E : g_mw_ctor_bad_max_limit v = false) by (apply g_mw_ctor_bad_max_limit_ok; lia).
  cbv [ctor_mw]. cbn. now rewrite E.
Qed.
Lemma ctor_max_event_tags v : 0 <= v -> v <> 0 -> ctor_mw (txt "NewMaxEventTagsMiddleware") v = Some (Some (MaxEventTags v)).
Proof.
  intros H N. assert (E : g_mw_ctor_bad_max_event_tags v = false) by (apply g_mw_ctor_bad_max_event_tags_ok; lia).
  cbv [ctor_mw]. cbn. now rewrite E.
Qed.
Lemma ctor_max_content v : 0 <= v -> v <> 0 -> ctor_mw (txt "NewMaxContentLengthMiddleware") v = Some (Some (MaxContentLen v)).
Proof.
  intros H N. assert (E : g_mw_ctor_bad_max_content v = false) by (apply g_mw_ctor_bad_max_content_ok; lia).
  cbv [ctor_mw]. cbn. now rewrite E.
Qed.
Lemma ctor_lower v : ctor_mw (txt "NewCreatedAtLowerLimitMiddleware") v = Some (Some (CreatedLower v)).
Proof. reflexivity. Qed.
Lemma ctor_upper v : ctor_mw (txt "NewCreatedAtUpperLimitMiddleware") v = Some (Some (CreatedUpper v)).
Proof. reflexivity. Qed.

(** the chain of a document with a limitation block is the stack of its
    non-zero limits (counts in range) *)
Theorem nip11_chain_equiv l : lim_nonneg l -> build_nip11 (DocLim l) = BStack (nip11_limits l).
Proof.
  intros (H1 & H2 & H3 & H4 & H5).
  unfold build_nip11. rewrite g_nip11_outer_present, g_nip11_inner_present.
  pose proof g_nip11_chain_names as N. pose proof g_nip11_chain_conds as C.
  destruct g_nip11_chain as [|[[f1 c1] d1] [|[[f2 c2] d2] [|[[f3 c3] d3] [|[[f4 c4] d4] [|[[f5 c5] d5]
    [|[[f6 c6] d6] [|[[f7 c7] d7] [|? ?]]]]]]]]; try discriminate N.
  cbn [List.map fst snd] in N. inversion N; subst; clear N.
  repeat match goal with H : Forall _ (_ :: _) |- _ => inversion H; subst; clear H end.
  cbn [snd] in *.
  rewrite (chain_step l _ _ _ _ _ (l_max_subs l) (MaxSubs (l_max_subs l))); auto using ctor_max_subs.
  rewrite (chain_step l _ _ _ _ _ (l_max_filters l) (MaxFilters (l_max_filters l))); auto using ctor_max_filters.
  rewrite (chain_step l _ _ _ _ _ (l_max_limit l) (MaxLimit (l_max_limit l))); auto using ctor_max_limit.
  rewrite (chain_step l _ _ _ _ _ (l_max_event_tags l) (MaxEventTags (l_max_event_tags l))); auto using ctor_max_event_tags.
  rewrite (chain_step l _ _ _ _ _ (l_max_content l) (MaxContentLen (l_max_content l))); auto using ctor_max_content.
  rewrite (chain_step l _ _ _ _ _ (l_lower l) (CreatedLower (l_lower l))); auto using ctor_lower.
  rewrite (chain_step l _ _ _ _ _ (l_upper l) (CreatedUpper (l_upper l))); auto using ctor_upper.
  cbn [chain_build]. unfold nip11_limits. now rewrite app_nil_r.
Qed.

(** a nil document: the identity *)
Theorem nip11_nil_identity : build_nip11 DocNil = BStack [].
Proof. unfold build_nip11. now rewrite g_nip11_outer_nil. Qed.

(** a limitation block that sets nothing: the identity *)
Theorem nip11_all_zero_identity : build_nip11 (DocLim zero_lim) = BStack [].
Proof.
  assert (H : lim_nonneg zero_lim) by (unfold lim_nonneg, zero_lim; simpl; lia).
  now rewrite (nip11_chain_equiv _ H).
Qed.

(** and the empty stack is the identity middleware *)
Theorem empty_stack_identity now h :
  sess_run now (stack_init []) h =
  (stack_init [], List.map (fun o => match o with OClient m => ([m], []) | OServer s => ([], [s]) end) h).
Proof.
  rewrite stack_stateless_run by constructor. f_equal; try (apply map_ext; intros [m|s]; reflexivity).
Qed.

(** a document without limitation block is the identity as soon as one of
    the generated guards covers it ... *)
Theorem nip11_no_limitation_identity_guarded :
  g_nip11_outer_identity false true || g_nip11_inner_identity false true = true ->
  build_nip11 DocNoLim = BStack [].
Proof.
  unfold build_nip11. intro H. apply orb_true_iff in H as [-> | H]; [reflexivity|].
  rewrite H. now destruct (g_nip11_outer_identity false true).
Qed.

(** ... which the current source does not do: with [Limitation == nil] the
    returned middleware dereferences the nil pointer when it is applied
    (defect F4).  The statement "no limitation block => identity" is refuted. *)
Theorem nip11_no_limitation_identity_refuted :
  exists d, no_limitation_block d /\ build_nip11 d = BPanic.
Proof. exists DocNoLim. split; [exact I | reflexivity]. Qed.

(* AFTER THE FIX (a nil guard for the limitation block, in either position
   read by the translator) the generated guard changes, the theorem above
   becomes false and is to be replaced by the full statement:

Theorem nip11_no_limitation_identity :
  forall d, no_limitation_block d -> build_nip11 d = BStack [].
Proof.
  intros [| |l] H; [apply nip11_nil_identity | apply nip11_no_limitation_identity_guarded; reflexivity | destruct H].
Qed.
*)

(** out of range: a negative count makes the constructor panic when the
    middleware is applied *)
Example nip11_negative_count_panics : build_nip11 (DocLim (mkLim 2 (-1) 0 0 0 0 0 0)) = BPanic.
Proof. reflexivity. Qed.
