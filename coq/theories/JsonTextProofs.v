(* JsonTextProofs.v -- proofs about the byte-level JSON model (JsonText.v):
   the parser is total for the fuel it is run with and monotone in fuel, the
   printer's output parses back to the value, the label pattern on bytes is
   the token-level pre-check of Codec.v, and the C10 theorems lifted to bytes. *)
From Moc Require Import Base Json CodecMsg Codec CodecProofs JsonText.
From Moc.Gen Require Import GenCodec.
Open Scope N_scope.

(* ------------------------------------------------------------------ *)
(** * Small facts *)

Lemma lead_ws_is_allowed : lead_ws_allowed = true.
Proof. reflexivity. Qed.

Lemma skip_ws_length s : (length (skip_ws s) <= length s)%nat.
Proof. induction s as [|c t IH]; simpl; [lia|]. destruct (is_ws c); simpl; lia. Qed.

Lemma skip_ws_head s c r : skip_ws s = c :: r -> is_ws c = false.
Proof.
  induction s as [|a t IH]; simpl; [discriminate|].
  destruct (is_ws a) eqn:E; [exact IH|]. intro H; inversion H; subst; exact E.
Qed.

Lemma skip_ws_nows c r : is_ws c = false -> skip_ws (c :: r) = c :: r.
Proof. intro H; simpl; now rewrite H. Qed.

Lemma skip_ws_idem s : skip_ws (skip_ws s) = skip_ws s.
Proof.
  destruct (skip_ws s) as [|c r] eqn:E; [reflexivity|].
  apply skip_ws_nows. eapply skip_ws_head; eauto.
Qed.

Lemma pcons_some x o y r : pcons x o = Some (y, r) -> exists y', o = Some (y', r) /\ y = x ++ y'.
Proof. destruct o as [[y' r']|]; simpl; [|discriminate]. intro H; inversion H; subst; eauto. Qed.

(* ------------------------------------------------------------------ *)
(** * One step of the string scanner *)

Inductive sstep :=
| SDone (rest : str)            (* closing quote *)
| SFail
| SEmit (x : str) (rest : str). (* decoded bytes, what remains (a strict suffix) *)

Definition pstep (s : str) : sstep :=
  match s with
  | [] => SFail
  | a :: t =>
      if a =? 34 then SDone t
      else if a <? 32 then SFail
      else if a =? 92 then
        match t with
        | [] => SFail
        | e :: t2 =>
            if (e =? 34) || (e =? 92) || (e =? 47) then SEmit [e] t2
            else if e =? 98 then SEmit [8] t2
            else if e =? 102 then SEmit [12] t2
            else if e =? 110 then SEmit [10] t2
            else if e =? 114 then SEmit [13] t2
            else if e =? 116 then SEmit [9] t2
            else if e =? 117 then
              match t2 with
              | h1 :: h2 :: h3 :: h4 :: t6 =>
                  match hex4 h1 h2 h3 h4 with
                  | None => SFail
                  | Some cp =>
                      if is_surr cp then
                        match t6 with
                        | b1 :: u1 :: l1 :: l2 :: l3 :: l4 :: t12 =>
                            if (b1 =? 92) && (u1 =? 117) then
                              match hex4 l1 l2 l3 l4 with
                              | Some lo =>
                                  if is_hi cp && is_lo lo
                                  then SEmit (enc_rune (surr_pair cp lo)) t12
                                  else SEmit fffd t6
                              | None => SEmit fffd t6
                              end
                            else SEmit fffd t6
                        | _ => SEmit fffd t6
                        end
                      else SEmit (enc_rune cp) t6
                  end
              | _ => SFail
              end
            else SFail
        end
      else if a <? 128 then SEmit [a] t
      else
        match t with
        | [] => SEmit fffd t
        | b :: t2 =>
            if is2 a b then SEmit [a; b] t2 else
            match t2 with
            | [] => SEmit fffd t
            | c :: t3 =>
                if is3 a b c then SEmit [a; b; c] t3 else
                match t3 with
                | [] => SEmit fffd t
                | d :: t4 =>
                    if is4 a b c d then SEmit [a; b; c; d] t4
                    else SEmit fffd t
                end
            end
        end
  end.

Lemma pstr_eq s :
  pstr s = match pstep s with
           | SDone r => Some ([], r)
           | SFail => None
           | SEmit x r => pcons x (pstr r)
           end.
Proof.
  destruct s as [|a t]; [reflexivity|].
  unfold pstep.
  change (pstr (a :: t)) with
    (if a =? 34 then Some ([], t)
      else if a <? 32 then None
      else if a =? 92 then
        match t with
        | [] => None
        | e :: t2 =>
            if (e =? 34) || (e =? 92) || (e =? 47) then pcons [e] (pstr t2)
            else if e =? 98 then pcons [8] (pstr t2)
            else if e =? 102 then pcons [12] (pstr t2)
            else if e =? 110 then pcons [10] (pstr t2)
            else if e =? 114 then pcons [13] (pstr t2)
            else if e =? 116 then pcons [9] (pstr t2)
            else if e =? 117 then
              match t2 with
              | h1 :: h2 :: h3 :: h4 :: t6 =>
                  match hex4 h1 h2 h3 h4 with
                  | None => None
                  | Some cp =>
                      if is_surr cp then
                        match t6 with
                        | b1 :: u1 :: l1 :: l2 :: l3 :: l4 :: t12 =>
                            if (b1 =? 92) && (u1 =? 117) then
                              match hex4 l1 l2 l3 l4 with
                              | Some lo =>
                                  if is_hi cp && is_lo lo
                                  then pcons (enc_rune (surr_pair cp lo)) (pstr t12)
                                  else pcons fffd (pstr t6)
                              | None => pcons fffd (pstr t6)
                              end
                            else pcons fffd (pstr t6)
                        | _ => pcons fffd (pstr t6)
                        end
                      else pcons (enc_rune cp) (pstr t6)
                  end
              | _ => None
              end
            else None
        end
      else if a <? 128 then pcons [a] (pstr t)
      else
        match t with
        | [] => pcons fffd (pstr t)
        | b :: t2 =>
            if is2 a b then pcons [a; b] (pstr t2) else
            match t2 with
            | [] => pcons fffd (pstr t)
            | c :: t3 =>
                if is3 a b c then pcons [a; b; c] (pstr t3) else
                match t3 with
                | [] => pcons fffd (pstr t)
                | d :: t4 =>
                    if is4 a b c d then pcons [a; b; c; d] (pstr t4)
                    else pcons fffd (pstr t)
                end
            end
        end).
  repeat match goal with
         | |- context [if ?c then _ else _] => destruct c
         | |- context [match ?x with [] => _ | _ :: _ => _ end] => is_var x; destruct x
         | |- context [match hex4 ?a ?b ?c ?d with _ => _ end] => destruct (hex4 a b c d)
         end; reflexivity.
Qed.

Ltac step_cases :=
  repeat match goal with
         | H : context [if ?c then _ else _] |- _ => destruct c eqn:?
         | H : context [match ?x with [] => _ | _ :: _ => _ end] |- _ => is_var x; destruct x
         | H : context [match hex4 ?a ?b ?c ?d with _ => _ end] |- _ => destruct (hex4 a b c d) eqn:?
         end.

Lemma pstep_emit_length s x r : pstep s = SEmit x r -> (length r < length s)%nat.
Proof.
  unfold pstep. intro H. destruct s as [|a t]; [discriminate|].
  step_cases; try discriminate; inversion H; subst; simpl; lia.
Qed.

Lemma pstep_done_length s r : pstep s = SDone r -> (length r < length s)%nat.
Proof.
  unfold pstep. intro H. destruct s as [|a t]; [discriminate|].
  step_cases; try discriminate; inversion H; subst; simpl; lia.
Qed.

Lemma pstr_length : forall s x r, pstr s = Some (x, r) -> (length r < length s)%nat.
Proof.
  intro s. remember (length s) as n eqn:En. revert s En.
  induction n as [n IH] using lt_wf_ind. intros s En x r H.
  rewrite pstr_eq in H. destruct (pstep s) as [r0| |y r0] eqn:Es.
  - inversion H; subst. apply pstep_done_length in Es. lia.
  - discriminate.
  - apply pcons_some in H as [y' [H _]]. pose proof (pstep_emit_length _ _ _ Es) as L.
    specialize (IH (length r0) ltac:(lia) r0 eq_refl _ _ H). lia.
Qed.

(* ------------------------------------------------------------------ *)
(** * Numbers and literals consume something *)

Lemma read_digits_length : forall s acc, (length (snd (read_digits s acc)) <= length s)%nat.
Proof.
  induction s as [|c t IH]; intro acc; simpl; [lia|].
  destruct (is_digit c); simpl; [specialize (IH (acc * 10 + (c - 48))); lia | lia].
Qed.

Lemma read_digits_cons_length c t acc :
  is_digit c = true -> (length (snd (read_digits (c :: t) acc)) <= length t)%nat.
Proof. intro H. cbn [read_digits]. rewrite H. apply read_digits_length. Qed.

Lemma tl_length {A} (l : list A) : (length (tl l) <= length l)%nat.
Proof. destruct l; simpl; lia. Qed.

Lemma pnum_length s n r : pnum s = Some (n, r) -> (length r < length s)%nat.
Proof.
  unfold pnum. intro H.
  set (s1 := if hd_is 45 s then tl s else s) in *.
  assert (L1 : (length s1 <= length s)%nat) by (subst s1; destruct (hd_is 45 s); [apply tl_length | lia]).
  destruct s1 as [|c t] eqn:Es1; [discriminate|].
  destruct (is_digit c) eqn:Ed; [|discriminate].
  destruct (if c =? 48 then (0, t) else read_digits (c :: t) 0) as [mag r1] eqn:Er1.
  assert (L2 : (length r1 <= length t)%nat).
  { destruct (c =? 48).
    - inversion Er1; subst; lia.
    - pose proof (read_digits_cons_length c t 0 Ed) as L. rewrite Er1 in L. exact L. }
  simpl in L1.
  destruct (hd_is 46 r1).
  - destruct (hd_digit (tl r1)); [|discriminate].
    pose proof (read_digits_length (tl r1) 0) as L3. pose proof (tl_length r1) as L4.
    set (r2 := snd (read_digits (tl r1) 0)) in *.
    destruct (hd_is 101 r2 || hd_is 69 r2).
    + destruct (hd_digit _); [|discriminate]. inversion H; subst.
      match goal with |- context [read_digits ?u 0] => pose proof (read_digits_length u 0) as L5;
        assert ((length u <= length r2)%nat) end.
      { destruct (hd_is 43 (tl r2) || hd_is 45 (tl r2)); pose proof (tl_length r2); pose proof (tl_length (tl r2)); lia. }
      lia.
    + inversion H; subst. lia.
  - destruct (hd_is 101 r1 || hd_is 69 r1).
    + destruct (hd_digit _); [|discriminate]. inversion H; subst.
      match goal with |- context [read_digits ?u 0] => pose proof (read_digits_length u 0) as L5;
        assert ((length u <= length r1)%nat) end.
      { destruct (hd_is 43 (tl r1) || hd_is 45 (tl r1)); pose proof (tl_length r1); pose proof (tl_length (tl r1)); lia. }
      lia.
    + inversion H; subst. lia.
Qed.

Lemma strip_prefix_length : forall p s r, strip_prefix p s = Some r -> (length r + length p = length s)%nat.
Proof.
  induction p as [|x p IH]; intros s r H; simpl in *.
  - inversion H; subst; lia.
  - destruct s as [|y s]; [discriminate|]. destruct (x =? y); [|discriminate].
    apply IH in H. simpl. lia.
Qed.

(* ------------------------------------------------------------------ *)
(** * The recursive descent: unfolding, consumption, totality, monotonicity *)

Lemma pval_S f d s : pval (S f) d s = pval_body (pelems f) (pmembers f) d s.
Proof. reflexivity. Qed.
Lemma pelems_S f d s : pelems (S f) d s = pelems_body (pval f) (pelems f) d s.
Proof. reflexivity. Qed.
Lemma pmembers_S f d s : pmembers (S f) d s = pmembers_body (pval f) (pmembers f) d s.
Proof. reflexivity. Qed.

Definition shrinks {A} (p : N -> str -> pres A) : Prop :=
  forall d s a r, p d s = POk a r -> (length r < length s)%nat.

Lemma pbind_ok {A B} (r : pres A) (k : A -> str -> pres B) b s :
  pbind r k = POk b s -> exists a s0, r = POk a s0 /\ k a s0 = POk b s.
Proof. destruct r; simpl; intro H; try discriminate; eauto. Qed.

Lemma skip_ws_cons_length s c r : skip_ws s = c :: r -> (length r < length s)%nat.
Proof. intro H. pose proof (skip_ws_length s) as L. rewrite H in L. simpl in L. lia. Qed.

Lemma pval_body_shrinks pe pm : shrinks pe -> shrinks pm -> shrinks (pval_body pe pm).
Proof.
  intros He Hm d s a r H. unfold pval_body in H.
  destruct (skip_ws s) as [|c r0] eqn:E; [discriminate|].
  apply skip_ws_cons_length in E.
  pose proof (skip_ws_length r0) as L0. pose proof (tl_length (skip_ws r0)) as L1.
  destruct (c =? 91).
  { destruct (max_depth <? d + 1); [discriminate|].
    destruct (hd_is 93 (skip_ws r0)).
    - inversion H; subst. lia.
    - apply pbind_ok in H as (l & s0 & H1 & H2). inversion H2; subst. apply He in H1. lia. }
  destruct (c =? 123).
  { destruct (max_depth <? d + 1); [discriminate|].
    destruct (hd_is 125 (skip_ws r0)).
    - inversion H; subst. lia.
    - apply pbind_ok in H as (l & s0 & H1 & H2). inversion H2; subst. apply Hm in H1. lia. }
  destruct (c =? 34).
  { destruct (pstr r0) as [[x r']|] eqn:Ep; [|discriminate]. inversion H; subst.
    apply pstr_length in Ep. lia. }
  destruct ((c =? 45) || is_digit c).
  { destruct (pnum (c :: r0)) as [[n r']|] eqn:Ep; [|discriminate]. inversion H; subst.
    apply pnum_length in Ep. simpl in Ep. lia. }
  destruct (strip_prefix lit_true (c :: r0)) eqn:E1.
  { inversion H; subst. apply strip_prefix_length in E1. simpl in E1. lia. }
  destruct (strip_prefix lit_false (c :: r0)) eqn:E2.
  { inversion H; subst. apply strip_prefix_length in E2. simpl in E2. lia. }
  destruct (strip_prefix lit_null (c :: r0)) eqn:E3; [|discriminate].
  inversion H; subst. apply strip_prefix_length in E3. simpl in E3. lia.
Qed.

Lemma pelems_body_shrinks pv pe : shrinks pv -> shrinks pe -> shrinks (pelems_body pv pe).
Proof.
  intros Hv He d s a r H. unfold pelems_body in H.
  apply pbind_ok in H as (v & s0 & H1 & H2). apply Hv in H1.
  destruct (skip_ws s0) as [|c r'] eqn:E; [discriminate|]. apply skip_ws_cons_length in E.
  destruct (c =? 44).
  - apply pbind_ok in H2 as (vs & s1 & H3 & H4). inversion H4; subst. apply He in H3. lia.
  - destruct (c =? 93); [|discriminate]. inversion H2; subst. lia.
Qed.

Lemma pmembers_body_shrinks pv pm : shrinks pv -> shrinks pm -> shrinks (pmembers_body pv pm).
Proof.
  intros Hv Hm d s a r H. unfold pmembers_body in H.
  destruct (skip_ws s) as [|q r0] eqn:E; [discriminate|]. apply skip_ws_cons_length in E.
  destruct (q =? 34); [|discriminate].
  destruct (pstr r0) as [[k r1]|] eqn:Ep; [|discriminate]. apply pstr_length in Ep.
  destruct (skip_ws r1) as [|c1 r2] eqn:E1; [discriminate|]. apply skip_ws_cons_length in E1.
  destruct (c1 =? 58); [|discriminate].
  apply pbind_ok in H as (v & r3 & H1 & H2). apply Hv in H1.
  destruct (skip_ws r3) as [|c3 r4] eqn:E3; [discriminate|]. apply skip_ws_cons_length in E3.
  destruct (c3 =? 44).
  - apply pbind_ok in H2 as (m & r5 & H3 & H4). inversion H4; subst. apply Hm in H3. lia.
  - destruct (c3 =? 125); [|discriminate]. inversion H2; subst. lia.
Qed.

Lemma parsers_shrink f : shrinks (pval f) /\ shrinks (pelems f) /\ shrinks (pmembers f).
Proof.
  induction f as [|f (Hv & He & Hm)].
  - repeat split; intros d s a r H; discriminate.
  - repeat split; intros d s a r H.
    + rewrite pval_S in H. eapply pval_body_shrinks; eauto.
    + rewrite pelems_S in H. eapply pelems_body_shrinks; eauto.
    + rewrite pmembers_S in H. eapply pmembers_body_shrinks; eauto.
Qed.

(** ** Totality: with fuel 2*|s|+1 the descent never stops for lack of fuel *)

Lemma pbind_nofuel {A B} (r : pres A) (k : A -> str -> pres B) :
  r <> PFuel -> (forall a s, r = POk a s -> k a s <> PFuel) -> pbind r k <> PFuel.
Proof. destruct r; simpl; intros H1 H2; [now apply H2 | discriminate | congruence]. Qed.

Lemma parsers_total f :
  (forall d s, (2 * length s + 1 <= f)%nat -> pval f d s <> PFuel) /\
  (forall d s, (2 * length s + 2 <= f)%nat -> pelems f d s <> PFuel) /\
  (forall d s, (2 * length s + 2 <= f)%nat -> pmembers f d s <> PFuel).
Proof.
  induction f as [|f (Hv & He & Hm)].
  - repeat split; intros d s H; lia.
  - destruct (parsers_shrink f) as (Sv & Se & Sm).
    repeat split; intros d s H.
    + rewrite pval_S. unfold pval_body.
      destruct (skip_ws s) as [|c r0] eqn:E; [discriminate|]. apply skip_ws_cons_length in E.
      pose proof (skip_ws_length r0) as L0.
      destruct (c =? 91).
      { destruct (max_depth <? d + 1); [discriminate|].
        destruct (hd_is 93 (skip_ws r0)); [discriminate|].
        apply pbind_nofuel; [apply He; lia | discriminate]. }
      destruct (c =? 123).
      { destruct (max_depth <? d + 1); [discriminate|].
        destruct (hd_is 125 (skip_ws r0)); [discriminate|].
        apply pbind_nofuel; [apply Hm; lia | discriminate]. }
      destruct (c =? 34). { destruct (pstr r0) as [[? ?]|]; discriminate. }
      destruct ((c =? 45) || is_digit c). { destruct (pnum (c :: r0)) as [[? ?]|]; discriminate. }
      destruct (strip_prefix lit_true (c :: r0)); [discriminate|].
      destruct (strip_prefix lit_false (c :: r0)); [discriminate|].
      destruct (strip_prefix lit_null (c :: r0)); discriminate.
    + rewrite pelems_S. unfold pelems_body.
      apply pbind_nofuel; [apply Hv; lia|]. intros v s0 H1. apply Sv in H1.
      destruct (skip_ws s0) as [|c r'] eqn:E; [discriminate|]. apply skip_ws_cons_length in E.
      destruct (c =? 44).
      * apply pbind_nofuel; [apply He; lia | discriminate].
      * destruct (c =? 93); discriminate.
    + rewrite pmembers_S. unfold pmembers_body.
      destruct (skip_ws s) as [|q r0] eqn:E; [discriminate|]. apply skip_ws_cons_length in E.
      destruct (q =? 34); [|discriminate].
      destruct (pstr r0) as [[k r1]|] eqn:Ep; [|discriminate]. apply pstr_length in Ep.
      destruct (skip_ws r1) as [|c1 r2] eqn:E1; [discriminate|]. apply skip_ws_cons_length in E1.
      destruct (c1 =? 58); [|discriminate].
      apply pbind_nofuel; [apply Hv; lia|]. intros v r3 H1. apply Sv in H1.
      destruct (skip_ws r3) as [|c3 r4] eqn:E3; [discriminate|]. apply skip_ws_cons_length in E3.
      destruct (c3 =? 44).
      * apply pbind_nofuel; [apply Hm; lia | discriminate].
      * destruct (c3 =? 125); discriminate.
Qed.

Theorem parse_total fuel b : (length b + 1 <= fuel)%nat -> parse_json_res fuel b <> PFuel.
Proof.
  intro H. unfold parse_json_res.
  apply pbind_nofuel.
  - apply (proj1 (parsers_total (fuel + fuel))). lia.
  - intros v r _. destruct (skip_ws r); discriminate.
Qed.

(** ** Monotonicity: more fuel never changes a definite answer *)

Definition ple {A} (r r' : pres A) : Prop := r = PFuel \/ r = r'.

Lemma ple_refl {A} (r : pres A) : ple r r.
Proof. now right. Qed.

Lemma pbind_ple {A B} (r r' : pres A) (k k' : A -> str -> pres B) :
  ple r r' -> (forall a s, ple (k a s) (k' a s)) -> ple (pbind r k) (pbind r' k').
Proof.
  intros [H|H] Hk; subst.
  - now left.
  - destruct r'; simpl; [apply Hk | now right | now right].
Qed.

Definition ple2 {A} (p p' : N -> str -> pres A) : Prop := forall d s, ple (p d s) (p' d s).

Lemma pval_body_ple pe pe' pm pm' : ple2 pe pe' -> ple2 pm pm' -> ple2 (pval_body pe pm) (pval_body pe' pm').
Proof.
  intros He Hm d s. unfold pval_body.
  destruct (skip_ws s) as [|c r0]; [apply ple_refl|].
  destruct (c =? 91).
  { destruct (max_depth <? d + 1); [apply ple_refl|].
    destruct (hd_is 93 (skip_ws r0)); [apply ple_refl|].
    apply pbind_ple; [apply He | intros; apply ple_refl]. }
  destruct (c =? 123).
  { destruct (max_depth <? d + 1); [apply ple_refl|].
    destruct (hd_is 125 (skip_ws r0)); [apply ple_refl|].
    apply pbind_ple; [apply Hm | intros; apply ple_refl]. }
  apply ple_refl.
Qed.

Lemma pelems_body_ple pv pv' pe pe' : ple2 pv pv' -> ple2 pe pe' -> ple2 (pelems_body pv pe) (pelems_body pv' pe').
Proof.
  intros Hv He d s. unfold pelems_body.
  apply pbind_ple; [apply Hv|]. intros v r.
  destruct (skip_ws r) as [|c r']; [apply ple_refl|].
  destruct (c =? 44); [|apply ple_refl].
  apply pbind_ple; [apply He | intros; apply ple_refl].
Qed.

Lemma pmembers_body_ple pv pv' pm pm' : ple2 pv pv' -> ple2 pm pm' -> ple2 (pmembers_body pv pm) (pmembers_body pv' pm').
Proof.
  intros Hv Hm d s. unfold pmembers_body.
  destruct (skip_ws s) as [|q r0]; [apply ple_refl|].
  destruct (q =? 34); [|apply ple_refl].
  destruct (pstr r0) as [[k r1]|]; [|apply ple_refl].
  destruct (skip_ws r1) as [|c1 r2]; [apply ple_refl|].
  destruct (c1 =? 58); [|apply ple_refl].
  apply pbind_ple; [apply Hv|]. intros v r3.
  destruct (skip_ws r3) as [|c3 r4]; [apply ple_refl|].
  destruct (c3 =? 44); [|apply ple_refl].
  apply pbind_ple; [apply Hm | intros; apply ple_refl].
Qed.

Lemma parsers_mono_step f :
  ple2 (pval f) (pval (S f)) /\ ple2 (pelems f) (pelems (S f)) /\ ple2 (pmembers f) (pmembers (S f)).
Proof.
  induction f as [|f (Hv & He & Hm)].
  - repeat split; intros d s; now left.
  - repeat split; intros d s.
    + rewrite (pval_S f), (pval_S (S f)). now apply pval_body_ple.
    + rewrite (pelems_S f), (pelems_S (S f)). now apply pelems_body_ple.
    + rewrite (pmembers_S f), (pmembers_S (S f)). now apply pmembers_body_ple.
Qed.

Lemma ple_trans {A} (a b c : pres A) : ple a b -> ple b c -> ple a c.
Proof. intros [H|H] [H'|H']; subst; (now left) || (now right). Qed.

Lemma parsers_mono f g : (f <= g)%nat ->
  ple2 (pval f) (pval g) /\ ple2 (pelems f) (pelems g) /\ ple2 (pmembers f) (pmembers g).
Proof.
  induction 1 as [|g Hle (Hv & He & Hm)].
  - repeat split; intros d s; apply ple_refl.
  - destruct (parsers_mono_step g) as (Hv' & He' & Hm').
    repeat split; intros d s; eapply ple_trans; eauto.
Qed.

Lemma pval_mono f g d s v r : (f <= g)%nat -> pval f d s = POk v r -> pval g d s = POk v r.
Proof. intros L H. destruct (proj1 (parsers_mono f g L) d s) as [E|E]; congruence. Qed.
Lemma pelems_mono f g d s v r : (f <= g)%nat -> pelems f d s = POk v r -> pelems g d s = POk v r.
Proof. intros L H. destruct (proj1 (proj2 (parsers_mono f g L)) d s) as [E|E]; congruence. Qed.
Lemma pmembers_mono f g d s v r : (f <= g)%nat -> pmembers f d s = POk v r -> pmembers g d s = POk v r.
Proof. intros L H. destruct (proj2 (proj2 (parsers_mono f g L)) d s) as [E|E]; congruence. Qed.

(** the answer does not depend on the fuel once there is enough of it *)
Theorem parse_fuel_irrelevant f1 f2 b :
  (length b + 1 <= f1)%nat -> (length b + 1 <= f2)%nat -> parse_json_res f1 b = parse_json_res f2 b.
Proof.
  assert (W : forall f g, (length b + 1 <= f)%nat -> (f <= g)%nat -> parse_json_res f b = parse_json_res g b).
  { intros f g Hf Hg. pose proof (parse_total f b Hf) as T. unfold parse_json_res in *.
    destruct (proj1 (parsers_mono (f + f) (g + g) ltac:(lia)) 0 b) as [E|E].
    - rewrite E in T. simpl in T. congruence.
    - now rewrite E. }
  intros H1 H2. destruct (Nat.le_ge_cases f1 f2); [apply W | symmetry; apply W]; assumption.
Qed.

(* ------------------------------------------------------------------ *)
(** * Printing then parsing: strings *)

Lemma utf8_valid_ind (P : str -> Prop) :
  P [] ->
  (forall a t, (a <? 128) = true -> utf8_valid t = true -> P t -> P (a :: t)) ->
  (forall a b t, (a <? 128) = false -> is2 a b = true -> utf8_valid t = true -> P t -> P (a :: b :: t)) ->
  (forall a b c t, (a <? 128) = false -> is2 a b = false -> is3 a b c = true ->
                   utf8_valid t = true -> P t -> P (a :: b :: c :: t)) ->
  (forall a b c d t, (a <? 128) = false -> is2 a b = false -> is3 a b c = false -> is4 a b c d = true ->
                     utf8_valid t = true -> P t -> P (a :: b :: c :: d :: t)) ->
  forall s, utf8_valid s = true -> P s.
Proof.
  intros P0 P1 P2 P3 P4 s. remember (length s) as n eqn:En. revert s En.
  induction n as [n IH] using lt_wf_ind. intros s En H.
  destruct s as [|a t]; [exact P0|]. simpl in H.
  destruct (a <? 128) eqn:Ea.
  { apply P1; auto. apply (IH (length t)); subst; simpl; auto. }
  destruct t as [|b t2]; [discriminate|].
  destruct (is2 a b) eqn:E2.
  { apply P2; auto. apply (IH (length t2)); subst; simpl; auto. }
  destruct t2 as [|c t3]; [discriminate|].
  destruct (is3 a b c) eqn:E3.
  { apply P3; auto. apply (IH (length t3)); subst; simpl; auto. }
  destruct t3 as [|d t4]; [discriminate|].
  destruct (is4 a b c d) eqn:E4; [|discriminate].
  apply P4; auto. apply (IH (length t4)); subst; simpl; auto.
Qed.

Lemma lt128_cases a : (a <? 128) = true -> In a (List.map N.of_nat (seq 0 128)).
Proof.
  intro H. apply N.ltb_lt in H. apply in_map_iff. exists (N.to_nat a). split.
  - apply N2Nat.id.
  - apply in_seq. lia.
Qed.

Lemma pstep_esc_byte a X : (a <? 128) = true -> pstep (esc_byte a ++ X) = SEmit [a] X.
Proof.
  intro H. apply lt128_cases in H. cbn in H.
  repeat (destruct H as [<-|H]; [reflexivity|]). contradiction.
Qed.

Lemma pstep_hi a t : (a <? 128) = false ->
  pstep (a :: t) =
  match t with
  | [] => SEmit fffd t
  | b :: t2 =>
      if is2 a b then SEmit [a; b] t2 else
      match t2 with
      | [] => SEmit fffd t
      | c :: t3 =>
          if is3 a b c then SEmit [a; b; c] t3 else
          match t3 with
          | [] => SEmit fffd t
          | d :: t4 => if is4 a b c d then SEmit [a; b; c; d] t4 else SEmit fffd t
          end
      end
  end.
Proof.
  intro H. apply N.ltb_ge in H. unfold pstep.
  replace (a =? 34) with false by (symmetry; apply N.eqb_neq; lia).
  replace (a <? 32) with false by (symmetry; apply N.ltb_ge; lia).
  replace (a =? 92) with false by (symmetry; apply N.eqb_neq; lia).
  replace (a <? 128) with false by (symmetry; apply N.ltb_ge; lia).
  reflexivity.
Qed.

Lemma pstr_print s : utf8_valid s = true ->
  forall rest, pstr (print_str_body s ++ 34 :: rest) = Some (s, rest).
Proof.
  revert s.
  apply (utf8_valid_ind (fun s => forall rest, pstr (print_str_body s ++ 34 :: rest) = Some (s, rest))).
  - reflexivity.
  - intros a t H _ IH rest. cbn [print_str_body]. rewrite H. rewrite <- app_assoc.
    rewrite pstr_eq, pstep_esc_byte by assumption. cbv beta iota. rewrite IH. reflexivity.
  - intros a b t H H0 _ IH rest. cbn [print_str_body]. rewrite H, H0. cbn [app].
    rewrite pstr_eq, pstep_hi by assumption. rewrite H0. cbv beta iota. rewrite IH. reflexivity.
  - intros a b c t H H0 H1 _ IH rest. cbn [print_str_body]. rewrite H, H0, H1. rewrite <- app_assoc.
    unfold seq3. destruct ((a =? 226) && (b =? 128) && ((c =? 168) || (c =? 169))) eqn:E.
    + apply andb_true_iff in E as [E Ec]. apply andb_true_iff in E as [Ea Eb].
      apply N.eqb_eq in Ea, Eb. subst a b.
      apply orb_true_iff in Ec as [Ec|Ec]; apply N.eqb_eq in Ec; subst c; rewrite pstr_eq; cbn [app].
      * change (pstep _) with (SEmit [226; 128; 168] (print_str_body t ++ 34 :: rest)).
        cbv beta iota. rewrite IH; reflexivity.
      * change (pstep _) with (SEmit [226; 128; 169] (print_str_body t ++ 34 :: rest)).
        cbv beta iota. rewrite IH; reflexivity.
    + cbn [app]. rewrite pstr_eq, pstep_hi by assumption. rewrite H0, H1. cbv beta iota. rewrite IH. reflexivity.
  - intros a b c d t H H0 H1 H2 _ IH rest. cbn [print_str_body]. rewrite H, H0, H1, H2. cbn [app].
    rewrite pstr_eq, pstep_hi by assumption. rewrite H0, H1, H2. cbv beta iota. rewrite IH. reflexivity.
Qed.

(* ------------------------------------------------------------------ *)
(** * Printing then parsing: numbers *)

Lemma digit_of_mod n : is_digit (48 + n mod 10) = true /\ 48 + n mod 10 - 48 = n mod 10.
Proof.
  pose proof (N.mod_upper_bound n 10 ltac:(lia)) as H. unfold is_digit.
  set (x := n mod 10) in *. clearbody x. split.
  - apply andb_true_iff; split; apply N.leb_le; lia.
  - lia.
Qed.

Lemma read_digits_digits_of : forall f n tl, n < 10 ^ N.of_nat f ->
  exists k, forall a, read_digits (digits_of f n tl) a = read_digits tl (a * 10 ^ k + n).
Proof.
  induction f as [|f IH]; intros n tl H.
  - simpl in H. exists 0. intro a. simpl. f_equal. lia.
  - rewrite Nat2N.inj_succ, N.pow_succ_r' in H.
    cbn [digits_of]. destruct (digit_of_mod n) as [Hd He].
    destruct (n <? 10) eqn:E.
    + apply N.ltb_lt in E. exists 1. intro a. cbn [read_digits]. rewrite Hd, He.
      rewrite N.mod_small by assumption. rewrite N.pow_1_r. reflexivity.
    + apply N.ltb_ge in E.
      assert (Hq : n / 10 < 10 ^ N.of_nat f) by (apply N.div_lt_upper_bound; lia).
      destruct (IH (n / 10) ((48 + n mod 10) :: tl) Hq) as [k Hk].
      exists (N.succ k). intro a. rewrite Hk. cbn [read_digits]. rewrite Hd, He.
      f_equal. rewrite N.pow_succ_r'. pose proof (N.div_mod n 10 ltac:(lia)) as Hdm.
      set (q := n / 10) in *. set (m := n mod 10) in *. set (p := 10 ^ k) in *. clearbody q m p. lia.
Qed.

Lemma digits_of_app : forall f n tl, digits_of f n tl = digits_of f n [] ++ tl.
Proof.
  induction f as [|f IH]; intros n tl; [reflexivity|].
  cbn [digits_of]. destruct (n <? 10); [reflexivity|].
  rewrite IH. rewrite (IH (n / 10) [48 + n mod 10]). now rewrite <- app_assoc.
Qed.

Lemma digits_of_head : forall f n tl, 0 < n -> n < 10 ^ N.of_nat f ->
  exists c r, digits_of f n tl = c :: r /\ 49 <= c <= 57.
Proof.
  induction f as [|f IH]; intros n tl Hp H.
  - simpl in H. lia.
  - rewrite Nat2N.inj_succ, N.pow_succ_r' in H. cbn [digits_of].
    destruct (n <? 10) eqn:E.
    + apply N.ltb_lt in E. exists (48 + n mod 10), tl. split; [reflexivity|].
      rewrite N.mod_small by assumption. lia.
    + apply N.ltb_ge in E. apply IH.
      * apply N.div_str_pos. lia.
      * apply N.div_lt_upper_bound; lia.
Qed.

Lemma print_N_bound n : n < 10 ^ N.of_nat (S (N.to_nat (N.size n))).
Proof.
  rewrite Nat2N.inj_succ, N2Nat.id, N.pow_succ_r'.
  pose proof (N.size_gt n) as H.
  assert (2 ^ N.size n <= 10 ^ N.size n) by (apply N.pow_le_mono_l; lia).
  lia.
Qed.

Lemma read_digits_stop rest a : hd_digit rest = false -> read_digits rest a = (a, rest).
Proof. destruct rest as [|c t]; simpl; [reflexivity|]. now intros ->. Qed.

Lemma read_print_N n rest : hd_digit rest = false -> read_digits (print_N n ++ rest) 0 = (n, rest).
Proof.
  intro H. unfold print_N. rewrite <- digits_of_app.
  destruct (read_digits_digits_of _ n rest (print_N_bound n)) as [k Hk].
  rewrite Hk. rewrite read_digits_stop by assumption. reflexivity.
Qed.

Lemma print_N_zero : print_N 0 = [48].
Proof. reflexivity. Qed.

Lemma print_N_pos n : 0 < n -> exists c r, print_N n = c :: r /\ 49 <= c <= 57.
Proof. intro H. apply digits_of_head; [assumption | apply print_N_bound]. Qed.

Definition num_end (rest : str) : bool :=
  negb (hd_digit rest) && negb (hd_is 46 rest) && negb (hd_is 101 rest) && negb (hd_is 69 rest).

Lemma num_end_facts rest : num_end rest = true ->
  hd_digit rest = false /\ hd_is 46 rest = false /\ hd_is 101 rest = false /\ hd_is 69 rest = false.
Proof.
  unfold num_end. intro H.
  repeat (apply andb_true_iff in H as [H ?]).
  repeat split; now apply negb_true_iff.
Qed.

(** the fraction / exponent part, after the integer part *)
Definition pnum_tail (neg : bool) (mag : N) (r1 : str) : option (jnum * str) :=
  let fr :=
    if hd_is 46 r1 then
      if hd_digit (tl r1) then Some (true, snd (read_digits (tl r1) 0)) else None
    else Some (false, r1) in
  match fr with
  | None => None
  | Some (isf, r2) =>
      if hd_is 101 r2 || hd_is 69 r2 then
        let r3 := tl r2 in
        let r4 := if hd_is 43 r3 || hd_is 45 r3 then tl r3 else r3 in
        if hd_digit r4 then Some (NFrac, snd (read_digits r4 0)) else None
      else Some (if isf then NFrac else NInt neg mag, r2)
  end.

Lemma pnum_unsigned (neg : bool) (c : N) (t : str) :
  is_digit c = true ->
  pnum ((if neg then [45] else []) ++ c :: t) =
  let p := if c =? 48 then (0, t) else read_digits (c :: t) 0 in pnum_tail neg (fst p) (snd p).
Proof.
  intro Hd. unfold pnum, pnum_tail.
  assert (Hc : (c =? 45) = false).
  { unfold is_digit in Hd. apply andb_true_iff in Hd as [H1 H2]. apply N.leb_le in H1. apply N.eqb_neq. lia. }
  destruct neg; cbn [app hd_is tl]; rewrite ?N.eqb_refl, ?Hc, Hd;
    (destruct (c =? 48); [reflexivity | destruct (read_digits (c :: t) 0); reflexivity]).
Qed.

Lemma pnum_tail_end neg mag rest : num_end rest = true -> pnum_tail neg mag rest = Some (NInt neg mag, rest).
Proof.
  intro H. destruct (num_end_facts _ H) as (Hdig & H46 & H101 & H69).
  unfold pnum_tail. rewrite H46. cbv beta iota zeta. rewrite H101, H69. reflexivity.
Qed.

Lemma pnum_print n rest : num_end rest = true -> pnum (print_num n ++ rest) = Some (n, rest).
Proof.
  intro H. destruct (num_end_facts _ H) as (Hdig & H46 & H101 & H69).
  destruct n as [neg mag|].
  - cbn [print_num]. rewrite <- app_assoc.
    destruct (N.eq_dec mag 0) as [->|Hpos].
    + rewrite print_N_zero. cbn [app]. rewrite pnum_unsigned by reflexivity.
      cbn [N.eqb Pos.eqb fst snd]. now apply pnum_tail_end.
    + destruct (print_N_pos mag ltac:(lia)) as (c & r & Ec & Hc).
      pose proof (read_print_N mag rest Hdig) as R. rewrite Ec in R |- *. cbn [app] in R |- *.
      assert (Hd : is_digit c = true) by (unfold is_digit; apply andb_true_iff; split; apply N.leb_le; lia).
      rewrite pnum_unsigned by assumption.
      replace (c =? 48) with false by (symmetry; apply N.eqb_neq; lia).
      rewrite R. cbn [fst snd]. now apply pnum_tail_end.
  - cbn [print_num lit_frac app].
    change (pnum (49 :: 46 :: 53 :: rest)) with (pnum ((if false then [45] else []) ++ 49 :: 46 :: 53 :: rest)).
    rewrite pnum_unsigned by reflexivity.
    assert (R1 : read_digits (49 :: 46 :: 53 :: rest) 0 = (1, 46 :: 53 :: rest)) by reflexivity.
    assert (R2 : read_digits (53 :: rest) 0 = (5, rest)).
    { change (read_digits (53 :: rest) 0) with (read_digits rest 5). now apply read_digits_stop. }
    change (49 =? 48) with false. cbv beta iota.
    rewrite R1. unfold pnum_tail. cbn [fst snd].
    change (hd_is 46 (46 :: 53 :: rest)) with true. cbn [tl].
    change (hd_digit (53 :: rest)) with true. cbv beta iota zeta.
    rewrite R2. cbn [snd]. rewrite H101, H69. reflexivity.
Qed.

Lemma print_num_head n : exists c r, print_num n = c :: r /\ ((c =? 45) || is_digit c) = true.
Proof.
  destruct n as [neg mag|].
  - destruct neg; [exists 45, (print_N mag); split; reflexivity|].
    cbn [print_num app].
    destruct (N.eq_dec mag 0) as [->|Hpos].
    + exists 48, []. split; reflexivity.
    + destruct (print_N_pos mag ltac:(lia)) as (c & r & Ec & Hc). exists c, r. split; [assumption|].
      apply orb_true_iff; right. unfold is_digit. apply andb_true_iff; split; apply N.leb_le; lia.
  - exists 49, [46; 53]. split; reflexivity.
Qed.
(* ------------------------------------------------------------------ *)
(** * Printing then parsing: values *)

(** what may follow a value in a printed text *)
Definition val_end (rest : str) : bool :=
  match rest with
  | [] => true
  | c :: _ => (c =? 44) || (c =? 93) || (c =? 125) || is_ws c
  end.

Lemma val_end_num_end rest : val_end rest = true -> num_end rest = true.
Proof.
  destruct rest as [|c t]; [reflexivity|]. cbn [val_end]. unfold is_ws. intro H.
  repeat (apply orb_true_iff in H as [H|H]); apply N.eqb_eq in H; subst c; reflexivity.
Qed.

Lemma jv_ind2 (P : jv -> Prop)
  (Hn : P JNull) (Hb : forall b, P (JBool b)) (Hnum : forall n, P (JNum n)) (Hs : forall s, P (JStr s))
  (Ha : forall l, Forall P l -> P (JArr l))
  (Ho : forall m, Forall (fun kv => P (snd kv)) m -> P (JObj m)) : forall j, P j.
Proof.
  fix IH 1. intro j. destruct j as [|b|n|s|l|m].
  - exact Hn.
  - apply Hb.
  - apply Hnum.
  - apply Hs.
  - apply Ha. induction l as [|x l IHl]; constructor; [apply IH | exact IHl].
  - apply Ho. induction m as [|kv m IHm]; constructor; [apply IH | exact IHm].
Qed.

Lemma digit_not_ws c : is_digit c = true -> is_ws c = false /\ (c =? 93) = false /\ (c =? 125) = false /\
  (c =? 91) = false /\ (c =? 123) = false /\ (c =? 34) = false.
Proof.
  unfold is_digit, is_ws. intro H. apply andb_true_iff in H as [H1 H2]. apply N.leb_le in H1, H2.
  repeat split; rewrite ?orb_false_iff; repeat split; apply N.eqb_neq; lia.
Qed.

(** the first byte of a printed value *)
Definition val_start (c : N) : Prop :=
  is_ws c = false /\ (c =? 93) = false /\ (c =? 125) = false.

Lemma print_json_head j : exists c r, print_json j = c :: r /\ val_start c.
Proof.
  destruct j as [|b|n|s|l|m].
  - exists 110, [117; 108; 108]. repeat split.
  - destruct b; [exists 116, [114; 117; 101] | exists 102, [97; 108; 115; 101]]; repeat split.
  - destruct (print_num_head n) as (c & r & E & H). exists c, r. split; [exact E|].
    apply orb_true_iff in H as [H|H].
    + apply N.eqb_eq in H; subst c. repeat split.
    + destruct (digit_not_ws c H) as (? & ? & ? & _). repeat split; assumption.
  - exists 34, (print_str_body s ++ [34]). repeat split.
  - exists 91, (print_elems print_json l). repeat split.
  - exists 123, (print_members print_json m). repeat split.
Qed.

Lemma print_str_app k X : print_str k ++ X = 34 :: print_str_body k ++ 34 :: X.
Proof. unfold print_str. cbn [app]. now rewrite <- app_assoc. Qed.

Lemma jdepth_in_arr x l : In x l -> jdepth x <= fold_right (fun x acc => N.max (jdepth x) acc) 0 l.
Proof.
  induction l as [|y l IH]; [contradiction|]. intros [->|H]; simpl.
  - apply N.le_max_l.
  - etransitivity; [apply IH, H | apply N.le_max_r].
Qed.

Lemma jdepth_in_obj (kv : str * jv) m : In kv m -> jdepth (snd kv) <= fold_right (fun kv acc => N.max (jdepth (snd kv)) acc) 0 m.
Proof.
  induction m as [|y m IH]; [contradiction|]. intros [->|H]; simpl.
  - apply N.le_max_l.
  - etransitivity; [apply IH, H | apply N.le_max_r].
Qed.

(** the statement proved by induction on the value *)
Definition reads_back (x : jv) : Prop :=
  forall d rest, jv_utf8 x = true -> d + jdepth x <= max_depth -> val_end rest = true ->
  exists f, pval f d (print_json x ++ rest) = POk x rest.

Ltac norm_app := repeat (rewrite <- app_assoc || rewrite <- app_comm_cons || rewrite app_nil_l).

Lemma pelems_print : forall l, l <> [] -> Forall reads_back l ->
  forall d rest, forallb jv_utf8 l = true -> (forall x, In x l -> d + jdepth x <= max_depth) ->
  exists f, pelems f d (print_elems print_json l ++ rest) = POk l rest.
Proof.
  induction l as [|x l IH]; [congruence|]. intros _ HF d rest Hu Hd.
  inversion HF as [|? ? Hx HF']; subst. cbn [forallb] in Hu. apply andb_true_iff in Hu as [Hux Hul].
  destruct l as [|y l'].
  - (* last element *)
    cbn [print_elems]. norm_app.
    destruct (Hx d (93 :: rest) Hux (Hd x (or_introl eq_refl)) eq_refl) as [f Hf].
    exists (S f). rewrite pelems_S. unfold pelems_body. rewrite Hf. cbn [pbind].
    change (skip_ws (93 :: rest)) with (93 :: rest). reflexivity.
  - change (print_elems print_json (x :: y :: l')) with (print_json x ++ 44 :: print_elems print_json (y :: l')).
    norm_app.
    destruct (Hx d (44 :: print_elems print_json (y :: l') ++ rest) Hux (Hd x (or_introl eq_refl)) eq_refl) as [f1 Hf1].
    destruct (IH ltac:(discriminate) HF' d rest Hul (fun z Hz => Hd z (or_intror Hz))) as [f2 Hf2].
    exists (S (Nat.max f1 f2)). rewrite pelems_S. unfold pelems_body.
    rewrite (pval_mono f1 _ _ _ _ _ (Nat.le_max_l f1 f2) Hf1). cbn [pbind].
    change (skip_ws (44 :: ?X)) with (44 :: X).
    change (skip_ws (44 :: print_elems print_json (y :: l') ++ rest)) with (44 :: print_elems print_json (y :: l') ++ rest).
    cbv beta iota. change (44 =? 44) with true. cbv beta iota.
    rewrite (pelems_mono f2 _ _ _ _ _ (Nat.le_max_r f1 f2) Hf2). reflexivity.
Qed.

Lemma pmembers_print : forall m, m <> [] -> Forall (fun kv => reads_back (snd kv)) m ->
  forall d rest, forallb (fun kv => utf8_valid (fst kv) && jv_utf8 (snd kv)) m = true ->
  (forall kv, In kv m -> d + jdepth (snd kv) <= max_depth) ->
  exists f, pmembers f d (print_members print_json m ++ rest) = POk m rest.
Proof.
  induction m as [|[k v] m IH]; [congruence|]. intros _ HF d rest Hu Hd.
  inversion HF as [|? ? Hx HF']; subst. cbn [forallb fst snd] in Hu, Hx.
  apply andb_true_iff in Hu as [Hukv Hul]. apply andb_true_iff in Hukv as [Huk Huv].
  pose proof (Hd (k, v) (or_introl eq_refl)) as Hdv. cbn [snd] in Hdv.
  destruct m as [|kv' m'].
  - cbn [print_members fst snd]. norm_app. rewrite print_str_app.
    destruct (Hx d (125 :: rest) Huv Hdv eq_refl) as [f Hf].
    exists (S f). rewrite pmembers_S. unfold pmembers_body.
    match goal with |- context [skip_ws (34 :: ?X)] => change (skip_ws (34 :: X)) with (34 :: X) end.
    cbv beta iota. change (34 =? 34) with true. cbv beta iota.
    rewrite (pstr_print k Huk). cbv beta iota.
    match goal with |- context [skip_ws (58 :: ?X)] => change (skip_ws (58 :: X)) with (58 :: X) end.
    cbv beta iota. change (58 =? 58) with true. cbv beta iota.
    rewrite Hf. cbn [pbind].
    change (skip_ws (125 :: rest)) with (125 :: rest). reflexivity.
  - change (print_members print_json ((k, v) :: kv' :: m'))
      with (print_str k ++ 58 :: print_json v ++ 44 :: print_members print_json (kv' :: m')).
    norm_app. rewrite print_str_app.
    destruct (Hx d (44 :: print_members print_json (kv' :: m') ++ rest) Huv Hdv eq_refl) as [f1 Hf1].
    destruct (IH ltac:(discriminate) HF' d rest Hul (fun z Hz => Hd z (or_intror Hz))) as [f2 Hf2].
    exists (S (Nat.max f1 f2)). rewrite pmembers_S. unfold pmembers_body.
    match goal with |- context [skip_ws (34 :: ?X)] => change (skip_ws (34 :: X)) with (34 :: X) end.
    cbv beta iota. change (34 =? 34) with true. cbv beta iota.
    rewrite (pstr_print k Huk). cbv beta iota.
    match goal with |- context [skip_ws (58 :: ?X)] => change (skip_ws (58 :: X)) with (58 :: X) end.
    cbv beta iota. change (58 =? 58) with true. cbv beta iota.
    rewrite (pval_mono f1 _ _ _ _ _ (Nat.le_max_l f1 f2) Hf1). cbn [pbind].
    match goal with |- context [skip_ws (44 :: ?X)] => change (skip_ws (44 :: X)) with (44 :: X) end.
    cbv beta iota. change (44 =? 44) with true. cbv beta iota.
    rewrite (pmembers_mono f2 _ _ _ _ _ (Nat.le_max_r f1 f2) Hf2). reflexivity.
Qed.

Lemma pval_body_start pe pm d c r : is_ws c = false ->
  pval_body pe pm d (c :: r) =
      if c =? 91 then
        if max_depth <? d + 1 then PRej else
        let r1 := skip_ws r in
        if hd_is 93 r1 then POk (JArr []) (tl r1)
        else pbind (pe (d + 1) r1) (fun l r' => POk (JArr l) r')
      else if c =? 123 then
        if max_depth <? d + 1 then PRej else
        let r1 := skip_ws r in
        if hd_is 125 r1 then POk (JObj []) (tl r1)
        else pbind (pm (d + 1) r1) (fun m r' => POk (JObj m) r')
      else if c =? 34 then
        match pstr r with
        | Some (x, r') => POk (JStr x) r'
        | None => PRej
        end
      else if (c =? 45) || is_digit c then
        match pnum (c :: r) with
        | Some (n, r') => POk (JNum n) r'
        | None => PRej
        end
      else
        match strip_prefix lit_true (c :: r) with
        | Some r' => POk (JBool true) r'
        | None =>
            match strip_prefix lit_false (c :: r) with
            | Some r' => POk (JBool false) r'
            | None =>
                match strip_prefix lit_null (c :: r) with
                | Some r' => POk JNull r'
                | None => PRej
                end
            end
        end.
Proof. intro H. unfold pval_body. rewrite (skip_ws_nows c r H). reflexivity. Qed.

Lemma skip_ws_start c r : val_start c -> skip_ws (c :: r) = c :: r.
Proof. intros (H & _). now apply skip_ws_nows. Qed.

Lemma pval_print : forall j, reads_back j.
Proof.
  apply jv_ind2; unfold reads_back.
  - intros d rest _ _ _. exists 1%nat. reflexivity.
  - intros b d rest _ _ _. exists 1%nat. destruct b; reflexivity.
  - intros n d rest _ _ He. exists 1%nat. rewrite pval_S.
    destruct (print_num_head n) as (c & r & E & Hc).
    pose proof (pnum_print n rest (val_end_num_end _ He)) as Hp.
    cbn [print_json] in *. rewrite E in *. cbn [app] in *.
    assert (Hws : is_ws c = false /\ (c =? 91) = false /\ (c =? 123) = false /\ (c =? 34) = false).
    { apply orb_true_iff in Hc as [Hc|Hc].
      - apply N.eqb_eq in Hc; subst c. repeat split.
      - destruct (digit_not_ws c Hc) as (? & ? & ? & ? & ? & ?). repeat split; assumption. }
    destruct Hws as (Hws & H91 & H123 & H34).
    rewrite pval_body_start by assumption. rewrite H91, H123, H34, Hc, Hp. reflexivity.
  - intros s d rest Hu _ _. exists 1%nat. rewrite pval_S. cbn [print_json jv_utf8] in *.
    rewrite print_str_app. rewrite pval_body_start by reflexivity.
    change (34 =? 91) with false. change (34 =? 123) with false. change (34 =? 34) with true.
    cbv beta iota. rewrite (pstr_print s Hu). reflexivity.
  - (* arrays *)
    intros l HF d rest Hu Hd He. cbn [print_json jv_utf8 jdepth] in *.
    assert (Hdep : (max_depth <? d + 1) = false) by (apply N.ltb_ge; lia).
    destruct l as [|x l'].
    + exists 1%nat. rewrite pval_S. cbn [print_elems app]. rewrite pval_body_start by reflexivity.
      change (91 =? 91) with true. cbv beta iota. rewrite Hdep.
      change (skip_ws (93 :: rest)) with (93 :: rest). reflexivity.
    + destruct (pelems_print (x :: l') ltac:(discriminate) HF (d + 1) rest Hu) as [f Hf].
      { intros z Hz. pose proof (jdepth_in_arr z _ Hz). lia. }
      exists (S f). rewrite pval_S. cbn [app]. rewrite pval_body_start by reflexivity.
      change (91 =? 91) with true. cbv beta iota. rewrite Hdep.
      (* the first element starts with a byte that is neither white space nor a bracket *)
      destruct (print_json_head x) as (c & r & Ex & Hs).
      assert (Est : exists r', print_elems print_json (x :: l') ++ rest = c :: r').
      { destruct l' as [|y l'']; cbn [print_elems]; rewrite Ex; norm_app; eauto. }
      destruct Est as [r' Er']. rewrite Er' in *.
      rewrite (skip_ws_start c r' Hs). cbv zeta. cbn [hd_is].
      destruct Hs as (_ & H93 & _). rewrite H93, Hf. reflexivity.
  - (* objects *)
    intros m HF d rest Hu Hd He. cbn [print_json jv_utf8 jdepth] in *.
    assert (Hdep : (max_depth <? d + 1) = false) by (apply N.ltb_ge; lia).
    destruct m as [|kv m'].
    + exists 1%nat. rewrite pval_S. cbn [print_members app]. rewrite pval_body_start by reflexivity.
      change (123 =? 91) with false. change (123 =? 123) with true. cbv beta iota. rewrite Hdep.
      change (skip_ws (125 :: rest)) with (125 :: rest). reflexivity.
    + destruct (pmembers_print (kv :: m') ltac:(discriminate) HF (d + 1) rest Hu) as [f Hf].
      { intros z Hz. pose proof (jdepth_in_obj z _ Hz). lia. }
      exists (S f). rewrite pval_S. cbn [app]. rewrite pval_body_start by reflexivity.
      change (123 =? 91) with false. change (123 =? 123) with true. cbv beta iota. rewrite Hdep.
      assert (Est : exists r', print_members print_json (kv :: m') ++ rest = 34 :: r').
      { destruct m' as [|y m'']; cbn [print_members]; norm_app; rewrite print_str_app; eauto. }
      destruct Est as [r' Er']. rewrite Er' in *.
      change (skip_ws (34 :: r')) with (34 :: r'). cbv zeta. cbn [hd_is].
      change (34 =? 125) with false. rewrite Hf. reflexivity.
Qed.

Lemma text_ok_facts j : text_ok j = true -> jv_utf8 j = true /\ jdepth j <= max_depth.
Proof. unfold text_ok. intro H. apply andb_true_iff in H as [H1 H2]. apply N.leb_le in H2. auto. Qed.

(** the byte-level round trip *)
Theorem print_parse j fuel :
  text_ok j = true -> (length (print_json j) + 1 <= fuel)%nat ->
  parse_json fuel (print_json j) = Some j.
Proof.
  intros Hok Hf. destruct (text_ok_facts j Hok) as [Hu Hd].
  destruct (pval_print j 0 [] Hu ltac:(lia) eq_refl) as [f Hp]. rewrite app_nil_r in Hp.
  pose proof (parse_total fuel (print_json j) Hf) as T.
  unfold parse_json, parse_json_res in *.
  destruct (proj1 (parsers_mono (fuel + fuel) (Nat.max (fuel + fuel) f) (Nat.le_max_l _ _)) 0 (print_json j)) as [E|E].
  - rewrite E in T. simpl in T. congruence.
  - rewrite E. rewrite (pval_mono f _ _ _ _ _ (Nat.le_max_r (fuel + fuel) f) Hp). reflexivity.
Qed.

(* ------------------------------------------------------------------ *)
(** * White space between tokens is irrelevant *)

Lemma skip_ws_app w s : all_ws w = true -> skip_ws (w ++ s) = skip_ws s.
Proof.
  induction w as [|c w IH]; [reflexivity|]. cbn [all_ws forallb app skip_ws]. intro H.
  apply andb_true_iff in H as [Hc Hw]. rewrite Hc. now apply IH.
Qed.

Lemma pval_skip f d s : pval f d (skip_ws s) = pval f d s.
Proof. destruct f; [reflexivity|]. rewrite !pval_S. unfold pval_body. now rewrite skip_ws_idem. Qed.

Lemma pelems_skip f d s : pelems f d (skip_ws s) = pelems f d s.
Proof. destruct f; [reflexivity|]. rewrite !pelems_S. unfold pelems_body. now rewrite pval_skip. Qed.

Lemma pmembers_skip f d s : pmembers f d (skip_ws s) = pmembers f d s.
Proof. destruct f; [reflexivity|]. rewrite !pmembers_S. unfold pmembers_body. now rewrite skip_ws_idem. Qed.

Lemma pval_lead_ws f d w s : all_ws w = true -> pval f d (w ++ s) = pval f d s.
Proof. intro H. rewrite <- (pval_skip f d (w ++ s)), <- (pval_skip f d s). now rewrite skip_ws_app. Qed.

Lemma val_ends_app w c rest : all_ws w = true -> val_end (c :: rest) = true -> val_end (w ++ c :: rest) = true.
Proof.
  destruct w as [|x w]; [auto|]. cbn [all_ws forallb app val_end]. intros H _.
  apply andb_true_iff in H as [Hx _]. rewrite Hx. now rewrite !orb_true_r.
Qed.

Lemma wjv_ind2 (P : wjv -> Prop)
  (Ha : forall j, P (WAtom j))
  (Harr : forall w0 l, Forall (fun e : str * wjv * str => P (snd (fst e))) l -> P (WArr w0 l))
  (Hobj : forall w0 m, Forall (fun e : str * str * str * str * wjv * str => P (snd (fst e))) m -> P (WObj w0 m)) :
  forall d, P d.
Proof.
  fix IH 1. intro d. destruct d as [j|w0 l|w0 m].
  - apply Ha.
  - apply Harr. induction l as [|[[wb x] wa] l IHl]; constructor; [apply IH | exact IHl].
  - apply Hobj. induction m as [|[[[[[wb k] wk] wc] v] wa] m IHm]; constructor; [apply IH | exact IHm].
Qed.

Definition reads_back_w (x : wjv) : Prop :=
  forall d rest, ws_okb x = true -> jv_utf8 (erase x) = true -> d + jdepth (erase x) <= max_depth ->
  val_end rest = true ->
  exists f, pval f d (wprint x ++ rest) = POk (erase x) rest.

Definition erase_elem (e : str * wjv * str) : jv := erase (snd (fst e)).
Definition erase_member (e : str * str * str * str * wjv * str) : str * jv :=
  match e with (_, k, _, _, v, _) => (k, erase v) end.
Definition elem_ws_ok (e : str * wjv * str) : bool :=
  match e with (wb, x, wa) => all_ws wb && ws_okb x && all_ws wa end.
Definition member_ws_ok (e : str * str * str * str * wjv * str) : bool :=
  match e with (wb, _, wk, wc, v, wa) => all_ws wb && all_ws wk && all_ws wc && ws_okb v && all_ws wa end.

Lemma wprint_head x : exists c r, wprint x = c :: r /\ val_start c.
Proof.
  destruct x as [j|w0 l|w0 m].
  - apply print_json_head.
  - exists 91, (w0 ++ wprint_elems wprint l). repeat split.
  - exists 123, (w0 ++ wprint_members wprint m). repeat split.
Qed.

Lemma welems_print : forall l, l <> [] -> Forall (fun e => reads_back_w (snd (fst e))) l ->
  forall d rest, forallb elem_ws_ok l = true -> forallb jv_utf8 (List.map erase_elem l) = true ->
  (forall x, In x (List.map erase_elem l) -> d + jdepth x <= max_depth) -> val_end rest = true ->
  exists f, pelems f d (wprint_elems wprint l ++ rest) = POk (List.map erase_elem l) rest.
Proof.
  induction l as [|[[wb x] wa] l IH]; [congruence|]. intros _ HF d rest Hw Hu Hd He.
  inversion HF as [|? ? Hx HF']; subst. cbn [snd fst] in Hx.
  cbn [forallb List.map] in Hw, Hu, Hd. unfold erase_elem at 1 in Hu. unfold erase_elem at 1 in Hd. cbn [snd fst] in Hu, Hd.
  apply andb_true_iff in Hw as [Hwx Hwl]. unfold elem_ws_ok in Hwx.
  apply andb_true_iff in Hwx as [Hwx Hwa]. apply andb_true_iff in Hwx as [Hwb Hwx].
  apply andb_true_iff in Hu as [Hux Hul].
  assert (Hdx : d + jdepth (erase x) <= max_depth) by (apply Hd; now left).
  destruct l as [|e' l'].
  - cbn [wprint_elems List.map]. norm_app.
    destruct (Hx d (wa ++ 93 :: rest) Hwx Hux Hdx (val_ends_app wa 93 rest Hwa eq_refl)) as [f Hf].
    exists (S f). rewrite pelems_S. unfold pelems_body. rewrite (pval_lead_ws f d wb _ Hwb), Hf. cbn [pbind].
    rewrite (skip_ws_app wa _ Hwa). change (skip_ws (93 :: rest)) with (93 :: rest). reflexivity.
  - change (wprint_elems wprint ((wb, x, wa) :: e' :: l'))
      with (wb ++ wprint x ++ wa ++ 44 :: wprint_elems wprint (e' :: l')).
    norm_app.
    destruct (Hx d (wa ++ 44 :: wprint_elems wprint (e' :: l') ++ rest) Hwx Hux Hdx
                 (val_ends_app wa 44 _ Hwa eq_refl)) as [f1 Hf1].
    destruct (IH ltac:(discriminate) HF' d rest Hwl Hul (fun z Hz => Hd z (or_intror Hz)) He) as [f2 Hf2].
    exists (S (Nat.max f1 f2)). rewrite pelems_S. unfold pelems_body.
    rewrite (pval_lead_ws _ d wb _ Hwb).
    rewrite (pval_mono f1 _ _ _ _ _ (Nat.le_max_l f1 f2) Hf1). cbn [pbind].
    rewrite (skip_ws_app wa _ Hwa).
    match goal with |- context [skip_ws (44 :: ?X)] => change (skip_ws (44 :: X)) with (44 :: X) end.
    cbv beta iota. change (44 =? 44) with true. cbv beta iota.
    rewrite (pelems_mono f2 _ _ _ _ _ (Nat.le_max_r f1 f2) Hf2). reflexivity.
Qed.

Lemma wmembers_print : forall m, m <> [] -> Forall (fun e => reads_back_w (snd (fst e))) m ->
  forall d rest, forallb member_ws_ok m = true ->
  forallb (fun kv => utf8_valid (fst kv) && jv_utf8 (snd kv)) (List.map erase_member m) = true ->
  (forall kv, In kv (List.map erase_member m) -> d + jdepth (snd kv) <= max_depth) -> val_end rest = true ->
  exists f, pmembers f d (wprint_members wprint m ++ rest) = POk (List.map erase_member m) rest.
Proof.
  induction m as [|[[[[[wb k] wk] wc] v] wa] m IH]; [congruence|]. intros _ HF d rest Hw Hu Hd He.
  inversion HF as [|? ? Hx HF']; subst. cbn [snd fst] in Hx.
  cbn [forallb List.map] in Hw, Hu, Hd. unfold erase_member at 1 in Hu. unfold erase_member at 1 in Hd. cbn [snd fst] in Hu.
  apply andb_true_iff in Hw as [Hwx Hwl]. unfold member_ws_ok in Hwx.
  apply andb_true_iff in Hwx as [Hwx Hwa]. apply andb_true_iff in Hwx as [Hwx Hwv].
  apply andb_true_iff in Hwx as [Hwx Hwc]. apply andb_true_iff in Hwx as [Hwb Hwk].
  apply andb_true_iff in Hu as [Hukv Hul]. apply andb_true_iff in Hukv as [Huk Huv].
  assert (Hdv : d + jdepth (erase v) <= max_depth) by (apply (Hd (k, erase v)); now left).
  destruct m as [|e' m'].
  - cbn [wprint_members List.map]. norm_app. rewrite print_str_app.
    destruct (Hx d (wa ++ 125 :: rest) Hwv Huv Hdv (val_ends_app wa 125 rest Hwa eq_refl)) as [f Hf].
    exists (S f). rewrite pmembers_S. unfold pmembers_body.
    rewrite (skip_ws_app wb _ Hwb).
    match goal with |- context [skip_ws (34 :: ?X)] => change (skip_ws (34 :: X)) with (34 :: X) end.
    cbv beta iota. change (34 =? 34) with true. cbv beta iota.
    rewrite (pstr_print k Huk). cbv beta iota.
    rewrite (skip_ws_app wk _ Hwk).
    match goal with |- context [skip_ws (58 :: ?X)] => change (skip_ws (58 :: X)) with (58 :: X) end.
    cbv beta iota. change (58 =? 58) with true. cbv beta iota.
    rewrite (pval_lead_ws f d wc _ Hwc), Hf. cbn [pbind].
    rewrite (skip_ws_app wa _ Hwa). change (skip_ws (125 :: rest)) with (125 :: rest). reflexivity.
  - change (wprint_members wprint ((wb, k, wk, wc, v, wa) :: e' :: m'))
      with (wb ++ print_str k ++ wk ++ 58 :: wc ++ wprint v ++ wa ++ 44 :: wprint_members wprint (e' :: m')).
    norm_app. rewrite print_str_app.
    destruct (Hx d (wa ++ 44 :: wprint_members wprint (e' :: m') ++ rest) Hwv Huv Hdv
                 (val_ends_app wa 44 _ Hwa eq_refl)) as [f1 Hf1].
    destruct (IH ltac:(discriminate) HF' d rest Hwl Hul (fun z Hz => Hd z (or_intror Hz)) He) as [f2 Hf2].
    exists (S (Nat.max f1 f2)). rewrite pmembers_S. unfold pmembers_body.
    rewrite (skip_ws_app wb _ Hwb).
    match goal with |- context [skip_ws (34 :: ?X)] => change (skip_ws (34 :: X)) with (34 :: X) end.
    cbv beta iota. change (34 =? 34) with true. cbv beta iota.
    rewrite (pstr_print k Huk). cbv beta iota.
    rewrite (skip_ws_app wk _ Hwk).
    match goal with |- context [skip_ws (58 :: ?X)] => change (skip_ws (58 :: X)) with (58 :: X) end.
    cbv beta iota. change (58 =? 58) with true. cbv beta iota.
    rewrite (pval_lead_ws _ d wc _ Hwc).
    rewrite (pval_mono f1 _ _ _ _ _ (Nat.le_max_l f1 f2) Hf1). cbn [pbind].
    rewrite (skip_ws_app wa _ Hwa).
    match goal with |- context [skip_ws (44 :: ?X)] => change (skip_ws (44 :: X)) with (44 :: X) end.
    cbv beta iota. change (44 =? 44) with true. cbv beta iota.
    rewrite (pmembers_mono f2 _ _ _ _ _ (Nat.le_max_r f1 f2) Hf2). reflexivity.
Qed.

Lemma wprint_reads : forall x, reads_back_w x.
Proof.
  apply wjv_ind2; unfold reads_back_w.
  - intros j d rest _ Hu Hd He. cbn [wprint erase] in *. now apply pval_print.
  - intros w0 l HF d rest Hw Hu Hd He. cbn [wprint erase ws_okb jv_utf8 jdepth] in *.
    fold erase_elem in *. fold elem_ws_ok in Hw.
    apply andb_true_iff in Hw as [Hw0 Hwl].
    assert (Hdep : (max_depth <? d + 1) = false) by (apply N.ltb_ge; lia).
    destruct l as [|e l'].
    + exists 1%nat. rewrite pval_S. cbn [wprint_elems app List.map]. rewrite pval_body_start by reflexivity.
      change (91 =? 91) with true. cbv beta iota. rewrite Hdep. norm_app.
      rewrite (skip_ws_app w0 _ Hw0). change (skip_ws (93 :: rest)) with (93 :: rest). reflexivity.
    + destruct (welems_print (e :: l') ltac:(discriminate) HF (d + 1) rest Hwl Hu) as [f Hf]; [|exact He|].
      { intros z Hz. pose proof (jdepth_in_arr z _ Hz). lia. }
      exists (S f). rewrite pval_S. cbn [app]. rewrite pval_body_start by reflexivity.
      change (91 =? 91) with true. cbv beta iota. rewrite Hdep. norm_app. cbv zeta.
      rewrite (skip_ws_app w0 _ Hw0). rewrite pelems_skip, Hf.
      (* the first element starts, after white space, with a byte that is not a bracket *)
      assert (Hh : hd_is 93 (skip_ws (wprint_elems wprint (e :: l') ++ rest)) = false).
      { destruct e as [[wb x] wa]. cbn [forallb] in Hwl. apply andb_true_iff in Hwl as [Hwe _].
        unfold elem_ws_ok in Hwe. apply andb_true_iff in Hwe as [Hwe _]. apply andb_true_iff in Hwe as [Hwb _].
        destruct (wprint_head x) as (c & r & Ex & Hs).
        assert (Est : exists r', wprint_elems wprint ((wb, x, wa) :: l') ++ rest = wb ++ c :: r').
        { destruct l' as [|y l'']; cbn [wprint_elems]; rewrite Ex; norm_app; eauto. }
        destruct Est as [r' ->]. rewrite (skip_ws_app wb _ Hwb), (skip_ws_start c r' Hs).
        destruct Hs as (_ & H93 & _). exact H93. }
      rewrite Hh. reflexivity.
  - intros w0 m HF d rest Hw Hu Hd He. cbn [wprint erase ws_okb jv_utf8 jdepth] in *.
    fold erase_member in *. fold member_ws_ok in Hw.
    apply andb_true_iff in Hw as [Hw0 Hwl].
    assert (Hdep : (max_depth <? d + 1) = false) by (apply N.ltb_ge; lia).
    destruct m as [|e m'].
    + exists 1%nat. rewrite pval_S. cbn [wprint_members app List.map]. rewrite pval_body_start by reflexivity.
      change (123 =? 91) with false. change (123 =? 123) with true. cbv beta iota. rewrite Hdep. norm_app.
      rewrite (skip_ws_app w0 _ Hw0). change (skip_ws (125 :: rest)) with (125 :: rest). reflexivity.
    + destruct (wmembers_print (e :: m') ltac:(discriminate) HF (d + 1) rest Hwl Hu) as [f Hf]; [|exact He|].
      { intros z Hz. pose proof (jdepth_in_obj z _ Hz). lia. }
      exists (S f). rewrite pval_S. cbn [app]. rewrite pval_body_start by reflexivity.
      change (123 =? 91) with false. change (123 =? 123) with true. cbv beta iota. rewrite Hdep. norm_app. cbv zeta.
      rewrite (skip_ws_app w0 _ Hw0). rewrite pmembers_skip, Hf.
      assert (Hh : hd_is 125 (skip_ws (wprint_members wprint (e :: m') ++ rest)) = false).
      { destruct e as [[[[[wb k] wk] wc] v] wa]. cbn [forallb] in Hwl. apply andb_true_iff in Hwl as [Hwe _].
        unfold member_ws_ok in Hwe. repeat (apply andb_true_iff in Hwe as [Hwe _]).
        assert (Est : exists r', wprint_members wprint ((wb, k, wk, wc, v, wa) :: m') ++ rest = wb ++ 34 :: r').
        { destruct m' as [|y m'']; cbn [wprint_members]; norm_app; rewrite print_str_app; eauto. }
        destruct Est as [r' ->]. rewrite (skip_ws_app wb _ Hwe). reflexivity. }
      rewrite Hh. reflexivity.
Qed.

(** any amount of JSON white space before, after and between the tokens of a
    printed value: the text parses to the same value *)
Theorem whitespace_irrelevant x w1 w2 fuel :
  ws_okb x = true -> all_ws w1 = true -> all_ws w2 = true -> text_ok (erase x) = true ->
  (length (w1 ++ wprint x ++ w2) + 1 <= fuel)%nat ->
  parse_json fuel (w1 ++ wprint x ++ w2) = Some (erase x).
Proof.
  intros Hw H1 H2 Hok Hf. destruct (text_ok_facts _ Hok) as [Hu Hd].
  assert (He : val_end w2 = true).
  { destruct w2 as [|c w]; [reflexivity|]. cbn [all_ws forallb] in H2. apply andb_true_iff in H2 as [Hc _].
    cbn [val_end]. rewrite Hc. now rewrite !orb_true_r. }
  destruct (wprint_reads x 0 w2 Hw Hu ltac:(lia) He) as [f Hp].
  rewrite <- (pval_lead_ws f 0 w1 _ H1) in Hp.
  pose proof (parse_total fuel _ Hf) as T.
  unfold parse_json, parse_json_res in *.
  set (b := w1 ++ wprint x ++ w2) in *.
  destruct (proj1 (parsers_mono (fuel + fuel) (Nat.max (fuel + fuel) f) (Nat.le_max_l _ _)) 0 b) as [E|E].
  - rewrite E in T. simpl in T. congruence.
  - rewrite E. rewrite (pval_mono f _ _ _ _ _ (Nat.le_max_r (fuel + fuel) f) Hp). cbn [pbind].
    assert (Hs : skip_ws w2 = []).
    { clear -H2. induction w2 as [|c w IH]; [reflexivity|]. cbn [all_ws forallb] in H2.
      apply andb_true_iff in H2 as [Hc Hw]. cbn [skip_ws]. rewrite Hc. now apply IH. }
    rewrite Hs. reflexivity.
Qed.

(* ------------------------------------------------------------------ *)
(** * The label pattern on bytes is Codec's token-level pre-check *)

Lemma re_space_ws c : is_re_space c = is_ws c || (c =? 12).
Proof.
  unfold is_re_space, is_ws.
  destruct (c =? 9), (c =? 10), (c =? 12), (c =? 13), (c =? 32); reflexivity.
Qed.

Lemma skip_re_space_ws b c r : skip_ws b = c :: r -> c <> 12 -> skip_re_space b = c :: r.
Proof.
  induction b as [|a t IH]; simpl; [discriminate|]. intros H Hc.
  rewrite re_space_ws. destruct (is_ws a) eqn:E; simpl.
  - now apply IH.
  - inversion H; subst. replace (c =? 12) with false by (symmetry; now apply N.eqb_neq). reflexivity.
Qed.

Lemma strip_prefix_head x p c r r' : strip_prefix (x :: p) (c :: r) = Some r' -> c = x.
Proof. simpl. destruct (x =? c) eqn:E; [|discriminate]. intros _. apply N.eqb_eq in E. now subst. Qed.

(** shape of an accepted value: its first byte, and what an array or a string came from *)
Lemma pval_body_inv pe pm d s j r :
  pval_body pe pm d s = POk j r ->
  exists c r0, skip_ws s = c :: r0 /\ c <> 12 /\
    (c = 91 -> (hd_is 93 (skip_ws r0) = true /\ j = JArr []) \/
               (hd_is 93 (skip_ws r0) = false /\ exists l, pe (d + 1) (skip_ws r0) = POk l r /\ j = JArr l)) /\
    (c <> 91 -> forall l, j <> JArr l) /\
    (c = 34 -> exists x, pstr r0 = Some (x, r) /\ j = JStr x) /\
    (c <> 34 -> forall x, j <> JStr x).
Proof.
  unfold pval_body. intro H. destruct (skip_ws s) as [|c r0] eqn:E; [discriminate|].
  exists c, r0. split; [reflexivity|].
  destruct (c =? 91) eqn:E91.
  { apply N.eqb_eq in E91; subst c. destruct (max_depth <? d + 1); [discriminate|]. cbv zeta in H.
    split; [discriminate|]. repeat split; try congruence; try discriminate.
    - intros _. destruct (hd_is 93 (skip_ws r0)).
      + left. inversion H; auto.
      + right. split; [reflexivity|]. apply pbind_ok in H as (l & s0 & H1 & H2). inversion H2; subst. eauto.
    - intros _ x. destruct (hd_is 93 (skip_ws r0)); [inversion H; discriminate|].
      apply pbind_ok in H as (l & s0 & H1 & H2). inversion H2; discriminate. }
  apply N.eqb_neq in E91.
  destruct (c =? 123) eqn:E123.
  { apply N.eqb_eq in E123; subst c. destruct (max_depth <? d + 1); [discriminate|]. cbv zeta in H.
    assert (Hj : exists m, j = JObj m).
    { destruct (hd_is 125 (skip_ws r0)); [inversion H; eauto|].
      apply pbind_ok in H as (l & s0 & H1 & H2). inversion H2; eauto. }
    destruct Hj as [m ->]. split; [discriminate|]. repeat split; try congruence; try discriminate. }
  destruct (c =? 34) eqn:E34.
  { apply N.eqb_eq in E34; subst c. destruct (pstr r0) as [[x r']|] eqn:Ep; [|discriminate]. inversion H; subst.
    split; [discriminate|]. repeat split; try congruence; try discriminate. eauto. }
  apply N.eqb_neq in E34.
  destruct ((c =? 45) || is_digit c) eqn:En.
  { destruct (pnum (c :: r0)) as [[n r']|]; [|discriminate]. inversion H; subst.
    split.
    - apply orb_true_iff in En as [En|En]; [apply N.eqb_eq in En; lia|].
      unfold is_digit in En. apply andb_true_iff in En as [H1 _]. apply N.leb_le in H1. lia.
    - repeat split; try congruence; try discriminate. }
  destruct (strip_prefix lit_true (c :: r0)) eqn:E1.
  { apply strip_prefix_head in E1. inversion H; subst. split; [discriminate|].
    repeat split; try congruence; try discriminate. }
  destruct (strip_prefix lit_false (c :: r0)) eqn:E2.
  { apply strip_prefix_head in E2. inversion H; subst. split; [discriminate|].
    repeat split; try congruence; try discriminate. }
  destruct (strip_prefix lit_null (c :: r0)) eqn:E3; [|discriminate].
  apply strip_prefix_head in E3. inversion H; subst. split; [discriminate|].
  repeat split; try congruence; try discriminate.
Qed.

Lemma pelems_body_inv pv pe d s l r :
  pelems_body pv pe d s = POk l r -> exists v r1 l', pv d s = POk v r1 /\ l = v :: l'.
Proof.
  unfold pelems_body. intro H. apply pbind_ok in H as (v & r1 & H1 & H2).
  exists v, r1. destruct (skip_ws r1) as [|c r']; [discriminate|].
  destruct (c =? 44).
  - apply pbind_ok in H2 as (vs & r2 & _ & H3). inversion H3; eauto.
  - destruct (c =? 93); [|discriminate]. inversion H2; eauto.
Qed.

Lemma word_char_range c : word_char c = true -> 48 <= c <= 122.
Proof.
  unfold word_char. intro H.
  repeat (apply orb_true_iff in H as [H|H]);
    try (apply andb_true_iff in H as [H1 H2]; apply N.leb_le in H1, H2; lia);
    apply N.eqb_eq in H; lia.
Qed.

Lemma pstep_hi_head a t y r : (a <? 128) = false -> pstep (a :: t) = SEmit y r ->
  exists h y', y = h :: y' /\ word_char h = false.
Proof.
  intros Ha H. rewrite pstep_hi in H by assumption.
  assert (Wa : word_char a = false).
  { destruct (word_char a) eqn:E; [|reflexivity]. apply word_char_range in E. apply N.ltb_ge in Ha. lia. }
  step_cases; inversion H; subst; (exists a; eexists; split; [reflexivity | exact Wa]) ||
                                  (exists 239; eexists; split; reflexivity).
Qed.

(** on a string literal's body: the pattern's "\w*" followed by a quote
    versus "no backslash and only word characters" *)
Lemma label_str : forall r2 x r1, pstr r2 = Some (x, r1) ->
  (let (w, r3) := take_word r2 in if hd_is 34 r3 then Some w else None) =
  (if bslash_before_quote r2 then None else if forallb word_char x then Some x else None).
Proof.
  induction r2 as [|a t IH]; intros x r1 H; [discriminate|].
  rewrite pstr_eq in H. cbn [take_word bslash_before_quote].
  destruct (a =? 34) eqn:E34.
  { apply N.eqb_eq in E34; subst a. inversion H; subst. reflexivity. }
  destruct (a =? 92) eqn:E92.
  { apply N.eqb_eq in E92; subst a. reflexivity. }
  destruct (word_char a) eqn:Ew.
  - (* a word character is copied *)
    pose proof (word_char_range a Ew) as Hr.
    assert (Es : pstep (a :: t) = SEmit [a] t).
    { unfold pstep. rewrite E34, E92.
      replace (a <? 32) with false by (symmetry; apply N.ltb_ge; lia).
      replace (a <? 128) with true by (symmetry; apply N.ltb_lt; lia). reflexivity. }
    rewrite Es in H. apply pcons_some in H as (x' & Hx & ->).
    specialize (IH _ _ Hx). cbn [app forallb]. rewrite Ew. cbn [andb].
    destruct (take_word t) as [w r3]. destruct (hd_is 34 r3).
    + destruct (bslash_before_quote t); [discriminate|]. destruct (forallb word_char x'); [|discriminate].
      inversion IH; subst. reflexivity.
    + destruct (bslash_before_quote t); [reflexivity|]. destruct (forallb word_char x'); [discriminate|reflexivity].
  - (* any other byte: the pattern fails, and the decoded string starts with a non-word byte *)
    cbn [hd_is]. rewrite E34.
    destruct (bslash_before_quote t); [reflexivity|].
    assert (Hx : exists h x', x = h :: x' /\ word_char h = false).
    { destruct (a <? 128) eqn:E128.
      - assert (Es : pstep (a :: t) = if a <? 32 then SFail else SEmit [a] t).
        { unfold pstep. rewrite E34, E92, E128. reflexivity. }
        rewrite Es in H. destruct (a <? 32); [discriminate|].
        apply pcons_some in H as (x' & _ & ->). exists a, x'. split; [reflexivity | exact Ew].
      - destruct (pstep (a :: t)) as [r0| |y r'] eqn:Es; try discriminate.
        + unfold pstep in Es. rewrite E34 in Es. destruct (a <? 32); [discriminate|].
          rewrite E92, E128 in Es. step_cases; discriminate.
        + destruct (pstep_hi_head a t y r' E128 Es) as (h & y' & -> & Hh).
          apply pcons_some in H as (x' & _ & ->). exists h, (y' ++ x'). split; [reflexivity | exact Hh]. }
    destruct Hx as (h & x' & -> & Hh). cbn [forallb]. rewrite Hh. reflexivity.
Qed.

Lemma label_precheck_arr lead esc j :
  label_precheck (mkCText lead esc j) =
  match j with
  | JArr (JStr l :: _) => if esc then None else if forallb word_char l then Some l else None
  | _ => None
  end.
Proof.
  unfold label_precheck. cbn [ct_lead_ws ct_label_escaped ct_json].
  rewrite lead_ws_is_allowed. rewrite andb_false_r. reflexivity.
Qed.

Theorem label_bridge b j :
  parse_json (fuel_of b) b = Some j ->
  label_match b = label_precheck (mkCText (lead_ws b) (label_escaped b) j).
Proof.
  intro H. rewrite label_precheck_arr.
  unfold parse_json, parse_json_res in H.
  destruct (pval (fuel_of b + fuel_of b) 0 b) as [j0 r| |] eqn:Ep; try discriminate.
  cbn [pbind] in H. destruct (skip_ws r); [|discriminate]. inversion H; subst j0. clear H.
  destruct (fuel_of b + fuel_of b)%nat as [|f]; [discriminate|]. rewrite pval_S in Ep.
  destruct (pval_body_inv _ _ _ _ _ _ Ep) as (c & r0 & Es & Hc12 & Harr & Hnarr & _ & _).
  unfold label_match, label_escaped. rewrite lead_ws_is_allowed.
  rewrite (skip_re_space_ws b c r0 Es Hc12), Es.
  destruct (c =? 91) eqn:E91.
  2:{ apply N.eqb_neq in E91. specialize (Hnarr E91). destruct j; try reflexivity. exfalso. eapply Hnarr; reflexivity. }
  apply N.eqb_eq in E91. destruct (Harr E91) as [[Hh ->]|(Hh & l & Hl & ->)].
  - (* [] *)
    destruct (skip_ws r0) as [|q r1] eqn:Es0; [discriminate|]. cbn [hd_is] in Hh. apply N.eqb_eq in Hh; subst q.
    rewrite (skip_re_space_ws r0 93 r1 Es0 ltac:(lia)). reflexivity.
  - destruct f as [|f]; [discriminate|]. rewrite pelems_S in Hl.
    destruct (pelems_body_inv _ _ _ _ _ _ Hl) as (v & r1 & l' & Hv & ->).
    destruct f as [|f]; [discriminate|]. rewrite pval_S in Hv.
    destruct (pval_body_inv _ _ _ _ _ _ Hv) as (c2 & r2 & Es2 & Hc2 & _ & _ & Hstr & Hnstr).
    rewrite skip_ws_idem in Es2.
    rewrite (skip_re_space_ws r0 c2 r2 Es2 Hc2), Es2.
    destruct (c2 =? 34) eqn:E34.
    2:{ apply N.eqb_neq in E34. specialize (Hnstr E34). destruct v; try reflexivity. exfalso. eapply Hnstr; reflexivity. }
    apply N.eqb_eq in E34. destruct (Hstr E34) as (x & Hx & ->).
    exact (label_str r2 x r1 Hx).
Qed.

Theorem parse_bytes_bridge b : parse_client_msg_bytes b = parse_client_msg_ctext b.
Proof.
  unfold parse_client_msg_bytes, parse_client_msg_ctext, ctext_of_bytes.
  destruct (parse_json (fuel_of b) b) as [j|] eqn:E.
  - unfold parse_client_msg. rewrite <- (label_bridge b j E). cbn [ct_json]. reflexivity.
  - destruct (label_match b) as [l|]; [|reflexivity].
    repeat match goal with |- context [if ?c then _ else _] => destruct c end; reflexivity.
Qed.

(* ------------------------------------------------------------------ *)
(** * The C10 theorems on bytes *)

Theorem decode_bytes_never_panics t b : decode_bytes t b <> Panic.
Proof.
  unfold decode_bytes. destruct (parse_json (fuel_of b) b); [apply dec_never_panics | discriminate].
Qed.

Theorem parse_client_msg_ctext_never_panics b : parse_client_msg_ctext b <> Panic.
Proof.
  unfold parse_client_msg_ctext. destruct (ctext_of_bytes b); [apply parse_never_panics | discriminate].
Qed.

Theorem parse_client_msg_bytes_never_panics b : parse_client_msg_bytes b <> Panic.
Proof. rewrite parse_bytes_bridge. apply parse_client_msg_ctext_never_panics. Qed.

Theorem decode_bytes_filled t b v :
  decode_bytes t b = Val v -> parse_json (fuel_of b) b <> Some JNull -> wf_wval v /\ ty_of v = t.
Proof.
  unfold decode_bytes. destruct (parse_json (fuel_of b) b) as [j|]; [|discriminate].
  intros H Hn. eapply dec_filled; eauto. congruence.
Qed.

(** ParseClientMsg on bytes: the value is filled and is of the type named by
    the label the pattern captured from the bytes *)
Theorem parse_client_msg_bytes_filled b m :
  parse_client_msg_bytes b = Val m -> wf_cmsg m /\ label_match b = Some (label_of_cmsg m).
Proof.
  rewrite parse_bytes_bridge. unfold parse_client_msg_ctext, ctext_of_bytes.
  destruct (parse_json (fuel_of b) b) as [j|] eqn:E; [|discriminate].
  intro H. destruct (parse_label_sound _ _ H) as [Hl Hw]. split; [exact Hw|].
  rewrite (label_bridge b j E).
  unfold parse_client_msg in H.
  destruct (label_precheck (mkCText (lead_ws b) (label_escaped b) j)) as [l|] eqn:El; [|discriminate].
  cbn [ct_json] in Hl.
  rewrite label_precheck_arr in El.
  destruct j as [| | | |[|[| | |s| |] ?]|]; try discriminate.
  cbn [first_label] in Hl. inversion Hl; subst.
  destruct (label_escaped b); [discriminate|]. destruct (forallb word_char (label_of_cmsg m)); [|discriminate].
  congruence.
Qed.

Theorem roundtrip_bytes v :
  wf_wval v -> text_ok (enc_wval v) = true ->
  decode_bytes (ty_of v) (print_json (enc_wval v)) = Val v.
Proof.
  intros Hw Hok. unfold decode_bytes, fuel_of.
  rewrite (print_parse _ _ Hok) by lia. now apply enc_dec_wval.
Qed.

Theorem roundtrip_client_msg_bytes m :
  wf_cmsg m -> text_ok (enc_cmsg m) = true ->
  parse_client_msg_bytes (print_json (enc_cmsg m)) = Val m.
Proof.
  intros Hw Hok. rewrite parse_bytes_bridge. unfold parse_client_msg_ctext, ctext_of_bytes, fuel_of.
  rewrite (print_parse _ _ Hok) by lia.
  (* the printed text starts with a bracket and an unescaped label *)
  assert (Hpre : label_precheck (mkCText (lead_ws (print_json (enc_cmsg m))) (label_escaped (print_json (enc_cmsg m))) (enc_cmsg m))
                 = label_precheck (plain_text (enc_cmsg m))).
  { unfold plain_text. rewrite !label_precheck_arr.
    assert (He : label_escaped (print_json (enc_cmsg m)) = false) by (destruct m; reflexivity).
    rewrite He. reflexivity. }
  pose proof (parse_enc_cmsg m Hw) as P. unfold parse_client_msg in *. cbn [ct_json plain_text] in *.
  rewrite Hpre. exact P.
Qed.

(** for every accepted text, decode-encode-decode yields the same value as decode *)
Theorem decode_encode_decode_bytes t b v :
  decode_bytes t b = Val v -> parse_json (fuel_of b) b <> Some JNull -> text_ok (enc_wval v) = true ->
  decode_bytes t (print_json (enc_wval v)) = Val v.
Proof.
  unfold decode_bytes at 1. destruct (parse_json (fuel_of b) b) as [j|] eqn:E; [|discriminate].
  intros H Hn Hok. unfold decode_bytes, fuel_of. rewrite (print_parse _ _ Hok) by lia.
  eapply dec_enc_dec; eauto. congruence.
Qed.

(* ------------------------------------------------------------------ *)
(** * Encodings of protocol values are printable: valid UTF-8 strings give
      [text_ok (enc_wval v)] (their nesting depth is at most 4) *)

Lemma utf8_valid_app a b : utf8_valid a = true -> utf8_valid (a ++ b) = utf8_valid b.
Proof.
  revert a. apply (utf8_valid_ind (fun a => utf8_valid (a ++ b) = utf8_valid b)).
  - reflexivity.
  - intros x t H _ IH. cbn [app utf8_valid]. now rewrite H.
  - intros x y t H H0 _ IH. cbn [app utf8_valid]. now rewrite H, H0.
  - intros x y z t H H0 H1 _ IH. cbn [app utf8_valid]. now rewrite H, H0, H1.
  - intros x y z w t H H0 H1 H2 _ IH. cbn [app utf8_valid]. now rewrite H, H0, H1, H2.
Qed.

Lemma jv_utf8_strs l : jv_utf8 (enc_strs l) = utf8_strsb l.
Proof. unfold enc_strs, utf8_strsb. cbn [jv_utf8]. induction l as [|x l IH]; [reflexivity|]. cbn. now rewrite IH. Qed.

Lemma forallb_map_in {A B} (f : A -> B) (p : B -> bool) (q : A -> bool) l :
  forallb q l = true -> (forall x, q x = true -> p (f x) = true) -> forallb p (List.map f l) = true.
Proof.
  induction l as [|x l IH]; [reflexivity|]. cbn. intros H Hq. apply andb_true_iff in H as [H1 H2].
  rewrite (Hq x H1). now apply IH.
Qed.

Lemma jv_utf8_event e : utf8_eventb e = true -> jv_utf8 (enc_event e) = true.
Proof.
  unfold utf8_eventb, enc_event. intro H.
  repeat (apply andb_true_iff in H as [H ?]).
  cbn [jv_utf8 forallb fst snd JInt]. rewrite H, H3, H2, H1.
  change (utf8_valid k_id) with true. change (utf8_valid k_pubkey) with true.
  change (utf8_valid k_created_at) with true. change (utf8_valid k_kind) with true.
  change (utf8_valid k_tags) with true. change (utf8_valid k_content) with true.
  change (utf8_valid k_sig) with true. cbn [andb].
  destruct (ge_tags e) as [l|]; [|reflexivity]. cbn [opt_all jv_utf8] in *.
  rewrite (forallb_map_in enc_tag jv_utf8 (opt_all utf8_strsb) l H0); [reflexivity|].
  intros [t|] Ht; [|reflexivity]. cbn [enc_tag]. now rewrite jv_utf8_strs.
Qed.

Lemma opt_member_utf8 {A} k (o : option A) f :
  utf8_valid k = true -> (forall x, o = Some x -> jv_utf8 (f x) = true) ->
  forallb (fun kv => utf8_valid (fst kv) && jv_utf8 (snd kv)) (opt_member k o f) = true.
Proof. intros Hk Hf. destruct o as [x|]; [|reflexivity]. cbn. rewrite Hk, (Hf x eq_refl). reflexivity. Qed.

Lemma jv_utf8_ints l : jv_utf8 (JArr (List.map JInt l)) = true.
Proof. cbn [jv_utf8]. induction l as [|x l IH]; [reflexivity|]. cbn. exact IH. Qed.

Lemma jv_utf8_filter f : utf8_filterb f = true -> jv_utf8 (enc_filter f) = true.
Proof.
  unfold utf8_filterb, enc_filter. intro H.
  apply andb_true_iff in H as [H Ht]. apply andb_true_iff in H as [Hi Ha].
  cbn [jv_utf8]. rewrite !forallb_app.
  rewrite !opt_member_utf8; try reflexivity.
  - cbn [andb]. rewrite andb_true_r. destruct (gf_tags f) as [m|]; [|reflexivity]. cbn [opt_all] in Ht.
    apply (forallb_map_in _ _ _ m Ht). intros [k v] Hkv. cbn [fst snd] in *.
    apply andb_true_iff in Hkv as [Hk Hv]. cbn [utf8_valid]. change (hash <? 128) with true. cbv iota.
    rewrite Hk. destruct v as [l|]; [|reflexivity]. cbn [opt_all] in Hv. now rewrite jv_utf8_strs.
  - intros l _. apply jv_utf8_ints.
  - intros l E. rewrite E in Ha. now rewrite jv_utf8_strs.
  - intros l E. rewrite E in Hi. now rewrite jv_utf8_strs.
Qed.

Lemma jv_utf8_event_ptr e : opt_all utf8_eventb e = true -> jv_utf8 (enc_event_ptr e) = true.
Proof. destruct e; [apply jv_utf8_event | reflexivity]. Qed.

Lemma jv_utf8_filters fs : utf8_filtersb fs = true -> forallb jv_utf8 (List.map enc_filter_ptr fs) = true.
Proof.
  intro H. apply (forallb_map_in _ _ _ fs H). intros [f|] Hf; [now apply jv_utf8_filter | reflexivity].
Qed.

Lemma jv_utf8_wval v : utf8_wvalb v = true -> jv_utf8 (enc_wval v) = true.
Proof.
  destruct v as [e|f|m|m]; cbn [utf8_wvalb enc_wval].
  - apply jv_utf8_event.
  - apply jv_utf8_filter.
  - destruct m as [e|sub fs|sub|e|sub fs]; cbn [utf8_cmsgb enc_cmsg jv_utf8 forallb]; intro H.
    + now rewrite jv_utf8_event_ptr.
    + apply andb_true_iff in H as [H1 H2]. now rewrite H1, jv_utf8_filters.
    + now rewrite H.
    + now rewrite jv_utf8_event_ptr.
    + apply andb_true_iff in H as [H1 H2]. now rewrite H1, jv_utf8_filters.
  - destruct m as [sub|sub e|s|id acc msg pfx|c|sub n ap|sub msg pfx];
      cbn [utf8_smsgb enc_smsg jv_utf8 forallb]; intro H.
    + now rewrite H.
    + apply andb_true_iff in H as [H1 H2]. now rewrite H1, jv_utf8_event_ptr.
    + now rewrite H.
    + apply andb_true_iff in H as [H H3]. apply andb_true_iff in H as [H1 H2].
      rewrite H1, (utf8_valid_app pfx msg H3), H2. reflexivity.
    + now rewrite H.
    + rewrite H. destruct ap as [[|]|]; reflexivity.
    + apply andb_true_iff in H as [H H3]. apply andb_true_iff in H as [H1 H2].
      rewrite H1, (utf8_valid_app pfx msg H3), H2. reflexivity.
Qed.

(** nesting depth *)

Lemma depth_arr_le k l : (forall x, In x l -> jdepth x <= k) -> jdepth (JArr l) <= 1 + k.
Proof.
  intro H. cbn [jdepth]. apply N.add_le_mono_l.
  induction l as [|x l IH]; cbn; [lia|].
  apply N.max_lub; [apply H; now left | apply IH; intros; apply H; now right].
Qed.

Lemma depth_obj_le k (m : list (str * jv)) : (forall kv, In kv m -> jdepth (snd kv) <= k) -> jdepth (JObj m) <= 1 + k.
Proof.
  intro H. cbn [jdepth]. apply N.add_le_mono_l.
  induction m as [|x m IH]; cbn; [lia|].
  apply N.max_lub; [apply H; now left | apply IH; intros; apply H; now right].
Qed.

Lemma depth_strs l : jdepth (enc_strs l) <= 1.
Proof.
  unfold enc_strs. apply (depth_arr_le 0). intros x Hx. apply in_map_iff in Hx as (s & <- & _). reflexivity.
Qed.

Lemma depth_ints l : jdepth (JArr (List.map JInt l)) <= 1.
Proof. apply (depth_arr_le 0). intros x Hx. apply in_map_iff in Hx as (s & <- & _). reflexivity. Qed.

Lemma depth_event e : jdepth (enc_event e) <= 3.
Proof.
  unfold enc_event. apply (depth_obj_le 2). intros kv Hkv. cbn [In] in Hkv.
  repeat (destruct Hkv as [<-|Hkv]; [try (cbn; lia)|]); [|contradiction].
  cbn [snd]. destruct (ge_tags e) as [l|]; [|cbn; lia].
  apply (depth_arr_le 1). intros x Hx. apply in_map_iff in Hx as (t & <- & _).
  destruct t as [t|]; [apply depth_strs | cbn; lia].
Qed.

Lemma depth_opt_member {A} k (o : option A) f d kv :
  (forall x, jdepth (f x) <= d) -> In kv (opt_member k o f) -> jdepth (snd kv) <= d.
Proof. intros H Hin. destruct o as [x|]; [|contradiction]. destruct Hin as [<-|[]]. apply H. Qed.

Lemma depth_filter f : jdepth (enc_filter f) <= 2.
Proof.
  unfold enc_filter. apply (depth_obj_le 1). intros kv Hkv.
  repeat (apply in_app_or in Hkv as [Hkv|Hkv]).
  - eapply depth_opt_member; [|exact Hkv]. apply depth_strs.
  - eapply depth_opt_member; [|exact Hkv]. apply depth_strs.
  - eapply depth_opt_member; [|exact Hkv]. apply depth_ints.
  - destruct (gf_tags f) as [m|]; [|contradiction].
    apply in_map_iff in Hkv as ([k v] & <- & _). cbn [snd]. destruct v; [apply depth_strs | cbn; lia].
  - eapply depth_opt_member; [|exact Hkv]. intro; cbn; lia.
  - eapply depth_opt_member; [|exact Hkv]. intro; cbn; lia.
  - eapply depth_opt_member; [|exact Hkv]. intro; cbn; lia.
Qed.

Lemma depth_event_ptr e : jdepth (enc_event_ptr e) <= 3.
Proof. destruct e; [apply depth_event | cbn; lia]. Qed.

Lemma depth_filter_ptr f : jdepth (enc_filter_ptr f) <= 2.
Proof. destruct f; [apply depth_filter | cbn; lia]. Qed.

Lemma depth_wval v : jdepth (enc_wval v) <= 4.
Proof.
  destruct v as [e|f|m|m]; cbn [enc_wval].
  - pose proof (depth_event e). lia.
  - pose proof (depth_filter f). lia.
  - destruct m as [e|sub fs|sub|e|sub fs]; cbn [enc_cmsg]; apply (depth_arr_le 3); intros x Hx; cbn [In] in Hx.
    + destruct Hx as [<-|[<-|[]]]; [cbn; lia | apply depth_event_ptr].
    + destruct Hx as [<-|[<-|Hx]]; try (cbn; lia).
      apply in_map_iff in Hx as (f & <- & _). pose proof (depth_filter_ptr f). lia.
    + destruct Hx as [<-|[<-|[]]]; cbn; lia.
    + destruct Hx as [<-|[<-|[]]]; [cbn; lia | apply depth_event_ptr].
    + destruct Hx as [<-|[<-|Hx]]; try (cbn; lia).
      apply in_map_iff in Hx as (f & <- & _). pose proof (depth_filter_ptr f). lia.
  - destruct m as [sub|sub e|s|id acc msg pfx|c|sub n ap|sub msg pfx]; cbn [enc_smsg];
      apply (depth_arr_le 3); intros x Hx; cbn [In] in Hx.
    + destruct Hx as [<-|[<-|[]]]; cbn; lia.
    + destruct Hx as [<-|[<-|[<-|[]]]]; try (cbn; lia). apply depth_event_ptr.
    + destruct Hx as [<-|[<-|[]]]; cbn; lia.
    + destruct Hx as [<-|[<-|[<-|[<-|[]]]]]; cbn; lia.
    + destruct Hx as [<-|[<-|[]]]; cbn; lia.
    + destruct Hx as [<-|[<-|[<-|[]]]]; try (cbn; lia). destruct ap as [[|]|]; cbn; lia.
    + destruct Hx as [<-|[<-|[<-|[]]]]; cbn; lia.
Qed.

Theorem text_ok_wval v : utf8_wvalb v = true -> text_ok (enc_wval v) = true.
Proof.
  intro H. unfold text_ok. rewrite (jv_utf8_wval v H). cbn [andb]. apply N.leb_le.
  pose proof (depth_wval v). unfold max_depth. lia.
Qed.

Theorem text_ok_cmsg m : utf8_cmsgb m = true -> text_ok (enc_cmsg m) = true.
Proof. exact (text_ok_wval (WC m)). Qed.
