(* SystemJudge.v — SYS: judging an OBSERVED client-side sequence of the real
   composed handler.  Definitions only.

   The real children answer concurrently, so the interleaving of their replies
   is the Go scheduler's choice; the harness cannot fix it and only records
   what the client received.  Two independent judgements:

   (b) "the model agrees": there EXISTS a schedule under which the composed
       model (System.v) produces the observed sequence.  The harness feeds one
       client message at a time, each followed by a COUNT sentinel, and records
       the messages received up to the sentinel's reply (a window).  For a
       window the search reads the two messages and then explores the
       interleavings of the three children's pending replies depth first; a
       delivery that makes the model emit a message must emit exactly the next
       observed message.  Live events still queued in the router child at the
       end of a window may be delivered in a later window (the queue forwarder
       can lag behind the sentinel).  What a window leaves behind is therefore
       not determined by the window alone: in which order a Publish queued its
       copies shows only when they arrive, and a late copy for a subscription
       id that a REQ re-uses can have been swallowed by the merge session
       during that REQ (a duplicate of the stored answer) or still be queued.
       So the search runs over the WHOLE session: the continuation of a
       window's search is the search of the next window, and a failure there
       resumes the alternatives of the earlier windows.  States in which a
       window was entered and nothing worked are remembered (window number and
       the router child's queue — the rest of the state at a window boundary
       does not depend on the schedule), so that the many interleavings of a
       window that end in the same state are followed up once.  The SQLite
       child's answer to a REQ is taken as given (the harness records what the
       child itself sent; the order among equal created_at is SQLite's, and a
       second execution of the same query may break a tie at a limit
       differently) and is checked against the relational model of Sql.v by
       [SqlCheckBase.model_accepts].

   (a) the oracle: the SYS_ statements as boolean checks over (requests,
       replies).  It never runs [sys_step] / [Merge.merge_step]. *)
From Moc Require Import Base Match Msg Cache CacheSpec CacheInv CacheHyp Handlers System.
From Moc Require Merge Router Sql SqlSpec SqlCheckBase.
Open Scope Z_scope.

(** one window: the client message, the id of the COUNT sentinel that followed
    it, the SQLite child's own answer to the REQ
    ([w_sqerr]: its query failed), the match-everything listing of the cache
    right after an EVENT, and the messages received up to and including the
    sentinel's reply *)
Record win := mkWin {
  w_msg : cmsg;
  w_sent : str;
  w_sq : list event;
  w_sqerr : bool;
  w_list : list event;
  w_obs : list smsg
}.

Definition smsgs_eqb : list smsg -> list smsg -> bool := list_eqb smsg_eqb.
Definition events_eqb : list event -> list event -> bool := list_eqb event_eqb.

(* ------------------------------------------------------------------ *)
(** * (b) the model agrees: search for a schedule *)

Definition msys := sys Sql.db.

Definition sq_insert (d : Sql.db) (b : list event) : Sql.db := Sql.insert_batch 0 d b.

(** the composed model with EventBulkInsertNum = 1 and router buflen 100; the
    SQLite answer is a parameter of the step *)
Definition jstep (ans : option (list event)) (s : msys) (x : label) : msys * list Merge.input * list smsg :=
  sys_step Sql.db (fun _ _ => ans) sq_insert 1 100 s x.

(** the inserter drains eventCh (the harness waits for it after every EVENT) *)
Definition jflush (s : msys) : msys :=
  fold_left (fun s0 _ => fst (fst (jstep None s0 (LBg BgRecv)))) (sq_queue (y_sq s)) s.

Definition set_in (s : msys) (l : list cmsg) : msys :=
  mkSys (y_merge s) (y_cache s) (y_subs s) (y_sq s) (y_p0 s) (y_p1 s) (y_p2 s) l (y_done s) (y_dead s).

(** nothing but queued live events is pending *)
Definition settled (s : msys) : bool :=
  match y_in s, y_p0 s, y_p2 s with
  | [], [], [] => forallb smsg_is_event (y_p1 s)
  | _, _, _ => false
  end.

Definition head_is_event (l : list smsg) : bool :=
  match l with m :: _ => smsg_is_event m | [] => false end.

(** equality of merge-session states (for remembering search nodes) *)
Definition kv_eqb {B} (eqb : B -> B -> bool) (a b : str * B) : bool :=
  str_eqb (fst a) (fst b) && eqb (snd a) (snd b).
Definition map_eqb {B} (eqb : B -> B -> bool) : list (str * B) -> list (str * B) -> bool :=
  list_eqb (kv_eqb eqb).
Definition lm_eqb (a b : lmatcher) : bool := rfilter_eqb (lm_f a) (lm_f b) && Z.eqb (lm_cnt a) (lm_cnt b).
Definition okm_eqb (a b : Merge.okm) : bool :=
  str_eqb (Merge.ok_id a) (Merge.ok_id b) && Bool.eqb (Merge.ok_acc a) (Merge.ok_acc b) &&
  str_eqb (Merge.ok_prefix a) (Merge.ok_prefix b) && str_eqb (Merge.ok_text a) (Merge.ok_text b).
Definition cntm_eqb (a b : Merge.cntm) : bool :=
  str_eqb (Merge.c_sub a) (Merge.c_sub b) && Z.eqb (Merge.c_count a) (Merge.c_count b) &&
  opt_eqb Bool.eqb (Merge.c_approx a) (Merge.c_approx b).
Definition mstate_eqb (a b : Merge.state) : bool :=
  let ra := Merge.st_rs a in let rb := Merge.st_rs b in
  let oa := Merge.st_os a in let ob := Merge.st_os b in
  let ca := Merge.st_cs a in let cb := Merge.st_cs b in
  Bool.eqb (Merge.st_dead a) (Merge.st_dead b) &&
  Nat.eqb (Merge.rs_size ra) (Merge.rs_size rb) &&
  map_eqb (list_eqb Bool.eqb) (Merge.rs_eose ra) (Merge.rs_eose rb) &&
  map_eqb (list_eqb str_eqb) (Merge.rs_seen ra) (Merge.rs_seen rb) &&
  map_eqb (opt_eqb event_eqb) (Merge.rs_last ra) (Merge.rs_last rb) &&
  map_eqb (list_eqb lm_eqb) (Merge.rs_matcher ra) (Merge.rs_matcher rb) &&
  Nat.eqb (Merge.os_size oa) (Merge.os_size ob) &&
  map_eqb Z.eqb (Merge.os_pending oa) (Merge.os_pending ob) &&
  map_eqb (list_eqb (list_eqb okm_eqb)) (Merge.os_s oa) (Merge.os_s ob) &&
  Nat.eqb (Merge.cs_size ca) (Merge.cs_size cb) &&
  map_eqb Z.eqb (Merge.cs_pending ca) (Merge.cs_pending cb) &&
  map_eqb (list_eqb (list_eqb cntm_eqb)) (Merge.cs_counts ca) (Merge.cs_counts cb).

(** What the search remembers.
    [m_win]: (window number, the router child's pending list) with which a
    window was entered and the rest of the session could not be explained.
    [m_node]: search nodes inside a window from which it could not: window
    number, observations left, lengths of the pending lists of child 0 and
    child 2 (they only shrink from the front), the pending list of child 1
    and the merge session's state.  Within one window everything else in the
    state is the same at every node.  Without [m_node] the interleavings of a
    window (thousands for a REQ with a few stored events, nearly all of them
    ending in the same state) would each be walked again whenever a later
    window fails. *)
Record nodekey := mkNK {
  nk_win : nat; nk_obs : nat; nk_p0 : nat; nk_p2 : nat; nk_p1 : list smsg; nk_merge : Merge.state }.

(** ([if] and not [&&]: under [vm_compute] both arguments of [andb] are
    evaluated; the cheap tests must cut the comparison short) *)
Definition nk_eqb (a b : nodekey) : bool :=
  if Nat.eqb (nk_win a) (nk_win b) then
    if Nat.eqb (nk_obs a) (nk_obs b) then
      if Nat.eqb (nk_p0 a) (nk_p0 b) then
        if Nat.eqb (nk_p2 a) (nk_p2 b) then
          if Nat.eqb (length (nk_p1 a)) (length (nk_p1 b)) then
            if smsgs_eqb (nk_p1 a) (nk_p1 b) then mstate_eqb (nk_merge a) (nk_merge b) else false
          else false
        else false
      else false
    else false
  else false.

(** the remembered nodes are kept per window (a lookup scans one window's nodes) *)
Record memo := mkMemo { m_win : list (nat * list smsg); m_node : list (nat * list nodekey) }.

Definition memo0 : memo := mkMemo [] [].

Definition in_memo (i : nat) (q : list smsg) (mm : memo) : bool :=
  existsb (fun x => if Nat.eqb (fst x) i then smsgs_eqb (snd x) q else false) (m_win mm).
Definition add_win (i : nat) (q : list smsg) (mm : memo) : memo := mkMemo ((i, q) :: m_win mm) (m_node mm).

Fixpoint bucket (i : nat) (l : list (nat * list nodekey)) : list nodekey :=
  match l with
  | [] => []
  | (j, ks) :: r => if Nat.eqb i j then ks else bucket i r
  end.
Fixpoint bucket_add (i : nat) (k : nodekey) (l : list (nat * list nodekey)) : list (nat * list nodekey) :=
  match l with
  | [] => [(i, [k])]
  | (j, ks) :: r => if Nat.eqb i j then (j, k :: ks) :: r else (j, ks) :: bucket_add i k r
  end.
Definition node_seen (k : nodekey) (mm : memo) : bool := existsb (nk_eqb k) (bucket (nk_win k) (m_node mm)).
Definition add_node (k : nodekey) (mm : memo) : memo := mkMemo (m_win mm) (bucket_add (nk_win k) k (m_node mm)).

Definition key_of (i : nat) (s : msys) (obs : list smsg) : nodekey :=
  mkNK i (length obs) (length (y_p0 s)) (length (y_p2 s)) (y_p1 s) (y_merge s).

(** result of a search: the final state if the whole rest of the session could
    be explained, the budget that is left, what is remembered *)
Definition sres := (option msys * Z * memo)%type.

Definition fail_with (b : Z) (mm : memo) : sres := (None, b, mm).

(** depth-first search over deliveries in window [i].  [depth] bounds the
    length of a branch (every delivery removes a pending message), [budget]
    the number of nodes visited in the whole session; [strict]: at the end
    nothing at all may be pending.  When the observations of the window are
    used up and the state is settled, the continuation [k] (the rest of the
    session; the same for every node of a window) is asked; if it fails, the
    search goes on: further deliveries that emit nothing lead to other end
    states. *)
Fixpoint search (depth : nat) (budget : Z) (mm : memo) (i : nat) (strict : bool) (s : msys) (obs : list smsg)
         (k : msys -> Z -> memo -> sres) : sres :=
  match depth with
  | O => fail_with budget mm
  | S d =>
      if budget <=? 0 then fail_with 0 mm else
      if y_dead s then fail_with (budget - 1) mm else
      let key := key_of i s obs in
      if node_seen key mm then fail_with (budget - 1) mm else
      let here : sres :=
        if (if strict then quietb s else settled s) && match obs with [] => true | _ => false end
        then k s (budget - 1) mm
        else fail_with (budget - 1) mm in
      match here with
      | (Some s2, b2, mm2) => (Some s2, b2, mm2)
      | (None, b1, mm1) =>
        let try (x : src) (kont : Z -> memo -> sres) (b : Z) (m0 : memo) : sres :=
          match pop s x with
          | None => kont b m0
          | Some _ =>
              let '(s', _, o) := jstep None s (LDel x) in
              let r :=
                match o with
                | [] => search d b m0 i strict s' obs k
                | [m] => match obs with
                         | m' :: obs' => if smsg_eqb m m' then search d b m0 i strict s' obs' k else fail_with b m0
                         | [] => fail_with b m0
                         end
                | _ => fail_with b m0
                end in
              match r with
              | (Some s2, b2, mm2) => (Some s2, b2, mm2)
              | (None, b2, mm2) => kont b2 mm2
              end
          end in
        let r :=
          try Src0
            (try Src2
               (try Src1
                  (fun b m0 => if head_is_event (y_p1 s) then try Src1M fail_with b m0 else fail_with b m0)))
            b1 mm1 in
        match r with
        | (Some s2, b2, mm2) => (Some s2, b2, mm2)
        | (None, b2, mm2) => (None, b2, add_node key mm2)
        end
      end
  end.

Definition pending_total (s : msys) : nat := length (y_p0 s) + length (y_p1 s) + length (y_p2 s).

(** nodes visited per session, all windows and all resumptions together (a
    session that is explained at the first attempt visits a few hundred) *)
Definition search_budget : Z := 1500000.

(** all orders in which the Go map of the connection's subscriptions may be walked *)
Fixpoint insert_all {A} (x : A) (l : list A) : list (list A) :=
  match l with
  | [] => [[x]]
  | y :: r => (x :: l) :: List.map (cons y) (insert_all x r)
  end.
Fixpoint perms {A} (l : list A) : list (list A) :=
  match l with
  | [] => [[]]
  | x :: r => flat_map (insert_all x) (perms r)
  end.

Definition matching_keys (e : event) (m : Router.submap) : list str :=
  List.map fst (filter (fun kv => Router.sub_matches e (snd kv)) m).

(** The order in which one Publish walked the map shows in the order in which
    its copies arrive, possibly windows later: the first candidate is read off
    the observations still to come ([future]), skipping for each subscription
    the copies of the same event that are still queued from an earlier
    Publish; then every permutation.  (The first candidate is only a good
    guess: an [EVENT sub e] to come may also be a stored answer to a later REQ
    that re-uses [sub]; then a later window fails and the search comes back
    for the next permutation.) *)
Definition is_copy_of (sub : str) (e : event) (m : smsg) : bool :=
  match m with SEvent s x => str_eqb s sub && event_eqb x e | _ => false end.

Fixpoint nth_pos (p : smsg -> bool) (skip : nat) (l : list smsg) (i : Z) : Z :=
  match l with
  | [] => -1
  | m :: r => if p m then match skip with O => i | S k => nth_pos p k r (i + 1) end
              else nth_pos p skip r (i + 1)
  end.

Fixpoint insert_pos (x : Z * str) (l : list (Z * str)) : list (Z * str) :=
  match l with
  | [] => [x]
  | y :: r => if fst x <=? fst y then x :: l else y :: insert_pos x r
  end.

Definition guess_ord (s : msys) (e : event) (ks : list str) (future : list smsg) : list str :=
  let big := Z.of_nat (length future) + 1 in
  let pos k :=
    let p := nth_pos (is_copy_of k e) (count_occ_b (is_copy_of k e) (y_p1 s)) future 0 in
    if p <? 0 then big else p in
  List.map snd (fold_right insert_pos [] (List.map (fun k => (pos k, k)) ks)).

Definition strs_eqb : list str -> list str -> bool := list_eqb str_eqb.

Definition ords_for (s : msys) (m : cmsg) (future : list smsg) : list (list str) :=
  match m with
  | CEvent e => match matching_keys e (y_subs s) with
                | [] | [_] => [[]]
                | ks => let g := guess_ord s e ks future in
                        g :: filter (fun o => negb (strs_eqb o g)) (perms ks)
                end
  | _ => [[]]
  end.

Definition sentinel_msg (sub : str) : cmsg := CCount sub [empty_filter].

(** one window from a settled state, then the rest of the session [k] *)
Definition walk_window (ml : Z) (i : nat) (s : msys) (w : win) (future : list smsg)
           (b0 : Z) (mm0 : memo) (k : msys -> Z -> memo -> sres) : sres :=
  let s0 := jflush s in
  let ans := if w_sqerr w then None else Some (w_sq w) in
  let ans_ok :=
    match w_msg w with
    | CReq _ fs =>
        SqlCheckBase.model_accepts (sq_db (y_sq s0)) fs ml
          (if w_sqerr w then SqlCheckBase.QErr else SqlCheckBase.QOk (w_sq w))
    | _ => true
    end in
  if negb ans_ok then fail_with b0 mm0 else
  (* the cache lists what the model's cache lists (the cache's state does not
     depend on the schedule) *)
  let k' (s3 : msys) (b : Z) (mm : memo) : sres :=
    match w_msg w with
    | CEvent _ => if events_eqb (c_listing (y_cache s3)) (w_list w) then k s3 b mm else fail_with b mm
    | _ => k s3 b mm
    end in
  (* live events left over from earlier windows may reach the merge session
     before it reads the message (they were on their way when it was sent):
     the first [n] of them are delivered first, for n = 0, 1, ... *)
  let after_reads (ord : list str) (sa : msys) (obs : list smsg) (b : Z) (mm : memo) : sres :=
    let s1 := fst (fst (jstep ans (set_in sa [w_msg w; sentinel_msg (w_sent w)]) (LNext ord))) in
    let s2 := fst (fst (jstep ans s1 (LNext []))) in
    search (S (pending_total s2)) b mm i false s2 obs k' in
  let fix early (n : nat) (ord : list str) (sa : msys) (obs : list smsg) (b : Z) (mm : memo) : sres :=
    match after_reads ord sa obs b mm with
    | (Some s3, b1, mm1) => (Some s3, b1, mm1)
    | (None, b1, mm1) =>
        match n with
        | O => fail_with b1 mm1
        | S n' =>
            match pop sa Src1 with
            | None => fail_with b1 mm1
            | Some _ =>
                let '(sb, _, o) := jstep None sa (LDel Src1) in
                match o, obs with
                | [], _ => early n' ord sb obs b1 mm1
                | [m], m' :: obs' => if smsg_eqb m m' then early n' ord sb obs' b1 mm1 else fail_with b1 mm1
                | _, _ => fail_with b1 mm1
                end
            end
        end
    end in
  let fix first (ords : list (list str)) (b : Z) (mm : memo) : sres :=
    match ords with
    | [] => fail_with b mm
    | ord :: rest =>
        match early (length (y_p1 s0)) ord s0 (w_obs w) b mm with
        | (Some s3, b1, mm1) => (Some s3, b1, mm1)
        | (None, b1, mm1) => first rest b1 mm1
        end
    end in
  first (ords_for s0 (w_msg w) future) b0 mm0.

(** the windows from number [i] on, then the messages that came after the last
    window: at the very end nothing may be pending *)
Fixpoint walk (ml : Z) (i : nat) (ws : list win) (tail : list smsg) (s : msys) (b : Z) (mm : memo) : sres :=
  if in_memo i (y_p1 s) mm then fail_with b mm else
  let r :=
    match ws with
    | [] => search (S (pending_total s)) b mm i true s tail (fun s' b' mm' => (Some s', b', mm'))
    | w :: rest =>
        walk_window ml i s w (w_obs w ++ flat_map w_obs rest ++ tail) b mm
                    (fun s' b' mm' => walk ml (S i) rest tail s' b' mm')
    end in
  match r with
  | (Some s', b', mm') => (Some s', b', mm')
  | (None, b', mm') => (None, b', add_win i (y_p1 s) mm')
  end.

Definition model_agrees (cap ml : Z) (ws : list win) (tail : list smsg) : bool :=
  match walk ml 0 ws tail (sys_init Sql.db cap Sql.empty_db []) search_budget memo0 with
  | (Some _, _, _) => true
  | (None, _, _) => false
  end.

(* ------------------------------------------------------------------ *)
(** * (a) the oracle: the SYS_ statements over (requests, replies) *)

(** a live copy the client is owed: subscription id, event, and whether it
    MUST still come (the subscription was neither closed nor replaced since) *)
Record owed := mkOwed { o_sub : str; o_ev : event; o_must : bool }.

Record ostate := mkO {
  o_R : list event;                      (* the cache's listing (observed) *)
  o_H : list event;                      (* every event the client sent *)
  o_subs : list (str * list rfilter);    (* open subscriptions, from the requests *)
  o_owed : list owed
}.

Definition o_init : ostate := mkO [] [] [] [].

Fixpoint take_where (p : owed -> bool) (l : list owed) : option (list owed) :=
  match l with
  | [] => None
  | x :: r =>
      if p x then Some r
      else match take_where p r with Some r' => Some (x :: r') | None => None end
  end.

(** an arrival [EVENT sub e] settles one owed copy of [e] for [sub].  Several
    may be owed that differ only in [o_must]: copies queued for an earlier
    subscription with this id (no longer required: the merge session may have
    swallowed them as duplicates while it answered the REQ that re-used the id,
    or they are still to come) and the copy for the present subscription.
    Which of them arrived cannot be seen.  A copy that MUST come is settled
    first: what is left then is never harder to satisfy than under the other
    choice (the entries are interchangeable for every later arrival, and a
    later REQ/CLOSE voids them alike), so this choice accepts exactly when
    some attribution does.  (An earlier version settled the oldest entry first
    and then missed the required copy.) *)
Definition take_owed (sub : str) (e : event) (l : list owed) : option (list owed) :=
  let same x := str_eqb (o_sub x) sub && event_eqb (o_ev x) e in
  match take_where (fun x => same x && o_must x) l with
  | Some r => Some r
  | None => take_where same l
  end.

Definition void_sub (sub : str) (l : list owed) : list owed :=
  List.map (fun x => if str_eqb (o_sub x) sub then mkOwed (o_sub x) (o_ev x) false else x) l.

(** messages that may appear anywhere: live events the client is owed.
    [own] accepts the window's own replies.  An EVENT can be BOTH: a REQ that
    re-uses a subscription id while a live copy for the old subscription is
    still queued in the router child, and whose stored answer contains the same
    event — both read [EVENT sub e], and the late copy may come before, among
    or windows after the stored answer (observed: the queue forwarder lagged
    eight windows behind under load).  Which of the two a message is cannot be
    read off the message, and deciding greedily (an earlier version took every
    such message as the late copy) rejects the real copy when it arrives later.
    So [consume] returns EVERY attribution: the owed list that remains and the
    messages taken as the window's own, for each way of reading the messages
    that are ambiguous; the empty list when some message is neither owed nor
    accepted by [own].  Only ambiguous messages branch. *)
Fixpoint consume (own : smsg -> bool) (l : list smsg) (ow : list owed) : list (list owed * list smsg) :=
  match l with
  | [] => [(ow, [])]
  | m :: r =>
      let as_own :=
        if own m then List.map (fun x => (fst x, m :: snd x)) (consume own r ow) else [] in
      match m with
      | SEvent sub e =>
          (* an event the client is owed may be that (a live copy that is late
             may carry the id of the window's own subscription) *)
          match take_owed sub e ow with
          | Some ow' => consume own r ow' ++ as_own
          | None => as_own
          end
      | _ => as_own
      end
  end.

Definition never (_ : smsg) : bool := false.

(** at most this many readings of a session are followed (a reading branches
    only at an ambiguous message) *)
Definition max_readings : nat := 32.

Fixpoint split_last {A} (l : list A) : option (list A * A) :=
  match l with
  | [] => None
  | [x] => Some ([], x)
  | x :: r => match split_last r with Some (i, z) => Some (x :: i, z) | None => None end
  end.

Fixpoint is_prefix (p l : str) : bool :=
  match p, l with
  | [], _ => true
  | x :: p', y :: l' => N.eqb x y && is_prefix p' l'
  | _ :: _, [] => false
  end.

Fixpoint ts_nonincb (l : list event) : bool :=
  match l with
  | [] => true
  | e :: r => forallb (fun e' => ev_ts e' <=? ev_ts e) r && ts_nonincb r
  end.

Fixpoint ids_distinctb (l : list event) : bool :=
  match l with
  | [] => true
  | e :: r => negb (existsb (fun e' => str_eqb (ev_id e') (ev_id e)) r) && ids_distinctb r
  end.

Fixpoint split_at_eose (sub : str) (l : list smsg) : option (list smsg * list smsg) :=
  match l with
  | [] => None
  | SEose s :: r => if str_eqb s sub then Some ([], r)
                    else match split_at_eose sub r with Some (a, b) => Some (SEose s :: a, b) | None => None end
  | m :: r => match split_at_eose sub r with Some (a, b) => Some (m :: a, b) | None => None end
  end.

Definition is_answer_event (sub : str) (m : smsg) : bool :=
  match m with SEvent s _ => str_eqb s sub | _ => false end.

Definition o_set {B} (k : str) (v : B) (l : list (str * B)) : list (str * B) :=
  (k, v) :: filter (fun kv => negb (str_eqb k (fst kv))) l.
Definition o_del {B} (k : str) (l : list (str * B)) : list (str * B) :=
  filter (fun kv => negb (str_eqb k (fst kv))) l.

(** one window.  [body]: the window without the sentinel's reply.  The result
    lists the oracle's state after the window for every reading of the window
    that satisfies the statements; empty = the window violates them. *)
Definition oracle_window (st : ostate) (w : win) : list ostate :=
  match split_last (w_obs w) with
  | None => []
  | Some (body, last) =>
      (* SYS_count_zero, for the sentinel: its single reply closes the window *)
      if negb (smsg_eqb last (SCount (w_sent w) 0 None)) then [] else
      if existsb (is_cnt_sub (w_sent w)) body then [] else
      match w_msg w with
      | CEvent e =>
          (* SYS_event_one_ok *)
          let owed1 := o_owed st ++
                       List.map (fun kv => mkOwed (fst kv) e true)
                                (filter (fun kv => matches_specb e (snd kv)) (o_subs st)) in
          flat_map (fun r : list owed * list smsg =>
            match r with
            | (ow, [SOk id acc p t]) =>
                let H' := o_H st ++ [e] in
                let verdict_ok :=
                  if hist_ok5b H' then Bool.eqb acc (expected_added (o_R st) e) else true in
                if str_eqb id (ev_id e) && verdict_ok &&
                   (if acc then true else is_prefix dup_prefix (p ++ t)) &&
                   (if ev_in e (w_list w) && negb (ev_in e (o_R st)) then acc else true)
                then [mkO (w_list w) H' (o_subs st) ow] else []
            | _ => []
            end) (consume (is_ok_id (ev_id e)) body owed1)
      | CReq sub fs =>
          (* SYS_req_stream *)
          let owed1 := void_sub sub (o_owed st) in
          match split_at_eose sub body with
          | None => []
          | Some (pre, post) =>
              if existsb (fun m => match m with SEose _ => true | _ => false end) (pre ++ post) then [] else
              flat_map (fun r : list owed * list smsg =>
                let (ow1, mine) := r in
                let evs := events_for sub mine in
                if forallb (fun x => matches_specb x fs) evs &&
                   ids_distinctb evs && ts_nonincb evs &&
                   forallb (fun x => ev_in x (o_R st) || ev_in x (w_sq w) ||
                                     existsb (fun y => str_eqb (o_sub y) sub && event_eqb (o_ev y) x) owed1) evs
                then List.map (fun r2 : list owed * list smsg =>
                                 mkO (o_R st) (o_H st) (o_set sub fs (o_subs st)) (fst r2))
                              (consume never post ow1)
                else []) (consume (is_answer_event sub) pre owed1)
          end
      | CCount sub _ =>
          (* SYS_count_zero *)
          flat_map (fun r : list owed * list smsg =>
            match r with
            | (ow, [m]) => if smsg_eqb m (SCount sub 0 None)
                           then [mkO (o_R st) (o_H st) (o_subs st) ow] else []
            | _ => []
            end) (consume (is_cnt_sub sub) body (o_owed st))
      | CClose sub =>
          (* SYS_close_silent *)
          List.map (fun r : list owed * list smsg => mkO (o_R st) (o_H st) (o_del sub (o_subs st)) (fst r))
                   (consume never body (void_sub sub (o_owed st)))
      | CAuth _ =>
          List.map (fun r : list owed * list smsg => mkO (o_R st) (o_H st) (o_subs st) (fst r))
                   (consume never body (o_owed st))
      end
  end.

(** all readings of the windows that satisfy the statements so far *)
Fixpoint oracle_walk (sts : list ostate) (ws : list win) : list ostate :=
  match ws with
  | [] => sts
  | w :: rest => oracle_walk (firstn max_readings (flat_map (fun st => oracle_window st w) sts)) rest
  end.

(** SYS_live_after_eose: at the end every live copy that MUST come has come
    (under some reading that satisfies all windows) *)
Definition oracle (ws : list win) (tail : list smsg) : bool :=
  existsb (fun st =>
             existsb (fun r : list owed * list smsg => forallb (fun x => negb (o_must x)) (fst r))
                     (consume never tail (o_owed st)))
          (oracle_walk [o_init] ws).
