(* SystemJudge.v — SYS: judging an OBSERVED client-side sequence of the real
   composed handler.  Definitions only.

   The real children answer concurrently, so the interleaving of their replies
   is the Go scheduler's choice; the harness cannot fix it and only records
   what the client received.  Two independent judgements:

   (b) "the model agrees": there EXISTS a schedule under which the composed
       model (System.v) produces the observed sequence.  The harness feeds one
       client message at a time, each followed by a COUNT sentinel, and records
       the messages received up to the sentinel's reply (a window).  For a
       window the search reads the two messages and then explores the
       interleavings of the three children's pending replies depth first; a
       delivery that makes the model emit a message must emit exactly the next
       observed message.  Live events still queued in the router child at the
       end of a window may be delivered in a later window (the queue forwarder
       can lag behind the sentinel).  The SQLite child's answer to a REQ is
       taken as given (the same query is put to the same database right before
       the REQ; the order among equal created_at is SQLite's) and is checked
       against the relational model of Sql.v by [SqlCheckBase.model_accepts].

   (a) the oracle: the SYS_ statements as boolean checks over (requests,
       replies).  It never runs [sys_step] / [Merge.merge_step]. *)
From Moc Require Import Base Match Msg Cache CacheSpec CacheInv CacheHyp Handlers System.
From Moc Require Merge Router Sql SqlSpec SqlCheckBase.
Open Scope Z_scope.

(** one window: the client message, the id of the COUNT sentinel that followed
    it, the answer of the database to the REQ's filters right before the REQ
    ([w_sqerr]: the query failed), the match-everything listing of the cache
    right after an EVENT, and the messages received up to and including the
    sentinel's reply *)
Record win := mkWin {
  w_msg : cmsg;
  w_sent : str;
  w_sq : list event;
  w_sqerr : bool;
  w_list : list event;
  w_obs : list smsg
}.

Definition smsgs_eqb : list smsg -> list smsg -> bool := list_eqb smsg_eqb.
Definition events_eqb : list event -> list event -> bool := list_eqb event_eqb.

(* ------------------------------------------------------------------ *)
(** * (b) the model agrees: search for a schedule *)

Definition msys := sys Sql.db.

Definition sq_insert (d : Sql.db) (b : list event) : Sql.db := Sql.insert_batch 0 d b.

(** the composed model with EventBulkInsertNum = 1 and router buflen 100; the
    SQLite answer is a parameter of the step *)
Definition jstep (ans : option (list event)) (s : msys) (x : label) : msys * list Merge.input * list smsg :=
  sys_step Sql.db (fun _ _ => ans) sq_insert 1 100 s x.

(** the inserter drains eventCh (the harness waits for it after every EVENT) *)
Definition jflush (s : msys) : msys :=
  fold_left (fun s0 _ => fst (fst (jstep None s0 (LBg BgRecv)))) (sq_queue (y_sq s)) s.

Definition set_in (s : msys) (l : list cmsg) : msys :=
  mkSys (y_merge s) (y_cache s) (y_subs s) (y_sq s) (y_p0 s) (y_p1 s) (y_p2 s) l (y_done s) (y_dead s).

(** nothing but queued live events is pending *)
Definition settled (s : msys) : bool :=
  match y_in s, y_p0 s, y_p2 s with
  | [], [], [] => forallb smsg_is_event (y_p1 s)
  | _, _, _ => false
  end.

Definition head_is_event (l : list smsg) : bool :=
  match l with m :: _ => smsg_is_event m | [] => false end.

(** depth-first search over deliveries.  [depth] bounds the length of a
    branch (every delivery removes a pending message), [budget] the number of
    nodes visited; [strict]: at the end nothing at all may be pending. *)
Fixpoint search (depth : nat) (budget : Z) (strict : bool) (s : msys) (obs : list smsg) : option msys * Z :=
  match depth with
  | O => (None, budget)
  | S d =>
      if budget <=? 0 then (None, 0) else
      if y_dead s then (None, budget - 1) else
      if (if strict then quietb s else settled s) && match obs with [] => true | _ => false end
      then (Some s, budget - 1)
      else
        let try (x : src) (k : Z -> option msys * Z) (b : Z) : option msys * Z :=
          match pop s x with
          | None => k b
          | Some _ =>
              let '(s', _, o) := jstep None s (LDel x) in
              let r :=
                match o with
                | [] => search d b strict s' obs
                | [m] => match obs with
                         | m' :: obs' => if smsg_eqb m m' then search d b strict s' obs' else (None, b)
                         | [] => (None, b)
                         end
                | _ => (None, b)
                end in
              match r with
              | (Some s2, b2) => (Some s2, b2)
              | (None, b2) => k b2
              end
          end in
        try Src0
          (try Src2
             (try Src1
                (fun b => if head_is_event (y_p1 s) then try Src1M (fun b' => (None, b')) b else (None, b))))
          (budget - 1)
  end.

Definition pending_total (s : msys) : nat := length (y_p0 s) + length (y_p1 s) + length (y_p2 s).

Definition search_budget : Z := 300000.

(** all orders in which the Go map of the connection's subscriptions may be walked *)
Fixpoint insert_all {A} (x : A) (l : list A) : list (list A) :=
  match l with
  | [] => [[x]]
  | y :: r => (x :: l) :: List.map (cons y) (insert_all x r)
  end.
Fixpoint perms {A} (l : list A) : list (list A) :=
  match l with
  | [] => [[]]
  | x :: r => flat_map (insert_all x) (perms r)
  end.

Definition matching_keys (e : event) (m : Router.submap) : list str :=
  List.map fst (filter (fun kv => Router.sub_matches e (snd kv)) m).

(** The order in which one Publish walked the map shows in the order in which
    its copies arrive, possibly windows later: the first candidate is read off
    the observations still to come ([future]), skipping for each subscription
    the copies of the same event that are still queued from an earlier
    Publish; then every permutation. *)
Definition is_copy_of (sub : str) (e : event) (m : smsg) : bool :=
  match m with SEvent s x => str_eqb s sub && event_eqb x e | _ => false end.

Fixpoint nth_pos (p : smsg -> bool) (skip : nat) (l : list smsg) (i : Z) : Z :=
  match l with
  | [] => -1
  | m :: r => if p m then match skip with O => i | S k => nth_pos p k r (i + 1) end
              else nth_pos p skip r (i + 1)
  end.

Fixpoint insert_pos (x : Z * str) (l : list (Z * str)) : list (Z * str) :=
  match l with
  | [] => [x]
  | y :: r => if fst x <=? fst y then x :: l else y :: insert_pos x r
  end.

Definition guess_ord (s : msys) (e : event) (ks : list str) (future : list smsg) : list str :=
  let big := Z.of_nat (length future) + 1 in
  let pos k :=
    let p := nth_pos (is_copy_of k e) (count_occ_b (is_copy_of k e) (y_p1 s)) future 0 in
    if p <? 0 then big else p in
  List.map snd (fold_right insert_pos [] (List.map (fun k => (pos k, k)) ks)).

Definition ords_for (s : msys) (m : cmsg) (future : list smsg) : list (list str) :=
  match m with
  | CEvent e => match matching_keys e (y_subs s) with
                | [] | [_] => [[]]
                | ks => guess_ord s e ks future :: perms ks
                end
  | _ => [[]]
  end.

Definition sentinel_msg (sub : str) : cmsg := CCount sub [empty_filter].

(** one window from a settled state: the model's state afterwards *)
Definition walk_window (ml : Z) (s : msys) (w : win) (future : list smsg) : option msys :=
  let s0 := jflush s in
  let ans := if w_sqerr w then None else Some (w_sq w) in
  let ans_ok :=
    match w_msg w with
    | CReq _ fs =>
        SqlCheckBase.model_accepts (sq_db (y_sq s0)) fs ml
          (if w_sqerr w then SqlCheckBase.QErr else SqlCheckBase.QOk (w_sq w))
    | _ => true
    end in
  if negb ans_ok then None else
  (* live events left over from earlier windows may reach the merge session
     before it reads the message (they were on their way when it was sent):
     the first [k] of them are delivered first, for k = 0, 1, ... *)
  let after_reads (ord : list str) (sa : msys) (obs : list smsg) : option msys :=
    let s1 := fst (fst (jstep ans (set_in sa [w_msg w; sentinel_msg (w_sent w)]) (LNext ord))) in
    let s2 := fst (fst (jstep ans s1 (LNext []))) in
    fst (search (S (pending_total s2)) search_budget false s2 obs) in
  let fix early (k : nat) (ord : list str) (sa : msys) (obs : list smsg) : option msys :=
    match after_reads ord sa obs with
    | Some s3 => Some s3
    | None =>
        match k with
        | O => None
        | S k' =>
            match pop sa Src1 with
            | None => None
            | Some _ =>
                let '(sb, _, o) := jstep None sa (LDel Src1) in
                match o, obs with
                | [], _ => early k' ord sb obs
                | [m], m' :: obs' => if smsg_eqb m m' then early k' ord sb obs' else None
                | _, _ => None
                end
            end
        end
    end in
  let fix first (ords : list (list str)) : option msys :=
    match ords with
    | [] => None
    | ord :: rest =>
        match early (length (y_p1 s0)) ord s0 (w_obs w) with
        | Some s3 => Some s3
        | None => first rest
        end
    end in
  match first (ords_for s0 (w_msg w) future) with
  | None => None
  | Some s3 =>
      (* the cache lists what the model's cache lists *)
      match w_msg w with
      | CEvent _ => if events_eqb (c_listing (y_cache s3)) (w_list w) then Some s3 else None
      | _ => Some s3
      end
  end.

Fixpoint walk (ml : Z) (s : msys) (ws : list win) (tail : list smsg) : option msys :=
  match ws with
  | [] => Some s
  | w :: rest =>
      match walk_window ml s w (w_obs w ++ flat_map w_obs rest ++ tail) with
      | Some s' => walk ml s' rest tail
      | None => None
      end
  end.

Definition model_agrees (cap ml : Z) (ws : list win) (tail : list smsg) : bool :=
  match walk ml (sys_init Sql.db cap Sql.empty_db []) ws tail with
  | None => false
  | Some s =>
      match fst (search (S (pending_total s)) search_budget true s tail) with
      | Some _ => true
      | None => false
      end
  end.

(* ------------------------------------------------------------------ *)
(** * (a) the oracle: the SYS_ statements over (requests, replies) *)

(** a live copy the client is owed: subscription id, event, and whether it
    MUST still come (the subscription was neither closed nor replaced since) *)
Record owed := mkOwed { o_sub : str; o_ev : event; o_must : bool }.

Record ostate := mkO {
  o_R : list event;                      (* the cache's listing (observed) *)
  o_H : list event;                      (* every event the client sent *)
  o_subs : list (str * list rfilter);    (* open subscriptions, from the requests *)
  o_owed : list owed
}.

Definition o_init : ostate := mkO [] [] [] [].

Fixpoint take_owed (sub : str) (e : event) (l : list owed) : option (list owed) :=
  match l with
  | [] => None
  | x :: r =>
      if str_eqb (o_sub x) sub && event_eqb (o_ev x) e then Some r
      else match take_owed sub e r with Some r' => Some (x :: r') | None => None end
  end.

Definition void_sub (sub : str) (l : list owed) : list owed :=
  List.map (fun x => if str_eqb (o_sub x) sub then mkOwed (o_sub x) (o_ev x) false else x) l.

(** messages that may appear anywhere: live events the client is owed.
    Returns the owed list after consuming them; [None] when a message is
    neither owed nor accepted by [own] (the window's own replies). *)
Fixpoint consume (own : smsg -> bool) (l : list smsg) (ow : list owed) : option (list owed * list smsg) :=
  match l with
  | [] => Some (ow, [])
  | m :: r =>
      let as_own :=
        if own m then
          match consume own r ow with Some (ow', mine) => Some (ow', m :: mine) | None => None end
        else None in
      match m with
      | SEvent sub e =>
          (* an event the client is owed is taken as that (a live copy that is
             late may carry the id of the window's own subscription) *)
          match take_owed sub e ow with
          | Some ow' => consume own r ow'
          | None => as_own
          end
      | _ => as_own
      end
  end.

Fixpoint split_last {A} (l : list A) : option (list A * A) :=
  match l with
  | [] => None
  | [x] => Some ([], x)
  | x :: r => match split_last r with Some (i, z) => Some (x :: i, z) | None => None end
  end.

Fixpoint is_prefix (p l : str) : bool :=
  match p, l with
  | [], _ => true
  | x :: p', y :: l' => N.eqb x y && is_prefix p' l'
  | _ :: _, [] => false
  end.

Fixpoint ts_nonincb (l : list event) : bool :=
  match l with
  | [] => true
  | e :: r => forallb (fun e' => ev_ts e' <=? ev_ts e) r && ts_nonincb r
  end.

Fixpoint ids_distinctb (l : list event) : bool :=
  match l with
  | [] => true
  | e :: r => negb (existsb (fun e' => str_eqb (ev_id e') (ev_id e)) r) && ids_distinctb r
  end.

Fixpoint split_at_eose (sub : str) (l : list smsg) : option (list smsg * list smsg) :=
  match l with
  | [] => None
  | SEose s :: r => if str_eqb s sub then Some ([], r)
                    else match split_at_eose sub r with Some (a, b) => Some (SEose s :: a, b) | None => None end
  | m :: r => match split_at_eose sub r with Some (a, b) => Some (m :: a, b) | None => None end
  end.

Definition is_answer_event (sub : str) (m : smsg) : bool :=
  match m with SEvent s _ => str_eqb s sub | _ => false end.

Definition o_set {B} (k : str) (v : B) (l : list (str * B)) : list (str * B) :=
  (k, v) :: filter (fun kv => negb (str_eqb k (fst kv))) l.
Definition o_del {B} (k : str) (l : list (str * B)) : list (str * B) :=
  filter (fun kv => negb (str_eqb k (fst kv))) l.

(** one window.  [body]: the window without the sentinel's reply. *)
Definition oracle_window (st : ostate) (w : win) : option ostate :=
  match split_last (w_obs w) with
  | None => None
  | Some (body, last) =>
      (* SYS_count_zero, for the sentinel: its single reply closes the window *)
      if negb (smsg_eqb last (SCount (w_sent w) 0 None)) then None else
      if existsb (is_cnt_sub (w_sent w)) body then None else
      match w_msg w with
      | CEvent e =>
          (* SYS_event_one_ok *)
          let owed1 := o_owed st ++
                       List.map (fun kv => mkOwed (fst kv) e true)
                                (filter (fun kv => matches_specb e (snd kv)) (o_subs st)) in
          match consume (is_ok_id (ev_id e)) body owed1 with
          | Some (ow, [SOk id acc p t]) =>
              let H' := o_H st ++ [e] in
              let verdict_ok :=
                if hist_ok5b H' then Bool.eqb acc (expected_added (o_R st) e) else true in
              if str_eqb id (ev_id e) && verdict_ok &&
                 (if acc then true else is_prefix dup_prefix (p ++ t)) &&
                 (if ev_in e (w_list w) && negb (ev_in e (o_R st)) then acc else true)
              then Some (mkO (w_list w) H' (o_subs st) ow) else None
          | _ => None
          end
      | CReq sub fs =>
          (* SYS_req_stream *)
          let owed1 := void_sub sub (o_owed st) in
          match split_at_eose sub body with
          | None => None
          | Some (pre, post) =>
              match consume (is_answer_event sub) pre owed1 with
              | None => None
              | Some (ow1, mine) =>
                  let evs := events_for sub mine in
                  match consume (fun _ => false) post ow1 with
                  | Some (ow2, _) =>
                      if forallb (fun x => matches_specb x fs) evs &&
                         ids_distinctb evs && ts_nonincb evs &&
                         forallb (fun x => ev_in x (o_R st) || ev_in x (w_sq w) ||
                                           existsb (fun y => str_eqb (o_sub y) sub && event_eqb (o_ev y) x) owed1) evs &&
                         negb (existsb (fun m => match m with SEose _ => true | _ => false end) (pre ++ post))
                      then Some (mkO (o_R st) (o_H st) (o_set sub fs (o_subs st)) ow2) else None
                  | None => None
                  end
              end
          end
      | CCount sub _ =>
          (* SYS_count_zero *)
          match consume (is_cnt_sub sub) body (o_owed st) with
          | Some (ow, [m]) => if smsg_eqb m (SCount sub 0 None)
                              then Some (mkO (o_R st) (o_H st) (o_subs st) ow) else None
          | _ => None
          end
      | CClose sub =>
          (* SYS_close_silent *)
          match consume (fun _ => false) body (void_sub sub (o_owed st)) with
          | Some (ow, _) => Some (mkO (o_R st) (o_H st) (o_del sub (o_subs st)) ow)
          | None => None
          end
      | CAuth _ =>
          match consume (fun _ => false) body (o_owed st) with
          | Some (ow, _) => Some (mkO (o_R st) (o_H st) (o_subs st) ow)
          | None => None
          end
      end
  end.

Fixpoint oracle_walk (st : ostate) (ws : list win) : option ostate :=
  match ws with
  | [] => Some st
  | w :: rest => match oracle_window st w with Some st' => oracle_walk st' rest | None => None end
  end.

(** SYS_live_after_eose: at the end every live copy that MUST come has come *)
Definition oracle (ws : list win) (tail : list smsg) : bool :=
  match oracle_walk o_init ws with
  | None => false
  | Some st =>
      match consume (fun _ => false) tail (o_owed st) with
      | Some (ow, _) => forallb (fun x => negb (o_must x)) ow
      | None => false
      end
  end.
