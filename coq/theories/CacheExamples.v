(* CacheExamples.v — concrete histories: (a) the hypotheses of the C04/C05
   theorems are satisfiable on a history with a replacement, a rejected older
   version, a deletion, a blocked re-insertion, two evictions and an
   ephemeral event; (b) the witnesses showing that the refinement theorems
   need their tag-shape and ephemeral side conditions.  Everything here is
   checked by computation. *)
From Moc Require Import Base Match Cache CacheSpec CacheInv CacheHyp CacheFacts CacheInvProofs CacheAddProofs.
Open Scope Z_scope.

Definition pkA : str := [65]%N.
Definition pkB : str := [66]%N.

Definition x_e1 := mkEvent [1]%N pkA 1 1 [] [] [].
Definition x_r1 := mkEvent [2]%N pkA 2 10000 [] [] [].
Definition x_r2 := mkEvent [3]%N pkA 5 10000 [] [] [].          (* newer version of x_r1 *)
Definition x_r0 := mkEvent [9]%N pkA 1 10000 [] [] [].          (* older version, offered late *)
Definition x_p1 := mkEvent [4]%N pkB 3 30000 [[d_str; [120]%N]] [] [].
Definition x_d1 := mkEvent [5]%N pkA 6 5 [[e_str; [1]%N]] [] []. (* A deletes x_e1 *)
Definition x_b1 := mkEvent [6]%N pkB 7 1 [] [] [].
Definition x_b2 := mkEvent [7]%N pkB 8 1 [] [] [].
Definition x_eph := mkEvent [8]%N pkB 9 20000 [] [] [].

Definition ex_h : list event :=
  [x_e1; x_r1; x_r2; x_r0; x_p1; x_d1; x_e1; x_b1; x_b2; x_eph].

Lemma ex_h_ok : hist_ok5 ex_h.
Proof. apply hist_ok5b_spec. vm_compute. reflexivity. Qed.

Lemma ex_h_ok' : hist_ok ex_h.
Proof. apply ex_h_ok. Qed.

(** what happens along the history (capacity 3): verdicts and final listing *)
Fixpoint verdicts (s : cstate) (h : list event) : list bool :=
  match h with
  | [] => []
  | e :: rest => let '(s', a) := c_add s e in a :: verdicts s' rest
  end.

Lemma ex_h_verdicts :
  verdicts (c_empty 3) ex_h = [true; true; true; false; true; true; false; true; true; true].
Proof. vm_compute. reflexivity. Qed.

Lemma ex_h_listings :
  c_listing (c_run 3 [x_e1; x_r1; x_r2]) = [x_r2; x_e1] /\                         (* replacement *)
  c_listing (c_run 3 [x_e1; x_r1; x_r2; x_r0; x_p1; x_d1]) = [x_d1; x_r2; x_p1] /\ (* deletion *)
  c_listing (c_run 3 [x_e1; x_r1; x_r2; x_r0; x_p1; x_d1; x_e1; x_b1]) = [x_b1; x_d1; x_r2] /\ (* eviction *)
  c_listing (c_run 3 ex_h) = [x_b2; x_b1; x_d1].
Proof. vm_compute. auto. Qed.

(** the step hypotheses at interesting points of the history *)
Lemma ex_step k : forall h1 e h2, ex_h = h1 ++ e :: h2 -> length h1 = k -> step_hyps (c_run 3 h1) e.
Proof. intros h1 e h2 E _. apply (hist_step_hyps 3 h1 e h2); [rewrite <- E; exact ex_h_ok | lia]. Qed.

Lemma ex_step_replace : step_hyps (c_run 3 [x_e1; x_r1]) x_r2.
Proof. now apply (ex_step 2 [x_e1; x_r1] x_r2 [x_r0; x_p1; x_d1; x_e1; x_b1; x_b2; x_eph]). Qed.

Lemma ex_step_older : step_hyps (c_run 3 [x_e1; x_r1; x_r2]) x_r0.
Proof. now apply (ex_step 3 [x_e1; x_r1; x_r2] x_r0 [x_p1; x_d1; x_e1; x_b1; x_b2; x_eph]). Qed.

Lemma ex_step_delete : step_hyps (c_run 3 [x_e1; x_r1; x_r2; x_r0; x_p1]) x_d1.
Proof. now apply (ex_step 5 [x_e1; x_r1; x_r2; x_r0; x_p1] x_d1 [x_e1; x_b1; x_b2; x_eph]). Qed.

Lemma ex_step_blocked : step_hyps (c_run 3 [x_e1; x_r1; x_r2; x_r0; x_p1; x_d1]) x_e1.
Proof. now apply (ex_step 6 [x_e1; x_r1; x_r2; x_r0; x_p1; x_d1] x_e1 [x_b1; x_b2; x_eph]). Qed.

Lemma ex_step_evict : step_hyps (c_run 3 [x_e1; x_r1; x_r2; x_r0; x_p1; x_d1; x_e1]) x_b1.
Proof. now apply (ex_step 7 [x_e1; x_r1; x_r2; x_r0; x_p1; x_d1; x_e1] x_b1 [x_b2; x_eph]). Qed.

Lemma In_by_ev_in x l : ev_in x l = true -> In x l.
Proof. apply ev_in_In. Qed.

(* ------------------------------------------------------------------ *)
(** * Why the side conditions are needed: four witnesses *)

Lemma forallb_key_wf l : forallb key_wfb l = true -> Forall key_wf l.
Proof. rewrite forallb_forall, Forall_forall. intros H x Hx. now apply key_wfb_spec, H. Qed.

(** the hypotheses of the refinement theorems as first stated (without
    [k5_wf] and [eph_ok]) *)
Definition plain_hyps (s : cstate) (e : event) : Prop :=
  Inv s /\ ids_functional (e :: retained s) /\ key_wf e /\ Forall key_wf (retained s) /\ 1 <= c_cap s.

Ltac plain_hyps_by_computation h :=
  split; [apply (inv_reachable _ h), hist_okb_spec; vm_compute; reflexivity|];
  split; [apply ids_functionalb_spec; vm_compute; reflexivity|];
  split; [apply key_wfb_spec; vm_compute; reflexivity|];
  split; [apply forallb_key_wf; vm_compute; reflexivity | vm_compute; discriminate].

(** (1) an ephemeral event whose id a retained deletion request of its author names *)
Definition w1_d := mkEvent [1]%N pkA 1 5 [[e_str; [7]%N]] [] [].
Definition w1_x := mkEvent [7]%N pkA 2 20000 [] [] [].

Lemma w1_refuted :
  plain_hyps (c_run 5 [w1_d]) w1_x /\ k5_wf w1_x /\ Forall k5_wf (retained (c_run 5 [w1_d])) /\
  c_add (c_run 5 [w1_d]) w1_x = (c_run 5 [w1_d], true) /\
  suppressed (c_listing (c_run 5 [w1_d])) w1_x = true /\
  step_ok_c04 5 (c_listing (c_run 5 [w1_d])) w1_x true (c_listing (c_run 5 [w1_d])) = false /\
  step_ok_c05 5 (c_listing (c_run 5 [w1_d])) w1_x true (c_listing (c_run 5 [w1_d])) = false.
Proof.
  split; [plain_hyps_by_computation [w1_d]|].
  split; [apply k5_wfb_spec; vm_compute; reflexivity|].
  split; [apply Forall_forall; intros x Hx; apply k5_wfb_spec; revert x Hx; apply forallb_forall; vm_compute; reflexivity|].
  vm_compute. auto.
Qed.

(** (2) an [a] tag that carries a bare event id *)
Definition w2_d := mkEvent [1]%N pkA 1 5 [[a_str; [7]%N]] [] [].
Definition w2_x := mkEvent [7]%N pkA 2 1 [] [] [].

Lemma w2_refuted :
  plain_hyps (c_run 5 [w2_d]) w2_x /\ plain_hyps (c_run 5 [w2_x]) w2_d /\
  (* blocked by the code, not suppressed by the text *)
  snd (c_add (c_run 5 [w2_d]) w2_x) = false /\ suppressed (c_listing (c_run 5 [w2_d])) w2_x = false /\
  step_ok_c04 5 (c_listing (c_run 5 [w2_d])) w2_x (snd (c_add (c_run 5 [w2_d]) w2_x))
              (c_listing (fst (c_add (c_run 5 [w2_d]) w2_x))) = false /\
  (* removed by the code, not referenced by the text *)
  refs w2_d w2_x = false /\ c_listing (fst (c_add (c_run 5 [w2_x]) w2_d)) = [w2_d] /\
  step_ok_c05 5 (c_listing (c_run 5 [w2_x])) w2_d (snd (c_add (c_run 5 [w2_x]) w2_d))
              (c_listing (fst (c_add (c_run 5 [w2_x]) w2_d))) = false.
Proof.
  split; [plain_hyps_by_computation [w2_d]|].
  split; [plain_hyps_by_computation [w2_x]|].
  vm_compute. repeat split; reflexivity.
Qed.

(** (3) an [e] tag that carries an address *)
Definition w3_x := mkEvent [7]%N pkA 2 30000 [[d_str; [8]%N]] [] [].
Definition w3_d := mkEvent [1]%N pkA 1 5 [[e_str; event_key w3_x]] [] [].

Lemma w3_refuted :
  plain_hyps (c_run 5 [w3_d]) w3_x /\
  snd (c_add (c_run 5 [w3_d]) w3_x) = false /\ suppressed (c_listing (c_run 5 [w3_d])) w3_x = false /\
  step_ok_c04 5 (c_listing (c_run 5 [w3_d])) w3_x (snd (c_add (c_run 5 [w3_d]) w3_x))
              (c_listing (fst (c_add (c_run 5 [w3_d]) w3_x))) = false.
Proof.
  split; [plain_hyps_by_computation [w3_d]|]. vm_compute. repeat split; reflexivity.
Qed.

(** (4) an [a] tag kind:pubkey without the trailing colon, against a replaceable event *)
Definition w4_x := mkEvent [7]%N pkA 2 10000 [] [] [].
Definition w4_d := mkEvent [1]%N pkA 1 5 [[a_str; event_key w4_x]] [] [].

Lemma w4_refuted :
  plain_hyps (c_run 5 [w4_d]) w4_x /\
  snd (c_add (c_run 5 [w4_d]) w4_x) = false /\ suppressed (c_listing (c_run 5 [w4_d])) w4_x = false /\
  step_ok_c04 5 (c_listing (c_run 5 [w4_d])) w4_x (snd (c_add (c_run 5 [w4_d]) w4_x))
              (c_listing (fst (c_add (c_run 5 [w4_d]) w4_x))) = false.
Proof.
  split; [plain_hyps_by_computation [w4_d]|]. vm_compute. repeat split; reflexivity.
Qed.
