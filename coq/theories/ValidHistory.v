(* ValidHistory.v — C11: the three defects this check found on the tree as
   it was before the repairs, kept as documentation.  The lemmas are about
   explicit copies of the former guards (NOT the generated ones, which now
   carry the repaired code), so they keep compiling.

     F1  validKind was  0 <= kind || kind <= 65535    (every integer passes)
     F2  validNaddr cut with strings.Split(naddr, ":") (a d part with ':' gives four parts)
     F10 clientMsgRegexp was anchored at the bracket   (leading white space rejected)

   Minimal inputs (corpus/C11/defects.jsonl, run first on every check):
     ["REQ","",{"kinds":[70000]}]                 was parsed and judged valid
     ["REQ","",{"#a":["30000:<pubkey>:x:y"]}]     was parsed and judged invalid
     ' ["CLOSE",""]'  (one leading space)          was rejected by ParseClientMsg *)
From Moc Require Import Base Json CodecMsg Codec CodecProofs Valid ValidProofs.
Open Scope Z_scope.

(** F1 *)
Definition kind_guard_before (kind : Z) : bool := (0 <=? kind) || (kind <=? 65535).

Lemma kind_guard_before_always k : kind_guard_before k = true.
Proof.
  unfold kind_guard_before. destruct (0 <=? k) eqn:E; [reflexivity|]. simpl.
  apply Z.leb_gt in E. apply Z.leb_le. lia.
Qed.

Theorem kind_guard_before_refuted : exists k, ~ kind_spec k /\ kind_guard_before k = true.
Proof. exists 70000. split; [unfold kind_spec; lia | reflexivity]. Qed.

(** F2: validNaddr as it was, through the model's own Split *)
Definition naddr_before (s : str) : bool :=
  let elems := splitn (-1) colon s in
  if negb (zlen elems =? 3) then false else
  match elems with
  | k :: pk :: _ =>
      match parse_int10 k with
      | None => false
      | Some kind => kind_guard_before kind && valid_pubkey pk
      end
  | _ => false
  end.

Definition hex64_zero : str := repeat 48%N 64.     (* "000...0" *)
Definition addr_colon_in_d : str :=                (* "30000:" ++ pk ++ ":x:y" *)
  [51; 48; 48; 48; 48; 58]%N ++ hex64_zero ++ [58; 120; 58; 121]%N.
Definition addr_kind_70000 : str :=                (* "70000:" ++ pk ++ ":d" *)
  [55; 48; 48; 48; 48; 58]%N ++ hex64_zero ++ [58; 100]%N.

Theorem naddr_before_refuted : naddr_spec addr_colon_in_d /\ naddr_before addr_colon_in_d = false.
Proof. split; [apply naddr_specb_spec|]; reflexivity. Qed.

Theorem naddr_before_unsound : naddr_before addr_kind_70000 = true /\ naddr_specb addr_kind_70000 = false.
Proof. split; reflexivity. Qed.

(** the message-level witnesses: what ValidClientMsg decided before the
    repairs is [cmsg_okb kind_guard_before naddr_before true] (theorem
    [valid_char] with the former guards) *)
Definition msg_kind_70000 : cmsg :=
  CReq [] [Some (mkGFilter None None (Some [70000]) None None None None)].
Definition msg_addr_colon : cmsg :=
  CReq [] [Some (mkGFilter None None None (Some [(tn_a, Some [addr_colon_in_d])]) None None None)].

Theorem valid_sound_was_refuted :
  cmsg_okb kind_guard_before naddr_before true msg_kind_70000 = true /\ constraintsb msg_kind_70000 = false.
Proof. split; reflexivity. Qed.

Theorem valid_complete_was_refuted :
  wf_nip01 msg_addr_colon /\ cmsg_okb kind_guard_before naddr_before true msg_addr_colon = false.
Proof. split; reflexivity. Qed.

(** F10: the anchored spelling of the label pattern is not the tolerant one;
    with it the model's [lead_ws_allowed] was false and every text with leading
    white space was rejected ([parse_leading_ws]) *)
Theorem anchored_pattern_rejects_leading_ws : str_eqb re_anchored re_lead_ws = false.
Proof. reflexivity. Qed.
