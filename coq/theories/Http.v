(* Http.v — C20: model of server.go (ServeMux.ServeHTTP) and nip11.go (the
   relay information document, its JSON form, NIP11.ServeHTTP), with the
   specification-side notions ([norm], [route_class]).  Definitions only;
   proofs are in HttpProofs.v.

   JSON is modelled at the level of values ([jv]); the text <-> value layer is
   encoding/json and is trusted.  [JInt z] stands for a number literal that is
   an integer within int64 (what strconv.ParseInt accepts); every other number
   literal (fraction, exponent, out of range) is [JNumOther].  Go [int] and
   [int64] fields are [Z]; a value of such a field is within int64 by typing. *)
From Moc Require Import Base.
From Moc.Gen Require Import GenHttp.
Open Scope Z_scope.
Import Coq.Strings.String.StringSyntax.
Delimit Scope string_scope with string.

Definition hs (x : String.string) : str := str_of_string x.
Arguments hs x%string.

(* ------------------------------------------------------------------ *)
(** * JSON values *)

Inductive jv :=
| JNull
| JBool (b : bool)
| JInt (z : Z)
| JNumOther
| JStr (s : str)
| JArr (l : list jv)
| JObj (l : list (str * jv)).

Fixpoint jv_eqb (a b : jv) : bool :=
  match a, b with
  | JNull, JNull => true
  | JBool x, JBool y => Bool.eqb x y
  | JInt x, JInt y => x =? y
  | JNumOther, JNumOther => true
  | JStr x, JStr y => str_eqb x y
  | JArr l, JArr l' =>
      (fix go (l l' : list jv) : bool :=
         match l, l' with
         | [], [] => true
         | x :: r, y :: r' => jv_eqb x y && go r r'
         | _, _ => false
         end) l l'
  | JObj l, JObj l' =>
      (fix go (l l' : list (str * jv)) : bool :=
         match l, l' with
         | [], [] => true
         | (k, x) :: r, (k', y) :: r' => str_eqb k k' && jv_eqb x y && go r r'
         | _, _ => false
         end) l l'
  | _, _ => false
  end.

(** object member lookup as encoding/json does it for struct fields: a later
    duplicate overwrites an earlier one (key matching is exact here; Go also
    accepts a case-insensitive match, which the encoder never relies on) *)
Fixpoint jget (k : str) (kv : list (str * jv)) : option jv :=
  match kv with
  | [] => None
  | (k', v) :: r =>
      match jget k r with
      | Some x => Some x
      | None => if str_eqb k k' then Some v else None
      end
  end.

(** a struct as a list of (key, value-unless-omitted) *)
Definition objl (fs : list (str * option jv)) : list (str * jv) :=
  flat_map (fun kf => match snd kf with Some v => [(fst kf, v)] | None => [] end) fs.
Definition obj (fs : list (str * option jv)) : jv := JObj (objl fs).

Fixpoint map_opt {A B} (f : A -> option B) (l : list A) : option (list B) :=
  match l with
  | [] => Some []
  | x :: r => match f x, map_opt f r with
              | Some y, Some r' => Some (y :: r')
              | _, _ => None
              end
  end.

Definition bind {A B} (o : option A) (f : A -> option B) : option B :=
  match o with Some x => f x | None => None end.
Notation "'do' x <- o ; k" := (bind o (fun x => k)) (at level 200, x ident, o at level 100, k at level 200).

(* ------------------------------------------------------------------ *)
(** * The document (nip11.go) *)

(** Nip11Kind *)
Record kind := mkKind { k_from : Z; k_to : Z }.

(** []*Nip11Kind: nil or a slice whose elements may be nil pointers *)
Definition kinds := option (list (option kind)).

Record limitation := mkLim {
  l_max_message_length : Z; l_max_subscriptions : Z; l_max_filters : Z; l_max_limit : Z;
  l_max_subid_length : Z; l_max_event_tags : Z; l_max_content_length : Z; l_min_pow_difficulty : Z;
  l_auth_required : bool; l_payment_required : bool;
  l_created_at_lower_limit : Z; l_created_at_upper_limit : Z
}.

Record retention := mkRet { r_kinds : kinds; r_time : option Z; r_count : option Z }.

Record fee := mkFee { fe_kinds : kinds; fe_amount : Z; fe_unit : str; fe_period : option Z }.

Definition feelist := option (list (option fee)).

Record fees := mkFees { fs_admission : feelist; fs_subscription : feelist; fs_publication : feelist }.

Record nip11 := mkNip11 {
  n_name : str; n_description : str; n_pubkey : str; n_contact : str;
  n_supported_nips : option (list Z);
  n_software : str; n_version : str;
  n_limitation : option limitation;
  n_retention : option retention;
  n_relay_countries : option (list str); n_language_tags : option (list str); n_tags : option (list str);
  n_posting_policy : str; n_payments_url : str;
  n_fees : option fees;
  n_icon : str
}.

(* ---- encoding: json.Marshal with the struct tags of nip11.go --------- *)

(** `omitempty` by Go type: "" , 0, false, nil pointer, nil or empty slice are omitted *)
Definition f_str (s : str) : option jv := match s with [] => None | _ => Some (JStr s) end.
Definition f_int (z : Z) : option jv := if z =? 0 then None else Some (JInt z).
Definition f_bool (b : bool) : option jv := if b then Some (JBool true) else None.
Definition f_optint (o : option Z) : option jv := match o with Some z => Some (JInt z) | None => None end.
Definition f_ptr {A} (enc : A -> jv) (o : option A) : option jv := option_map enc o.
Definition f_slice {A} (enc : A -> jv) (o : option (list A)) : option jv :=
  match o with
  | None | Some [] => None
  | Some l => Some (JArr (List.map enc l))
  end.

(** Nip11Kind.MarshalJSON *)
Definition enc_kind (k : kind) : jv :=
  if g_kind_single (k_from k) (k_to k) then JInt (k_from k)
  else JArr [JInt (k_from k); JInt (k_to k)].

(** an element of []*Nip11Kind: a nil pointer is written as null *)
Definition enc_kind_ptr (o : option kind) : jv := match o with Some k => enc_kind k | None => JNull end.

Definition enc_lim (l : limitation) : jv :=
  obj [(hs "max_message_length", f_int (l_max_message_length l));
       (hs "max_subscriptions", f_int (l_max_subscriptions l));
       (hs "max_filters", f_int (l_max_filters l));
       (hs "max_limit", f_int (l_max_limit l));
       (hs "max_subid_length", f_int (l_max_subid_length l));
       (hs "max_event_tags", f_int (l_max_event_tags l));
       (hs "max_content_length", f_int (l_max_content_length l));
       (hs "min_pow_difficulty", f_int (l_min_pow_difficulty l));
       (hs "auth_required", f_bool (l_auth_required l));
       (hs "payment_required", f_bool (l_payment_required l));
       (hs "created_at_lower_limit", f_int (l_created_at_lower_limit l));
       (hs "created_at_upper_limit", f_int (l_created_at_upper_limit l))].

Definition enc_ret (r : retention) : jv :=
  obj [(hs "kinds", f_slice enc_kind_ptr (r_kinds r));
       (hs "time", f_optint (r_time r));
       (hs "count", f_optint (r_count r))].

(** Nip11Fee: `amount` has no omitempty *)
Definition enc_fee (f : fee) : jv :=
  obj [(hs "kinds", f_slice enc_kind_ptr (fe_kinds f));
       (hs "amount", Some (JInt (fe_amount f)));
       (hs "unit", f_str (fe_unit f));
       (hs "period", f_optint (fe_period f))].

Definition enc_fee_ptr (o : option fee) : jv := match o with Some f => enc_fee f | None => JNull end.

Definition enc_fees (f : fees) : jv :=
  obj [(hs "admission", f_slice enc_fee_ptr (fs_admission f));
       (hs "subscription", f_slice enc_fee_ptr (fs_subscription f));
       (hs "publication", f_slice enc_fee_ptr (fs_publication f))].

Definition nip11_fields (d : nip11) : list (str * option jv) :=
  [(hs "name", f_str (n_name d));
   (hs "description", f_str (n_description d));
   (hs "pubkey", f_str (n_pubkey d));
   (hs "contact", f_str (n_contact d));
   (hs "supported_nips", f_slice JInt (n_supported_nips d));
   (hs "software", f_str (n_software d));
   (hs "version", f_str (n_version d));
   (hs "limitation", f_ptr enc_lim (n_limitation d));
   (hs "retention", f_ptr enc_ret (n_retention d));
   (hs "relay_countries", f_slice JStr (n_relay_countries d));
   (hs "language_tags", f_slice JStr (n_language_tags d));
   (hs "tags", f_slice JStr (n_tags d));
   (hs "posting_policy", f_str (n_posting_policy d));
   (hs "payments_url", f_str (n_payments_url d));
   (hs "fees", f_ptr enc_fees (n_fees d));
   (hs "icon", f_str (n_icon d))].

Definition enc_nip11 (d : nip11) : jv := obj (nip11_fields d).

(* ---- decoding: json.Unmarshal into the same structs ------------------ *)

(** a member that is absent or null leaves the field at its zero value *)
Definition d_str (o : option jv) : option str :=
  match o with None | Some JNull => Some [] | Some (JStr s) => Some s | _ => None end.
Definition d_int (o : option jv) : option Z :=
  match o with None | Some JNull => Some 0 | Some (JInt z) => Some z | _ => None end.
Definition d_bool (o : option jv) : option bool :=
  match o with None | Some JNull => Some false | Some (JBool b) => Some b | _ => None end.
Definition d_optint (o : option jv) : option (option Z) :=
  match o with None | Some JNull => Some None | Some (JInt z) => Some (Some z) | _ => None end.
Definition d_ptr {A} (dec : jv -> option A) (o : option jv) : option (option A) :=
  match o with None | Some JNull => Some None | Some v => option_map Some (dec v) end.
Definition d_slice {A} (dec : jv -> option A) (o : option jv) : option (option (list A)) :=
  match o with
  | None | Some JNull => Some None
  | Some (JArr l) => option_map Some (map_opt dec l)
  | _ => None
  end.

Definition dec_int_elem (v : jv) : option Z := match v with JInt z => Some z | JNull => Some 0 | _ => None end.
Definition dec_str_elem (v : jv) : option str := match v with JStr s => Some s | JNull => Some [] | _ => None end.

(** a number as Nip11Kind.UnmarshalJSON reads it: a json.Number whose Int64() succeeds *)
Definition kind_num (v : jv) : option Z := match v with JInt z => Some z | _ => None end.

(** Nip11Kind.UnmarshalJSON.  A value that is neither a number nor an array
    (string, bool, object, null) matches no case of the switch and yields the
    zero range without an error.  After the length test the code indexes v[0]
    and v[1]; with the generated guard (`len(v) != 2`) they exist. *)
Definition dec_kind (v : jv) : option kind :=
  match v with
  | JInt z => Some (mkKind z z)
  | JNumOther => None
  | JArr l =>
      if g_kind_pair_len_bad (Z.of_nat (length l)) then None
      else match l with
           | a :: b :: _ => do x <- kind_num a; do y <- kind_num b; Some (mkKind x y)
           | _ => None (* Go would panic (index out of range); unreachable with the guard *)
           end
  | _ => Some (mkKind 0 0)
  end.

(** an element of []*Nip11Kind: null makes a nil pointer *)
Definition dec_kind_ptr (v : jv) : option (option kind) :=
  match v with JNull => Some None | _ => option_map Some (dec_kind v) end.

Definition dec_lim (v : jv) : option limitation :=
  match v with
  | JObj kv =>
      do a <- d_int (jget (hs "max_message_length") kv);
      do b <- d_int (jget (hs "max_subscriptions") kv);
      do c <- d_int (jget (hs "max_filters") kv);
      do d <- d_int (jget (hs "max_limit") kv);
      do e <- d_int (jget (hs "max_subid_length") kv);
      do f <- d_int (jget (hs "max_event_tags") kv);
      do g <- d_int (jget (hs "max_content_length") kv);
      do h <- d_int (jget (hs "min_pow_difficulty") kv);
      do i <- d_bool (jget (hs "auth_required") kv);
      do j <- d_bool (jget (hs "payment_required") kv);
      do k <- d_int (jget (hs "created_at_lower_limit") kv);
      do l <- d_int (jget (hs "created_at_upper_limit") kv);
      Some (mkLim a b c d e f g h i j k l)
  | _ => None
  end.

Definition dec_ret (v : jv) : option retention :=
  match v with
  | JObj kv =>
      do a <- d_slice dec_kind_ptr (jget (hs "kinds") kv);
      do b <- d_optint (jget (hs "time") kv);
      do c <- d_optint (jget (hs "count") kv);
      Some (mkRet a b c)
  | _ => None
  end.

Definition dec_fee (v : jv) : option fee :=
  match v with
  | JObj kv =>
      do a <- d_slice dec_kind_ptr (jget (hs "kinds") kv);
      do b <- d_int (jget (hs "amount") kv);
      do c <- d_str (jget (hs "unit") kv);
      do d <- d_optint (jget (hs "period") kv);
      Some (mkFee a b c d)
  | _ => None
  end.

Definition dec_fee_ptr (v : jv) : option (option fee) :=
  match v with JNull => Some None | _ => option_map Some (dec_fee v) end.

Definition dec_fees (v : jv) : option fees :=
  match v with
  | JObj kv =>
      do a <- d_slice dec_fee_ptr (jget (hs "admission") kv);
      do b <- d_slice dec_fee_ptr (jget (hs "subscription") kv);
      do c <- d_slice dec_fee_ptr (jget (hs "publication") kv);
      Some (mkFees a b c)
  | _ => None
  end.

Definition dec_nip11 (v : jv) : option nip11 :=
  match v with
  | JObj kv =>
      do a <- d_str (jget (hs "name") kv);
      do b <- d_str (jget (hs "description") kv);
      do c <- d_str (jget (hs "pubkey") kv);
      do d <- d_str (jget (hs "contact") kv);
      do e <- d_slice dec_int_elem (jget (hs "supported_nips") kv);
      do f <- d_str (jget (hs "software") kv);
      do g <- d_str (jget (hs "version") kv);
      do h <- d_ptr dec_lim (jget (hs "limitation") kv);
      do i <- d_ptr dec_ret (jget (hs "retention") kv);
      do j <- d_slice dec_str_elem (jget (hs "relay_countries") kv);
      do k <- d_slice dec_str_elem (jget (hs "language_tags") kv);
      do l <- d_slice dec_str_elem (jget (hs "tags") kv);
      do m <- d_str (jget (hs "posting_policy") kv);
      do n <- d_str (jget (hs "payments_url") kv);
      do o <- d_ptr dec_fees (jget (hs "fees") kv);
      do p <- d_str (jget (hs "icon") kv);
      Some (mkNip11 a b c d e f g h i j k l m n o p)
  | _ => None
  end.

(* ---- "equal to the configuration": identity up to nil versus empty slices *)

Definition norm_list {A} (o : option (list A)) : option (list A) :=
  match o with Some [] => None | x => x end.
Definition norm_slice {A} (f : A -> A) (o : option (list A)) : option (list A) :=
  match o with None | Some [] => None | Some l => Some (List.map f l) end.

Definition norm_ret (r : retention) : retention := mkRet (norm_list (r_kinds r)) (r_time r) (r_count r).
Definition norm_fee (f : fee) : fee := mkFee (norm_list (fe_kinds f)) (fe_amount f) (fe_unit f) (fe_period f).
Definition norm_feelist (l : feelist) : feelist := norm_slice (option_map norm_fee) l.
Definition norm_fees (f : fees) : fees :=
  mkFees (norm_feelist (fs_admission f)) (norm_feelist (fs_subscription f)) (norm_feelist (fs_publication f)).
Definition norm (d : nip11) : nip11 :=
  mkNip11 (n_name d) (n_description d) (n_pubkey d) (n_contact d) (norm_list (n_supported_nips d))
          (n_software d) (n_version d) (n_limitation d) (option_map norm_ret (n_retention d))
          (norm_list (n_relay_countries d)) (norm_list (n_language_tags d)) (norm_list (n_tags d))
          (n_posting_policy d) (n_payments_url d) (option_map norm_fees (n_fees d)) (n_icon d).

(* ------------------------------------------------------------------ *)
(** * HTTP *)

Inductive body := BText (s : str) | BJson (v : jv).
Record response := mkResp { rs_status : Z; rs_headers : list (str * str); rs_body : body }.

Definition nostr_json : str := hs "application/nostr+json".

(** NIP11.ServeHTTP; json.Marshal of a NIP11 cannot fail, so the 500 branch is unreachable *)
Definition serve_nip11 (accept : str) (d : nip11) : response :=
  if g_nip11_bad_accept accept
  then mkResp 400 [] (BText (hs "Need an Accept header of application/nostr+json"))
  else mkResp 200 g_nip11_headers (BJson (enc_nip11 d)).

(** http.Header.Get: the first value, "" if there is none *)
Definition hdr_get (vals : list str) : str := match vals with v :: _ => v | [] => [] end.

Record muxcfg := mkCfg { mc_nip11 : option nip11; mc_has_default : bool }.

Inductive outcome :=
| ORelay                  (* handed to mux.Relay *)
| ODefault                (* handed to mux.Default *)
| OResp (r : response)    (* answered by the mux or the NIP-11 handler *)
| OPanic.                 (* nil dereference *)

(** ServeMux.ServeHTTP *)
Definition mux_serve (upgrade accept : list str) (cfg : muxcfg) : outcome :=
  let u := hdr_get upgrade in
  let a := hdr_get accept in
  let nip11_nil := match mc_nip11 cfg with None => true | Some _ => false end in
  match g_mux_route u a nip11_nil (negb (mc_has_default cfg)) with
  | (0, _) => ORelay
  | (1, txt) => OResp (mkResp 200 [] (BText txt))
  | (2, _) => match mc_nip11 cfg with Some d => OResp (serve_nip11 a d) | None => OPanic end
  | (3, txt) => OResp (mkResp 200 [] (BText txt))
  | (4, _) => if mc_has_default cfg then ODefault else OPanic
  | _ => OPanic
  end.

(** the five destinations of a request *)
Inductive route := Relay | Nip11Doc | EmptyObj | Default | Greeting | Broken.

Definition route_of (upgrade accept : str) (has_nip11 has_default : bool) : route :=
  match fst (g_mux_route upgrade accept (negb has_nip11) (negb has_default)) with
  | 0 => Relay
  | 1 => EmptyObj
  | 2 => Nip11Doc
  | 3 => Greeting
  | 4 => Default
  | _ => Broken
  end.

(* ---- boolean equalities for the correspondence check ----------------- *)

Definition oeqb {A} (eqb : A -> A -> bool) (a b : option A) : bool :=
  match a, b with Some x, Some y => eqb x y | None, None => true | _, _ => false end.

Definition kind_eqb (a b : kind) : bool := (k_from a =? k_from b) && (k_to a =? k_to b).
Definition kinds_eqb : kinds -> kinds -> bool := oeqb (list_eqb (oeqb kind_eqb)).

Definition lim_eqb (a b : limitation) : bool :=
  (l_max_message_length a =? l_max_message_length b) && (l_max_subscriptions a =? l_max_subscriptions b) &&
  (l_max_filters a =? l_max_filters b) && (l_max_limit a =? l_max_limit b) &&
  (l_max_subid_length a =? l_max_subid_length b) && (l_max_event_tags a =? l_max_event_tags b) &&
  (l_max_content_length a =? l_max_content_length b) && (l_min_pow_difficulty a =? l_min_pow_difficulty b) &&
  Bool.eqb (l_auth_required a) (l_auth_required b) && Bool.eqb (l_payment_required a) (l_payment_required b) &&
  (l_created_at_lower_limit a =? l_created_at_lower_limit b) &&
  (l_created_at_upper_limit a =? l_created_at_upper_limit b).

Definition ret_eqb (a b : retention) : bool :=
  kinds_eqb (r_kinds a) (r_kinds b) && oeqb Z.eqb (r_time a) (r_time b) && oeqb Z.eqb (r_count a) (r_count b).

Definition fee_eqb (a b : fee) : bool :=
  kinds_eqb (fe_kinds a) (fe_kinds b) && (fe_amount a =? fe_amount b) && str_eqb (fe_unit a) (fe_unit b) &&
  oeqb Z.eqb (fe_period a) (fe_period b).

Definition feelist_eqb : feelist -> feelist -> bool := oeqb (list_eqb (oeqb fee_eqb)).

Definition fees_eqb (a b : fees) : bool :=
  feelist_eqb (fs_admission a) (fs_admission b) && feelist_eqb (fs_subscription a) (fs_subscription b) &&
  feelist_eqb (fs_publication a) (fs_publication b).

Definition strs_eqb : option (list str) -> option (list str) -> bool := oeqb (list_eqb str_eqb).

Definition nip11_eqb (a b : nip11) : bool :=
  str_eqb (n_name a) (n_name b) && str_eqb (n_description a) (n_description b) &&
  str_eqb (n_pubkey a) (n_pubkey b) && str_eqb (n_contact a) (n_contact b) &&
  oeqb (list_eqb Z.eqb) (n_supported_nips a) (n_supported_nips b) &&
  str_eqb (n_software a) (n_software b) && str_eqb (n_version a) (n_version b) &&
  oeqb lim_eqb (n_limitation a) (n_limitation b) && oeqb ret_eqb (n_retention a) (n_retention b) &&
  strs_eqb (n_relay_countries a) (n_relay_countries b) && strs_eqb (n_language_tags a) (n_language_tags b) &&
  strs_eqb (n_tags a) (n_tags b) &&
  str_eqb (n_posting_policy a) (n_posting_policy b) && str_eqb (n_payments_url a) (n_payments_url b) &&
  oeqb fees_eqb (n_fees a) (n_fees b) && str_eqb (n_icon a) (n_icon b).
