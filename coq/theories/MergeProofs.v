(* MergeProofs.v — C08/C09: proofs about the model of the merge handler in
   Merge.v.  Structure:
     1  Go maps and slices
     2  one lemma per generated guard (everything below uses only these)
     3  the global invariant [state_ok] (the session does not panic)
     4  the REQ state of one subscription id seen as a small machine
        ([wphase], [wstep]) and the simulation of [merge_step] by it
     5  C08: the theorems about one REQ window
     6  C09: OK and COUNT aggregation *)
From Moc Require Import Base Match MatchProofs Merge.
From Moc.Gen Require Import GenMerge.
Open Scope Z_scope.

(* ------------------------------------------------------------------ *)
(** * 1. Maps and slices *)

Lemma assoc_m_del_same {B} k (l : list (str * B)) : assoc k (m_del k l) = None.
Proof.
  induction l as [|[k' v] l IH]; simpl; [reflexivity|].
  destruct (str_eqb k k') eqn:E; simpl; [assumption|]. now rewrite E.
Qed.

Lemma assoc_m_del_other {B} k k' (l : list (str * B)) :
  k <> k' -> assoc k' (m_del k l) = assoc k' l.
Proof.
  intro N. induction l as [|[k2 v] l IH]; simpl; [reflexivity|].
  destruct (str_eqb k k2) eqn:E; simpl.
  - apply str_eqb_eq in E; subst k2.
    destruct (str_eqb k' k) eqn:E2; [apply str_eqb_eq in E2; congruence | assumption].
  - destruct (str_eqb k' k2); [reflexivity | assumption].
Qed.

Lemma assoc_m_set_same {B} k (v : B) l : assoc k (m_set k v l) = Some v.
Proof. unfold m_set. simpl. now rewrite str_eqb_refl. Qed.

Lemma assoc_m_set_other {B} k k' (v : B) l : k <> k' -> assoc k' (m_set k v l) = assoc k' l.
Proof.
  intro N. unfold m_set. simpl.
  destruct (str_eqb k' k) eqn:E; [apply str_eqb_eq in E; congruence|].
  now apply assoc_m_del_other.
Qed.

Lemma upd_nth_length {A} i (v : A) l l' : upd_nth i v l = Some l' -> length l' = length l.
Proof.
  revert i l'. induction l as [|x l IH]; intros [|i] l' H; simpl in H; try discriminate.
  - inversion H; reflexivity.
  - destruct (upd_nth i v l) eqn:E; [|discriminate]. inversion H; subst. simpl. f_equal. eapply IH; eauto.
Qed.

Lemma upd_nth_some {A} i (v : A) l : (i < length l)%nat -> exists l', upd_nth i v l = Some l'.
Proof.
  revert i. induction l as [|x l IH]; intros [|i] H; simpl in *; try lia.
  - eexists; reflexivity.
  - destruct (IH i) as [l' E]; [lia|]. rewrite E. eexists; reflexivity.
Qed.

Lemma upd_nth_map_seq {A} (f : nat -> A) v : forall n a i, (i < n)%nat ->
  upd_nth i v (List.map f (seq a n)) =
  Some (List.map (fun j => if Nat.eqb j (a + i) then v else f j) (seq a n)).
Proof.
  induction n as [|n IH]; intros a i H; [lia|].
  destruct i as [|i]; simpl.
  - rewrite Nat.add_0_r, Nat.eqb_refl. do 2 f_equal.
    apply map_ext_in. intros j Hj. apply in_seq in Hj.
    destruct (Nat.eqb j a) eqn:E; [apply Nat.eqb_eq in E; lia | reflexivity].
  - rewrite (IH (S a) i) by lia.
    destruct (Nat.eqb a (a + S i)) eqn:E; [apply Nat.eqb_eq in E; lia|].
    do 2 f_equal. apply map_ext. intro j. now replace (S a + i)%nat with (a + S i)%nat by lia.
Qed.

Lemma upd_nth_In {A} i (v : A) l l' x : upd_nth i v l = Some l' -> In x l' -> x = v \/ In x l.
Proof.
  revert i l'. induction l as [|y l IH]; intros [|i] l' H Hin; simpl in H; try discriminate.
  - inversion H; subst. destruct Hin as [<-|Hin]; [now left | right; now right].
  - destruct (upd_nth i v l) eqn:E; [|discriminate]. inversion H; subst.
    destruct Hin as [<-|Hin]; [right; now left|].
    destruct (IH _ _ E Hin); [now left | right; now right].
Qed.

Lemma zlen_zero {A} (l : list A) : zlen l = 0 <-> l = [].
Proof. unfold zlen. destruct l; simpl; split; intro H; try reflexivity; try discriminate; lia. Qed.

Lemma forallb_map_seq (f : nat -> bool) n a :
  forallb (fun b => b) (List.map f (seq a n)) = forallb f (seq a n).
Proof. revert a. induction n as [|n IH]; intro a; simpl; [reflexivity | now rewrite IH]. Qed.

Lemma existsb_negb_forallb (l : list bool) : negb (existsb negb l) = forallb (fun b => b) l.
Proof. induction l as [|[] l IH]; simpl; auto. Qed.

(** all maps of the state satisfy [P] on every bound value *)
Definition map_all {B} (P : B -> Prop) (m : list (str * B)) : Prop :=
  forall k v, assoc k m = Some v -> P v.

Lemma map_all_nil {B} (P : B -> Prop) : map_all P [].
Proof. intros k v H; discriminate. Qed.

Lemma map_all_set {B} (P : B -> Prop) k v m : map_all P m -> P v -> map_all P (m_set k v m).
Proof.
  intros H Hv k' v' E. destruct (str_dec k k') as [<-|N].
  - rewrite assoc_m_set_same in E. inversion E; now subst.
  - rewrite assoc_m_set_other in E by assumption. eapply H; eauto.
Qed.

Lemma map_all_del {B} (P : B -> Prop) k m : map_all P m -> map_all P (m_del k m).
Proof.
  intros H k' v' E. destruct (str_dec k k') as [<-|N].
  - rewrite assoc_m_del_same in E. discriminate.
  - rewrite assoc_m_del_other in E by assumption. eapply H; eauto.
Qed.

(* ------------------------------------------------------------------ *)
(** * 2. Facts about the generated guards *)

Lemma g_merge_too_few_spec n : h_merge_too_few n = true <-> n < 2.
Proof. unfold h_merge_too_few. apply Z.ltb_lt. Qed.
Lemma g_eose_already_spec b : h_eose_already b = b.
Proof. reflexivity. Qed.
Lemma g_eose_incomplete_spec b : h_eose_incomplete b = negb b.
Proof. reflexivity. Qed.
Lemma g_event_unsendable_spec b : h_event_unsendable b = negb b.
Proof. reflexivity. Qed.
Lemma g_ok_not_ready_spec b : h_ok_not_ready b = negb b.
Proof. reflexivity. Qed.
Lemma g_count_not_ready_spec b : h_count_not_ready b = negb b.
Proof. reflexivity. Qed.
Lemma g_ok_has_slot_spec {A} (l : list A) : h_ok_has_slot (zlen l) = negb (match l with [] => true | _ => false end).
Proof.
  unfold h_ok_has_slot. destruct l as [|a l]; [reflexivity|].
  assert (H : 0 < zlen (a :: l)) by (unfold zlen; simpl length; lia).
  simpl negb. apply Z.gtb_lt. lia.
Qed.
Lemma len_eq0_spec {A} (l : list A) : (zlen l =? 0) = match l with [] => true | _ => false end.
Proof.
  destruct l as [|a l]; [reflexivity|].
  assert (H : 0 < zlen (a :: l)) by (unfold zlen; simpl length; lia).
  apply Z.eqb_neq. lia.
Qed.
Lemma g_ok_setmsg_absent_spec {A} (l : list A) : h_ok_setmsg_absent (zlen l) = match l with [] => true | _ => false end.
Proof. apply len_eq0_spec. Qed.
Lemma g_ok_ready_absent_spec {A} (l : list A) : h_ok_ready_absent (zlen l) = match l with [] => true | _ => false end.
Proof. apply len_eq0_spec. Qed.
Lemma g_ok_msg_absent_spec {A} (l : list A) : h_ok_msg_absent (zlen l) = match l with [] => true | _ => false end.
Proof. apply len_eq0_spec. Qed.
Lemma g_ok_is_accepted_spec b : h_ok_is_accepted b = b.
Proof. reflexivity. Qed.
Lemma g_ok_any_rejected_spec {A} (l : list A) : h_ok_any_rejected (zlen l) = negb (match l with [] => true | _ => false end).
Proof.
  unfold h_ok_any_rejected. destruct l as [|a l]; [reflexivity|].
  assert (H : 0 < zlen (a :: l)) by (unfold zlen; simpl length; lia).
  simpl negb. apply Z.gtb_lt. lia.
Qed.
Lemma g_req_seteose_absent_spec {A} (l : list A) : h_req_seteose_absent (zlen l) = match l with [] => true | _ => false end.
Proof. apply len_eq0_spec. Qed.
Lemma g_req_alleose_missing_spec b : h_req_alleose_missing b = negb b.
Proof. reflexivity. Qed.
Lemma g_req_alleose_delete_spec b : h_req_alleose_delete b = b.
Proof. reflexivity. Qed.
Lemma g_ev_all_eose_spec b : h_ev_all_eose b = b.
Proof. reflexivity. Qed.
Lemma g_ev_child_eose_spec b : h_ev_child_eose b = b.
Proof. reflexivity. Qed.
Lemma g_ev_has_last_spec b : h_ev_has_last b = b.
Proof. reflexivity. Qed.
Lemma g_ev_older_first_spec a b : h_ev_older_first (cmpZ a b) = (a <? b).
Proof.
  unfold h_ev_older_first, cmpZ, Z.ltb. destruct (a ?= b); reflexivity.
Qed.
Lemma g_ev_ts_decreased_spec a b : h_ev_ts_decreased (cmpZ a b) = (b <? a).
Proof.
  unfold h_ev_ts_decreased, cmpZ. rewrite (Z.ltb_antisym a b), Z.leb_compare.
  destruct (a ?= b) eqn:E; reflexivity.
Qed.
Lemma g_ev_seen_reject_spec a b : h_ev_seen_reject a b = a || b.
Proof. reflexivity. Qed.
Lemma g_ev_done_spec b : h_ev_done b = b.
Proof. reflexivity. Qed.
Lemma g_ev_nomatch_spec b : h_ev_nomatch b = negb b.
Proof. reflexivity. Qed.
Lemma g_cnt_set_absent_spec {A} (l : list A) : h_cnt_set_absent (zlen l) = match l with [] => true | _ => false end.
Proof. apply len_eq0_spec. Qed.
Lemma g_cnt_ready_absent_spec {A} (l : list A) : h_cnt_ready_absent (zlen l) = match l with [] => true | _ => false end.
Proof. apply len_eq0_spec. Qed.

Global Opaque h_merge_too_few h_eose_already h_eose_incomplete h_event_unsendable h_ok_not_ready
  h_count_not_ready h_ok_has_slot h_ok_setmsg_absent h_ok_ready_absent h_ok_msg_absent h_ok_is_accepted
  h_ok_any_rejected h_req_seteose_absent h_req_alleose_missing h_req_alleose_delete h_ev_all_eose
  h_ev_child_eose h_ev_has_last h_ev_older_first h_ev_ts_decreased h_ev_seen_reject h_ev_done h_ev_nomatch
  h_cnt_set_absent h_cnt_ready_absent.


(* ------------------------------------------------------------------ *)
(** * 2a. Ties: the conditions regenerated from handler.go are the ones the
      model was written for (one obligation per guard; an edit of the
      condition, or its disappearance, breaks exactly that obligation) *)

Lemma tie_merge_too_few : forall n, g_merge_too_few n = h_merge_too_few n.
Proof. reflexivity. Qed.
Lemma tie_eose_already : forall b, g_eose_already b = h_eose_already b.
Proof. reflexivity. Qed.
Lemma tie_eose_incomplete : forall b, g_eose_incomplete b = h_eose_incomplete b.
Proof. reflexivity. Qed.
Lemma tie_event_unsendable : forall b, g_event_unsendable b = h_event_unsendable b.
Proof. reflexivity. Qed.
Lemma tie_ok_not_ready : forall b, g_ok_not_ready b = h_ok_not_ready b.
Proof. reflexivity. Qed.
Lemma tie_count_not_ready : forall b, g_count_not_ready b = h_count_not_ready b.
Proof. reflexivity. Qed.
Lemma tie_ok_has_slot : forall n, g_ok_has_slot n = h_ok_has_slot n.
Proof. reflexivity. Qed.
Lemma tie_ok_setmsg_absent : forall n, g_ok_setmsg_absent n = h_ok_setmsg_absent n.
Proof. reflexivity. Qed.
Lemma tie_ok_ready_absent : forall n, g_ok_ready_absent n = h_ok_ready_absent n.
Proof. reflexivity. Qed.
Lemma tie_ok_msg_absent : forall n, g_ok_msg_absent n = h_ok_msg_absent n.
Proof. reflexivity. Qed.
Lemma tie_ok_is_accepted : forall b, g_ok_is_accepted b = h_ok_is_accepted b.
Proof. reflexivity. Qed.
Lemma tie_ok_any_rejected : forall n, g_ok_any_rejected n = h_ok_any_rejected n.
Proof. reflexivity. Qed.
Lemma tie_req_seteose_absent : forall n, g_req_seteose_absent n = h_req_seteose_absent n.
Proof. reflexivity. Qed.
Lemma tie_req_alleose_missing : forall b, g_req_alleose_missing b = h_req_alleose_missing b.
Proof. reflexivity. Qed.
Lemma tie_req_alleose_delete : forall b, g_req_alleose_delete b = h_req_alleose_delete b.
Proof. reflexivity. Qed.
Lemma tie_ev_all_eose : forall b, g_ev_all_eose b = h_ev_all_eose b.
Proof. reflexivity. Qed.
Lemma tie_ev_child_eose : forall b, g_ev_child_eose b = h_ev_child_eose b.
Proof. reflexivity. Qed.
Lemma tie_ev_has_last : forall b, g_ev_has_last b = h_ev_has_last b.
Proof. reflexivity. Qed.
Lemma tie_ev_older_first : forall n, g_ev_older_first n = h_ev_older_first n.
Proof. reflexivity. Qed.
Lemma tie_ev_ts_decreased : forall n, g_ev_ts_decreased n = h_ev_ts_decreased n.
Proof. reflexivity. Qed.
Lemma tie_ev_seen_reject : forall a b, g_ev_seen_reject a b = h_ev_seen_reject a b.
Proof. reflexivity. Qed.
Lemma tie_ev_done : forall b, g_ev_done b = h_ev_done b.
Proof. reflexivity. Qed.
Lemma tie_ev_nomatch : forall b, g_ev_nomatch b = h_ev_nomatch b.
Proof. reflexivity. Qed.
Lemma tie_cnt_set_absent : forall n, g_cnt_set_absent n = h_cnt_set_absent n.
Proof. reflexivity. Qed.
Lemma tie_cnt_ready_absent : forall n, g_cnt_ready_absent n = h_cnt_ready_absent n.
Proof. reflexivity. Qed.

(* ------------------------------------------------------------------ *)
(** * 3. The REQ state of one subscription id as a small machine *)

Definition rview := (option (list bool) * option (option event) * option (list str) * option (list lmatcher))%type.

Definition rs_view (r : rstate) (k : str) : rview :=
  (assoc k (rs_eose r), assoc k (rs_last r), assoc k (rs_seen r), assoc k (rs_matcher r)).

(** a subscription id is either open (REQ seen, merged EOSE not yet sent:
    the four maps have an entry) or closed (no entry in any of them) *)
Inductive wphase :=
| WOpen (eo : list bool) (la : option event) (se : list str) (ms : list lmatcher)
| WClosed.

Definition view_phase (v : rview) : wphase :=
  match v with
  | (Some eo, Some la, Some se, Some ms) => WOpen eo la se ms
  | _ => WClosed
  end.

Definition view_sync (v : rview) : Prop :=
  match v with
  | (Some _, Some _, Some _, Some _) => True
  | (None, None, None, None) => True
  | _ => False
  end.

Definition ms_wf (ms : list lmatcher) : Prop := Forall (fun m => filter_wf (lm_f m)) ms.

Definition phase_wf (n : nat) (ph : wphase) : Prop :=
  match ph with
  | WOpen eo _ _ ms => length eo = n /\ ms_wf ms
  | WClosed => True
  end.

Definition rs_phase (r : rstate) (k : str) : wphase := view_phase (rs_view r k).

(** the four maps always have the same keys; slot vectors have one entry per
    child; stored filters are decoder-producible *)
Definition rs_ok (n : nat) (r : rstate) : Prop :=
  rs_size r = n /\ forall k, view_sync (rs_view r k) /\ phase_wf n (rs_phase r k).

Definition all_true (l : list bool) : bool := forallb (fun b => b) l.

(** EOSE of child [i] *)
Definition w_eose (ph : wphase) (i : nat) : wphase * bool :=
  match ph with
  | WClosed => (WClosed, false)
  | WOpen eo la se ms =>
      if all_true eo then (WClosed, false) else
      match upd_nth i true eo with
      | None => (ph, false)
      | Some eo' => if all_true eo' then (WClosed, true) else (WOpen eo' la se ms, false)
      end
  end.

(** EVENT of child [i] *)
Definition w_event (ph : wphase) (i : nat) (e : event) : wphase * bool :=
  match ph with
  | WClosed => (WClosed, true)
  | WOpen eo la se ms =>
      if all_true eo then (WClosed, true) else
      match nth_error eo i with
      | None => (ph, false)
      | Some true => (ph, false)
      | Some false =>
          if match la with Some l => ev_ts l <? ev_ts e | None => false end then (ph, false) else
          let se1 := if match la with Some l => ev_ts e <? ev_ts l | None => false end then [] else se in
          if mem_str (ev_id e) se1 then (WOpen eo (Some e) se1 ms, false) else
          let se2 := ev_id e :: se1 in
          if lms_done ms then (WOpen eo (Some e) se2 ms, false) else
          (WOpen eo (Some e) se2 (List.map (lm_step e) ms), matches_specb e (List.map lm_f ms))
      end
  end.

Ltac str_cases k sub :=
  destruct (str_dec sub k) as [?E|?N];
  [ subst; rewrite ?assoc_m_set_same, ?assoc_m_del_same
  | rewrite ?(assoc_m_set_other _ _ _ _ N), ?(assoc_m_del_other _ _ _ N) ].

Lemma rs_view_set_sub r sub fs k :
  rs_view (rs_set_sub r sub fs) k =
  if str_dec sub k then (Some (repeat false (rs_size r)), Some None, Some [], Some (lms_new fs)) else rs_view r k.
Proof.
  unfold rs_view, rs_set_sub; cbn [rs_eose rs_last rs_seen rs_matcher].
  destruct (str_dec sub k) as [E|N].
  - subst. now rewrite !assoc_m_set_same.
  - now rewrite !(assoc_m_set_other _ _ _ _ N).
Qed.

Lemma rs_view_clear r sub k :
  rs_view (rs_clear r sub) k = if str_dec sub k then (None, None, None, None) else rs_view r k.
Proof.
  unfold rs_view, rs_clear; cbn [rs_eose rs_last rs_seen rs_matcher].
  destruct (str_dec sub k) as [E|N].
  - subst. now rewrite !assoc_m_del_same.
  - now rewrite !(assoc_m_del_other _ _ _ N).
Qed.

Lemma lms_new_wf fs : Forall filter_wf fs -> ms_wf (lms_new fs).
Proof. intro H. unfold ms_wf, lms_new. rewrite Forall_map. exact H. Qed.

Lemma rs_set_sub_ok n r sub fs : rs_ok n r -> Forall filter_wf fs -> rs_ok n (rs_set_sub r sub fs).
Proof.
  intros [Hn H] Hfs. split; [exact Hn|]. intro k. unfold rs_phase. rewrite rs_view_set_sub.
  destruct (str_dec sub k); [|apply H].
  simpl. repeat split; [rewrite repeat_length; exact Hn | now apply lms_new_wf].
Qed.

Lemma rs_clear_ok n r sub : rs_ok n r -> rs_ok n (rs_clear r sub).
Proof.
  intros [Hn H]. split; [exact Hn|]. intro k. unfold rs_phase. rewrite rs_view_clear.
  destruct (str_dec sub k); [simpl; auto | apply H].
Qed.

(** a state that differs from [r] only at [sub], where its phase is [ph] *)
Definition rs_upd (r r' : rstate) (sub : str) (ph : wphase) : Prop :=
  rs_size r' = rs_size r /\
  (forall k, k <> sub -> rs_view r' k = rs_view r k) /\
  view_sync (rs_view r' sub) /\ rs_phase r' sub = ph.

Lemma rs_upd_ok n r r' sub ph : rs_ok n r -> rs_upd r r' sub ph -> phase_wf n ph -> rs_ok n r'.
Proof.
  intros [Hn H] [Hs [Hf [Hsy Hp]]] Hwf. split; [congruence|]. intro k.
  destruct (str_dec k sub) as [->|N].
  - rewrite Hp. auto.
  - unfold rs_phase. rewrite (Hf k N). apply H.
Qed.

Lemma rs_upd_refl r sub : view_sync (rs_view r sub) -> rs_upd r r sub (rs_phase r sub).
Proof. intro H. repeat split; auto. Qed.

Lemma rs_upd_clear r sub : rs_upd r (rs_clear r sub) sub WClosed.
Proof.
  repeat split.
  - intros k N. rewrite rs_view_clear. destruct (str_dec sub k); [congruence | reflexivity].
  - rewrite rs_view_clear. destruct (str_dec sub sub); [exact I | congruence].
  - unfold rs_phase. rewrite rs_view_clear. destruct (str_dec sub sub); [reflexivity | congruence].
Qed.

(** the phase of [sub] read off a synchronised view *)
Lemma sync_cases r sub :
  view_sync (rs_view r sub) ->
  (exists eo la se ms, rs_view r sub = (Some eo, Some la, Some se, Some ms)) \/
  rs_view r sub = (None, None, None, None).
Proof.
  destruct (rs_view r sub) as [[[[eo|] [la|]] [se|]] [ms|]]; simpl; try contradiction.
  - left. now exists eo, la, se, ms.
  - now right.
Qed.

Lemma all_true_nonempty (l : list bool) : all_true l = false -> l <> [].
Proof. intros H ->. discriminate. Qed.

(** AllEOSE *)
Lemma rs_all_eose_spec r sub :
  view_sync (rs_view r sub) ->
  match rs_phase r sub with
  | WClosed => rs_all_eose r sub = (r, true)
  | WOpen eo _ _ _ =>
      if all_true eo then rs_all_eose r sub = (rs_clear r sub, true) else rs_all_eose r sub = (r, false)
  end.
Proof.
  intro Hs. unfold rs_phase. destruct (sync_cases r sub Hs) as [[eo [la [se [ms E]]]]|E]; rewrite E; simpl.
  - unfold rs_all_eose. unfold rs_view in E. inversion E as [[E1 E2 E3 E4]]. rewrite E1.
    rewrite g_req_alleose_missing_spec, g_req_alleose_delete_spec. simpl.
    rewrite existsb_negb_forallb. fold (all_true eo). destruct (all_true eo); reflexivity.
  - unfold rs_all_eose. unfold rs_view in E. inversion E as [[E1 E2 E3 E4]]. rewrite E1.
    now rewrite g_req_alleose_missing_spec.
Qed.

Lemma rs_view_with_eose r sub x k :
  rs_view (rs_with_eose r (m_set sub x (rs_eose r))) k =
  if str_dec sub k then (Some x, assoc k (rs_last r), assoc k (rs_seen r), assoc k (rs_matcher r)) else rs_view r k.
Proof.
  unfold rs_view, rs_with_eose; cbn [rs_eose rs_last rs_seen rs_matcher].
  destruct (str_dec sub k) as [E|N]; [subst; now rewrite assoc_m_set_same | now rewrite (assoc_m_set_other _ _ _ _ N)].
Qed.

Lemma rs_view_with_last r sub x k :
  rs_view (rs_with_last r (m_set sub x (rs_last r))) k =
  if str_dec sub k then (assoc k (rs_eose r), Some x, assoc k (rs_seen r), assoc k (rs_matcher r)) else rs_view r k.
Proof.
  unfold rs_view, rs_with_last; cbn [rs_eose rs_last rs_seen rs_matcher].
  destruct (str_dec sub k) as [E|N]; [subst; now rewrite assoc_m_set_same | now rewrite (assoc_m_set_other _ _ _ _ N)].
Qed.

Lemma rs_view_with_seen r sub x k :
  rs_view (rs_with_seen r (m_set sub x (rs_seen r))) k =
  if str_dec sub k then (assoc k (rs_eose r), assoc k (rs_last r), Some x, assoc k (rs_matcher r)) else rs_view r k.
Proof.
  unfold rs_view, rs_with_seen; cbn [rs_eose rs_last rs_seen rs_matcher].
  destruct (str_dec sub k) as [E|N]; [subst; now rewrite assoc_m_set_same | now rewrite (assoc_m_set_other _ _ _ _ N)].
Qed.

Lemma rs_view_with_matcher r sub x k :
  rs_view (rs_with_matcher r (m_set sub x (rs_matcher r))) k =
  if str_dec sub k then (assoc k (rs_eose r), assoc k (rs_last r), assoc k (rs_seen r), Some x) else rs_view r k.
Proof.
  unfold rs_view, rs_with_matcher; cbn [rs_eose rs_last rs_seen rs_matcher].
  destruct (str_dec sub k) as [E|N]; [subst; now rewrite assoc_m_set_same | now rewrite (assoc_m_set_other _ _ _ _ N)].
Qed.

Lemma str_dec_refl (k : str) {T} (a b : T) : (if str_dec k k then a else b) = a.
Proof. destruct (str_dec k k); congruence. Qed.

Lemma str_dec_neq (k k' : str) {T} (a b : T) : k <> k' -> (if str_dec k k' then a else b) = b.
Proof. intro N. destruct (str_dec k k'); congruence. Qed.

(** a chain of updates at [sub] is an update at [sub] *)
Lemma rs_upd_trans r r1 r2 sub ph1 ph2 :
  rs_upd r r1 sub ph1 -> rs_upd r1 r2 sub ph2 -> rs_upd r r2 sub ph2.
Proof.
  intros [S1 [F1 _]] [S2 [F2 [Y2 P2]]]. repeat split; try assumption; [congruence|].
  intros k N. rewrite (F2 k N). now apply F1.
Qed.

Lemma view_of r sub eo la se ms :
  rs_view r sub = (Some eo, Some la, Some se, Some ms) ->
  assoc sub (rs_eose r) = Some eo /\ assoc sub (rs_last r) = Some la /\
  assoc sub (rs_seen r) = Some se /\ assoc sub (rs_matcher r) = Some ms.
Proof. unfold rs_view. intro E. inversion E. auto. Qed.

Lemma rs_upd_with_eose r sub eo' eo la se ms :
  rs_view r sub = (Some eo, Some la, Some se, Some ms) ->
  rs_upd r (rs_with_eose r (m_set sub eo' (rs_eose r))) sub (WOpen eo' la se ms) /\
  rs_view (rs_with_eose r (m_set sub eo' (rs_eose r))) sub = (Some eo', Some la, Some se, Some ms).
Proof.
  intro E. destruct (view_of _ _ _ _ _ _ E) as [E1 [E2 [E3 E4]]].
  assert (V : rs_view (rs_with_eose r (m_set sub eo' (rs_eose r))) sub = (Some eo', Some la, Some se, Some ms)).
  { rewrite rs_view_with_eose, str_dec_refl. now rewrite E2, E3, E4. }
  split; [|exact V]. repeat split.
  - intros k N. rewrite rs_view_with_eose. apply str_dec_neq. congruence.
  - now rewrite V.
  - unfold rs_phase. now rewrite V.
Qed.

Lemma rs_upd_with_last r sub la' eo la se ms :
  rs_view r sub = (Some eo, Some la, Some se, Some ms) ->
  rs_upd r (rs_with_last r (m_set sub la' (rs_last r))) sub (WOpen eo la' se ms) /\
  rs_view (rs_with_last r (m_set sub la' (rs_last r))) sub = (Some eo, Some la', Some se, Some ms).
Proof.
  intro E. destruct (view_of _ _ _ _ _ _ E) as [E1 [E2 [E3 E4]]].
  assert (V : rs_view (rs_with_last r (m_set sub la' (rs_last r))) sub = (Some eo, Some la', Some se, Some ms)).
  { rewrite rs_view_with_last, str_dec_refl. now rewrite E1, E3, E4. }
  split; [|exact V]. repeat split.
  - intros k N. rewrite rs_view_with_last. apply str_dec_neq. congruence.
  - now rewrite V.
  - unfold rs_phase. now rewrite V.
Qed.

Lemma rs_upd_with_seen r sub se' eo la se ms :
  rs_view r sub = (Some eo, Some la, Some se, Some ms) ->
  rs_upd r (rs_with_seen r (m_set sub se' (rs_seen r))) sub (WOpen eo la se' ms) /\
  rs_view (rs_with_seen r (m_set sub se' (rs_seen r))) sub = (Some eo, Some la, Some se', Some ms).
Proof.
  intro E. destruct (view_of _ _ _ _ _ _ E) as [E1 [E2 [E3 E4]]].
  assert (V : rs_view (rs_with_seen r (m_set sub se' (rs_seen r))) sub = (Some eo, Some la, Some se', Some ms)).
  { rewrite rs_view_with_seen, str_dec_refl. now rewrite E1, E2, E4. }
  split; [|exact V]. repeat split.
  - intros k N. rewrite rs_view_with_seen. apply str_dec_neq. congruence.
  - now rewrite V.
  - unfold rs_phase. now rewrite V.
Qed.

Lemma rs_upd_with_matcher r sub ms' eo la se ms :
  rs_view r sub = (Some eo, Some la, Some se, Some ms) ->
  rs_upd r (rs_with_matcher r (m_set sub ms' (rs_matcher r))) sub (WOpen eo la se ms') /\
  rs_view (rs_with_matcher r (m_set sub ms' (rs_matcher r))) sub = (Some eo, Some la, Some se, Some ms').
Proof.
  intro E. destruct (view_of _ _ _ _ _ _ E) as [E1 [E2 [E3 E4]]].
  assert (V : rs_view (rs_with_matcher r (m_set sub ms' (rs_matcher r))) sub = (Some eo, Some la, Some se, Some ms')).
  { rewrite rs_view_with_matcher, str_dec_refl. now rewrite E1, E2, E3. }
  split; [|exact V]. repeat split.
  - intros k N. rewrite rs_view_with_matcher. apply str_dec_neq. congruence.
  - now rewrite V.
  - unfold rs_phase. now rewrite V.
Qed.

Lemma rs_upd_then_clear r r1 sub ph : rs_upd r r1 sub ph -> rs_upd r (rs_clear r1 sub) sub WClosed.
Proof. intro H. eapply rs_upd_trans; [exact H | apply rs_upd_clear]. Qed.

Lemma phase_open_view r sub eo la se ms :
  view_sync (rs_view r sub) -> rs_phase r sub = WOpen eo la se ms ->
  rs_view r sub = (Some eo, Some la, Some se, Some ms).
Proof.
  intros Hs Hp. unfold rs_phase in Hp.
  destruct (rs_view r sub) as [[[[eo'|] [la'|]] [se'|]] [ms'|]]; simpl in *; try contradiction; try discriminate.
  now inversion Hp.
Qed.

(** handleSendEOSEMsg is [w_eose] on the phase of its subscription id and
    touches nothing else *)
Lemma send_eose_spec n s i sub :
  rs_ok n (st_rs s) -> (i < n)%nat ->
  exists r',
    send_eose s i sub =
      (with_rs s r', if snd (w_eose (rs_phase (st_rs s) sub) i) then Some (SEose sub) else None) /\
    rs_upd (st_rs s) r' sub (fst (w_eose (rs_phase (st_rs s) sub) i)).
Proof.
  intros [Hn Hok] Hi. set (r := st_rs s) in *.
  destruct (Hok sub) as [Hs Hwf].
  unfold send_eose. fold r.
  pose proof (rs_all_eose_spec r sub Hs) as HA.
  destruct (rs_phase r sub) as [eo la se ms|] eqn:Hp.
  2:{ rewrite HA, g_eose_already_spec. exists r. split; [reflexivity|].
      simpl. rewrite <- Hp. now apply rs_upd_refl. }
  simpl w_eose. destruct Hwf as [Hlen Hms].
  destruct (all_true eo) eqn:Hall.
  - rewrite HA, g_eose_already_spec. exists (rs_clear r sub). split; [reflexivity | apply rs_upd_clear].
  - rewrite HA, g_eose_already_spec.
    pose proof (phase_open_view r sub _ _ _ _ Hs Hp) as V.
    destruct (view_of _ _ _ _ _ _ V) as [E1 _].
    unfold rs_set_eose. rewrite E1. simpl vlist.
    rewrite g_req_seteose_absent_spec.
    destruct eo as [|b0 eo0] eqn:Eeo; [discriminate|]. rewrite <- Eeo in *.
    destruct (upd_nth_some i true eo) as [eo' Eu]; [lia|]. rewrite Eu.
    destruct (rs_upd_with_eose r sub eo' eo la se ms V) as [U2 V2].
    set (r2 := rs_with_eose r (m_set sub eo' (rs_eose r))) in *.
    assert (Hs2 : view_sync (rs_view r2 sub)) by (rewrite V2; exact I).
    pose proof (rs_all_eose_spec r2 sub Hs2) as HA2.
    unfold rs_phase in HA2. rewrite V2 in HA2. simpl in HA2.
    destruct (all_true eo') eqn:Hall'; rewrite HA2, g_eose_incomplete_spec; simpl.
    + exists (rs_clear r2 sub). split; [reflexivity | eapply rs_upd_then_clear; exact U2].
    + exists r2. split; [reflexivity | exact U2].
Qed.

Definition older_first (la : option event) (e : event) : bool :=
  match la with Some l => ev_ts l <? ev_ts e | None => false end.
Definition ts_decreased (la : option event) (e : event) : bool :=
  match la with Some l => ev_ts e <? ev_ts l | None => false end.

Lemma rs_order_spec r sub e eo la se ms :
  rs_view r sub = (Some eo, Some la, Some se, Some ms) ->
  if older_first la e then rs_order r sub e = None
  else
    let se1 := if ts_decreased la e then [] else se in
    exists r3, rs_order r sub e = Some r3 /\
               rs_upd r r3 sub (WOpen eo (Some e) se1 ms) /\
               rs_view r3 sub = (Some eo, Some (Some e), Some se1, Some ms).
Proof.
  intro V. destruct (view_of _ _ _ _ _ _ V) as [E1 [E2 [E3 E4]]].
  unfold rs_order, rs_last_of. rewrite E2.
  destruct la as [l|]; cbn [isSome older_first ts_decreased].
  - rewrite g_ev_has_last_spec, g_ev_older_first_spec, g_ev_ts_decreased_spec. cbn [andb].
    destruct (ev_ts l <? ev_ts e) eqn:Eo; [reflexivity|].
    destruct (ev_ts e <? ev_ts l) eqn:Ed.
    + destruct (rs_upd_with_seen r sub [] eo (Some l) se ms V) as [U2 V2].
      destruct (rs_upd_with_last _ sub (Some e) eo (Some l) [] ms V2) as [U3 V3].
      eexists. split; [reflexivity|]. split; [|exact V3]. eapply rs_upd_trans; eauto.
    + destruct (rs_upd_with_last _ sub (Some e) eo (Some l) se ms V) as [U3 V3].
      eexists. split; [reflexivity|]. split; [exact U3 | exact V3].
  - rewrite g_ev_has_last_spec. cbn [andb].
    destruct (rs_upd_with_last _ sub (Some e) eo None se ms V) as [U3 V3].
    eexists. split; [reflexivity|]. split; [exact U3 | exact V3].
Qed.

Definition w_dedup_limit (eo : list bool) (la : option event) (se1 : list str) (ms : list lmatcher) (e : event)
  : wphase * bool :=
  if mem_str (ev_id e) se1 then (WOpen eo la se1 ms, false) else
  let se2 := ev_id e :: se1 in
  if lms_done ms then (WOpen eo la se2 ms, false) else
  (WOpen eo la se2 (List.map (lm_step e) ms), matches_specb e (List.map lm_f ms)).

Lemma rs_dedup_limit_spec r3 sub e eo la se1 ms :
  rs_view r3 sub = (Some eo, Some la, Some se1, Some ms) ->
  tags_nonempty e -> ms_wf ms ->
  exists r',
    rs_dedup_limit r3 sub e = Some (r', snd (w_dedup_limit eo la se1 ms e)) /\
    rs_upd r3 r' sub (fst (w_dedup_limit eo la se1 ms e)).
Proof.
  intros V Hne Hwf. destruct (view_of _ _ _ _ _ _ V) as [E1 [E2 [E3 E4]]].
  unfold rs_dedup_limit, w_dedup_limit. rewrite E3. cbn [isSome negb optb].
  rewrite g_ev_seen_reject_spec. cbn [orb].
  destruct (mem_str (ev_id e) se1) eqn:Em.
  - exists r3. split; [reflexivity|]. cbn [fst].
    replace (WOpen eo la se1 ms) with (rs_phase r3 sub) by (unfold rs_phase; now rewrite V).
    apply rs_upd_refl. now rewrite V.
  - destruct (rs_upd_with_seen r3 sub (ev_id e :: se1) eo la se1 ms V) as [U4 V4].
    set (r4 := rs_with_seen r3 (m_set sub (ev_id e :: se1) (rs_seen r3))) in *.
    destruct (view_of _ _ _ _ _ _ V4) as [_ [_ [_ E44]]]. rewrite E44.
    rewrite g_ev_done_spec. destruct (lms_done ms) eqn:Ed.
    + exists r4. split; [reflexivity | exact U4].
    + rewrite (lms_limit_match_step e ms Hne Hwf).
      destruct (rs_upd_with_matcher r4 sub (List.map (lm_step e) ms) eo la (ev_id e :: se1) ms V4) as [U5 V5].
      rewrite g_ev_nomatch_spec.
      eexists. split.
      * cbn [snd]. destruct (matches_specb e (List.map lm_f ms)); reflexivity.
      * cbn [fst]. eapply rs_upd_trans; eauto.
Qed.

Lemma w_event_open eo la se ms i e :
  all_true eo = false -> nth_error eo i = Some false ->
  w_event (WOpen eo la se ms) i e =
  if older_first la e then (WOpen eo la se ms, false)
  else w_dedup_limit eo (Some e) (if ts_decreased la e then [] else se) ms e.
Proof.
  intros Ha Hn. unfold w_event, w_dedup_limit, older_first, ts_decreased. rewrite Ha, Hn. reflexivity.
Qed.

(** handleSendEventMsg is [w_event] on the phase of its subscription id and
    touches nothing else *)
Lemma send_event_spec n s i sub e :
  rs_ok n (st_rs s) -> (i < n)%nat -> tags_nonempty e ->
  exists r',
    send_event s i sub e =
      (with_rs s r', if snd (w_event (rs_phase (st_rs s) sub) i e) then Some (SEvent sub e) else None) /\
    rs_upd (st_rs s) r' sub (fst (w_event (rs_phase (st_rs s) sub) i e)).
Proof.
  intros [Hn Hok] Hi Hne. set (r := st_rs s) in *.
  destruct (Hok sub) as [Hs Hwf].
  unfold send_event, rs_is_sendable. fold r.
  pose proof (rs_all_eose_spec r sub Hs) as HA.
  destruct (rs_phase r sub) as [eo la se ms|] eqn:Hp.
  2:{ rewrite HA, g_ev_all_eose_spec, g_event_unsendable_spec. exists r. split; [reflexivity|].
      simpl. rewrite <- Hp. now apply rs_upd_refl. }
  destruct Hwf as [Hlen Hms].
  destruct (all_true eo) eqn:Hall.
  { rewrite HA, g_ev_all_eose_spec, g_event_unsendable_spec. unfold w_event. rewrite Hall.
    exists (rs_clear r sub). split; [reflexivity | apply rs_upd_clear]. }
  rewrite HA, g_ev_all_eose_spec.
  pose proof (phase_open_view r sub _ _ _ _ Hs Hp) as V.
  destruct (view_of _ _ _ _ _ _ V) as [E1 _].
  unfold rs_is_eose. rewrite E1. cbn [vlist].
  destruct eo as [|b0 eo0] eqn:Eeo; [discriminate|]. rewrite <- Eeo in *.
  destruct (nth_error eo i) as [b|] eqn:En.
  2:{ apply nth_error_None in En. lia. }
  replace (match eo with [] => Some true | _ :: _ => nth_error eo i end) with (Some b)
    by (rewrite Eeo in *; now rewrite En).
  rewrite g_ev_child_eose_spec.
  destruct b.
  { rewrite g_event_unsendable_spec. unfold w_event. rewrite Hall, En.
    exists r. split; [reflexivity|]. cbn [fst]. rewrite <- Hp. now apply rs_upd_refl. }
  rewrite (w_event_open eo la se ms i e Hall En).
  pose proof (rs_order_spec r sub e eo la se ms V) as HO.
  destruct (older_first la e).
  { rewrite HO, g_event_unsendable_spec. exists r. split; [reflexivity|]. cbn [fst].
    rewrite <- Hp. now apply rs_upd_refl. }
  destruct HO as [r3 [EO [U3 V3]]]. rewrite EO.
  destruct (rs_dedup_limit_spec r3 sub e eo (Some e) _ ms V3 Hne Hms) as [r' [ED U']].
  rewrite ED, g_event_unsendable_spec. exists r'. split.
  - destruct (snd (w_dedup_limit eo (Some e) (if ts_decreased la e then [] else se) ms e)); reflexivity.
  - eapply rs_upd_trans; eauto.
Qed.

(* ------------------------------------------------------------------ *)
(** * 4. Reply slots (OK and COUNT state) *)

(** every slot vector has one entry per child, and a stored reply carries the
    key it is stored under *)
Definition slots_ok {A} (key : A -> str) (n : nat) (m : list (str * list (option A))) : Prop :=
  forall k l, assoc k m = Some l -> length l = n /\ forall a, In (Some a) l -> key a = k.

Lemma slots_ok_set {A} (key : A -> str) n m k l :
  slots_ok key n m -> length l = n -> (forall a, In (Some a) l -> key a = k) -> slots_ok key n (m_set k l m).
Proof.
  intros H Hl Hk k' l' E. destruct (str_dec k k') as [<-|N].
  - rewrite assoc_m_set_same in E. inversion E; subst. auto.
  - rewrite assoc_m_set_other in E by assumption. eapply H; eauto.
Qed.

Lemma slots_ok_del {A} (key : A -> str) n m k : slots_ok key n m -> slots_ok key n (m_del k m).
Proof.
  intros H k' l' E. destruct (str_dec k k') as [<-|N].
  - rewrite assoc_m_del_same in E. discriminate.
  - rewrite assoc_m_del_other in E by assumption. eapply H; eauto.
Qed.

Lemma In_repeat_None {A} n (a : A) : ~ In (Some a) (repeat None n).
Proof. intro H. apply repeat_spec in H. discriminate. Qed.

(** what a reply of child [i] does to the slot vector bound to its key:
    the new binding and, when the reply completed the vector, the vector *)
Definition w_put {A} (v : option (list (option A))) (i : nat) (a : A)
  : option (list (option A)) * option (list (option A)) :=
  match v with
  | None => (None, None)
  | Some [] => (Some [], None)
  | Some l =>
      match upd_nth i (Some a) l with
      | None => (v, None)
      | Some l' => if existsb isNone l' then (Some l', None) else (None, Some l')
      end
  end.

Lemma full_vector {A} (l : list (option A)) :
  existsb isNone l = false -> exists xs, l = List.map Some xs.
Proof.
  induction l as [|[x|] l IH]; simpl; intro H; [exists []; reflexivity | | discriminate].
  destruct (IH H) as [xs ->]. exists (x :: xs). reflexivity.
Qed.

(** ** OK *)

Definition os_ok (n : nat) (o : ostate) : Prop := os_size o = n /\ slots_ok ok_id n (os_s o).

Definition ok_merge (msgs : list (option okm)) : option okm :=
  match ok_partition msgs with
  | None => None
  | Some (oks, ngs) => if h_ok_any_rejected (zlen ngs) then join_oks ngs else join_oks oks
  end.

Lemma ok_partition_some xs :
  ok_partition (List.map Some xs) = Some (filter ok_acc xs, filter (fun m => negb (ok_acc m)) xs).
Proof.
  induction xs as [|x xs IH]; simpl; [reflexivity|]. rewrite IH, g_ok_is_accepted_spec.
  destruct (ok_acc x); reflexivity.
Qed.

Lemma filter_all_false {A} (p : A -> bool) l : filter (fun x => negb (p x)) l = [] -> filter p l = l.
Proof.
  induction l as [|x l IH]; simpl; [reflexivity|]. destruct (p x); simpl; [|discriminate].
  intro H. now rewrite IH.
Qed.

Lemma ok_merge_full xs : xs <> [] -> exists r, ok_merge (List.map Some xs) = Some r.
Proof.
  intro Hne. unfold ok_merge. rewrite ok_partition_some, g_ok_any_rejected_spec.
  destruct (filter (fun m => negb (ok_acc m)) xs) as [|ng ngs] eqn:E; cbn [negb].
  - rewrite (filter_all_false _ _ E). destruct xs; [congruence | eexists; reflexivity].
  - eexists; reflexivity.
Qed.

Lemma os_try_set_ok n o id : os_ok n o -> os_ok n (os_try_set o id).
Proof.
  intros [Hn H]. unfold os_try_set. destruct (h_ok_has_slot _); [split; assumption|].
  split; [exact Hn|]. cbn [os_s]. apply slots_ok_set; [assumption | now rewrite repeat_length |].
  intros a Ha. exfalso. eapply In_repeat_None; eauto.
Qed.

Definition out_ok (full : option (list (option okm))) : option smsg :=
  match full with
  | Some l' => option_map SOk (ok_merge l')
  | None => None
  end.

Lemma match_nonempty {A B} (l : list A) (a b : B) :
  l <> [] -> match l with [] => a | _ :: _ => b end = b.
Proof. destruct l; congruence. Qed.

Ltac split5 := split; [|split; [|split; [|split]]].

(** handleSendOKMsg is [w_put] on the slot vector of its event id and touches
    nothing else; it cannot panic *)
Lemma send_ok_spec n s i m :
  os_ok n (st_os s) -> (i < n)%nat ->
  let v := assoc (ok_id m) (os_s (st_os s)) in
  exists o',
    send_ok s i m = (with_os s o', out_ok (snd (w_put v i m))) /\
    os_ok n o' /\
    (forall k, k <> ok_id m -> assoc k (os_s o') = assoc k (os_s (st_os s))) /\
    assoc (ok_id m) (os_s o') = fst (w_put v i m) /\
    (forall l', snd (w_put v i m) = Some l' -> exists r, ok_merge l' = Some r).
Proof.
  intros [Hn Hok] Hi v. set (o := st_os s) in *. set (id := ok_id m) in *.
  unfold send_ok, os_set_msg. fold o. fold id. fold v.
  destruct v as [l|] eqn:Ev.
  2:{ cbn [vlist]. rewrite g_ok_setmsg_absent_spec. unfold os_ready. fold v. rewrite Ev. cbn [vlist].
      rewrite g_ok_ready_absent_spec, g_ok_not_ready_spec. cbn [negb].
      exists o. split5; auto; try (split; assumption). intros l' H; discriminate. }
  cbn [vlist]. rewrite g_ok_setmsg_absent_spec.
  destruct l as [|x0 l0] eqn:El.
  { unfold os_ready. fold v. rewrite Ev. cbn [vlist]. rewrite g_ok_ready_absent_spec, g_ok_not_ready_spec.
    cbn [negb]. exists o. split5; auto; try (split; assumption). intros l' H; discriminate. }
  rewrite <- El in *. destruct (Hok id l Ev) as [Hlen Hkey].
  destruct (upd_nth_some i (Some m) l) as [l' Eu]; [lia|].
  assert (W : w_put (Some l) i m = if existsb isNone l' then (Some l', None) else (None, Some l')).
  { unfold w_put. rewrite Eu. rewrite El in *. reflexivity. }
  rewrite W, Eu. clear W.
  set (o1 := mkOS (os_size o) (m_set id l' (os_s o))).
  assert (Hl' : length l' = n) by (rewrite (upd_nth_length _ _ _ _ Eu); exact Hlen).
  assert (Hk' : forall a, In (Some a) l' -> ok_id a = id).
  { intros a Ha. destruct (upd_nth_In _ _ _ _ _ Eu Ha) as [E|Hin]; [now inversion E | now apply Hkey]. }
  assert (Hne' : l' <> []).
  { intro E. rewrite E in Hl'. simpl in Hl'. lia. }
  assert (Hok1 : os_ok n o1).
  { split; [exact Hn|]. cbn [os_s o1]. now apply slots_ok_set. }
  unfold os_ready. cbn [os_s o1]. rewrite assoc_m_set_same. cbn [vlist].
  rewrite g_ok_ready_absent_spec, g_ok_not_ready_spec, (match_nonempty l') by exact Hne'.
  destruct (existsb isNone l') eqn:Ex; cbn [negb snd fst out_ok].
  - exists o1. split5; try exact Hok1.
    + reflexivity.
    + intros k N. cbn [os_s o1]. apply assoc_m_set_other. congruence.
    + cbn [os_s o1]. apply assoc_m_set_same.
    + intros l'' H; discriminate.
  - destruct (full_vector l' Ex) as [xs Exs].
    destruct (ok_merge_full xs) as [r Er]; [intro E; subst xs; rewrite Exs in Hne'; now apply Hne'|].
    unfold os_msg. cbn [os_s o1]. rewrite assoc_m_set_same. cbn [vlist].
    rewrite g_ok_msg_absent_spec, (match_nonempty l') by exact Hne'.
    fold (ok_merge l'). rewrite Exs, Er. cbn [option_map].
    exists (os_clear o1 id). split5.
    + reflexivity.
    + split; [exact Hn|]. cbn [os_clear os_s]. apply slots_ok_del. apply Hok1.
    + intros k N. cbn [os_clear os_s o1]. rewrite assoc_m_del_other by congruence.
      apply assoc_m_set_other. congruence.
    + cbn [os_clear os_s]. apply assoc_m_del_same.
    + intros l'' H. inversion H; subst. now exists r.
Qed.

(** ** COUNT *)

Definition cs_ok (n : nat) (c : cstate) : Prop := cs_size c = n /\ slots_ok c_sub n (cs_counts c).

Definition cnt_merge (l : list (option cntm)) : option cntm :=
  match all_some l with
  | None => None
  | Some [] => None
  | Some (m :: r) => Some (first_max m r)
  end.

Lemma all_some_map {A} (xs : list A) : all_some (List.map Some xs) = Some xs.
Proof. induction xs as [|x xs IH]; simpl; [reflexivity | now rewrite IH]. Qed.

Lemma cnt_merge_full xs : xs <> [] -> exists r, cnt_merge (List.map Some xs) = Some r.
Proof.
  intro H. unfold cnt_merge. rewrite all_some_map. destruct xs; [congruence | eexists; reflexivity].
Qed.

Lemma cs_set_sub_ok n c sub : cs_ok n c -> cs_ok n (cs_set_sub c sub).
Proof.
  intros [Hn H]. split; [exact Hn|]. cbn [cs_set_sub cs_counts].
  apply slots_ok_set; [assumption | now rewrite repeat_length |].
  intros a Ha. exfalso. eapply In_repeat_None; eauto.
Qed.

Definition out_cnt (full : option (list (option cntm))) : option smsg :=
  match full with
  | Some l' => option_map SCount (cnt_merge l')
  | None => None
  end.

(** handleSendCountMsg is [w_put] on the slot vector of its subscription id *)
Lemma send_count_spec n s i m :
  cs_ok n (st_cs s) -> (i < n)%nat ->
  let v := assoc (c_sub m) (cs_counts (st_cs s)) in
  exists c',
    send_count s i m = (with_cs s c', out_cnt (snd (w_put v i m))) /\
    cs_ok n c' /\
    (forall k, k <> c_sub m -> assoc k (cs_counts c') = assoc k (cs_counts (st_cs s))) /\
    assoc (c_sub m) (cs_counts c') = fst (w_put v i m) /\
    (forall l', snd (w_put v i m) = Some l' -> exists r, cnt_merge l' = Some r).
Proof.
  intros [Hn Hok] Hi v. set (o := st_cs s) in *. set (id := c_sub m) in *.
  unfold send_count, cs_set_msg. fold o. fold id. fold v.
  destruct v as [l|] eqn:Ev.
  2:{ cbn [vlist]. rewrite g_cnt_set_absent_spec. unfold cs_ready. fold v. rewrite Ev. cbn [vlist].
      rewrite g_cnt_ready_absent_spec, g_count_not_ready_spec. cbn [negb].
      exists o. split5; auto; try (split; assumption). intros l' H; discriminate. }
  cbn [vlist]. rewrite g_cnt_set_absent_spec.
  destruct l as [|x0 l0] eqn:El.
  { unfold cs_ready. fold v. rewrite Ev. cbn [vlist]. rewrite g_cnt_ready_absent_spec, g_count_not_ready_spec.
    cbn [negb]. exists o. split5; auto; try (split; assumption). intros l' H; discriminate. }
  rewrite <- El in *. destruct (Hok id l Ev) as [Hlen Hkey].
  destruct (upd_nth_some i (Some m) l) as [l' Eu]; [lia|].
  assert (W : w_put (Some l) i m = if existsb isNone l' then (Some l', None) else (None, Some l')).
  { unfold w_put. rewrite Eu. rewrite El in *. reflexivity. }
  rewrite W, Eu. clear W.
  set (o1 := mkCS (cs_size o) (m_set id l' (cs_counts o))).
  assert (Hl' : length l' = n) by (rewrite (upd_nth_length _ _ _ _ Eu); exact Hlen).
  assert (Hk' : forall a, In (Some a) l' -> c_sub a = id).
  { intros a Ha. destruct (upd_nth_In _ _ _ _ _ Eu Ha) as [E|Hin]; [now inversion E | now apply Hkey]. }
  assert (Hne' : l' <> []).
  { intro E. rewrite E in Hl'. simpl in Hl'. lia. }
  assert (Hok1 : cs_ok n o1).
  { split; [exact Hn|]. cbn [cs_counts o1]. now apply slots_ok_set. }
  unfold cs_ready. cbn [cs_counts o1]. rewrite assoc_m_set_same. cbn [vlist].
  rewrite g_cnt_ready_absent_spec, g_count_not_ready_spec, (match_nonempty l') by exact Hne'.
  destruct (existsb isNone l') eqn:Ex; cbn [negb snd fst out_cnt].
  - exists o1. split5; try exact Hok1.
    + reflexivity.
    + intros k N. cbn [cs_counts o1]. apply assoc_m_set_other. congruence.
    + cbn [cs_counts o1]. apply assoc_m_set_same.
    + intros l'' H; discriminate.
  - destruct (full_vector l' Ex) as [xs Exs].
    destruct (cnt_merge_full xs) as [r Er]; [intro E; subst xs; rewrite Exs in Hne'; now apply Hne'|].
    unfold cs_msg. cbn [cs_counts o1]. rewrite assoc_m_set_same. cbn [vlist].
    fold (cnt_merge l'). rewrite Exs, Er. cbn [option_map].
    exists (cs_clear o1 id). split5.
    + reflexivity.
    + split; [exact Hn|]. cbn [cs_clear cs_counts]. apply slots_ok_del. apply Hok1.
    + intros k N. cbn [cs_clear cs_counts o1]. rewrite assoc_m_del_other by congruence.
      apply assoc_m_set_other. congruence.
    + cbn [cs_clear cs_counts]. apply assoc_m_del_same.
    + intros l'' H. inversion H; subst. now exists r.
Qed.

(* ------------------------------------------------------------------ *)
(** * 5. The global invariant: the session does not panic *)

Definition state_ok (n : nat) (s : state) : Prop :=
  st_dead s = false /\ rs_ok n (st_rs s) /\ os_ok n (st_os s) /\ cs_ok n (st_cs s).

Lemma init_ok n : state_ok n (init n).
Proof.
  unfold state_ok, init. cbn [st_dead st_rs st_os st_cs].
  split; [reflexivity|]. split; [|split].
  - split; [reflexivity|]. intro k. unfold rs_phase, rs_view. cbn. auto.
  - split; [reflexivity|]. intros k l H; discriminate.
  - split; [reflexivity|]. intros k l H; discriminate.
Qed.

Lemma state_ok_intro n s :
  st_dead s = false -> rs_ok n (st_rs s) -> os_ok n (st_os s) -> cs_ok n (st_cs s) -> state_ok n s.
Proof. unfold state_ok. auto. Qed.

Lemma w_eose_wf n ph i : phase_wf n ph -> phase_wf n (fst (w_eose ph i)).
Proof.
  intro Hwf. destruct ph as [eo la se ms|]; cbn [w_eose fst]; [|exact I].
  destruct (all_true eo); [exact I|].
  destruct (upd_nth i true eo) as [eo'|] eqn:Eu; [|exact Hwf].
  destruct (all_true eo'); [exact I|]. destruct Hwf as [Hl Hm]. split; [|exact Hm].
  now rewrite (upd_nth_length _ _ _ _ Eu).
Qed.

Lemma w_event_wf n ph i e : phase_wf n ph -> phase_wf n (fst (w_event ph i e)).
Proof.
  intro Hwf. destruct ph as [eo la se ms|]; cbn [w_event fst]; [|exact I].
  destruct Hwf as [Hl Hm].
  destruct (all_true eo); [exact I|].
  destruct (nth_error eo i) as [[]|]; try (split; assumption).
  destruct (match la with Some l => ev_ts l <? ev_ts e | None => false end); [split; assumption|].
  cbv zeta.
  destruct (mem_str (ev_id e) _); [split; assumption|].
  destruct (lms_done ms); [split; assumption|]. split; [assumption|].
  unfold ms_wf in *. rewrite Forall_map. eapply Forall_impl; [|exact Hm].
  intros a Ha. now rewrite lm_step_f.
Qed.

Lemma step_ok n s x : state_ok n s -> input_ok n x -> state_ok n (fst (merge_step s x)).
Proof.
  intros [Hd [Hr [Ho Hc]]] Hx. unfold merge_step. rewrite Hd.
  destruct x as [sub fs|sub|id|sub|i m]; cbn [fst].
  - apply state_ok_intro; cbn [with_rs st_dead st_rs st_os st_cs]; auto. now apply rs_set_sub_ok.
  - apply state_ok_intro; cbn [with_rs st_dead st_rs st_os st_cs]; auto. now apply rs_clear_ok.
  - apply state_ok_intro; cbn [with_os st_dead st_rs st_os st_cs]; auto. now apply os_try_set_ok.
  - apply state_ok_intro; cbn [with_cs st_dead st_rs st_os st_cs]; auto. now apply cs_set_sub_ok.
  - destruct m as [sub|sub e|m|c|t|sub p t]; cbn [input_ok] in Hx.
    + destruct (send_eose_spec n s i sub Hr Hx) as [r' [E U]]. rewrite E. cbn [fst].
      apply state_ok_intro; cbn [with_rs st_dead st_rs st_os st_cs]; auto.
      eapply rs_upd_ok; [exact Hr | exact U |]. apply w_eose_wf. apply (proj2 Hr sub).
    + destruct Hx as [Hi Hne].
      destruct (send_event_spec n s i sub e Hr Hi Hne) as [r' [E U]]. rewrite E. cbn [fst].
      apply state_ok_intro; cbn [with_rs st_dead st_rs st_os st_cs]; auto.
      eapply rs_upd_ok; [exact Hr | exact U |]. apply w_event_wf. apply (proj2 Hr sub).
    + destruct (send_ok_spec n s i m Ho Hx) as [o' [E [Hok' _]]]. rewrite E. cbn [fst].
      apply state_ok_intro; cbn [with_os st_dead st_rs st_os st_cs]; auto.
    + destruct (send_count_spec n s i c Hc Hx) as [c' [E [Hok' _]]]. rewrite E. cbn [fst].
      apply state_ok_intro; cbn [with_cs st_dead st_rs st_os st_cs]; auto.
    + apply state_ok_intro; auto.
    + apply state_ok_intro; auto.
Qed.

Lemma exec_cons s x t :
  exec s (x :: t) = (fst (exec (fst (merge_step s x)) t), snd (merge_step s x) :: snd (exec (fst (merge_step s x)) t)).
Proof.
  cbn [exec]. destruct (merge_step s x) as [s1 o]. cbn [fst snd]. destruct (exec s1 t); reflexivity.
Qed.

Lemma exec_app s t1 t2 :
  exec s (t1 ++ t2) =
  (fst (exec (fst (exec s t1)) t2), snd (exec s t1) ++ snd (exec (fst (exec s t1)) t2)).
Proof.
  revert s. induction t1 as [|x t1 IH]; intro s.
  - cbn. destruct (exec s t2); reflexivity.
  - rewrite <- app_comm_cons, !exec_cons, IH. cbn [fst snd]. reflexivity.
Qed.

Lemma exec_ok n t : forall s, state_ok n s -> trace_ok n t -> state_ok n (final s t).
Proof.
  induction t as [|x t IH]; intros s Hs Ht; [exact Hs|].
  inversion Ht as [|? ? Hx Ht']; subst. unfold final. rewrite exec_cons. cbn [fst].
  apply IH; [now apply step_ok | assumption].
Qed.

Lemma outs_length s t : length (outs s t) = length t.
Proof.
  revert s. induction t as [|x t IH]; intro s; [reflexivity|].
  unfold outs. rewrite exec_cons. cbn [snd length]. f_equal. apply IH.
Qed.

(* ------------------------------------------------------------------ *)
(** * 6. One subscription id: [merge_step] is simulated by the phase machine *)

Definition wstep (sub : str) (ph : wphase) (x : input) : wphase * option smsg :=
  match x with
  | Child i (SEose s) =>
      if str_eqb s sub
      then (fst (w_eose ph i), if snd (w_eose ph i) then Some (SEose sub) else None)
      else (ph, None)
  | Child i (SEvent s e) =>
      if str_eqb s sub
      then (fst (w_event ph i e), if snd (w_event ph i e) then Some (SEvent sub e) else None)
      else (ph, None)
  | _ => (ph, None)
  end.

Fixpoint wrun (sub : str) (ph : wphase) (w : list input) : wphase * list (option smsg) :=
  match w with
  | [] => (ph, [])
  | x :: w' =>
      (fst (wrun sub (fst (wstep sub ph x)) w'),
       snd (wstep sub ph x) :: snd (wrun sub (fst (wstep sub ph x)) w'))
  end.

(** the part of an output that concerns [sub]'s REQ *)
Definition proj_sub (sub : str) (o : option smsg) : option smsg :=
  match o with
  | Some (SEose s) => if str_eqb s sub then o else None
  | Some (SEvent s _) => if str_eqb s sub then o else None
  | _ => None
  end.

Lemma rs_upd_other r r' s ph sub : rs_upd r r' s ph -> s <> sub -> rs_phase r' sub = rs_phase r sub.
Proof. intros [_ [F _]] N. unfold rs_phase. rewrite F; [reflexivity | congruence]. Qed.

Lemma rs_upd_same r r' sub ph : rs_upd r r' sub ph -> rs_phase r' sub = ph.
Proof. intros [_ [_ [_ P]]]. exact P. Qed.

Lemma step_sim n sub s x :
  state_ok n s -> input_ok n x -> is_req_of sub x = false -> is_close_of sub x = false ->
  rs_phase (st_rs (fst (merge_step s x))) sub = fst (wstep sub (rs_phase (st_rs s) sub) x) /\
  proj_sub sub (snd (merge_step s x)) = snd (wstep sub (rs_phase (st_rs s) sub) x).
Proof.
  intros [Hd [Hr [Ho Hc]]] Hx Hnr Hnc. unfold merge_step. rewrite Hd.
  destruct x as [s' fs|s'|id|s'|i m]; cbn [fst snd wstep proj_sub].
  - cbn [is_req_of] in Hnr. apply str_eqb_neq in Hnr. split; [|reflexivity].
    unfold rs_phase. cbn [with_rs st_rs]. rewrite rs_view_set_sub. now rewrite str_dec_neq.
  - cbn [is_close_of] in Hnc. apply str_eqb_neq in Hnc. split; [|reflexivity].
    unfold rs_phase. cbn [with_rs st_rs]. rewrite rs_view_clear. now rewrite str_dec_neq.
  - split; reflexivity.
  - split; reflexivity.
  - destruct m as [s'|s' e|m|c|t|s' p t]; cbn [input_ok] in Hx; cbn [wstep].
    + destruct (send_eose_spec n s i s' Hr Hx) as [r' [E U]]. rewrite E. cbn [fst snd with_rs st_rs].
      destruct (str_eqb s' sub) eqn:Es.
      * apply str_eqb_eq in Es. subst s'. cbn [fst snd]. split; [now apply rs_upd_same in U|].
        destruct (snd (w_eose _ i)); cbn [proj_sub]; [now rewrite str_eqb_refl | reflexivity].
      * apply str_eqb_neq in Es. cbn [fst snd]. split; [eapply rs_upd_other; eauto|].
        destruct (snd (w_eose _ i)); cbn [proj_sub]; [|reflexivity].
        apply str_eqb_neq in Es. now rewrite Es.
    + destruct Hx as [Hi Hne].
      destruct (send_event_spec n s i s' e Hr Hi Hne) as [r' [E U]]. rewrite E. cbn [fst snd with_rs st_rs].
      destruct (str_eqb s' sub) eqn:Es.
      * apply str_eqb_eq in Es. subst s'. cbn [fst snd]. split; [now apply rs_upd_same in U|].
        destruct (snd (w_event _ i e)); cbn [proj_sub]; [now rewrite str_eqb_refl | reflexivity].
      * apply str_eqb_neq in Es. cbn [fst snd]. split; [eapply rs_upd_other; eauto|].
        destruct (snd (w_event _ i e)); cbn [proj_sub]; [|reflexivity].
        apply str_eqb_neq in Es. now rewrite Es.
    + destruct (send_ok_spec n s i m Ho Hx) as [o' [E _]]. rewrite E. cbn [fst snd with_os st_rs].
      split; [reflexivity|]. destruct (out_ok _) as [[]|] eqn:Eo; try reflexivity;
        unfold out_ok in Eo; destruct (snd (w_put _ i m)); try discriminate;
        destruct (ok_merge _); discriminate.
    + destruct (send_count_spec n s i c Hc Hx) as [c' [E _]]. rewrite E. cbn [fst snd with_cs st_rs].
      split; [reflexivity|]. destruct (out_cnt _) as [[]|] eqn:Eo; try reflexivity;
        unfold out_cnt in Eo; destruct (snd (w_put _ i c)); try discriminate;
        destruct (cnt_merge _); discriminate.
    + split; reflexivity.
    + split; reflexivity.
Qed.

Lemma no_reset_cons sub x w : no_reset sub (x :: w) ->
  is_req_of sub x = false /\ is_close_of sub x = false /\ no_reset sub w.
Proof.
  intro H. destruct (H x (or_introl eq_refl)) as [H1 H2]. repeat split; auto.
  - apply H. now right.
  - apply H. now right.
Qed.

Lemma run_sim n sub w : forall s,
  state_ok n s -> trace_ok n w -> no_reset sub w ->
  rs_phase (st_rs (final s w)) sub = fst (wrun sub (rs_phase (st_rs s) sub) w) /\
  List.map (proj_sub sub) (outs s w) = snd (wrun sub (rs_phase (st_rs s) sub) w).
Proof.
  induction w as [|x w IH]; intros s Hs Ht Hn; [split; reflexivity|].
  inversion Ht as [|? ? Hx Ht']; subst.
  destruct (no_reset_cons _ _ _ Hn) as [H1 [H2 Hn']].
  destruct (step_sim n sub s x Hs Hx H1 H2) as [P O].
  destruct (IH (fst (merge_step s x)) (step_ok n s x Hs Hx) Ht' Hn') as [P' O'].
  unfold final, outs in *. rewrite exec_cons. cbn [fst snd wrun List.map].
  rewrite P in P', O'. rewrite O. split; [exact P' | now rewrite O'].
Qed.

Lemma wrun_app sub ph w1 w2 :
  wrun sub ph (w1 ++ w2) =
  (fst (wrun sub (fst (wrun sub ph w1)) w2), snd (wrun sub ph w1) ++ snd (wrun sub (fst (wrun sub ph w1)) w2)).
Proof.
  revert ph. induction w1 as [|x w1 IH]; intro ph.
  - cbn. destruct (wrun sub ph w2); reflexivity.
  - rewrite <- app_comm_cons. cbn [wrun]. rewrite IH. cbn [fst snd]. reflexivity.
Qed.

Lemma wrun_snoc sub ph w1 x :
  wrun sub ph (w1 ++ [x]) =
  (fst (wstep sub (fst (wrun sub ph w1)) x), snd (wrun sub ph w1) ++ [snd (wstep sub (fst (wrun sub ph w1)) x)]).
Proof. rewrite wrun_app. cbn [wrun fst snd]. reflexivity. Qed.

(* ------------------------------------------------------------------ *)
(** * 7. C08: what happens inside one REQ window *)

(** the phase right after [CReq sub fs] *)
Definition ph0 (n : nat) (fs : list rfilter) : wphase := WOpen (repeat false n) None [] (lms_new fs).

Lemma phase_after_req n s sub fs :
  state_ok n s -> rs_phase (st_rs (fst (merge_step s (CReq sub fs)))) sub = ph0 n fs.
Proof.
  intros [Hd [[Hn _] _]]. unfold merge_step. rewrite Hd. cbn [fst with_rs st_rs].
  unfold rs_phase. rewrite rs_view_set_sub, str_dec_refl, Hn. reflexivity.
Qed.

Definition eo_of (n : nat) (sub : str) (w : list input) : list bool := List.map (eosed sub w) (seq 0 n).

Lemma eo_of_nil n sub : eo_of n sub [] = repeat false n.
Proof.
  unfold eo_of, eosed. cbn [existsb]. generalize 0%nat.
  induction n as [|n IH]; intro a; cbn; [reflexivity | now rewrite IH].
Qed.

Lemma all_true_eo_of n sub w : all_true (eo_of n sub w) = all_eosed n sub w.
Proof. unfold all_true, eo_of, all_eosed. apply forallb_map_seq. Qed.

Lemma eosed_snoc sub w x j : eosed sub (w ++ [x]) j = eosed sub w j || is_eose_of sub j x.
Proof. unfold eosed. rewrite existsb_app. cbn [existsb]. now rewrite orb_false_r. Qed.

Definition is_eose_in (sub : str) (x : input) : bool :=
  match x with Child _ (SEose s) => str_eqb s sub | _ => false end.

Lemma not_eose_in sub x j : is_eose_in sub x = false -> is_eose_of sub j x = false.
Proof.
  destruct x as [| | | |i [s| | | | |]]; cbn; try reflexivity. intros ->. apply andb_false_r.
Qed.

Lemma eo_of_snoc_other n sub w x : is_eose_in sub x = false -> eo_of n sub (w ++ [x]) = eo_of n sub w.
Proof.
  intro H. unfold eo_of. apply map_ext. intro j. rewrite eosed_snoc, (not_eose_in _ _ _ H). apply orb_false_r.
Qed.

Lemma all_eosed_snoc_other n sub w x :
  is_eose_in sub x = false -> all_eosed n sub (w ++ [x]) = all_eosed n sub w.
Proof. intro H. now rewrite <- !all_true_eo_of, eo_of_snoc_other. Qed.

Lemma eo_of_snoc_eose n sub w i :
  (i < n)%nat -> upd_nth i true (eo_of n sub w) = Some (eo_of n sub (w ++ [Child i (SEose sub)])).
Proof.
  intro Hi. unfold eo_of. rewrite upd_nth_map_seq by assumption. f_equal.
  apply map_ext. intro j. rewrite eosed_snoc. cbn [is_eose_of]. rewrite str_eqb_refl, andb_true_r.
  cbn [Nat.add]. rewrite (Nat.eqb_sym i j). destruct (Nat.eqb j i); [now rewrite orb_true_r | now rewrite orb_false_r].
Qed.

Lemma all_eosed_mono n sub w x : all_eosed n sub w = true -> all_eosed n sub (w ++ [x]) = true.
Proof.
  unfold all_eosed. rewrite !forallb_forall. intros H j Hj. rewrite eosed_snoc, (H j Hj). reflexivity.
Qed.

Lemma all_eosed_nil n sub : (1 <= n)%nat -> all_eosed n sub [] = false.
Proof. intro H. destruct n; [lia|]. reflexivity. Qed.

Definition ev_key (e : event) : Z * str := (ev_ts e, ev_id e).

(** what holds of an open window: [fwd] are the events forwarded so far *)
Definition pre_inv (fs : list rfilter) (la : option event) (se : list str) (ms : list lmatcher)
  (fwd : list event) : Prop :=
  List.map lm_f ms = fs /\
  Forall (fun e => matches_specb e fs = true) fwd /\
  NoDup (List.map ev_key fwd) /\
  ts_noninc fwd /\
  match la with
  | None => fwd = [] /\ se = []
  | Some l => (forall e, In e fwd -> ev_ts l <= ev_ts e) /\
              (forall e, In e fwd -> ev_ts e = ev_ts l -> In (ev_id e) se)
  end /\
  (forall m, ms = [m] ->
     lm_cnt m = Z.of_nat (length fwd) /\
     forall l, f_limit (lm_f m) = Some l -> Z.of_nat (length fwd) <= Z.max 0 l).

Lemma ts_noninc_snoc l e : ts_noninc l -> (forall x, In x l -> ev_ts e <= ev_ts x) -> ts_noninc (l ++ [e]).
Proof.
  induction l as [|a l IH]; cbn; intros H Hle.
  - split; [intros e' []|exact I].
  - destruct H as [H1 H2]. split.
    + intros e' Hin. apply in_app_or in Hin as [Hin|[<-|[]]]; [now apply H1 | apply Hle; now left].
    + apply IH; [assumption | intros x Hx; apply Hle; now right].
Qed.

Lemma NoDup_snoc {A} (l : list A) a : NoDup l -> ~ In a l -> NoDup (l ++ [a]).
Proof.
  intros H Hn. induction l as [|x l IH]; cbn.
  - constructor; [intros [] | constructor].
  - inversion H; subst. constructor.
    + intro Hin. apply in_app_or in Hin as [Hin|[<-|[]]]; [contradiction | apply Hn; now left].
    + apply IH; [assumption | intro; apply Hn; now right].
Qed.

Lemma map_lm_f_step e ms : List.map lm_f (List.map (lm_step e) ms) = List.map lm_f ms.
Proof. rewrite map_map. apply map_ext. intro m. apply lm_step_f. Qed.

Lemma pre_inv_init fs : pre_inv fs None [] (lms_new fs) [].
Proof.
  unfold pre_inv. split; [apply map_lm_f_new|]. split; [constructor|]. split; [constructor|].
  split; [exact I|]. split; [auto|].
  intros m Hm. cbn. split.
  - unfold lms_new in Hm. destruct fs as [|f [|f' fs']]; try discriminate. inversion Hm. reflexivity.
  - intros l _. lia.
Qed.

Lemma pre_inv_same fs la se ms fwd e se' :
  pre_inv fs la se ms fwd ->
  (forall x, In x fwd -> ev_ts e <= ev_ts x) ->
  (forall x, In x fwd -> ev_ts x = ev_ts e -> In (ev_id x) se') ->
  pre_inv fs (Some e) se' ms fwd.
Proof.
  intros [Hf [Hm [Hnd [Hts [Hla Hlim]]]]] H1 H2.
  split; [assumption|]. split; [assumption|]. split; [assumption|]. split; [assumption|].
  split; [split; assumption | assumption].
Qed.

(** the heart of C08: one EVENT of a child that has not sent EOSE, in an
    open window *)
Lemma w_event_pre fs eo la se ms fwd i e :
  all_true eo = false -> nth_error eo i <> None ->
  pre_inv fs la se ms fwd ->
  exists la' se' ms',
    fst (w_event (WOpen eo la se ms) i e) = WOpen eo la' se' ms' /\
    pre_inv fs la' se' ms' (if snd (w_event (WOpen eo la se ms) i e) then fwd ++ [e] else fwd).
Proof.
  intros Hall Hn Hinv.
  destruct (nth_error eo i) as [[]|] eqn:En; [| |congruence].
  { unfold w_event. rewrite Hall, En. cbn [fst snd]. now exists la, se, ms. }
  rewrite (w_event_open eo la se ms i e Hall En).
  destruct (older_first la e) eqn:Eold; [cbn [fst snd]; now exists la, se, ms|].
  pose proof Hinv as Hinv0.
  destruct Hinv as [Hf [Hm [Hnd [Hts [Hla Hlim]]]]].
  set (se1 := if ts_decreased la e then [] else se).
  (* facts about the events forwarded so far, relative to e *)
  assert (Hge : forall x, In x fwd -> ev_ts e <= ev_ts x).
  { destruct la as [l|]; [|destruct Hla as [-> _]; intros x []].
    cbn [older_first] in Eold. apply Z.ltb_ge in Eold. destruct Hla as [H1 _].
    intros x Hx. specialize (H1 x Hx). lia. }
  assert (Hse1 : forall x, In x fwd -> ev_ts x = ev_ts e -> In (ev_id x) se1).
  { destruct la as [l|]; [|destruct Hla as [-> _]; intros x []].
    destruct Hla as [H1 H2]. intros x Hx Ex. subst se1. cbn [ts_decreased].
    destruct (ev_ts e <? ev_ts l) eqn:Ed.
    - apply Z.ltb_lt in Ed. specialize (H1 x Hx). lia.
    - apply Z.ltb_ge in Ed. cbn [older_first] in Eold. apply Z.ltb_ge in Eold.
      apply H2; [assumption | lia]. }
  unfold w_dedup_limit. fold se1.
  destruct (mem_str (ev_id e) se1) eqn:Emem.
  { cbn [fst snd]. exists (Some e), se1, ms. split; [reflexivity|].
    eapply pre_inv_same; eauto. }
  destruct (lms_done ms) eqn:Edone.
  { cbn [fst snd]. exists (Some e), (ev_id e :: se1), ms. split; [reflexivity|].
    eapply pre_inv_same; eauto. intros x Hx Ex. right. now apply Hse1. }
  cbn [fst snd]. exists (Some e), (ev_id e :: se1), (List.map (lm_step e) ms). split; [reflexivity|].
  rewrite Hf.
  destruct (matches_specb e fs) eqn:Eb.
  - (* forwarded *)
    split; [rewrite map_lm_f_step; exact Hf|].
    split; [apply Forall_app; split; [assumption | constructor; [assumption | constructor]]|].
    split.
    { rewrite map_app. cbn [List.map]. apply NoDup_snoc; [assumption|].
      intro Hin. apply in_map_iff in Hin as [x [Ek Hx]]. unfold ev_key in Ek. inversion Ek as [[Et Ei]].
      assert (In (ev_id x) se1) by now apply Hse1.
      rewrite Ei in H. apply mem_str_In in H. congruence. }
    split; [now apply ts_noninc_snoc|].
    split.
    { split.
      - intros x Hx. apply in_app_or in Hx as [Hx|[<-|[]]]; [now apply Hge | lia].
      - intros x Hx Ex. apply in_app_or in Hx as [Hx|[<-|[]]]; [right; now apply Hse1 | now left]. }
    intros m' Hm'. destruct ms as [|m [|m2 ms2]]; try discriminate. cbn [List.map] in Hm'. inversion Hm'; subst m'.
    destruct (Hlim m eq_refl) as [Hc Hl].
    cbn [List.map] in Hf. subst fs. unfold matches_specb in Eb. cbn [existsb] in Eb. rewrite orb_false_r in Eb.
    unfold lm_step. rewrite Eb. cbn [lm_cnt lm_f]. rewrite app_length. cbn [length].
    split; [lia|]. intros l El.
    unfold lms_done in Edone. cbn [forallb] in Edone. rewrite andb_true_r in Edone.
    unfold lm_done in Edone. rewrite g_done_spec, El in Edone. cbn [isSome andb] in Edone.
    apply Z.leb_gt in Edone. lia.
  - (* matched nothing: dropped, no counter moved for a single filter *)
    split; [rewrite map_lm_f_step; exact Hf|].
    split; [assumption|]. split; [assumption|]. split; [assumption|].
    split.
    { split; [intros x Hx; now apply Hge | intros x Hx Ex; right; now apply Hse1]. }
    intros m' Hm'. destruct ms as [|m [|m2 ms2]]; try discriminate. cbn [List.map] in Hm'. inversion Hm'; subst m'.
    destruct (Hlim m eq_refl) as [Hc Hl].
    cbn [List.map] in Hf. subst fs. unfold matches_specb in Eb. cbn [existsb] in Eb. rewrite orb_false_r in Eb.
    unfold lm_step. rewrite Eb. split; [exact Hc | exact Hl].
Qed.

Lemma forwarded_app sub a b : forwarded sub (a ++ b) = forwarded sub a ++ forwarded sub b.
Proof.
  induction a as [|[[s|s e|m|c|t|s p t]|] a IH]; cbn [app forwarded]; try assumption; [reflexivity|].
  destruct (str_eqb s sub); [cbn; now rewrite IH | assumption].
Qed.

Lemma wstep_closed sub x : fst (wstep sub WClosed x) = WClosed.
Proof.
  destruct x as [| | | |i [s|s e| | | |]]; cbn; try reflexivity; destruct (str_eqb s sub); reflexivity.
Qed.

Lemma eo_of_length n sub w : length (eo_of n sub w) = n.
Proof. unfold eo_of. now rewrite map_length, seq_length. Qed.

(** the state of a window after the inputs [w1] *)
Definition window_state (n : nat) (sub : str) (fs : list rfilter) (w1 : list input) : Prop :=
  if all_eosed n sub w1 then fst (wrun sub (ph0 n fs) w1) = WClosed
  else exists la se ms,
      fst (wrun sub (ph0 n fs) w1) = WOpen (eo_of n sub w1) la se ms /\
      pre_inv fs la se ms (forwarded sub (snd (wrun sub (ph0 n fs) w1))).

Lemma trace_ok_snoc n w x : trace_ok n (w ++ [x]) -> trace_ok n w /\ input_ok n x.
Proof.
  intro H. apply Forall_app in H as [H1 H2]. split; [assumption | now inversion H2].
Qed.

Lemma window_inv n sub fs w1 : (1 <= n)%nat -> trace_ok n w1 -> window_state n sub fs w1.
Proof.
  intro Hn. induction w1 as [|x w1 IH] using rev_ind; intro Ht.
  - unfold window_state. rewrite (all_eosed_nil n sub Hn). cbn [wrun fst snd forwarded].
    exists None, [], (lms_new fs). split; [unfold ph0; now rewrite eo_of_nil | apply pre_inv_init].
  - destruct (trace_ok_snoc _ _ _ Ht) as [Ht1 Hx]. specialize (IH Ht1).
    unfold window_state in *. rewrite wrun_snoc. cbn [fst snd].
    destruct (all_eosed n sub w1) eqn:Ea.
    { rewrite (all_eosed_mono n sub w1 x Ea), IH. apply wstep_closed. }
    destruct IH as [la [se [ms [Eph Hinv]]]]. rewrite Eph. rewrite forwarded_app.
    assert (Hat : all_true (eo_of n sub w1) = false) by now rewrite all_true_eo_of.
    (* inputs that are not EOSE/EVENT of this subscription leave everything alone *)
    assert (Hother : is_eose_in sub x = false ->
                     wstep sub (WOpen (eo_of n sub w1) la se ms) x = (WOpen (eo_of n sub w1) la se ms, None) ->
                     if all_eosed n sub (w1 ++ [x])
                     then fst (wstep sub (WOpen (eo_of n sub w1) la se ms) x) = WClosed
                     else exists la0 se0 ms0,
                         fst (wstep sub (WOpen (eo_of n sub w1) la se ms) x) = WOpen (eo_of n sub (w1 ++ [x])) la0 se0 ms0 /\
                         pre_inv fs la0 se0 ms0
                           (forwarded sub (snd (wrun sub (ph0 n fs) w1)) ++
                            forwarded sub [snd (wstep sub (WOpen (eo_of n sub w1) la se ms) x)])).
    { intros Hne Ew. rewrite (all_eosed_snoc_other n sub w1 x Hne), Ea, Ew, (eo_of_snoc_other n sub w1 x Hne).
      cbn [fst snd forwarded]. rewrite app_nil_r. now exists la, se, ms. }
    destruct x as [s fs'|s|id|s|i [s|s e|m|c|t|s p t]]; try (apply Hother; reflexivity).
    + (* EOSE *)
      destruct (str_eqb s sub) eqn:Es.
      2:{ apply Hother; cbn; rewrite ?Es; reflexivity. }
      apply str_eqb_eq in Es. subst s. cbn [input_ok] in Hx.
      cbn [wstep]. rewrite str_eqb_refl. cbn [w_eose]. rewrite Hat.
      rewrite (eo_of_snoc_eose n sub w1 i Hx), all_true_eo_of.
      destruct (all_eosed n sub (w1 ++ [Child i (SEose sub)])) eqn:Ea'; cbn [fst snd]; [reflexivity|].
      cbn [forwarded]. rewrite app_nil_r. now exists la, se, ms.
    + (* EVENT *)
      destruct (str_eqb s sub) eqn:Es.
      2:{ apply Hother; cbn; rewrite ?Es; reflexivity. }
      apply str_eqb_eq in Es. subst s. cbn [input_ok] in Hx. destruct Hx as [Hi Hne].
      rewrite (all_eosed_snoc_other n sub w1 (Child i (SEvent sub e)) eq_refl), Ea,
        (eo_of_snoc_other n sub w1 (Child i (SEvent sub e)) eq_refl).
      cbn [wstep]. rewrite str_eqb_refl. cbn [fst snd].
      assert (Hnth : nth_error (eo_of n sub w1) i <> None).
      { intro E. apply nth_error_None in E. rewrite eo_of_length in E. lia. }
      destruct (w_event_pre fs _ la se ms _ i e Hat Hnth Hinv) as [la' [se' [ms' [E' Hinv']]]].
      exists la', se', ms'. split; [exact E'|].
      destruct (snd (w_event (WOpen (eo_of n sub w1) la se ms) i e)); cbn [forwarded].
      * now rewrite str_eqb_refl.
      * now rewrite app_nil_r.
Qed.

(** the merged EOSE appears exactly at the step that completes the set *)
Lemma eose_step n sub fs w1 x :
  (1 <= n)%nat -> trace_ok n (w1 ++ [x]) ->
  is_eose_out sub (snd (wstep sub (fst (wrun sub (ph0 n fs) w1)) x)) =
  negb (all_eosed n sub w1) && all_eosed n sub (w1 ++ [x]).
Proof.
  intros Hn Ht. destruct (trace_ok_snoc _ _ _ Ht) as [Ht1 Hx].
  pose proof (window_inv n sub fs w1 Hn Ht1) as H1. unfold window_state in H1.
  destruct (all_eosed n sub w1) eqn:Ea; cbn [negb andb].
  - rewrite H1. destruct x as [| | | |i [s|s e| | | |]]; cbn; try reflexivity; destruct (str_eqb s sub); reflexivity.
  - destruct H1 as [la [se [ms [Eph _]]]]. rewrite Eph.
    assert (Hat : all_true (eo_of n sub w1) = false) by now rewrite all_true_eo_of.
    assert (Hother : is_eose_in sub x = false ->
                     is_eose_out sub (snd (wstep sub (WOpen (eo_of n sub w1) la se ms) x)) = false ->
                     is_eose_out sub (snd (wstep sub (WOpen (eo_of n sub w1) la se ms) x)) = all_eosed n sub (w1 ++ [x])).
    { intros Hne ->. now rewrite (all_eosed_snoc_other n sub w1 x Hne), Ea. }
    destruct x as [s fs'|s|id|s|i [s|s e|m|c|t|s p t]]; try (apply Hother; reflexivity).
    + destruct (str_eqb s sub) eqn:Es.
      2:{ apply Hother; cbn; rewrite ?Es; reflexivity. }
      apply str_eqb_eq in Es. subst s. cbn [input_ok] in Hx.
      cbn [wstep]. rewrite str_eqb_refl. cbn [w_eose]. rewrite Hat.
      rewrite (eo_of_snoc_eose n sub w1 i Hx), all_true_eo_of.
      destruct (all_eosed n sub (w1 ++ [Child i (SEose sub)])); cbn; [now rewrite str_eqb_refl | reflexivity].
    + destruct (str_eqb s sub) eqn:Es.
      2:{ apply Hother; cbn; rewrite ?Es; reflexivity. }
      apply Hother; [reflexivity|]. cbn [wstep]. rewrite Es. cbn [snd].
      destruct (snd (w_event _ i e)); reflexivity.
Qed.

(* ------------------------------------------------------------------ *)
(** * 8. C08 at the level of the model *)

Lemma is_eose_out_proj sub o : is_eose_out sub (proj_sub sub o) = is_eose_out sub o.
Proof.
  destruct o as [[s|s e|m|c|t|s p t]|]; cbn; try reflexivity.
  - destruct (str_eqb s sub) eqn:E; cbn; [exact E | reflexivity].
  - destruct (str_eqb s sub); reflexivity.
Qed.

Lemma forwarded_proj sub os : forwarded sub (List.map (proj_sub sub) os) = forwarded sub os.
Proof.
  induction os as [|[[s|s e|m|c|t|s p t]|] os IH]; cbn [List.map proj_sub forwarded]; try assumption; [reflexivity| |].
  - destruct (str_eqb s sub); cbn [forwarded]; assumption.
  - destruct (str_eqb s sub) eqn:E; cbn [forwarded]; [rewrite E; now rewrite IH | assumption].
Qed.

Lemma proj_sub_some sub o m : proj_sub sub o = Some m -> o = Some m.
Proof.
  destruct o as [[s|s e|m'|c|t|s p t]|]; cbn; try discriminate; destruct (str_eqb s sub); congruence.
Qed.

Lemma count_occ_b_map {A B} (f : A -> B) (p : B -> bool) l :
  count_occ_b p (List.map f l) = count_occ_b (fun x => p (f x)) l.
Proof. induction l as [|x l IH]; cbn; [reflexivity | now rewrite IH]. Qed.

Lemma count_occ_b_ext {A} (p q : A -> bool) l : (forall x, p x = q x) -> count_occ_b p l = count_occ_b q l.
Proof. intro H. induction l as [|x l IH]; cbn; [reflexivity | now rewrite H, IH]. Qed.

Lemma win_sim n s sub fs w :
  state_ok n s -> Forall filter_wf fs -> trace_ok n w -> no_reset sub w ->
  List.map (proj_sub sub) (win_outs s sub fs w) = snd (wrun sub (ph0 n fs) w).
Proof.
  intros Hs Hfs Ht Hn. unfold win_outs.
  assert (Hs1 : state_ok n (fst (merge_step s (CReq sub fs)))) by (apply step_ok; assumption).
  destruct (run_sim n sub w _ Hs1 Ht Hn) as [_ H]. rewrite H. now rewrite (phase_after_req n s sub fs Hs).
Qed.

Lemma wrun_length sub ph w : length (snd (wrun sub ph w)) = length w.
Proof. revert ph. induction w as [|x w IH]; intro ph; cbn; [reflexivity | now rewrite IH]. Qed.

Lemma wrun_eose_count n sub fs w :
  (1 <= n)%nat -> trace_ok n w ->
  count_occ_b (is_eose_out sub) (snd (wrun sub (ph0 n fs) w)) = if all_eosed n sub w then 1%nat else 0%nat.
Proof.
  intro Hn. induction w as [|x w IH] using rev_ind; intro Ht.
  - now rewrite (all_eosed_nil n sub Hn).
  - destruct (trace_ok_snoc _ _ _ Ht) as [Ht1 Hx]. rewrite wrun_snoc. cbn [snd].
    rewrite count_occ_b_app, (IH Ht1). cbn [count_occ_b].
    rewrite (eose_step n sub fs w x Hn Ht).
    destruct (all_eosed n sub w) eqn:Ea; cbn [negb andb].
    + now rewrite (all_eosed_mono n sub w x Ea).
    + destruct (all_eosed n sub (w ++ [x])); reflexivity.
Qed.

(** one merged EOSE per window if every child sent its own, none otherwise *)
Theorem eose_exactly_once n s sub fs w :
  (1 <= n)%nat -> state_ok n s -> Forall filter_wf fs -> trace_ok n w -> no_reset sub w ->
  count_occ_b (is_eose_out sub) (win_outs s sub fs w) = if all_eosed n sub w then 1%nat else 0%nat.
Proof.
  intros Hn Hs Hfs Ht Hnr.
  rewrite <- (wrun_eose_count n sub fs w Hn Ht), <- (win_sim n s sub fs w Hs Hfs Ht Hnr), count_occ_b_map.
  apply count_occ_b_ext. intro o. now rewrite is_eose_out_proj.
Qed.

Lemma nth_error_mid {A} (a : list A) x b : nth_error (a ++ x :: b) (length a) = Some x.
Proof. induction a as [|y a IH]; cbn; [reflexivity | exact IH]. Qed.

Lemma wrun_nth sub ph w1 x w2 :
  nth_error (snd (wrun sub ph (w1 ++ x :: w2))) (length w1) = Some (snd (wstep sub (fst (wrun sub ph w1)) x)).
Proof.
  rewrite wrun_app. cbn [snd wrun]. rewrite <- (wrun_length sub ph w1). apply nth_error_mid.
Qed.

Lemma no_reset_app sub a b : no_reset sub (a ++ b) -> no_reset sub a /\ no_reset sub b.
Proof. intro H. split; intros x Hx; apply H; apply in_or_app; auto. Qed.

Lemma trace_ok_app n a b : trace_ok n (a ++ b) -> trace_ok n a /\ trace_ok n b.
Proof. intro H. now apply Forall_app in H. Qed.

Lemma trace_ok_mid n a x b : trace_ok n (a ++ x :: b) -> trace_ok n (a ++ [x]).
Proof.
  intro H. apply Forall_app in H as [H1 H2]. inversion H2; subst.
  apply Forall_app. split; [assumption | now constructor].
Qed.

(** the step at which the merged EOSE is output is the step at which the
    set of children that have sent EOSE becomes complete — not earlier, and
    (with [eose_exactly_once]) not again *)
Theorem eose_at n s sub fs w1 x w2 :
  (1 <= n)%nat -> state_ok n s -> Forall filter_wf fs ->
  trace_ok n (w1 ++ x :: w2) -> no_reset sub (w1 ++ x :: w2) ->
  exists o, nth_error (win_outs s sub fs (w1 ++ x :: w2)) (length w1) = Some o /\
            is_eose_out sub o = negb (all_eosed n sub w1) && all_eosed n sub (w1 ++ [x]).
Proof.
  intros Hn Hs Hfs Ht Hnr.
  pose proof (win_sim n s sub fs _ Hs Hfs Ht Hnr) as H.
  pose proof (wrun_nth sub (ph0 n fs) w1 x w2) as Hw. rewrite <- H in Hw.
  rewrite nth_error_map in Hw.
  destruct (nth_error (win_outs s sub fs (w1 ++ x :: w2)) (length w1)) as [o|]; [|discriminate].
  exists o. split; [reflexivity|]. cbn in Hw. inversion Hw as [Hw'].
  rewrite <- is_eose_out_proj, Hw'. apply eose_step; [assumption | eapply trace_ok_mid; eauto].
Qed.

Theorem eose_not_early n s sub fs w1 x w2 o :
  (1 <= n)%nat -> state_ok n s -> Forall filter_wf fs ->
  trace_ok n (w1 ++ x :: w2) -> no_reset sub (w1 ++ x :: w2) ->
  nth_error (win_outs s sub fs (w1 ++ x :: w2)) (length w1) = Some o -> is_eose_out sub o = true ->
  (forall i, (i < n)%nat -> eosed sub (w1 ++ [x]) i = true) /\ all_eosed n sub w1 = false.
Proof.
  intros Hn Hs Hfs Ht Hnr Ho He.
  destruct (eose_at n s sub fs w1 x w2 Hn Hs Hfs Ht Hnr) as [o' [Ho' E]].
  rewrite Ho in Ho'. inversion Ho'; subst o'. rewrite He in E. symmetry in E.
  apply andb_true_iff in E as [E1 E2]. apply negb_true_iff in E1. split; [|exact E1].
  intros i Hi. unfold all_eosed in E2. rewrite forallb_forall in E2. apply E2. apply in_seq. lia.
Qed.

(** a closed subscription stays closed and silent until the next REQ for it *)
Lemma closed_step n sub s x :
  state_ok n s -> input_ok n x -> is_req_of sub x = false ->
  rs_phase (st_rs s) sub = WClosed ->
  rs_phase (st_rs (fst (merge_step s x))) sub = WClosed /\ is_eose_out sub (snd (merge_step s x)) = false.
Proof.
  intros Hs Hx Hnr Hc. destruct (is_close_of sub x) eqn:Ecl.
  - destruct x as [| s' | | |]; try discriminate. cbn in Ecl. apply str_eqb_eq in Ecl. subst s'.
    destruct Hs as [Hd _]. unfold merge_step. rewrite Hd. cbn [fst snd with_rs st_rs]. split; [|reflexivity].
    unfold rs_phase. now rewrite rs_view_clear, str_dec_refl.
  - destruct (step_sim n sub s x Hs Hx Hnr Ecl) as [P O]. rewrite Hc in P, O. split.
    + rewrite P. apply wstep_closed.
    + rewrite <- is_eose_out_proj, O.
      destruct x as [| | | |i [s'|s' e| | | |]]; cbn; try reflexivity; destruct (str_eqb s' sub); reflexivity.
Qed.

Definition no_req (sub : str) (w : list input) : Prop := forall x, In x w -> is_req_of sub x = false.

Lemma closed_run n sub w : forall s,
  state_ok n s -> trace_ok n w -> no_req sub w -> rs_phase (st_rs s) sub = WClosed ->
  count_occ_b (is_eose_out sub) (outs s w) = 0%nat.
Proof.
  induction w as [|x w IH]; intros s Hs Ht Hn Hc; [reflexivity|].
  inversion Ht as [|? ? Hx Ht']; subst.
  destruct (closed_step n sub s x Hs Hx (Hn x (or_introl eq_refl)) Hc) as [P O].
  unfold outs. rewrite exec_cons. cbn [snd count_occ_b]. rewrite O.
  apply IH; [now apply step_ok | assumption | intros y Hy; apply Hn; now right | assumption].
Qed.

(** no merged EOSE after the client closed the subscription (whatever the
    children still send), until the id is used by a new REQ *)
Theorem eose_none_after_close n s sub w :
  state_ok n s -> trace_ok n w -> no_req sub w ->
  count_occ_b (is_eose_out sub) (outs (fst (merge_step s (CClose sub))) w) = 0%nat.
Proof.
  intros Hs Ht Hn. apply (closed_run n sub w); try assumption.
  - now apply step_ok.
  - destruct Hs as [Hd _]. unfold merge_step. rewrite Hd. cbn [fst with_rs st_rs].
    unfold rs_phase. now rewrite rs_view_clear, str_dec_refl.
Qed.

(** nor before the first REQ *)
Theorem eose_none_before_req n sub w :
  trace_ok n w -> no_req sub w -> count_occ_b (is_eose_out sub) (outs (init n) w) = 0%nat.
Proof. intros Ht Hn. apply (closed_run n sub w); try assumption; [apply init_ok | reflexivity]. Qed.

(** everything forwarded while some child has not sent EOSE *)
Lemma pre_eose_inv n s sub fs w :
  (1 <= n)%nat -> state_ok n s -> Forall filter_wf fs -> trace_ok n w -> no_reset sub w ->
  all_eosed n sub w = false ->
  exists la se ms, pre_inv fs la se ms (forwarded sub (win_outs s sub fs w)).
Proof.
  intros Hn Hs Hfs Ht Hnr Ha.
  pose proof (window_inv n sub fs w Hn Ht) as H. unfold window_state in H. rewrite Ha in H.
  destruct H as [la [se [ms [_ H]]]]. exists la, se, ms.
  now rewrite <- forwarded_proj, (win_sim n s sub fs w Hs Hfs Ht Hnr).
Qed.

Theorem pre_eose_match n s sub fs w :
  (1 <= n)%nat -> state_ok n s -> Forall filter_wf fs -> trace_ok n w -> no_reset sub w ->
  all_eosed n sub w = false ->
  forall e, In e (forwarded sub (win_outs s sub fs w)) -> matches_spec e fs.
Proof.
  intros Hn Hs Hfs Ht Hnr Ha e He.
  destruct (pre_eose_inv n s sub fs w Hn Hs Hfs Ht Hnr Ha) as [la [se [ms [_ [H _]]]]].
  rewrite Forall_forall in H. apply matches_specb_spec. now apply H.
Qed.

Theorem pre_eose_distinct n s sub fs w :
  (1 <= n)%nat -> state_ok n s -> Forall filter_wf fs -> trace_ok n w -> no_reset sub w ->
  all_eosed n sub w = false ->
  NoDup (List.map ev_key (forwarded sub (win_outs s sub fs w))).
Proof.
  intros Hn Hs Hfs Ht Hnr Ha.
  destruct (pre_eose_inv n s sub fs w Hn Hs Hfs Ht Hnr Ha) as [la [se [ms [_ [_ [H _]]]]]]. exact H.
Qed.

(** when an id determines its event (what the admission gate guarantees:
    the id is the hash of the content), distinct means distinct ids *)
Corollary pre_eose_distinct_ids n s sub fs w :
  (1 <= n)%nat -> state_ok n s -> Forall filter_wf fs -> trace_ok n w -> no_reset sub w ->
  all_eosed n sub w = false ->
  (forall e1 e2, In e1 (forwarded sub (win_outs s sub fs w)) -> In e2 (forwarded sub (win_outs s sub fs w)) ->
                 ev_id e1 = ev_id e2 -> ev_ts e1 = ev_ts e2) ->
  NoDup (List.map ev_id (forwarded sub (win_outs s sub fs w))).
Proof.
  intros Hn Hs Hfs Ht Hnr Ha Hfun.
  pose proof (pre_eose_distinct n s sub fs w Hn Hs Hfs Ht Hnr Ha) as H.
  remember (forwarded sub (win_outs s sub fs w)) as l eqn:El. clear El.
  induction l as [|a l IH]; cbn in *; [constructor|].
  inversion H as [|? ? Hnin Hnd]; subst. constructor.
  - intro Hin. apply in_map_iff in Hin as [b [Eb Hb]]. apply Hnin. apply in_map_iff. exists b. split; [|assumption].
    unfold ev_key. f_equal; [|assumption]. apply Hfun; [now right | now left | assumption].
  - apply IH; [|assumption]. intros e1 e2 H1 H2. apply Hfun; now right.
Qed.

Theorem pre_eose_sorted n s sub fs w :
  (1 <= n)%nat -> state_ok n s -> Forall filter_wf fs -> trace_ok n w -> no_reset sub w ->
  all_eosed n sub w = false ->
  ts_noninc (forwarded sub (win_outs s sub fs w)).
Proof.
  intros Hn Hs Hfs Ht Hnr Ha.
  destruct (pre_eose_inv n s sub fs w Hn Hs Hfs Ht Hnr Ha) as [la [se [ms [_ [_ [_ [H _]]]]]]]. exact H.
Qed.

Theorem pre_eose_limit_single n s sub f l w :
  (1 <= n)%nat -> state_ok n s -> filter_wf f -> trace_ok n w -> no_reset sub w ->
  all_eosed n sub w = false -> f_limit f = Some l ->
  Z.of_nat (length (forwarded sub (win_outs s sub [f] w))) <= Z.max 0 l.
Proof.
  intros Hn Hs Hf Ht Hnr Ha Hl.
  assert (Hfs : Forall filter_wf [f]) by (constructor; [assumption | constructor]).
  destruct (pre_eose_inv n s sub [f] w Hn Hs Hfs Ht Hnr Ha) as [la [se [ms [Hm [_ [_ [_ [_ H]]]]]]]].
  destruct ms as [|m [|m2 ms2]]; cbn in Hm; try discriminate.
  assert (Em : lm_f m = f) by (now inversion Hm).
  destruct (H m eq_refl) as [_ H2]. apply H2. now rewrite Em.
Qed.

(** after the merged EOSE every event a child emits for the subscription is
    forwarded unchanged, at its own step — so each child's order is kept *)
Theorem post_eose_passthrough n s sub fs w1 i e w2 :
  (1 <= n)%nat -> state_ok n s -> Forall filter_wf fs ->
  trace_ok n (w1 ++ Child i (SEvent sub e) :: w2) -> no_reset sub (w1 ++ Child i (SEvent sub e) :: w2) ->
  all_eosed n sub w1 = true ->
  nth_error (win_outs s sub fs (w1 ++ Child i (SEvent sub e) :: w2)) (length w1) = Some (Some (SEvent sub e)).
Proof.
  intros Hn Hs Hfs Ht Hnr Ha.
  pose proof (win_sim n s sub fs _ Hs Hfs Ht Hnr) as H.
  pose proof (wrun_nth sub (ph0 n fs) w1 (Child i (SEvent sub e)) w2) as Hw. rewrite <- H in Hw.
  rewrite nth_error_map in Hw.
  destruct (nth_error (win_outs s sub fs _) (length w1)) as [o|]; [|discriminate].
  cbn [option_map] in Hw. inversion Hw as [Hw']. f_equal.
  apply (proj_sub_some sub). rewrite Hw'.
  destruct (trace_ok_app _ _ _ Ht) as [Ht1 _].
  pose proof (window_inv n sub fs w1 Hn Ht1) as Hi. unfold window_state in Hi. rewrite Ha in Hi. rewrite Hi.
  cbn. now rewrite str_eqb_refl.
Qed.

(** whatever is forwarded is the child's message itself; client messages
    produce nothing on the client side *)
Theorem subid_preserved s x o :
  snd (merge_step s x) = Some o ->
  exists i m, x = Child i m /\
    match m with
    | SOk _ => exists r, o = SOk r
    | SCount _ => exists r, o = SCount r
    | _ => o = m
    end.
Proof.
  unfold merge_step. destruct (st_dead s); [discriminate|].
  destruct x as [| | | |i m]; cbn [snd]; try discriminate.
  intro H. exists i, m. split; [reflexivity|].
  destruct m as [sub|sub e|m|c|t|sub p t].
  - unfold send_eose in H. destruct (rs_all_eose (st_rs s) sub) as [r1 a1].
    destruct (h_eose_already a1); [discriminate|].
    destruct (rs_set_eose r1 sub i) as [r2|]; [|discriminate].
    destruct (rs_all_eose r2 sub) as [r3 a2]. destruct (h_eose_incomplete a2); cbn in H; congruence.
  - unfold send_event in H. destruct (rs_is_sendable (st_rs s) i sub e) as [[r' b]|]; [|discriminate].
    destruct (h_event_unsendable b); cbn in H; congruence.
  - unfold send_ok in H. destruct (os_set_msg (st_os s) i m) as [o1|]; [|discriminate].
    destruct (h_ok_not_ready _); [discriminate|]. destruct (os_msg o1 (ok_id m)) as [r|]; [|discriminate].
    exists r. cbn in H. congruence.
  - unfold send_count in H. destruct (cs_set_msg (st_cs s) i c) as [c1|]; [|discriminate].
    destruct (h_count_not_ready _); [discriminate|]. destruct (cs_msg c1 (c_sub c)) as [r|]; [|discriminate].
    exists r. cbn in H. congruence.
  - cbn in H. congruence.
  - cbn in H. congruence.
Qed.

(* ------------------------------------------------------------------ *)
(** * 9. C09: one EVENT window *)

Definition is_ok_in (id : str) (x : input) : bool :=
  match x with Child _ (SOk m) => str_eqb (ok_id m) id | _ => false end.

Lemma latest_ok_snoc id i w x : forall acc,
  latest_ok id i (w ++ [x]) acc =
  match x with
  | Child j (SOk m) => if Nat.eqb j i && str_eqb (ok_id m) id then Some m else latest_ok id i w acc
  | _ => latest_ok id i w acc
  end.
Proof.
  induction w as [|y w IH]; intro acc.
  - cbn. destruct x as [| | | |j [| |m| | |]]; reflexivity.
  - cbn [app latest_ok]. destruct y as [| | | |j' [| |m'| | |]]; try apply IH.
    destruct (Nat.eqb j' i && str_eqb (ok_id m') id); apply IH.
Qed.

Lemma latest_ok_key id i w : forall acc a,
  latest_ok id i w acc = Some a -> acc = Some a \/ ok_id a = id.
Proof.
  induction w as [|y w IH]; intros acc a H; [now left|].
  cbn [latest_ok] in H. destruct y as [| | | |j [| |m| | |]]; try (now apply IH).
  destruct (Nat.eqb j i && str_eqb (ok_id m) id) eqn:E; [|now apply IH].
  destruct (IH _ _ H) as [E1|E1]; [|now right]. inversion E1; subst. right.
  apply andb_true_iff in E as [_ E]. now apply str_eqb_eq in E.
Qed.

Lemma ok_replies_snoc_other n id w x : is_ok_in id x = false -> ok_replies n id (w ++ [x]) = ok_replies n id w.
Proof.
  intro H. unfold ok_replies. apply map_ext. intro i. rewrite latest_ok_snoc.
  destruct x as [| | | |j [| |m| | |]]; try reflexivity. cbn in H. rewrite H, andb_false_r. reflexivity.
Qed.

Lemma ok_replies_snoc_ok n w j m :
  (j < n)%nat ->
  upd_nth j (Some m) (ok_replies n (ok_id m) w) = Some (ok_replies n (ok_id m) (w ++ [Child j (SOk m)])).
Proof.
  intro Hj. unfold ok_replies. rewrite upd_nth_map_seq by assumption. f_equal.
  apply map_ext. intro i. rewrite latest_ok_snoc, str_eqb_refl, andb_true_r. cbn [Nat.add].
  rewrite (Nat.eqb_sym j i). reflexivity.
Qed.

Lemma ok_replies_nil n id : ok_replies n id [] = repeat None n.
Proof.
  unfold ok_replies. cbn [latest_ok]. generalize 0%nat.
  induction n as [|n IH]; intro a; cbn; [reflexivity | now rewrite IH].
Qed.

Lemma all_replied_nil n id : (1 <= n)%nat -> all_replied n id [] = false.
Proof. intro H. unfold all_replied. rewrite ok_replies_nil. destruct n; [lia | reflexivity]. Qed.

Lemma ok_replies_length n id w : length (ok_replies n id w) = n.
Proof. unfold ok_replies. now rewrite map_length, seq_length. Qed.

Lemma latest_ok_mono id i w x acc : latest_ok id i w acc <> None -> latest_ok id i (w ++ [x]) acc <> None.
Proof.
  intro H. rewrite latest_ok_snoc. destruct x as [| | | |j [| |m| | |]]; try assumption.
  destruct (Nat.eqb j i && str_eqb (ok_id m) id); [discriminate | assumption].
Qed.

Lemma existsb_isNone_map {A} (f : nat -> option A) l :
  existsb isNone (List.map f l) = false <-> forall i, In i l -> f i <> None.
Proof.
  induction l as [|a l IH]; cbn; [split; [intros _ i [] | reflexivity]|].
  rewrite orb_false_iff, IH. split.
  - intros [H1 H2] i [<-|Hi]; [destruct (f a); [discriminate | discriminate] | now apply H2].
  - intro H. split; [|intros i Hi; apply H; now right].
    specialize (H a (or_introl eq_refl)). destruct (f a); [reflexivity | congruence].
Qed.

Lemma all_replied_mono n id w x : all_replied n id w = true -> all_replied n id (w ++ [x]) = true.
Proof.
  unfold all_replied, ok_replies. rewrite !negb_true_iff, !existsb_isNone_map.
  intros H i Hi. apply latest_ok_mono. now apply H.
Qed.

Lemma all_replied_snoc_other n id w x : is_ok_in id x = false -> all_replied n id (w ++ [x]) = all_replied n id w.
Proof. intro H. unfold all_replied. now rewrite ok_replies_snoc_other. Qed.

(** the merged reply carries the key its slot vector is stored under *)
Lemma ok_merge_key k l r :
  ok_merge l = Some r -> (forall a, In (Some a) l -> ok_id a = k) -> ok_id r = k.
Proof.
  unfold ok_merge. intros H Hk.
  assert (P : forall l oks ngs, ok_partition l = Some (oks, ngs) ->
              forall a, In a oks \/ In a ngs -> In (Some a) l).
  { clear. induction l as [|[x|] l IH]; cbn; intros oks ngs H a Ha; try discriminate.
    - inversion H; subst. destruct Ha as [[]|[]].
    - destruct (ok_partition l) as [[oks' ngs']|]; [|discriminate].
      destruct (h_ok_is_accepted (ok_acc x)); inversion H; subst.
      + destruct Ha as [[<-|Ha]|Ha]; [now left | right; eapply IH; eauto | right; eapply IH; eauto].
      + destruct Ha as [Ha|[<-|Ha]]; [right; eapply IH; eauto | now left | right; eapply IH; eauto]. }
  destruct (ok_partition l) as [[oks ngs]|] eqn:Ep; [|discriminate].
  destruct (h_ok_any_rejected (zlen ngs)).
  - destruct ngs as [|m0 ngs]; [discriminate|]. inversion H; subst. cbn. apply Hk.
    apply (P l oks (m0 :: ngs) Ep). right. now left.
  - destruct oks as [|m0 oks]; [discriminate|]. inversion H; subst. cbn. apply Hk.
    apply (P l (m0 :: oks) ngs Ep). left. now left.
Qed.

Lemma w_put_full_In {A} (v : option (list (option A))) i a l' b :
  snd (w_put v i a) = Some l' -> In (Some b) l' -> b = a \/ In (Some b) (vlist v).
Proof.
  unfold w_put. destruct v as [[|x l]|]; cbn [snd]; try discriminate.
  destruct (upd_nth i (Some a) (x :: l)) as [l2|] eqn:Eu; [|discriminate].
  destruct (existsb isNone l2); cbn [snd]; [discriminate|]. intros H Hin. inversion H; subst.
  destruct (upd_nth_In _ _ _ _ _ Eu Hin) as [E|Hi]; [left; now inversion E | right; exact Hi].
Qed.

(** inputs that are neither EVENT [id] nor an OK for [id] leave [id]'s slots
    alone and produce no OK for [id] *)
Lemma os_frame n s x id :
  state_ok n s -> input_ok n x -> is_cevent_of id x = false -> is_ok_in id x = false ->
  assoc id (os_s (st_os (fst (merge_step s x)))) = assoc id (os_s (st_os s)) /\
  is_ok_out id (snd (merge_step s x)) = false.
Proof.
  intros [Hd [Hr [Ho Hc]]] Hx Hce Hok. unfold merge_step. rewrite Hd.
  destruct x as [s' fs|s'|id'|s'|i m]; cbn [fst snd with_rs with_os with_cs st_os]; try (split; reflexivity).
  - cbn in Hce. apply str_eqb_neq in Hce. split; [|reflexivity].
    unfold os_try_set. destruct (h_ok_has_slot _); [reflexivity|]. cbn [os_s]. now apply assoc_m_set_other.
  - destruct m as [s'|s' e|m|c|t|s' p t]; cbn [input_ok] in Hx.
    + destruct (send_eose_spec n s i s' Hr Hx) as [r' [E _]]. rewrite E. split; [reflexivity|].
      cbn [snd]. destruct (snd (w_eose _ i)); reflexivity.
    + destruct Hx as [Hi Hne]. destruct (send_event_spec n s i s' e Hr Hi Hne) as [r' [E _]]. rewrite E.
      split; [reflexivity|]. cbn [snd]. destruct (snd (w_event _ i e)); reflexivity.
    + cbn in Hok. apply str_eqb_neq in Hok.
      destruct (send_ok_spec n s i m Ho Hx) as [o' [E [Ho' [Hf [Hs' Hfull]]]]]. rewrite E. cbn [fst snd with_os st_os].
      split; [apply Hf; congruence|].
      unfold out_ok. destruct (snd (w_put _ i m)) as [l'|] eqn:Ew; [|reflexivity].
      destruct (ok_merge l') as [r|] eqn:Em; [|reflexivity]. cbn [option_map is_ok_out].
      apply str_eqb_neq. intro Er. apply Hok. rewrite <- Er. symmetry.
      apply (ok_merge_key (ok_id m) l' r Em). intros a Ha.
      destruct (w_put_full_In _ _ _ _ _ Ew Ha) as [->|Hin]; [reflexivity|].
      destruct (assoc (ok_id m) (os_s (st_os s))) as [l|] eqn:Ea; [|destruct Hin].
      apply (proj2 (proj2 Ho _ _ Ea)). exact Hin.
    + destruct (send_count_spec n s i c Hc Hx) as [c' [E _]]. rewrite E. split; [reflexivity|].
      cbn [snd]. unfold out_cnt. destruct (snd (w_put _ i c)); [|reflexivity]. destruct (cnt_merge _); reflexivity.
    + split; reflexivity.
    + split; reflexivity.
Qed.

Lemma no_cevent_snoc id w x : no_cevent id (w ++ [x]) -> no_cevent id w /\ is_cevent_of id x = false.
Proof.
  intro H. split; [intros y Hy; apply H; apply in_or_app; now left | apply H; apply in_or_app; right; now left].
Qed.

Lemma final_snoc s w x : final s (w ++ [x]) = fst (merge_step (final s w) x).
Proof. unfold final. rewrite exec_app. cbn [fst exec]. destruct (merge_step _ x); reflexivity. Qed.

Lemma outs_snoc s w x : outs s (w ++ [x]) = outs s w ++ [snd (merge_step (final s w) x)].
Proof. unfold outs, final. rewrite exec_app. cbn [snd exec]. destruct (merge_step _ x); reflexivity. Qed.

(** the slot vector of [id] along an EVENT window, and the output of each step *)
Lemma ok_window_inv n id s1 w :
  (1 <= n)%nat -> state_ok n s1 -> assoc id (os_s (st_os s1)) = Some (repeat None n) ->
  trace_ok n w -> no_cevent id w ->
  assoc id (os_s (st_os (final s1 w))) = if all_replied n id w then None else Some (ok_replies n id w).
Proof.
  intros Hn Hs1 H0. induction w as [|x w IH] using rev_ind; intros Ht Hnc.
  - rewrite (all_replied_nil n id Hn), ok_replies_nil. exact H0.
  - destruct (trace_ok_snoc _ _ _ Ht) as [Ht1 Hx]. destruct (no_cevent_snoc _ _ _ Hnc) as [Hnc1 Hcx].
    specialize (IH Ht1 Hnc1). rewrite final_snoc.
    assert (Hs : state_ok n (final s1 w)) by now apply exec_ok.
    destruct (is_ok_in id x) eqn:Eok.
    2:{ destruct (os_frame n _ x id Hs Hx Hcx Eok) as [F _]. rewrite F, IH.
        now rewrite (all_replied_snoc_other n id w x Eok), (ok_replies_snoc_other n id w x Eok). }
    destruct x as [| | | |j [| |m| | |]]; try discriminate. cbn in Eok. apply str_eqb_eq in Eok. subst id.
    cbn [input_ok] in Hx. destruct Hs as [Hd [Hr [Ho Hc]]].
    destruct (send_ok_spec n (final s1 w) j m Ho Hx) as [o' [E [Ho' [Hf [Hs' Hfull]]]]].
    unfold merge_step. rewrite Hd, E. cbn [fst with_os st_os]. rewrite Hs', IH.
    destruct (all_replied n (ok_id m) w) eqn:Ea.
    + now rewrite (all_replied_mono n (ok_id m) w _ Ea).
    + unfold w_put.
      assert (Hne : ok_replies n (ok_id m) w <> []).
      { intro E0. pose proof (ok_replies_length n (ok_id m) w) as L. rewrite E0 in L. cbn in L. lia. }
      destruct (ok_replies n (ok_id m) w) as [|y l] eqn:El; [congruence|]. rewrite <- El.
      rewrite (ok_replies_snoc_ok n w j m Hx). unfold all_replied.
      destruct (existsb isNone (ok_replies n (ok_id m) (w ++ [Child j (SOk m)]))); reflexivity.
Qed.

Lemma ok_window_out n id s1 w x :
  (1 <= n)%nat -> state_ok n s1 -> assoc id (os_s (st_os s1)) = Some (repeat None n) ->
  trace_ok n (w ++ [x]) -> no_cevent id (w ++ [x]) ->
  if negb (all_replied n id w) && all_replied n id (w ++ [x])
  then exists r, snd (merge_step (final s1 w) x) = Some (SOk r) /\ ok_id r = id /\
                 ok_merge (ok_replies n id (w ++ [x])) = Some r
  else is_ok_out id (snd (merge_step (final s1 w) x)) = false.
Proof.
  intros Hn Hs1 H0 Ht Hnc.
  destruct (trace_ok_snoc _ _ _ Ht) as [Ht1 Hx]. destruct (no_cevent_snoc _ _ _ Hnc) as [Hnc1 Hcx].
  pose proof (ok_window_inv n id s1 w Hn Hs1 H0 Ht1 Hnc1) as Hinv.
  assert (Hs : state_ok n (final s1 w)) by now apply exec_ok.
  destruct (is_ok_in id x) eqn:Eok.
  2:{ destruct (os_frame n _ x id Hs Hx Hcx Eok) as [_ O].
      rewrite (all_replied_snoc_other n id w x Eok). now rewrite andb_negb_l. }
  destruct x as [| | | |j [| |m| | |]]; try discriminate. cbn in Eok. apply str_eqb_eq in Eok. subst id.
  cbn [input_ok] in Hx. destruct Hs as [Hd [Hr [Ho Hc]]].
  destruct (send_ok_spec n (final s1 w) j m Ho Hx) as [o' [E [Ho' [Hf [Hs' Hfull]]]]].
  unfold merge_step. rewrite Hd, E. cbn [snd]. rewrite Hinv in *.
  destruct (all_replied n (ok_id m) w) eqn:Ea; cbn [negb andb].
  - reflexivity.
  - assert (Hne : ok_replies n (ok_id m) w <> []).
    { intro E0. pose proof (ok_replies_length n (ok_id m) w) as L. rewrite E0 in L. cbn in L. lia. }
    assert (W : w_put (Some (ok_replies n (ok_id m) w)) j m =
                if existsb isNone (ok_replies n (ok_id m) (w ++ [Child j (SOk m)]))
                then (Some (ok_replies n (ok_id m) (w ++ [Child j (SOk m)])), None)
                else (None, Some (ok_replies n (ok_id m) (w ++ [Child j (SOk m)])))).
    { unfold w_put. destruct (ok_replies n (ok_id m) w) as [|y l] eqn:El; [congruence|]. rewrite <- El.
      now rewrite (ok_replies_snoc_ok n w j m Hx). }
    rewrite W in *. unfold all_replied.
    destruct (existsb isNone (ok_replies n (ok_id m) (w ++ [Child j (SOk m)]))) eqn:Ex; cbn [negb snd out_ok] in *.
    + reflexivity.
    + destruct (Hfull _ eq_refl) as [r Er]. rewrite Er. cbn [option_map]. exists r. split; [reflexivity|].
      split; [|reflexivity]. apply (ok_merge_key (ok_id m) _ r Er).
      intros a Ha. unfold ok_replies in Ha. apply in_map_iff in Ha as [i [Hl _]].
      destruct (latest_ok_key _ _ _ _ _ Hl) as [Hk|Hk]; [discriminate | exact Hk].
Qed.

Lemma filter_first {A} (p : A -> bool) l x rest :
  filter p l = x :: rest ->
  exists before after, l = before ++ x :: after /\ (forall b, In b before -> p b = false) /\ p x = true.
Proof.
  induction l as [|a l IH]; cbn; [discriminate|].
  destruct (p a) eqn:E.
  - intro H. inversion H; subst. exists [], l. repeat split; auto. intros b [].
  - intro H. destruct (IH H) as [before [after [-> [Hb Hx]]]].
    exists (a :: before), after. repeat split; auto. intros b [<-|Hin]; auto.
Qed.

Lemma filter_nil_all {A} (p : A -> bool) l : filter p l = [] -> forall x, In x l -> p x = false.
Proof.
  induction l as [|a l IH]; cbn; [intros _ x []|].
  destruct (p a) eqn:E; [discriminate|]. intros H x [<-|Hin]; auto.
Qed.

(** the merged OK is what the property asks for *)
Lemma ok_merge_verdict id xs r :
  ok_merge (List.map Some xs) = Some r -> (forall a, In a xs -> ok_id a = id) -> ok_verdict_spec id xs r.
Proof.
  unfold ok_merge. rewrite ok_partition_some, g_ok_any_rejected_spec. intros H Hk.
  destruct (filter (fun m => negb (ok_acc m)) xs) as [|ng ngs] eqn:En; cbn [negb] in H.
  - pose proof (filter_nil_all _ _ En) as Hall. rewrite (filter_all_false _ _ En) in H.
    destruct xs as [|m0 xs']; [discriminate|]. cbn in H. inversion H; subst r. clear H.
    assert (Hacc : forall x, In x (m0 :: xs') -> ok_acc x = true).
    { intros x Hx. specialize (Hall x Hx). now apply negb_false_iff in Hall. }
    unfold ok_verdict_spec. cbn [ok_id ok_acc]. split; [apply Hk; now left|]. split.
    + split; [intros _; exact Hacc | intros _; apply Hacc; now left].
    + intro Hf. rewrite (Hacc m0 (or_introl eq_refl)) in Hf. discriminate.
  - cbn in H. inversion H; subst r. clear H.
    destruct (filter_first _ _ _ _ En) as [before [after [Exs [Hb Hng]]]].
    apply negb_true_iff in Hng.
    unfold ok_verdict_spec. cbn [ok_id ok_acc]. split; [apply Hk; rewrite Exs; apply in_or_app; right; now left|].
    split.
    + rewrite Hng. split; [discriminate|]. intro Hall.
      rewrite <- (Hall ng), Hng; [reflexivity|]. rewrite Exs. apply in_or_app. right. now left.
    + intros _. exists before, ng, after, (concat (List.map ok_message ngs)). split; [exact Exs|]. split.
      * intros b Hin. specialize (Hb b Hin). now apply negb_false_iff in Hb.
      * split; [exact Hng | reflexivity].
Qed.

Lemma after_cevent n s id :
  state_ok n s -> assoc id (os_s (st_os s)) = None ->
  state_ok n (fst (merge_step s (CEvent id))) /\
  assoc id (os_s (st_os (fst (merge_step s (CEvent id))))) = Some (repeat None n).
Proof.
  intros Hs H0. split; [apply step_ok; [assumption | exact I]|].
  destruct Hs as [Hd [_ [[Hn _] _]]]. unfold merge_step. rewrite Hd. cbn [fst with_os st_os].
  unfold os_try_set. rewrite H0. cbn [vlist]. rewrite g_ok_has_slot_spec. cbn [negb os_s].
  now rewrite assoc_m_set_same, Hn.
Qed.

Lemma outs_nth s w1 x w2 :
  nth_error (outs s (w1 ++ x :: w2)) (length w1) = Some (snd (merge_step (final s w1) x)).
Proof.
  unfold outs, final. rewrite exec_app. cbn [snd]. rewrite exec_cons. cbn [snd].
  rewrite <- (outs_length s w1). apply nth_error_mid.
Qed.

(** every EVENT is answered by exactly one OK carrying its id, once every
    child has replied; none before *)
Theorem ok_exactly_one n s id w :
  (1 <= n)%nat -> state_ok n s -> assoc id (os_s (st_os s)) = None ->
  trace_ok n w -> no_cevent id w ->
  count_occ_b (is_ok_out id) (evt_outs s id w) = if all_replied n id w then 1%nat else 0%nat.
Proof.
  intros Hn Hs H0. destruct (after_cevent n s id Hs H0) as [Hs1 H1]. unfold evt_outs.
  set (s1 := fst (merge_step s (CEvent id))) in *.
  induction w as [|x w IH] using rev_ind; intros Ht Hnc.
  - now rewrite (all_replied_nil n id Hn).
  - destruct (trace_ok_snoc _ _ _ Ht) as [Ht1 Hx]. destruct (no_cevent_snoc _ _ _ Hnc) as [Hnc1 Hcx].
    rewrite outs_snoc, count_occ_b_app, (IH Ht1 Hnc1). cbn [count_occ_b].
    pose proof (ok_window_out n id s1 w x Hn Hs1 H1 Ht Hnc) as Ho.
    destruct (all_replied n id w) eqn:Ea; cbn [negb andb] in Ho.
    + rewrite Ho, (all_replied_mono n id w x Ea). reflexivity.
    + destruct (all_replied n id (w ++ [x])).
      * destruct Ho as [r [-> [Er _]]]. cbn [is_ok_out]. now rewrite Er, str_eqb_refl.
      * now rewrite Ho.
Qed.

Lemma no_cevent_mid id a x b : no_cevent id (a ++ x :: b) -> no_cevent id (a ++ [x]).
Proof.
  intros H y Hy. apply H. apply in_app_or in Hy as [Hy|[<-|[]]]; apply in_or_app; [now left | right; now left].
Qed.

(** the OK is output at the step of the last child's reply; it is built from
    the children's (latest) replies in child order: accepting iff every
    child accepted, and a rejecting one begins with the text of the
    lowest-numbered rejecting child *)
Theorem ok_verdict n s id w1 x w2 r :
  (1 <= n)%nat -> state_ok n s -> assoc id (os_s (st_os s)) = None ->
  trace_ok n (w1 ++ x :: w2) -> no_cevent id (w1 ++ x :: w2) ->
  nth_error (evt_outs s id (w1 ++ x :: w2)) (length w1) = Some (Some (SOk r)) -> ok_id r = id ->
  all_replied n id w1 = false /\
  exists replies, ok_replies n id (w1 ++ [x]) = List.map Some replies /\ length replies = n /\
                  ok_verdict_spec id replies r.
Proof.
  intros Hn Hs H0 Ht Hnc Hnth Hid. destruct (after_cevent n s id Hs H0) as [Hs1 H1].
  unfold evt_outs in Hnth. rewrite outs_nth in Hnth. inversion Hnth as [Hout]. clear Hnth.
  pose proof (ok_window_out n id _ w1 x Hn Hs1 H1 (trace_ok_mid _ _ _ _ Ht) (no_cevent_mid _ _ _ _ Hnc)) as Ho.
  destruct (all_replied n id w1) eqn:Ea; cbn [negb andb] in Ho.
  { rewrite Hout in Ho. cbn in Ho. rewrite Hid, str_eqb_refl in Ho. discriminate. }
  split; [reflexivity|].
  destruct (all_replied n id (w1 ++ [x])) eqn:Ea'.
  2:{ rewrite Hout in Ho. cbn in Ho. rewrite Hid, str_eqb_refl in Ho. discriminate. }
  destruct Ho as [r' [Er' [_ Em]]]. rewrite Hout in Er'. inversion Er'; subst r'.
  unfold all_replied in Ea'. apply negb_true_iff in Ea'.
  destruct (full_vector _ Ea') as [xs Exs]. exists xs. split; [exact Exs|]. split.
  - rewrite <- (map_length Some xs), <- Exs. apply ok_replies_length.
  - apply ok_merge_verdict; [now rewrite <- Exs|].
    intros a Ha. assert (Hin : In (Some a) (ok_replies n id (w1 ++ [x]))) by (rewrite Exs; now apply in_map).
    unfold ok_replies in Hin. apply in_map_iff in Hin as [i [Hl _]].
    destruct (latest_ok_key _ _ _ _ _ Hl) as [Hk|Hk]; [discriminate | exact Hk].
Qed.

(** a history without EVENT [id] never creates a slot for it *)
Lemma no_cevent_slot_none n id w : forall s,
  state_ok n s -> assoc id (os_s (st_os s)) = None -> trace_ok n w -> no_cevent id w ->
  assoc id (os_s (st_os (final s w))) = None.
Proof.
  induction w as [|x w IH]; intros s Hs H0 Ht Hnc; [exact H0|].
  inversion Ht as [|? ? Hx Ht']; subst. unfold final. rewrite exec_cons. cbn [fst].
  apply IH; [now apply step_ok | | assumption | intros y Hy; apply Hnc; now right].
  assert (Hcx : is_cevent_of id x = false) by (apply Hnc; now left).
  destruct (is_ok_in id x) eqn:Eok.
  2:{ destruct (os_frame n s x id Hs Hx Hcx Eok) as [F _]. now rewrite F. }
  destruct x as [| | | |j [| |m| | |]]; try discriminate. cbn in Eok. apply str_eqb_eq in Eok. subst id.
  cbn [input_ok] in Hx. destruct Hs as [Hd [Hr [Ho Hc]]].
  destruct (send_ok_spec n s j m Ho Hx) as [o' [E [_ [_ [Hs' _]]]]].
  unfold merge_step. rewrite Hd, E. cbn [fst with_os st_os]. rewrite Hs', H0. reflexivity.
Qed.

Lemma final_app s a b : final s (a ++ b) = final (final s a) b.
Proof. unfold final. rewrite exec_app. reflexivity. Qed.

Lemma final_cons s x t : final s (x :: t) = final (fst (merge_step s x)) t.
Proof. unfold final. rewrite exec_cons. reflexivity. Qed.

(** "no request with this id in flight", read off the history, means: the
    model holds no slot vector for the id *)
Theorem idle_ev_slot n id pre :
  (1 <= n)%nat -> trace_ok n pre -> idle_ev n id pre ->
  assoc id (os_s (st_os (final (init n) pre))) = None.
Proof.
  intros Hn Ht Hi. induction Hi as [pre Hnc | pre w Hi IH Hnc Ha].
  - apply (no_cevent_slot_none n id pre); try assumption; [apply init_ok | reflexivity].
  - destruct (trace_ok_app _ _ _ Ht) as [Ht1 Ht2]. inversion Ht2 as [|? ? _ Htw]; subst.
    specialize (IH Ht1). rewrite final_app, final_cons.
    assert (Hs : state_ok n (final (init n) pre)) by (apply exec_ok; [apply init_ok | assumption]).
    destruct (after_cevent n _ id Hs IH) as [Hs1 H1].
    rewrite (ok_window_inv n id _ w Hn Hs1 H1 Htw Hnc), Ha. reflexivity.
Qed.

(* ------------------------------------------------------------------ *)
(** * 10. C09: one COUNT window *)

Definition is_cnt_in (sub : str) (x : input) : bool :=
  match x with Child _ (SCount m) => str_eqb (c_sub m) sub | _ => false end.

Lemma latest_cnt_snoc sub i w x : forall acc,
  latest_cnt sub i (w ++ [x]) acc =
  match x with
  | Child j (SCount m) => if Nat.eqb j i && str_eqb (c_sub m) sub then Some m else latest_cnt sub i w acc
  | _ => latest_cnt sub i w acc
  end.
Proof.
  induction w as [|y w IH]; intro acc.
  - cbn. destruct x as [| | | |j [| | |m| |]]; reflexivity.
  - cbn [app latest_cnt]. destruct y as [| | | |j' [| | |m'| |]]; try apply IH.
    destruct (Nat.eqb j' i && str_eqb (c_sub m') sub); apply IH.
Qed.

Lemma latest_cnt_key sub i w : forall acc a,
  latest_cnt sub i w acc = Some a -> acc = Some a \/ c_sub a = sub.
Proof.
  induction w as [|y w IH]; intros acc a H; [now left|].
  cbn [latest_cnt] in H. destruct y as [| | | |j [| | |m| |]]; try (now apply IH).
  destruct (Nat.eqb j i && str_eqb (c_sub m) sub) eqn:E; [|now apply IH].
  destruct (IH _ _ H) as [E1|E1]; [|now right]. inversion E1; subst. right.
  apply andb_true_iff in E as [_ E]. now apply str_eqb_eq in E.
Qed.

Lemma cnt_replies_snoc_other n sub w x : is_cnt_in sub x = false -> cnt_replies n sub (w ++ [x]) = cnt_replies n sub w.
Proof.
  intro H. unfold cnt_replies. apply map_ext. intro i. rewrite latest_cnt_snoc.
  destruct x as [| | | |j [| | |m| |]]; try reflexivity. cbn in H. rewrite H, andb_false_r. reflexivity.
Qed.

Lemma cnt_replies_snoc_cnt n w j m :
  (j < n)%nat ->
  upd_nth j (Some m) (cnt_replies n (c_sub m) w) = Some (cnt_replies n (c_sub m) (w ++ [Child j (SCount m)])).
Proof.
  intro Hj. unfold cnt_replies. rewrite upd_nth_map_seq by assumption. f_equal.
  apply map_ext. intro i. rewrite latest_cnt_snoc, str_eqb_refl, andb_true_r. cbn [Nat.add].
  rewrite (Nat.eqb_sym j i). reflexivity.
Qed.

Lemma cnt_replies_nil n sub : cnt_replies n sub [] = repeat None n.
Proof.
  unfold cnt_replies. cbn [latest_cnt]. generalize 0%nat.
  induction n as [|n IH]; intro a; cbn; [reflexivity | now rewrite IH].
Qed.

Lemma all_counted_nil n sub : (1 <= n)%nat -> all_counted n sub [] = false.
Proof. intro H. unfold all_counted. rewrite cnt_replies_nil. destruct n; [lia | reflexivity]. Qed.

Lemma cnt_replies_length n sub w : length (cnt_replies n sub w) = n.
Proof. unfold cnt_replies. now rewrite map_length, seq_length. Qed.

Lemma latest_cnt_mono sub i w x acc : latest_cnt sub i w acc <> None -> latest_cnt sub i (w ++ [x]) acc <> None.
Proof.
  intro H. rewrite latest_cnt_snoc. destruct x as [| | | |j [| | |m| |]]; try assumption.
  destruct (Nat.eqb j i && str_eqb (c_sub m) sub); [discriminate | assumption].
Qed.

Lemma all_counted_mono n sub w x : all_counted n sub w = true -> all_counted n sub (w ++ [x]) = true.
Proof.
  unfold all_counted, cnt_replies. rewrite !negb_true_iff, !existsb_isNone_map.
  intros H i Hi. apply latest_cnt_mono. now apply H.
Qed.

Lemma all_counted_snoc_other n sub w x : is_cnt_in sub x = false -> all_counted n sub (w ++ [x]) = all_counted n sub w.
Proof. intro H. unfold all_counted. now rewrite cnt_replies_snoc_other. Qed.

Lemma first_max_spec l : forall m,
  In (first_max m l) (m :: l) /\ forall x, In x (m :: l) -> c_count x <= c_count (first_max m l).
Proof.
  induction l as [|a l IH]; intro m; cbn [first_max].
  - split; [now left | intros x [<-|[]]; lia].
  - destruct (c_count a >? c_count m) eqn:E.
    + apply Z.gtb_lt in E. destruct (IH a) as [H1 H2]. split.
      * right. exact H1.
      * intros x [<-|Hx]; [|now apply H2]. specialize (H2 a (or_introl eq_refl)). lia.
    + assert (c_count a <= c_count m) by (destruct (Z.gtb_spec (c_count a) (c_count m)); [discriminate | lia]).
      destruct (IH m) as [H1 H2]. split.
      * destruct H1 as [H1|H1]; [now left | right; now right].
      * intros x [<-|[<-|Hx]]; [apply H2; now left | specialize (H2 m (or_introl eq_refl)); lia | apply H2; now right].
Qed.

(** ... and it is the first of the maximal ones *)
Lemma first_max_first l : forall m,
  exists before after, m :: l = before ++ first_max m l :: after /\
                       forall b, In b before -> c_count b < c_count (first_max m l).
Proof.
  induction l as [|a l IH]; intro m; cbn [first_max].
  - exists [], []. split; [reflexivity | intros b []].
  - destruct (c_count a >? c_count m) eqn:E.
    + apply Z.gtb_lt in E. destruct (IH a) as [before [after [Eq Hb]]].
      exists (m :: before), after. split; [cbn [app]; now rewrite <- Eq|].
      intros b [<-|Hin]; [|now apply Hb].
      destruct (first_max_spec l a) as [_ H2]. specialize (H2 a (or_introl eq_refl)). lia.
    + assert (Ha : c_count a <= c_count m) by (destruct (Z.gtb_spec (c_count a) (c_count m)); [discriminate | lia]).
      destruct (IH m) as [before [after [Eq Hb]]].
      destruct before as [|b0 before]; cbn [app] in Eq; injection Eq as Em El.
      * exists [], (a :: l). split; [cbn [app]; now rewrite <- Em | intros b []].
      * subst b0. exists (m :: a :: before), after. split; [cbn [app]; now rewrite <- El|].
        intros b [<-|[<-|Hin]].
        -- apply Hb. now left.
        -- specialize (Hb m (or_introl eq_refl)). lia.
        -- apply Hb. now right.
Qed.

Lemma cnt_merge_max sub xs r :
  cnt_merge (List.map Some xs) = Some r -> (forall a, In a xs -> c_sub a = sub) -> count_max_spec sub xs r.
Proof.
  unfold cnt_merge. rewrite all_some_map. destruct xs as [|m l]; [discriminate|]. intros H Hk.
  inversion H; subst r. destruct (first_max_spec l m) as [H1 H2].
  unfold count_max_spec. split; [now apply Hk|]. split; assumption.
Qed.

Lemma cnt_merge_key k l r :
  cnt_merge l = Some r -> (forall a, In (Some a) l -> c_sub a = k) -> c_sub r = k.
Proof.
  unfold cnt_merge. intros H Hk. destruct (all_some l) as [xs|] eqn:Ea; [|discriminate].
  assert (El : l = List.map Some xs).
  { clear - Ea. revert xs Ea. induction l as [|[x|] l IH]; cbn; intros xs Ea; try discriminate.
    - now inversion Ea.
    - destruct (all_some l) as [r'|]; [|discriminate]. inversion Ea; subst. cbn. f_equal. now apply IH. }
  destruct xs as [|m xs']; [discriminate|]. inversion H; subst r.
  apply Hk. rewrite El. apply in_map. apply (proj1 (first_max_spec xs' m)).
Qed.

Lemma cs_frame n s x sub :
  state_ok n s -> input_ok n x -> is_ccount_of sub x = false -> is_cnt_in sub x = false ->
  assoc sub (cs_counts (st_cs (fst (merge_step s x)))) = assoc sub (cs_counts (st_cs s)) /\
  is_count_out sub (snd (merge_step s x)) = false.
Proof.
  intros [Hd [Hr [Ho Hc]]] Hx Hce Hok. unfold merge_step. rewrite Hd.
  destruct x as [s' fs|s'|id'|s'|i m]; cbn [fst snd with_rs with_os with_cs st_cs]; try (split; reflexivity).
  - cbn in Hce. apply str_eqb_neq in Hce. split; [|reflexivity].
    cbn [cs_set_sub cs_counts]. now apply assoc_m_set_other.
  - destruct m as [s'|s' e|m|c|t|s' p t]; cbn [input_ok] in Hx.
    + destruct (send_eose_spec n s i s' Hr Hx) as [r' [E _]]. rewrite E. split; [reflexivity|].
      cbn [snd]. destruct (snd (w_eose _ i)); reflexivity.
    + destruct Hx as [Hi Hne]. destruct (send_event_spec n s i s' e Hr Hi Hne) as [r' [E _]]. rewrite E.
      split; [reflexivity|]. cbn [snd]. destruct (snd (w_event _ i e)); reflexivity.
    + destruct (send_ok_spec n s i m Ho Hx) as [o' [E _]]. rewrite E. split; [reflexivity|].
      cbn [snd]. unfold out_ok. destruct (snd (w_put _ i m)); [|reflexivity]. destruct (ok_merge _); reflexivity.
    + cbn in Hok. apply str_eqb_neq in Hok.
      destruct (send_count_spec n s i c Hc Hx) as [c' [E [Hc' [Hf [Hs' Hfull]]]]]. rewrite E. cbn [fst snd with_cs st_cs].
      split; [apply Hf; congruence|].
      unfold out_cnt. destruct (snd (w_put _ i c)) as [l'|] eqn:Ew; [|reflexivity].
      destruct (cnt_merge l') as [r|] eqn:Em; [|reflexivity]. cbn [option_map is_count_out].
      apply str_eqb_neq. intro Er. apply Hok. rewrite <- Er. symmetry.
      apply (cnt_merge_key (c_sub c) l' r Em). intros a Ha.
      destruct (w_put_full_In _ _ _ _ _ Ew Ha) as [->|Hin]; [reflexivity|].
      destruct (assoc (c_sub c) (cs_counts (st_cs s))) as [l|] eqn:Ea; [|destruct Hin].
      apply (proj2 (proj2 Hc _ _ Ea)). exact Hin.
    + split; reflexivity.
    + split; reflexivity.
Qed.

Lemma no_ccount_snoc sub w x : no_ccount sub (w ++ [x]) -> no_ccount sub w /\ is_ccount_of sub x = false.
Proof.
  intro H. split; [intros y Hy; apply H; apply in_or_app; now left | apply H; apply in_or_app; right; now left].
Qed.

Lemma cnt_window_inv n sub s1 w :
  (1 <= n)%nat -> state_ok n s1 -> assoc sub (cs_counts (st_cs s1)) = Some (repeat None n) ->
  trace_ok n w -> no_ccount sub w ->
  assoc sub (cs_counts (st_cs (final s1 w))) = if all_counted n sub w then None else Some (cnt_replies n sub w).
Proof.
  intros Hn Hs1 H0. induction w as [|x w IH] using rev_ind; intros Ht Hnc.
  - rewrite (all_counted_nil n sub Hn), cnt_replies_nil. exact H0.
  - destruct (trace_ok_snoc _ _ _ Ht) as [Ht1 Hx]. destruct (no_ccount_snoc _ _ _ Hnc) as [Hnc1 Hcx].
    specialize (IH Ht1 Hnc1). rewrite final_snoc.
    assert (Hs : state_ok n (final s1 w)) by now apply exec_ok.
    destruct (is_cnt_in sub x) eqn:Eok.
    2:{ destruct (cs_frame n _ x sub Hs Hx Hcx Eok) as [F _]. rewrite F, IH.
        now rewrite (all_counted_snoc_other n sub w x Eok), (cnt_replies_snoc_other n sub w x Eok). }
    destruct x as [| | | |j [| | |m| |]]; try discriminate. cbn in Eok. apply str_eqb_eq in Eok. subst sub.
    cbn [input_ok] in Hx. destruct Hs as [Hd [Hr [Ho Hc]]].
    destruct (send_count_spec n (final s1 w) j m Hc Hx) as [o' [E [Ho' [Hf [Hs' Hfull]]]]].
    unfold merge_step. rewrite Hd, E. cbn [fst with_cs st_cs]. rewrite Hs', IH.
    destruct (all_counted n (c_sub m) w) eqn:Ea.
    + now rewrite (all_counted_mono n (c_sub m) w _ Ea).
    + unfold w_put.
      assert (Hne : cnt_replies n (c_sub m) w <> []).
      { intro E0. pose proof (cnt_replies_length n (c_sub m) w) as L. rewrite E0 in L. cbn in L. lia. }
      destruct (cnt_replies n (c_sub m) w) as [|y l] eqn:El; [congruence|]. rewrite <- El.
      rewrite (cnt_replies_snoc_cnt n w j m Hx). unfold all_counted.
      destruct (existsb isNone (cnt_replies n (c_sub m) (w ++ [Child j (SCount m)]))); reflexivity.
Qed.

Lemma cnt_window_out n sub s1 w x :
  (1 <= n)%nat -> state_ok n s1 -> assoc sub (cs_counts (st_cs s1)) = Some (repeat None n) ->
  trace_ok n (w ++ [x]) -> no_ccount sub (w ++ [x]) ->
  if negb (all_counted n sub w) && all_counted n sub (w ++ [x])
  then exists r, snd (merge_step (final s1 w) x) = Some (SCount r) /\ c_sub r = sub /\
                 cnt_merge (cnt_replies n sub (w ++ [x])) = Some r
  else is_count_out sub (snd (merge_step (final s1 w) x)) = false.
Proof.
  intros Hn Hs1 H0 Ht Hnc.
  destruct (trace_ok_snoc _ _ _ Ht) as [Ht1 Hx]. destruct (no_ccount_snoc _ _ _ Hnc) as [Hnc1 Hcx].
  pose proof (cnt_window_inv n sub s1 w Hn Hs1 H0 Ht1 Hnc1) as Hinv.
  assert (Hs : state_ok n (final s1 w)) by now apply exec_ok.
  destruct (is_cnt_in sub x) eqn:Eok.
  2:{ destruct (cs_frame n _ x sub Hs Hx Hcx Eok) as [_ O].
      rewrite (all_counted_snoc_other n sub w x Eok). now rewrite andb_negb_l. }
  destruct x as [| | | |j [| | |m| |]]; try discriminate. cbn in Eok. apply str_eqb_eq in Eok. subst sub.
  cbn [input_ok] in Hx. destruct Hs as [Hd [Hr [Ho Hc]]].
  destruct (send_count_spec n (final s1 w) j m Hc Hx) as [o' [E [Ho' [Hf [Hs' Hfull]]]]].
  unfold merge_step. rewrite Hd, E. cbn [snd]. rewrite Hinv in *.
  destruct (all_counted n (c_sub m) w) eqn:Ea; cbn [negb andb].
  - reflexivity.
  - assert (Hne : cnt_replies n (c_sub m) w <> []).
    { intro E0. pose proof (cnt_replies_length n (c_sub m) w) as L. rewrite E0 in L. cbn in L. lia. }
    assert (W : w_put (Some (cnt_replies n (c_sub m) w)) j m =
                if existsb isNone (cnt_replies n (c_sub m) (w ++ [Child j (SCount m)]))
                then (Some (cnt_replies n (c_sub m) (w ++ [Child j (SCount m)])), None)
                else (None, Some (cnt_replies n (c_sub m) (w ++ [Child j (SCount m)])))).
    { unfold w_put. destruct (cnt_replies n (c_sub m) w) as [|y l] eqn:El; [congruence|]. rewrite <- El.
      now rewrite (cnt_replies_snoc_cnt n w j m Hx). }
    rewrite W in *. unfold all_counted.
    destruct (existsb isNone (cnt_replies n (c_sub m) (w ++ [Child j (SCount m)]))) eqn:Ex; cbn [negb snd out_cnt] in *.
    + reflexivity.
    + destruct (Hfull _ eq_refl) as [r Er]. rewrite Er. cbn [option_map]. exists r. split; [reflexivity|].
      split; [|reflexivity]. apply (cnt_merge_key (c_sub m) _ r Er).
      intros a Ha. unfold cnt_replies in Ha. apply in_map_iff in Ha as [i [Hl _]].
      destruct (latest_cnt_key _ _ _ _ _ Hl) as [Hk|Hk]; [discriminate | exact Hk].
Qed.

Lemma after_ccount n s sub :
  state_ok n s ->
  state_ok n (fst (merge_step s (CCount sub))) /\
  assoc sub (cs_counts (st_cs (fst (merge_step s (CCount sub))))) = Some (repeat None n).
Proof.
  intros Hs. split; [apply step_ok; [assumption | exact I]|].
  destruct Hs as [Hd [_ [_ [Hn _]]]]. unfold merge_step. rewrite Hd. cbn [fst with_cs st_cs cs_set_sub cs_counts].
  now rewrite assoc_m_set_same, Hn.
Qed.

(** every COUNT is answered by exactly one COUNT reply, once every child has
    replied; none before *)
Theorem count_exactly_one n s sub w :
  (1 <= n)%nat -> state_ok n s -> trace_ok n w -> no_ccount sub w ->
  count_occ_b (is_count_out sub) (cnt_outs s sub w) = if all_counted n sub w then 1%nat else 0%nat.
Proof.
  intros Hn Hs. destruct (after_ccount n s sub Hs) as [Hs1 H1]. unfold cnt_outs.
  set (s1 := fst (merge_step s (CCount sub))) in *.
  induction w as [|x w IH] using rev_ind; intros Ht Hnc.
  - now rewrite (all_counted_nil n sub Hn).
  - destruct (trace_ok_snoc _ _ _ Ht) as [Ht1 Hx]. destruct (no_ccount_snoc _ _ _ Hnc) as [Hnc1 Hcx].
    rewrite outs_snoc, count_occ_b_app, (IH Ht1 Hnc1). cbn [count_occ_b].
    pose proof (cnt_window_out n sub s1 w x Hn Hs1 H1 Ht Hnc) as Ho.
    destruct (all_counted n sub w) eqn:Ea; cbn [negb andb] in Ho.
    + rewrite Ho, (all_counted_mono n sub w x Ea). reflexivity.
    + destruct (all_counted n sub (w ++ [x])).
      * destruct Ho as [r [-> [Er _]]]. cbn [is_count_out]. now rewrite Er, str_eqb_refl.
      * now rewrite Ho.
Qed.

Lemma no_ccount_mid sub a x b : no_ccount sub (a ++ x :: b) -> no_ccount sub (a ++ [x]).
Proof.
  intros H y Hy. apply H. apply in_app_or in Hy as [Hy|[<-|[]]]; apply in_or_app; [now left | right; now left].
Qed.

(** the reply is output at the step of the last child's reply and is one of
    the children's replies with the maximal count *)
Theorem count_is_max n s sub w1 x w2 r :
  (1 <= n)%nat -> state_ok n s ->
  trace_ok n (w1 ++ x :: w2) -> no_ccount sub (w1 ++ x :: w2) ->
  nth_error (cnt_outs s sub (w1 ++ x :: w2)) (length w1) = Some (Some (SCount r)) -> c_sub r = sub ->
  all_counted n sub w1 = false /\
  exists replies, cnt_replies n sub (w1 ++ [x]) = List.map Some replies /\ length replies = n /\
                  count_max_spec sub replies r.
Proof.
  intros Hn Hs Ht Hnc Hnth Hid. destruct (after_ccount n s sub Hs) as [Hs1 H1].
  unfold cnt_outs in Hnth. rewrite outs_nth in Hnth. inversion Hnth as [Hout]. clear Hnth.
  pose proof (cnt_window_out n sub _ w1 x Hn Hs1 H1 (trace_ok_mid _ _ _ _ Ht) (no_ccount_mid _ _ _ _ Hnc)) as Ho.
  destruct (all_counted n sub w1) eqn:Ea; cbn [negb andb] in Ho.
  { rewrite Hout in Ho. cbn in Ho. rewrite Hid, str_eqb_refl in Ho. discriminate. }
  split; [reflexivity|].
  destruct (all_counted n sub (w1 ++ [x])) eqn:Ea'.
  2:{ rewrite Hout in Ho. cbn in Ho. rewrite Hid, str_eqb_refl in Ho. discriminate. }
  destruct Ho as [r' [Er' [_ Em]]]. rewrite Hout in Er'. inversion Er'; subst r'.
  unfold all_counted in Ea'. apply negb_true_iff in Ea'.
  destruct (full_vector _ Ea') as [xs Exs]. exists xs. split; [exact Exs|]. split.
  - rewrite <- (map_length Some xs), <- Exs. apply cnt_replies_length.
  - apply cnt_merge_max; [now rewrite <- Exs|].
    intros a Ha. assert (Hin : In (Some a) (cnt_replies n sub (w1 ++ [x]))) by (rewrite Exs; now apply in_map).
    unfold cnt_replies in Hin. apply in_map_iff in Hin as [i [Hl _]].
    destruct (latest_cnt_key _ _ _ _ _ Hl) as [Hk|Hk]; [discriminate | exact Hk].
Qed.

(* ------------------------------------------------------------------ *)
(** * 11. The same, for every state a session can reach *)

Lemma reach_ok n pre : trace_ok n pre -> state_ok n (final (init n) pre).
Proof. intro H. apply exec_ok; [apply init_ok | exact H]. Qed.

Lemma trace_ok_window n pre x w : trace_ok n (pre ++ x :: w) -> trace_ok n pre /\ input_ok n x /\ trace_ok n w.
Proof. intro H. apply Forall_app in H as [H1 H2]. inversion H2; subst. auto. Qed.

(** the window is the tail of the session's output *)
Lemma outs_window n pre x w :
  outs (init n) (pre ++ x :: w) =
  outs (init n) pre ++ snd (merge_step (final (init n) pre) x) :: outs (fst (merge_step (final (init n) pre) x)) w.
Proof. unfold outs, final. rewrite exec_app. cbn [snd]. now rewrite exec_cons. Qed.

Lemma ge2_ge1 n : (2 <= n)%nat -> (1 <= n)%nat.
Proof. lia. Qed.

Lemma wf_trace_ok n t : wf_trace n t -> trace_ok n t.
Proof. now intros [H _]. Qed.

Lemma trace_ok_prefix n a b : trace_ok n (a ++ b) -> trace_ok n a.
Proof. intro H. now apply Forall_app in H. Qed.

(* ------------------------------------------------------------------ *)
(** * 12. C09 for reachable states, under the guard [no_overlap] *)

Lemma trace_ok_split n pre x w rest :
  trace_ok n (pre ++ x :: w ++ rest) -> trace_ok n pre /\ trace_ok n w.
Proof.
  intro H. apply Forall_app in H as [H1 H2]. inversion H2 as [|? ? _ H3]; subst.
  apply Forall_app in H3 as [H3 _]. auto.
Qed.

Theorem ok_exactly_one_reach n t pre id w rest :
  (2 <= n)%nat -> trace_ok n t -> no_overlap n t -> t = pre ++ CEvent id :: w ++ rest -> no_cevent id w ->
  count_occ_b (is_ok_out id) (evt_outs (final (init n) pre) id w) = if all_replied n id w then 1%nat else 0%nat.
Proof.
  intros Hn Ht [Hno _] Et Hnc. subst t. destruct (trace_ok_split _ _ _ _ _ Ht) as [H1 H2].
  apply (ok_exactly_one n); auto using ge2_ge1, reach_ok.
  apply idle_ev_slot; auto using ge2_ge1. eapply Hno. reflexivity.
Qed.

Theorem ok_verdict_reach n t pre id w1 x w2 rest r :
  (2 <= n)%nat -> trace_ok n t -> no_overlap n t ->
  t = pre ++ CEvent id :: (w1 ++ x :: w2) ++ rest -> no_cevent id (w1 ++ x :: w2) ->
  nth_error (evt_outs (final (init n) pre) id (w1 ++ x :: w2)) (length w1) = Some (Some (SOk r)) ->
  ok_id r = id ->
  all_replied n id w1 = false /\
  exists replies, ok_replies n id (w1 ++ [x]) = List.map Some replies /\ length replies = n /\
                  ok_verdict_spec id replies r.
Proof.
  intros Hn Ht [Hno _] Et Hnc Hnth Hid. subst t. destruct (trace_ok_split _ _ _ _ _ Ht) as [H1 H2].
  apply (ok_verdict n (final (init n) pre) id w1 x w2 r); auto using ge2_ge1, reach_ok.
  apply idle_ev_slot; auto using ge2_ge1. eapply Hno. reflexivity.
Qed.

Theorem count_exactly_one_reach n pre sub w :
  (2 <= n)%nat -> trace_ok n (pre ++ CCount sub :: w) -> no_ccount sub w ->
  count_occ_b (is_count_out sub) (cnt_outs (final (init n) pre) sub w) = if all_counted n sub w then 1%nat else 0%nat.
Proof.
  intros Hn Ht Hnc. destruct (trace_ok_window _ _ _ _ Ht) as [H1 [_ H2]].
  apply (count_exactly_one n); auto using ge2_ge1, reach_ok.
Qed.

Theorem count_is_max_reach n pre sub w1 x w2 r :
  (2 <= n)%nat -> trace_ok n (pre ++ CCount sub :: w1 ++ x :: w2) -> no_ccount sub (w1 ++ x :: w2) ->
  nth_error (cnt_outs (final (init n) pre) sub (w1 ++ x :: w2)) (length w1) = Some (Some (SCount r)) ->
  c_sub r = sub ->
  all_counted n sub w1 = false /\
  exists replies, cnt_replies n sub (w1 ++ [x]) = List.map Some replies /\ length replies = n /\
                  count_max_spec sub replies r.
Proof.
  intros Hn Ht Hnc Hnth Hid. destruct (trace_ok_window _ _ _ _ Ht) as [H1 [_ H2]].
  apply (count_is_max n (final (init n) pre) sub w1 x w2 r); auto using ge2_ge1, reach_ok.
Qed.

(** an aggregated reply carries the id of the reply that completed it *)
Theorem reply_id_preserved n s i m o :
  state_ok n s -> (i < n)%nat ->
  (snd (merge_step s (Child i (SOk m))) = Some o -> exists r, o = SOk r /\ ok_id r = ok_id m) /\
  (forall c, snd (merge_step s (Child i (SCount c))) = Some o -> exists r, o = SCount r /\ c_sub r = c_sub c).
Proof.
  intros [Hd [Hr [Ho Hc]]] Hi. unfold merge_step. rewrite Hd. split.
  - destruct (send_ok_spec n s i m Ho Hi) as [o' [E _]]. rewrite E. cbn [snd]. unfold out_ok.
    destruct (snd (w_put _ i m)) as [l'|] eqn:Ew; [|discriminate].
    destruct (ok_merge l') as [r|] eqn:Em; [|discriminate]. cbn. intro H. inversion H; subst o.
    exists r. split; [reflexivity|]. apply (ok_merge_key (ok_id m) l' r Em). intros a Ha.
    destruct (w_put_full_In _ _ _ _ _ Ew Ha) as [->|Hin]; [reflexivity|].
    destruct (assoc (ok_id m) (os_s (st_os s))) as [l|] eqn:Ea; [|destruct Hin].
    apply (proj2 (proj2 Ho _ _ Ea)). exact Hin.
  - intro c. destruct (send_count_spec n s i c Hc Hi) as [c' [E _]]. rewrite E. cbn [snd]. unfold out_cnt.
    destruct (snd (w_put _ i c)) as [l'|] eqn:Ew; [|discriminate].
    destruct (cnt_merge l') as [r|] eqn:Em; [|discriminate]. cbn. intro H. inversion H; subst o.
    exists r. split; [reflexivity|]. apply (cnt_merge_key (c_sub c) l' r Em). intros a Ha.
    destruct (w_put_full_In _ _ _ _ _ Ew Ha) as [->|Hin]; [reflexivity|].
    destruct (assoc (c_sub c) (cs_counts (st_cs s))) as [l|] eqn:Ea; [|destruct Hin].
    apply (proj2 (proj2 Hc _ _ Ea)). exact Hin.
Qed.

(* ------------------------------------------------------------------ *)
(** * 13. Without the guard the statement is false (finding K1) *)

Definition k1_id : str := [120]%N.
Definition k1_a1 : okm := mkOk k1_id true [] [].
Definition k1_a2 : okm := mkOk k1_id false [98; 108; 111; 99; 107; 101; 100; 58; 32]%N [110; 111]%N.
Definition k1_b1 : okm := mkOk k1_id true [] [].
Definition k1_b2 : okm := mkOk k1_id true [] [].

(** two EVENTs with one id in flight; child 0 answers both, then child 1
    answers both (replies a1 a2 b1 b2) *)
Definition k1_trace : list input :=
  [CEvent k1_id; CEvent k1_id;
   Child 0 (SOk k1_a1); Child 0 (SOk k1_a2); Child 1 (SOk k1_b1); Child 1 (SOk k1_b2)].

Definition k1_sub : str := [99]%N.
Definition k1_trace_count : list input :=
  [CCount k1_sub; CCount k1_sub;
   Child 0 (SCount (mkCnt k1_sub 1 None)); Child 0 (SCount (mkCnt k1_sub 2 None));
   Child 1 (SCount (mkCnt k1_sub 3 None)); Child 1 (SCount (mkCnt k1_sub 4 None))].

Definition replies_of_child_ev (id : str) (i : nat) (t : list input) : nat :=
  count_occ_b (fun x => match x with Child j (SOk m) => Nat.eqb j i && str_eqb (ok_id m) id | _ => false end) t.
Definition replies_of_child_cnt (sub : str) (i : nat) (t : list input) : nat :=
  count_occ_b (fun x => match x with Child j (SCount m) => Nat.eqb j i && str_eqb (c_sub m) sub | _ => false end) t.

Lemma k1_trace_ok : trace_ok 2 k1_trace.
Proof. unfold trace_ok, k1_trace. repeat constructor. Qed.

Lemma k1_trace_count_ok : trace_ok 2 k1_trace_count.
Proof. unfold trace_ok, k1_trace_count. repeat constructor. Qed.

(** two submissions, every child answers each of them, one OK comes out — and
    it is rejecting although both children accepted the first submission and
    only child 0 rejected the second: the verdict mixes a2 with b1 *)
Theorem ok_exactly_one_refuted :
  exists t id, trace_ok 2 t /\
    count_occ_b (is_cevent_of id) t = 2%nat /\
    replies_of_child_ev id 0 t = 2%nat /\ replies_of_child_ev id 1 t = 2%nat /\
    count_occ_b (is_ok_out id) (outs (init 2) t) = 1%nat /\
    outs (init 2) t = [None; None; None; None;
                       Some (SOk (mkOk id false [] (ok_message k1_a2))); None].
Proof.
  exists k1_trace, k1_id. split; [exact k1_trace_ok|]. vm_compute. repeat split; reflexivity.
Qed.

Theorem count_exactly_one_refuted :
  exists t sub, trace_ok 2 t /\
    count_occ_b (is_ccount_of sub) t = 2%nat /\
    replies_of_child_cnt sub 0 t = 2%nat /\ replies_of_child_cnt sub 1 t = 2%nat /\
    count_occ_b (is_count_out sub) (outs (init 2) t) = 1%nat.
Proof.
  exists k1_trace_count, k1_sub. split; [exact k1_trace_count_ok|]. vm_compute. repeat split; reflexivity.
Qed.

(** the guard excludes exactly such histories *)
Theorem k1_trace_overlaps : ~ no_overlap 2 k1_trace.
Proof.
  intros [H _]. specialize (H [CEvent k1_id] k1_id
    [Child 0 (SOk k1_a1); Child 0 (SOk k1_a2); Child 1 (SOk k1_b1); Child 1 (SOk k1_b2)] eq_refl).
  inversion H as [pre Hnc | pre w Hi Hnc Ha E].
  - specialize (Hnc (CEvent k1_id) (or_introl eq_refl)). vm_compute in Hnc. discriminate.
  - destruct pre as [|p pre]; cbn in E.
    + inversion E; subst. vm_compute in Ha. discriminate.
    + inversion E as [[E1 E2]]. destruct pre; discriminate.
Qed.

(* ------------------------------------------------------------------ *)
(** * 14. Whole histories: as many aggregated replies as requests *)

Lemma outs_cons s x t : outs s (x :: t) = snd (merge_step s x) :: outs (fst (merge_step s x)) t.
Proof. unfold outs. rewrite exec_cons. reflexivity. Qed.

Lemma outs_app s a b : outs s (a ++ b) = outs s a ++ outs (final s a) b.
Proof. unfold outs, final. rewrite exec_app. reflexivity. Qed.

(** without an EVENT [id], and with no slot for it, nothing is said about [id] *)
Lemma no_cevent_quiet n id w : forall s,
  state_ok n s -> assoc id (os_s (st_os s)) = None -> trace_ok n w -> no_cevent id w ->
  count_occ_b (is_ok_out id) (outs s w) = 0%nat.
Proof.
  induction w as [|x w IH]; intros s Hs H0 Ht Hnc; [reflexivity|].
  inversion Ht as [|? ? Hx Ht']; subst. rewrite outs_cons. cbn [count_occ_b].
  assert (Hcx : is_cevent_of id x = false) by (apply Hnc; now left).
  assert (Hstep : assoc id (os_s (st_os (fst (merge_step s x)))) = None /\ is_ok_out id (snd (merge_step s x)) = false).
  { destruct (is_ok_in id x) eqn:Eok.
    2:{ destruct (os_frame n s x id Hs Hx Hcx Eok) as [F O]. now rewrite F. }
    destruct x as [| | | |j [| |m| | |]]; try discriminate. cbn in Eok. apply str_eqb_eq in Eok. subst id.
    cbn [input_ok] in Hx. destruct Hs as [Hd [Hr [Ho Hc]]].
    destruct (send_ok_spec n s j m Ho Hx) as [o' [E [_ [_ [Hs' _]]]]].
    unfold merge_step. rewrite Hd, E. cbn [fst snd with_os st_os]. rewrite Hs', H0. cbn. auto. }
  destruct Hstep as [H1 H2]. rewrite H2.
  apply IH; [now apply step_ok | assumption | assumption | intros y Hy; apply Hnc; now right].
Qed.

Lemma no_cevent_count id w : no_cevent id w -> count_occ_b (is_cevent_of id) w = 0%nat.
Proof.
  induction w as [|x w IH]; intro H; [reflexivity|]. cbn. rewrite (H x (or_introl eq_refl)).
  apply IH. intros y Hy. apply H. now right.
Qed.

(** If, after the history [t], no EVENT with id [id] is in flight — every
    submission was answered by every child before the next one with that id
    came — then the client has received exactly as many OKs for [id] as it
    submitted EVENTs with that id. *)
Theorem ok_count_equals_event_count n id t :
  (1 <= n)%nat -> trace_ok n t -> idle_ev n id t ->
  count_occ_b (is_ok_out id) (outs (init n) t) = count_occ_b (is_cevent_of id) t.
Proof.
  intros Hn Ht Hi. induction Hi as [pre Hnc | pre w Hi IH Hnc Ha].
  - rewrite (no_cevent_count id pre Hnc).
    apply (no_cevent_quiet n id pre); try assumption; [apply init_ok | reflexivity].
  - destruct (trace_ok_window _ _ _ _ Ht) as [Ht1 [_ Ht2]]. specialize (IH Ht1).
    rewrite outs_app, outs_cons, !count_occ_b_app. cbn [count_occ_b]. rewrite IH.
    assert (Hs : state_ok n (final (init n) pre)) by now apply reach_ok.
    pose proof (idle_ev_slot n id pre Hn Ht1 Hi) as H0.
    pose proof (ok_exactly_one n _ id w Hn Hs H0 Ht2 Hnc) as H1. unfold evt_outs in H1. rewrite H1, Ha.
    assert (Hnone : snd (merge_step (final (init n) pre) (CEvent id)) = None).
    { unfold merge_step. destruct (st_dead _); reflexivity. }
    rewrite Hnone. cbn [is_ok_out is_cevent_of]. rewrite str_eqb_refl, (no_cevent_count id w Hnc). lia.
Qed.

Lemma no_ccount_quiet n sub w : forall s,
  state_ok n s -> assoc sub (cs_counts (st_cs s)) = None -> trace_ok n w -> no_ccount sub w ->
  count_occ_b (is_count_out sub) (outs s w) = 0%nat.
Proof.
  induction w as [|x w IH]; intros s Hs H0 Ht Hnc; [reflexivity|].
  inversion Ht as [|? ? Hx Ht']; subst. rewrite outs_cons. cbn [count_occ_b].
  assert (Hcx : is_ccount_of sub x = false) by (apply Hnc; now left).
  assert (Hstep : assoc sub (cs_counts (st_cs (fst (merge_step s x)))) = None /\
                  is_count_out sub (snd (merge_step s x)) = false).
  { destruct (is_cnt_in sub x) eqn:Eok.
    2:{ destruct (cs_frame n s x sub Hs Hx Hcx Eok) as [F O]. now rewrite F. }
    destruct x as [| | | |j [| | |m| |]]; try discriminate. cbn in Eok. apply str_eqb_eq in Eok. subst sub.
    cbn [input_ok] in Hx. destruct Hs as [Hd [Hr [Ho Hc]]].
    destruct (send_count_spec n s j m Hc Hx) as [o' [E [_ [_ [Hs' _]]]]].
    unfold merge_step. rewrite Hd, E. cbn [fst snd with_cs st_cs]. rewrite Hs', H0. cbn. auto. }
  destruct Hstep as [H1 H2]. rewrite H2.
  apply IH; [now apply step_ok | assumption | assumption | intros y Hy; apply Hnc; now right].
Qed.

Lemma no_ccount_count sub w : no_ccount sub w -> count_occ_b (is_ccount_of sub) w = 0%nat.
Proof.
  induction w as [|x w IH]; intro H; [reflexivity|]. cbn. rewrite (H x (or_introl eq_refl)).
  apply IH. intros y Hy. apply H. now right.
Qed.

Theorem count_count_equals_request_count n sub t :
  (1 <= n)%nat -> trace_ok n t -> idle_cnt n sub t ->
  count_occ_b (is_count_out sub) (outs (init n) t) = count_occ_b (is_ccount_of sub) t.
Proof.
  intros Hn Ht Hi. induction Hi as [pre Hnc | pre w Hi IH Hnc Ha].
  - rewrite (no_ccount_count sub pre Hnc).
    apply (no_ccount_quiet n sub pre); try assumption; [apply init_ok | reflexivity].
  - destruct (trace_ok_window _ _ _ _ Ht) as [Ht1 [_ Ht2]]. specialize (IH Ht1).
    rewrite outs_app, outs_cons, !count_occ_b_app. cbn [count_occ_b]. rewrite IH.
    assert (Hs : state_ok n (final (init n) pre)) by now apply reach_ok.
    pose proof (count_exactly_one n _ sub w Hn Hs Ht2 Hnc) as H1. unfold cnt_outs in H1. rewrite H1, Ha.
    assert (Hnone : snd (merge_step (final (init n) pre) (CCount sub)) = None).
    { unfold merge_step. destruct (st_dead _); reflexivity. }
    rewrite Hnone. cbn [is_count_out is_ccount_of]. rewrite str_eqb_refl, (no_ccount_count sub w Hnc). lia.
Qed.

(** among the children's replies the merged COUNT is the first (lowest child
    index) that carries the maximum — what [slices.MaxFunc] returns *)
Lemma cnt_merge_first xs r :
  cnt_merge (List.map Some xs) = Some r ->
  exists before after, xs = before ++ r :: after /\ forall b, In b before -> c_count b < c_count r.
Proof.
  unfold cnt_merge. rewrite all_some_map. destruct xs as [|m l]; [discriminate|]. intro H.
  inversion H; subst r. apply first_max_first.
Qed.

Theorem count_is_first_max_reach n pre sub w1 x w2 r :
  (2 <= n)%nat -> trace_ok n (pre ++ CCount sub :: w1 ++ x :: w2) -> no_ccount sub (w1 ++ x :: w2) ->
  nth_error (cnt_outs (final (init n) pre) sub (w1 ++ x :: w2)) (length w1) = Some (Some (SCount r)) ->
  c_sub r = sub ->
  exists before after,
    cnt_replies n sub (w1 ++ [x]) = List.map Some (before ++ r :: after) /\
    forall b, In b before -> c_count b < c_count r.
Proof.
  intros Hn Ht Hnc Hnth Hid. destruct (trace_ok_window _ _ _ _ Ht) as [H1 [_ H2]].
  assert (Hs : state_ok n (final (init n) pre)) by now apply reach_ok.
  destruct (after_ccount n _ sub Hs) as [Hs1 H0].
  unfold cnt_outs in Hnth. rewrite outs_nth in Hnth. inversion Hnth as [Hout]. clear Hnth.
  pose proof (cnt_window_out n sub _ w1 x (ge2_ge1 n Hn) Hs1 H0 (trace_ok_mid _ _ _ _ H2) (no_ccount_mid _ _ _ _ Hnc)) as Ho.
  destruct (negb (all_counted n sub w1) && all_counted n sub (w1 ++ [x])) eqn:Ec.
  2:{ rewrite Hout in Ho. cbn in Ho. rewrite Hid, str_eqb_refl in Ho. discriminate. }
  destruct Ho as [r' [Er' [_ Em]]]. rewrite Hout in Er'. inversion Er'; subst r'.
  apply andb_true_iff in Ec as [_ Ea']. unfold all_counted in Ea'. apply negb_true_iff in Ea'.
  destruct (full_vector _ Ea') as [xs Exs]. rewrite Exs in Em.
  destruct (cnt_merge_first xs r Em) as [before [after [E Hb]]].
  exists before, after. split; [now rewrite Exs, E | exact Hb].
Qed.
