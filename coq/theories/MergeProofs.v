(* MergeProofs.v — C08/C09: proofs about the model of the merge handler in
   Merge.v.  Structure:
     1  Go maps and slices
     2  one lemma per generated guard (everything below uses only these),
        2a the ties between the generated guards and the model's
     3  the REQ state of one subscription id seen as a small machine
     4  the reply queues of the OK and COUNT state ([w_req], [w_put]) and the
        characterisation of handleRecvEventMsg/handleSendOKMsg (and COUNT) by them
     5  the global invariant [state_ok] (the session does not panic)
     6-8  C08: the simulation of [merge_step] by the phase machine and the
        theorems about one REQ window
     9  general lemmas about histories
   C09 is in MergeAggProofs.v. *)
From Moc Require Import Base Match MatchProofs Merge.
From Moc.Gen Require Import GenMerge.
Open Scope Z_scope.

(* ------------------------------------------------------------------ *)
(** * 1. Maps and slices *)

Lemma assoc_m_del_same {B} k (l : list (str * B)) : assoc k (m_del k l) = None.
Proof.
  induction l as [|[k' v] l IH]; simpl; [reflexivity|].
  destruct (str_eqb k k') eqn:E; simpl; [assumption|]. now rewrite E.
Qed.

Lemma assoc_m_del_other {B} k k' (l : list (str * B)) :
  k <> k' -> assoc k' (m_del k l) = assoc k' l.
Proof.
  intro N. induction l as [|[k2 v] l IH]; simpl; [reflexivity|].
  destruct (str_eqb k k2) eqn:E; simpl.
  - apply str_eqb_eq in E; subst k2.
    destruct (str_eqb k' k) eqn:E2; [apply str_eqb_eq in E2; congruence | assumption].
  - destruct (str_eqb k' k2); [reflexivity | assumption].
Qed.

Lemma assoc_m_set_same {B} k (v : B) l : assoc k (m_set k v l) = Some v.
Proof. unfold m_set. simpl. now rewrite str_eqb_refl. Qed.

Lemma assoc_m_set_other {B} k k' (v : B) l : k <> k' -> assoc k' (m_set k v l) = assoc k' l.
Proof.
  intro N. unfold m_set. simpl.
  destruct (str_eqb k' k) eqn:E; [apply str_eqb_eq in E; congruence|].
  now apply assoc_m_del_other.
Qed.

Lemma upd_nth_length {A} i (v : A) l l' : upd_nth i v l = Some l' -> length l' = length l.
Proof.
  revert i l'. induction l as [|x l IH]; intros [|i] l' H; simpl in H; try discriminate.
  - inversion H; reflexivity.
  - destruct (upd_nth i v l) eqn:E; [|discriminate]. inversion H; subst. simpl. f_equal. eapply IH; eauto.
Qed.

Lemma upd_nth_some {A} i (v : A) l : (i < length l)%nat -> exists l', upd_nth i v l = Some l'.
Proof.
  revert i. induction l as [|x l IH]; intros [|i] H; simpl in *; try lia.
  - eexists; reflexivity.
  - destruct (IH i) as [l' E]; [lia|]. rewrite E. eexists; reflexivity.
Qed.

Lemma upd_nth_map_seq {A} (f : nat -> A) v : forall n a i, (i < n)%nat ->
  upd_nth i v (List.map f (seq a n)) =
  Some (List.map (fun j => if Nat.eqb j (a + i) then v else f j) (seq a n)).
Proof.
  induction n as [|n IH]; intros a i H; [lia|].
  destruct i as [|i]; simpl.
  - rewrite Nat.add_0_r, Nat.eqb_refl. do 2 f_equal.
    apply map_ext_in. intros j Hj. apply in_seq in Hj.
    destruct (Nat.eqb j a) eqn:E; [apply Nat.eqb_eq in E; lia | reflexivity].
  - rewrite (IH (S a) i) by lia.
    destruct (Nat.eqb a (a + S i)) eqn:E; [apply Nat.eqb_eq in E; lia|].
    do 2 f_equal. apply map_ext. intro j. now replace (S a + i)%nat with (a + S i)%nat by lia.
Qed.

Lemma upd_nth_In {A} i (v : A) l l' x : upd_nth i v l = Some l' -> In x l' -> x = v \/ In x l.
Proof.
  revert i l'. induction l as [|y l IH]; intros [|i] l' H Hin; simpl in H; try discriminate.
  - inversion H; subst. destruct Hin as [<-|Hin]; [now left | right; now right].
  - destruct (upd_nth i v l) eqn:E; [|discriminate]. inversion H; subst.
    destruct Hin as [<-|Hin]; [right; now left|].
    destruct (IH _ _ E Hin); [now left | right; now right].
Qed.

Lemma zlen_zero {A} (l : list A) : zlen l = 0 <-> l = [].
Proof. unfold zlen. destruct l; simpl; split; intro H; try reflexivity; try discriminate; lia. Qed.

Lemma forallb_map_seq (f : nat -> bool) n a :
  forallb (fun b => b) (List.map f (seq a n)) = forallb f (seq a n).
Proof. revert a. induction n as [|n IH]; intro a; simpl; [reflexivity | now rewrite IH]. Qed.

Lemma existsb_negb_forallb (l : list bool) : negb (existsb negb l) = forallb (fun b => b) l.
Proof. induction l as [|[] l IH]; simpl; auto. Qed.

(** all maps of the state satisfy [P] on every bound value *)
Definition map_all {B} (P : B -> Prop) (m : list (str * B)) : Prop :=
  forall k v, assoc k m = Some v -> P v.

Lemma map_all_nil {B} (P : B -> Prop) : map_all P [].
Proof. intros k v H; discriminate. Qed.

Lemma map_all_set {B} (P : B -> Prop) k v m : map_all P m -> P v -> map_all P (m_set k v m).
Proof.
  intros H Hv k' v' E. destruct (str_dec k k') as [<-|N].
  - rewrite assoc_m_set_same in E. inversion E; now subst.
  - rewrite assoc_m_set_other in E by assumption. eapply H; eauto.
Qed.

Lemma map_all_del {B} (P : B -> Prop) k m : map_all P m -> map_all P (m_del k m).
Proof.
  intros H k' v' E. destruct (str_dec k k') as [<-|N].
  - rewrite assoc_m_del_same in E. discriminate.
  - rewrite assoc_m_del_other in E by assumption. eapply H; eauto.
Qed.

(* ------------------------------------------------------------------ *)
(** * 2. Facts about the generated guards *)

Lemma g_merge_too_few_spec n : h_merge_too_few n = true <-> n < 2.
Proof. unfold h_merge_too_few. apply Z.ltb_lt. Qed.
Lemma g_eose_already_spec b : h_eose_already b = b.
Proof. reflexivity. Qed.
Lemma g_eose_incomplete_spec b : h_eose_incomplete b = negb b.
Proof. reflexivity. Qed.
Lemma g_event_unsendable_spec b : h_event_unsendable b = negb b.
Proof. reflexivity. Qed.
Lemma g_ok_not_ready_spec b : h_ok_not_ready b = negb b.
Proof. reflexivity. Qed.
Lemma g_count_not_ready_spec b : h_count_not_ready b = negb b.
Proof. reflexivity. Qed.
Lemma len_eq0_spec {A} (l : list A) : (zlen l =? 0) = match l with [] => true | _ => false end.
Proof.
  destruct l as [|a l]; [reflexivity|].
  assert (H : 0 < zlen (a :: l)) by (unfold zlen; simpl length; lia).
  apply Z.eqb_neq. lia.
Qed.
Lemma g_ok_no_slot_spec {A} (l : list A) : h_ok_no_slot (zlen l) = is_nil l.
Proof. apply len_eq0_spec. Qed.
Lemma g_ok_setmsg_drop_spec {A} (l : list A) q p : h_ok_setmsg_drop (zlen l) q p = is_nil l || (q >=? p).
Proof. unfold h_ok_setmsg_drop. now rewrite len_eq0_spec. Qed.
Lemma g_ok_clear_done_spec p : h_ok_clear_done p = (p <=? 0).
Proof. reflexivity. Qed.
Lemma g_ok_ready_absent_spec {A} (l : list A) : h_ok_ready_absent (zlen l) = match l with [] => true | _ => false end.
Proof. apply len_eq0_spec. Qed.
Lemma g_ok_msg_absent_spec {A} (l : list A) : h_ok_msg_absent (zlen l) = match l with [] => true | _ => false end.
Proof. apply len_eq0_spec. Qed.
Lemma g_ok_is_accepted_spec b : h_ok_is_accepted b = b.
Proof. reflexivity. Qed.
Lemma g_ok_any_rejected_spec {A} (l : list A) : h_ok_any_rejected (zlen l) = negb (match l with [] => true | _ => false end).
Proof.
  unfold h_ok_any_rejected. destruct l as [|a l]; [reflexivity|].
  assert (H : 0 < zlen (a :: l)) by (unfold zlen; simpl length; lia).
  simpl negb. apply Z.gtb_lt. lia.
Qed.
Lemma g_req_seteose_absent_spec {A} (l : list A) : h_req_seteose_absent (zlen l) = match l with [] => true | _ => false end.
Proof. apply len_eq0_spec. Qed.
Lemma g_req_alleose_missing_spec b : h_req_alleose_missing b = negb b.
Proof. reflexivity. Qed.
Lemma g_req_alleose_delete_spec b : h_req_alleose_delete b = b.
Proof. reflexivity. Qed.
Lemma g_ev_all_eose_spec b : h_ev_all_eose b = b.
Proof. reflexivity. Qed.
Lemma g_ev_child_eose_spec b : h_ev_child_eose b = b.
Proof. reflexivity. Qed.
Lemma g_ev_has_last_spec b : h_ev_has_last b = b.
Proof. reflexivity. Qed.
Lemma g_ev_older_first_spec a b : h_ev_older_first (cmpZ a b) = (a <? b).
Proof.
  unfold h_ev_older_first, cmpZ, Z.ltb. destruct (a ?= b); reflexivity.
Qed.
Lemma g_ev_ts_decreased_spec a b : h_ev_ts_decreased (cmpZ a b) = (b <? a).
Proof.
  unfold h_ev_ts_decreased, cmpZ. rewrite (Z.ltb_antisym a b), Z.leb_compare.
  destruct (a ?= b) eqn:E; reflexivity.
Qed.
Lemma g_ev_seen_reject_spec a b : h_ev_seen_reject a b = a || b.
Proof. reflexivity. Qed.
Lemma g_ev_done_spec b : h_ev_done b = b.
Proof. reflexivity. Qed.
Lemma g_ev_nomatch_spec b : h_ev_nomatch b = negb b.
Proof. reflexivity. Qed.
Lemma g_cnt_no_slot_spec {A} (l : list A) : h_cnt_no_slot (zlen l) = is_nil l.
Proof. apply len_eq0_spec. Qed.
Lemma g_cnt_set_drop_spec {A} (l : list A) q p : h_cnt_set_drop (zlen l) q p = is_nil l || (q >=? p).
Proof. unfold h_cnt_set_drop. now rewrite len_eq0_spec. Qed.
Lemma g_cnt_clear_done_spec p : h_cnt_clear_done p = (p <=? 0).
Proof. reflexivity. Qed.
Lemma g_cnt_ready_absent_spec {A} (l : list A) : h_cnt_ready_absent (zlen l) = match l with [] => true | _ => false end.
Proof. apply len_eq0_spec. Qed.

Global Opaque h_merge_too_few h_eose_already h_eose_incomplete h_event_unsendable h_ok_not_ready
  h_count_not_ready h_ok_no_slot h_ok_setmsg_drop h_ok_clear_done h_ok_ready_absent h_ok_msg_absent h_ok_is_accepted
  h_ok_any_rejected h_req_seteose_absent h_req_alleose_missing h_req_alleose_delete h_ev_all_eose
  h_ev_child_eose h_ev_has_last h_ev_older_first h_ev_ts_decreased h_ev_seen_reject h_ev_done h_ev_nomatch
  h_cnt_no_slot h_cnt_set_drop h_cnt_clear_done h_cnt_ready_absent.


(* ------------------------------------------------------------------ *)
(** * 2a. Ties: the conditions regenerated from handler.go are the ones the
      model was written for (one obligation per guard; an edit of the
      condition, or its disappearance, breaks exactly that obligation) *)

Lemma tie_merge_too_few : forall n, g_merge_too_few n = h_merge_too_few n.
Proof. reflexivity. Qed.
Lemma tie_eose_already : forall b, g_eose_already b = h_eose_already b.
Proof. reflexivity. Qed.
Lemma tie_eose_incomplete : forall b, g_eose_incomplete b = h_eose_incomplete b.
Proof. reflexivity. Qed.
Lemma tie_event_unsendable : forall b, g_event_unsendable b = h_event_unsendable b.
Proof. reflexivity. Qed.
Lemma tie_ok_not_ready : forall b, g_ok_not_ready b = h_ok_not_ready b.
Proof. reflexivity. Qed.
Lemma tie_count_not_ready : forall b, g_count_not_ready b = h_count_not_ready b.
Proof. reflexivity. Qed.
Lemma tie_ok_no_slot : forall n, g_ok_no_slot n = h_ok_no_slot n.
Proof. reflexivity. Qed.
Lemma tie_ok_setmsg_drop : forall l q p, g_ok_setmsg_drop l q p = h_ok_setmsg_drop l q p.
Proof. reflexivity. Qed.
Lemma tie_ok_clear_done : forall p, g_ok_clear_done p = h_ok_clear_done p.
Proof. reflexivity. Qed.
Lemma tie_ok_ready_absent : forall n, g_ok_ready_absent n = h_ok_ready_absent n.
Proof. reflexivity. Qed.
Lemma tie_ok_msg_absent : forall n, g_ok_msg_absent n = h_ok_msg_absent n.
Proof. reflexivity. Qed.
Lemma tie_ok_is_accepted : forall b, g_ok_is_accepted b = h_ok_is_accepted b.
Proof. reflexivity. Qed.
Lemma tie_ok_any_rejected : forall n, g_ok_any_rejected n = h_ok_any_rejected n.
Proof. reflexivity. Qed.
Lemma tie_req_seteose_absent : forall n, g_req_seteose_absent n = h_req_seteose_absent n.
Proof. reflexivity. Qed.
Lemma tie_req_alleose_missing : forall b, g_req_alleose_missing b = h_req_alleose_missing b.
Proof. reflexivity. Qed.
Lemma tie_req_alleose_delete : forall b, g_req_alleose_delete b = h_req_alleose_delete b.
Proof. reflexivity. Qed.
Lemma tie_ev_all_eose : forall b, g_ev_all_eose b = h_ev_all_eose b.
Proof. reflexivity. Qed.
Lemma tie_ev_child_eose : forall b, g_ev_child_eose b = h_ev_child_eose b.
Proof. reflexivity. Qed.
Lemma tie_ev_has_last : forall b, g_ev_has_last b = h_ev_has_last b.
Proof. reflexivity. Qed.
Lemma tie_ev_older_first : forall n, g_ev_older_first n = h_ev_older_first n.
Proof. reflexivity. Qed.
Lemma tie_ev_ts_decreased : forall n, g_ev_ts_decreased n = h_ev_ts_decreased n.
Proof. reflexivity. Qed.
Lemma tie_ev_seen_reject : forall a b, g_ev_seen_reject a b = h_ev_seen_reject a b.
Proof. reflexivity. Qed.
Lemma tie_ev_done : forall b, g_ev_done b = h_ev_done b.
Proof. reflexivity. Qed.
Lemma tie_ev_nomatch : forall b, g_ev_nomatch b = h_ev_nomatch b.
Proof. reflexivity. Qed.
Lemma tie_cnt_no_slot : forall n, g_cnt_no_slot n = h_cnt_no_slot n.
Proof. reflexivity. Qed.
Lemma tie_cnt_set_drop : forall l q p, g_cnt_set_drop l q p = h_cnt_set_drop l q p.
Proof. reflexivity. Qed.
Lemma tie_cnt_clear_done : forall p, g_cnt_clear_done p = h_cnt_clear_done p.
Proof. reflexivity. Qed.
Lemma tie_cnt_ready_absent : forall n, g_cnt_ready_absent n = h_cnt_ready_absent n.
Proof. reflexivity. Qed.

(* ------------------------------------------------------------------ *)
(** * 3. The REQ state of one subscription id as a small machine *)

Definition rview := (option (list bool) * option (option event) * option (list str) * option (list lmatcher))%type.

Definition rs_view (r : rstate) (k : str) : rview :=
  (assoc k (rs_eose r), assoc k (rs_last r), assoc k (rs_seen r), assoc k (rs_matcher r)).

(** a subscription id is either open (REQ seen, merged EOSE not yet sent:
    the four maps have an entry) or closed (no entry in any of them) *)
Inductive wphase :=
| WOpen (eo : list bool) (la : option event) (se : list str) (ms : list lmatcher)
| WClosed.

Definition view_phase (v : rview) : wphase :=
  match v with
  | (Some eo, Some la, Some se, Some ms) => WOpen eo la se ms
  | _ => WClosed
  end.

Definition view_sync (v : rview) : Prop :=
  match v with
  | (Some _, Some _, Some _, Some _) => True
  | (None, None, None, None) => True
  | _ => False
  end.

Definition ms_wf (ms : list lmatcher) : Prop := Forall (fun m => filter_wf (lm_f m)) ms.

Definition phase_wf (n : nat) (ph : wphase) : Prop :=
  match ph with
  | WOpen eo _ _ ms => length eo = n /\ ms_wf ms
  | WClosed => True
  end.

Definition rs_phase (r : rstate) (k : str) : wphase := view_phase (rs_view r k).

(** the four maps always have the same keys; slot vectors have one entry per
    child; stored filters are decoder-producible *)
Definition rs_ok (n : nat) (r : rstate) : Prop :=
  rs_size r = n /\ forall k, view_sync (rs_view r k) /\ phase_wf n (rs_phase r k).

Definition all_true (l : list bool) : bool := forallb (fun b => b) l.

(** EOSE of child [i] *)
Definition w_eose (ph : wphase) (i : nat) : wphase * bool :=
  match ph with
  | WClosed => (WClosed, false)
  | WOpen eo la se ms =>
      if all_true eo then (WClosed, false) else
      match upd_nth i true eo with
      | None => (ph, false)
      | Some eo' => if all_true eo' then (WClosed, true) else (WOpen eo' la se ms, false)
      end
  end.

(** EVENT of child [i] *)
Definition w_event (ph : wphase) (i : nat) (e : event) : wphase * bool :=
  match ph with
  | WClosed => (WClosed, true)
  | WOpen eo la se ms =>
      if all_true eo then (WClosed, true) else
      match nth_error eo i with
      | None => (ph, false)
      | Some true => (ph, false)
      | Some false =>
          if match la with Some l => ev_ts l <? ev_ts e | None => false end then (ph, false) else
          let se1 := if match la with Some l => ev_ts e <? ev_ts l | None => false end then [] else se in
          if mem_str (ev_id e) se1 then (WOpen eo (Some e) se1 ms, false) else
          let se2 := ev_id e :: se1 in
          if lms_done ms then (WOpen eo (Some e) se2 ms, false) else
          (WOpen eo (Some e) se2 (List.map (lm_step e) ms), matches_specb e (List.map lm_f ms))
      end
  end.

Ltac str_cases k sub :=
  destruct (str_dec sub k) as [?E|?N];
  [ subst; rewrite ?assoc_m_set_same, ?assoc_m_del_same
  | rewrite ?(assoc_m_set_other _ _ _ _ N), ?(assoc_m_del_other _ _ _ N) ].

Lemma rs_view_set_sub r sub fs k :
  rs_view (rs_set_sub r sub fs) k =
  if str_dec sub k then (Some (repeat false (rs_size r)), Some None, Some [], Some (lms_new fs)) else rs_view r k.
Proof.
  unfold rs_view, rs_set_sub; cbn [rs_eose rs_last rs_seen rs_matcher].
  destruct (str_dec sub k) as [E|N].
  - subst. now rewrite !assoc_m_set_same.
  - now rewrite !(assoc_m_set_other _ _ _ _ N).
Qed.

Lemma rs_view_clear r sub k :
  rs_view (rs_clear r sub) k = if str_dec sub k then (None, None, None, None) else rs_view r k.
Proof.
  unfold rs_view, rs_clear; cbn [rs_eose rs_last rs_seen rs_matcher].
  destruct (str_dec sub k) as [E|N].
  - subst. now rewrite !assoc_m_del_same.
  - now rewrite !(assoc_m_del_other _ _ _ N).
Qed.

Lemma lms_new_wf fs : Forall filter_wf fs -> ms_wf (lms_new fs).
Proof. intro H. unfold ms_wf, lms_new. rewrite Forall_map. exact H. Qed.

Lemma rs_set_sub_ok n r sub fs : rs_ok n r -> Forall filter_wf fs -> rs_ok n (rs_set_sub r sub fs).
Proof.
  intros [Hn H] Hfs. split; [exact Hn|]. intro k. unfold rs_phase. rewrite rs_view_set_sub.
  destruct (str_dec sub k); [|apply H].
  simpl. repeat split; [rewrite repeat_length; exact Hn | now apply lms_new_wf].
Qed.

Lemma rs_clear_ok n r sub : rs_ok n r -> rs_ok n (rs_clear r sub).
Proof.
  intros [Hn H]. split; [exact Hn|]. intro k. unfold rs_phase. rewrite rs_view_clear.
  destruct (str_dec sub k); [simpl; auto | apply H].
Qed.

(** a state that differs from [r] only at [sub], where its phase is [ph] *)
Definition rs_upd (r r' : rstate) (sub : str) (ph : wphase) : Prop :=
  rs_size r' = rs_size r /\
  (forall k, k <> sub -> rs_view r' k = rs_view r k) /\
  view_sync (rs_view r' sub) /\ rs_phase r' sub = ph.

Lemma rs_upd_ok n r r' sub ph : rs_ok n r -> rs_upd r r' sub ph -> phase_wf n ph -> rs_ok n r'.
Proof.
  intros [Hn H] [Hs [Hf [Hsy Hp]]] Hwf. split; [congruence|]. intro k.
  destruct (str_dec k sub) as [->|N].
  - rewrite Hp. auto.
  - unfold rs_phase. rewrite (Hf k N). apply H.
Qed.

Lemma rs_upd_refl r sub : view_sync (rs_view r sub) -> rs_upd r r sub (rs_phase r sub).
Proof. intro H. repeat split; auto. Qed.

Lemma rs_upd_clear r sub : rs_upd r (rs_clear r sub) sub WClosed.
Proof.
  repeat split.
  - intros k N. rewrite rs_view_clear. destruct (str_dec sub k); [congruence | reflexivity].
  - rewrite rs_view_clear. destruct (str_dec sub sub); [exact I | congruence].
  - unfold rs_phase. rewrite rs_view_clear. destruct (str_dec sub sub); [reflexivity | congruence].
Qed.

(** the phase of [sub] read off a synchronised view *)
Lemma sync_cases r sub :
  view_sync (rs_view r sub) ->
  (exists eo la se ms, rs_view r sub = (Some eo, Some la, Some se, Some ms)) \/
  rs_view r sub = (None, None, None, None).
Proof.
  destruct (rs_view r sub) as [[[[eo|] [la|]] [se|]] [ms|]]; simpl; try contradiction.
  - left. now exists eo, la, se, ms.
  - now right.
Qed.

Lemma all_true_nonempty (l : list bool) : all_true l = false -> l <> [].
Proof. intros H ->. discriminate. Qed.

(** AllEOSE *)
Lemma rs_all_eose_spec r sub :
  view_sync (rs_view r sub) ->
  match rs_phase r sub with
  | WClosed => rs_all_eose r sub = (r, true)
  | WOpen eo _ _ _ =>
      if all_true eo then rs_all_eose r sub = (rs_clear r sub, true) else rs_all_eose r sub = (r, false)
  end.
Proof.
  intro Hs. unfold rs_phase. destruct (sync_cases r sub Hs) as [[eo [la [se [ms E]]]]|E]; rewrite E; simpl.
  - unfold rs_all_eose. unfold rs_view in E. inversion E as [[E1 E2 E3 E4]]. rewrite E1.
    rewrite g_req_alleose_missing_spec, g_req_alleose_delete_spec. simpl.
    rewrite existsb_negb_forallb. fold (all_true eo). destruct (all_true eo); reflexivity.
  - unfold rs_all_eose. unfold rs_view in E. inversion E as [[E1 E2 E3 E4]]. rewrite E1.
    now rewrite g_req_alleose_missing_spec.
Qed.

Lemma rs_view_with_eose r sub x k :
  rs_view (rs_with_eose r (m_set sub x (rs_eose r))) k =
  if str_dec sub k then (Some x, assoc k (rs_last r), assoc k (rs_seen r), assoc k (rs_matcher r)) else rs_view r k.
Proof.
  unfold rs_view, rs_with_eose; cbn [rs_eose rs_last rs_seen rs_matcher].
  destruct (str_dec sub k) as [E|N]; [subst; now rewrite assoc_m_set_same | now rewrite (assoc_m_set_other _ _ _ _ N)].
Qed.

Lemma rs_view_with_last r sub x k :
  rs_view (rs_with_last r (m_set sub x (rs_last r))) k =
  if str_dec sub k then (assoc k (rs_eose r), Some x, assoc k (rs_seen r), assoc k (rs_matcher r)) else rs_view r k.
Proof.
  unfold rs_view, rs_with_last; cbn [rs_eose rs_last rs_seen rs_matcher].
  destruct (str_dec sub k) as [E|N]; [subst; now rewrite assoc_m_set_same | now rewrite (assoc_m_set_other _ _ _ _ N)].
Qed.

Lemma rs_view_with_seen r sub x k :
  rs_view (rs_with_seen r (m_set sub x (rs_seen r))) k =
  if str_dec sub k then (assoc k (rs_eose r), assoc k (rs_last r), Some x, assoc k (rs_matcher r)) else rs_view r k.
Proof.
  unfold rs_view, rs_with_seen; cbn [rs_eose rs_last rs_seen rs_matcher].
  destruct (str_dec sub k) as [E|N]; [subst; now rewrite assoc_m_set_same | now rewrite (assoc_m_set_other _ _ _ _ N)].
Qed.

Lemma rs_view_with_matcher r sub x k :
  rs_view (rs_with_matcher r (m_set sub x (rs_matcher r))) k =
  if str_dec sub k then (assoc k (rs_eose r), assoc k (rs_last r), assoc k (rs_seen r), Some x) else rs_view r k.
Proof.
  unfold rs_view, rs_with_matcher; cbn [rs_eose rs_last rs_seen rs_matcher].
  destruct (str_dec sub k) as [E|N]; [subst; now rewrite assoc_m_set_same | now rewrite (assoc_m_set_other _ _ _ _ N)].
Qed.

Lemma str_dec_refl (k : str) {T} (a b : T) : (if str_dec k k then a else b) = a.
Proof. destruct (str_dec k k); congruence. Qed.

Lemma str_dec_neq (k k' : str) {T} (a b : T) : k <> k' -> (if str_dec k k' then a else b) = b.
Proof. intro N. destruct (str_dec k k'); congruence. Qed.

(** a chain of updates at [sub] is an update at [sub] *)
Lemma rs_upd_trans r r1 r2 sub ph1 ph2 :
  rs_upd r r1 sub ph1 -> rs_upd r1 r2 sub ph2 -> rs_upd r r2 sub ph2.
Proof.
  intros [S1 [F1 _]] [S2 [F2 [Y2 P2]]]. repeat split; try assumption; [congruence|].
  intros k N. rewrite (F2 k N). now apply F1.
Qed.

Lemma view_of r sub eo la se ms :
  rs_view r sub = (Some eo, Some la, Some se, Some ms) ->
  assoc sub (rs_eose r) = Some eo /\ assoc sub (rs_last r) = Some la /\
  assoc sub (rs_seen r) = Some se /\ assoc sub (rs_matcher r) = Some ms.
Proof. unfold rs_view. intro E. inversion E. auto. Qed.

Lemma rs_upd_with_eose r sub eo' eo la se ms :
  rs_view r sub = (Some eo, Some la, Some se, Some ms) ->
  rs_upd r (rs_with_eose r (m_set sub eo' (rs_eose r))) sub (WOpen eo' la se ms) /\
  rs_view (rs_with_eose r (m_set sub eo' (rs_eose r))) sub = (Some eo', Some la, Some se, Some ms).
Proof.
  intro E. destruct (view_of _ _ _ _ _ _ E) as [E1 [E2 [E3 E4]]].
  assert (V : rs_view (rs_with_eose r (m_set sub eo' (rs_eose r))) sub = (Some eo', Some la, Some se, Some ms)).
  { rewrite rs_view_with_eose, str_dec_refl. now rewrite E2, E3, E4. }
  split; [|exact V]. repeat split.
  - intros k N. rewrite rs_view_with_eose. apply str_dec_neq. congruence.
  - now rewrite V.
  - unfold rs_phase. now rewrite V.
Qed.

Lemma rs_upd_with_last r sub la' eo la se ms :
  rs_view r sub = (Some eo, Some la, Some se, Some ms) ->
  rs_upd r (rs_with_last r (m_set sub la' (rs_last r))) sub (WOpen eo la' se ms) /\
  rs_view (rs_with_last r (m_set sub la' (rs_last r))) sub = (Some eo, Some la', Some se, Some ms).
Proof.
  intro E. destruct (view_of _ _ _ _ _ _ E) as [E1 [E2 [E3 E4]]].
  assert (V : rs_view (rs_with_last r (m_set sub la' (rs_last r))) sub = (Some eo, Some la', Some se, Some ms)).
  { rewrite rs_view_with_last, str_dec_refl. now rewrite E1, E3, E4. }
  split; [|exact V]. repeat split.
  - intros k N. rewrite rs_view_with_last. apply str_dec_neq. congruence.
  - now rewrite V.
  - unfold rs_phase. now rewrite V.
Qed.

Lemma rs_upd_with_seen r sub se' eo la se ms :
  rs_view r sub = (Some eo, Some la, Some se, Some ms) ->
  rs_upd r (rs_with_seen r (m_set sub se' (rs_seen r))) sub (WOpen eo la se' ms) /\
  rs_view (rs_with_seen r (m_set sub se' (rs_seen r))) sub = (Some eo, Some la, Some se', Some ms).
Proof.
  intro E. destruct (view_of _ _ _ _ _ _ E) as [E1 [E2 [E3 E4]]].
  assert (V : rs_view (rs_with_seen r (m_set sub se' (rs_seen r))) sub = (Some eo, Some la, Some se', Some ms)).
  { rewrite rs_view_with_seen, str_dec_refl. now rewrite E1, E2, E4. }
  split; [|exact V]. repeat split.
  - intros k N. rewrite rs_view_with_seen. apply str_dec_neq. congruence.
  - now rewrite V.
  - unfold rs_phase. now rewrite V.
Qed.

Lemma rs_upd_with_matcher r sub ms' eo la se ms :
  rs_view r sub = (Some eo, Some la, Some se, Some ms) ->
  rs_upd r (rs_with_matcher r (m_set sub ms' (rs_matcher r))) sub (WOpen eo la se ms') /\
  rs_view (rs_with_matcher r (m_set sub ms' (rs_matcher r))) sub = (Some eo, Some la, Some se, Some ms').
Proof.
  intro E. destruct (view_of _ _ _ _ _ _ E) as [E1 [E2 [E3 E4]]].
  assert (V : rs_view (rs_with_matcher r (m_set sub ms' (rs_matcher r))) sub = (Some eo, Some la, Some se, Some ms')).
  { rewrite rs_view_with_matcher, str_dec_refl. now rewrite E1, E2, E3. }
  split; [|exact V]. repeat split.
  - intros k N. rewrite rs_view_with_matcher. apply str_dec_neq. congruence.
  - now rewrite V.
  - unfold rs_phase. now rewrite V.
Qed.

Lemma rs_upd_then_clear r r1 sub ph : rs_upd r r1 sub ph -> rs_upd r (rs_clear r1 sub) sub WClosed.
Proof. intro H. eapply rs_upd_trans; [exact H | apply rs_upd_clear]. Qed.

Lemma phase_open_view r sub eo la se ms :
  view_sync (rs_view r sub) -> rs_phase r sub = WOpen eo la se ms ->
  rs_view r sub = (Some eo, Some la, Some se, Some ms).
Proof.
  intros Hs Hp. unfold rs_phase in Hp.
  destruct (rs_view r sub) as [[[[eo'|] [la'|]] [se'|]] [ms'|]]; simpl in *; try contradiction; try discriminate.
  now inversion Hp.
Qed.

(** handleSendEOSEMsg is [w_eose] on the phase of its subscription id and
    touches nothing else *)
Lemma send_eose_spec n s i sub :
  rs_ok n (st_rs s) -> (i < n)%nat ->
  exists r',
    send_eose s i sub =
      (with_rs s r', if snd (w_eose (rs_phase (st_rs s) sub) i) then Some (SEose sub) else None) /\
    rs_upd (st_rs s) r' sub (fst (w_eose (rs_phase (st_rs s) sub) i)).
Proof.
  intros [Hn Hok] Hi. set (r := st_rs s) in *.
  destruct (Hok sub) as [Hs Hwf].
  unfold send_eose. fold r.
  pose proof (rs_all_eose_spec r sub Hs) as HA.
  destruct (rs_phase r sub) as [eo la se ms|] eqn:Hp.
  2:{ rewrite HA, g_eose_already_spec. exists r. split; [reflexivity|].
      simpl. rewrite <- Hp. now apply rs_upd_refl. }
  simpl w_eose. destruct Hwf as [Hlen Hms].
  destruct (all_true eo) eqn:Hall.
  - rewrite HA, g_eose_already_spec. exists (rs_clear r sub). split; [reflexivity | apply rs_upd_clear].
  - rewrite HA, g_eose_already_spec.
    pose proof (phase_open_view r sub _ _ _ _ Hs Hp) as V.
    destruct (view_of _ _ _ _ _ _ V) as [E1 _].
    unfold rs_set_eose. rewrite E1. simpl vlist.
    rewrite g_req_seteose_absent_spec.
    destruct eo as [|b0 eo0] eqn:Eeo; [discriminate|]. rewrite <- Eeo in *.
    destruct (upd_nth_some i true eo) as [eo' Eu]; [lia|]. rewrite Eu.
    destruct (rs_upd_with_eose r sub eo' eo la se ms V) as [U2 V2].
    set (r2 := rs_with_eose r (m_set sub eo' (rs_eose r))) in *.
    assert (Hs2 : view_sync (rs_view r2 sub)) by (rewrite V2; exact I).
    pose proof (rs_all_eose_spec r2 sub Hs2) as HA2.
    unfold rs_phase in HA2. rewrite V2 in HA2. simpl in HA2.
    destruct (all_true eo') eqn:Hall'; rewrite HA2, g_eose_incomplete_spec; simpl.
    + exists (rs_clear r2 sub). split; [reflexivity | eapply rs_upd_then_clear; exact U2].
    + exists r2. split; [reflexivity | exact U2].
Qed.

Definition older_first (la : option event) (e : event) : bool :=
  match la with Some l => ev_ts l <? ev_ts e | None => false end.
Definition ts_decreased (la : option event) (e : event) : bool :=
  match la with Some l => ev_ts e <? ev_ts l | None => false end.

Lemma rs_order_spec r sub e eo la se ms :
  rs_view r sub = (Some eo, Some la, Some se, Some ms) ->
  if older_first la e then rs_order r sub e = None
  else
    let se1 := if ts_decreased la e then [] else se in
    exists r3, rs_order r sub e = Some r3 /\
               rs_upd r r3 sub (WOpen eo (Some e) se1 ms) /\
               rs_view r3 sub = (Some eo, Some (Some e), Some se1, Some ms).
Proof.
  intro V. destruct (view_of _ _ _ _ _ _ V) as [E1 [E2 [E3 E4]]].
  unfold rs_order, rs_last_of. rewrite E2.
  destruct la as [l|]; cbn [isSome older_first ts_decreased].
  - rewrite g_ev_has_last_spec, g_ev_older_first_spec, g_ev_ts_decreased_spec. cbn [andb].
    destruct (ev_ts l <? ev_ts e) eqn:Eo; [reflexivity|].
    destruct (ev_ts e <? ev_ts l) eqn:Ed.
    + destruct (rs_upd_with_seen r sub [] eo (Some l) se ms V) as [U2 V2].
      destruct (rs_upd_with_last _ sub (Some e) eo (Some l) [] ms V2) as [U3 V3].
      eexists. split; [reflexivity|]. split; [|exact V3]. eapply rs_upd_trans; eauto.
    + destruct (rs_upd_with_last _ sub (Some e) eo (Some l) se ms V) as [U3 V3].
      eexists. split; [reflexivity|]. split; [exact U3 | exact V3].
  - rewrite g_ev_has_last_spec. cbn [andb].
    destruct (rs_upd_with_last _ sub (Some e) eo None se ms V) as [U3 V3].
    eexists. split; [reflexivity|]. split; [exact U3 | exact V3].
Qed.

Definition w_dedup_limit (eo : list bool) (la : option event) (se1 : list str) (ms : list lmatcher) (e : event)
  : wphase * bool :=
  if mem_str (ev_id e) se1 then (WOpen eo la se1 ms, false) else
  let se2 := ev_id e :: se1 in
  if lms_done ms then (WOpen eo la se2 ms, false) else
  (WOpen eo la se2 (List.map (lm_step e) ms), matches_specb e (List.map lm_f ms)).

Lemma rs_dedup_limit_spec r3 sub e eo la se1 ms :
  rs_view r3 sub = (Some eo, Some la, Some se1, Some ms) ->
  tags_nonempty e -> ms_wf ms ->
  exists r',
    rs_dedup_limit r3 sub e = Some (r', snd (w_dedup_limit eo la se1 ms e)) /\
    rs_upd r3 r' sub (fst (w_dedup_limit eo la se1 ms e)).
Proof.
  intros V Hne Hwf. destruct (view_of _ _ _ _ _ _ V) as [E1 [E2 [E3 E4]]].
  unfold rs_dedup_limit, w_dedup_limit. rewrite E3. cbn [isSome negb optb].
  rewrite g_ev_seen_reject_spec. cbn [orb].
  destruct (mem_str (ev_id e) se1) eqn:Em.
  - exists r3. split; [reflexivity|]. cbn [fst].
    replace (WOpen eo la se1 ms) with (rs_phase r3 sub) by (unfold rs_phase; now rewrite V).
    apply rs_upd_refl. now rewrite V.
  - destruct (rs_upd_with_seen r3 sub (ev_id e :: se1) eo la se1 ms V) as [U4 V4].
    set (r4 := rs_with_seen r3 (m_set sub (ev_id e :: se1) (rs_seen r3))) in *.
    destruct (view_of _ _ _ _ _ _ V4) as [_ [_ [_ E44]]]. rewrite E44.
    rewrite g_ev_done_spec. destruct (lms_done ms) eqn:Ed.
    + exists r4. split; [reflexivity | exact U4].
    + rewrite (lms_limit_match_step e ms Hne Hwf).
      destruct (rs_upd_with_matcher r4 sub (List.map (lm_step e) ms) eo la (ev_id e :: se1) ms V4) as [U5 V5].
      rewrite g_ev_nomatch_spec.
      eexists. split.
      * cbn [snd]. destruct (matches_specb e (List.map lm_f ms)); reflexivity.
      * cbn [fst]. eapply rs_upd_trans; eauto.
Qed.

Lemma w_event_open eo la se ms i e :
  all_true eo = false -> nth_error eo i = Some false ->
  w_event (WOpen eo la se ms) i e =
  if older_first la e then (WOpen eo la se ms, false)
  else w_dedup_limit eo (Some e) (if ts_decreased la e then [] else se) ms e.
Proof.
  intros Ha Hn. unfold w_event, w_dedup_limit, older_first, ts_decreased. rewrite Ha, Hn. reflexivity.
Qed.

(** handleSendEventMsg is [w_event] on the phase of its subscription id and
    touches nothing else *)
Lemma send_event_spec n s i sub e :
  rs_ok n (st_rs s) -> (i < n)%nat -> tags_nonempty e ->
  exists r',
    send_event s i sub e =
      (with_rs s r', if snd (w_event (rs_phase (st_rs s) sub) i e) then Some (SEvent sub e) else None) /\
    rs_upd (st_rs s) r' sub (fst (w_event (rs_phase (st_rs s) sub) i e)).
Proof.
  intros [Hn Hok] Hi Hne. set (r := st_rs s) in *.
  destruct (Hok sub) as [Hs Hwf].
  unfold send_event, rs_is_sendable. fold r.
  pose proof (rs_all_eose_spec r sub Hs) as HA.
  destruct (rs_phase r sub) as [eo la se ms|] eqn:Hp.
  2:{ rewrite HA, g_ev_all_eose_spec, g_event_unsendable_spec. exists r. split; [reflexivity|].
      simpl. rewrite <- Hp. now apply rs_upd_refl. }
  destruct Hwf as [Hlen Hms].
  destruct (all_true eo) eqn:Hall.
  { rewrite HA, g_ev_all_eose_spec, g_event_unsendable_spec. unfold w_event. rewrite Hall.
    exists (rs_clear r sub). split; [reflexivity | apply rs_upd_clear]. }
  rewrite HA, g_ev_all_eose_spec.
  pose proof (phase_open_view r sub _ _ _ _ Hs Hp) as V.
  destruct (view_of _ _ _ _ _ _ V) as [E1 _].
  unfold rs_is_eose. rewrite E1. cbn [vlist].
  destruct eo as [|b0 eo0] eqn:Eeo; [discriminate|]. rewrite <- Eeo in *.
  destruct (nth_error eo i) as [b|] eqn:En.
  2:{ apply nth_error_None in En. lia. }
  replace (match eo with [] => Some true | _ :: _ => nth_error eo i end) with (Some b)
    by (rewrite Eeo in *; now rewrite En).
  rewrite g_ev_child_eose_spec.
  destruct b.
  { rewrite g_event_unsendable_spec. unfold w_event. rewrite Hall, En.
    exists r. split; [reflexivity|]. cbn [fst]. rewrite <- Hp. now apply rs_upd_refl. }
  rewrite (w_event_open eo la se ms i e Hall En).
  pose proof (rs_order_spec r sub e eo la se ms V) as HO.
  destruct (older_first la e).
  { rewrite HO, g_event_unsendable_spec. exists r. split; [reflexivity|]. cbn [fst].
    rewrite <- Hp. now apply rs_upd_refl. }
  destruct HO as [r3 [EO [U3 V3]]]. rewrite EO.
  destruct (rs_dedup_limit_spec r3 sub e eo (Some e) _ ms V3 Hne Hms) as [r' [ED U']].
  rewrite ED, g_event_unsendable_spec. exists r'. split.
  - destruct (snd (w_dedup_limit eo (Some e) (if ts_decreased la e then [] else se) ms e)); reflexivity.
  - eapply rs_upd_trans; eauto.
Qed.

(* ------------------------------------------------------------------ *)
(** * 4. Reply queues (OK and COUNT state) *)

(** what the code holds for one id: the number of submissions awaiting their
    merged reply and one FIFO queue per child; [None] = no entry *)
Definition entry (A : Type) := option (Z * list (list A)).

Definition ent {A} (pend : list (str * Z)) (m : list (str * list (list A))) (k : str) : entry A :=
  match assoc k m with
  | None => None
  | Some qs => Some (zget k pend, qs)
  end.

(** one queue per child; between two critical sections some queue is empty
    (a merged reply is produced as soon as none is); a stored reply carries the
    key it is stored under *)
Definition ent_ok {A} (key : A -> str) (n : nat) (k : str) (e : entry A) : Prop :=
  match e with
  | None => True
  | Some (p, qs) =>
      length qs = n /\ (n = 0%nat \/ existsb is_nil qs = true) /\
      forall q a, In q qs -> In a q -> key a = k
  end.

Definition tab_ok {A} (key : A -> str) (n : nat) (pend : list (str * Z)) (m : list (str * list (list A))) : Prop :=
  forall k, ent_ok key n k (ent pend m k) /\ (assoc k m = None -> zget k pend = 0).

(** a submission *)
Definition w_req {A} (n : nat) (e : entry A) : entry A :=
  match e with
  | None => Some (1, repeat [] n)
  | Some (p, qs) => Some (p + 1, qs)
  end.

(** a reply [a] of child [i]: the new entry and, when every queue is non-empty
    now, the heads of the queues (which are then merged and dropped) *)
Definition w_put {A} (e : entry A) (i : nat) (a : A) : entry A * option (list (option A)) :=
  match e with
  | None => (None, None)
  | Some (p, qs) =>
      match nth_error qs i with
      | None => (e, None)
      | Some q =>
          if zlen q >=? p then (e, None) else
          match upd_nth i (q ++ [a]) qs with
          | None => (e, None)
          | Some qs' =>
              if existsb is_nil qs' then (Some (p, qs'), None)
              else (if p - 1 <=? 0 then None else Some (p - 1, List.map (@tl A) qs'),
                    Some (List.map hd_opt qs'))
          end
      end
  end.

Lemma zget_set_same k v m : zget k (m_set k v m) = v.
Proof. unfold zget. now rewrite assoc_m_set_same. Qed.

Lemma zget_set_other k k' v m : k <> k' -> zget k' (m_set k v m) = zget k' m.
Proof. intro N. unfold zget. now rewrite assoc_m_set_other. Qed.

Lemma zget_del_same k m : zget k (m_del k m) = 0.
Proof. unfold zget. now rewrite assoc_m_del_same. Qed.

Lemma zget_del_other k k' m : k <> k' -> zget k' (m_del k m) = zget k' m.
Proof. intro N. unfold zget. now rewrite assoc_m_del_other. Qed.

Lemma nth_error_upd_same {A} i (v : A) l l' : upd_nth i v l = Some l' -> nth_error l' i = Some v.
Proof.
  revert i l'. induction l as [|x l IH]; intros [|i] l' H; simpl in H; try discriminate.
  - now inversion H.
  - destruct (upd_nth i v l) eqn:E; [|discriminate]. inversion H; subst. simpl. eapply IH; eauto.
Qed.

Lemma nth_error_upd_other {A} i j (v : A) l l' : upd_nth i v l = Some l' -> i <> j -> nth_error l' j = nth_error l j.
Proof.
  revert i j l'. induction l as [|x l IH]; intros [|i] j l' H N; simpl in H; try discriminate.
  - inversion H; subst. destruct j; [congruence | reflexivity].
  - destruct (upd_nth i v l) eqn:E; [|discriminate]. inversion H; subst.
    destruct j; [reflexivity|]. simpl. eapply IH; eauto.
Qed.

(** before the update some queue was empty, after it none is: the updated
    queue was the empty one *)
Lemma upd_fills_the_gap {A} i (v : list A) l l' :
  existsb is_nil l = true -> upd_nth i v l = Some l' -> existsb is_nil l' = false -> nth_error l i = Some [].
Proof.
  revert i l'. induction l as [|x l IH]; intros [|i] l' He Hu Hn; simpl in Hu; try discriminate.
  - inversion Hu; subst. simpl in *. apply orb_false_iff in Hn as [_ Hn].
    rewrite Hn, orb_false_r in He. destruct x; [reflexivity | discriminate].
  - destruct (upd_nth i v l) eqn:E; [|discriminate]. inversion Hu; subst. simpl in *.
    apply orb_false_iff in Hn as [Hx Hn]. rewrite Hx in He. simpl in He. eapply IH; eauto.
Qed.

Lemma tails_map_tl {A} (l : list (list A)) : existsb is_nil l = false -> tails l = Some (List.map (@tl A) l).
Proof.
  induction l as [|q l IH]; simpl; [reflexivity|]. intro H. apply orb_false_iff in H as [Hq Hl].
  destruct q as [|x q]; [discriminate|]. now rewrite (IH Hl).
Qed.

Lemma heads_full {A} (l : list (list A)) :
  existsb is_nil l = false -> exists xs, List.map hd_opt l = List.map Some xs /\ length xs = length l.
Proof.
  induction l as [|q l IH]; simpl; intro H; [exists []; split; reflexivity|].
  apply orb_false_iff in H as [Hq Hl]. destruct q as [|x q]; [discriminate|].
  destruct (IH Hl) as [xs [E L]]. exists (x :: xs). simpl. now rewrite E, L.
Qed.

Lemma heads_In {A} (l : list (list A)) a : In (Some a) (List.map hd_opt l) -> exists q, In q l /\ In a q.
Proof.
  intro H. apply in_map_iff in H as [q [E Hq]]. destruct q as [|x q]; [discriminate|].
  inversion E; subst. exists (a :: q). split; [assumption | now left].
Qed.

Lemma tls_In {A} (l : list (list A)) q' a : In q' (List.map (@tl A) l) -> In a q' -> exists q, In q l /\ In a q.
Proof.
  intros H Ha. apply in_map_iff in H as [q [E Hq]]. subst q'. exists q. split; [assumption|].
  destruct q; [destruct Ha | now right].
Qed.

Lemma nth_error_existsb_nil {A} (l : list (list A)) i : nth_error l i = Some [] -> existsb is_nil l = true.
Proof. intro H. apply existsb_exists. exists []. split; [eapply nth_error_In; eauto | reflexivity]. Qed.

Lemma In_repeat_nil {A} n (q : list A) : In q (repeat [] n) -> q = [].
Proof. intro H. now apply repeat_spec in H. Qed.

Lemma existsb_nil_repeat {A} n : n <> 0%nat -> existsb is_nil (@repeat (list A) [] n) = true.
Proof. destruct n; [congruence | reflexivity]. Qed.

(** [w_req] keeps an entry well-formed *)
Lemma w_req_ok {A} (key : A -> str) n k (e : entry A) : ent_ok key n k e -> ent_ok key n k (w_req n e).
Proof.
  destruct e as [[p qs]|]; cbn [w_req ent_ok]; [tauto|]. intros _.
  split; [apply repeat_length|]. split.
  - destruct n; [now left | right; reflexivity].
  - intros q a Hq Ha. apply In_repeat_nil in Hq. subst q. destruct Ha.
Qed.

(** ... and so does [w_put] *)
Lemma w_put_ok {A} (key : A -> str) n (e : entry A) i a :
  ent_ok key n (key a) e -> ent_ok key n (key a) (fst (w_put e i a)).
Proof.
  destruct e as [[p qs]|]; cbn [w_put]; [|auto]. intros [Hl [He Hk]].
  destruct (nth_error qs i) as [q|] eqn:En; [|cbn; auto].
  destruct (zlen q >=? p); [cbn; auto|].
  destruct (upd_nth i (q ++ [a]) qs) as [qs'|] eqn:Eu; [|cbn; auto].
  assert (Hl' : length qs' = n) by (rewrite (upd_nth_length _ _ _ _ Eu); exact Hl).
  assert (Hk' : forall q0 a0, In q0 qs' -> In a0 q0 -> key a0 = key a).
  { intros q0 a0 H0 Ha0. destruct (upd_nth_In _ _ _ _ _ Eu H0) as [->|Hin].
    - apply in_app_or in Ha0 as [Ha0|[<-|[]]]; [|reflexivity]. apply (Hk q); [eapply nth_error_In; eauto | assumption].
    - now apply (Hk q0). }
  destruct (existsb is_nil qs') eqn:Ex; cbn [fst].
  - cbn. auto.
  - destruct (p - 1 <=? 0); [exact I|]. cbn [ent_ok]. split; [now rewrite map_length|]. split.
    + destruct He as [He|He]; [now left | right].
      pose proof (upd_fills_the_gap _ _ _ _ He Eu Ex) as Hq. rewrite En in Hq. inversion Hq; subst q.
      apply (nth_error_existsb_nil _ i). rewrite nth_error_map, (nth_error_upd_same _ _ _ _ Eu). reflexivity.
    + intros q0 a0 H0 Ha0. destruct (tls_In _ _ _ H0 Ha0) as [q1 [H1 H2]]. now apply (Hk' q1).
Qed.

(** what a full vector of heads is made of *)
Lemma w_put_full_In {A} (key : A -> str) n (e : entry A) i a l' b :
  ent_ok key n (key a) e -> snd (w_put e i a) = Some l' -> In (Some b) l' -> key b = key a.
Proof.
  destruct e as [[p qs]|]; cbn [w_put]; [|discriminate]. intros [Hl [He Hk]].
  destruct (nth_error qs i) as [q|] eqn:En; [|discriminate].
  destruct (zlen q >=? p); [discriminate|].
  destruct (upd_nth i (q ++ [a]) qs) as [qs'|] eqn:Eu; [|discriminate].
  destruct (existsb is_nil qs'); cbn [snd]; [discriminate|]. intros H Hb. inversion H; subst l'.
  destruct (heads_In _ _ Hb) as [q0 [H0 Hb0]].
  destruct (upd_nth_In _ _ _ _ _ Eu H0) as [->|Hin].
  - apply in_app_or in Hb0 as [Hb0|[<-|[]]]; [|reflexivity]. apply (Hk q); [eapply nth_error_In; eauto | assumption].
  - now apply (Hk q0).
Qed.

Lemma w_put_full_vector {A} (e : entry A) i a l' :
  snd (w_put e i a) = Some l' -> exists xs, l' = List.map Some xs /\ xs <> [].
Proof.
  destruct e as [[p qs]|]; cbn [w_put]; [|discriminate].
  destruct (nth_error qs i) as [q|] eqn:En; [|discriminate].
  destruct (zlen q >=? p); [discriminate|].
  destruct (upd_nth i (q ++ [a]) qs) as [qs'|] eqn:Eu; [|discriminate].
  destruct (existsb is_nil qs') eqn:Ex; cbn [snd]; [discriminate|]. intro H. inversion H; subst l'.
  destruct (heads_full _ Ex) as [xs [E L]]. exists xs. split; [exact E|].
  intro Z0. subst xs. cbn in L. pose proof (upd_nth_length _ _ _ _ Eu) as L2.
  apply nth_error_In in En. destruct qs; [destruct En | rewrite <- L in L2; discriminate].
Qed.

(** ** OK *)

Definition os_ent (o : ostate) (k : str) : entry okm := ent (os_pending o) (os_s o) k.

Definition os_ok (n : nat) (o : ostate) : Prop := os_size o = n /\ tab_ok ok_id n (os_pending o) (os_s o).

Definition ok_merge (msgs : list (option okm)) : option okm :=
  match ok_partition msgs with
  | None => None
  | Some (oks, ngs) => if h_ok_any_rejected (zlen ngs) then join_oks ngs else join_oks oks
  end.

Lemma ok_partition_some xs :
  ok_partition (List.map Some xs) = Some (filter ok_acc xs, filter (fun m => negb (ok_acc m)) xs).
Proof.
  induction xs as [|x xs IH]; simpl; [reflexivity|]. rewrite IH, g_ok_is_accepted_spec.
  destruct (ok_acc x); reflexivity.
Qed.

Lemma filter_all_false {A} (p : A -> bool) l : filter (fun x => negb (p x)) l = [] -> filter p l = l.
Proof.
  induction l as [|x l IH]; simpl; [reflexivity|]. destruct (p x); simpl; [|discriminate].
  intro H. now rewrite IH.
Qed.

Lemma ok_merge_full xs : xs <> [] -> exists r, ok_merge (List.map Some xs) = Some r.
Proof.
  intro Hne. unfold ok_merge. rewrite ok_partition_some, g_ok_any_rejected_spec.
  destruct (filter (fun m => negb (ok_acc m)) xs) as [|ng ngs] eqn:E; cbn [negb].
  - rewrite (filter_all_false _ _ E). destruct xs; [congruence | eexists; reflexivity].
  - eexists; reflexivity.
Qed.

Definition out_ok (full : option (list (option okm))) : option smsg :=
  match full with
  | Some l' => option_map SOk (ok_merge l')
  | None => None
  end.

Lemma match_nonempty {A B} (l : list A) (a b : B) :
  l <> [] -> match l with [] => a | _ :: _ => b end = b.
Proof. destruct l; congruence. Qed.

Ltac split5 := split; [|split; [|split; [|split]]].

(** TrySetEventID is [w_req] on the entry of its event id and touches nothing else *)
Lemma os_try_set_spec n o id :
  os_ok n o ->
  os_ok n (os_try_set o id) /\
  os_ent (os_try_set o id) id = w_req n (os_ent o id) /\
  (forall k, k <> id -> os_ent (os_try_set o id) k = os_ent o k).
Proof.
  intros [Hn Hok]. unfold os_try_set, os_ent, ent. cbn [os_pending os_s os_size].
  assert (E1 : ent (m_set id (zget id (os_pending o) + 1) (os_pending o))
                 (if h_ok_no_slot (zlen (vlist (assoc id (os_s o))))
                  then m_set id (repeat [] (os_size o)) (os_s o) else os_s o) id = w_req n (os_ent o id)).
  { unfold os_ent, ent. rewrite zget_set_same, g_ok_no_slot_spec.
    destruct (assoc id (os_s o)) as [qs|] eqn:Ea; cbn [vlist].
    - destruct (Hok id) as [Hk _]. unfold ent in Hk. rewrite Ea in Hk. destruct Hk as [Hl _].
      destruct qs as [|q qs]; cbn [is_nil].
      + rewrite assoc_m_set_same. cbn [w_req]. cbn in Hl. rewrite Hn, <- Hl. reflexivity.
      + rewrite Ea. reflexivity.
    - cbn [is_nil]. rewrite assoc_m_set_same, Hn. destruct (Hok id) as [_ H0]. rewrite (H0 Ea). reflexivity. }
  assert (E2 : forall k, k <> id ->
             ent (m_set id (zget id (os_pending o) + 1) (os_pending o))
                 (if h_ok_no_slot (zlen (vlist (assoc id (os_s o))))
                  then m_set id (repeat [] (os_size o)) (os_s o) else os_s o) k = ent (os_pending o) (os_s o) k).
  { intros k N. unfold ent. rewrite zget_set_other by congruence.
    destruct (h_ok_no_slot _); [rewrite assoc_m_set_other by congruence|]; reflexivity. }
  split; [|split; [exact E1 | exact E2]].
  split; [exact Hn|]. cbn [os_pending os_s]. intro k. destruct (str_dec id k) as [<-|N].
  - split.
    + rewrite E1. apply w_req_ok. apply Hok.
    + intro H0. exfalso. unfold ent in E1. rewrite H0 in E1. unfold os_ent in E1.
      destruct (ent (os_pending o) (os_s o) id) as [[p qs]|]; discriminate.
  - split.
    + rewrite E2 by congruence. apply Hok.
    + rewrite zget_set_other by assumption. intro H0. apply Hok.
      destruct (h_ok_no_slot _); [rewrite assoc_m_set_other in H0 by assumption|]; exact H0.
Qed.

(** handleSendOKMsg is [w_put] on the entry of its event id and touches
    nothing else; it cannot panic *)
Lemma send_ok_spec n s i m :
  os_ok n (st_os s) -> (i < n)%nat ->
  let v := os_ent (st_os s) (ok_id m) in
  exists o',
    send_ok s i m = (with_os s o', out_ok (snd (w_put v i m))) /\
    os_ok n o' /\
    (forall k, k <> ok_id m -> os_ent o' k = os_ent (st_os s) k) /\
    os_ent o' (ok_id m) = fst (w_put v i m) /\
    (forall l', snd (w_put v i m) = Some l' -> exists r, ok_merge l' = Some r).
Proof.
  intros [Hn Hok] Hi v. set (o := st_os s) in *. set (id := ok_id m) in *.
  assert (Hfull : forall l', snd (w_put v i m) = Some l' -> exists r, ok_merge l' = Some r).
  { intros l' H. destruct (w_put_full_vector _ _ _ _ H) as [xs [-> Hne]]. now apply ok_merge_full. }
  assert (Hsame : exists o', send_ok s i m = (with_os s o', out_ok (snd (w_put v i m))) /\
                     os_size o' = n /\
                     (forall k, k <> id -> os_ent o' k = os_ent o k) /\
                     (forall k, k <> id -> assoc k (os_s o') = None -> zget k (os_pending o') = 0) /\
                     os_ent o' id = fst (w_put v i m) /\
                     (assoc id (os_s o') = None -> zget id (os_pending o') = 0)).
  { unfold send_ok, os_set_msg. fold o. fold id.
    assert (Hframe0 : forall k, k <> id -> assoc k (os_s o) = None -> zget k (os_pending o) = 0)
      by (intros k _; apply Hok).
    unfold v, os_ent, ent. destruct (assoc id (os_s o)) as [qs|] eqn:Ea; cbn [vlist].
    2:{ cbn [idx_guarded]. rewrite g_ok_setmsg_drop_spec. cbn [is_nil orb].
        unfold os_ready. fold id. rewrite Ea. cbn [vlist]. rewrite g_ok_ready_absent_spec, g_ok_not_ready_spec.
        cbn [negb w_put snd fst out_ok]. exists o. split5; auto.
        split; [unfold os_ent, ent; now rewrite Ea | intros _; apply Hok; exact Ea]. }
    destruct (Hok id) as [Hk _]. unfold ent in Hk. rewrite Ea in Hk. destruct Hk as [Hl [He Hkey]].
    destruct He as [He|He]; [lia|].
    destruct (nth_error qs i) as [q|] eqn:En.
    2:{ exfalso. apply nth_error_None in En. lia. }
    assert (Hne : qs <> []) by (intro E; subst qs; destruct i; discriminate).
    replace (idx_guarded qs i) with (Some q) by (destruct qs; [congruence | now rewrite <- En]).
    cbn [w_put]. rewrite En.
    rewrite g_ok_setmsg_drop_spec. replace (is_nil qs) with false by (destruct qs; [congruence | reflexivity]).
    cbn [orb]. destruct (zlen q >=? zget id (os_pending o)) eqn:Ed.
    { (* dropped *)
      unfold os_ready. fold id. rewrite Ea. cbn [vlist].
      rewrite g_ok_ready_absent_spec, g_ok_not_ready_spec, (match_nonempty qs) by exact Hne.
      rewrite He. cbn [negb snd fst out_ok]. exists o. split5; auto.
      split; [unfold os_ent, ent; now rewrite Ea | intro H0; rewrite Ea in H0; discriminate]. }
    destruct (upd_nth_some i (q ++ [m]) qs) as [qs' Eu]; [lia|]. rewrite Eu.
    set (o1 := mkOS (os_size o) (os_pending o) (m_set id qs' (os_s o))).
    assert (Hl' : length qs' = n) by (rewrite (upd_nth_length _ _ _ _ Eu); exact Hl).
    assert (Hne' : qs' <> []) by (intro E; rewrite E in Hl'; simpl in Hl'; lia).
    unfold os_ready. cbn [os_s o1]. rewrite assoc_m_set_same. cbn [vlist].
    rewrite g_ok_ready_absent_spec, g_ok_not_ready_spec, (match_nonempty qs') by exact Hne'.
    destruct (existsb is_nil qs') eqn:Ex; cbn [negb snd fst out_ok].
    { exists o1. split5; auto.
      - intros k N. unfold os_ent, ent. cbn [os_s os_pending o1]. now rewrite assoc_m_set_other by congruence.
      - intros k N. cbn [os_s os_pending o1]. rewrite assoc_m_set_other by congruence. now apply Hframe0.
      - split; [unfold os_ent, ent; cbn [os_s os_pending o1]; now rewrite assoc_m_set_same|].
        cbn [os_s o1]. rewrite assoc_m_set_same. discriminate. }
    (* every queue is non-empty: merge the heads, drop them *)
    destruct (heads_full _ Ex) as [xs [Exs Lxs]].
    destruct (ok_merge_full xs) as [r Er]; [intro E; subst xs; cbn in Lxs; rewrite <- Lxs in Hl'; lia|].
    unfold os_msg. cbn [os_s o1]. rewrite assoc_m_set_same. cbn [vlist].
    rewrite g_ok_msg_absent_spec, (match_nonempty qs') by exact Hne'.
    fold (ok_merge (List.map hd_opt qs')). rewrite Exs, Er. cbn [option_map].
    unfold os_clear. cbn [os_s os_pending os_size o1]. rewrite assoc_m_set_same. cbn [vlist].
    rewrite (tails_map_tl _ Ex), g_ok_clear_done_spec.
    destruct (zget id (os_pending o) - 1 <=? 0) eqn:Ep.
    - eexists. split5; [reflexivity | exact Hn | | | ].
      + intros k N. unfold os_ent, ent. cbn [os_s os_pending].
        rewrite zget_del_other by congruence. rewrite !assoc_m_del_other, !assoc_m_set_other by congruence. reflexivity.
      + intros k N. cbn [os_s os_pending]. rewrite zget_del_other by congruence.
        rewrite !assoc_m_del_other, !assoc_m_set_other by congruence. now apply Hframe0.
      + split; [unfold os_ent, ent; cbn [os_s]; now rewrite assoc_m_del_same|].
        intros _. cbn [os_pending]. apply zget_del_same.
    - eexists. split5; [reflexivity | exact Hn | | | ].
      + intros k N. unfold os_ent, ent. cbn [os_s os_pending].
        rewrite zget_set_other by congruence. rewrite !assoc_m_set_other by congruence. reflexivity.
      + intros k N. cbn [os_s os_pending]. rewrite zget_set_other by congruence.
        rewrite !assoc_m_set_other by congruence. now apply Hframe0.
      + split; [unfold os_ent, ent; cbn [os_s os_pending]; now rewrite assoc_m_set_same, zget_set_same|].
        cbn [os_s]. rewrite assoc_m_set_same. discriminate. }
  destruct Hsame as [o' [E [Hsz [Hoth [Hoth0 [Hid Hid0]]]]]].
  exists o'. split5; auto.
  split; [exact Hsz|]. intro k. destruct (str_dec id k) as [<-|N].
  - split; [|exact Hid0]. fold (os_ent o' id). rewrite Hid. apply w_put_ok. apply (Hok id).
  - split; [|apply Hoth0; congruence]. fold (os_ent o' k). rewrite Hoth by congruence. apply (Hok k).
Qed.

(** ** COUNT *)

Definition cs_ent (c : cstate) (k : str) : entry cntm := ent (cs_pending c) (cs_counts c) k.

Definition cs_ok (n : nat) (c : cstate) : Prop := cs_size c = n /\ tab_ok c_sub n (cs_pending c) (cs_counts c).

Definition cnt_merge (l : list (option cntm)) : option cntm :=
  match all_some l with
  | None => None
  | Some [] => None
  | Some (m :: r) => Some (first_max m r)
  end.

Lemma all_some_map {A} (xs : list A) : all_some (List.map Some xs) = Some xs.
Proof. induction xs as [|x xs IH]; simpl; [reflexivity | now rewrite IH]. Qed.

Lemma cnt_merge_full xs : xs <> [] -> exists r, cnt_merge (List.map Some xs) = Some r.
Proof.
  intro H. unfold cnt_merge. rewrite all_some_map. destruct xs; [congruence | eexists; reflexivity].
Qed.

Definition out_cnt (full : option (list (option cntm))) : option smsg :=
  match full with
  | Some l' => option_map SCount (cnt_merge l')
  | None => None
  end.

(** SetSubID is [w_req] on the entry of its subscription id and touches nothing else *)
Lemma cs_set_sub_spec n o id :
  cs_ok n o ->
  cs_ok n (cs_set_sub o id) /\
  cs_ent (cs_set_sub o id) id = w_req n (cs_ent o id) /\
  (forall k, k <> id -> cs_ent (cs_set_sub o id) k = cs_ent o k).
Proof.
  intros [Hn Hok]. unfold cs_set_sub, cs_ent, ent. cbn [cs_pending cs_counts cs_size].
  assert (E1 : ent (m_set id (zget id (cs_pending o) + 1) (cs_pending o))
                 (if h_cnt_no_slot (zlen (vlist (assoc id (cs_counts o))))
                  then m_set id (repeat [] (cs_size o)) (cs_counts o) else cs_counts o) id = w_req n (cs_ent o id)).
  { unfold cs_ent, ent. rewrite zget_set_same, g_cnt_no_slot_spec.
    destruct (assoc id (cs_counts o)) as [qs|] eqn:Ea; cbn [vlist].
    - destruct (Hok id) as [Hk _]. unfold ent in Hk. rewrite Ea in Hk. destruct Hk as [Hl _].
      destruct qs as [|q qs]; cbn [is_nil].
      + rewrite assoc_m_set_same. cbn [w_req]. cbn in Hl. rewrite Hn, <- Hl. reflexivity.
      + rewrite Ea. reflexivity.
    - cbn [is_nil]. rewrite assoc_m_set_same, Hn. destruct (Hok id) as [_ H0]. rewrite (H0 Ea). reflexivity. }
  assert (E2 : forall k, k <> id ->
             ent (m_set id (zget id (cs_pending o) + 1) (cs_pending o))
                 (if h_cnt_no_slot (zlen (vlist (assoc id (cs_counts o))))
                  then m_set id (repeat [] (cs_size o)) (cs_counts o) else cs_counts o) k = ent (cs_pending o) (cs_counts o) k).
  { intros k N. unfold ent. rewrite zget_set_other by congruence.
    destruct (h_cnt_no_slot _); [rewrite assoc_m_set_other by congruence|]; reflexivity. }
  split; [|split; [exact E1 | exact E2]].
  split; [exact Hn|]. cbn [cs_pending cs_counts]. intro k. destruct (str_dec id k) as [<-|N].
  - split.
    + rewrite E1. apply w_req_ok. apply Hok.
    + intro H0. exfalso. unfold ent in E1. rewrite H0 in E1. unfold cs_ent in E1.
      destruct (ent (cs_pending o) (cs_counts o) id) as [[p qs]|]; discriminate.
  - split.
    + rewrite E2 by congruence. apply Hok.
    + rewrite zget_set_other by assumption. intro H0. apply Hok.
      destruct (h_cnt_no_slot _); [rewrite assoc_m_set_other in H0 by assumption|]; exact H0.
Qed.

(** handleSendCountMsg is [w_put] on the entry of its subscription id and touches
    nothing else; it cannot panic *)
Lemma send_count_spec n s i m :
  cs_ok n (st_cs s) -> (i < n)%nat ->
  let v := cs_ent (st_cs s) (c_sub m) in
  exists o',
    send_count s i m = (with_cs s o', out_cnt (snd (w_put v i m))) /\
    cs_ok n o' /\
    (forall k, k <> c_sub m -> cs_ent o' k = cs_ent (st_cs s) k) /\
    cs_ent o' (c_sub m) = fst (w_put v i m) /\
    (forall l', snd (w_put v i m) = Some l' -> exists r, cnt_merge l' = Some r).
Proof.
  intros [Hn Hok] Hi v. set (o := st_cs s) in *. set (id := c_sub m) in *.
  assert (Hfull : forall l', snd (w_put v i m) = Some l' -> exists r, cnt_merge l' = Some r).
  { intros l' H. destruct (w_put_full_vector _ _ _ _ H) as [xs [-> Hne]]. now apply cnt_merge_full. }
  assert (Hsame : exists o', send_count s i m = (with_cs s o', out_cnt (snd (w_put v i m))) /\
                     cs_size o' = n /\
                     (forall k, k <> id -> cs_ent o' k = cs_ent o k) /\
                     (forall k, k <> id -> assoc k (cs_counts o') = None -> zget k (cs_pending o') = 0) /\
                     cs_ent o' id = fst (w_put v i m) /\
                     (assoc id (cs_counts o') = None -> zget id (cs_pending o') = 0)).
  { unfold send_count, cs_set_msg. fold o. fold id.
    assert (Hframe0 : forall k, k <> id -> assoc k (cs_counts o) = None -> zget k (cs_pending o) = 0)
      by (intros k _; apply Hok).
    unfold v, cs_ent, ent. destruct (assoc id (cs_counts o)) as [qs|] eqn:Ea; cbn [vlist].
    2:{ cbn [idx_guarded]. rewrite g_cnt_set_drop_spec. cbn [is_nil orb].
        unfold cs_ready. fold id. rewrite Ea. cbn [vlist]. rewrite g_cnt_ready_absent_spec, g_count_not_ready_spec.
        cbn [negb w_put snd fst out_cnt]. exists o. split5; auto.
        split; [unfold cs_ent, ent; now rewrite Ea | intros _; apply Hok; exact Ea]. }
    destruct (Hok id) as [Hk _]. unfold ent in Hk. rewrite Ea in Hk. destruct Hk as [Hl [He Hkey]].
    destruct He as [He|He]; [lia|].
    destruct (nth_error qs i) as [q|] eqn:En.
    2:{ exfalso. apply nth_error_None in En. lia. }
    assert (Hne : qs <> []) by (intro E; subst qs; destruct i; discriminate).
    replace (idx_guarded qs i) with (Some q) by (destruct qs; [congruence | now rewrite <- En]).
    cbn [w_put]. rewrite En.
    rewrite g_cnt_set_drop_spec. replace (is_nil qs) with false by (destruct qs; [congruence | reflexivity]).
    cbn [orb]. destruct (zlen q >=? zget id (cs_pending o)) eqn:Ed.
    { (* dropped *)
      unfold cs_ready. fold id. rewrite Ea. cbn [vlist].
      rewrite g_cnt_ready_absent_spec, g_count_not_ready_spec, (match_nonempty qs) by exact Hne.
      rewrite He. cbn [negb snd fst out_cnt]. exists o. split5; auto.
      split; [unfold cs_ent, ent; now rewrite Ea | intro H0; rewrite Ea in H0; discriminate]. }
    destruct (upd_nth_some i (q ++ [m]) qs) as [qs' Eu]; [lia|]. rewrite Eu.
    set (o1 := mkCS (cs_size o) (cs_pending o) (m_set id qs' (cs_counts o))).
    assert (Hl' : length qs' = n) by (rewrite (upd_nth_length _ _ _ _ Eu); exact Hl).
    assert (Hne' : qs' <> []) by (intro E; rewrite E in Hl'; simpl in Hl'; lia).
    unfold cs_ready. cbn [cs_counts o1]. rewrite assoc_m_set_same. cbn [vlist].
    rewrite g_cnt_ready_absent_spec, g_count_not_ready_spec, (match_nonempty qs') by exact Hne'.
    destruct (existsb is_nil qs') eqn:Ex; cbn [negb snd fst out_cnt].
    { exists o1. split5; auto.
      - intros k N. unfold cs_ent, ent. cbn [cs_counts cs_pending o1]. now rewrite assoc_m_set_other by congruence.
      - intros k N. cbn [cs_counts cs_pending o1]. rewrite assoc_m_set_other by congruence. now apply Hframe0.
      - split; [unfold cs_ent, ent; cbn [cs_counts cs_pending o1]; now rewrite assoc_m_set_same|].
        cbn [cs_counts o1]. rewrite assoc_m_set_same. discriminate. }
    (* every queue is non-empty: merge the heads, drop them *)
    destruct (heads_full _ Ex) as [xs [Exs Lxs]].
    destruct (cnt_merge_full xs) as [r Er]; [intro E; subst xs; cbn in Lxs; rewrite <- Lxs in Hl'; lia|].
    unfold cs_msg. cbn [cs_counts o1]. rewrite assoc_m_set_same. cbn [vlist].
    fold (cnt_merge (List.map hd_opt qs')). rewrite Exs, Er. cbn [option_map].
    unfold cs_clear. cbn [cs_counts cs_pending cs_size o1]. rewrite assoc_m_set_same. cbn [vlist].
    rewrite (tails_map_tl _ Ex), g_cnt_clear_done_spec.
    destruct (zget id (cs_pending o) - 1 <=? 0) eqn:Ep.
    - eexists. split5; [reflexivity | exact Hn | | | ].
      + intros k N. unfold cs_ent, ent. cbn [cs_counts cs_pending].
        rewrite zget_del_other by congruence. rewrite !assoc_m_del_other, !assoc_m_set_other by congruence. reflexivity.
      + intros k N. cbn [cs_counts cs_pending]. rewrite zget_del_other by congruence.
        rewrite !assoc_m_del_other, !assoc_m_set_other by congruence. now apply Hframe0.
      + split; [unfold cs_ent, ent; cbn [cs_counts]; now rewrite assoc_m_del_same|].
        intros _. cbn [cs_pending]. apply zget_del_same.
    - eexists. split5; [reflexivity | exact Hn | | | ].
      + intros k N. unfold cs_ent, ent. cbn [cs_counts cs_pending].
        rewrite zget_set_other by congruence. rewrite !assoc_m_set_other by congruence. reflexivity.
      + intros k N. cbn [cs_counts cs_pending]. rewrite zget_set_other by congruence.
        rewrite !assoc_m_set_other by congruence. now apply Hframe0.
      + split; [unfold cs_ent, ent; cbn [cs_counts cs_pending]; now rewrite assoc_m_set_same, zget_set_same|].
        cbn [cs_counts]. rewrite assoc_m_set_same. discriminate. }
  destruct Hsame as [o' [E [Hsz [Hoth [Hoth0 [Hid Hid0]]]]]].
  exists o'. split5; auto.
  split; [exact Hsz|]. intro k. destruct (str_dec id k) as [<-|N].
  - split; [|exact Hid0]. fold (cs_ent o' id). rewrite Hid. apply w_put_ok. apply (Hok id).
  - split; [|apply Hoth0; congruence]. fold (cs_ent o' k). rewrite Hoth by congruence. apply (Hok k).
Qed.
(* ------------------------------------------------------------------ *)
(** * 5. The global invariant: the session does not panic *)

Definition state_ok (n : nat) (s : state) : Prop :=
  st_dead s = false /\ rs_ok n (st_rs s) /\ os_ok n (st_os s) /\ cs_ok n (st_cs s).

Lemma init_ok n : state_ok n (init n).
Proof.
  unfold state_ok, init. cbn [st_dead st_rs st_os st_cs].
  split; [reflexivity|]. split; [|split].
  - split; [reflexivity|]. intro k. unfold rs_phase, rs_view. cbn. auto.
  - split; [reflexivity|]. intro k. split; [exact I | reflexivity].
  - split; [reflexivity|]. intro k. split; [exact I | reflexivity].
Qed.

Lemma state_ok_intro n s :
  st_dead s = false -> rs_ok n (st_rs s) -> os_ok n (st_os s) -> cs_ok n (st_cs s) -> state_ok n s.
Proof. unfold state_ok. auto. Qed.

Lemma w_eose_wf n ph i : phase_wf n ph -> phase_wf n (fst (w_eose ph i)).
Proof.
  intro Hwf. destruct ph as [eo la se ms|]; cbn [w_eose fst]; [|exact I].
  destruct (all_true eo); [exact I|].
  destruct (upd_nth i true eo) as [eo'|] eqn:Eu; [|exact Hwf].
  destruct (all_true eo'); [exact I|]. destruct Hwf as [Hl Hm]. split; [|exact Hm].
  now rewrite (upd_nth_length _ _ _ _ Eu).
Qed.

Lemma w_event_wf n ph i e : phase_wf n ph -> phase_wf n (fst (w_event ph i e)).
Proof.
  intro Hwf. destruct ph as [eo la se ms|]; cbn [w_event fst]; [|exact I].
  destruct Hwf as [Hl Hm].
  destruct (all_true eo); [exact I|].
  destruct (nth_error eo i) as [[]|]; try (split; assumption).
  destruct (match la with Some l => ev_ts l <? ev_ts e | None => false end); [split; assumption|].
  cbv zeta.
  destruct (mem_str (ev_id e) _); [split; assumption|].
  destruct (lms_done ms); [split; assumption|]. split; [assumption|].
  unfold ms_wf in *. rewrite Forall_map. eapply Forall_impl; [|exact Hm].
  intros a Ha. now rewrite lm_step_f.
Qed.

Lemma step_ok n s x : state_ok n s -> input_ok n x -> state_ok n (fst (merge_step s x)).
Proof.
  intros [Hd [Hr [Ho Hc]]] Hx. unfold merge_step. rewrite Hd.
  destruct x as [sub fs|sub|id|sub|i m]; cbn [fst].
  - apply state_ok_intro; cbn [with_rs st_dead st_rs st_os st_cs]; auto. now apply rs_set_sub_ok.
  - apply state_ok_intro; cbn [with_rs st_dead st_rs st_os st_cs]; auto. now apply rs_clear_ok.
  - apply state_ok_intro; cbn [with_os st_dead st_rs st_os st_cs]; auto. now apply os_try_set_spec.
  - apply state_ok_intro; cbn [with_cs st_dead st_rs st_os st_cs]; auto. now apply cs_set_sub_spec.
  - destruct m as [sub|sub e|m|c|t|sub p t]; cbn [input_ok] in Hx.
    + destruct (send_eose_spec n s i sub Hr Hx) as [r' [E U]]. rewrite E. cbn [fst].
      apply state_ok_intro; cbn [with_rs st_dead st_rs st_os st_cs]; auto.
      eapply rs_upd_ok; [exact Hr | exact U |]. apply w_eose_wf. apply (proj2 Hr sub).
    + destruct Hx as [Hi Hne].
      destruct (send_event_spec n s i sub e Hr Hi Hne) as [r' [E U]]. rewrite E. cbn [fst].
      apply state_ok_intro; cbn [with_rs st_dead st_rs st_os st_cs]; auto.
      eapply rs_upd_ok; [exact Hr | exact U |]. apply w_event_wf. apply (proj2 Hr sub).
    + destruct (send_ok_spec n s i m Ho Hx) as [o' [E [Hok' _]]]. rewrite E. cbn [fst].
      apply state_ok_intro; cbn [with_os st_dead st_rs st_os st_cs]; auto.
    + destruct (send_count_spec n s i c Hc Hx) as [c' [E [Hok' _]]]. rewrite E. cbn [fst].
      apply state_ok_intro; cbn [with_cs st_dead st_rs st_os st_cs]; auto.
    + apply state_ok_intro; auto.
    + apply state_ok_intro; auto.
Qed.

Lemma exec_cons s x t :
  exec s (x :: t) = (fst (exec (fst (merge_step s x)) t), snd (merge_step s x) :: snd (exec (fst (merge_step s x)) t)).
Proof.
  cbn [exec]. destruct (merge_step s x) as [s1 o]. cbn [fst snd]. destruct (exec s1 t); reflexivity.
Qed.

Lemma exec_app s t1 t2 :
  exec s (t1 ++ t2) =
  (fst (exec (fst (exec s t1)) t2), snd (exec s t1) ++ snd (exec (fst (exec s t1)) t2)).
Proof.
  revert s. induction t1 as [|x t1 IH]; intro s.
  - cbn. destruct (exec s t2); reflexivity.
  - rewrite <- app_comm_cons, !exec_cons, IH. cbn [fst snd]. reflexivity.
Qed.

Lemma exec_ok n t : forall s, state_ok n s -> trace_ok n t -> state_ok n (final s t).
Proof.
  induction t as [|x t IH]; intros s Hs Ht; [exact Hs|].
  inversion Ht as [|? ? Hx Ht']; subst. unfold final. rewrite exec_cons. cbn [fst].
  apply IH; [now apply step_ok | assumption].
Qed.

Lemma outs_length s t : length (outs s t) = length t.
Proof.
  revert s. induction t as [|x t IH]; intro s; [reflexivity|].
  unfold outs. rewrite exec_cons. cbn [snd length]. f_equal. apply IH.
Qed.

(* ------------------------------------------------------------------ *)
(** * 6. One subscription id: [merge_step] is simulated by the phase machine *)

Definition wstep (sub : str) (ph : wphase) (x : input) : wphase * option smsg :=
  match x with
  | Child i (SEose s) =>
      if str_eqb s sub
      then (fst (w_eose ph i), if snd (w_eose ph i) then Some (SEose sub) else None)
      else (ph, None)
  | Child i (SEvent s e) =>
      if str_eqb s sub
      then (fst (w_event ph i e), if snd (w_event ph i e) then Some (SEvent sub e) else None)
      else (ph, None)
  | _ => (ph, None)
  end.

Fixpoint wrun (sub : str) (ph : wphase) (w : list input) : wphase * list (option smsg) :=
  match w with
  | [] => (ph, [])
  | x :: w' =>
      (fst (wrun sub (fst (wstep sub ph x)) w'),
       snd (wstep sub ph x) :: snd (wrun sub (fst (wstep sub ph x)) w'))
  end.

(** the part of an output that concerns [sub]'s REQ *)
Definition proj_sub (sub : str) (o : option smsg) : option smsg :=
  match o with
  | Some (SEose s) => if str_eqb s sub then o else None
  | Some (SEvent s _) => if str_eqb s sub then o else None
  | _ => None
  end.

Lemma rs_upd_other r r' s ph sub : rs_upd r r' s ph -> s <> sub -> rs_phase r' sub = rs_phase r sub.
Proof. intros [_ [F _]] N. unfold rs_phase. rewrite F; [reflexivity | congruence]. Qed.

Lemma rs_upd_same r r' sub ph : rs_upd r r' sub ph -> rs_phase r' sub = ph.
Proof. intros [_ [_ [_ P]]]. exact P. Qed.

Lemma step_sim n sub s x :
  state_ok n s -> input_ok n x -> is_req_of sub x = false -> is_close_of sub x = false ->
  rs_phase (st_rs (fst (merge_step s x))) sub = fst (wstep sub (rs_phase (st_rs s) sub) x) /\
  proj_sub sub (snd (merge_step s x)) = snd (wstep sub (rs_phase (st_rs s) sub) x).
Proof.
  intros [Hd [Hr [Ho Hc]]] Hx Hnr Hnc. unfold merge_step. rewrite Hd.
  destruct x as [s' fs|s'|id|s'|i m]; cbn [fst snd wstep proj_sub].
  - cbn [is_req_of] in Hnr. apply str_eqb_neq in Hnr. split; [|reflexivity].
    unfold rs_phase. cbn [with_rs st_rs]. rewrite rs_view_set_sub. now rewrite str_dec_neq.
  - cbn [is_close_of] in Hnc. apply str_eqb_neq in Hnc. split; [|reflexivity].
    unfold rs_phase. cbn [with_rs st_rs]. rewrite rs_view_clear. now rewrite str_dec_neq.
  - split; reflexivity.
  - split; reflexivity.
  - destruct m as [s'|s' e|m|c|t|s' p t]; cbn [input_ok] in Hx; cbn [wstep].
    + destruct (send_eose_spec n s i s' Hr Hx) as [r' [E U]]. rewrite E. cbn [fst snd with_rs st_rs].
      destruct (str_eqb s' sub) eqn:Es.
      * apply str_eqb_eq in Es. subst s'. cbn [fst snd]. split; [now apply rs_upd_same in U|].
        destruct (snd (w_eose _ i)); cbn [proj_sub]; [now rewrite str_eqb_refl | reflexivity].
      * apply str_eqb_neq in Es. cbn [fst snd]. split; [eapply rs_upd_other; eauto|].
        destruct (snd (w_eose _ i)); cbn [proj_sub]; [|reflexivity].
        apply str_eqb_neq in Es. now rewrite Es.
    + destruct Hx as [Hi Hne].
      destruct (send_event_spec n s i s' e Hr Hi Hne) as [r' [E U]]. rewrite E. cbn [fst snd with_rs st_rs].
      destruct (str_eqb s' sub) eqn:Es.
      * apply str_eqb_eq in Es. subst s'. cbn [fst snd]. split; [now apply rs_upd_same in U|].
        destruct (snd (w_event _ i e)); cbn [proj_sub]; [now rewrite str_eqb_refl | reflexivity].
      * apply str_eqb_neq in Es. cbn [fst snd]. split; [eapply rs_upd_other; eauto|].
        destruct (snd (w_event _ i e)); cbn [proj_sub]; [|reflexivity].
        apply str_eqb_neq in Es. now rewrite Es.
    + destruct (send_ok_spec n s i m Ho Hx) as [o' [E _]]. rewrite E. cbn [fst snd with_os st_rs].
      split; [reflexivity|]. destruct (out_ok _) as [[]|] eqn:Eo; try reflexivity;
        unfold out_ok in Eo; destruct (snd (w_put _ i m)); try discriminate;
        destruct (ok_merge _); discriminate.
    + destruct (send_count_spec n s i c Hc Hx) as [c' [E _]]. rewrite E. cbn [fst snd with_cs st_rs].
      split; [reflexivity|]. destruct (out_cnt _) as [[]|] eqn:Eo; try reflexivity;
        unfold out_cnt in Eo; destruct (snd (w_put _ i c)); try discriminate;
        destruct (cnt_merge _); discriminate.
    + split; reflexivity.
    + split; reflexivity.
Qed.

Lemma no_reset_cons sub x w : no_reset sub (x :: w) ->
  is_req_of sub x = false /\ is_close_of sub x = false /\ no_reset sub w.
Proof.
  intro H. destruct (H x (or_introl eq_refl)) as [H1 H2]. repeat split; auto.
  - apply H. now right.
  - apply H. now right.
Qed.

Lemma run_sim n sub w : forall s,
  state_ok n s -> trace_ok n w -> no_reset sub w ->
  rs_phase (st_rs (final s w)) sub = fst (wrun sub (rs_phase (st_rs s) sub) w) /\
  List.map (proj_sub sub) (outs s w) = snd (wrun sub (rs_phase (st_rs s) sub) w).
Proof.
  induction w as [|x w IH]; intros s Hs Ht Hn; [split; reflexivity|].
  inversion Ht as [|? ? Hx Ht']; subst.
  destruct (no_reset_cons _ _ _ Hn) as [H1 [H2 Hn']].
  destruct (step_sim n sub s x Hs Hx H1 H2) as [P O].
  destruct (IH (fst (merge_step s x)) (step_ok n s x Hs Hx) Ht' Hn') as [P' O'].
  unfold final, outs in *. rewrite exec_cons. cbn [fst snd wrun List.map].
  rewrite P in P', O'. rewrite O. split; [exact P' | now rewrite O'].
Qed.

Lemma wrun_app sub ph w1 w2 :
  wrun sub ph (w1 ++ w2) =
  (fst (wrun sub (fst (wrun sub ph w1)) w2), snd (wrun sub ph w1) ++ snd (wrun sub (fst (wrun sub ph w1)) w2)).
Proof.
  revert ph. induction w1 as [|x w1 IH]; intro ph.
  - cbn. destruct (wrun sub ph w2); reflexivity.
  - rewrite <- app_comm_cons. cbn [wrun]. rewrite IH. cbn [fst snd]. reflexivity.
Qed.

Lemma wrun_snoc sub ph w1 x :
  wrun sub ph (w1 ++ [x]) =
  (fst (wstep sub (fst (wrun sub ph w1)) x), snd (wrun sub ph w1) ++ [snd (wstep sub (fst (wrun sub ph w1)) x)]).
Proof. rewrite wrun_app. cbn [wrun fst snd]. reflexivity. Qed.

(* ------------------------------------------------------------------ *)
(** * 7. C08: what happens inside one REQ window *)

(** the phase right after [CReq sub fs] *)
Definition ph0 (n : nat) (fs : list rfilter) : wphase := WOpen (repeat false n) None [] (lms_new fs).

Lemma phase_after_req n s sub fs :
  state_ok n s -> rs_phase (st_rs (fst (merge_step s (CReq sub fs)))) sub = ph0 n fs.
Proof.
  intros [Hd [[Hn _] _]]. unfold merge_step. rewrite Hd. cbn [fst with_rs st_rs].
  unfold rs_phase. rewrite rs_view_set_sub, str_dec_refl, Hn. reflexivity.
Qed.

Definition eo_of (n : nat) (sub : str) (w : list input) : list bool := List.map (eosed sub w) (seq 0 n).

Lemma eo_of_nil n sub : eo_of n sub [] = repeat false n.
Proof.
  unfold eo_of, eosed. cbn [existsb]. generalize 0%nat.
  induction n as [|n IH]; intro a; cbn; [reflexivity | now rewrite IH].
Qed.

Lemma all_true_eo_of n sub w : all_true (eo_of n sub w) = all_eosed n sub w.
Proof. unfold all_true, eo_of, all_eosed. apply forallb_map_seq. Qed.

Lemma eosed_snoc sub w x j : eosed sub (w ++ [x]) j = eosed sub w j || is_eose_of sub j x.
Proof. unfold eosed. rewrite existsb_app. cbn [existsb]. now rewrite orb_false_r. Qed.

Definition is_eose_in (sub : str) (x : input) : bool :=
  match x with Child _ (SEose s) => str_eqb s sub | _ => false end.

Lemma not_eose_in sub x j : is_eose_in sub x = false -> is_eose_of sub j x = false.
Proof.
  destruct x as [| | | |i [s| | | | |]]; cbn; try reflexivity. intros ->. apply andb_false_r.
Qed.

Lemma eo_of_snoc_other n sub w x : is_eose_in sub x = false -> eo_of n sub (w ++ [x]) = eo_of n sub w.
Proof.
  intro H. unfold eo_of. apply map_ext. intro j. rewrite eosed_snoc, (not_eose_in _ _ _ H). apply orb_false_r.
Qed.

Lemma all_eosed_snoc_other n sub w x :
  is_eose_in sub x = false -> all_eosed n sub (w ++ [x]) = all_eosed n sub w.
Proof. intro H. now rewrite <- !all_true_eo_of, eo_of_snoc_other. Qed.

Lemma eo_of_snoc_eose n sub w i :
  (i < n)%nat -> upd_nth i true (eo_of n sub w) = Some (eo_of n sub (w ++ [Child i (SEose sub)])).
Proof.
  intro Hi. unfold eo_of. rewrite upd_nth_map_seq by assumption. f_equal.
  apply map_ext. intro j. rewrite eosed_snoc. cbn [is_eose_of]. rewrite str_eqb_refl, andb_true_r.
  cbn [Nat.add]. rewrite (Nat.eqb_sym i j). destruct (Nat.eqb j i); [now rewrite orb_true_r | now rewrite orb_false_r].
Qed.

Lemma all_eosed_mono n sub w x : all_eosed n sub w = true -> all_eosed n sub (w ++ [x]) = true.
Proof.
  unfold all_eosed. rewrite !forallb_forall. intros H j Hj. rewrite eosed_snoc, (H j Hj). reflexivity.
Qed.

Lemma all_eosed_nil n sub : (1 <= n)%nat -> all_eosed n sub [] = false.
Proof. intro H. destruct n; [lia|]. reflexivity. Qed.

Definition ev_key (e : event) : Z * str := (ev_ts e, ev_id e).

(** what holds of an open window: [fwd] are the events forwarded so far *)
Definition pre_inv (fs : list rfilter) (la : option event) (se : list str) (ms : list lmatcher)
  (fwd : list event) : Prop :=
  List.map lm_f ms = fs /\
  Forall (fun e => matches_specb e fs = true) fwd /\
  NoDup (List.map ev_key fwd) /\
  ts_noninc fwd /\
  match la with
  | None => fwd = [] /\ se = []
  | Some l => (forall e, In e fwd -> ev_ts l <= ev_ts e) /\
              (forall e, In e fwd -> ev_ts e = ev_ts l -> In (ev_id e) se)
  end /\
  (forall m, ms = [m] ->
     lm_cnt m = Z.of_nat (length fwd) /\
     forall l, f_limit (lm_f m) = Some l -> Z.of_nat (length fwd) <= Z.max 0 l).

Lemma ts_noninc_snoc l e : ts_noninc l -> (forall x, In x l -> ev_ts e <= ev_ts x) -> ts_noninc (l ++ [e]).
Proof.
  induction l as [|a l IH]; cbn; intros H Hle.
  - split; [intros e' []|exact I].
  - destruct H as [H1 H2]. split.
    + intros e' Hin. apply in_app_or in Hin as [Hin|[<-|[]]]; [now apply H1 | apply Hle; now left].
    + apply IH; [assumption | intros x Hx; apply Hle; now right].
Qed.

Lemma NoDup_snoc {A} (l : list A) a : NoDup l -> ~ In a l -> NoDup (l ++ [a]).
Proof.
  intros H Hn. induction l as [|x l IH]; cbn.
  - constructor; [intros [] | constructor].
  - inversion H; subst. constructor.
    + intro Hin. apply in_app_or in Hin as [Hin|[<-|[]]]; [contradiction | apply Hn; now left].
    + apply IH; [assumption | intro; apply Hn; now right].
Qed.

Lemma map_lm_f_step e ms : List.map lm_f (List.map (lm_step e) ms) = List.map lm_f ms.
Proof. rewrite map_map. apply map_ext. intro m. apply lm_step_f. Qed.

Lemma pre_inv_init fs : pre_inv fs None [] (lms_new fs) [].
Proof.
  unfold pre_inv. split; [apply map_lm_f_new|]. split; [constructor|]. split; [constructor|].
  split; [exact I|]. split; [auto|].
  intros m Hm. cbn. split.
  - unfold lms_new in Hm. destruct fs as [|f [|f' fs']]; try discriminate. inversion Hm. reflexivity.
  - intros l _. lia.
Qed.

Lemma pre_inv_same fs la se ms fwd e se' :
  pre_inv fs la se ms fwd ->
  (forall x, In x fwd -> ev_ts e <= ev_ts x) ->
  (forall x, In x fwd -> ev_ts x = ev_ts e -> In (ev_id x) se') ->
  pre_inv fs (Some e) se' ms fwd.
Proof.
  intros [Hf [Hm [Hnd [Hts [Hla Hlim]]]]] H1 H2.
  split; [assumption|]. split; [assumption|]. split; [assumption|]. split; [assumption|].
  split; [split; assumption | assumption].
Qed.

(** the heart of C08: one EVENT of a child that has not sent EOSE, in an
    open window *)
Lemma w_event_pre fs eo la se ms fwd i e :
  all_true eo = false -> nth_error eo i <> None ->
  pre_inv fs la se ms fwd ->
  exists la' se' ms',
    fst (w_event (WOpen eo la se ms) i e) = WOpen eo la' se' ms' /\
    pre_inv fs la' se' ms' (if snd (w_event (WOpen eo la se ms) i e) then fwd ++ [e] else fwd).
Proof.
  intros Hall Hn Hinv.
  destruct (nth_error eo i) as [[]|] eqn:En; [| |congruence].
  { unfold w_event. rewrite Hall, En. cbn [fst snd]. now exists la, se, ms. }
  rewrite (w_event_open eo la se ms i e Hall En).
  destruct (older_first la e) eqn:Eold; [cbn [fst snd]; now exists la, se, ms|].
  pose proof Hinv as Hinv0.
  destruct Hinv as [Hf [Hm [Hnd [Hts [Hla Hlim]]]]].
  set (se1 := if ts_decreased la e then [] else se).
  (* facts about the events forwarded so far, relative to e *)
  assert (Hge : forall x, In x fwd -> ev_ts e <= ev_ts x).
  { destruct la as [l|]; [|destruct Hla as [-> _]; intros x []].
    cbn [older_first] in Eold. apply Z.ltb_ge in Eold. destruct Hla as [H1 _].
    intros x Hx. specialize (H1 x Hx). lia. }
  assert (Hse1 : forall x, In x fwd -> ev_ts x = ev_ts e -> In (ev_id x) se1).
  { destruct la as [l|]; [|destruct Hla as [-> _]; intros x []].
    destruct Hla as [H1 H2]. intros x Hx Ex. subst se1. cbn [ts_decreased].
    destruct (ev_ts e <? ev_ts l) eqn:Ed.
    - apply Z.ltb_lt in Ed. specialize (H1 x Hx). lia.
    - apply Z.ltb_ge in Ed. cbn [older_first] in Eold. apply Z.ltb_ge in Eold.
      apply H2; [assumption | lia]. }
  unfold w_dedup_limit. fold se1.
  destruct (mem_str (ev_id e) se1) eqn:Emem.
  { cbn [fst snd]. exists (Some e), se1, ms. split; [reflexivity|].
    eapply pre_inv_same; eauto. }
  destruct (lms_done ms) eqn:Edone.
  { cbn [fst snd]. exists (Some e), (ev_id e :: se1), ms. split; [reflexivity|].
    eapply pre_inv_same; eauto. intros x Hx Ex. right. now apply Hse1. }
  cbn [fst snd]. exists (Some e), (ev_id e :: se1), (List.map (lm_step e) ms). split; [reflexivity|].
  rewrite Hf.
  destruct (matches_specb e fs) eqn:Eb.
  - (* forwarded *)
    split; [rewrite map_lm_f_step; exact Hf|].
    split; [apply Forall_app; split; [assumption | constructor; [assumption | constructor]]|].
    split.
    { rewrite map_app. cbn [List.map]. apply NoDup_snoc; [assumption|].
      intro Hin. apply in_map_iff in Hin as [x [Ek Hx]]. unfold ev_key in Ek. inversion Ek as [[Et Ei]].
      assert (In (ev_id x) se1) by now apply Hse1.
      rewrite Ei in H. apply mem_str_In in H. congruence. }
    split; [now apply ts_noninc_snoc|].
    split.
    { split.
      - intros x Hx. apply in_app_or in Hx as [Hx|[<-|[]]]; [now apply Hge | lia].
      - intros x Hx Ex. apply in_app_or in Hx as [Hx|[<-|[]]]; [right; now apply Hse1 | now left]. }
    intros m' Hm'. destruct ms as [|m [|m2 ms2]]; try discriminate. cbn [List.map] in Hm'. inversion Hm'; subst m'.
    destruct (Hlim m eq_refl) as [Hc Hl].
    cbn [List.map] in Hf. subst fs. unfold matches_specb in Eb. cbn [existsb] in Eb. rewrite orb_false_r in Eb.
    unfold lm_step. rewrite Eb. cbn [lm_cnt lm_f]. rewrite app_length. cbn [length].
    split; [lia|]. intros l El.
    unfold lms_done in Edone. cbn [forallb] in Edone. rewrite andb_true_r in Edone.
    unfold lm_done in Edone. rewrite g_done_spec, El in Edone. cbn [isSome andb] in Edone.
    apply Z.leb_gt in Edone. lia.
  - (* matched nothing: dropped, no counter moved for a single filter *)
    split; [rewrite map_lm_f_step; exact Hf|].
    split; [assumption|]. split; [assumption|]. split; [assumption|].
    split.
    { split; [intros x Hx; now apply Hge | intros x Hx Ex; right; now apply Hse1]. }
    intros m' Hm'. destruct ms as [|m [|m2 ms2]]; try discriminate. cbn [List.map] in Hm'. inversion Hm'; subst m'.
    destruct (Hlim m eq_refl) as [Hc Hl].
    cbn [List.map] in Hf. subst fs. unfold matches_specb in Eb. cbn [existsb] in Eb. rewrite orb_false_r in Eb.
    unfold lm_step. rewrite Eb. split; [exact Hc | exact Hl].
Qed.

Lemma forwarded_app sub a b : forwarded sub (a ++ b) = forwarded sub a ++ forwarded sub b.
Proof.
  induction a as [|[[s|s e|m|c|t|s p t]|] a IH]; cbn [app forwarded]; try assumption; [reflexivity|].
  destruct (str_eqb s sub); [cbn; now rewrite IH | assumption].
Qed.

Lemma wstep_closed sub x : fst (wstep sub WClosed x) = WClosed.
Proof.
  destruct x as [| | | |i [s|s e| | | |]]; cbn; try reflexivity; destruct (str_eqb s sub); reflexivity.
Qed.

Lemma eo_of_length n sub w : length (eo_of n sub w) = n.
Proof. unfold eo_of. now rewrite map_length, seq_length. Qed.

(** the state of a window after the inputs [w1] *)
Definition window_state (n : nat) (sub : str) (fs : list rfilter) (w1 : list input) : Prop :=
  if all_eosed n sub w1 then fst (wrun sub (ph0 n fs) w1) = WClosed
  else exists la se ms,
      fst (wrun sub (ph0 n fs) w1) = WOpen (eo_of n sub w1) la se ms /\
      pre_inv fs la se ms (forwarded sub (snd (wrun sub (ph0 n fs) w1))).

Lemma trace_ok_snoc n w x : trace_ok n (w ++ [x]) -> trace_ok n w /\ input_ok n x.
Proof.
  intro H. apply Forall_app in H as [H1 H2]. split; [assumption | now inversion H2].
Qed.

Lemma window_inv n sub fs w1 : (1 <= n)%nat -> trace_ok n w1 -> window_state n sub fs w1.
Proof.
  intro Hn. induction w1 as [|x w1 IH] using rev_ind; intro Ht.
  - unfold window_state. rewrite (all_eosed_nil n sub Hn). cbn [wrun fst snd forwarded].
    exists None, [], (lms_new fs). split; [unfold ph0; now rewrite eo_of_nil | apply pre_inv_init].
  - destruct (trace_ok_snoc _ _ _ Ht) as [Ht1 Hx]. specialize (IH Ht1).
    unfold window_state in *. rewrite wrun_snoc. cbn [fst snd].
    destruct (all_eosed n sub w1) eqn:Ea.
    { rewrite (all_eosed_mono n sub w1 x Ea), IH. apply wstep_closed. }
    destruct IH as [la [se [ms [Eph Hinv]]]]. rewrite Eph. rewrite forwarded_app.
    assert (Hat : all_true (eo_of n sub w1) = false) by now rewrite all_true_eo_of.
    (* inputs that are not EOSE/EVENT of this subscription leave everything alone *)
    assert (Hother : is_eose_in sub x = false ->
                     wstep sub (WOpen (eo_of n sub w1) la se ms) x = (WOpen (eo_of n sub w1) la se ms, None) ->
                     if all_eosed n sub (w1 ++ [x])
                     then fst (wstep sub (WOpen (eo_of n sub w1) la se ms) x) = WClosed
                     else exists la0 se0 ms0,
                         fst (wstep sub (WOpen (eo_of n sub w1) la se ms) x) = WOpen (eo_of n sub (w1 ++ [x])) la0 se0 ms0 /\
                         pre_inv fs la0 se0 ms0
                           (forwarded sub (snd (wrun sub (ph0 n fs) w1)) ++
                            forwarded sub [snd (wstep sub (WOpen (eo_of n sub w1) la se ms) x)])).
    { intros Hne Ew. rewrite (all_eosed_snoc_other n sub w1 x Hne), Ea, Ew, (eo_of_snoc_other n sub w1 x Hne).
      cbn [fst snd forwarded]. rewrite app_nil_r. now exists la, se, ms. }
    destruct x as [s fs'|s|id|s|i [s|s e|m|c|t|s p t]]; try (apply Hother; reflexivity).
    + (* EOSE *)
      destruct (str_eqb s sub) eqn:Es.
      2:{ apply Hother; cbn; rewrite ?Es; reflexivity. }
      apply str_eqb_eq in Es. subst s. cbn [input_ok] in Hx.
      cbn [wstep]. rewrite str_eqb_refl. cbn [w_eose]. rewrite Hat.
      rewrite (eo_of_snoc_eose n sub w1 i Hx), all_true_eo_of.
      destruct (all_eosed n sub (w1 ++ [Child i (SEose sub)])) eqn:Ea'; cbn [fst snd]; [reflexivity|].
      cbn [forwarded]. rewrite app_nil_r. now exists la, se, ms.
    + (* EVENT *)
      destruct (str_eqb s sub) eqn:Es.
      2:{ apply Hother; cbn; rewrite ?Es; reflexivity. }
      apply str_eqb_eq in Es. subst s. cbn [input_ok] in Hx. destruct Hx as [Hi Hne].
      rewrite (all_eosed_snoc_other n sub w1 (Child i (SEvent sub e)) eq_refl), Ea,
        (eo_of_snoc_other n sub w1 (Child i (SEvent sub e)) eq_refl).
      cbn [wstep]. rewrite str_eqb_refl. cbn [fst snd].
      assert (Hnth : nth_error (eo_of n sub w1) i <> None).
      { intro E. apply nth_error_None in E. rewrite eo_of_length in E. lia. }
      destruct (w_event_pre fs _ la se ms _ i e Hat Hnth Hinv) as [la' [se' [ms' [E' Hinv']]]].
      exists la', se', ms'. split; [exact E'|].
      destruct (snd (w_event (WOpen (eo_of n sub w1) la se ms) i e)); cbn [forwarded].
      * now rewrite str_eqb_refl.
      * now rewrite app_nil_r.
Qed.

(** the merged EOSE appears exactly at the step that completes the set *)
Lemma eose_step n sub fs w1 x :
  (1 <= n)%nat -> trace_ok n (w1 ++ [x]) ->
  is_eose_out sub (snd (wstep sub (fst (wrun sub (ph0 n fs) w1)) x)) =
  negb (all_eosed n sub w1) && all_eosed n sub (w1 ++ [x]).
Proof.
  intros Hn Ht. destruct (trace_ok_snoc _ _ _ Ht) as [Ht1 Hx].
  pose proof (window_inv n sub fs w1 Hn Ht1) as H1. unfold window_state in H1.
  destruct (all_eosed n sub w1) eqn:Ea; cbn [negb andb].
  - rewrite H1. destruct x as [| | | |i [s|s e| | | |]]; cbn; try reflexivity; destruct (str_eqb s sub); reflexivity.
  - destruct H1 as [la [se [ms [Eph _]]]]. rewrite Eph.
    assert (Hat : all_true (eo_of n sub w1) = false) by now rewrite all_true_eo_of.
    assert (Hother : is_eose_in sub x = false ->
                     is_eose_out sub (snd (wstep sub (WOpen (eo_of n sub w1) la se ms) x)) = false ->
                     is_eose_out sub (snd (wstep sub (WOpen (eo_of n sub w1) la se ms) x)) = all_eosed n sub (w1 ++ [x])).
    { intros Hne ->. now rewrite (all_eosed_snoc_other n sub w1 x Hne), Ea. }
    destruct x as [s fs'|s|id|s|i [s|s e|m|c|t|s p t]]; try (apply Hother; reflexivity).
    + destruct (str_eqb s sub) eqn:Es.
      2:{ apply Hother; cbn; rewrite ?Es; reflexivity. }
      apply str_eqb_eq in Es. subst s. cbn [input_ok] in Hx.
      cbn [wstep]. rewrite str_eqb_refl. cbn [w_eose]. rewrite Hat.
      rewrite (eo_of_snoc_eose n sub w1 i Hx), all_true_eo_of.
      destruct (all_eosed n sub (w1 ++ [Child i (SEose sub)])); cbn; [now rewrite str_eqb_refl | reflexivity].
    + destruct (str_eqb s sub) eqn:Es.
      2:{ apply Hother; cbn; rewrite ?Es; reflexivity. }
      apply Hother; [reflexivity|]. cbn [wstep]. rewrite Es. cbn [snd].
      destruct (snd (w_event _ i e)); reflexivity.
Qed.

(* ------------------------------------------------------------------ *)
(** * 8. C08 at the level of the model *)

Lemma is_eose_out_proj sub o : is_eose_out sub (proj_sub sub o) = is_eose_out sub o.
Proof.
  destruct o as [[s|s e|m|c|t|s p t]|]; cbn; try reflexivity.
  - destruct (str_eqb s sub) eqn:E; cbn; [exact E | reflexivity].
  - destruct (str_eqb s sub); reflexivity.
Qed.

Lemma forwarded_proj sub os : forwarded sub (List.map (proj_sub sub) os) = forwarded sub os.
Proof.
  induction os as [|[[s|s e|m|c|t|s p t]|] os IH]; cbn [List.map proj_sub forwarded]; try assumption; [reflexivity| |].
  - destruct (str_eqb s sub); cbn [forwarded]; assumption.
  - destruct (str_eqb s sub) eqn:E; cbn [forwarded]; [rewrite E; now rewrite IH | assumption].
Qed.

Lemma proj_sub_some sub o m : proj_sub sub o = Some m -> o = Some m.
Proof.
  destruct o as [[s|s e|m'|c|t|s p t]|]; cbn; try discriminate; destruct (str_eqb s sub); congruence.
Qed.

Lemma count_occ_b_map {A B} (f : A -> B) (p : B -> bool) l :
  count_occ_b p (List.map f l) = count_occ_b (fun x => p (f x)) l.
Proof. induction l as [|x l IH]; cbn; [reflexivity | now rewrite IH]. Qed.

Lemma count_occ_b_ext {A} (p q : A -> bool) l : (forall x, p x = q x) -> count_occ_b p l = count_occ_b q l.
Proof. intro H. induction l as [|x l IH]; cbn; [reflexivity | now rewrite H, IH]. Qed.

Lemma win_sim n s sub fs w :
  state_ok n s -> Forall filter_wf fs -> trace_ok n w -> no_reset sub w ->
  List.map (proj_sub sub) (win_outs s sub fs w) = snd (wrun sub (ph0 n fs) w).
Proof.
  intros Hs Hfs Ht Hn. unfold win_outs.
  assert (Hs1 : state_ok n (fst (merge_step s (CReq sub fs)))) by (apply step_ok; assumption).
  destruct (run_sim n sub w _ Hs1 Ht Hn) as [_ H]. rewrite H. now rewrite (phase_after_req n s sub fs Hs).
Qed.

Lemma wrun_length sub ph w : length (snd (wrun sub ph w)) = length w.
Proof. revert ph. induction w as [|x w IH]; intro ph; cbn; [reflexivity | now rewrite IH]. Qed.

Lemma wrun_eose_count n sub fs w :
  (1 <= n)%nat -> trace_ok n w ->
  count_occ_b (is_eose_out sub) (snd (wrun sub (ph0 n fs) w)) = if all_eosed n sub w then 1%nat else 0%nat.
Proof.
  intro Hn. induction w as [|x w IH] using rev_ind; intro Ht.
  - now rewrite (all_eosed_nil n sub Hn).
  - destruct (trace_ok_snoc _ _ _ Ht) as [Ht1 Hx]. rewrite wrun_snoc. cbn [snd].
    rewrite count_occ_b_app, (IH Ht1). cbn [count_occ_b].
    rewrite (eose_step n sub fs w x Hn Ht).
    destruct (all_eosed n sub w) eqn:Ea; cbn [negb andb].
    + now rewrite (all_eosed_mono n sub w x Ea).
    + destruct (all_eosed n sub (w ++ [x])); reflexivity.
Qed.

(** one merged EOSE per window if every child sent its own, none otherwise *)
Theorem eose_exactly_once n s sub fs w :
  (1 <= n)%nat -> state_ok n s -> Forall filter_wf fs -> trace_ok n w -> no_reset sub w ->
  count_occ_b (is_eose_out sub) (win_outs s sub fs w) = if all_eosed n sub w then 1%nat else 0%nat.
Proof.
  intros Hn Hs Hfs Ht Hnr.
  rewrite <- (wrun_eose_count n sub fs w Hn Ht), <- (win_sim n s sub fs w Hs Hfs Ht Hnr), count_occ_b_map.
  apply count_occ_b_ext. intro o. now rewrite is_eose_out_proj.
Qed.

Lemma nth_error_mid {A} (a : list A) x b : nth_error (a ++ x :: b) (length a) = Some x.
Proof. induction a as [|y a IH]; cbn; [reflexivity | exact IH]. Qed.

Lemma wrun_nth sub ph w1 x w2 :
  nth_error (snd (wrun sub ph (w1 ++ x :: w2))) (length w1) = Some (snd (wstep sub (fst (wrun sub ph w1)) x)).
Proof.
  rewrite wrun_app. cbn [snd wrun]. rewrite <- (wrun_length sub ph w1). apply nth_error_mid.
Qed.

Lemma no_reset_app sub a b : no_reset sub (a ++ b) -> no_reset sub a /\ no_reset sub b.
Proof. intro H. split; intros x Hx; apply H; apply in_or_app; auto. Qed.

Lemma trace_ok_app n a b : trace_ok n (a ++ b) -> trace_ok n a /\ trace_ok n b.
Proof. intro H. now apply Forall_app in H. Qed.

Lemma trace_ok_mid n a x b : trace_ok n (a ++ x :: b) -> trace_ok n (a ++ [x]).
Proof.
  intro H. apply Forall_app in H as [H1 H2]. inversion H2; subst.
  apply Forall_app. split; [assumption | now constructor].
Qed.

(** the step at which the merged EOSE is output is the step at which the
    set of children that have sent EOSE becomes complete — not earlier, and
    (with [eose_exactly_once]) not again *)
Theorem eose_at n s sub fs w1 x w2 :
  (1 <= n)%nat -> state_ok n s -> Forall filter_wf fs ->
  trace_ok n (w1 ++ x :: w2) -> no_reset sub (w1 ++ x :: w2) ->
  exists o, nth_error (win_outs s sub fs (w1 ++ x :: w2)) (length w1) = Some o /\
            is_eose_out sub o = negb (all_eosed n sub w1) && all_eosed n sub (w1 ++ [x]).
Proof.
  intros Hn Hs Hfs Ht Hnr.
  pose proof (win_sim n s sub fs _ Hs Hfs Ht Hnr) as H.
  pose proof (wrun_nth sub (ph0 n fs) w1 x w2) as Hw. rewrite <- H in Hw.
  rewrite nth_error_map in Hw.
  destruct (nth_error (win_outs s sub fs (w1 ++ x :: w2)) (length w1)) as [o|]; [|discriminate].
  exists o. split; [reflexivity|]. cbn in Hw. inversion Hw as [Hw'].
  rewrite <- is_eose_out_proj, Hw'. apply eose_step; [assumption | eapply trace_ok_mid; eauto].
Qed.

Theorem eose_not_early n s sub fs w1 x w2 o :
  (1 <= n)%nat -> state_ok n s -> Forall filter_wf fs ->
  trace_ok n (w1 ++ x :: w2) -> no_reset sub (w1 ++ x :: w2) ->
  nth_error (win_outs s sub fs (w1 ++ x :: w2)) (length w1) = Some o -> is_eose_out sub o = true ->
  (forall i, (i < n)%nat -> eosed sub (w1 ++ [x]) i = true) /\ all_eosed n sub w1 = false.
Proof.
  intros Hn Hs Hfs Ht Hnr Ho He.
  destruct (eose_at n s sub fs w1 x w2 Hn Hs Hfs Ht Hnr) as [o' [Ho' E]].
  rewrite Ho in Ho'. inversion Ho'; subst o'. rewrite He in E. symmetry in E.
  apply andb_true_iff in E as [E1 E2]. apply negb_true_iff in E1. split; [|exact E1].
  intros i Hi. unfold all_eosed in E2. rewrite forallb_forall in E2. apply E2. apply in_seq. lia.
Qed.

(** a closed subscription stays closed and silent until the next REQ for it *)
Lemma closed_step n sub s x :
  state_ok n s -> input_ok n x -> is_req_of sub x = false ->
  rs_phase (st_rs s) sub = WClosed ->
  rs_phase (st_rs (fst (merge_step s x))) sub = WClosed /\ is_eose_out sub (snd (merge_step s x)) = false.
Proof.
  intros Hs Hx Hnr Hc. destruct (is_close_of sub x) eqn:Ecl.
  - destruct x as [| s' | | |]; try discriminate. cbn in Ecl. apply str_eqb_eq in Ecl. subst s'.
    destruct Hs as [Hd _]. unfold merge_step. rewrite Hd. cbn [fst snd with_rs st_rs]. split; [|reflexivity].
    unfold rs_phase. now rewrite rs_view_clear, str_dec_refl.
  - destruct (step_sim n sub s x Hs Hx Hnr Ecl) as [P O]. rewrite Hc in P, O. split.
    + rewrite P. apply wstep_closed.
    + rewrite <- is_eose_out_proj, O.
      destruct x as [| | | |i [s'|s' e| | | |]]; cbn; try reflexivity; destruct (str_eqb s' sub); reflexivity.
Qed.

Definition no_req (sub : str) (w : list input) : Prop := forall x, In x w -> is_req_of sub x = false.

Lemma closed_run n sub w : forall s,
  state_ok n s -> trace_ok n w -> no_req sub w -> rs_phase (st_rs s) sub = WClosed ->
  count_occ_b (is_eose_out sub) (outs s w) = 0%nat.
Proof.
  induction w as [|x w IH]; intros s Hs Ht Hn Hc; [reflexivity|].
  inversion Ht as [|? ? Hx Ht']; subst.
  destruct (closed_step n sub s x Hs Hx (Hn x (or_introl eq_refl)) Hc) as [P O].
  unfold outs. rewrite exec_cons. cbn [snd count_occ_b]. rewrite O.
  apply IH; [now apply step_ok | assumption | intros y Hy; apply Hn; now right | assumption].
Qed.

(** no merged EOSE after the client closed the subscription (whatever the
    children still send), until the id is used by a new REQ *)
Theorem eose_none_after_close n s sub w :
  state_ok n s -> trace_ok n w -> no_req sub w ->
  count_occ_b (is_eose_out sub) (outs (fst (merge_step s (CClose sub))) w) = 0%nat.
Proof.
  intros Hs Ht Hn. apply (closed_run n sub w); try assumption.
  - now apply step_ok.
  - destruct Hs as [Hd _]. unfold merge_step. rewrite Hd. cbn [fst with_rs st_rs].
    unfold rs_phase. now rewrite rs_view_clear, str_dec_refl.
Qed.

(** nor before the first REQ *)
Theorem eose_none_before_req n sub w :
  trace_ok n w -> no_req sub w -> count_occ_b (is_eose_out sub) (outs (init n) w) = 0%nat.
Proof. intros Ht Hn. apply (closed_run n sub w); try assumption; [apply init_ok | reflexivity]. Qed.

(** everything forwarded while some child has not sent EOSE *)
Lemma pre_eose_inv n s sub fs w :
  (1 <= n)%nat -> state_ok n s -> Forall filter_wf fs -> trace_ok n w -> no_reset sub w ->
  all_eosed n sub w = false ->
  exists la se ms, pre_inv fs la se ms (forwarded sub (win_outs s sub fs w)).
Proof.
  intros Hn Hs Hfs Ht Hnr Ha.
  pose proof (window_inv n sub fs w Hn Ht) as H. unfold window_state in H. rewrite Ha in H.
  destruct H as [la [se [ms [_ H]]]]. exists la, se, ms.
  now rewrite <- forwarded_proj, (win_sim n s sub fs w Hs Hfs Ht Hnr).
Qed.

Theorem pre_eose_match n s sub fs w :
  (1 <= n)%nat -> state_ok n s -> Forall filter_wf fs -> trace_ok n w -> no_reset sub w ->
  all_eosed n sub w = false ->
  forall e, In e (forwarded sub (win_outs s sub fs w)) -> matches_spec e fs.
Proof.
  intros Hn Hs Hfs Ht Hnr Ha e He.
  destruct (pre_eose_inv n s sub fs w Hn Hs Hfs Ht Hnr Ha) as [la [se [ms [_ [H _]]]]].
  rewrite Forall_forall in H. apply matches_specb_spec. now apply H.
Qed.

Theorem pre_eose_distinct n s sub fs w :
  (1 <= n)%nat -> state_ok n s -> Forall filter_wf fs -> trace_ok n w -> no_reset sub w ->
  all_eosed n sub w = false ->
  NoDup (List.map ev_key (forwarded sub (win_outs s sub fs w))).
Proof.
  intros Hn Hs Hfs Ht Hnr Ha.
  destruct (pre_eose_inv n s sub fs w Hn Hs Hfs Ht Hnr Ha) as [la [se [ms [_ [_ [H _]]]]]]. exact H.
Qed.

(** when an id determines its event (what the admission gate guarantees:
    the id is the hash of the content), distinct means distinct ids *)
Corollary pre_eose_distinct_ids n s sub fs w :
  (1 <= n)%nat -> state_ok n s -> Forall filter_wf fs -> trace_ok n w -> no_reset sub w ->
  all_eosed n sub w = false ->
  (forall e1 e2, In e1 (forwarded sub (win_outs s sub fs w)) -> In e2 (forwarded sub (win_outs s sub fs w)) ->
                 ev_id e1 = ev_id e2 -> ev_ts e1 = ev_ts e2) ->
  NoDup (List.map ev_id (forwarded sub (win_outs s sub fs w))).
Proof.
  intros Hn Hs Hfs Ht Hnr Ha Hfun.
  pose proof (pre_eose_distinct n s sub fs w Hn Hs Hfs Ht Hnr Ha) as H.
  remember (forwarded sub (win_outs s sub fs w)) as l eqn:El. clear El.
  induction l as [|a l IH]; cbn in *; [constructor|].
  inversion H as [|? ? Hnin Hnd]; subst. constructor.
  - intro Hin. apply in_map_iff in Hin as [b [Eb Hb]]. apply Hnin. apply in_map_iff. exists b. split; [|assumption].
    unfold ev_key. f_equal; [|assumption]. apply Hfun; [now right | now left | assumption].
  - apply IH; [|assumption]. intros e1 e2 H1 H2. apply Hfun; now right.
Qed.

Theorem pre_eose_sorted n s sub fs w :
  (1 <= n)%nat -> state_ok n s -> Forall filter_wf fs -> trace_ok n w -> no_reset sub w ->
  all_eosed n sub w = false ->
  ts_noninc (forwarded sub (win_outs s sub fs w)).
Proof.
  intros Hn Hs Hfs Ht Hnr Ha.
  destruct (pre_eose_inv n s sub fs w Hn Hs Hfs Ht Hnr Ha) as [la [se [ms [_ [_ [_ [H _]]]]]]]. exact H.
Qed.

Theorem pre_eose_limit_single n s sub f l w :
  (1 <= n)%nat -> state_ok n s -> filter_wf f -> trace_ok n w -> no_reset sub w ->
  all_eosed n sub w = false -> f_limit f = Some l ->
  Z.of_nat (length (forwarded sub (win_outs s sub [f] w))) <= Z.max 0 l.
Proof.
  intros Hn Hs Hf Ht Hnr Ha Hl.
  assert (Hfs : Forall filter_wf [f]) by (constructor; [assumption | constructor]).
  destruct (pre_eose_inv n s sub [f] w Hn Hs Hfs Ht Hnr Ha) as [la [se [ms [Hm [_ [_ [_ [_ H]]]]]]]].
  destruct ms as [|m [|m2 ms2]]; cbn in Hm; try discriminate.
  assert (Em : lm_f m = f) by (now inversion Hm).
  destruct (H m eq_refl) as [_ H2]. apply H2. now rewrite Em.
Qed.

(** after the merged EOSE every event a child emits for the subscription is
    forwarded unchanged, at its own step — so each child's order is kept *)
Theorem post_eose_passthrough n s sub fs w1 i e w2 :
  (1 <= n)%nat -> state_ok n s -> Forall filter_wf fs ->
  trace_ok n (w1 ++ Child i (SEvent sub e) :: w2) -> no_reset sub (w1 ++ Child i (SEvent sub e) :: w2) ->
  all_eosed n sub w1 = true ->
  nth_error (win_outs s sub fs (w1 ++ Child i (SEvent sub e) :: w2)) (length w1) = Some (Some (SEvent sub e)).
Proof.
  intros Hn Hs Hfs Ht Hnr Ha.
  pose proof (win_sim n s sub fs _ Hs Hfs Ht Hnr) as H.
  pose proof (wrun_nth sub (ph0 n fs) w1 (Child i (SEvent sub e)) w2) as Hw. rewrite <- H in Hw.
  rewrite nth_error_map in Hw.
  destruct (nth_error (win_outs s sub fs _) (length w1)) as [o|]; [|discriminate].
  cbn [option_map] in Hw. inversion Hw as [Hw']. f_equal.
  apply (proj_sub_some sub). rewrite Hw'.
  destruct (trace_ok_app _ _ _ Ht) as [Ht1 _].
  pose proof (window_inv n sub fs w1 Hn Ht1) as Hi. unfold window_state in Hi. rewrite Ha in Hi. rewrite Hi.
  cbn. now rewrite str_eqb_refl.
Qed.

(** whatever is forwarded is the child's message itself; client messages
    produce nothing on the client side *)
Theorem subid_preserved s x o :
  snd (merge_step s x) = Some o ->
  exists i m, x = Child i m /\
    match m with
    | SOk _ => exists r, o = SOk r
    | SCount _ => exists r, o = SCount r
    | _ => o = m
    end.
Proof.
  unfold merge_step. destruct (st_dead s); [discriminate|].
  destruct x as [| | | |i m]; cbn [snd]; try discriminate.
  intro H. exists i, m. split; [reflexivity|].
  destruct m as [sub|sub e|m|c|t|sub p t].
  - unfold send_eose in H. destruct (rs_all_eose (st_rs s) sub) as [r1 a1].
    destruct (h_eose_already a1); [discriminate|].
    destruct (rs_set_eose r1 sub i) as [r2|]; [|discriminate].
    destruct (rs_all_eose r2 sub) as [r3 a2]. destruct (h_eose_incomplete a2); cbn in H; congruence.
  - unfold send_event in H. destruct (rs_is_sendable (st_rs s) i sub e) as [[r' b]|]; [|discriminate].
    destruct (h_event_unsendable b); cbn in H; congruence.
  - unfold send_ok in H. destruct (os_set_msg (st_os s) i m) as [o1|]; [|discriminate].
    destruct (h_ok_not_ready _); [discriminate|]. destruct (os_msg o1 (ok_id m)) as [r|]; [|discriminate].
    destruct (os_clear o1 (ok_id m)); [|discriminate]. exists r. cbn in H. congruence.
  - unfold send_count in H. destruct (cs_set_msg (st_cs s) i c) as [c1|]; [|discriminate].
    destruct (h_count_not_ready _); [discriminate|]. destruct (cs_msg c1 (c_sub c)) as [r|]; [|discriminate].
    destruct (cs_clear c1 (c_sub c)); [|discriminate]. exists r. cbn in H. congruence.
  - cbn in H. congruence.
  - cbn in H. congruence.
Qed.

(* ------------------------------------------------------------------ *)
(** * 9. Histories: general lemmas *)

Lemma final_snoc s w x : final s (w ++ [x]) = fst (merge_step (final s w) x).
Proof. unfold final. rewrite exec_app. cbn [fst exec]. now destruct (merge_step _ x). Qed.

Lemma outs_snoc s w x : outs s (w ++ [x]) = outs s w ++ [snd (merge_step (final s w) x)].
Proof. unfold outs, final. rewrite exec_app. cbn [snd exec]. now destruct (merge_step _ x). Qed.

Lemma final_app s a b : final s (a ++ b) = final (final s a) b.
Proof. unfold final. now rewrite exec_app. Qed.

Lemma outs_cons s x t : outs s (x :: t) = snd (merge_step s x) :: outs (fst (merge_step s x)) t.
Proof. unfold outs. now rewrite exec_cons. Qed.

Lemma outs_app s a b : outs s (a ++ b) = outs s a ++ outs (final s a) b.
Proof. unfold outs, final. now rewrite exec_app. Qed.

Lemma reach_ok n pre : trace_ok n pre -> state_ok n (final (init n) pre).
Proof. intro H. apply exec_ok; [apply init_ok | exact H]. Qed.

Lemma trace_ok_window n pre x w : trace_ok n (pre ++ x :: w) -> trace_ok n pre /\ input_ok n x /\ trace_ok n w.
Proof. intro H. apply Forall_app in H as [H1 H2]. inversion H2; subst. auto. Qed.

(** the window is the tail of the session's output *)
Lemma outs_window n pre x w :
  outs (init n) (pre ++ x :: w) =
  outs (init n) pre ++ snd (merge_step (final (init n) pre) x) :: outs (fst (merge_step (final (init n) pre) x)) w.
Proof. unfold outs, final. rewrite exec_app. cbn [snd]. now rewrite exec_cons. Qed.

Lemma ge2_ge1 n : (2 <= n)%nat -> (1 <= n)%nat.
Proof. lia. Qed.

Lemma wf_trace_ok n t : wf_trace n t -> trace_ok n t.
Proof. now intros [H _]. Qed.

Lemma trace_ok_prefix n a b : trace_ok n (a ++ b) -> trace_ok n a.
Proof. intro H. now apply Forall_app in H. Qed.

