(* MergeProofs.v — C08/C09: proofs about the model of the merge handler in
   Merge.v.  Structure:
     1  Go maps and slices
     2  one lemma per generated guard (everything below uses only these)
     3  the global invariant [state_ok] (the session does not panic)
     4  the REQ state of one subscription id seen as a small machine
        ([wphase], [wstep]) and the simulation of [merge_step] by it
     5  C08: the theorems about one REQ window
     6  C09: OK and COUNT aggregation *)
From Moc Require Import Base Match MatchProofs Merge.
From Moc.Gen Require Import GenMerge.
Open Scope Z_scope.

(* ------------------------------------------------------------------ *)
(** * 1. Maps and slices *)

Lemma assoc_m_del_same {B} k (l : list (str * B)) : assoc k (m_del k l) = None.
Proof.
  induction l as [|[k' v] l IH]; simpl; [reflexivity|].
  destruct (str_eqb k k') eqn:E; simpl; [assumption|]. now rewrite E.
Qed.

Lemma assoc_m_del_other {B} k k' (l : list (str * B)) :
  k <> k' -> assoc k' (m_del k l) = assoc k' l.
Proof.
  intro N. induction l as [|[k2 v] l IH]; simpl; [reflexivity|].
  destruct (str_eqb k k2) eqn:E; simpl.
  - apply str_eqb_eq in E; subst k2.
    destruct (str_eqb k' k) eqn:E2; [apply str_eqb_eq in E2; congruence | assumption].
  - destruct (str_eqb k' k2); [reflexivity | assumption].
Qed.

Lemma assoc_m_set_same {B} k (v : B) l : assoc k (m_set k v l) = Some v.
Proof. unfold m_set. simpl. now rewrite str_eqb_refl. Qed.

Lemma assoc_m_set_other {B} k k' (v : B) l : k <> k' -> assoc k' (m_set k v l) = assoc k' l.
Proof.
  intro N. unfold m_set. simpl.
  destruct (str_eqb k' k) eqn:E; [apply str_eqb_eq in E; congruence|].
  now apply assoc_m_del_other.
Qed.

Lemma upd_nth_length {A} i (v : A) l l' : upd_nth i v l = Some l' -> length l' = length l.
Proof.
  revert i l'. induction l as [|x l IH]; intros [|i] l' H; simpl in H; try discriminate.
  - inversion H; reflexivity.
  - destruct (upd_nth i v l) eqn:E; [|discriminate]. inversion H; subst. simpl. f_equal. eapply IH; eauto.
Qed.

Lemma upd_nth_some {A} i (v : A) l : (i < length l)%nat -> exists l', upd_nth i v l = Some l'.
Proof.
  revert i. induction l as [|x l IH]; intros [|i] H; simpl in *; try lia.
  - eexists; reflexivity.
  - destruct (IH i) as [l' E]; [lia|]. rewrite E. eexists; reflexivity.
Qed.

Lemma upd_nth_map_seq {A} (f : nat -> A) v : forall n a i, (i < n)%nat ->
  upd_nth i v (List.map f (seq a n)) =
  Some (List.map (fun j => if Nat.eqb j (a + i) then v else f j) (seq a n)).
Proof.
  induction n as [|n IH]; intros a i H; [lia|].
  destruct i as [|i]; simpl.
  - rewrite Nat.add_0_r, Nat.eqb_refl. do 2 f_equal.
    apply map_ext_in. intros j Hj. apply in_seq in Hj.
    destruct (Nat.eqb j a) eqn:E; [apply Nat.eqb_eq in E; lia | reflexivity].
  - rewrite (IH (S a) i) by lia.
    destruct (Nat.eqb a (a + S i)) eqn:E; [apply Nat.eqb_eq in E; lia|].
    do 2 f_equal. apply map_ext. intro j. now replace (S a + i)%nat with (a + S i)%nat by lia.
Qed.

Lemma upd_nth_In {A} i (v : A) l l' x : upd_nth i v l = Some l' -> In x l' -> x = v \/ In x l.
Proof.
  revert i l'. induction l as [|y l IH]; intros [|i] l' H Hin; simpl in H; try discriminate.
  - inversion H; subst. destruct Hin as [<-|Hin]; [now left | right; now right].
  - destruct (upd_nth i v l) eqn:E; [|discriminate]. inversion H; subst.
    destruct Hin as [<-|Hin]; [right; now left|].
    destruct (IH _ _ E Hin); [now left | right; now right].
Qed.

Lemma zlen_zero {A} (l : list A) : zlen l = 0 <-> l = [].
Proof. unfold zlen. destruct l; simpl; split; intro H; try reflexivity; try discriminate; lia. Qed.

Lemma forallb_map_seq (f : nat -> bool) n a :
  forallb (fun b => b) (List.map f (seq a n)) = forallb f (seq a n).
Proof. revert a. induction n as [|n IH]; intro a; simpl; [reflexivity | now rewrite IH]. Qed.

Lemma existsb_negb_forallb (l : list bool) : negb (existsb negb l) = forallb (fun b => b) l.
Proof. induction l as [|[] l IH]; simpl; auto. Qed.

(** all maps of the state satisfy [P] on every bound value *)
Definition map_all {B} (P : B -> Prop) (m : list (str * B)) : Prop :=
  forall k v, assoc k m = Some v -> P v.

Lemma map_all_nil {B} (P : B -> Prop) : map_all P [].
Proof. intros k v H; discriminate. Qed.

Lemma map_all_set {B} (P : B -> Prop) k v m : map_all P m -> P v -> map_all P (m_set k v m).
Proof.
  intros H Hv k' v' E. destruct (str_dec k k') as [<-|N].
  - rewrite assoc_m_set_same in E. inversion E; now subst.
  - rewrite assoc_m_set_other in E by assumption. eapply H; eauto.
Qed.

Lemma map_all_del {B} (P : B -> Prop) k m : map_all P m -> map_all P (m_del k m).
Proof.
  intros H k' v' E. destruct (str_dec k k') as [<-|N].
  - rewrite assoc_m_del_same in E. discriminate.
  - rewrite assoc_m_del_other in E by assumption. eapply H; eauto.
Qed.

(* ------------------------------------------------------------------ *)
(** * 2. Facts about the generated guards *)

Lemma g_merge_too_few_spec n : g_merge_too_few n = true <-> n < 2.
Proof. unfold g_merge_too_few. apply Z.ltb_lt. Qed.
Lemma g_eose_already_spec b : g_eose_already b = b.
Proof. reflexivity. Qed.
Lemma g_eose_incomplete_spec b : g_eose_incomplete b = negb b.
Proof. reflexivity. Qed.
Lemma g_event_unsendable_spec b : g_event_unsendable b = negb b.
Proof. reflexivity. Qed.
Lemma g_ok_not_ready_spec b : g_ok_not_ready b = negb b.
Proof. reflexivity. Qed.
Lemma g_count_not_ready_spec b : g_count_not_ready b = negb b.
Proof. reflexivity. Qed.
Lemma g_ok_has_slot_spec {A} (l : list A) : g_ok_has_slot (zlen l) = negb (match l with [] => true | _ => false end).
Proof.
  unfold g_ok_has_slot. destruct l as [|a l]; [reflexivity|].
  assert (H : 0 < zlen (a :: l)) by (unfold zlen; simpl length; lia).
  simpl negb. apply Z.gtb_lt. lia.
Qed.
Lemma len_eq0_spec {A} (l : list A) : (zlen l =? 0) = match l with [] => true | _ => false end.
Proof.
  destruct l as [|a l]; [reflexivity|].
  assert (H : 0 < zlen (a :: l)) by (unfold zlen; simpl length; lia).
  apply Z.eqb_neq. lia.
Qed.
Lemma g_ok_setmsg_absent_spec {A} (l : list A) : g_ok_setmsg_absent (zlen l) = match l with [] => true | _ => false end.
Proof. apply len_eq0_spec. Qed.
Lemma g_ok_ready_absent_spec {A} (l : list A) : g_ok_ready_absent (zlen l) = match l with [] => true | _ => false end.
Proof. apply len_eq0_spec. Qed.
Lemma g_ok_msg_absent_spec {A} (l : list A) : g_ok_msg_absent (zlen l) = match l with [] => true | _ => false end.
Proof. apply len_eq0_spec. Qed.
Lemma g_ok_is_accepted_spec b : g_ok_is_accepted b = b.
Proof. reflexivity. Qed.
Lemma g_ok_any_rejected_spec {A} (l : list A) : g_ok_any_rejected (zlen l) = negb (match l with [] => true | _ => false end).
Proof.
  unfold g_ok_any_rejected. destruct l as [|a l]; [reflexivity|].
  assert (H : 0 < zlen (a :: l)) by (unfold zlen; simpl length; lia).
  simpl negb. apply Z.gtb_lt. lia.
Qed.
Lemma g_req_seteose_absent_spec {A} (l : list A) : g_req_seteose_absent (zlen l) = match l with [] => true | _ => false end.
Proof. apply len_eq0_spec. Qed.
Lemma g_req_alleose_missing_spec b : g_req_alleose_missing b = negb b.
Proof. reflexivity. Qed.
Lemma g_req_alleose_delete_spec b : g_req_alleose_delete b = b.
Proof. reflexivity. Qed.
Lemma g_ev_all_eose_spec b : g_ev_all_eose b = b.
Proof. reflexivity. Qed.
Lemma g_ev_child_eose_spec b : g_ev_child_eose b = b.
Proof. reflexivity. Qed.
Lemma g_ev_has_last_spec b : g_ev_has_last b = b.
Proof. reflexivity. Qed.
Lemma g_ev_older_first_spec a b : g_ev_older_first (cmpZ a b) = (a <? b).
Proof.
  unfold g_ev_older_first, cmpZ, Z.ltb. destruct (a ?= b); reflexivity.
Qed.
Lemma g_ev_ts_decreased_spec a b : g_ev_ts_decreased (cmpZ a b) = (b <? a).
Proof.
  unfold g_ev_ts_decreased, cmpZ. rewrite (Z.ltb_antisym a b), Z.leb_compare.
  destruct (a ?= b) eqn:E; reflexivity.
Qed.
Lemma g_ev_seen_reject_spec a b : g_ev_seen_reject a b = a || b.
Proof. reflexivity. Qed.
Lemma g_ev_done_spec b : g_ev_done b = b.
Proof. reflexivity. Qed.
Lemma g_ev_nomatch_spec b : g_ev_nomatch b = negb b.
Proof. reflexivity. Qed.
Lemma g_cnt_set_absent_spec {A} (l : list A) : g_cnt_set_absent (zlen l) = match l with [] => true | _ => false end.
Proof. apply len_eq0_spec. Qed.
Lemma g_cnt_ready_absent_spec {A} (l : list A) : g_cnt_ready_absent (zlen l) = match l with [] => true | _ => false end.
Proof. apply len_eq0_spec. Qed.

Global Opaque g_merge_too_few g_eose_already g_eose_incomplete g_event_unsendable g_ok_not_ready
  g_count_not_ready g_ok_has_slot g_ok_setmsg_absent g_ok_ready_absent g_ok_msg_absent g_ok_is_accepted
  g_ok_any_rejected g_req_seteose_absent g_req_alleose_missing g_req_alleose_delete g_ev_all_eose
  g_ev_child_eose g_ev_has_last g_ev_older_first g_ev_ts_decreased g_ev_seen_reject g_ev_done g_ev_nomatch
  g_cnt_set_absent g_cnt_ready_absent.

(* ------------------------------------------------------------------ *)
(** * 3. The REQ state of one subscription id as a small machine *)

Definition rview := (option (list bool) * option (option event) * option (list str) * option (list lmatcher))%type.

Definition rs_view (r : rstate) (k : str) : rview :=
  (assoc k (rs_eose r), assoc k (rs_last r), assoc k (rs_seen r), assoc k (rs_matcher r)).

(** a subscription id is either open (REQ seen, merged EOSE not yet sent:
    the four maps have an entry) or closed (no entry in any of them) *)
Inductive wphase :=
| WOpen (eo : list bool) (la : option event) (se : list str) (ms : list lmatcher)
| WClosed.

Definition view_phase (v : rview) : wphase :=
  match v with
  | (Some eo, Some la, Some se, Some ms) => WOpen eo la se ms
  | _ => WClosed
  end.

Definition view_sync (v : rview) : Prop :=
  match v with
  | (Some _, Some _, Some _, Some _) => True
  | (None, None, None, None) => True
  | _ => False
  end.

Definition ms_wf (ms : list lmatcher) : Prop := Forall (fun m => filter_wf (lm_f m)) ms.

Definition phase_wf (n : nat) (ph : wphase) : Prop :=
  match ph with
  | WOpen eo _ _ ms => length eo = n /\ ms_wf ms
  | WClosed => True
  end.

Definition rs_phase (r : rstate) (k : str) : wphase := view_phase (rs_view r k).

(** the four maps always have the same keys; slot vectors have one entry per
    child; stored filters are decoder-producible *)
Definition rs_ok (n : nat) (r : rstate) : Prop :=
  rs_size r = n /\ forall k, view_sync (rs_view r k) /\ phase_wf n (rs_phase r k).

Definition all_true (l : list bool) : bool := forallb (fun b => b) l.

(** EOSE of child [i] *)
Definition w_eose (ph : wphase) (i : nat) : wphase * bool :=
  match ph with
  | WClosed => (WClosed, false)
  | WOpen eo la se ms =>
      if all_true eo then (WClosed, false) else
      match upd_nth i true eo with
      | None => (ph, false)
      | Some eo' => if all_true eo' then (WClosed, true) else (WOpen eo' la se ms, false)
      end
  end.

(** EVENT of child [i] *)
Definition w_event (ph : wphase) (i : nat) (e : event) : wphase * bool :=
  match ph with
  | WClosed => (WClosed, true)
  | WOpen eo la se ms =>
      if all_true eo then (WClosed, true) else
      match nth_error eo i with
      | None => (ph, false)
      | Some true => (ph, false)
      | Some false =>
          if match la with Some l => ev_ts l <? ev_ts e | None => false end then (ph, false) else
          let se1 := if match la with Some l => ev_ts e <? ev_ts l | None => false end then [] else se in
          if mem_str (ev_id e) se1 then (WOpen eo (Some e) se1 ms, false) else
          let se2 := ev_id e :: se1 in
          if lms_done ms then (WOpen eo (Some e) se2 ms, false) else
          (WOpen eo (Some e) se2 (List.map (lm_step e) ms), matches_specb e (List.map lm_f ms))
      end
  end.

Ltac str_cases k sub :=
  destruct (str_dec sub k) as [?E|?N];
  [ subst; rewrite ?assoc_m_set_same, ?assoc_m_del_same
  | rewrite ?(assoc_m_set_other _ _ _ _ N), ?(assoc_m_del_other _ _ _ N) ].

Lemma rs_view_set_sub r sub fs k :
  rs_view (rs_set_sub r sub fs) k =
  if str_dec sub k then (Some (repeat false (rs_size r)), Some None, Some [], Some (lms_new fs)) else rs_view r k.
Proof.
  unfold rs_view, rs_set_sub; cbn [rs_eose rs_last rs_seen rs_matcher].
  destruct (str_dec sub k) as [E|N].
  - subst. now rewrite !assoc_m_set_same.
  - now rewrite !(assoc_m_set_other _ _ _ _ N).
Qed.

Lemma rs_view_clear r sub k :
  rs_view (rs_clear r sub) k = if str_dec sub k then (None, None, None, None) else rs_view r k.
Proof.
  unfold rs_view, rs_clear; cbn [rs_eose rs_last rs_seen rs_matcher].
  destruct (str_dec sub k) as [E|N].
  - subst. now rewrite !assoc_m_del_same.
  - now rewrite !(assoc_m_del_other _ _ _ N).
Qed.

Lemma lms_new_wf fs : Forall filter_wf fs -> ms_wf (lms_new fs).
Proof. intro H. unfold ms_wf, lms_new. rewrite Forall_map. exact H. Qed.

Lemma rs_set_sub_ok n r sub fs : rs_ok n r -> Forall filter_wf fs -> rs_ok n (rs_set_sub r sub fs).
Proof.
  intros [Hn H] Hfs. split; [exact Hn|]. intro k. unfold rs_phase. rewrite rs_view_set_sub.
  destruct (str_dec sub k); [|apply H].
  simpl. repeat split; [rewrite repeat_length; exact Hn | now apply lms_new_wf].
Qed.

Lemma rs_clear_ok n r sub : rs_ok n r -> rs_ok n (rs_clear r sub).
Proof.
  intros [Hn H]. split; [exact Hn|]. intro k. unfold rs_phase. rewrite rs_view_clear.
  destruct (str_dec sub k); [simpl; auto | apply H].
Qed.

(** a state that differs from [r] only at [sub], where its phase is [ph] *)
Definition rs_upd (r r' : rstate) (sub : str) (ph : wphase) : Prop :=
  rs_size r' = rs_size r /\
  (forall k, k <> sub -> rs_view r' k = rs_view r k) /\
  view_sync (rs_view r' sub) /\ rs_phase r' sub = ph.

Lemma rs_upd_ok n r r' sub ph : rs_ok n r -> rs_upd r r' sub ph -> phase_wf n ph -> rs_ok n r'.
Proof.
  intros [Hn H] [Hs [Hf [Hsy Hp]]] Hwf. split; [congruence|]. intro k.
  destruct (str_dec k sub) as [->|N].
  - rewrite Hp. auto.
  - unfold rs_phase. rewrite (Hf k N). apply H.
Qed.

Lemma rs_upd_refl r sub : view_sync (rs_view r sub) -> rs_upd r r sub (rs_phase r sub).
Proof. intro H. repeat split; auto. Qed.

Lemma rs_upd_clear r sub : rs_upd r (rs_clear r sub) sub WClosed.
Proof.
  repeat split.
  - intros k N. rewrite rs_view_clear. destruct (str_dec sub k); [congruence | reflexivity].
  - rewrite rs_view_clear. destruct (str_dec sub sub); [exact I | congruence].
  - unfold rs_phase. rewrite rs_view_clear. destruct (str_dec sub sub); [reflexivity | congruence].
Qed.

(** the phase of [sub] read off a synchronised view *)
Lemma sync_cases r sub :
  view_sync (rs_view r sub) ->
  (exists eo la se ms, rs_view r sub = (Some eo, Some la, Some se, Some ms)) \/
  rs_view r sub = (None, None, None, None).
Proof.
  destruct (rs_view r sub) as [[[[eo|] [la|]] [se|]] [ms|]]; simpl; try contradiction.
  - left. now exists eo, la, se, ms.
  - now right.
Qed.

Lemma all_true_nonempty (l : list bool) : all_true l = false -> l <> [].
Proof. intros H ->. discriminate. Qed.

(** AllEOSE *)
Lemma rs_all_eose_spec r sub :
  view_sync (rs_view r sub) ->
  match rs_phase r sub with
  | WClosed => rs_all_eose r sub = (r, true)
  | WOpen eo _ _ _ =>
      if all_true eo then rs_all_eose r sub = (rs_clear r sub, true) else rs_all_eose r sub = (r, false)
  end.
Proof.
  intro Hs. unfold rs_phase. destruct (sync_cases r sub Hs) as [[eo [la [se [ms E]]]]|E]; rewrite E; simpl.
  - unfold rs_all_eose. unfold rs_view in E. inversion E as [[E1 E2 E3 E4]]. rewrite E1.
    rewrite g_req_alleose_missing_spec, g_req_alleose_delete_spec. simpl.
    rewrite existsb_negb_forallb. fold (all_true eo). destruct (all_true eo); reflexivity.
  - unfold rs_all_eose. unfold rs_view in E. inversion E as [[E1 E2 E3 E4]]. rewrite E1.
    now rewrite g_req_alleose_missing_spec.
Qed.

Lemma rs_view_with_eose r sub x k :
  rs_view (rs_with_eose r (m_set sub x (rs_eose r))) k =
  if str_dec sub k then (Some x, assoc k (rs_last r), assoc k (rs_seen r), assoc k (rs_matcher r)) else rs_view r k.
Proof.
  unfold rs_view, rs_with_eose; cbn [rs_eose rs_last rs_seen rs_matcher].
  destruct (str_dec sub k) as [E|N]; [subst; now rewrite assoc_m_set_same | now rewrite (assoc_m_set_other _ _ _ _ N)].
Qed.

Lemma rs_view_with_last r sub x k :
  rs_view (rs_with_last r (m_set sub x (rs_last r))) k =
  if str_dec sub k then (assoc k (rs_eose r), Some x, assoc k (rs_seen r), assoc k (rs_matcher r)) else rs_view r k.
Proof.
  unfold rs_view, rs_with_last; cbn [rs_eose rs_last rs_seen rs_matcher].
  destruct (str_dec sub k) as [E|N]; [subst; now rewrite assoc_m_set_same | now rewrite (assoc_m_set_other _ _ _ _ N)].
Qed.

Lemma rs_view_with_seen r sub x k :
  rs_view (rs_with_seen r (m_set sub x (rs_seen r))) k =
  if str_dec sub k then (assoc k (rs_eose r), assoc k (rs_last r), Some x, assoc k (rs_matcher r)) else rs_view r k.
Proof.
  unfold rs_view, rs_with_seen; cbn [rs_eose rs_last rs_seen rs_matcher].
  destruct (str_dec sub k) as [E|N]; [subst; now rewrite assoc_m_set_same | now rewrite (assoc_m_set_other _ _ _ _ N)].
Qed.

Lemma rs_view_with_matcher r sub x k :
  rs_view (rs_with_matcher r (m_set sub x (rs_matcher r))) k =
  if str_dec sub k then (assoc k (rs_eose r), assoc k (rs_last r), assoc k (rs_seen r), Some x) else rs_view r k.
Proof.
  unfold rs_view, rs_with_matcher; cbn [rs_eose rs_last rs_seen rs_matcher].
  destruct (str_dec sub k) as [E|N]; [subst; now rewrite assoc_m_set_same | now rewrite (assoc_m_set_other _ _ _ _ N)].
Qed.

Lemma str_dec_refl (k : str) {T} (a b : T) : (if str_dec k k then a else b) = a.
Proof. destruct (str_dec k k); congruence. Qed.

Lemma str_dec_neq (k k' : str) {T} (a b : T) : k <> k' -> (if str_dec k k' then a else b) = b.
Proof. intro N. destruct (str_dec k k'); congruence. Qed.

(** a chain of updates at [sub] is an update at [sub] *)
Lemma rs_upd_trans r r1 r2 sub ph1 ph2 :
  rs_upd r r1 sub ph1 -> rs_upd r1 r2 sub ph2 -> rs_upd r r2 sub ph2.
Proof.
  intros [S1 [F1 _]] [S2 [F2 [Y2 P2]]]. repeat split; try assumption; [congruence|].
  intros k N. rewrite (F2 k N). now apply F1.
Qed.

Lemma view_of r sub eo la se ms :
  rs_view r sub = (Some eo, Some la, Some se, Some ms) ->
  assoc sub (rs_eose r) = Some eo /\ assoc sub (rs_last r) = Some la /\
  assoc sub (rs_seen r) = Some se /\ assoc sub (rs_matcher r) = Some ms.
Proof. unfold rs_view. intro E. inversion E. auto. Qed.

Lemma rs_upd_with_eose r sub eo' eo la se ms :
  rs_view r sub = (Some eo, Some la, Some se, Some ms) ->
  rs_upd r (rs_with_eose r (m_set sub eo' (rs_eose r))) sub (WOpen eo' la se ms) /\
  rs_view (rs_with_eose r (m_set sub eo' (rs_eose r))) sub = (Some eo', Some la, Some se, Some ms).
Proof.
  intro E. destruct (view_of _ _ _ _ _ _ E) as [E1 [E2 [E3 E4]]].
  assert (V : rs_view (rs_with_eose r (m_set sub eo' (rs_eose r))) sub = (Some eo', Some la, Some se, Some ms)).
  { rewrite rs_view_with_eose, str_dec_refl. now rewrite E2, E3, E4. }
  split; [|exact V]. repeat split.
  - intros k N. rewrite rs_view_with_eose. apply str_dec_neq. congruence.
  - now rewrite V.
  - unfold rs_phase. now rewrite V.
Qed.

Lemma rs_upd_with_last r sub la' eo la se ms :
  rs_view r sub = (Some eo, Some la, Some se, Some ms) ->
  rs_upd r (rs_with_last r (m_set sub la' (rs_last r))) sub (WOpen eo la' se ms) /\
  rs_view (rs_with_last r (m_set sub la' (rs_last r))) sub = (Some eo, Some la', Some se, Some ms).
Proof.
  intro E. destruct (view_of _ _ _ _ _ _ E) as [E1 [E2 [E3 E4]]].
  assert (V : rs_view (rs_with_last r (m_set sub la' (rs_last r))) sub = (Some eo, Some la', Some se, Some ms)).
  { rewrite rs_view_with_last, str_dec_refl. now rewrite E1, E3, E4. }
  split; [|exact V]. repeat split.
  - intros k N. rewrite rs_view_with_last. apply str_dec_neq. congruence.
  - now rewrite V.
  - unfold rs_phase. now rewrite V.
Qed.

Lemma rs_upd_with_seen r sub se' eo la se ms :
  rs_view r sub = (Some eo, Some la, Some se, Some ms) ->
  rs_upd r (rs_with_seen r (m_set sub se' (rs_seen r))) sub (WOpen eo la se' ms) /\
  rs_view (rs_with_seen r (m_set sub se' (rs_seen r))) sub = (Some eo, Some la, Some se', Some ms).
Proof.
  intro E. destruct (view_of _ _ _ _ _ _ E) as [E1 [E2 [E3 E4]]].
  assert (V : rs_view (rs_with_seen r (m_set sub se' (rs_seen r))) sub = (Some eo, Some la, Some se', Some ms)).
  { rewrite rs_view_with_seen, str_dec_refl. now rewrite E1, E2, E4. }
  split; [|exact V]. repeat split.
  - intros k N. rewrite rs_view_with_seen. apply str_dec_neq. congruence.
  - now rewrite V.
  - unfold rs_phase. now rewrite V.
Qed.

Lemma rs_upd_with_matcher r sub ms' eo la se ms :
  rs_view r sub = (Some eo, Some la, Some se, Some ms) ->
  rs_upd r (rs_with_matcher r (m_set sub ms' (rs_matcher r))) sub (WOpen eo la se ms') /\
  rs_view (rs_with_matcher r (m_set sub ms' (rs_matcher r))) sub = (Some eo, Some la, Some se, Some ms').
Proof.
  intro E. destruct (view_of _ _ _ _ _ _ E) as [E1 [E2 [E3 E4]]].
  assert (V : rs_view (rs_with_matcher r (m_set sub ms' (rs_matcher r))) sub = (Some eo, Some la, Some se, Some ms')).
  { rewrite rs_view_with_matcher, str_dec_refl. now rewrite E1, E2, E3. }
  split; [|exact V]. repeat split.
  - intros k N. rewrite rs_view_with_matcher. apply str_dec_neq. congruence.
  - now rewrite V.
  - unfold rs_phase. now rewrite V.
Qed.

Lemma rs_upd_then_clear r r1 sub ph : rs_upd r r1 sub ph -> rs_upd r (rs_clear r1 sub) sub WClosed.
Proof. intro H. eapply rs_upd_trans; [exact H | apply rs_upd_clear]. Qed.

Lemma phase_open_view r sub eo la se ms :
  view_sync (rs_view r sub) -> rs_phase r sub = WOpen eo la se ms ->
  rs_view r sub = (Some eo, Some la, Some se, Some ms).
Proof.
  intros Hs Hp. unfold rs_phase in Hp.
  destruct (rs_view r sub) as [[[[eo'|] [la'|]] [se'|]] [ms'|]]; simpl in *; try contradiction; try discriminate.
  now inversion Hp.
Qed.

(** handleSendEOSEMsg is [w_eose] on the phase of its subscription id and
    touches nothing else *)
Lemma send_eose_spec n s i sub :
  rs_ok n (st_rs s) -> (i < n)%nat ->
  exists r',
    send_eose s i sub =
      (with_rs s r', if snd (w_eose (rs_phase (st_rs s) sub) i) then Some (SEose sub) else None) /\
    rs_upd (st_rs s) r' sub (fst (w_eose (rs_phase (st_rs s) sub) i)).
Proof.
  intros [Hn Hok] Hi. set (r := st_rs s) in *.
  destruct (Hok sub) as [Hs Hwf].
  unfold send_eose. fold r.
  pose proof (rs_all_eose_spec r sub Hs) as HA.
  destruct (rs_phase r sub) as [eo la se ms|] eqn:Hp.
  2:{ rewrite HA, g_eose_already_spec. exists r. split; [reflexivity|].
      simpl. rewrite <- Hp. now apply rs_upd_refl. }
  simpl w_eose. destruct Hwf as [Hlen Hms].
  destruct (all_true eo) eqn:Hall.
  - rewrite HA, g_eose_already_spec. exists (rs_clear r sub). split; [reflexivity | apply rs_upd_clear].
  - rewrite HA, g_eose_already_spec.
    pose proof (phase_open_view r sub _ _ _ _ Hs Hp) as V.
    destruct (view_of _ _ _ _ _ _ V) as [E1 _].
    unfold rs_set_eose. rewrite E1. simpl vlist.
    rewrite g_req_seteose_absent_spec.
    destruct eo as [|b0 eo0] eqn:Eeo; [discriminate|]. rewrite <- Eeo in *.
    destruct (upd_nth_some i true eo) as [eo' Eu]; [lia|]. rewrite Eu.
    destruct (rs_upd_with_eose r sub eo' eo la se ms V) as [U2 V2].
    set (r2 := rs_with_eose r (m_set sub eo' (rs_eose r))) in *.
    assert (Hs2 : view_sync (rs_view r2 sub)) by (rewrite V2; exact I).
    pose proof (rs_all_eose_spec r2 sub Hs2) as HA2.
    unfold rs_phase in HA2. rewrite V2 in HA2. simpl in HA2.
    destruct (all_true eo') eqn:Hall'; rewrite HA2, g_eose_incomplete_spec; simpl.
    + exists (rs_clear r2 sub). split; [reflexivity | eapply rs_upd_then_clear; exact U2].
    + exists r2. split; [reflexivity | exact U2].
Qed.

Definition older_first (la : option event) (e : event) : bool :=
  match la with Some l => ev_ts l <? ev_ts e | None => false end.
Definition ts_decreased (la : option event) (e : event) : bool :=
  match la with Some l => ev_ts e <? ev_ts l | None => false end.

Lemma rs_order_spec r sub e eo la se ms :
  rs_view r sub = (Some eo, Some la, Some se, Some ms) ->
  if older_first la e then rs_order r sub e = None
  else
    let se1 := if ts_decreased la e then [] else se in
    exists r3, rs_order r sub e = Some r3 /\
               rs_upd r r3 sub (WOpen eo (Some e) se1 ms) /\
               rs_view r3 sub = (Some eo, Some (Some e), Some se1, Some ms).
Proof.
  intro V. destruct (view_of _ _ _ _ _ _ V) as [E1 [E2 [E3 E4]]].
  unfold rs_order, rs_last_of. rewrite E2.
  destruct la as [l|]; cbn [isSome older_first ts_decreased].
  - rewrite g_ev_has_last_spec, g_ev_older_first_spec, g_ev_ts_decreased_spec. cbn [andb].
    destruct (ev_ts l <? ev_ts e) eqn:Eo; [reflexivity|].
    destruct (ev_ts e <? ev_ts l) eqn:Ed.
    + destruct (rs_upd_with_seen r sub [] eo (Some l) se ms V) as [U2 V2].
      destruct (rs_upd_with_last _ sub (Some e) eo (Some l) [] ms V2) as [U3 V3].
      eexists. split; [reflexivity|]. split; [|exact V3]. eapply rs_upd_trans; eauto.
    + destruct (rs_upd_with_last _ sub (Some e) eo (Some l) se ms V) as [U3 V3].
      eexists. split; [reflexivity|]. split; [exact U3 | exact V3].
  - rewrite g_ev_has_last_spec. cbn [andb].
    destruct (rs_upd_with_last _ sub (Some e) eo None se ms V) as [U3 V3].
    eexists. split; [reflexivity|]. split; [exact U3 | exact V3].
Qed.

Definition w_dedup_limit (eo : list bool) (la : option event) (se1 : list str) (ms : list lmatcher) (e : event)
  : wphase * bool :=
  if mem_str (ev_id e) se1 then (WOpen eo la se1 ms, false) else
  let se2 := ev_id e :: se1 in
  if lms_done ms then (WOpen eo la se2 ms, false) else
  (WOpen eo la se2 (List.map (lm_step e) ms), matches_specb e (List.map lm_f ms)).

Lemma rs_dedup_limit_spec r3 sub e eo la se1 ms :
  rs_view r3 sub = (Some eo, Some la, Some se1, Some ms) ->
  tags_nonempty e -> ms_wf ms ->
  exists r',
    rs_dedup_limit r3 sub e = Some (r', snd (w_dedup_limit eo la se1 ms e)) /\
    rs_upd r3 r' sub (fst (w_dedup_limit eo la se1 ms e)).
Proof.
  intros V Hne Hwf. destruct (view_of _ _ _ _ _ _ V) as [E1 [E2 [E3 E4]]].
  unfold rs_dedup_limit, w_dedup_limit. rewrite E3. cbn [isSome negb optb].
  rewrite g_ev_seen_reject_spec. cbn [orb].
  destruct (mem_str (ev_id e) se1) eqn:Em.
  - exists r3. split; [reflexivity|]. cbn [fst].
    replace (WOpen eo la se1 ms) with (rs_phase r3 sub) by (unfold rs_phase; now rewrite V).
    apply rs_upd_refl. now rewrite V.
  - destruct (rs_upd_with_seen r3 sub (ev_id e :: se1) eo la se1 ms V) as [U4 V4].
    set (r4 := rs_with_seen r3 (m_set sub (ev_id e :: se1) (rs_seen r3))) in *.
    destruct (view_of _ _ _ _ _ _ V4) as [_ [_ [_ E44]]]. rewrite E44.
    rewrite g_ev_done_spec. destruct (lms_done ms) eqn:Ed.
    + exists r4. split; [reflexivity | exact U4].
    + rewrite (lms_limit_match_step e ms Hne Hwf).
      destruct (rs_upd_with_matcher r4 sub (List.map (lm_step e) ms) eo la (ev_id e :: se1) ms V4) as [U5 V5].
      rewrite g_ev_nomatch_spec.
      eexists. split.
      * cbn [snd]. destruct (matches_specb e (List.map lm_f ms)); reflexivity.
      * cbn [fst]. eapply rs_upd_trans; eauto.
Qed.

Lemma w_event_open eo la se ms i e :
  all_true eo = false -> nth_error eo i = Some false ->
  w_event (WOpen eo la se ms) i e =
  if older_first la e then (WOpen eo la se ms, false)
  else w_dedup_limit eo (Some e) (if ts_decreased la e then [] else se) ms e.
Proof.
  intros Ha Hn. unfold w_event, w_dedup_limit, older_first, ts_decreased. rewrite Ha, Hn. reflexivity.
Qed.

(** handleSendEventMsg is [w_event] on the phase of its subscription id and
    touches nothing else *)
Lemma send_event_spec n s i sub e :
  rs_ok n (st_rs s) -> (i < n)%nat -> tags_nonempty e ->
  exists r',
    send_event s i sub e =
      (with_rs s r', if snd (w_event (rs_phase (st_rs s) sub) i e) then Some (SEvent sub e) else None) /\
    rs_upd (st_rs s) r' sub (fst (w_event (rs_phase (st_rs s) sub) i e)).
Proof.
  intros [Hn Hok] Hi Hne. set (r := st_rs s) in *.
  destruct (Hok sub) as [Hs Hwf].
  unfold send_event, rs_is_sendable. fold r.
  pose proof (rs_all_eose_spec r sub Hs) as HA.
  destruct (rs_phase r sub) as [eo la se ms|] eqn:Hp.
  2:{ rewrite HA, g_ev_all_eose_spec, g_event_unsendable_spec. exists r. split; [reflexivity|].
      simpl. rewrite <- Hp. now apply rs_upd_refl. }
  destruct Hwf as [Hlen Hms].
  destruct (all_true eo) eqn:Hall.
  { rewrite HA, g_ev_all_eose_spec, g_event_unsendable_spec. unfold w_event. rewrite Hall.
    exists (rs_clear r sub). split; [reflexivity | apply rs_upd_clear]. }
  rewrite HA, g_ev_all_eose_spec.
  pose proof (phase_open_view r sub _ _ _ _ Hs Hp) as V.
  destruct (view_of _ _ _ _ _ _ V) as [E1 _].
  unfold rs_is_eose. rewrite E1. cbn [vlist].
  destruct eo as [|b0 eo0] eqn:Eeo; [discriminate|]. rewrite <- Eeo in *.
  destruct (nth_error eo i) as [b|] eqn:En.
  2:{ apply nth_error_None in En. lia. }
  replace (match eo with [] => Some true | _ :: _ => nth_error eo i end) with (Some b)
    by (rewrite Eeo in *; now rewrite En).
  rewrite g_ev_child_eose_spec.
  destruct b.
  { rewrite g_event_unsendable_spec. unfold w_event. rewrite Hall, En.
    exists r. split; [reflexivity|]. cbn [fst]. rewrite <- Hp. now apply rs_upd_refl. }
  rewrite (w_event_open eo la se ms i e Hall En).
  pose proof (rs_order_spec r sub e eo la se ms V) as HO.
  destruct (older_first la e).
  { rewrite HO, g_event_unsendable_spec. exists r. split; [reflexivity|]. cbn [fst].
    rewrite <- Hp. now apply rs_upd_refl. }
  destruct HO as [r3 [EO [U3 V3]]]. rewrite EO.
  destruct (rs_dedup_limit_spec r3 sub e eo (Some e) _ ms V3 Hne Hms) as [r' [ED U']].
  rewrite ED, g_event_unsendable_spec. exists r'. split.
  - destruct (snd (w_dedup_limit eo (Some e) (if ts_decreased la e then [] else se) ms e)); reflexivity.
  - eapply rs_upd_trans; eauto.
Qed.

(* ------------------------------------------------------------------ *)
(** * 4. Reply slots (OK and COUNT state) *)

(** every slot vector has one entry per child, and a stored reply carries the
    key it is stored under *)
Definition slots_ok {A} (key : A -> str) (n : nat) (m : list (str * list (option A))) : Prop :=
  forall k l, assoc k m = Some l -> length l = n /\ forall a, In (Some a) l -> key a = k.

Lemma slots_ok_set {A} (key : A -> str) n m k l :
  slots_ok key n m -> length l = n -> (forall a, In (Some a) l -> key a = k) -> slots_ok key n (m_set k l m).
Proof.
  intros H Hl Hk k' l' E. destruct (str_dec k k') as [<-|N].
  - rewrite assoc_m_set_same in E. inversion E; subst. auto.
  - rewrite assoc_m_set_other in E by assumption. eapply H; eauto.
Qed.

Lemma slots_ok_del {A} (key : A -> str) n m k : slots_ok key n m -> slots_ok key n (m_del k m).
Proof.
  intros H k' l' E. destruct (str_dec k k') as [<-|N].
  - rewrite assoc_m_del_same in E. discriminate.
  - rewrite assoc_m_del_other in E by assumption. eapply H; eauto.
Qed.

Lemma In_repeat_None {A} n (a : A) : ~ In (Some a) (repeat None n).
Proof. intro H. apply repeat_spec in H. discriminate. Qed.

(** what a reply of child [i] does to the slot vector bound to its key:
    the new binding and, when the reply completed the vector, the vector *)
Definition w_put {A} (v : option (list (option A))) (i : nat) (a : A)
  : option (list (option A)) * option (list (option A)) :=
  match v with
  | None => (None, None)
  | Some [] => (Some [], None)
  | Some l =>
      match upd_nth i (Some a) l with
      | None => (v, None)
      | Some l' => if existsb isNone l' then (Some l', None) else (None, Some l')
      end
  end.

Lemma full_vector {A} (l : list (option A)) :
  existsb isNone l = false -> exists xs, l = List.map Some xs.
Proof.
  induction l as [|[x|] l IH]; simpl; intro H; [exists []; reflexivity | | discriminate].
  destruct (IH H) as [xs ->]. exists (x :: xs). reflexivity.
Qed.

(** ** OK *)

Definition os_ok (n : nat) (o : ostate) : Prop := os_size o = n /\ slots_ok ok_id n (os_s o).

Definition ok_merge (msgs : list (option okm)) : option okm :=
  match ok_partition msgs with
  | None => None
  | Some (oks, ngs) => if g_ok_any_rejected (zlen ngs) then join_oks ngs else join_oks oks
  end.

Lemma ok_partition_some xs :
  ok_partition (List.map Some xs) = Some (filter ok_acc xs, filter (fun m => negb (ok_acc m)) xs).
Proof.
  induction xs as [|x xs IH]; simpl; [reflexivity|]. rewrite IH, g_ok_is_accepted_spec.
  destruct (ok_acc x); reflexivity.
Qed.

Lemma filter_all_false {A} (p : A -> bool) l : filter (fun x => negb (p x)) l = [] -> filter p l = l.
Proof.
  induction l as [|x l IH]; simpl; [reflexivity|]. destruct (p x); simpl; [|discriminate].
  intro H. now rewrite IH.
Qed.

Lemma ok_merge_full xs : xs <> [] -> exists r, ok_merge (List.map Some xs) = Some r.
Proof.
  intro Hne. unfold ok_merge. rewrite ok_partition_some, g_ok_any_rejected_spec.
  destruct (filter (fun m => negb (ok_acc m)) xs) as [|ng ngs] eqn:E; cbn [negb].
  - rewrite (filter_all_false _ _ E). destruct xs; [congruence | eexists; reflexivity].
  - eexists; reflexivity.
Qed.

Lemma os_try_set_ok n o id : os_ok n o -> os_ok n (os_try_set o id).
Proof.
  intros [Hn H]. unfold os_try_set. destruct (g_ok_has_slot _); [split; assumption|].
  split; [exact Hn|]. cbn [os_s]. apply slots_ok_set; [assumption | now rewrite repeat_length |].
  intros a Ha. exfalso. eapply In_repeat_None; eauto.
Qed.

Definition out_ok (full : option (list (option okm))) : option smsg :=
  match full with
  | Some l' => option_map SOk (ok_merge l')
  | None => None
  end.

Ltac split5 := split; [|split; [|split; [|split]]].

(** handleSendOKMsg is [w_put] on the slot vector of its event id and touches
    nothing else; it cannot panic *)
Lemma send_ok_spec n s i m :
  os_ok n (st_os s) -> (i < n)%nat ->
  let v := assoc (ok_id m) (os_s (st_os s)) in
  exists o',
    send_ok s i m = (with_os s o', out_ok (snd (w_put v i m))) /\
    os_ok n o' /\
    (forall k, k <> ok_id m -> assoc k (os_s o') = assoc k (os_s (st_os s))) /\
    assoc (ok_id m) (os_s o') = fst (w_put v i m) /\
    (forall l', snd (w_put v i m) = Some l' -> exists r, ok_merge l' = Some r).
Proof.
  intros [Hn Hok] Hi v. set (o := st_os s) in *. set (id := ok_id m) in *.
  unfold send_ok, os_set_msg. fold o. fold id. fold v.
  destruct v as [l|] eqn:Ev.
  2:{ cbn [vlist]. rewrite g_ok_setmsg_absent_spec. unfold os_ready. fold v. rewrite Ev. cbn [vlist].
      rewrite g_ok_ready_absent_spec, g_ok_not_ready_spec. cbn [negb].
      exists o. split5; auto; try (split; assumption). intros l' H; discriminate. }
  cbn [vlist]. rewrite g_ok_setmsg_absent_spec.
  destruct l as [|x0 l0] eqn:El.
  { unfold os_ready. fold v. rewrite Ev. cbn [vlist]. rewrite g_ok_ready_absent_spec, g_ok_not_ready_spec.
    cbn [negb]. exists o. split5; auto; try (split; assumption). intros l' H; discriminate. }
  rewrite <- El in *. destruct (Hok id l Ev) as [Hlen Hkey].
  destruct (upd_nth_some i (Some m) l) as [l' Eu]; [lia|].
  assert (W : w_put (Some l) i m = if existsb isNone l' then (Some l', None) else (None, Some l')).
  { unfold w_put. rewrite Eu. rewrite El in *. reflexivity. }
  rewrite W, Eu. clear W.
  set (o1 := mkOS (os_size o) (m_set id l' (os_s o))).
  assert (Hl' : length l' = n) by (rewrite (upd_nth_length _ _ _ _ Eu); exact Hlen).
  assert (Hk' : forall a, In (Some a) l' -> ok_id a = id).
  { intros a Ha. destruct (upd_nth_In _ _ _ _ _ Eu Ha) as [E|Hin]; [now inversion E | now apply Hkey]. }
  assert (Hne' : l' <> []).
  { intro E. rewrite E in Hl'. simpl in Hl'. lia. }
  assert (Hok1 : os_ok n o1).
  { split; [exact Hn|]. cbn [os_s o1]. now apply slots_ok_set. }
  unfold os_ready. cbn [os_s o1]. rewrite assoc_m_set_same. cbn [vlist].
  rewrite g_ok_ready_absent_spec, g_ok_not_ready_spec.
  destruct l' as [|y0 l0'] eqn:El'; [congruence|]. rewrite <- El' in *.
  destruct (existsb isNone l') eqn:Ex; cbn [negb snd fst out_ok].
  - exists o1. split5; try exact Hok1.
    + reflexivity.
    + intros k N. cbn [os_s o1]. apply assoc_m_set_other. congruence.
    + cbn [os_s o1]. apply assoc_m_set_same.
    + intros l'' H; discriminate.
  - destruct (full_vector l' Ex) as [xs Exs].
    destruct (ok_merge_full xs) as [r Er]; [intro E; subst xs; rewrite Exs in Hne'; now apply Hne'|].
    unfold os_msg. cbn [os_s o1]. rewrite assoc_m_set_same. cbn [vlist].
    rewrite g_ok_msg_absent_spec. rewrite El'. rewrite <- El'.
    fold (ok_merge l'). rewrite Exs, Er. cbn [option_map].
    exists (os_clear o1 id). split5.
    + reflexivity.
    + split; [exact Hn|]. cbn [os_clear os_s]. apply slots_ok_del. apply Hok1.
    + intros k N. cbn [os_clear os_s o1]. rewrite assoc_m_del_other by congruence.
      apply assoc_m_set_other. congruence.
    + cbn [os_clear os_s]. apply assoc_m_del_same.
    + intros l'' H. inversion H; subst. now exists r.
Qed.
