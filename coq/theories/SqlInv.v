(* SqlInv.v — C06 / C14: the tables stay consistent under insertEvents
   ([insert_inv]): primary keys are never violated, there is exactly one
   payload row per events row, the tag rows are those of the current versions,
   and the kind class of a row agrees with the shape of its key. *)
From Moc Require Import Base Match Sql SqlSpec SqlLemmas.
From Moc.Gen Require Import GenMsg GenSql.
Open Scope Z_scope.

(** the tag rows that belong to an events row and its payload row *)
Definition tag_rows_rp (r : erow) (p : prow) : list trow :=
  dedup trow_eqb (flat_map (tag_row (r_key r) (r_ts r)) (p_tags p)) [].

Definition key_class (k : ekey) : bool :=
  match k with KReg _ _ _ => false | KAddr _ _ _ => true end.

Record Inv (s : db) : Prop := mkInv {
  inv_keys : NoDup (List.map r_key (d_events s));
  inv_pkeys : NoDup (List.map p_key (d_payloads s));
  inv_pk_ev : forall k, In k (List.map p_key (d_payloads s)) <-> In k (List.map r_key (d_events s));
  inv_tags : forall t, In t (d_tags s) <->
               exists r p, In r (d_events s) /\ In p (d_payloads s) /\ p_key p = r_key r /\ In t (tag_rows_rp r p);
  inv_tags_nodup : NoDup (d_tags s);
  inv_dkeys : NoDup (d_dkeys s);
  inv_dids : NoDup (d_dids s);
  inv_class : forall r, In r (d_events s) -> sql_kind_replaceable (r_kind r) = key_class (r_key r)
}.

Lemma inv_empty : Inv empty_db.
Proof.
  constructor; simpl; try constructor; try tauto.
  all: try (intros [r [p [[] _]]]); try (intros r []).
Qed.

(* ------------------------------------------------------------------ *)
(** * tag rows *)

Lemma tag_row_key k ts tg t : In t (tag_row k ts tg) -> t_key t = k /\ t_ts t = ts.
Proof.
  unfold tag_row. destruct (g_sql_tag_empty (zlen tg)); [intros []|].
  destruct tg as [|n tg']; [intros []|].
  destruct (g_sql_tag_name_len_bad (zlen n)); [intros []|].
  destruct n as [|c n']; [intros []|].
  destruct (g_sql_tag_name_not_letter (Z.of_N c)); [intros []|].
  intros [<-|[]]. simpl. auto.
Qed.

Lemma tag_rows_rp_key r p t : In t (tag_rows_rp r p) -> t_key t = r_key r /\ t_ts t = r_ts r.
Proof.
  unfold tag_rows_rp. intro H. apply (dedup_In trow_eqb trow_eqb_eq) in H. destruct H as [H _].
  apply in_flat_map in H. destruct H as [tg [_ H]]. now apply tag_row_key in H.
Qed.

Lemma tag_rows_of_rp k e : tag_rows_of k e = tag_rows_rp (row_of k e) (prow_of k e).
Proof. reflexivity. Qed.

(* ------------------------------------------------------------------ *)
(** * upsert *)

Lemma upsert_spec rows new :
  NoDup (List.map r_key rows) ->
  match upsert rows new with
  | (rows', UInserted) => (forall r, In r rows -> r_key r <> r_key new) /\ rows' = rows ++ [new]
  | (rows', UUpdated old) =>
      In old rows /\ r_key old = r_key new /\ upsert_guard old new = true /\
      List.map r_key rows' = List.map r_key rows /\
      (forall r, In r rows' <-> (In r rows /\ r_key r <> r_key new) \/ r = new)
  | (rows', UNone) =>
      rows' = rows /\ exists old, In old rows /\ r_key old = r_key new /\ upsert_guard old new = false
  end.
Proof.
  induction rows as [|r rows IH]; intro ND; simpl.
  - split; [intros r Hx; destruct Hx | reflexivity].
  - inversion ND as [|? ? Hn ND']; subst.
    destruct (ekey_eqb (r_key r) (r_key new)) eqn:E.
    + apply ekey_eqb_eq in E. destruct (upsert_guard r new) eqn:G.
      * split; [now left|]. split; [assumption|]. split; [assumption|].
        split; [simpl; congruence|].
        intro r0. simpl. split.
        -- intros [<- |H]; [now right|]. left. split; [now right|].
           intro X. apply Hn. rewrite E, <- X. now apply in_map.
        -- intros [[[<- |H] H2]| ->]; [contradiction | now right | now left].
      * split; [reflexivity|]. exists r. simpl. auto.
    + apply ekey_eqb_neq in E. specialize (IH ND').
      destruct (upsert rows new) as [rows' u]. destruct u as [|old|].
      * destruct IH as [H1 ->]. split; [|reflexivity].
        intros r0 [<- |H]; [assumption | now apply H1].
      * destruct IH as [H1 [H2 [H3 [H4 H5]]]].
        split; [now right|]. split; [assumption|]. split; [assumption|].
        split; [simpl; congruence|].
        intro r0. simpl. split.
        -- intros [<- |H]; [left; split; [now left | assumption]|].
           apply H5 in H. destruct H as [[H H']| ->]; [left; split; [now right | assumption] | now right].
        -- intros [[[<- |H] H']| ->].
           ++ now left.
           ++ right. apply H5. left. auto.
           ++ right. apply H5. now right.
      * destruct IH as [-> [old [H1 [H2 H3]]]]. split; [reflexivity|].
        exists old. simpl. auto.
Qed.

Lemma NoDup_map_filter {A B} (f : A -> B) (p : A -> bool) l :
  NoDup (List.map f l) -> NoDup (List.map f (filter p l)).
Proof.
  induction l as [|x l IH]; simpl; intro ND; [constructor|].
  inversion ND as [|? ? Hn ND']; subst.
  destruct (p x); simpl; [|now apply IH].
  constructor; [|now apply IH].
  intro H. apply Hn. apply in_map_iff in H. destruct H as [y [E H]].
  apply filter_In in H. destruct H as [H _]. rewrite <- E. now apply in_map.
Qed.

Lemma NoDup_filter {A} (p : A -> bool) l : NoDup l -> NoDup (filter p l).
Proof.
  intro ND. rewrite <- (map_id (filter p l)). apply NoDup_map_filter. now rewrite map_id.
Qed.

Lemma NoDup_app_intro {A} (l1 l2 : list A) :
  NoDup l1 -> NoDup l2 -> (forall x, In x l1 -> In x l2 -> False) -> NoDup (l1 ++ l2).
Proof.
  induction l1 as [|x l1 IH]; simpl; intros N1 N2 D; [assumption|].
  inversion N1; subst. constructor.
  - rewrite in_app_iff. intros [H|H]; [contradiction | apply (D x); auto].
  - apply IH; auto. intros y Hy1 Hy2. apply (D y); auto.
Qed.

(* ------------------------------------------------------------------ *)
(** * one event *)

(** what getEventKey guarantees about the key it returns *)
Definition class_ok (k : ekey) (e : event) : Prop :=
  sql_kind_replaceable (ev_kind e) = key_class k.

Lemma get_event_key_class seed e k : get_event_key seed e = Some k -> class_ok k e.
Proof.
  unfold get_event_key, class_ok.
  destruct (g_event_type_cases (ev_kind e)) as [H|[H|[H|H]]]; destruct H as [-> [-> _]]; simpl.
  - intro E; inversion E; reflexivity.
  - intro E; inversion E; reflexivity.
  - discriminate.
  - destruct (g_sql_no_d_tag _); [discriminate|].
    destruct (find is_d_tag (ev_tags e)); [|discriminate].
    intro E; inversion E; reflexivity.
Qed.

Lemma insert_params_class seed e k e' : insert_params seed e = Some (k, e') -> e' = e /\ class_ok k e.
Proof.
  unfold insert_params. destruct (get_event_key seed e) as [k0|] eqn:K; [|discriminate].
  destruct (hex_ok (ev_id e) &&& hex_ok (ev_pk e) &&& hex_ok (ev_sig e)); [|discriminate]. intro E; inversion E; subst.
  split; [reflexivity | now apply get_event_key_class in K].
Qed.

Lemma insert_event_unaffected seed s k e :
  snd (upsert (d_events s) (row_of k e)) = UNone -> NoDup (List.map r_key (d_events s)) ->
  fst (insert_event seed s (k, e)) = s.
Proof.
  intros U ND. unfold insert_event.
  pose proof (upsert_spec (d_events s) (row_of k e) ND) as S.
  destruct (upsert (d_events s) (row_of k e)) as [evs u]. simpl in U. subst u.
  destruct S as [-> _]. simpl. destruct s; reflexivity.
Qed.

Lemma insert_event_inv seed s k e :
  Inv s -> class_ok k e -> Inv (fst (insert_event seed s (k, e))).
Proof.
  intros I C.
  pose proof (upsert_spec (d_events s) (row_of k e) (inv_keys s I)) as S.
  destruct (upsert (d_events s) (row_of k e)) as [evs u] eqn:U.
  destruct u as [|old|].
  - (* new row *)
    destruct S as [Hfresh ->].
    unfold insert_event. rewrite U. simpl.
    assert (Kev : ~ In k (List.map r_key (d_events s))).
    { intro H. apply in_map_iff in H. destruct H as [r [E H]]. apply (Hfresh r H). now rewrite E. }
    assert (Kpl : ~ In k (List.map p_key (d_payloads s))).
    { intro H. apply Kev. now apply (inv_pk_ev s I). }
    constructor; simpl.
    + rewrite map_app. simpl. apply NoDup_app_intro; [apply (inv_keys s I) | repeat constructor; intros [] |].
      intros x H1 [<-|[]]. contradiction.
    + rewrite map_app. simpl. apply NoDup_app_intro; [apply (inv_pkeys s I) | repeat constructor; intros [] |].
      intros x H1 [<-|[]]. contradiction.
    + intro k0. rewrite !map_app, !in_app_iff. simpl. rewrite (inv_pk_ev s I). tauto.
    + intro t. rewrite in_app_iff, (inv_tags s I). split.
      * intros [[r [p [H1 [H2 [H3 H4]]]]]|H].
        -- exists r, p. rewrite !in_app_iff. auto.
        -- exists (row_of k e), (prow_of k e). rewrite !in_app_iff. simpl. auto 6.
      * intros [r [p [H1 [H2 [H3 H4]]]]]. rewrite in_app_iff in H1, H2. simpl in H1, H2.
        destruct H1 as [H1|[<-|[]]]; destruct H2 as [H2|[<-|[]]].
        -- left. exists r, p. auto.
        -- simpl in H3. exfalso. apply Kev. rewrite H3. now apply in_map.
        -- simpl in H3. exfalso. apply Kpl. rewrite <- H3. now apply in_map.
        -- right. exact H4.
    + apply NoDup_app_intro; [apply (inv_tags_nodup s I) | apply (dedup_NoDup trow_eqb trow_eqb_eq) |].
      intros t H1 H2. apply (inv_tags s I) in H1. destruct H1 as [r [p [H1 [_ [_ H4]]]]].
      apply tag_rows_rp_key in H4. rewrite tag_rows_of_rp in H2. apply tag_rows_rp_key in H2. simpl in H2.
      apply Kev. destruct H4 as [E4 _]. destruct H2 as [E2 _]. rewrite <- E2, E4. now apply in_map.
    + apply (fold_set_add_NoDup dkey_eqb dkey_eqb_eq), (inv_dkeys s I).
    + apply (fold_set_add_NoDup did_eqb did_eqb_eq), (inv_dids s I).
    + intros r H. rewrite in_app_iff in H. simpl in H. destruct H as [H|[<-|[]]]; [now apply (inv_class s I)|].
      exact C.
  - (* replaced row *)
    destruct S as [Hold [Kold [G [Hmap Hin]]]]. simpl in Kold.
    unfold insert_event. rewrite U. simpl. rewrite Kold.
    set (pls := filter (fun p => negb (ekey_eqb (p_key p) k)) (d_payloads s)).
    set (tgs := filter (fun t => negb (ekey_eqb (t_key t) k)) (d_tags s)).
    assert (Kev : In k (List.map r_key (d_events s))).
    { rewrite <- Kold. now apply in_map. }
    assert (Hpls : forall p, In p pls <-> In p (d_payloads s) /\ p_key p <> k).
    { intro p. unfold pls. rewrite filter_In, negb_true_iff, ekey_eqb_neq. tauto. }
    assert (Htgs : forall t, In t tgs <-> In t (d_tags s) /\ t_key t <> k).
    { intro t. unfold tgs. rewrite filter_In, negb_true_iff, ekey_eqb_neq. tauto. }
    constructor; simpl.
    + rewrite Hmap. apply (inv_keys s I).
    + rewrite map_app. simpl. apply NoDup_app_intro;
        [apply NoDup_map_filter, (inv_pkeys s I) | repeat constructor; intros [] |].
      intros x H1 [<-|[]]. apply in_map_iff in H1. destruct H1 as [p [E H1]]. apply Hpls in H1. tauto.
    + intro k0. rewrite Hmap, map_app, in_app_iff. simpl. rewrite <- (inv_pk_ev s I). split.
      * intros [H|[<-|[]]].
        -- apply in_map_iff in H. destruct H as [p [E H]]. apply Hpls in H. rewrite <- E. apply in_map. tauto.
        -- now apply (inv_pk_ev s I).
      * intro H. destruct (ekey_dec k0 k) as [->|N]; [auto|]. left.
        apply in_map_iff in H. destruct H as [p [E H]]. apply in_map_iff. exists p. split; [assumption|].
        apply Hpls. split; [assumption | congruence].
    + intro t. rewrite in_app_iff, Htgs, (inv_tags s I). split.
      * intros [[[r [p [H1 [H2 [H3 H4]]]]] Hk]|H].
        -- pose proof (tag_rows_rp_key _ _ _ H4) as [Hk' _].
           exists r, p. rewrite in_app_iff. repeat split; auto.
           ++ apply Hin. left. split; [assumption|]. simpl. congruence.
           ++ left. apply Hpls. split; [assumption | congruence].
        -- exists (row_of k e), (prow_of k e). rewrite in_app_iff. simpl. repeat split; auto.
           apply Hin. now right.
      * intros [r [p [H1 [H2 [H3 H4]]]]]. rewrite in_app_iff in H2. simpl in H2.
        apply Hin in H1. simpl in H1.
        destruct H1 as [[H1 N1]| ->]; destruct H2 as [H2|[<-|[]]].
        -- apply Hpls in H2. destruct H2 as [H2 N2]. left. split; [exists r, p; auto|].
           apply tag_rows_rp_key in H4. destruct H4 as [-> _]. assumption.
        -- simpl in H3. congruence.
        -- apply Hpls in H2. simpl in H3. tauto.
        -- right. exact H4.
    + apply NoDup_app_intro; [apply NoDup_filter, (inv_tags_nodup s I) | apply (dedup_NoDup trow_eqb trow_eqb_eq) |].
      intros t H1 H2. apply Htgs in H1. rewrite tag_rows_of_rp in H2. apply tag_rows_rp_key in H2. simpl in H2. tauto.
    + apply (fold_set_add_NoDup dkey_eqb dkey_eqb_eq), (inv_dkeys s I).
    + apply (fold_set_add_NoDup did_eqb did_eqb_eq), (inv_dids s I).
    + intros r H. apply Hin in H. destruct H as [[H _]| ->]; [now apply (inv_class s I) | exact C].
  - (* conflict, guard false: nothing changes *)
    rewrite (insert_event_unaffected seed s k e); [assumption | now rewrite U | apply (inv_keys s I)].
Qed.

Lemma insert_events_fst seed s ps :
  fst (insert_events seed s ps) = fold_left (fun s ke => fst (insert_event seed s ke)) ps s.
Proof.
  unfold insert_events. generalize 0%nat. revert s.
  induction ps as [|ke ps IH]; intros s n; simpl; [reflexivity|].
  destruct (insert_event seed s ke) as [s' m] eqn:E. simpl. rewrite IH. reflexivity.
Qed.

Lemma insert_events_inv seed ps : forall s,
  Inv s -> (forall k e, In (k, e) ps -> class_ok k e) -> Inv (fst (insert_events seed s ps)).
Proof.
  intro s. rewrite insert_events_fst. revert s.
  induction ps as [|[k e] ps IH]; intros s I C; simpl.
  - exact I.
  - apply IH.
    + apply insert_event_inv; [assumption | apply C; now left].
    + intros k' e' H. apply C. now right.
Qed.

Lemma batch_params_class seed b k e : In (k, e) (filter_map (insert_params seed) b) -> class_ok k e /\ In e b.
Proof.
  intro H. apply filter_map_In in H. destruct H as [x [H1 H2]].
  apply insert_params_class in H2. destruct H2 as [-> H2]. auto.
Qed.

(** C06 insert_inv: every batch keeps the tables consistent *)
Theorem insert_inv seed s b : Inv s -> Inv (insert_batch seed s b).
Proof.
  intro I. unfold insert_batch. destruct (g_sql_no_params _); [assumption|].
  apply insert_events_inv; [assumption|]. intros k e H. now apply batch_params_class in H.
Qed.

Theorem run_inv seed h : forall s, Inv s -> Inv (run seed s h).
Proof.
  unfold run. induction h as [|b h IH]; intros s I; simpl; [assumption|].
  apply IH. now apply insert_inv.
Qed.
