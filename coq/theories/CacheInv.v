(* CacheInv.v — the representation invariant of the cache model and the
   hypotheses on histories.  Definitions only (proofs: CacheInvProofs.v).
   New fields may be added at the end of [Inv]; existing ones are used by name. *)
From Coq Require Import Permutation Sorted.
From Moc Require Import Base Match Cache.
From Moc.Gen Require Import GenMsg GenCache.
Open Scope Z_scope.

Definition retained (s : cstate) : list event := List.map snd (c_evs s).

(** two events with the same id are the same event (ids are SHA-256 of the content) *)
Definition ids_functional (l : list event) : Prop :=
  forall a b, In a l -> In b l -> ev_id a = ev_id b -> a = b.

(** ids and pubkeys contain no ':' (they are hex strings behind the gate), so
    a regular event's key (its id) can never collide with an address *)
Definition key_wf (e : event) : Prop := colon_free (ev_id e) /\ colon_free (ev_pk e).

(** does the event carry index key [ik]? *)
Definition has_ikey (ik : ikey) (e : event) : bool := existsb (ikey_eqb ik) (ikeys_of_event e).

(** the registry entry that retained deletion requests induce for (key, author) *)
Definition induced_ids (s : cstate) (k : dkey) : list str :=
  List.map ev_id
    (List.filter (fun d => g_del_is_kind5 (ev_kind d) && str_eqb (ev_pk d) (snd k) && mem_str (fst k) (k5_keys d))
                 (retained s)).

Record Inv (s : cstate) : Prop := mkInv {
  (* I1 *) inv_keys_nodup : NoDup (List.map fst (c_evs s));
  (* I2 *) inv_keys : forall k e, In (k, e) (c_evs s) -> event_key e = k;
  (* I3 *) inv_ids_nodup : NoDup (List.map ev_id (retained s));
  (* I4 *) inv_tree_perm : Permutation (c_tree s) (retained s);
           inv_tree_sorted : StronglySorted (fun a b => tkey_lt a b = true) (c_tree s);
  (* I5 *) inv_idx_keys_nodup : forall ik1 ik2 s1 s2 l1 l2 l3,
             c_idx s = l1 ++ (ik1, s1) :: l2 ++ (ik2, s2) :: l3 -> ikey_eqb ik1 ik2 = false;
           inv_idx_some : forall ik set, al_get ikey_eqb ik (c_idx s) = Some set ->
             set <> [] /\ NoDup set /\
             (forall e, In e set <-> In e (retained s) /\ has_ikey ik e = true);
           inv_idx_none : forall ik, al_get ikey_eqb ik (c_idx s) = None ->
             forall e, In e (retained s) -> has_ikey ik e = false;
  (* I6 *) inv_del_some : forall k ids, al_get dkey_eqb k (c_del s) = Some ids ->
             ids <> [] /\ NoDup ids /\ (forall i, In i ids <-> In i (induced_ids s k));
           inv_del_none : forall k, al_get dkey_eqb k (c_del s) = None -> induced_ids s k = [];
  (* I7 *) inv_cap : 1 <= c_cap s -> c_len s <= c_cap s;
  (* I8: closedness — nothing retained is referenced (by key or by id) by a retained
         deletion request of the same author *)
           inv_closed : forall x d, In x (retained s) -> In d (retained s) ->
             g_del_is_kind5 (ev_kind d) = true -> ev_pk x = ev_pk d ->
             ~ In (event_key x) (k5_keys d) /\ ~ In (ev_id x) (k5_keys d);
  (* I9 *) inv_no_ephemeral : forall e, In e (retained s) -> g_event_type (ev_kind e) <> 3;
  (* I10: the registry has one entry per (key, author); needed because
          [al_del] removes the first entry only (added by cacheA) *)
           inv_del_keys_nodup : NoDup (List.map fst (c_del s))
}.

(** a history is admissible when its events are distinct by id and have
    colon-free ids and pubkeys *)
Definition hist_ok (h : list event) : Prop := ids_functional h /\ Forall key_wf h.

(** states reachable by a history *)
Definition reachable (cap : Z) (h : list event) (s : cstate) : Prop := s = c_run cap h.
