(* LinCache.v — C15: the in-memory stores as instances of the generic model of
   Lin.v.  Definitions only (proofs: LinCacheProofs.v).

   The operations of an EventCache are Add, Find and Len with the sequential
   semantics of Cache.v.  Which lock each of them takes, and whether its code
   stores to the receiver, is NOT written down here: it is read off the LOCK
   TABLE that the translator extracts from event_cache.go / data_structure.go on
   every run (Gen/GenLocks.v).

   Two places where the code departs from "lock at entry, deferred unlock":

   - [Add] returns [true] for an ephemeral event BEFORE taking the lock.  That
     prefix does not mention the receiver at all (column `unprot` of the table),
     so in the model an ephemeral Add is an operation that takes no lock, stores
     nothing, and whose result does not depend on the state.

   - [Find] itself takes no lock: it calls [findNeedLock], which builds the
     result tree under RLock with a deferred RUnlock, and then walks that tree
     AFTER the lock has been released.  This is still one atomic read: the
     tree is allocated by that call of findNeedLock (treemap.NewWithKeyCompare,
     never the live evsCreatedAt: column `leaks`), nobody else holds a reference
     to it, and its values are pointers to events, which are never written after
     insertion.  So the walk reads only thread-private and immutable data, and
     the observable result is a function of the snapshot taken under the lock.
     In the model the body of OFind computes the whole answer at its [Read]
     step, inside the critical section; [Find]'s own code contributes nothing
     that touches the receiver (column `touches` = false) and exactly one
     critical section (column `calls` = [findNeedLock]). *)
From Coq Require String.
From Moc Require Import Base Match Cache CacheSpec Lin.
From Moc.Gen Require Import GenMsg GenCache GenLocks.
Import String.StringSyntax.
Open Scope Z_scope.

(* ------------------------------------------------------------------ *)
(** * Operations and sequential semantics *)

Inductive cop :=
| OAdd (e : event)
| OFind (fs : list rfilter)
| OLen.

Inductive cres :=
| RAdded (b : bool)
| RFound (out : outcome (list event))
| RLen (n : Z).

Definition cache_sem (s : cstate) (o : cop) : cstate * cres :=
  match o with
  | OAdd e => let '(s', b) := c_add s e in (s', RAdded b)
  | OFind fs => (s, RFound (c_find s fs))
  | OLen => (s, RLen (c_len s))
  end.

(* ------------------------------------------------------------------ *)
(** * Reading the lock table *)

Definition mname (s : String.string) : str := str_of_string s.
Arguments mname s%string_scope.

Definition m_Add : str := mname "EventCache.Add".
Definition m_Find : str := mname "EventCache.Find".
Definition m_findNeedLock : str := mname "EventCache.findNeedLock".
Definition m_Len : str := mname "EventCache.Len".

(** unknown methods get the worst value of every column *)
Definition lt_lock (m : str) : Z :=
  match assoc m g_lock_table with Some (l, _, _) => l | None => 0 end.
Definition lt_deferred (m : str) : bool :=
  match assoc m g_lock_table with Some (_, d, _) => d | None => false end.
Definition lt_writes (m : str) : bool :=
  match assoc m g_lock_table with Some (_, _, w) => w | None => true end.
Definition lf_exported (m : str) : bool :=
  match assoc m g_lock_flags with Some (x, _, _, _) => x | None => true end.
Definition lf_touches (m : str) : bool :=
  match assoc m g_lock_flags with Some (_, x, _, _) => x | None => true end.
Definition lf_unprot (m : str) : bool :=
  match assoc m g_lock_flags with Some (_, _, x, _) => x | None => true end.
Definition lf_leaks (m : str) : bool :=
  match assoc m g_lock_flags with Some (_, _, _, x) => x | None => true end.
Definition lt_calls (m : str) : list str :=
  match assoc m g_lock_calls with Some l => l | None => [] end.
Definition lt_callers (m : str) : list (str * Z) :=
  match assoc m g_lock_callers with Some l => l | None => [] end.

(** the lock under which an entry point does its work: its own, or — when its own
    code touches no field of the receiver — that of the single self-locking method
    it calls (one critical section; two would not be atomic) *)
Definition eff_lock (m : str) : Z :=
  if negb (lt_lock m =? 0) then lt_lock m
  else if lf_touches m then 0
  else match lt_calls m with
       | [h] => lt_lock h
       | _ => 0
       end.

Definition mode_of_lock (z : Z) : lmode :=
  if z =? 2 then Excl else if z =? 1 then Shared else NoLock.

(** the early return of Add (generated guard of the [if] before the Lock call) *)
Definition add_is_ephemeral (e : event) : bool := g_add_skip_ephemeral (g_event_type (ev_kind e)).

Definition cache_mode (o : cop) : lmode :=
  match o with
  | OAdd e => if add_is_ephemeral e then NoLock else mode_of_lock (eff_lock m_Add)
  | OFind _ => mode_of_lock (eff_lock m_Find)
  | OLen => mode_of_lock (eff_lock m_Len)
  end.

Definition cache_wr (o : cop) : bool :=
  match o with
  | OAdd e => if add_is_ephemeral e then false else lt_writes m_Add
  | OFind _ => lt_writes m_Find
  | OLen => lt_writes m_Len
  end.

(* ------------------------------------------------------------------ *)
(** * The lock discipline, as a computation on the table *)

Definition method_ok (m : str) : bool :=
  let l := lt_lock m in
  (* a lock that is taken is released by a deferred unlock placed right after it, there is
     no other lock traffic in the body, and nothing of the receiver is touched before it *)
  ((l =? 0) || (lt_deferred m && negb (lf_unprot m))) &&
  (* an exported method touches the receiver's fields only inside its own critical section *)
  (negb (lf_exported m) || negb (lf_unprot m)) &&
  (* a method that stores: if exported it takes Lock itself; a helper either takes Lock or none *)
  (negb (lt_writes m) || (if lf_exported m then l =? 2 else (l =? 0) || (l =? 2))) &&
  (* no reference into the receiver's state leaves the method *)
  negb (lf_leaks m) &&
  (* every way of reaching the method from an exported one: a helper that takes no lock and
     reads is called with some lock held, one that stores with Lock held; a method that
     takes the lock itself is never called with the lock held (no re-entrance) *)
  forallb (fun ec =>
             let held := snd ec in
             if l =? 0
             then (negb (lf_touches m) || (1 <=? held)) && (negb (lt_writes m) || (held =? 2))
             else held =? 0)
          (lt_callers m).

Definition expected_methods : list str :=
  [m_Add; m_Find; m_findNeedLock; m_Len;
   mname "safeMap.Get"; mname "safeMap.TryGet"; mname "safeMap.Add";
   mname "safeMap.Delete"; mname "safeMap.Loop"].

Definition lock_discipline_ok : bool :=
  forallb method_ok (List.map fst g_lock_table) &&
  forallb (fun m => match assoc m g_lock_table with Some _ => true | None => false end) expected_methods &&
  match g_lock_outside with [] => true | _ => false end.

(* ------------------------------------------------------------------ *)
(** * Histories of the cache *)

(** the events offered by the Add invocations of a history *)
Definition hist_adds (H : list (hev cop cres)) : list event :=
  flat_map (fun ev => match ev with HInv _ _ (OAdd e) => [e] | _ => [] end) H.

Definition adds_of (ops : list cop) : list event :=
  flat_map (fun o => match o with OAdd e => [e] | _ => [] end) ops.

(** the three "in particular" claims about one query answer *)
Definition no_deleted_pair (out : list event) : Prop :=
  forall x d, In x out -> In d out -> is_k5 d = true -> ev_pk d = ev_pk x -> refs d x = false.

Definition find_answer_ok (cap : Z) (out : list event) : Prop :=
  Z.of_nat (length out) <= cap /\ one_per_address out = true /\ no_deleted_pair out.

(* ------------------------------------------------------------------ *)
(** * safeMap (data_structure.go), as a second instance: a map from keys to values *)

Inductive sm_op := SGet (k : Z) | STryGet (k : Z) | SAdd (k v : Z) | SDelete (k : Z) | SLoop.
Inductive sm_res := SVal (v : option Z) | SUnit | SAll (kvs : list (Z * Z)).

Definition sm_state := list (Z * Z).

Fixpoint sm_get (k : Z) (m : sm_state) : option Z :=
  match m with [] => None | (k', v) :: r => if k =? k' then Some v else sm_get k r end.
Fixpoint sm_del (k : Z) (m : sm_state) : sm_state :=
  match m with [] => [] | (k', v) :: r => if k =? k' then sm_del k r else (k', v) :: sm_del k r end.

Definition sm_sem (m : sm_state) (o : sm_op) : sm_state * sm_res :=
  match o with
  | SGet k => (m, SVal (sm_get k m))
  | STryGet k => (m, SVal (sm_get k m))
  | SAdd k v => ((k, v) :: sm_del k m, SUnit)
  | SDelete k => (sm_del k m, SUnit)
  | SLoop => (m, SAll m)
  end.

Definition sm_method (o : sm_op) : str :=
  match o with
  | SGet _ => mname "safeMap.Get"
  | STryGet _ => mname "safeMap.TryGet"
  | SAdd _ _ => mname "safeMap.Add"
  | SDelete _ => mname "safeMap.Delete"
  | SLoop => mname "safeMap.Loop"
  end.

Definition sm_mode (o : sm_op) : lmode := mode_of_lock (eff_lock (sm_method o)).
Definition sm_wr (o : sm_op) : bool := lt_writes (sm_method o).
