(* LinCheckProofs.v — C15: the linearizability checker of Check/C15Check.v is
   sound: when it accepts a recorded history there IS a total order of the
   recorded operations that extends the real-time order of the stamps and along
   which the sequential model of the cache yields exactly the recorded results.
   (Completeness — that a rejection means no such order exists — is argued in the
   comment of [lin_search] and is not proved.) *)
From Coq Require Import List Permutation Lia.
From Moc Require Import Base Match Cache CacheSpec Lin LinCache.
From Moc.Check Require Import C15Check.
Import ListNotations.
Open Scope Z_scope.

Definition op_of (x : obs) : cop :=
  match x with XAdd e _ => OAdd e | XFind fs _ => OFind fs | XLen _ => OLen end.

Definition res_of (x : obs) : cres :=
  match x with XAdd _ b => RAdded b | XFind _ out => RFound (Ok out) | XLen n => RLen n end.

(** the sequential model yields the recorded results along [l] *)
Fixpoint legal_sem (s : cstate) (l : list top) : Prop :=
  match l with
  | [] => True
  | x :: r => snd (cache_sem s (op_of (t_obs x))) = res_of (t_obs x) /\
              legal_sem (fst (cache_sem s (op_of (t_obs x)))) r
  end.

(** no operation is placed before one that had returned before it was invoked *)
Definition rt_ok (l : list top) : Prop :=
  forall l1 x l2 y l3, l = l1 ++ x :: l2 ++ y :: l3 -> ~ (t_resp y < t_inv x).

Lemma apply_obs_sem s x s' :
  apply_obs s x = Some s' -> cache_sem s (op_of x) = (s', res_of x).
Proof.
  destruct x as [e b|fs out|n]; simpl.
  - destruct (c_add s e) as [s1 b1]. destruct (Bool.eqb b1 b) eqn:E; [|discriminate].
    intros H. injection H as <-. apply Bool.eqb_prop in E. subst. reflexivity.
  - destruct (c_find s fs) as [l|]; [|discriminate].
    destruct (list_eqb event_eqb l out) eqn:E; [|discriminate].
    intros H. injection H as <-. apply (list_eqb_eq event_eqb) in E; [subst; reflexivity|].
    intros a b. apply event_eqb_eq.
  - destruct (c_len s =? n) eqn:E; [|discriminate].
    intros H. injection H as <-. apply Z.eqb_eq in E. subst. reflexivity.
Qed.

Lemma apply_obs_read s x s' : is_read x = true -> apply_obs s x = Some s' -> s' = s.
Proof.
  destruct x as [e b|fs out|n]; simpl; intros Hr; [discriminate| |].
  - destruct (c_find s fs) as [l|]; [|discriminate]. destruct (list_eqb event_eqb l out); [|discriminate].
    intros H. injection H as <-. reflexivity.
  - destruct (c_len s =? n); [|discriminate]. intros H. injection H as <-. reflexivity.
Qed.

Lemma picks_perm {A} (l : list A) : forall pre x rest,
  In (x, rest) (picks pre l) -> Permutation (x :: rest) (rev pre ++ l).
Proof.
  induction l as [|a l IH]; intros pre x rest Hin; simpl in Hin; [contradiction|].
  destruct Hin as [E | Hin].
  - injection E as <- <-. rewrite rev_append_rev. apply Permutation_middle.
  - apply IH in Hin. simpl in Hin. rewrite <- app_assoc in Hin. exact Hin.
Qed.

Lemma rt_ok_cons x l rem :
  minimal x rem = true -> (forall y, In y l -> In y rem) -> rt_ok l -> rt_ok (x :: l).
Proof.
  intros Hmin Hsub Hrt l1 a l2 b l3 E.
  destruct l1 as [|z l1]; simpl in E; injection E as <- E.
  - unfold minimal in Hmin. rewrite forallb_forall in Hmin.
    assert (Hb : In b rem). { apply Hsub. rewrite E. apply in_or_app. right. left. reflexivity. }
    specialize (Hmin b Hb). apply Bool.negb_true_iff in Hmin. apply Z.ltb_ge in Hmin. lia.
  - eapply Hrt. exact E.
Qed.

Lemma lin_search_unfold f s rem :
  rem <> [] ->
  lin_search (S f) s rem =
    let cands := List.filter (fun p => minimal (fst p) rem) (picks [] rem) in
    match List.find (fun p => is_read (t_obs (fst p)) && isSome (apply_obs s (t_obs (fst p)))) cands with
    | Some p => lin_search f s (snd p)
    | None =>
        existsb (fun p => negb (is_read (t_obs (fst p))) &&
                          match apply_obs s (t_obs (fst p)) with
                          | Some s' => lin_search f s' (snd p)
                          | None => false
                          end) cands
    end.
Proof. destruct rem; [congruence | reflexivity]. Qed.

Lemma lin_search_sound : forall fuel s rem,
  lin_search fuel s rem = true ->
  exists l, Permutation l rem /\ legal_sem s l /\ rt_ok l.
Proof.
  induction fuel as [|f IH]; intros s rem Hs.
  - destruct rem; simpl in Hs; [|discriminate].
    exists []. split; [constructor|]. split; [exact I|]. intros l1 x l2 y l3 E. destruct l1; discriminate.
  - destruct rem as [|r0 rem0]; [exists []; split; [constructor|]; split; [exact I|];
      intros l1 x l2 y l3 E; destruct l1; discriminate|].
    remember (r0 :: rem0) as rem eqn:Hrem.
    assert (Hstep : exists x rest s', In (x, rest) (picks [] rem) /\ minimal x rem = true /\
                      apply_obs s (t_obs x) = Some s' /\ lin_search f s' rest = true).
    { rewrite lin_search_unfold in Hs by (rewrite Hrem; discriminate). cbv zeta in Hs.
      match type of Hs with context [List.find ?p ?c] => destruct (List.find p c) as [p0|] eqn:Hf end.
      - apply find_some in Hf. destruct Hf as [Hin Hp]. apply filter_In in Hin. destruct Hin as [Hin Hmin].
        apply andb_prop in Hp. destruct Hp as [Hr Ha]. destruct p0 as [x rest]. simpl in *.
        destruct (apply_obs s (t_obs x)) as [s'|] eqn:Ea; [|discriminate].
        exists x, rest, s'. repeat split; try assumption.
        rewrite (apply_obs_read s _ s' Hr Ea). exact Hs.
      - apply existsb_exists in Hs. destruct Hs as ([x rest] & Hin & Hp). apply filter_In in Hin.
        destruct Hin as [Hin Hmin]. simpl in *. apply andb_prop in Hp. destruct Hp as [_ Hp].
        destruct (apply_obs s (t_obs x)) as [s'|] eqn:Ea; [|discriminate].
        exists x, rest, s'. repeat split; assumption. }
    destruct Hstep as (x & rest & s' & Hin & Hmin & Ea & Hrec).
    destruct (IH _ _ Hrec) as (l & Hperm & Hleg & Hrt).
    pose proof (picks_perm rem [] x rest Hin) as Hp. simpl in Hp.
    exists (x :: l). split; [|split].
    + eapply Permutation_trans; [apply perm_skip; exact Hperm | exact Hp].
    + simpl. rewrite (apply_obs_sem _ _ _ Ea). simpl. split; [reflexivity | exact Hleg].
    + apply (rt_ok_cons x l rem Hmin); [|exact Hrt].
      intros y Hy. eapply Permutation_in; [exact Hp|]. right. eapply Permutation_in; eassumption.
Qed.

Theorem lin_check_sound cap ops :
  lin_check cap ops = true ->
  exists l, Permutation l ops /\ legal_sem (c_empty cap) l /\ rt_ok l.
Proof. apply lin_search_sound. Qed.
