(* LockOrder.v — the lock-ORDER discipline of the shared stores (C13, C15).  Definitions only.

   An abstract wait-for model of threads over readers-writer locks, any number of threads and
   locks.  Every lock has a level.  A thread holds a multiset of locks and is running, waiting
   for ONE lock, or blocked outside the locks (a channel operation).

   The subtlety of Go's sync.RWMutex is explicit: the mutex prefers writers, so a reader does
   not only wait for a writer that HOLDS the lock, it also waits for a writer that is QUEUED for
   it (Lock() announced itself before the RLock() arrived); a writer waits for every holder and
   for the writers queued before it.  Requests carry an arrival stamp; "queued before" compares
   stamps.  [lo_blocked_by_rw] is that relation; [lo_blocked_by] over-approximates it (a holder
   in any mode blocks), and the theorems are proved for the over-approximation.

   The tie to the source is Gen/GenLockOrder.v (gen/anchors_lockorder.go): [g_lock_nest] lists
   every place where a lock is acquired while another one is held, [g_lock_blocking_under_lock]
   every blocking operation with a lock held.  [lock_order_ok] is the computed obligation; the
   program model [lo_step] lets a thread request a lock only if the table has the nesting. *)
From Coq Require Import List ZArith Bool Lia Arith.
From Coq Require String.
From Moc Require Import Base.
From Moc.Gen Require Import GenLockOrder.
Import ListNotations.
Import String.StringSyntax.
Open Scope Z_scope.

Definition lo_lock := nat.
Definition lo_tid := nat.

Inductive lo_mode := LoRd | LoWr.

(** the code of a mode in the generated table: 1 = RLock, 2 = Lock *)
Definition lo_mode_code (m : lo_mode) : Z := match m with LoRd => 1 | LoWr => 2 end.

Definition lo_mode_eqb (a b : lo_mode) : bool :=
  match a, b with LoRd, LoRd => true | LoWr, LoWr => true | _, _ => false end.

(** two holders of one lock exclude each other unless both are readers *)
Definition lo_conflict (a b : lo_mode) : bool :=
  match a, b with LoRd, LoRd => false | _, _ => true end.

Record lo_wait := mkLoWait { lw_lock : lo_lock; lw_mode : lo_mode; lw_stamp : nat }.

Record lo_thread := mkLoThread {
  lot_held : list (lo_lock * lo_mode);   (* the locks it holds, with multiplicity *)
  lot_wait : option lo_wait;             (* the one lock it is waiting for *)
  lot_ext : bool                         (* blocked outside the locks: channel, select, library *)
}.

Definition lo_state := lo_tid -> lo_thread.

Definition lo_idle : lo_thread := mkLoThread [] None false.
Definition lo_init : lo_state := fun _ => lo_idle.

Definition lo_holds (s : lo_state) (t : lo_tid) (l : lo_lock) : Prop :=
  exists m, In (l, m) (lot_held (s t)).

(** [u] is a writer queued for the lock of the request [w], and it arrived first *)
Definition lo_queued_before (s : lo_state) (u : lo_tid) (w : lo_wait) : Prop :=
  exists w', lot_wait (s u) = Some w' /\ lw_lock w' = lw_lock w /\ lw_mode w' = LoWr /\
             (lw_stamp w' < lw_stamp w)%nat.

(** sync.RWMutex: [t] cannot be granted its request as long as [u] stays as it is *)
Definition lo_blocked_by_rw (s : lo_state) (t u : lo_tid) : Prop :=
  exists w, lot_wait (s t) = Some w /\
    ((exists m, In (lw_lock w, m) (lot_held (s u)) /\ lo_conflict m (lw_mode w) = true) \/
     lo_queued_before s u w).

(** the over-approximation used in the theorems: any holder blocks *)
Definition lo_blocked_by (s : lo_state) (t u : lo_tid) : Prop :=
  exists w, lot_wait (s t) = Some w /\ (lo_holds s u (lw_lock w) \/ lo_queued_before s u w).

(** a chain t1 -> t2 -> ... -> tk of at least one edge *)
Inductive lo_chain (R : lo_tid -> lo_tid -> Prop) : lo_tid -> lo_tid -> Prop :=
| lo_chain_one t u : R t u -> lo_chain R t u
| lo_chain_cons t u v : R t u -> lo_chain R u v -> lo_chain R t v.

Definition lo_wait_cycle (s : lo_state) : Prop := exists t, lo_chain (lo_blocked_by s) t t.
Definition lo_wait_cycle_rw (s : lo_state) : Prop := exists t, lo_chain (lo_blocked_by_rw s) t t.

(** a deadlocked set: non-empty, and every member is blocked by a member *)
Definition lo_deadlocked_set (s : lo_state) (S : list lo_tid) : Prop :=
  S <> [] /\ forall t, In t S -> exists u, In u S /\ lo_blocked_by s t u.

(** THE DISCIPLINE: whoever waits, waits for a lock strictly above everything it holds *)
Definition lo_disciplined (lv : lo_lock -> Z) (s : lo_state) : Prop :=
  forall t w, lot_wait (s t) = Some w ->
  forall l m, In (l, m) (lot_held (s t)) -> lv l < lv (lw_lock w).

(** nobody is blocked outside the locks while it holds one *)
Definition lo_no_block_under_lock (s : lo_state) : Prop :=
  forall t, lot_ext (s t) = true -> lot_held (s t) = [].

(** a lock level is isolated: whoever holds a lock of that level waits for no lock, and whoever
    waits for a lock of that level holds nothing *)
Definition lo_leaf_level (lv : lo_lock -> Z) (L : Z) (s : lo_state) : Prop :=
  (forall t l m, In (l, m) (lot_held (s t)) -> lv l = L -> lot_wait (s t) = None) /\
  (forall t w, lot_wait (s t) = Some w -> lv (lw_lock w) = L -> lot_held (s t) = []).

(* ------------------------------------------------------------------ *)
(** * The generated table *)

(** (function, (level held, level acquired, mode acquired)) *)
Definition lo_entry := (str * (Z * Z * Z))%type.

(** a nesting goes strictly upward, and no level is unknown (-1) *)
Definition lo_entry_ok (e : lo_entry) : bool :=
  let '(_, (h, a, m)) := e in (0 <=? h) && (h <? a) && ((m =? 1) || (m =? 2)).

Definition lock_order_ok (tbl : list lo_entry) : bool := forallb lo_entry_ok tbl.

(** the table has the nesting: level [a] requested in mode [m] while level [h] is held *)
Definition lo_allowed (tbl : list lo_entry) (h a m : Z) : bool :=
  existsb (fun e : lo_entry => let '(_, (h', a', m')) := e in (h' =? h) && (a' =? a) && (m' =? m)) tbl.

(** no nesting of the table involves level [L], neither as the lock held nor as the lock acquired *)
Definition lo_never_nested (tbl : list lo_entry) (L : Z) : bool :=
  forallb (fun e : lo_entry => let '(_, (h, a, _)) := e in negb (h =? L) && negb (a =? L)) tbl.

(** the level the translator gave to a lock class (-1 if it does not list the class) *)
Definition lo_class_level (name : str) : Z :=
  match assoc name g_lock_classes with Some z => z | None => -1 end.

Definition lo_name (s : String.string) : str := str_of_string s.
Arguments lo_name s%string_scope.

(** the level of EventCache.mu (event_cache.go) *)
Definition lo_cache_lock_level : Z := lo_class_level (lo_name "EventCache.mu").

(* ------------------------------------------------------------------ *)
(** * Programs whose nested acquisitions are in the table *)

Definition lo_upd (s : lo_state) (t : lo_tid) (th : lo_thread) : lo_state :=
  fun u => if Nat.eqb u t then th else s u.

Fixpoint lo_remove1 (l : lo_lock) (m : lo_mode) (h : list (lo_lock * lo_mode)) : list (lo_lock * lo_mode) :=
  match h with
  | [] => []
  | (l', m') :: r => if Nat.eqb l l' && lo_mode_eqb m m' then r else (l', m') :: lo_remove1 l m r
  end.

(** One step of some thread.  [tbl] is the table of nestings, [blk] the table of blocking
    operations under a lock.  Granting is not constrained (more behaviours than the mutex
    allows: sound for invariants); requesting is: with locks held, only what the table lists. *)
Inductive lo_step (lv : lo_lock -> Z) (tbl : list lo_entry) (blk : list (str * Z)) : lo_state -> lo_state -> Prop :=
| lo_s_request s t l m stamp :
    lot_wait (s t) = None -> lot_ext (s t) = false ->
    (forall l' m', In (l', m') (lot_held (s t)) -> lo_allowed tbl (lv l') (lv l) (lo_mode_code m) = true) ->
    lo_step lv tbl blk s (lo_upd s t (mkLoThread (lot_held (s t)) (Some (mkLoWait l m stamp)) false))
| lo_s_grant s t w :
    lot_wait (s t) = Some w ->
    lo_step lv tbl blk s (lo_upd s t (mkLoThread ((lw_lock w, lw_mode w) :: lot_held (s t)) None false))
| lo_s_release s t l m :
    lot_wait (s t) = None -> lot_ext (s t) = false ->
    lo_step lv tbl blk s (lo_upd s t (mkLoThread (lo_remove1 l m (lot_held (s t))) None false))
| lo_s_block s t :
    lot_wait (s t) = None -> lot_ext (s t) = false ->
    (forall l m, In (l, m) (lot_held (s t)) -> existsb (fun e : str * Z => snd e =? lv l) blk = true) ->
    lo_step lv tbl blk s (lo_upd s t (mkLoThread (lot_held (s t)) None true))
| lo_s_unblock s t :
    lot_ext (s t) = true ->
    lo_step lv tbl blk s (lo_upd s t (mkLoThread (lot_held (s t)) (lot_wait (s t)) false)).

Inductive lo_steps (lv : lo_lock -> Z) (tbl : list lo_entry) (blk : list (str * Z)) : lo_state -> lo_state -> Prop :=
| lo_steps_refl s : lo_steps lv tbl blk s s
| lo_steps_step s s' s'' : lo_steps lv tbl blk s s' -> lo_step lv tbl blk s' s'' -> lo_steps lv tbl blk s s''.

(* ------------------------------------------------------------------ *)
(** * The two seeded inversions, as states *)

(** C13-x3: lock 0 = the registry subs.subs (level 0), lock 1 = one connection's map (level 1).
    Thread 0 is Unsubscribe of the mutant: it holds the connection's map in write mode and waits
    for the registry in write mode.  Thread 1 is Publish: it holds the registry in read mode and
    waits for the connection's map in read mode. *)
Definition lo_ex_inversion : lo_state := fun t =>
  match t with
  | O => mkLoThread [(1%nat, LoWr)] (Some (mkLoWait 0%nat LoWr 1%nat)) false
  | S O => mkLoThread [(0%nat, LoRd)] (Some (mkLoWait 1%nat LoRd 2%nat)) false
  | _ => lo_idle
  end.

(** C15-x3: lock 0 = EventCache.mu.  Thread 0 is findNeedLock of the mutant: it holds the read
    lock and asks for it again (Len).  Thread 1 is Add: its Lock() arrived in between (stamp 1
    before stamp 2) and is queued.  Without the queued writer thread 0 would be served. *)
Definition lo_ex_reentrant : lo_state := fun t =>
  match t with
  | O => mkLoThread [(0%nat, LoRd)] (Some (mkLoWait 0%nat LoRd 2%nat)) false
  | S O => mkLoThread [] (Some (mkLoWait 0%nat LoWr 1%nat)) false
  | _ => lo_idle
  end.

(** the same without the writer: nothing stands in the way of thread 0 *)
Definition lo_ex_reentrant_alone : lo_state := fun t =>
  match t with
  | O => mkLoThread [(0%nat, LoRd)] (Some (mkLoWait 0%nat LoRd 2%nat)) false
  | _ => lo_idle
  end.

(** the nesting of subscribers.Publish, as a table *)
Definition lo_ex_publish_table : list lo_entry := [(lo_name "subscribers.Publish", (0, 1, 1))].

(** the levels of the examples: lock n has level n *)
Definition lo_ex_lv (l : lo_lock) : Z := Z.of_nat l.
