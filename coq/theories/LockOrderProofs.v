(* LockOrderProofs.v — proofs about the lock-order discipline of LockOrder.v.

   1. A disciplined state has no wait-for cycle and no deadlocked set, for any number of
      threads and locks, with the writer preference of sync.RWMutex (a queued writer blocks
      later requests).  Along a wait-for edge the pair (level of the awaited lock, arrival
      stamp) increases strictly in the order "higher level, or the same level and an earlier
      stamp"; the order is irreflexive and transitive, so a chain cannot close.
   2. A program all of whose nested acquisitions are in a table that satisfies [lock_order_ok]
      reaches only disciplined states (induction over the step sequence); with an empty table
      of blocking operations under a lock nobody is blocked outside the locks while it holds
      one; a level that the table never nests is isolated.
   3. The generated tables satisfy the obligations (by computation). *)
From Coq Require Import List ZArith Bool Lia Arith.
From Coq Require String.
From Moc Require Import Base LockOrder.
From Moc.Gen Require Import GenLockOrder.
Import ListNotations.
Import String.StringSyntax.
Open Scope Z_scope.

(* ------------------------------------------------------------------ *)
(** * The order along wait-for edges *)

Definition lo_key := (Z * nat)%type.

Definition lo_key_lt (a b : lo_key) : Prop :=
  fst a < fst b \/ (fst a = fst b /\ (snd b < snd a)%nat).

Definition lo_key_ltb (a b : lo_key) : bool :=
  (fst a <? fst b) || ((fst a =? fst b) && (snd b <? snd a)%nat).

Lemma lo_key_ltb_spec a b : lo_key_ltb a b = true <-> lo_key_lt a b.
Proof.
  unfold lo_key_ltb, lo_key_lt. rewrite orb_true_iff, andb_true_iff, Z.ltb_lt, Z.eqb_eq, Nat.ltb_lt.
  tauto.
Qed.

Lemma lo_key_lt_irrefl a : ~ lo_key_lt a a.
Proof. unfold lo_key_lt. lia. Qed.

Lemma lo_key_lt_trans a b c : lo_key_lt a b -> lo_key_lt b c -> lo_key_lt a c.
Proof. unfold lo_key_lt. lia. Qed.

Definition lo_key_of (lv : lo_lock -> Z) (w : lo_wait) : lo_key := (lv (lw_lock w), lw_stamp w).

(** one edge: the blocker, if it waits itself, waits higher (it holds the lock) or for the same
    lock with an earlier stamp (it is a writer queued before) *)
Lemma lo_edge_key lv s t u wt wu :
  lo_disciplined lv s -> lo_blocked_by s t u ->
  lot_wait (s t) = Some wt -> lot_wait (s u) = Some wu ->
  lo_key_lt (lo_key_of lv wt) (lo_key_of lv wu).
Proof.
  intros D [w [Hw [[m Hh] | [w' [Hw' [Hl [Hm Hs]]]]]]] Ht Hu.
  - rewrite Hw in Ht. inversion Ht; subst w. left. cbn. eapply D; eauto.
  - rewrite Hw in Ht. inversion Ht; subst w. rewrite Hw' in Hu. inversion Hu; subst w'.
    right. cbn. rewrite Hl. split; [reflexivity | exact Hs].
Qed.

Lemma lo_chain_src_waits s t u : lo_chain (lo_blocked_by s) t u -> exists w, lot_wait (s t) = Some w.
Proof. intros C. destruct C as [t u [w [Hw _]] | t u v [w [Hw _]] _]; eauto. Qed.

Lemma lo_chain_key lv s :
  lo_disciplined lv s -> forall t v, lo_chain (lo_blocked_by s) t v ->
  forall wt wv, lot_wait (s t) = Some wt -> lot_wait (s v) = Some wv ->
  lo_key_lt (lo_key_of lv wt) (lo_key_of lv wv).
Proof.
  intros D t v C. induction C as [t u E | t u v E C IH]; intros wt wv Ht Hv.
  - eapply lo_edge_key; eauto.
  - destruct (lo_chain_src_waits _ _ _ C) as [wu Hwu].
    eapply lo_key_lt_trans; [eapply lo_edge_key; eauto | eapply IH; eauto].
Qed.

(** ** No wait-for cycle *)
Theorem lo_no_wait_cycle lv s : lo_disciplined lv s -> ~ lo_wait_cycle s.
Proof.
  intros D [t C]. destruct (lo_chain_src_waits _ _ _ C) as [w Hw].
  eapply lo_key_lt_irrefl. eapply lo_chain_key; eauto.
Qed.

(** the relation of the real mutex is contained in the over-approximation *)
Lemma lo_blocked_by_rw_sub s t u : lo_blocked_by_rw s t u -> lo_blocked_by s t u.
Proof.
  intros [w [Hw [[m [Hin _]] | Q]]]; exists w; split; auto. left. exists m. exact Hin.
Qed.

Lemma lo_chain_mono (R R' : lo_tid -> lo_tid -> Prop) :
  (forall t u, R t u -> R' t u) -> forall t u, lo_chain R t u -> lo_chain R' t u.
Proof.
  intros H t u C. induction C as [t u E | t u v E C IH].
  - apply lo_chain_one. auto.
  - eapply lo_chain_cons; eauto.
Qed.

Lemma lo_wait_cycle_rw_sub s : lo_wait_cycle_rw s -> lo_wait_cycle s.
Proof. intros [t C]. exists t. eapply lo_chain_mono; [apply lo_blocked_by_rw_sub | exact C]. Qed.

Theorem lo_no_wait_cycle_rw lv s : lo_disciplined lv s -> ~ lo_wait_cycle_rw s.
Proof. intros D C. eapply lo_no_wait_cycle; eauto using lo_wait_cycle_rw_sub. Qed.

(** ** No deadlocked set *)
Lemma lo_maximal (key : lo_tid -> lo_key) :
  forall S, S <> [] -> exists t, In t S /\ forall u, In u S -> ~ lo_key_lt (key t) (key u).
Proof.
  induction S as [|x S IH]; intros Hne; [congruence|].
  destruct S as [|y S].
  - exists x. split; [now left|]. intros u [<-|[]]. apply lo_key_lt_irrefl.
  - destruct IH as [m [Hm Hmax]]; [discriminate|].
    destruct (lo_key_ltb (key m) (key x)) eqn:E.
    + apply lo_key_ltb_spec in E. exists x. split; [now left|].
      intros u [<-|Hu]; [apply lo_key_lt_irrefl|].
      intro L. apply (Hmax u Hu). eapply lo_key_lt_trans; eauto.
    + exists m. split; [now right|].
      intros u [<-|Hu]; [|now apply Hmax].
      intro L. apply lo_key_ltb_spec in L. congruence.
Qed.

Definition lo_tkey (lv : lo_lock -> Z) (s : lo_state) (t : lo_tid) : lo_key :=
  match lot_wait (s t) with Some w => lo_key_of lv w | None => (0, 0%nat) end.

Theorem lo_no_deadlocked_set lv s S : lo_disciplined lv s -> ~ lo_deadlocked_set s S.
Proof.
  intros D [Hne Hall].
  destruct (lo_maximal (lo_tkey lv s) S Hne) as [t [Ht Hmax]].
  destruct (Hall t Ht) as [u [Hu E]].
  destruct (Hall u Hu) as [_ [_ [wu [Hwu _]]]].
  assert (Hwt : exists wt, lot_wait (s t) = Some wt) by (destruct E as [w [Hw _]]; eauto).
  destruct Hwt as [wt Hwt].
  apply (Hmax u Hu). unfold lo_tkey. rewrite Hwt, Hwu. eapply lo_edge_key; eauto.
Qed.

(** in other words: in every non-empty set of threads somebody is not blocked by a member *)
Corollary lo_somebody_not_blocked lv s S :
  lo_disciplined lv s -> S <> [] ->
  ~ (forall t, In t S -> exists u, In u S /\ lo_blocked_by s t u).
Proof. intros D Hne H. eapply lo_no_deadlocked_set; [exact D | split; eauto]. Qed.

(** ** Progress: somebody who waits, waits only for running threads *)
(** [S] lists the threads that wait for a lock.  If nobody is blocked outside the locks while
    holding one, some waiting thread is blocked only by threads that neither wait for a lock
    nor are blocked outside: they run, and when they release, the request can be served. *)
Theorem lo_wait_progress lv s S :
  lo_disciplined lv s -> lo_no_block_under_lock s -> S <> [] ->
  (forall t, In t S <-> exists w, lot_wait (s t) = Some w) ->
  exists t, In t S /\ forall u, lo_blocked_by s t u -> lot_wait (s u) = None /\ lot_ext (s u) = false.
Proof.
  intros D NB Hne HS.
  destruct (lo_maximal (lo_tkey lv s) S Hne) as [t [Ht Hmax]].
  exists t. split; [exact Ht|]. intros u E.
  apply HS in Ht as [wt Hwt].
  assert (Hu : lot_wait (s u) = None).
  { destruct (lot_wait (s u)) as [wu|] eqn:Hwu; [|reflexivity]. exfalso.
    assert (In u S) as HuS by (apply HS; eauto).
    apply (Hmax u HuS). unfold lo_tkey. rewrite Hwt, Hwu. eapply lo_edge_key; eauto. }
  split; [exact Hu|].
  destruct E as [w [_ [[m Hin] | [w' [Hw' _]]]]]; [|congruence].
  destruct (lot_ext (s u)) eqn:He; [|reflexivity].
  apply NB in He. rewrite He in Hin. destruct Hin.
Qed.

(* ------------------------------------------------------------------ *)
(** * The table and the program steps *)

Lemma lo_upd_same s t th : lo_upd s t th t = th.
Proof. unfold lo_upd. now rewrite Nat.eqb_refl. Qed.

Lemma lo_upd_other s t th u : u <> t -> lo_upd s t th u = s u.
Proof. unfold lo_upd. intro H. apply Nat.eqb_neq in H. now rewrite H. Qed.

Lemma lo_allowed_In tbl h a m :
  lo_allowed tbl h a m = true -> exists n, In (n, (h, a, m)) tbl.
Proof.
  unfold lo_allowed. rewrite existsb_exists. intros [[n [[h' a'] m']] [Hin E]].
  apply andb_true_iff in E as [E Em]. apply andb_true_iff in E as [Eh Ea].
  apply Z.eqb_eq in Eh, Ea, Em. subst. eauto.
Qed.

Lemma lo_allowed_ok tbl h a m :
  lock_order_ok tbl = true -> lo_allowed tbl h a m = true -> h < a.
Proof.
  intros OK A. apply lo_allowed_In in A as [n Hin].
  unfold lock_order_ok in OK. rewrite forallb_forall in OK. specialize (OK _ Hin). cbn in OK.
  apply andb_true_iff in OK as [OK _]. apply andb_true_iff in OK as [_ OK]. now apply Z.ltb_lt.
Qed.

Lemma lo_allowed_never tbl L h a m :
  lo_never_nested tbl L = true -> lo_allowed tbl h a m = true -> h <> L /\ a <> L.
Proof.
  intros NN A. apply lo_allowed_In in A as [n Hin].
  unfold lo_never_nested in NN. rewrite forallb_forall in NN. specialize (NN _ Hin). cbn in NN.
  apply andb_true_iff in NN as [N1 N2]. apply negb_true_iff in N1, N2.
  apply Z.eqb_neq in N1, N2. auto.
Qed.

(** ** The discipline is an invariant *)
Lemma lo_step_disciplined lv tbl blk s s' :
  lock_order_ok tbl = true -> lo_disciplined lv s -> lo_step lv tbl blk s s' -> lo_disciplined lv s'.
Proof.
  intros OK D St.
  inversion St as [s0 t l m stamp Hw He Hall | s0 t w Hw | s0 t l m Hw He | s0 t Hw He Hall | s0 t He]; subst;
    intros u w' Hw' l0 m0 Hin;
    (destruct (Nat.eq_dec u t) as [->|Hne];
     [rewrite lo_upd_same in Hw', Hin; cbn in Hw', Hin
     | rewrite lo_upd_other in Hw', Hin by assumption; eapply D; eauto]).
  - inversion Hw'; subst w'. cbn. eapply lo_allowed_ok; eauto.
  - discriminate.
  - discriminate.
  - discriminate.
  - eapply D; eauto.
Qed.

Theorem lo_steps_disciplined lv tbl blk s s' :
  lock_order_ok tbl = true -> lo_disciplined lv s -> lo_steps lv tbl blk s s' -> lo_disciplined lv s'.
Proof.
  intros OK D St. induction St as [s | s s' s'' St IH S1]; [exact D|].
  eapply lo_step_disciplined; [exact OK | exact (IH D) | exact S1].
Qed.

Lemma lo_init_disciplined lv : lo_disciplined lv lo_init.
Proof. intros t w Hw. discriminate. Qed.

(** ** No blocking operation with a lock held *)
Lemma lo_step_no_block lv tbl s s' :
  lo_no_block_under_lock s -> lo_step lv tbl [] s s' -> lo_no_block_under_lock s'.
Proof.
  intros NB St.
  inversion St as [s0 t l m stamp Hw He Hall | s0 t w Hw | s0 t l m Hw He | s0 t Hw He Hall | s0 t He]; subst;
    intros u Hx;
    (destruct (Nat.eq_dec u t) as [->|Hne];
     [rewrite lo_upd_same in *; cbn in *
     | rewrite lo_upd_other in * by assumption; now apply NB]); try discriminate.
  destruct (lot_held (s t)) as [|[l m] r]; [reflexivity|].
  specialize (Hall l m (or_introl eq_refl)). discriminate.
Qed.

Theorem lo_steps_no_block lv tbl s s' :
  lo_no_block_under_lock s -> lo_steps lv tbl [] s s' -> lo_no_block_under_lock s'.
Proof.
  intros NB St. induction St as [s | s s' s'' St IH S1]; [exact NB|].
  eapply lo_step_no_block; [exact (IH NB) | exact S1].
Qed.

Lemma lo_init_no_block : lo_no_block_under_lock lo_init.
Proof. intros t H. reflexivity. Qed.

(** ** A level that the table never nests is isolated *)
Lemma lo_step_leaf lv tbl blk L s s' :
  lo_never_nested tbl L = true -> lo_leaf_level lv L s -> lo_step lv tbl blk s s' -> lo_leaf_level lv L s'.
Proof.
  intros NN [I1 I2] St.
  inversion St as [s0 t l m stamp Hw He Hall | s0 t w Hw | s0 t l m Hw He | s0 t Hw He Hall | s0 t He]; subst; split.
  - intros u l0 m0 Hin Hl. destruct (Nat.eq_dec u t) as [->|Hne].
    + rewrite lo_upd_same in *. cbn in *. exfalso.
      destruct (lo_allowed_never _ _ _ _ _ NN (Hall _ _ Hin)) as [N _]. congruence.
    + rewrite lo_upd_other in * by assumption. eauto.
  - intros u w' Hw' Hl. destruct (Nat.eq_dec u t) as [->|Hne].
    + rewrite lo_upd_same in *. cbn in *. inversion Hw'; subst w'. cbn in Hl.
      destruct (lot_held (s t)) as [|[l1 m1] r]; [reflexivity|]. exfalso.
      destruct (lo_allowed_never _ _ _ _ _ NN (Hall l1 m1 (or_introl eq_refl))) as [_ N]. congruence.
    + rewrite lo_upd_other in * by assumption. eauto.
  - intros u l0 m0 Hin Hl. destruct (Nat.eq_dec u t) as [->|Hne].
    + rewrite lo_upd_same. reflexivity.
    + rewrite lo_upd_other in * by assumption. eauto.
  - intros u w' Hw' Hl. destruct (Nat.eq_dec u t) as [->|Hne].
    + rewrite lo_upd_same in Hw'. discriminate.
    + rewrite lo_upd_other in * by assumption. eauto.
  - intros u l0 m0 Hin Hl. destruct (Nat.eq_dec u t) as [->|Hne].
    + rewrite lo_upd_same. reflexivity.
    + rewrite lo_upd_other in * by assumption. eauto.
  - intros u w' Hw' Hl. destruct (Nat.eq_dec u t) as [->|Hne].
    + rewrite lo_upd_same in Hw'. discriminate.
    + rewrite lo_upd_other in * by assumption. eauto.
  - intros u l0 m0 Hin Hl. destruct (Nat.eq_dec u t) as [->|Hne].
    + rewrite lo_upd_same. reflexivity.
    + rewrite lo_upd_other in * by assumption. eauto.
  - intros u w' Hw' Hl. destruct (Nat.eq_dec u t) as [->|Hne].
    + rewrite lo_upd_same in Hw'. discriminate.
    + rewrite lo_upd_other in * by assumption. eauto.
  - intros u l0 m0 Hin Hl. destruct (Nat.eq_dec u t) as [->|Hne].
    + rewrite lo_upd_same in *. cbn in *. eauto.
    + rewrite lo_upd_other in * by assumption. eauto.
  - intros u w' Hw' Hl. destruct (Nat.eq_dec u t) as [->|Hne].
    + rewrite lo_upd_same in *. cbn in *. eauto.
    + rewrite lo_upd_other in * by assumption. eauto.
Qed.

Theorem lo_steps_leaf lv tbl blk L s s' :
  lo_never_nested tbl L = true -> lo_leaf_level lv L s -> lo_steps lv tbl blk s s' -> lo_leaf_level lv L s'.
Proof.
  intros NN I St. induction St as [s | s s' s'' St IH S1]; [exact I|].
  eapply lo_step_leaf; [exact NN | exact (IH I) | exact S1].
Qed.

Lemma lo_init_leaf lv L : lo_leaf_level lv L lo_init.
Proof. split; [intros t l m []|intros t w Hw; discriminate]. Qed.

(** an isolated level takes part in no wait-for edge between two waiting threads: a thread that
    waits for a lock of level L is blocked only by threads that are not waiting for a lock
    themselves, or by writers queued for the same lock that hold nothing *)
Lemma lo_leaf_blocker_runs lv L s t u w :
  lo_leaf_level lv L s -> lot_wait (s t) = Some w -> lv (lw_lock w) = L ->
  lo_holds s u (lw_lock w) -> lot_wait (s u) = None.
Proof. intros [I1 _] Hw Hl [m Hin]. eapply I1; eauto. Qed.

(* ------------------------------------------------------------------ *)
(** * The generated tables *)

(** every nesting found in the source goes strictly upward and has known levels *)
Lemma lock_order_table_ok : lock_order_ok g_lock_nest = true.
Proof. vm_compute; reflexivity. Qed.

(** no blocking operation with a lock held was found in the source *)
Lemma lock_blocking_table_empty : g_lock_blocking_under_lock = [].
Proof. vm_compute; reflexivity. Qed.

(** the translator recognised the method that runs a callback under its lock, and the two
    levels of the router registry *)
Lemma lock_classes_found :
  0 <= lo_cache_lock_level /\
  g_lock_classes <> [] /\ g_lock_callbacks <> [].
Proof. split; [vm_compute; discriminate | split; discriminate]. Qed.

(** EventCache.mu is never held while another lock is taken, never taken while another is held *)
Lemma lock_cache_never_nested :
  lo_never_nested g_lock_nest (lo_cache_lock_level) = true.
Proof. vm_compute; reflexivity. Qed.

(** ** The program as extracted: only disciplined states, hence no deadlock among lock waits *)
Theorem lo_program_invariant lv s :
  lo_steps lv g_lock_nest g_lock_blocking_under_lock lo_init s ->
  lo_disciplined lv s /\ lo_no_block_under_lock s.
Proof.
  intros St. split.
  - eapply lo_steps_disciplined; [exact lock_order_table_ok | apply lo_init_disciplined | exact St].
  - revert St. rewrite lock_blocking_table_empty. intro St.
    eapply lo_steps_no_block; [apply lo_init_no_block | exact St].
Qed.

Theorem lo_program_no_deadlock lv s :
  lo_steps lv g_lock_nest g_lock_blocking_under_lock lo_init s ->
  ~ lo_wait_cycle s /\ ~ lo_wait_cycle_rw s /\ forall S, ~ lo_deadlocked_set s S.
Proof.
  intros St. destruct (lo_program_invariant lv s St) as [D _].
  split; [|split]; eauto using lo_no_wait_cycle, lo_no_wait_cycle_rw, lo_no_deadlocked_set.
Qed.

Theorem lo_program_progress lv s S :
  lo_steps lv g_lock_nest g_lock_blocking_under_lock lo_init s -> S <> [] ->
  (forall t, In t S <-> exists w, lot_wait (s t) = Some w) ->
  exists t, In t S /\ forall u, lo_blocked_by s t u -> lot_wait (s u) = None /\ lot_ext (s u) = false.
Proof.
  intros St Hne HS. destruct (lo_program_invariant lv s St) as [D NB].
  eapply lo_wait_progress; eauto.
Qed.

Theorem lo_program_cache_lock_isolated lv s :
  lo_steps lv g_lock_nest g_lock_blocking_under_lock lo_init s ->
  lo_leaf_level lv (lo_cache_lock_level) s.
Proof.
  intros St. eapply lo_steps_leaf; [exact lock_cache_never_nested | apply lo_init_leaf | exact St].
Qed.

(* ------------------------------------------------------------------ *)
(** * The theorem has teeth *)

(** C13-x3: Unsubscribe holds a connection's map and asks for the registry, Publish holds the
    registry and asks for the map: a cycle of the real mutex relation *)
Lemma lo_ex_inversion_cycle : lo_wait_cycle_rw lo_ex_inversion.
Proof.
  exists 0%nat. eapply lo_chain_cons with (u := 1%nat); [|apply lo_chain_one].
  - exists (mkLoWait 0%nat LoWr 1%nat). split; [reflexivity|].
    left. exists LoRd. split; [now left | reflexivity].
  - exists (mkLoWait 1%nat LoRd 2%nat). split; [reflexivity|].
    left. exists LoWr. split; [now left | reflexivity].
Qed.

(** ... so no assignment of levels whatsoever makes that state disciplined *)
Lemma lo_ex_inversion_undisciplined : forall lv, ~ lo_disciplined lv lo_ex_inversion.
Proof. intros lv D. exact (lo_no_wait_cycle_rw lv _ D lo_ex_inversion_cycle). Qed.

(** ... and its nesting is rejected by the computed obligation *)
Lemma lo_ex_inversion_table :
  lock_order_ok [(lo_name "subscribers.Unsubscribe", (1, 0, 2))] = false.
Proof. reflexivity. Qed.

(** C15-x3: a reader that asks for its read lock again behind a queued writer *)
Lemma lo_ex_reentrant_cycle : lo_wait_cycle_rw lo_ex_reentrant.
Proof.
  exists 0%nat. eapply lo_chain_cons with (u := 1%nat); [|apply lo_chain_one].
  - exists (mkLoWait 0%nat LoRd 2%nat). split; [reflexivity|].
    right. exists (mkLoWait 0%nat LoWr 1%nat). cbn. repeat split; lia.
  - exists (mkLoWait 0%nat LoWr 1%nat). split; [reflexivity|].
    left. exists LoRd. split; [now left | reflexivity].
Qed.

Lemma lo_ex_reentrant_undisciplined : forall lv, ~ lo_disciplined lv lo_ex_reentrant.
Proof. intros lv D. exact (lo_no_wait_cycle_rw lv _ D lo_ex_reentrant_cycle). Qed.

Lemma lo_ex_reentrant_table :
  lock_order_ok [(lo_name "EventCache.findNeedLock", (10, 10, 1))] = false.
Proof. reflexivity. Qed.

(** without the writer the reader is blocked by nobody under the real mutex relation: the
    cycle exists only because the mutex prefers writers *)
Lemma lo_ex_reentrant_alone_free : forall u, ~ lo_blocked_by_rw lo_ex_reentrant_alone 0%nat u.
Proof.
  intros u [w [Hw [[m [Hin Hc]] | [w' [Hw' [_ [Hm Hs]]]]]]]; cbn in Hw; inversion Hw; subst w; cbn in *.
  - destruct u as [|u]; cbn in Hin.
    + destruct Hin as [E|[]]. inversion E; subst m. discriminate.
    + destruct Hin.
  - destruct u as [|u]; cbn in Hw'.
    + inversion Hw'; subst w'. discriminate.
    + discriminate.
Qed.

(** an unknown level is rejected *)
Lemma lo_ex_unknown_table :
  lock_order_ok [(lo_name "f", (0, -1, 2))] = false /\ lock_order_ok [(lo_name "f", (-1, 1, 1))] = false.
Proof. split; reflexivity. Qed.

(** the hypotheses are satisfiable: with the nesting of Publish a thread reaches the state in
    which it holds the registry and waits for a connection's map, while a second thread
    (UnsubscribeAll) is queued for the registry in write mode *)
Lemma lo_ex_publish_reachable :
  lock_order_ok lo_ex_publish_table = true /\
  exists s, lo_steps lo_ex_lv lo_ex_publish_table [] lo_init s /\
            lot_held (s 0%nat) = [(0%nat, LoRd)] /\
            lot_wait (s 0%nat) = Some (mkLoWait 1%nat LoRd 3%nat) /\
            lot_wait (s 1%nat) = Some (mkLoWait 0%nat LoWr 2%nat) /\
            lo_disciplined lo_ex_lv s.
Proof.
  split; [reflexivity|].
  pose (s1 := lo_upd lo_init 0%nat (mkLoThread [] (Some (mkLoWait 0%nat LoRd 1%nat)) false)).
  pose (s2 := lo_upd s1 0%nat (mkLoThread [(0%nat, LoRd)] None false)).
  pose (s3 := lo_upd s2 1%nat (mkLoThread [] (Some (mkLoWait 0%nat LoWr 2%nat)) false)).
  pose (s4 := lo_upd s3 0%nat (mkLoThread [(0%nat, LoRd)] (Some (mkLoWait 1%nat LoRd 3%nat)) false)).
  assert (St : lo_steps lo_ex_lv lo_ex_publish_table [] lo_init s4).
  { eapply lo_steps_step; [eapply lo_steps_step; [eapply lo_steps_step; [eapply lo_steps_step; [apply lo_steps_refl|]|]|]|].
    - exact (lo_s_request lo_ex_lv lo_ex_publish_table [] lo_init 0%nat 0%nat LoRd 1%nat eq_refl eq_refl
               (fun l' m' (H : In (l', m') []) => match H with end)).
    - exact (lo_s_grant lo_ex_lv lo_ex_publish_table [] s1 0%nat (mkLoWait 0%nat LoRd 1%nat) eq_refl).
    - exact (lo_s_request lo_ex_lv lo_ex_publish_table [] s2 1%nat 0%nat LoWr 2%nat eq_refl eq_refl
               (fun l' m' (H : In (l', m') []) => match H with end)).
    - apply (lo_s_request lo_ex_lv lo_ex_publish_table [] s3 0%nat 1%nat LoRd 3%nat eq_refl eq_refl).
      intros l' m' [E|[]]. inversion E; subst. reflexivity. }
  exists s4. split; [exact St|]. repeat split.
  exact (lo_steps_disciplined lo_ex_lv lo_ex_publish_table [] lo_init s4 eq_refl (lo_init_disciplined _) St).
Qed.
