(* ValidWsFixed.v — C11 after the repair of defect F10 (the label pattern
   tolerates white space before the opening bracket).

   THIS FILE COMPILES ONLY AGAINST THE REPAIRED PATTERN. *)
From Moc Require Import Base Json CodecMsg Codec CodecProofs Valid ValidProofs.
From Moc.Gen Require Import GenCodec.
Open Scope Z_scope.

Lemma lead_ws_is_allowed : lead_ws_allowed = true.
Proof. reflexivity. Qed.

(** insignificant white space before the opening bracket does not matter *)
Theorem admit_leading_ws_irrelevant esc j : gate_admits (mkCText true esc j) = gate_admits (mkCText false esc j).
Proof. rewrite admit_leading_ws. now rewrite lead_ws_is_allowed. Qed.

Theorem parse_leading_ws_irrelevant esc j :
  parse_client_msg (mkCText true esc j) = parse_client_msg (mkCText false esc j).
Proof. rewrite parse_leading_ws. now rewrite lead_ws_is_allowed. Qed.

(** with the two other repairs: a well-formed text passes the gate whether or
    not white space precedes the opening bracket *)
Theorem gate_complete_ws (complete : forall j, wf_json_cmsg false j = true -> gate_admits (plain_text j) = true) :
  forall lead j, wf_json_cmsg false j = true -> gate_admits (mkCText lead false j) = true.
Proof.
  intros [|] j H; [rewrite admit_leading_ws_irrelevant|]; exact (complete j H).
Qed.
