(* RouterSpec.v — C07: the property text as boolean oracles over what clients
   can observe: a timed history of client operations and of the messages
   each connection received.  Nothing here refers to the model's structure
   (no registry, no queues, no steps).

   Stamps come from one monotone clock.  An operation's begin stamp is taken
   before the client hands the message to the relay, its end stamp after the
   client has received the reply; a message's stamp is taken after the
   client has received it.  Hence "a.end < b.begin" in stamps implies that a
   really ended before b really began, which is all the clauses use: when
   stamps do not decide, a delivery is classified as "may". *)
From Moc Require Import Base Match Router.
Open Scope Z_scope.

(** lazy connectives: the oracles are evaluated by vm_compute (call by value),
    where [andb]/[orb] would evaluate both sides *)
Notation "a &&& b" := (if a then b else false) (at level 40, left associativity).
Notation "a ||| b" := (if a then true else b) (at level 50, left associativity).

(** what a client sees on the wire *)
Inductive xmsg :=
| XEose (sub : str)
| XOk (id : str) (accepted msg_empty : bool)
| XCount (sub : str) (n : Z)
| XEvent (sub : str) (e : event)
| XOther.

(** one client operation: connection, operation, begin stamp, end stamp
    ([None]: no reply was seen / the operation has no reply) *)
Record hop := mkHop { h_c : nat; h_o : op; h_b : Z; h_d : option Z }.

Record history := mkHist {
  hi_buf : Z;                              (* the router's buflen *)
  hi_ops : list hop;                       (* per connection in issue order *)
  hi_outs : list (list (xmsg * Z));        (* per connection: messages received, with stamps *)
  hi_drained : list bool                   (* per connection: the final flush reached the client *)
}.

Definition s_zpk : str := [126; 122; 112; 107]%N.   (* "~zpk": author of the harness's flush events *)
Definition is_sentinel (e : event) : bool := str_eqb (ev_pk e) s_zpk.

Definition lt_opt (a : Z) (d : option Z) : bool := match d with Some d => a <? d | None => true end.
Definition ended_before (d : option Z) (b : Z) : bool := match d with Some d => d <? b | None => false end.

Definition outs_of (h : history) (x : nat) : list (xmsg * Z) := nth x (hi_outs h) [].
Definition ops_of (h : history) (x : nat) : list hop := filter (fun o => Nat.eqb (h_c o) x) (hi_ops h).

Definition is_pub (o : hop) : option event := match h_o o with OEvent e => Some e | _ => None end.
Definition pubs (h : history) : list (hop * event) :=
  flat_map (fun o => match is_pub o with Some e => [(o, e)] | None => [] end) (hi_ops h).

(** does operation [o] end the subscription [sub] (CLOSE of it, REQ with the
    same id, end of the session)? *)
Definition op_ends (o : op) (sub : str) : bool :=
  match o with
  | OClose s => str_eqb sub s
  | OReq s _ => str_eqb sub s
  | ODisc => true
  | _ => false
  end.

(** when the client knows that an ending operation has taken effect: a REQ
    when its EOSE arrived, the end of the session when the handler returned,
    a CLOSE (which has no reply) when the reply to a later operation of the
    same connection arrived (one connection's messages are handled in order) *)
Definition first_end_after (ops : list hop) (b : Z) : option Z :=
  fold_right (fun o acc =>
                if b <? h_b o then match h_d o with Some d => Some d | None => acc end else acc) None ops.

Definition effect_known (h : history) (o : hop) : option Z :=
  match h_o o with
  | OClose _ => first_end_after (ops_of h (h_c o)) (h_b o)
  | _ => h_d o
  end.

Definition has_disc (h : history) (x : nat) : bool :=
  existsb (fun o => match h_o o with ODisc => true | _ => false end) (ops_of h x).

(* ------------------------------------------------------------------ *)
(** * MUST NOT: every delivery is justified *)

(** A copy EVENT(sub, e) received on x is justified when some publication of
    e began before the copy arrived and some REQ of x with that id and
    matching filters began before that publication's OK, and no CLOSE /
    replacement / end of session issued after that REQ is known to have
    taken effect before the publication began. *)
Definition justified (ps : list (hop * event)) (h : history) (xops : list hop) (sub : str) (e : event) (r : Z) : bool :=
  existsb (fun pe : hop * event =>
    let (p, e') := pe in
    str_eqb (ev_id e') (ev_id e) &&& event_eqb e' e &&& (h_b p <? r) &&&
    existsb (fun q : hop =>
      match h_o q with
      | OReq s fs =>
          str_eqb s sub &&& lt_opt (h_b q) (h_d p) &&& matches_specb e fs &&&
          negb (existsb (fun k : hop =>
                  (h_b q <? h_b k) &&& op_ends (h_o k) sub &&& ended_before (effect_known h k) (h_b p))
                xops)
      | _ => false
      end) xops) ps.

Definition must_not_ok (h : history) : bool :=
  let ps := pubs h in
  forallb (fun x =>
    let xops := ops_of h x in
    forallb (fun ms : xmsg * Z =>
      match fst ms with
      | XEvent sub e => justified ps h xops sub e (snd ms)
      | _ => true
      end) (outs_of h x)) (seq 0 (length (hi_outs h))).

(* ------------------------------------------------------------------ *)
(** * MUST: an open matching subscription gets its copy *)

Definition delivered (h : history) (x : nat) (sub : str) (e : event) : bool :=
  existsb (fun ms : xmsg * Z =>
    match fst ms with
    | XEvent s e' => str_eqb s sub &&& str_eqb (ev_id e') (ev_id e)
    | _ => false
    end) (outs_of h x).

Definition pub_begin (h : history) (id : str) : option Z :=
  fold_right (fun pe acc => if str_eqb (ev_id (snd pe)) id then Some (h_b (fst pe)) else acc) None (pubs h).

(** "only its own deliveries beyond the configured buffer are dropped": a
    missing copy is excused when at least buflen other copies for the same
    connection can have been waiting in its queue at that moment, i.e. were
    published before this publication's OK and received after its begin. *)
Definition may_be_full (h : history) (x : nat) (p : hop) : bool :=
  match h_d p with
  | None => true
  | Some pd =>
      hi_buf h <=? Z.of_nat (count_occ_b (fun ms : xmsg * Z =>
        match fst ms with
        | XEvent _ e2 =>
            (h_b p <? snd ms) &&&
            match pub_begin h (ev_id e2) with Some b2 => b2 <? pd | None => true end
        | _ => false
        end) (outs_of h x))
  end.

Definition must_ok (h : history) : bool :=
  forallb (fun pe : hop * event =>
    let (p, e) := pe in
    match h_d p with
    | None => true
    | Some pd =>
        is_sentinel e |||
        forallb (fun q : hop =>
          match h_o q, h_d q with
          | OReq sub fs, Some qd =>
              let x := h_c q in
              negb ((qd <? h_b p) &&& matches_specb e fs &&& negb (has_disc h x) &&&
                    negb (existsb (fun k : hop => (h_b q <? h_b k) &&& op_ends (h_o k) sub &&& (h_b k <? pd)) (ops_of h x)))
              ||| delivered h x sub e ||| may_be_full h x p
          | _, _ => true
          end) (hi_ops h)
    end) (pubs h).

(* ------------------------------------------------------------------ *)
(** * At most once, in publication order *)

Fixpoint once_list (l : list (xmsg * Z)) : bool :=
  match l with
  | [] => true
  | ms :: l' =>
      match fst ms with
      | XEvent sub e =>
          negb (existsb (fun ms' : xmsg * Z =>
                  match fst ms' with
                  | XEvent sub' e' => str_eqb sub sub' &&& str_eqb (ev_id e) (ev_id e')
                  | _ => false
                  end) l')
      | _ => true
      end && once_list l'
  end.

Definition once_ok (h : history) : bool := forallb once_list (hi_outs h).

Definition pub_of (h : history) (id : str) : option (nat * Z) :=
  fold_right (fun pe acc => if str_eqb (ev_id (snd pe)) id then Some (h_c (fst pe), h_b (fst pe)) else acc) None (pubs h).

Fixpoint order_list (h : history) (l : list (xmsg * Z)) : bool :=
  match l with
  | [] => true
  | ms :: l' =>
      match fst ms with
      | XEvent sub e =>
          forallb (fun ms' : xmsg * Z =>
            match fst ms' with
            | XEvent sub' e' =>
                negb (str_eqb sub sub') |||
                match pub_of h (ev_id e), pub_of h (ev_id e') with
                | Some (p1, b1), Some (p2, b2) => negb (Nat.eqb p1 p2) ||| (b1 <? b2)
                | _, _ => true
                end
            | _ => true
            end) l'
      | _ => true
      end && order_list h l'
  end.

Definition order_ok (h : history) : bool := forallb (order_list h) (hi_outs h).

(* ------------------------------------------------------------------ *)
(** * Replies: every REQ one EOSE, every EVENT one accepting OK with its id *)

Definition reply_match (m : xmsg) (o : op) : bool :=
  match o, m with
  | OReq sub _, XEose s => str_eqb sub s
  | OEvent e, XOk id acc empty => str_eqb id (ev_id e) && acc && empty
  | OCount sub, XCount s _ => str_eqb sub s
  | _, _ => false
  end.

Definition wants_reply (o : op) : bool :=
  match o with OReq _ _ | OEvent _ | OCount _ => true | _ => false end.

Definition is_xevent (m : xmsg) : bool := match m with XEvent _ _ => true | _ => false end.

Fixpoint replies_match (ms : list xmsg) (os : list op) : bool :=
  match ms, os with
  | [], [] => true
  | m :: ms', o :: os' => reply_match m o && replies_match ms' os'
  | _, _ => false
  end.

Definition is_some {A} (o : option A) : bool := match o with Some _ => true | None => false end.

(** connection x was disconnected by an operation issued after stamp b *)
Definition disc_after (h : history) (x : nat) (b : Z) : bool :=
  existsb (fun k => match h_o k with ODisc => b <? h_b k | _ => false end) (ops_of h x).

(** An operation that was still in flight when the client disconnected may
    stay without reply (the session's context is cancelled, the reply is given
    up); every other REQ / EVENT / COUNT is answered, and the replies received
    are those of the answered operations, in order. *)
Definition replies_ok (h : history) : bool :=
  forallb (fun x =>
    let os := filter (fun o => wants_reply (h_o o)) (ops_of h x) in
    forallb (fun o => is_some (h_d o) || disc_after h x (h_b o)) os &&
    replies_match (filter (fun m => negb (is_xevent m)) (List.map fst (outs_of h x)))
                  (List.map h_o (filter (fun o => is_some (h_d o)) os)))
  (seq 0 (length (hi_outs h))).

(** the final flush reached every connection that is still open *)
Definition drained_ok (h : history) : bool :=
  forallb (fun x => has_disc h x || nth x (hi_drained h) false) (seq 0 (length (hi_outs h))).

(** a connection's operations do not overlap (the harness issues them in
    order); histories that violate this are not judged *)
Definition timed_oracle (h : history) : bool :=
  replies_ok h &&& drained_ok h &&& must_not_ok h &&& must_ok h &&& once_ok h &&& order_ok h.

(* ------------------------------------------------------------------ *)
(** * Quiescent sequential histories: exact expectation

    When no two operations overlap (each ended before the next began) "open
    at that moment" is decided: the set of subscriptions open when an EVENT
    is published is fixed by the operations before it.  The expected copies
    are then exact, up to the buffer clause. *)

Definition sequential (h : history) : bool :=
  (fix go (l : list hop) (last : Z) : bool :=
     match l with
     | [] => true
     | o :: l' =>
         (last <? h_b o) &&
         match h_d o with
         | Some d => (h_b o <? d) && go l' d
         | None => go l' (h_b o)
         end
     end) (hi_ops h) (-1).

(** subscriptions of x open after the operations [ops] (oldest first) *)
Fixpoint open_subs (x : nat) (ops : list hop) (acc : list (str * list rfilter)) : list (str * list rfilter) :=
  match ops with
  | [] => acc
  | o :: ops' =>
      if Nat.eqb (h_c o) x then
        match h_o o with
        | OReq sub fs => open_subs x ops' (filter (fun kv => negb (str_eqb (fst kv) sub)) acc ++ [(sub, fs)])
        | OClose sub => open_subs x ops' (filter (fun kv => negb (str_eqb (fst kv) sub)) acc)
        | ODisc => open_subs x ops' []
        | _ => open_subs x ops' acc
        end
      else open_subs x ops' acc
  end.

(** for each publication, walking the operations in order: every copy
    received for it is labelled with an open matching subscription, and an
    open matching subscription without a copy is excused only by the buffer
    clause *)
Fixpoint exact_walk (h : history) (before : list hop) (rest : list hop) : bool :=
  match rest with
  | [] => true
  | o :: rest' =>
      match h_o o with
      | OEvent e =>
          forallb (fun x =>
            let open := open_subs x before [] in
            let want := List.map fst (filter (fun kv => matches_specb e (snd kv)) open) in
            let got := flat_map (fun ms : xmsg * Z =>
                         match fst ms with
                         | XEvent s e' => if str_eqb (ev_id e') (ev_id e) then [s] else []
                         | _ => []
                         end) (outs_of h x) in
            forallb (fun s => mem_str s want) got &&&
            (has_disc h x ||| is_sentinel e ||| may_be_full h x o ||| forallb (fun s => mem_str s got) want))
          (seq 0 (length (hi_outs h)))
      | _ => true
      end &&& exact_walk h (before ++ [o]) rest'
  end.

Definition det_oracle (h : history) : bool :=
  timed_oracle h &&& (negb (sequential h) ||| exact_walk h [] (hi_ops h)).
