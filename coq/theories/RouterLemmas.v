(* RouterLemmas.v — C07: basic facts about the maps and the step function of
   Router.v, used by RouterInv.v and RouterProofs.v. *)
From Moc Require Import Base Match MatchProofs Router.
From Moc.Gen Require Import GenRouter.
Open Scope Z_scope.

(* ------------------------------------------------------------------ *)
(** * The structure facts extracted from the source *)

Lemma model_applicable_true : model_applicable = true.
Proof. vm_compute. reflexivity. Qed.

Lemma trysend_has_default : g_trysend_has_default = true.
Proof.
  pose proof model_applicable_true as H. unfold model_applicable in H.
  repeat (apply andb_true_iff in H; destruct H as [H ?]). assumption.
Qed.

Lemma g_router_buflen_bad_spec b : g_router_buflen_bad b = true <-> b <= 0.
Proof. unfold g_router_buflen_bad. apply Z.leb_le. Qed.

(** every method of safeMap that writes the map takes the exclusive lock,
    and every method defers the matching unlock directly after taking it *)
Lemma safemap_lock_discipline :
  forall name excl deferred writes,
    In (name, (excl, deferred, writes)) g_safemap_locks ->
    deferred = true /\ (writes = true -> excl = true).
Proof.
  intros name excl deferred writes Hin.
  assert (F : forallb lock_row_ok g_safemap_locks = true) by (vm_compute; reflexivity).
  rewrite forallb_forall in F. specialize (F _ Hin). unfold lock_row_ok in F.
  apply andb_true_iff in F as [F1 F2]. split; [assumption|].
  intros ->. simpl in F2. assumption.
Qed.

(** the methods the registry uses: Add and Delete are writers under the
    exclusive lock, TryGet and Loop are readers under the shared lock *)
Lemma safemap_methods :
  lock_of s_Add = Some (true, true, true) /\ lock_of s_Delete = Some (true, true, true) /\
  lock_of s_TryGet = Some (false, true, false) /\ lock_of s_Loop = Some (false, true, false).
Proof. vm_compute. repeat split. Qed.

(* ------------------------------------------------------------------ *)
(** * upd *)

Lemma upd_same f c v : upd f c v c = v.
Proof. unfold upd. now rewrite Nat.eqb_refl. Qed.

Lemma upd_other f c v x : x <> c -> upd f c v x = f x.
Proof. unfold upd. intro H. apply Nat.eqb_neq in H. now rewrite H. Qed.

Lemma upd_cases f c v x : (x = c /\ upd f c v x = v) \/ (x <> c /\ upd f c v x = f x).
Proof.
  destruct (Nat.eq_dec x c) as [->|N]; [left | right]; split; auto using upd_same, upd_other.
Qed.

(* ------------------------------------------------------------------ *)
(** * Registry maps *)

Lemma reg_get_set_same c m r : reg_get c (reg_set c m r) = Some m.
Proof.
  induction r as [|[c' m'] r IH]; simpl.
  - now rewrite Nat.eqb_refl.
  - destruct (Nat.eqb c c') eqn:E; simpl; [now rewrite Nat.eqb_refl | now rewrite E].
Qed.

Lemma reg_get_set_other c c2 m r : c2 <> c -> reg_get c2 (reg_set c m r) = reg_get c2 r.
Proof.
  intro N. induction r as [|[c' m'] r IH]; simpl.
  - apply Nat.eqb_neq in N. now rewrite N.
  - destruct (Nat.eqb c c') eqn:E; simpl.
    + apply Nat.eqb_eq in E; subst c'. apply Nat.eqb_neq in N. now rewrite N.
    + destruct (Nat.eqb c2 c'); [reflexivity | exact IH].
Qed.

Lemma reg_get_del_same c r : reg_get c (reg_del c r) = None.
Proof.
  induction r as [|[c' m'] r IH]; simpl; [reflexivity|].
  destruct (Nat.eqb c c') eqn:E; simpl; [exact IH | now rewrite E].
Qed.

Lemma reg_get_del_other c c2 r : c2 <> c -> reg_get c2 (reg_del c r) = reg_get c2 r.
Proof.
  intro N. induction r as [|[c' m'] r IH]; simpl; [reflexivity|].
  destruct (Nat.eqb c c') eqn:E; simpl.
  - apply Nat.eqb_eq in E; subst c'. apply Nat.eqb_neq in N. now rewrite N.
  - destruct (Nat.eqb c2 c'); [reflexivity | exact IH].
Qed.

Lemma reg_get_In c r m : reg_get c r = Some m -> In c (List.map fst r).
Proof.
  induction r as [|[c' m'] r IH]; simpl; [discriminate|].
  destruct (Nat.eqb c c') eqn:E.
  - apply Nat.eqb_eq in E. intros _. now left.
  - intro H. right. now apply IH.
Qed.

Lemma reg_get_None c r : reg_get c r = None <-> ~ In c (List.map fst r).
Proof.
  induction r as [|[c' m'] r IH]; simpl.
  - split; [auto | reflexivity].
  - destruct (Nat.eqb c c') eqn:E.
    + apply Nat.eqb_eq in E. subst. split; [discriminate | intro H; exfalso; apply H; now left].
    + apply Nat.eqb_neq in E. rewrite IH. split.
      * intros H [H1|H1]; [congruence | contradiction].
      * intros H H1. apply H. now right.
Qed.

Lemma reg_set_keys c m r :
  List.map fst (reg_set c m r) =
  match reg_get c r with Some _ => List.map fst r | None => List.map fst r ++ [c] end.
Proof.
  induction r as [|[c' m'] r IH]; simpl; [reflexivity|].
  destruct (Nat.eqb c c') eqn:E; simpl.
  - apply Nat.eqb_eq in E. now subst.
  - rewrite IH. now destruct (reg_get c r).
Qed.

Lemma reg_del_keys_In c x r : In x (List.map fst (reg_del c r)) <-> x <> c /\ In x (List.map fst r).
Proof.
  induction r as [|[c' m'] r IH]; simpl; [tauto|].
  destruct (Nat.eqb c c') eqn:E; simpl.
  - apply Nat.eqb_eq in E. subst c'. rewrite IH. split; [tauto|]. intros [N [H|H]]; [congruence | tauto].
  - apply Nat.eqb_neq in E. rewrite IH. split; [|tauto]. intros [H|H]; [subst; split; [congruence | now left] | tauto].
Qed.

Lemma reg_del_NoDup c r : NoDup (List.map fst r) -> NoDup (List.map fst (reg_del c r)).
Proof.
  induction r as [|[c' m'] r IH]; simpl; [auto|].
  intro ND. inversion ND as [|? ? Hn ND']; subst.
  destruct (Nat.eqb c c'); simpl; [now apply IH|].
  constructor; [|now apply IH]. rewrite reg_del_keys_In. tauto.
Qed.

Lemma reg_set_NoDup c m r : NoDup (List.map fst r) -> NoDup (List.map fst (reg_set c m r)).
Proof.
  intro ND. rewrite reg_set_keys. destruct (reg_get c r) eqn:E; [assumption|].
  apply reg_get_None in E.
  apply NoDup_rev in ND. rewrite <- (rev_involutive (_ ++ [c])). apply NoDup_rev.
  rewrite rev_app_distr. simpl. constructor; [|assumption]. now rewrite <- in_rev.
Qed.

(* ------------------------------------------------------------------ *)
(** * Subscription maps *)

Lemma assoc_sm_set_same k v m : assoc k (sm_set k v m) = Some v.
Proof.
  induction m as [|[k' v'] m IH]; simpl.
  - now rewrite str_eqb_refl.
  - destruct (str_eqb k k') eqn:E; simpl; [now rewrite str_eqb_refl | now rewrite E].
Qed.

Lemma assoc_sm_set_other k k2 v m : k2 <> k -> assoc k2 (sm_set k v m) = assoc k2 m.
Proof.
  intro N. apply str_eqb_neq in N. induction m as [|[k' v'] m IH]; simpl.
  - now rewrite N.
  - destruct (str_eqb k k') eqn:E; simpl.
    + apply str_eqb_eq in E; subst k'. now rewrite N.
    + destruct (str_eqb k2 k'); [reflexivity | exact IH].
Qed.

Lemma assoc_sm_del_same k m : assoc k (sm_del k m) = None.
Proof.
  induction m as [|[k' v'] m IH]; simpl; [reflexivity|].
  destruct (str_eqb k k') eqn:E; simpl; [exact IH | now rewrite E].
Qed.

Lemma assoc_sm_del_other k k2 m : k2 <> k -> assoc k2 (sm_del k m) = assoc k2 m.
Proof.
  intro N. apply str_eqb_neq in N. induction m as [|[k' v'] m IH]; simpl; [reflexivity|].
  destruct (str_eqb k k') eqn:E; simpl.
  - apply str_eqb_eq in E; subst k'. now rewrite N.
  - destruct (str_eqb k2 k'); [reflexivity | exact IH].
Qed.

Lemma sm_del_keys_In k x m : In x (List.map fst (sm_del k m)) <-> x <> k /\ In x (List.map fst m).
Proof.
  induction m as [|[k' v'] m IH]; simpl; [tauto|].
  destruct (str_eqb k k') eqn:E; simpl.
  - apply str_eqb_eq in E. subst k'. rewrite IH. split; [tauto|]. intros [N [H|H]]; [congruence | tauto].
  - apply str_eqb_neq in E. rewrite IH. split; [|tauto]. intros [H|H]; [subst; split; [congruence | now left] | tauto].
Qed.

Lemma sm_del_NoDup k m : NoDup (List.map fst m) -> NoDup (List.map fst (sm_del k m)).
Proof.
  induction m as [|[k' v'] m IH]; simpl; [auto|].
  intro ND. inversion ND as [|? ? Hn ND']; subst.
  destruct (str_eqb k k'); simpl; [now apply IH|].
  constructor; [|now apply IH]. rewrite sm_del_keys_In. tauto.
Qed.

Lemma sm_set_keys k v m :
  List.map fst (sm_set k v m) =
  match assoc k m with Some _ => List.map fst m | None => List.map fst m ++ [k] end.
Proof.
  induction m as [|[k' v'] m IH]; simpl; [reflexivity|].
  destruct (str_eqb k k') eqn:E; simpl.
  - apply str_eqb_eq in E. now subst.
  - rewrite IH. now destruct (assoc k m).
Qed.

Lemma sm_set_NoDup k v m : NoDup (List.map fst m) -> NoDup (List.map fst (sm_set k v m)).
Proof.
  intro ND. rewrite sm_set_keys. destruct (assoc k m) eqn:E; [assumption|].
  apply assoc_None in E.
  apply NoDup_rev in ND. rewrite <- (rev_involutive (_ ++ [k])). apply NoDup_rev.
  rewrite rev_app_distr. simpl. constructor; [|assumption]. now rewrite <- in_rev.
Qed.

Lemma sm_del_In k x v m : In (x, v) (sm_del k m) -> In (x, v) m /\ x <> k.
Proof.
  induction m as [|[k' v'] m IH]; simpl; [tauto|].
  destruct (str_eqb k k') eqn:E; simpl.
  - intro H. apply IH in H. tauto.
  - apply str_eqb_neq in E. intros [H|H]; [inversion H; subst; split; [now left | congruence] | apply IH in H; tauto].
Qed.

(** reorder: a rearrangement of the map's entries *)
Lemma reorder_In_assoc ord : forall m k v, assoc k m = Some v -> In (k, v) (reorder ord m).
Proof.
  induction ord as [|k0 ord IH]; intros m k v H; simpl.
  - now apply assoc_In.
  - destruct (assoc k0 m) as [v0|] eqn:E0.
    + destruct (str_dec k k0) as [->|N].
      * rewrite E0 in H. inversion H; subst. now left.
      * right. apply IH. now rewrite assoc_sm_del_other.
    + now apply IH.
Qed.

Lemma reorder_In ord : forall m k v, In (k, v) (reorder ord m) -> In (k, v) m.
Proof.
  induction ord as [|k0 ord IH]; intros m k v H; simpl in H; [assumption|].
  destruct (assoc k0 m) as [v0|] eqn:E0.
  - destruct H as [H|H].
    + inversion H; subst. now apply assoc_In.
    + apply IH in H. now apply sm_del_In in H.
  - now apply IH.
Qed.

Lemma reorder_keys_In ord : forall m k, In k (List.map fst (reorder ord m)) -> In k (List.map fst m).
Proof.
  intros m k H. apply in_map_iff in H as [[k' v] [E H]]. simpl in E. subst k'.
  apply reorder_In in H. change k with (fst (k, v)). now apply in_map.
Qed.

Lemma reorder_NoDup ord : forall m, NoDup (List.map fst m) -> NoDup (List.map fst (reorder ord m)).
Proof.
  induction ord as [|k0 ord IH]; intros m ND; simpl; [assumption|].
  destruct (assoc k0 m) as [v0|] eqn:E0; [|now apply IH].
  simpl. constructor; [|apply IH, sm_del_NoDup, ND].
  intro H. apply reorder_keys_In in H. apply sm_del_keys_In in H. now destruct H.
Qed.

Lemma sm_del_length k m : (length (sm_del k m) <= length m)%nat.
Proof. induction m as [|[k' v'] m IH]; simpl; [lia|]. destruct (str_eqb k k'); simpl; lia. Qed.

Lemma reorder_length ord : forall m, (length (reorder ord m) <= length m)%nat.
Proof.
  induction ord as [|k0 ord IH]; intro m; simpl; [lia|].
  destruct (assoc k0 m) as [v0|] eqn:E0; [|apply IH].
  simpl. pose proof (IH (sm_del k0 m)) as H1.
  assert (length (sm_del k0 m) < length m)%nat; [|lia].
  clear -E0. induction m as [|[k' v'] m IH]; simpl in *; [discriminate|].
  destruct (str_eqb k0 k') eqn:E; simpl.
  - pose proof (sm_del_length k0 m). lia.
  - specialize (IH E0). lia.
Qed.

(* ------------------------------------------------------------------ *)
(** * remove_conn, mem_conn *)

Lemma remove_conn_In c x l : In x (remove_conn c l) <-> x <> c /\ In x l.
Proof.
  induction l as [|y l IH]; simpl; [tauto|].
  destruct (Nat.eqb c y) eqn:E; simpl.
  - apply Nat.eqb_eq in E. subst y. rewrite IH. split; [tauto|]. intros [N [H|H]]; [congruence | tauto].
  - apply Nat.eqb_neq in E. rewrite IH. split; [|tauto]. intros [H|H]; [subst; split; [congruence | now left] | tauto].
Qed.

Lemma remove_conn_NoDup c l : NoDup l -> NoDup (remove_conn c l).
Proof.
  induction l as [|y l IH]; simpl; [auto|].
  intro ND. inversion ND as [|? ? Hn ND']; subst.
  destruct (Nat.eqb c y); [now apply IH|].
  constructor; [|now apply IH]. rewrite remove_conn_In. tauto.
Qed.

Lemma mem_conn_In c l : mem_conn c l = true <-> In c l.
Proof.
  unfold mem_conn. rewrite existsb_exists. split.
  - intros [y [Hy E]]. apply Nat.eqb_eq in E. now subst.
  - intro H. exists c. split; [assumption | apply Nat.eqb_refl].
Qed.

(* ------------------------------------------------------------------ *)
(** * Matching: the model's test is the NIP-01 predicate (C02) *)

Lemma sub_matches_spec e fs :
  tags_nonempty e -> Forall filter_wf fs -> sub_matches e fs = matches_specb e fs.
Proof. intros Hne Hwf. unfold sub_matches. now rewrite (matchers_or e fs Hne Hwf). Qed.

(* ------------------------------------------------------------------ *)
(** * run *)

Lemma run_app s tr1 tr2 : run s (tr1 ++ tr2) = run (run s tr1) tr2.
Proof. unfold run. apply fold_left_app. Qed.

Lemma run_cons s l tr : run s (l :: tr) = run (step s l) tr.
Proof. reflexivity. Qed.

Lemma reachable_run buf s tr : reachable buf s -> reachable buf (run s tr).
Proof.
  revert s. induction tr as [|l tr IH]; intros s H; [assumption|].
  rewrite run_cons. apply IH. now constructor.
Qed.

Lemma flow_take st m q' :
  c_hand st = None -> c_q st = m :: q' ->
  flow (mkC (c_pc st) q' (Some m) (c_out st) (c_rd st) (c_ctr st) (c_dead st) (c_ops st) (c_drops st)) = flow st.
Proof. intros H1 H2. unfold flow, hand_list. simpl. now rewrite H1, H2. Qed.

Lemma flow_deliver st m :
  c_hand st = Some m ->
  flow (mkC (c_pc st) (c_q st) None (c_out st ++ [m]) (c_rd st) (c_ctr st) (c_dead st) (c_ops st) (c_drops st)) = flow st.
Proof. intros H1. unfold flow, hand_list. simpl. rewrite H1. now rewrite <- app_assoc. Qed.
