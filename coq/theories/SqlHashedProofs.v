(* SqlHashedProofs.v — C06: under [no_collision] the store keyed by hash
   values (SqlHashed.v) and the store keyed by hash pre-images (Sql.v) hold
   the same tables up to hashing and answer every query identically:
   [hashed_run], [hashed_query], [hashed_store_refines].  This is where the
   hypothesis [no_collision] of the C06 theorems is used. *)
From Moc Require Import Base Match Sql SqlSpec SqlLemmas SqlInv SqlSort SqlHashed.
From Moc.Gen Require Import GenMsg GenSql.
Open Scope Z_scope.

(* ------------------------------------------------------------------ *)
(** * lists under a map that preserves the comparisons made *)

Lemma filter_map_comm {A B} (f : A -> B) (P : B -> bool) (Q : A -> bool) l :
  (forall x, In x l -> P (f x) = Q x) -> filter P (List.map f l) = List.map f (filter Q l).
Proof.
  induction l as [|x l IH]; intro H; [reflexivity|].
  cbn [List.map filter]. rewrite (H x (or_introl eq_refl)), IH by (intros y Hy; apply H; now right).
  destruct (Q x); reflexivity.
Qed.

Lemma existsb_map_comm {A B} (f : A -> B) (P : B -> bool) (Q : A -> bool) l :
  (forall x, In x l -> P (f x) = Q x) -> existsb P (List.map f l) = existsb Q l.
Proof.
  induction l as [|x l IH]; intro H; [reflexivity|].
  cbn [List.map existsb]. rewrite (H x (or_introl eq_refl)), IH by (intros y Hy; apply H; now right). reflexivity.
Qed.

Lemma flat_map_map_comm {A B} (f : A -> B) (g : A -> list A) (g' : B -> list B) l :
  (forall x, In x l -> g' (f x) = List.map f (g x)) -> flat_map g' (List.map f l) = List.map f (flat_map g l).
Proof.
  induction l as [|x l IH]; intro H; [reflexivity|].
  cbn [List.map flat_map]. rewrite map_app, (H x (or_introl eq_refl)), IH by (intros y Hy; apply H; now right).
  reflexivity.
Qed.

Lemma map_repeat' {A B} (f : A -> B) x n : List.map f (repeat x n) = repeat (f x) n.
Proof. induction n as [|n IH]; [reflexivity | cbn [repeat List.map]; now rewrite IH]. Qed.

Lemma dedup_map {A B} (f : A -> B) (eqA : A -> A -> bool) (eqB : B -> B -> bool) l : forall seen,
  (forall a b, In a (l ++ seen) -> In b (l ++ seen) -> eqB (f a) (f b) = eqA a b) ->
  dedup eqB (List.map f l) (List.map f seen) = List.map f (dedup eqA l seen).
Proof.
  induction l as [|x l IH]; intros seen H; [reflexivity|].
  cbn [List.map dedup].
  assert (E : existsb (eqB (f x)) (List.map f seen) = existsb (eqA x) seen).
  { apply existsb_map_comm. intros y Hy. apply H; [now left | right; apply in_app_iff; now right]. }
  rewrite E. destruct (existsb (eqA x) seen).
  - apply IH. intros a b Ha Hb. apply H; now right.
  - cbn [List.map]. f_equal. apply (IH (x :: seen)). intros a b Ha Hb.
    apply H; apply in_app_iff; [apply in_app_iff in Ha; destruct Ha as [Ha|[<- |Ha]] | apply in_app_iff in Hb; destruct Hb as [Hb|[<- |Hb]]];
      try (now left; right); try (now left; left); try (now right).
Qed.

Lemma set_add_map {A B} (f : A -> B) (eqA : A -> A -> bool) (eqB : B -> B -> bool) x l :
  (forall y, In y l -> eqB (f x) (f y) = eqA x y) ->
  set_add eqB (f x) (List.map f l) = List.map f (set_add eqA x l).
Proof.
  intro H. unfold set_add. rewrite (existsb_map_comm f (eqB (f x)) (eqA x) l H).
  destruct (existsb (eqA x) l); [reflexivity|]. now rewrite map_app.
Qed.

Lemma set_add_sub {A} (eqA : A -> A -> bool) x l y : In y (set_add eqA x l) -> In y l \/ y = x.
Proof.
  unfold set_add. destruct (existsb (eqA x) l); [now left|].
  rewrite in_app_iff. intros [H|[<- |[]]]; auto.
Qed.

Lemma fold_set_add_map {A B} (f : A -> B) (eqA : A -> A -> bool) (eqB : B -> B -> bool) (D : A -> Prop) :
  (forall a b, D a -> D b -> eqB (f a) (f b) = eqA a b) ->
  forall xs l, (forall x, In x xs -> D x) -> (forall x, In x l -> D x) ->
  fold_left (fun l x => set_add eqB x l) (List.map f xs) (List.map f l) =
  List.map f (fold_left (fun l x => set_add eqA x l) xs l).
Proof.
  intros H xs. induction xs as [|x xs IH]; intros l Dx Dl; [reflexivity|].
  cbn [List.map fold_left]. rewrite (set_add_map f eqA eqB).
  - apply IH; [intros y Hy; apply Dx; now right|].
    intros y Hy. apply set_add_sub in Hy. destruct Hy as [Hy| ->]; [now apply Dl | apply Dx; now left].
  - intros y Hy. apply H; [apply Dx; now left | now apply Dl].
Qed.

Lemma fold_set_add_sub {A} (eqA : A -> A -> bool) xs : forall l y,
  In y (fold_left (fun l x => set_add eqA x l) xs l) -> In y l \/ In y xs.
Proof.
  induction xs as [|x xs IH]; intros l y H; [now left|].
  cbn [fold_left] in H. apply IH in H. destruct H as [H|H]; [|right; now right].
  apply set_add_sub in H. destruct H as [H| ->]; [now left | right; now left].
Qed.

Lemma dedup_sub {A} (eqb : A -> A -> bool) l : forall seen x, In x (dedup eqb l seen) -> In x l.
Proof.
  induction l as [|y l IH]; intros seen x; cbn [dedup]; [auto|].
  destruct (existsb (eqb y) seen); [intro H; right; eauto|].
  intros [<- |H]; [now left | right; eauto].
Qed.

Lemma all_some_map_comm {A B} (g : A -> B) (l : list (option A)) :
  all_some (List.map (option_map g) l) = option_map (List.map g) (all_some l).
Proof.
  induction l as [|[x|] l IH]; [reflexivity| |reflexivity].
  cbn [List.map option_map all_some]. rewrite IH. destruct (all_some l); reflexivity.
Qed.

Lemma upsert_sub rows new : forall r, In r (fst (upsert rows new)) -> In r rows \/ r = new.
Proof.
  induction rows as [|x rows IH]; intro r; cbn [upsert].
  - intros [<- |[]]. now right.
  - destruct (ekey_eqb (r_key x) (r_key new)).
    + destruct (upsert_guard x new); cbn [fst].
      * intros [<- |H]; [now right | left; now right].
      * intros [<- |H]; left; [now left | now right].
    + destruct (upsert rows new) as [rest' u] eqn:E. cbn [fst] in *.
      intros [<- |H]; [left; now left|]. destruct (IH r H) as [H'| ->]; [left; now right | now right].
Qed.

Lemma upsert_old rows new old : snd (upsert rows new) = UUpdated old -> In old rows.
Proof.
  induction rows as [|x rows IH]; cbn [upsert]; [discriminate|].
  destruct (ekey_eqb (r_key x) (r_key new)).
  - destruct (upsert_guard x new); cbn [snd]; [intro H; inversion H; now left | discriminate].
  - destruct (upsert rows new) as [rest' u] eqn:E. cbn [snd] in *. intro H. right. now apply IH.
Qed.

(* ------------------------------------------------------------------ *)
(** * hashing that is injective on the keys and strings in play *)

Section Refine.
Variable xx : Z -> str -> Z.
Variable md5 : str -> str.
Variable K : list ekey.
Hypothesis Kinj : forall a b, In a K -> In b K -> key64 xx a = key64 xx b -> a = b.
Variable T : list str.
Hypothesis Tinj : forall a b, In a T -> In b T -> md5 a = md5 b -> a = b.

Notation hk := (hk xx).
Notation hkp := (hkp xx).
Notation h_erow := (h_erow xx).
Notation h_prow := (h_prow xx).
Notation h_trow := (h_trow xx md5).
Notation hash_db := (hash_db xx md5).

(** on stored keys [ekey_eqb] is equality of the 64-bit numbers *)
Lemma hk_eqb_num a b : ekey_eqb (hk a) (hk b) = (key64 xx a =? key64 xx b).
Proof. unfold SqlHashed.hk. cbn [ekey_eqb]. rewrite Z.eqb_refl. destruct (key64 xx a =? key64 xx b); reflexivity. Qed.

Lemma hk_eqb a b : In a K -> In b K -> ekey_eqb (hk a) (hk b) = ekey_eqb a b.
Proof.
  intros Ha Hb. rewrite hk_eqb_num. destruct (key64 xx a =? key64 xx b) eqn:E.
  - apply Z.eqb_eq in E. rewrite (Kinj a b Ha Hb E). symmetry. apply ekey_eqb_refl.
  - symmetry. apply ekey_eqb_neq. intros ->. now rewrite Z.eqb_refl in E.
Qed.

Lemma md5_eqb a b : In a T -> In b T -> str_eqb (md5 a) (md5 b) = str_eqb a b.
Proof.
  intros Ha Hb. destruct (str_eqb a b) eqn:E.
  - apply str_eqb_eq in E. subst b. apply str_eqb_refl.
  - destruct (str_eqb (md5 a) (md5 b)) eqn:E'; [|reflexivity].
    apply str_eqb_eq in E'. rewrite (Tinj a b Ha Hb E') in E. now rewrite str_eqb_refl in E.
Qed.

Lemma mem_key_hashed k ks : In k K -> incl ks K -> mem_key (hk k) (List.map (SqlHashed.hk xx) ks) = mem_key k ks.
Proof.
  intros Hk Hks. unfold mem_key. apply existsb_map_comm. intros y Hy. apply hk_eqb; [assumption | now apply Hks].
Qed.

Lemma mem_str_hashed a l : In a T -> incl l T -> mem_str (md5 a) (List.map md5 l) = mem_str a l.
Proof.
  intros Ha Hl. unfold mem_str. apply existsb_map_comm. intros y Hy. apply md5_eqb; [assumption | now apply Hl].
Qed.

(** the keys and tag hashes of a store lie in [K] / [T] *)
Definition keys_in (s : db) : Prop :=
  (forall r, In r (d_events s) -> In (r_key r) K) /\
  (forall p, In p (d_payloads s) -> In (p_key p) K) /\
  (forall t, In t (d_tags s) -> In (t_key t) K /\ In (t_hash t) T) /\
  (forall d, In d (d_dkeys s) -> In (fst d) K).

(* ------------------------------------------------------------------ *)
(** * insertion *)

Definition h_upres (u : upres) : upres :=
  match u with UUpdated old => UUpdated (h_erow old) | UInserted => UInserted | UNone => UNone end.

Lemma upsert_hashed rows new :
  (forall r, In r rows -> In (r_key r) K) -> In (r_key new) K ->
  upsert (List.map h_erow rows) (h_erow new) =
  (List.map h_erow (fst (upsert rows new)), h_upres (snd (upsert rows new))).
Proof.
  intros Hr Hn. induction rows as [|r rows IH]; [reflexivity|].
  cbn [List.map upsert]. change (r_key (h_erow r)) with (hk (r_key r)). change (r_key (h_erow new)) with (hk (r_key new)).
  rewrite hk_eqb by (auto; apply Hr; now left).
  change (upsert_guard (h_erow r) (h_erow new)) with (upsert_guard r new).
  destruct (ekey_eqb (r_key r) (r_key new)).
  - destruct (upsert_guard r new); reflexivity.
  - rewrite IH by (intros y Hy; apply Hr; now right).
    destruct (upsert rows new) as [rest' u]. reflexivity.
Qed.

Lemma tag_row_hashed k ts t : tag_row_h md5 (hk k) ts t = List.map h_trow (tag_row k ts t).
Proof.
  unfold tag_row_h, tag_row.
  destruct (g_sql_tag_empty (zlen t)); [reflexivity|]. destruct t as [|n r]; [reflexivity|].
  destruct (g_sql_tag_name_len_bad (zlen n)); [reflexivity|]. destruct n as [|c n']; [reflexivity|].
  destruct (g_sql_tag_name_not_letter (Z.of_N c)); reflexivity.
Qed.

Lemma tag_row_hash_indep k ts k' ts' t : List.map t_hash (tag_row k ts t) = List.map t_hash (tag_row k' ts' t).
Proof.
  unfold tag_row.
  destruct (g_sql_tag_empty (zlen t)); [reflexivity|]. destruct t as [|n r]; [reflexivity|].
  destruct (g_sql_tag_name_len_bad (zlen n)); [reflexivity|]. destruct n as [|c n']; [reflexivity|].
  destruct (g_sql_tag_name_not_letter (Z.of_N c)); reflexivity.
Qed.

Lemma trow_eqb_hashed a b : In (t_key a) K -> In (t_key b) K -> In (t_hash a) T -> In (t_hash b) T ->
  trow_eqb (h_trow a) (h_trow b) = trow_eqb a b.
Proof.
  intros Ka Kb Ta Tb. unfold trow_eqb. cbn [SqlHashed.h_trow t_hash t_ts t_key].
  now rewrite md5_eqb, hk_eqb.
Qed.

Lemma tag_rows_of_hashed k e : In k K ->
  (forall t, In t (flat_map (tag_row k (ev_ts e)) (ev_tags e)) -> In (t_hash t) T) ->
  tag_rows_of_h md5 (hk k) e = List.map h_trow (tag_rows_of k e).
Proof.
  intros Hk HT. unfold tag_rows_of_h, tag_rows_of.
  assert (E : flat_map (tag_row_h md5 (hk k) (ev_ts e)) (ev_tags e)
              = List.map h_trow (flat_map (tag_row k (ev_ts e)) (ev_tags e))).
  { generalize (ev_tags e) as l. induction l as [|t l IH]; [reflexivity|]. cbn [flat_map]. rewrite map_app, tag_row_hashed, IH. reflexivity. }
  rewrite E. change (@nil trow) with (List.map h_trow []) at 1. apply dedup_map.
  intros a b Ha Hb. rewrite app_nil_r in Ha, Hb.
  assert (Key : forall x, In x (flat_map (tag_row k (ev_ts e)) (ev_tags e)) -> t_key x = k).
  { intros x Hx. apply in_flat_map in Hx. destruct Hx as [tg [_ Hx]]. now apply tag_row_key in Hx. }
  apply trow_eqb_hashed; try (rewrite Key by assumption; assumption); now apply HT.
Qed.

Lemma dkey_eqb_hashed a b : In (fst a) K -> In (fst b) K -> dkey_eqb (hkp a) (hkp b) = dkey_eqb a b.
Proof. intros Ha Hb. unfold dkey_eqb, SqlHashed.hkp. cbn [fst snd]. now rewrite hk_eqb. Qed.

Lemma insert_event_hashed seed s k e :
  keys_in s -> In k K -> (forall d, In d (k5_dkeys seed e) -> In (fst d) K) ->
  (forall t, In t (flat_map (tag_row k (ev_ts e)) (ev_tags e)) -> In (t_hash t) T) ->
  insert_event_h xx md5 seed (hash_db s) (hk k, e) =
    (hash_db (fst (insert_event seed s (k, e))), snd (insert_event seed s (k, e))) /\
  keys_in (fst (insert_event seed s (k, e))).
Proof.
  intros [KE [KP [KT KD]]] Hk HD HT.
  unfold insert_event_h, insert_event. cbn [SqlHashed.hash_db d_events d_payloads d_tags d_dkeys d_dids d_seed].
  change (row_of (hk k) e) with (h_erow (row_of k e)).
  rewrite (upsert_hashed (d_events s) (row_of k e) KE Hk).
  pose proof (upsert_sub (d_events s) (row_of k e)) as USub.
  pose proof (upsert_old (d_events s) (row_of k e)) as UOld.
  destruct (upsert (d_events s) (row_of k e)) as [evs u]. cbn [fst snd] in *.
  assert (KE' : forall r, In r evs -> In (r_key r) K).
  { intros r Hr. destruct (USub r Hr) as [H| ->]; [now apply KE | exact Hk]. }
  set (pls := match u with
              | UUpdated old => filter (fun p => negb (ekey_eqb (p_key p) (r_key old))) (d_payloads s)
              | _ => d_payloads s end).
  set (tgs := match u with
              | UUpdated old => filter (fun t => negb (ekey_eqb (t_key t) (r_key old))) (d_tags s)
              | _ => d_tags s end).
  assert (Epls : match h_upres u with
                 | UUpdated old => filter (fun p => negb (ekey_eqb (p_key p) (r_key old))) (List.map h_prow (d_payloads s))
                 | _ => List.map h_prow (d_payloads s) end = List.map h_prow pls).
  { unfold pls. destruct u as [|old|]; cbn [h_upres]; try reflexivity.
    apply filter_map_comm. intros p Hp. change (p_key (h_prow p)) with (hk (p_key p)).
    change (r_key (h_erow old)) with (hk (r_key old)). rewrite hk_eqb; [reflexivity | now apply KP | apply KE; now apply UOld]. }
  assert (Etgs : match h_upres u with
                 | UUpdated old => filter (fun t => negb (ekey_eqb (t_key t) (r_key old))) (List.map h_trow (d_tags s))
                 | _ => List.map h_trow (d_tags s) end = List.map h_trow tgs).
  { unfold tgs. destruct u as [|old|]; cbn [h_upres]; try reflexivity.
    apply filter_map_comm. intros t Ht. change (t_key (h_trow t)) with (hk (t_key t)).
    change (r_key (h_erow old)) with (hk (r_key old)). rewrite hk_eqb; [reflexivity | now apply KT | apply KE; now apply UOld]. }
  assert (KP' : forall p, In p pls -> In (p_key p) K).
  { intros p Hp. apply KP. unfold pls in Hp. destruct u; try assumption. apply filter_In in Hp. tauto. }
  assert (KT' : forall t, In t tgs -> In (t_key t) K /\ In (t_hash t) T).
  { intros t Ht. apply KT. unfold tgs in Ht. destruct u; try assumption. apply filter_In in Ht. tauto. }
  rewrite Epls, Etgs.
  assert (Eaff : match h_upres u with UNone => 0 | _ => 1 end = match u with UNone => 0 | _ => 1 end) by (destruct u; reflexivity).
  rewrite Eaff. destruct (g_sql_unaffected match u with UNone => 0 | _ => 1 end).
  - cbn [fst snd]. split; [reflexivity|]. cbn [d_events d_payloads d_tags d_dkeys]. repeat split; auto; now apply KT'.
  - cbn [fst snd].
    assert (Etr : tag_rows_of_h md5 (hk k) e = List.map h_trow (tag_rows_of k e)) by (now apply tag_rows_of_hashed).
    assert (Edk : fold_left (fun l x => set_add dkey_eqb x l) (k5_dkeys_h xx seed e) (List.map hkp (d_dkeys s))
                  = List.map hkp (fold_left (fun l x => set_add dkey_eqb x l) (k5_dkeys seed e) (d_dkeys s))).
    { unfold k5_dkeys_h. apply (fold_set_add_map hkp dkey_eqb dkey_eqb (fun d => In (fst d) K)); auto.
      intros a b. apply dkey_eqb_hashed. }
    rewrite Etr, Edk. unfold k5_dkeys_h. rewrite !map_length. split.
    + unfold SqlHashed.hash_db. cbn [d_seed d_events d_payloads d_tags d_dkeys d_dids].
      rewrite !map_app. reflexivity.
    + cbn [d_events d_payloads d_tags d_dkeys]. split; [assumption|]. split; [|split].
      * intros p Hp. apply in_app_iff in Hp. destruct Hp as [Hp|[<- |[]]]; [now apply KP' | exact Hk].
      * intros t Ht. apply in_app_iff in Ht. destruct Ht as [Ht|Ht]; [now apply KT'|].
        unfold tag_rows_of in Ht. apply dedup_sub in Ht. split; [|now apply HT].
        apply in_flat_map in Ht. destruct Ht as [tg [_ Ht]]. apply tag_row_key in Ht. destruct Ht as [-> _]. exact Hk.
      * intros d Hd. apply fold_set_add_sub in Hd. destruct Hd as [Hd|Hd]; [now apply KD | now apply HD].
Qed.

(** what a batch may mention: keys in [K], tag strings in [T] *)
Definition event_ok (seed : Z) (e : event) : Prop :=
  (forall k, get_event_key seed e = Some k -> In k K) /\
  (forall d, In d (k5_dkeys seed e) -> In (fst d) K) /\
  (forall tg h, In tg (ev_tags e) -> In h (List.map t_hash (tag_row (KReg 0 0 []) 0 tg)) -> In h T).

Lemma event_ok_tags seed e k ts : event_ok seed e ->
  forall t, In t (flat_map (tag_row k ts) (ev_tags e)) -> In (t_hash t) T.
Proof.
  intros [_ [_ H]] t Ht. apply in_flat_map in Ht. destruct Ht as [tg [Htg Ht]].
  apply (H tg); [assumption|]. rewrite (tag_row_hash_indep _ _ k ts). now apply in_map.
Qed.

Lemma insert_params_key seed e k e' : insert_params seed e = Some (k, e') -> get_event_key seed e = Some k /\ e' = e.
Proof.
  unfold insert_params. destruct (get_event_key seed e) as [k0|]; [|discriminate].
  destruct (hex_ok (ev_id e) &&& hex_ok (ev_pk e) &&& hex_ok (ev_sig e)); [|discriminate].
  intro H. inversion H. auto.
Qed.

Definition hke (ke : ekey * event) : ekey * event := (hk (fst ke), snd ke).

Lemma insert_events_hashed seed ps : forall s n,
  keys_in s -> (forall k e, In (k, e) ps -> In k K /\ event_ok seed e) ->
  fold_left (fun (acc : db * nat) ke =>
               let '(s', n) := insert_event_h xx md5 seed (fst acc) ke in (s', (snd acc + n)%nat))
            (List.map hke ps) (hash_db s, n) =
  (hash_db (fst (fold_left (fun (acc : db * nat) ke =>
               let '(s', n) := insert_event seed (fst acc) ke in (s', (snd acc + n)%nat)) ps (s, n))),
   snd (fold_left (fun (acc : db * nat) ke =>
               let '(s', n) := insert_event seed (fst acc) ke in (s', (snd acc + n)%nat)) ps (s, n))) /\
  keys_in (fst (fold_left (fun (acc : db * nat) ke =>
               let '(s', n) := insert_event seed (fst acc) ke in (s', (snd acc + n)%nat)) ps (s, n))).
Proof.
  induction ps as [|[k e] ps IH]; intros s n KI Hps; [split; [reflexivity | exact KI]|].
  cbn [List.map fold_left fst snd]. change (hke (k, e)) with (hk k, e).
  destruct (Hps k e (or_introl eq_refl)) as [Hk Ok].
  destruct (insert_event_hashed seed s k e KI Hk (proj1 (proj2 Ok)) (event_ok_tags seed e k (ev_ts e) Ok)) as [E KI'].
  rewrite E. destruct (insert_event seed s (k, e)) as [s1 n1]. cbn [fst snd] in *.
  apply IH; [assumption|]. intros k' e' H. apply Hps. now right.
Qed.

Lemma filter_map_params_hashed seed b :
  filter_map (insert_params_h xx seed) b = List.map hke (filter_map (insert_params seed) b).
Proof.
  induction b as [|e b IH]; [reflexivity|].
  cbn [filter_map]. unfold insert_params_h at 1. destruct (insert_params seed e) as [[k e']|]; [|assumption].
  cbn [List.map]. now rewrite IH.
Qed.

Lemma insert_batch_hashed seed s b : keys_in s -> (forall e, In e b -> event_ok seed e) ->
  insert_batch_h xx md5 seed (hash_db s) b = hash_db (insert_batch seed s b) /\ keys_in (insert_batch seed s b).
Proof.
  intros KI Hb. unfold insert_batch_h, insert_batch. rewrite filter_map_params_hashed.
  assert (L : zlen (List.map hke (filter_map (insert_params seed) b)) = zlen (filter_map (insert_params seed) b)).
  { unfold zlen. now rewrite map_length. }
  rewrite L. destruct (g_sql_no_params (zlen (filter_map (insert_params seed) b))); [split; [reflexivity | exact KI]|].
  unfold insert_events_h, insert_events.
  destruct (insert_events_hashed seed (filter_map (insert_params seed) b) s 0%nat KI) as [E KI'].
  { intros k e H. apply filter_map_In in H. destruct H as [e0 [He0 P]].
    apply insert_params_key in P. destruct P as [Gk ->]. specialize (Hb e0 He0). split; [|assumption].
    now apply (proj1 Hb). }
  rewrite E. cbn [fst]. split; [reflexivity | assumption].
Qed.

Lemma keys_in_empty : keys_in empty_db.
Proof. unfold keys_in. cbn. split; [|split; [|split]]; intros x []. Qed.

(** C06 hashed_run: after any batch history whose keys and tag strings do not
    collide, the hashed store is the image of the pre-image store *)
Theorem hashed_run seed h : forall s, keys_in s ->
  (forall e, In e (concat h) -> event_ok seed e) ->
  run_h xx md5 seed (hash_db s) h = hash_db (run seed s h) /\ keys_in (run seed s h).
Proof.
  induction h as [|b h IH]; intros s KI Hh; [split; [reflexivity | exact KI]|].
  cbn [run_h run fold_left]. cbn [concat] in Hh.
  destruct (insert_batch_hashed seed s b KI) as [E KI'].
  { intros e He. apply Hh. apply in_app_iff. now left. }
  rewrite E. apply IH; [assumption|]. intros e He. apply Hh. apply in_app_iff. now right.
Qed.

(* ------------------------------------------------------------------ *)
(** * queries *)

(** the tag strings a filter mentions lie in [T] *)
Definition filter_ok (f : rfilter) : Prop :=
  forall m nv, f_tags f = Some m -> In nv m -> incl (List.map (fun v => fst nv ++ v) (snd nv)) T.

Lemma tomb_free_hashed s r : keys_in s -> In (r_key r) K -> tomb_free (hash_db s) (h_erow r) = tomb_free s r.
Proof.
  intros [_ [_ [_ KD]]] Hr. unfold tomb_free. cbn [SqlHashed.hash_db d_dkeys d_dids].
  change (r_pk (h_erow r)) with (r_pk r). change (r_id (h_erow r)) with (r_id r). change (r_key (h_erow r)) with (hk (r_key r)).
  rewrite (existsb_map_comm hkp _ (fun d => str_eqb (snd d) (r_pk r) &&& ekey_eqb (fst d) (r_key r))); [reflexivity|].
  intros d Hd. unfold SqlHashed.hkp. cbn [fst snd]. rewrite hk_eqb; [reflexivity | now apply KD | assumption].
Qed.

Lemma self_join_count_hashed s r (p : erow -> bool) : keys_in s -> In (r_key r) K ->
  (forall r', p (h_erow r') = p r') ->
  self_join_count (hash_db s) (h_erow r) p = self_join_count s r p.
Proof.
  intros [KE _] Hr Hp. unfold self_join_count. cbn [SqlHashed.hash_db d_events].
  rewrite (filter_map_comm h_erow _ (fun r' => (r_ts r' =? r_ts r) &&& ekey_eqb (r_key r') (r_key r) &&& p r')).
  - apply map_length.
  - intros r' Hr'. change (r_ts (h_erow r')) with (r_ts r'). change (r_ts (h_erow r)) with (r_ts r).
    change (r_key (h_erow r')) with (hk (r_key r')). change (r_key (h_erow r)) with (hk (r_key r)).
    rewrite hk_eqb, Hp; [reflexivity | now apply KE | assumption].
Qed.

Lemma tag_join_count_hashed s r hashes : keys_in s -> In (r_key r) K -> incl hashes T ->
  tag_join_count (hash_db s) (h_erow r) (List.map md5 hashes) = tag_join_count s r hashes.
Proof.
  intros [_ [_ [KT _]]] Hr Hh. unfold tag_join_count. cbn [SqlHashed.hash_db d_tags].
  rewrite (filter_map_comm h_trow _ (fun t => (t_ts t =? r_ts r) &&& ekey_eqb (t_key t) (r_key r) &&& mem_str (t_hash t) hashes)).
  - apply map_length.
  - intros t Ht. destruct (KT t Ht) as [Kt Tt].
    change (t_ts (h_trow t)) with (t_ts t). change (r_ts (h_erow r)) with (r_ts r).
    change (t_key (h_trow t)) with (hk (t_key t)). change (r_key (h_erow r)) with (hk (r_key r)).
    change (t_hash (h_trow t)) with (md5 (t_hash t)).
    rewrite hk_eqb, mem_str_hashed; auto.
Qed.

Lemma sub_mult_hashed s f ids authors r : keys_in s -> In (r_key r) K -> filter_ok f ->
  sub_mult_h md5 (hash_db s) f ids authors (h_erow r) = sub_mult s f ids authors r.
Proof.
  intros KI Hr Fo. unfold sub_mult_h, sub_mult.
  assert (E1 : forall o (g : erow -> list str -> bool), (forall r' l, g (h_erow r') l = g r' l) ->
             opt_count o (fun l => self_join_count (hash_db s) (h_erow r) (fun r' => g r' l)) =
             opt_count o (fun l => self_join_count s r (fun r' => g r' l))).
  { intros o g Hg. destruct o as [l|]; [|reflexivity]. cbn [opt_count].
    apply self_join_count_hashed; auto. }
  rewrite (E1 ids (fun r' l => mem_str (r_id r') l)) by reflexivity.
  rewrite (E1 authors (fun r' l => mem_str (r_pk r') l)) by reflexivity.
  assert (E3 : opt_count (f_kinds f) (fun l => self_join_count (hash_db s) (h_erow r) (fun r' => mem_Z (r_kind r') l)) =
               opt_count (f_kinds f) (fun l => self_join_count s r (fun r' => mem_Z (r_kind r') l))).
  { destruct (f_kinds f) as [l|]; [|reflexivity]. cbn [opt_count]. apply self_join_count_hashed; auto. }
  rewrite E3. f_equal.
  destruct (f_tags f) as [m|] eqn:Ft; [|reflexivity]. cbn [opt_count].
  assert (Hm : forall nv, In nv m -> incl (List.map (fun v => fst nv ++ v) (snd nv)) T) by (intros nv Hnv; now apply (Fo m)).
  clear Ft Fo. induction m as [|nv m IH]; [reflexivity|].
  cbn [fold_right]. rewrite IH by (intros nv' H'; apply Hm; now right). f_equal.
  rewrite <- (map_map (fun v => fst nv ++ v) md5). apply tag_join_count_hashed; auto. apply Hm. now left.
Qed.

Lemma sub_rows_sub s f ids authors r : In r (sub_rows s f ids authors) -> In r (d_events s).
Proof.
  unfold sub_rows. rewrite in_flat_map. intros [r0 [H0 H]].
  destruct (since_ok f (r_ts r0) &&& until_ok f (r_ts r0) &&& tomb_free s r0); [|destruct H].
  apply repeat_spec in H. now subst.
Qed.

Lemma sub_rows_hashed s f ids authors : keys_in s -> filter_ok f ->
  sub_rows_h md5 (hash_db s) f ids authors = List.map h_erow (sub_rows s f ids authors).
Proof.
  intros KI Fo. unfold sub_rows_h, sub_rows. cbn [SqlHashed.hash_db d_events].
  apply flat_map_map_comm. intros r Hr.
  assert (Kr : In (r_key r) K) by (now apply (proj1 KI)).
  change (r_ts (h_erow r)) with (r_ts r). rewrite tomb_free_hashed, sub_mult_hashed by assumption.
  destruct (since_ok f (r_ts r) &&& until_ok f (r_ts r) &&& tomb_free s r); [|reflexivity].
  symmetry. apply map_repeat'.
Qed.

Lemma sub_candidates_hashed s f : keys_in s -> filter_ok f ->
  sub_candidates_h md5 (hash_db s) f = option_map (List.map h_erow) (sub_candidates s f) /\
  (forall rows r, sub_candidates s f = Some rows -> In r rows -> In r (d_events s)).
Proof.
  intros KI Fo. unfold sub_candidates_h, sub_candidates.
  destruct (decode_all (f_ids f)) as [ids|]; [|split; [reflexivity | discriminate]].
  destruct (decode_all (f_authors f)) as [authors|]; [|split; [reflexivity | discriminate]].
  rewrite sub_rows_hashed by assumption. cbn [option_map]. split.
  - destruct (isSome (f_tags f)); [|reflexivity]. f_equal.
    change (@nil erow) with (List.map h_erow []) at 1. apply dedup_map.
    intros a b Ha Hb. rewrite app_nil_r in Ha, Hb. unfold erow_key_eqb.
    change (r_key (h_erow a)) with (hk (r_key a)). change (r_key (h_erow b)) with (hk (r_key b)).
    apply hk_eqb; apply (proj1 KI); eapply sub_rows_sub; eassumption.
  - intros rows r E Hr. inversion E; subst. destruct (isSome (f_tags f)).
    + apply dedup_sub in Hr. eapply sub_rows_sub; eassumption.
    + eapply sub_rows_sub; eassumption.
Qed.

Lemma apply_limit_sub {A} lim (l : list A) x : In x (apply_limit lim l) -> In x l.
Proof.
  destruct lim as [n|]; cbn [apply_limit]; [|auto]. revert n. induction l as [|y l IH]; intro n; cbn [firstnZ]; [auto|].
  destruct (0 <? n); [|intros []]. intros [<- |H]; [now left | right; eauto].
Qed.

Lemma sub_select_hashed s ml f : keys_in s -> filter_ok f ->
  sub_select_h md5 (hash_db s) ml f = option_map (List.map (SqlHashed.hk xx)) (sub_select s ml f) /\
  (forall ks, sub_select s ml f = Some ks -> incl ks K).
Proof.
  intros KI Fo. unfold sub_select_h, sub_select.
  destruct (sub_candidates_hashed s f KI Fo) as [E Sub]. rewrite E.
  destruct (sub_candidates s f) as [rows|]; cbn [option_map]; [|split; [reflexivity | discriminate]]. split.
  - f_equal. rewrite <- (sort_desc_map h_erow r_ts r_ts) by reflexivity.
    rewrite <- apply_limit_map, !map_map. reflexivity.
  - intros ks E' k Hk. inversion E'; subst. apply in_map_iff in Hk. destruct Hk as [r [<- Hr]].
    apply apply_limit_sub in Hr. apply sort_desc_In in Hr. apply (proj1 KI). now apply (Sub rows).
Qed.

Lemma join_payloads_hashed s rows : keys_in s -> (forall r, In r rows -> In (r_key r) K) ->
  join_payloads (hash_db s) (List.map h_erow rows) =
  List.map (fun rp => (h_erow (fst rp), h_prow (snd rp))) (join_payloads s rows).
Proof.
  intros [_ [KP _]] Hr. unfold join_payloads. cbn [SqlHashed.hash_db d_payloads].
  induction rows as [|r rows IH]; [reflexivity|].
  cbn [List.map flat_map]. rewrite map_app, IH by (intros y Hy; apply Hr; now right). f_equal.
  rewrite (filter_map_comm h_prow _ (fun p => ekey_eqb (p_key p) (r_key r))).
  - rewrite !map_map. reflexivity.
  - intros p Hp. change (p_key (h_prow p)) with (hk (p_key p)). change (r_key (h_erow r)) with (hk (r_key r)).
    apply hk_eqb; [now apply KP | apply Hr; now left].
Qed.

(** C06 hashed_query: on the image of a store whose keys and tag strings do
    not collide every query has the answer it has on the store itself *)
Theorem hashed_query s fs ml : keys_in s -> (forall f, In f fs -> filter_ok f) ->
  query_h md5 (hash_db s) fs ml = query s fs ml.
Proof.
  intros KI Hfs. unfold query_h, query.
  assert (E : List.map (sub_select_h md5 (hash_db s) ml) fs =
              List.map (option_map (List.map (SqlHashed.hk xx))) (List.map (sub_select s ml) fs)).
  { rewrite map_map. apply map_ext_in. intros f Hf. now apply sub_select_hashed, Hfs. }
  rewrite E, all_some_map_comm.
  assert (SubK : forall subs, all_some (List.map (sub_select s ml) fs) = Some subs -> forall ks, In ks subs -> incl ks K).
  { clear E. induction fs as [|f fs IH]; intros subs Es ks Hks.
    - inversion Es; subst. destruct Hks.
    - cbn [List.map all_some] in Es. destruct (sub_select s ml f) as [k0|] eqn:Ef; [|discriminate].
      destruct (all_some (List.map (sub_select s ml) fs)) as [rest|] eqn:Er; [|discriminate].
      inversion Es; subst. destruct Hks as [<- |Hks].
      + apply (proj2 (sub_select_hashed s ml f KI (Hfs f (or_introl eq_refl)))). exact Ef.
      + apply (IH (fun f' H' => Hfs f' (or_intror H')) rest eq_refl ks Hks). }
  destruct (all_some (List.map (sub_select s ml) fs)) as [subs|]; cbn [option_map]; [|reflexivity].
  specialize (SubK subs eq_refl). f_equal.
  set (sel := match fs with
              | [] => d_events s
              | _ :: _ => filter (fun r => existsb (mem_key (r_key r)) subs) (d_events s)
              end).
  assert (Esel : match fs with
                 | [] => d_events (hash_db s)
                 | _ :: _ => filter (fun r => existsb (mem_key (r_key r)) (List.map (List.map (SqlHashed.hk xx)) subs))
                                    (d_events (hash_db s))
                 end = List.map h_erow sel).
  { unfold sel. destruct fs as [|f0 fs']; [reflexivity|]. cbn [SqlHashed.hash_db d_events].
    apply filter_map_comm. intros r Hr. change (r_key (h_erow r)) with (hk (r_key r)).
    apply existsb_map_comm. intros ks Hks. apply mem_key_hashed; [now apply (proj1 KI) | now apply SubK]. }
  rewrite Esel.
  assert (SelK : forall r, In r sel -> In (r_key r) K).
  { intros r Hr. apply (proj1 KI). unfold sel in Hr. destruct fs; [assumption|]. apply filter_In in Hr. tauto. }
  rewrite (join_payloads_hashed s sel KI SelK).
  rewrite <- (sort_desc_map (fun rp => (h_erow (fst rp), h_prow (snd rp))) (fun rp => r_ts (fst rp)) (fun rp => r_ts (fst rp)))
    by reflexivity.
  rewrite <- apply_limit_map, map_map. reflexivity.
Qed.

End Refine.

(* ------------------------------------------------------------------ *)
(** * histories without collisions *)

(** C06 hashed_store_refines: if the hash functions do not collide on the
    keys and tag strings a history and a filter list mention ([no_collision]),
    then after the history the store keyed by hash values is the image of the
    store keyed by pre-images, and the query has the same answer on both *)
Theorem hashed_store_refines (xx : Z -> str -> Z) (md5 : str -> str) seed (h : list (list event)) fs maxLimit :
  no_collision xx md5 seed (concat h) fs ->
  run_h xx md5 seed empty_db h = hash_db xx md5 (run seed empty_db h) /\
  query_h md5 (run_h xx md5 seed empty_db h) fs maxLimit = query (run seed empty_db h) fs maxLimit.
Proof.
  intros [Kinj Tinj].
  set (K := history_keys seed (concat h)) in *. set (T := history_tag_strings (concat h) fs) in *.
  assert (Ev : forall e, In e (concat h) -> event_ok K T seed e).
  { intros e He. split; [|split].
    - intros k Gk. unfold K, history_keys. apply in_flat_map. exists e. split; [assumption|].
      rewrite Gk. apply in_app_iff. left. now left.
    - intros d Hd. unfold K, history_keys. apply in_flat_map. exists e. split; [assumption|].
      apply in_app_iff. right. now apply in_map.
    - intros tg hs Htg Hhs. unfold T, history_tag_strings. apply in_app_iff. left.
      apply in_flat_map. exists e. split; [assumption|]. apply in_flat_map. exists tg. auto. }
  assert (Fo : forall f, In f fs -> filter_ok T f).
  { intros f Hf m nv Ft Hnv x Hx. unfold T, history_tag_strings. apply in_app_iff. right.
    apply in_flat_map. exists f. split; [assumption|]. rewrite Ft. apply in_flat_map. exists nv. auto. }
  destruct (hashed_run xx md5 K Kinj T Tinj seed h empty_db (keys_in_empty K T) Ev) as [E KI].
  change (hash_db xx md5 empty_db) with empty_db in E.
  split; [exact E|]. rewrite E. now apply (hashed_query xx md5 K Kinj T Tinj).
Qed.
