(* MergeOracleProofs.v — C08: the boolean oracle of Merge.v (the property
   text as a judgement of an observed history, used by the correspondence
   check to judge the implementation) accepts what the model does on EVERY
   gated history.  So the oracle is never stricter than the theorems, and a
   run on which the model reproduces the implementation's observation is a
   run the oracle accepts. *)
From Moc Require Import Base Match MatchProofs Merge MergeProofs.
Open Scope Z_scope.

(** the history as the harness would record it if the implementation were
    the model *)
Definition obs_of (s : state) (t : list input) : otrace :=
  combine t (List.map out_list (outs s t)).

Lemma obs_of_cons s x t :
  obs_of s (x :: t) = (x, out_list (snd (merge_step s x))) :: obs_of (fst (merge_step s x)) t.
Proof. unfold obs_of, outs. rewrite exec_cons. reflexivity. Qed.

(* ------------------------------------------------------------------ *)
(** * Reflexivity of the message comparison *)

Lemma event_eqb_refl e : event_eqb e e = true.
Proof. now apply event_eqb_eq. Qed.

Lemma smsg_eqb_refl m : smsg_eqb m m = true.
Proof.
  destruct m as [s|s e|[i a p t]|[s c [b|]]|t|s p t]; cbn; unfold okm_eqb, cntm_eqb; cbn;
    rewrite ?str_eqb_refl, ?event_eqb_refl, ?Bool.eqb_reflx, ?Z.eqb_refl; reflexivity.
Qed.

(* ------------------------------------------------------------------ *)
(** * The oracle's memory against the model's state *)

Definition ans_vec (n : nat) (ans : list nat) : list bool :=
  List.map (fun i => existsb (Nat.eqb i) ans) (seq 0 n).

Definition rel1 (n : nat) (op : sub_phase) (wp : wphase) : Prop :=
  match op, wp with
  | PhOpen fs ans fwd, WOpen eo la se ms =>
      eo = ans_vec n ans /\ all_true eo = false /\ pre_inv fs la se ms fwd
  | PhDone, WClosed => True
  | PhClosed, WClosed => True
  | _, _ => False
  end.

Definition rel (n : nat) (s : state) (ph : list (str * sub_phase)) : Prop :=
  forall sub, rel1 n (phase_of sub ph) (rs_phase (st_rs s) sub).

Lemma phase_of_set_same sub p ph : phase_of sub (m_set sub p ph) = p.
Proof. unfold phase_of. now rewrite assoc_m_set_same. Qed.

Lemma phase_of_set_other sub k p ph : sub <> k -> phase_of k (m_set sub p ph) = phase_of k ph.
Proof. intro N. unfold phase_of. now rewrite assoc_m_set_other. Qed.

(** the model changed only [sub] (to phase [wp]); the oracle rebinds [sub] *)
Lemma rel_upd n s s' ph sub p wp :
  rel n s ph -> rs_upd (st_rs s) (st_rs s') sub wp -> rel1 n p wp -> rel n s' (m_set sub p ph).
Proof.
  intros H U Hp k. destruct (str_dec sub k) as [<-|N].
  - rewrite phase_of_set_same, (rs_upd_same _ _ _ _ U). exact Hp.
  - rewrite (phase_of_set_other _ _ _ _ N), (rs_upd_other _ _ _ _ _ U N). apply H.
Qed.

(** ... or keeps its binding *)
Lemma rel_upd_same n s s' ph sub wp :
  rel n s ph -> rs_upd (st_rs s) (st_rs s') sub wp -> rel1 n (phase_of sub ph) wp -> rel n s' ph.
Proof.
  intros H U Hp k. destruct (str_dec sub k) as [<-|N].
  - rewrite (rs_upd_same _ _ _ _ U). exact Hp.
  - rewrite (rs_upd_other _ _ _ _ _ U N). apply H.
Qed.

Lemma rel_same_rs n s s' ph : rel n s ph -> st_rs s' = st_rs s -> rel n s' ph.
Proof. intros H E k. rewrite E. apply H. Qed.

Lemma ans_vec_nil n : ans_vec n [] = repeat false n.
Proof.
  unfold ans_vec. cbn [existsb]. generalize 0%nat.
  induction n as [|n IH]; intro a; cbn; [reflexivity | now rewrite IH].
Qed.

Lemma ans_vec_length n ans : length (ans_vec n ans) = n.
Proof. unfold ans_vec. now rewrite map_length, seq_length. Qed.

Lemma ans_vec_upd n ans i : (i < n)%nat -> upd_nth i true (ans_vec n ans) = Some (ans_vec n (i :: ans)).
Proof.
  intro Hi. unfold ans_vec. rewrite upd_nth_map_seq by assumption. reflexivity.
Qed.

Lemma all_true_ans_vec n ans : all_true (ans_vec n ans) = covers n ans.
Proof. unfold all_true, ans_vec, covers. apply forallb_map_seq. Qed.

Lemma all_true_repeat_false n : (1 <= n)%nat -> all_true (repeat false n) = false.
Proof. intro H. destruct n; [lia | reflexivity]. Qed.

Lemma rs_upd_set_sub n r sub fs :
  rs_size r = n -> rs_upd r (rs_set_sub r sub fs) sub (ph0 n fs).
Proof.
  intro Hn. split; [reflexivity|]. split; [|split].
  - intros k N. rewrite rs_view_set_sub. apply str_dec_neq. congruence.
  - rewrite rs_view_set_sub, str_dec_refl. exact I.
  - unfold rs_phase. rewrite rs_view_set_sub, str_dec_refl, Hn. reflexivity.
Qed.

(* ------------------------------------------------------------------ *)
(** * An event the model forwards in an open window passes the oracle's test *)

Lemma ts_noninc_last l e : ts_noninc (l ++ [e]) -> forall p, In p l -> ev_ts e <= ev_ts p.
Proof.
  induction l as [|a l IH]; cbn; intros H p Hp; [destruct Hp|].
  destruct H as [H1 H2]. destruct Hp as [<-|Hp].
  - apply H1. apply in_or_app. right. now left.
  - now apply IH.
Qed.

Lemma pre_inv_snoc_ok fs la se ms fwd e :
  pre_inv fs la se ms (fwd ++ [e]) -> pre_eose_ok fs fwd e = true.
Proof.
  intros [Hf [Hm [Hnd [Hts [_ Hlim]]]]]. unfold pre_eose_ok.
  apply andb_true_iff. split; [apply andb_true_iff; split; [apply andb_true_iff; split|]|].
  - apply Forall_app in Hm as [_ Hm]. now inversion Hm.
  - apply negb_true_iff. destruct (existsb _ fwd) eqn:Ex; [|reflexivity]. exfalso.
    apply existsb_exists in Ex as [p [Hp E]]. apply andb_true_iff in E as [E1 E2].
    apply Z.eqb_eq in E1. apply str_eqb_eq in E2.
    rewrite map_app in Hnd. cbn [List.map] in Hnd. apply NoDup_remove_2 in Hnd. apply Hnd.
    rewrite app_nil_r. apply in_map_iff. exists p. split; [|assumption]. unfold ev_key. now rewrite E1, E2.
  - apply forallb_forall. intros p Hp. apply Z.leb_le. now apply (ts_noninc_last fwd e Hts).
  - destruct (single_limit fs) as [l|] eqn:El; [|reflexivity].
    unfold single_limit in El. destruct fs as [|f [|f2 fs2]]; try discriminate.
    destruct ms as [|m [|m2 ms2]]; cbn in Hf; try discriminate.
    assert (Em : lm_f m = f) by now inversion Hf.
    destruct (Hlim m eq_refl) as [_ H2]. specialize (H2 l). rewrite Em in H2. specialize (H2 El).
    rewrite app_length in H2. cbn [length] in H2. apply Z.leb_le. lia.
Qed.

(* ------------------------------------------------------------------ *)
(** * One step *)

Lemma list_eqb_single m : list_eqb smsg_eqb [m] [m] = true.
Proof. cbn. now rewrite smsg_eqb_refl. Qed.

Lemma oracle_step n s ph x :
  (1 <= n)%nat -> state_ok n s -> rel n s ph -> input_ok n x ->
  exists ph',
    (forall t', c08_scan n ((x, out_list (snd (merge_step s x))) :: t') ph = c08_scan n t' ph') /\
    rel n (fst (merge_step s x)) ph'.
Proof.
  intros Hn Hs Hrel Hx. pose proof Hs as [Hd [Hr [Ho Hc]]].
  unfold merge_step. rewrite Hd.
  destruct x as [sub fs|sub|id|sub|i m]; cbn [fst snd out_list].
  - (* REQ *)
    exists (m_set sub (PhOpen fs [] []) ph). split; [intro t'; reflexivity|].
    apply (rel_upd n s _ ph sub _ (ph0 n fs)); [assumption | apply rs_upd_set_sub; apply Hr|].
    cbn. split; [symmetry; apply ans_vec_nil|]. split; [now apply all_true_repeat_false | apply pre_inv_init].
  - (* CLOSE *)
    exists (m_set sub PhClosed ph). split; [intro t'; reflexivity|].
    apply (rel_upd n s _ ph sub _ WClosed); [assumption | apply rs_upd_clear | exact I].
  - exists ph. split; [intro t'; reflexivity | now apply (rel_same_rs n s)].
  - exists ph. split; [intro t'; reflexivity | now apply (rel_same_rs n s)].
  - destruct m as [sub|sub e|m|c|t|sub p t]; cbn [input_ok] in Hx.
    + (* EOSE of child i *)
      destruct (send_eose_spec n s i sub Hr Hx) as [r' [E U]]. rewrite E. cbn [fst snd].
      pose proof (Hrel sub) as R. cbn [c08_scan].
      destruct (phase_of sub ph) as [fs ans fwd| |] eqn:Ep;
        destruct (rs_phase (st_rs s) sub) as [eo la se ms|] eqn:Ew; cbn [rel1] in R; try contradiction.
      * destruct R as [Eeo [Hat Hinv]]. subst eo. cbn [w_eose] in *. rewrite Hat in *.
        rewrite (ans_vec_upd n ans i Hx) in *. rewrite all_true_ans_vec in *.
        destruct (covers n (i :: ans)) eqn:Ec; cbn [fst snd out_list] in *.
        -- exists (m_set sub PhDone ph). split; [intro t'; now rewrite list_eqb_single|].
           apply (rel_upd n s (with_rs s r') ph sub PhDone WClosed); [assumption | exact U | exact I].
        -- exists (m_set sub (PhOpen fs (i :: ans) fwd) ph). split; [intro t'; reflexivity|].
           apply (rel_upd n s (with_rs s r') ph sub _ _ Hrel U). cbn. split; [reflexivity|].
           split; [now rewrite all_true_ans_vec | assumption].
      * cbn [w_eose fst snd out_list] in *. exists ph. split; [intro t'; reflexivity|].
        apply (rel_upd_same n s (with_rs s r') ph sub WClosed Hrel U). now rewrite Ep.
      * cbn [w_eose fst snd out_list] in *. exists ph. split; [intro t'; reflexivity|].
        apply (rel_upd_same n s (with_rs s r') ph sub WClosed Hrel U). now rewrite Ep.
    + (* EVENT of child i *)
      destruct Hx as [Hi Hne].
      destruct (send_event_spec n s i sub e Hr Hi Hne) as [r' [E U]]. rewrite E. cbn [fst snd].
      pose proof (Hrel sub) as R. cbn [c08_scan].
      destruct (phase_of sub ph) as [fs ans fwd| |] eqn:Ep;
        destruct (rs_phase (st_rs s) sub) as [eo la se ms|] eqn:Ew; cbn [rel1] in R; try contradiction.
      * destruct R as [Eeo [Hat Hinv]].
        assert (Hnth : nth_error eo i <> None).
        { intro En. apply nth_error_None in En. rewrite Eeo, ans_vec_length in En. lia. }
        destruct (w_event_pre fs eo la se ms fwd i e Hat Hnth Hinv) as [la' [se' [ms' [E' Hinv']]]].
        rewrite E' in U.
        destruct (snd (w_event (WOpen eo la se ms) i e)); cbn [out_list].
        -- exists (m_set sub (PhOpen fs ans (fwd ++ [e])) ph). split.
           ++ intro t'. now rewrite smsg_eqb_refl, (pre_inv_snoc_ok _ _ _ _ _ _ Hinv').
           ++ apply (rel_upd n s (with_rs s r') ph sub _ _ Hrel U). cbn. auto.
        -- exists ph. split; [intro t'; reflexivity|].
           apply (rel_upd_same n s (with_rs s r') ph sub _ Hrel U). rewrite Ep. cbn. auto.
      * cbn [w_event fst snd out_list] in *. exists ph. split; [intro t'; now rewrite list_eqb_single|].
        apply (rel_upd_same n s (with_rs s r') ph sub WClosed Hrel U). now rewrite Ep.
      * cbn [w_event fst snd out_list] in *. exists ph. split; [intro t'; now rewrite smsg_eqb_refl|].
        apply (rel_upd_same n s (with_rs s r') ph sub WClosed Hrel U). now rewrite Ep.
    + (* OK *)
      destruct (send_ok_spec n s i m Ho Hx) as [o' [E _]]. rewrite E. cbn [fst snd].
      exists ph. split; [|now apply (rel_same_rs n s)].
      intro t'. cbn [c08_scan]. unfold out_ok. destruct (snd (w_put _ i m)); [|reflexivity].
      destruct (ok_merge _); reflexivity.
    + (* COUNT *)
      destruct (send_count_spec n s i c Hc Hx) as [c' [E _]]. rewrite E. cbn [fst snd].
      exists ph. split; [|now apply (rel_same_rs n s)].
      intro t'. cbn [c08_scan]. unfold out_cnt. destruct (snd (w_put _ i c)); [|reflexivity].
      destruct (cnt_merge _); reflexivity.
    + exists ph. split; [intro t'; cbn [c08_scan out_list snd]; now rewrite list_eqb_single | assumption].
    + exists ph. split; [intro t'; cbn [c08_scan out_list snd]; now rewrite list_eqb_single | assumption].
Qed.

(* ------------------------------------------------------------------ *)
(** * Every history *)

Lemma oracle_run n t : forall s ph,
  (1 <= n)%nat -> state_ok n s -> rel n s ph -> trace_ok n t -> c08_scan n (obs_of s t) ph = true.
Proof.
  induction t as [|x t IH]; intros s ph Hn Hs Hrel Ht; [reflexivity|].
  inversion Ht as [|? ? Hx Ht']; subst. rewrite obs_of_cons.
  destruct (oracle_step n s ph x Hn Hs Hrel Hx) as [ph' [Esc Hrel']]. rewrite Esc.
  apply IH; [assumption | now apply step_ok | assumption | assumption].
Qed.

Lemma rel_init n : rel n (init n) [].
Proof. intro sub. cbn. exact I. Qed.

(** the C08 oracle accepts the model's behaviour on every gated history *)
Theorem model_satisfies_c08_oracle n t :
  (1 <= n)%nat -> trace_ok n t -> c08_oracle n (obs_of (init n) t) = true.
Proof. intros Hn Ht. apply oracle_run; auto using init_ok, rel_init. Qed.

(** hence: an observation the model reproduces is an observation the oracle
    accepts (the two halves of the correspondence check are coherent) *)
Lemma list_eqb_smsg_eq a b : list_eqb smsg_eqb a b = true -> a = b.
Proof.
  assert (E : forall x y, smsg_eqb x y = true <-> x = y).
  { intros x y. split; [|intros ->; apply smsg_eqb_refl].
    destruct x as [s|s e|[i a0 p t]|[s c ap]|t|s p t]; destruct y as [s'|s' e'|[i' a' p' t']|[s' c' ap']|t'|s' p' t'];
      cbn; try discriminate; rewrite ?andb_true_iff, ?str_eqb_eq, ?event_eqb_eq.
    - now intros ->.
    - now intros [-> ->].
    - unfold okm_eqb. cbn. rewrite !andb_true_iff, !str_eqb_eq, Bool.eqb_true_iff. now intros [[[-> ->] ->] ->].
    - unfold cntm_eqb. cbn. rewrite !andb_true_iff, str_eqb_eq, Z.eqb_eq. intros [[-> ->] H].
      destruct ap as [[]|], ap' as [[]|]; cbn in H; try discriminate; reflexivity.
    - now intros ->.
    - now intros [[-> ->] ->]. }
  apply (list_eqb_eq smsg_eqb E).
Qed.

Lemma model_agrees_obs t : forall s, model_agrees s t = true -> t = obs_of s (List.map fst t).
Proof.
  induction t as [|[x obs] t IH]; intros s H; [reflexivity|].
  cbn [model_agrees] in H. destruct (merge_step s x) as [s1 o] eqn:E.
  apply andb_true_iff in H as [H H3]. apply andb_true_iff in H as [_ H2].
  cbn [List.map fst]. rewrite obs_of_cons, E. cbn [fst snd].
  apply list_eqb_smsg_eq in H2. rewrite H2. f_equal. now apply IH.
Qed.

Theorem agreement_implies_c08_oracle n t :
  (1 <= n)%nat -> trace_ok n (List.map fst t) -> model_agrees (init n) t = true -> c08_oracle n t = true.
Proof.
  intros Hn Ht Ha. rewrite (model_agrees_obs t (init n) Ha). now apply model_satisfies_c08_oracle.
Qed.

(* ================================================================== *)
(** * C09: the oracle [c09_oracle] accepts what the model does on every
      gated history that keeps the discipline [c09_disciplined] (no two
      requests with one id in flight, a child answers a request in flight
      at most once). *)

(** the slot vector the code holds for a request with replies [rs] *)
Definition slot_vec {A} (n : nat) (rs : list (nat * A)) : list (option A) :=
  List.map (fun i => option_map snd (find (fun p => Nat.eqb (fst p) i) rs)) (seq 0 n).

Lemma slot_vec_nil {A} n : @slot_vec A n [] = repeat None n.
Proof.
  unfold slot_vec. cbn [find option_map]. generalize 0%nat.
  induction n as [|n IH]; intro a; cbn; [reflexivity | now rewrite IH].
Qed.

Lemma slot_vec_length {A} n (rs : list (nat * A)) : length (slot_vec n rs) = n.
Proof. unfold slot_vec. now rewrite map_length, seq_length. Qed.

Lemma slot_vec_upd {A} n i (a : A) rs :
  (i < n)%nat -> upd_nth i (Some a) (slot_vec n rs) = Some (slot_vec n ((i, a) :: rs)).
Proof.
  intro Hi. unfold slot_vec. rewrite upd_nth_map_seq by assumption. f_equal.
  apply map_ext. intro j. cbn [find fst Nat.add]. rewrite (Nat.eqb_sym i j).
  destruct (Nat.eqb j i); reflexivity.
Qed.

Lemma has_child_find {A} i (rs : list (nat * A)) :
  has_child i rs = negb (isNone (find (fun p => Nat.eqb (fst p) i) rs)).
Proof.
  unfold has_child. induction rs as [|p rs IH]; cbn; [reflexivity|].
  destruct (Nat.eqb (fst p) i); cbn; [reflexivity | exact IH].
Qed.

Lemma slot_vec_holes {A} n (rs : list (nat * A)) : existsb isNone (slot_vec n rs) = negb (complete n rs).
Proof.
  unfold slot_vec, complete. generalize 0%nat.
  induction n as [|n IH]; intro a; cbn [seq List.map existsb forallb]; [reflexivity|].
  rewrite IH, has_child_find, negb_andb.
  destruct (find _ rs); reflexivity.
Qed.

Lemma slot_vec_full {A} n (rs : list (nat * A)) :
  complete n rs = true -> slot_vec n rs = List.map Some (in_child_order n rs).
Proof.
  unfold slot_vec, complete, in_child_order. generalize 0%nat.
  induction n as [|n IH]; intro a; cbn [seq List.map forallb flat_map]; [reflexivity|].
  intro H. apply andb_true_iff in H as [H1 H2]. rewrite has_child_find in H1.
  destruct (find _ rs) as [p|]; [|discriminate]. cbn [option_map app List.map]. f_equal. now apply IH.
Qed.

Lemma in_child_order_In {A} n (rs : list (nat * A)) a : In a (in_child_order n rs) -> exists i, In (i, a) rs.
Proof.
  unfold in_child_order. intro H. apply in_flat_map in H as [i [_ H]].
  destruct (find _ rs) as [p|] eqn:Ef; [|destruct H]. destruct H as [<-|[]].
  apply find_some in Ef as [Hin _]. exists (fst p). now destruct p.
Qed.

(** [w_put] on the vector of an incomplete request is the oracle's [attribute] *)
Lemma w_put_slot_vec {A} n i (a : A) rs :
  (i < n)%nat ->
  w_put (Some (slot_vec n rs)) i a =
  if complete n ((i, a) :: rs)
  then (None, Some (List.map Some (in_child_order n ((i, a) :: rs))))
  else (Some (slot_vec n ((i, a) :: rs)), None).
Proof.
  intro Hi. unfold w_put. rewrite (slot_vec_upd n i a rs Hi).
  destruct (slot_vec n rs) as [|x l] eqn:E.
  { exfalso. pose proof (slot_vec_length n rs) as L. rewrite E in L. cbn in L. lia. }
  rewrite slot_vec_holes. destruct (complete n ((i, a) :: rs)) eqn:Ec; cbn [negb]; [|reflexivity].
  now rewrite (slot_vec_full _ _ Ec).
Qed.

(** the text's verdict, as the oracle's boolean *)
Lemma is_prefix_app p q : is_prefix p (p ++ q) = true.
Proof. induction p as [|x p IH]; cbn; [reflexivity | now rewrite N.eqb_refl]. Qed.

Lemma find_first_rejecting before c after :
  (forall b, In b before -> ok_acc b = true) -> ok_acc c = false ->
  find (fun r => negb (ok_acc r)) (before ++ c :: after) = Some c.
Proof.
  intros Hb Hc. induction before as [|b before IH]; cbn.
  - now rewrite Hc.
  - rewrite (Hb b (or_introl eq_refl)). cbn. apply IH. intros x Hx. apply Hb. now right.
Qed.

Lemma ok_verdict_spec_b id xs r : ok_verdict_spec id xs r -> ok_out_ok id xs r = true.
Proof.
  intros [Hid [Hacc Hrej]]. unfold ok_out_ok. rewrite Hid, str_eqb_refl. cbn [andb].
  destruct (ok_acc r) eqn:Ea.
  - assert (Hall : forallb ok_acc xs = true) by (apply forallb_forall; now apply Hacc).
    rewrite Hall. cbn.
    destruct (find _ xs) as [c|] eqn:Ef; [|reflexivity]. apply find_some in Ef as [Hin Hc].
    rewrite (proj1 Hacc eq_refl c Hin) in Hc. discriminate.
  - destruct (Hrej eq_refl) as [before [c [after [rest [Exs [Hb [Hc Hm]]]]]]].
    assert (Hall : forallb ok_acc xs = false).
    { destruct (forallb ok_acc xs) eqn:E; [|reflexivity]. rewrite forallb_forall in E.
      rewrite <- Hc. symmetry. apply E. rewrite Exs. apply in_or_app. right. now left. }
    rewrite Hall. cbn. rewrite Exs, (find_first_rejecting _ _ _ Hb Hc), Hm. apply is_prefix_app.
Qed.

Lemma count_max_spec_b sub xs r : count_max_spec sub xs r -> cnt_out_ok sub xs r = true.
Proof.
  intros [Hs [Hin Hmax]]. unfold cnt_out_ok. rewrite Hs, str_eqb_refl. cbn [andb].
  apply andb_true_iff. split.
  - apply forallb_forall. intros x Hx. apply Z.leb_le. now apply Hmax.
  - apply existsb_exists. exists r. split; [assumption | apply Z.eqb_refl].
Qed.

(** the oracle's memory and the discipline's memory against the slot table *)
Definition rel9 {A} (key : A -> str) (n : nat) (fl : flight A) (pd : pending A)
  (m : list (str * list (option A))) : Prop :=
  forall k,
    match assoc k fl with
    | None => vlist (assoc k pd) = [] /\ assoc k m = None
    | Some rs => vlist (assoc k pd) = [rs] /\ assoc k m = Some (slot_vec n rs) /\
                 complete n rs = false /\ forall p, In p rs -> key (snd p) = k
    end.

Lemma rel9_init {A} (key : A -> str) n : rel9 key n [] [] [].
Proof. intro k. cbn. auto. Qed.

Lemma complete_nil {A} n : (1 <= n)%nat -> @complete A n [] = false.
Proof. intro H. destruct n; [lia | reflexivity]. Qed.

(** a new request (the id is not in flight) *)
Lemma rel9_request {A} (key : A -> str) n fl pd m m' id :
  (1 <= n)%nat -> rel9 key n fl pd m -> assoc id fl = None ->
  assoc id m' = Some (repeat None n) -> (forall k, k <> id -> assoc k m' = assoc k m) ->
  rel9 key n (m_set id [] fl) (m_set id (vlist (assoc id pd) ++ [[]]) pd) m'.
Proof.
  intros Hn R Ef Em Hoth k. destruct (str_dec id k) as [<-|N].
  - rewrite !assoc_m_set_same. pose proof (R id) as Rk. rewrite Ef in Rk. destruct Rk as [Rq _].
    rewrite Rq. cbn [vlist app]. rewrite Em, slot_vec_nil.
    split; [reflexivity|]. split; [reflexivity|]. split; [now apply complete_nil | intros p []].
  - rewrite !assoc_m_set_other by assumption. rewrite (Hoth k) by congruence. apply R.
Qed.

(** one reply: what the oracle's [attribute] says, given what [w_put] did *)
Lemma rel9_reply {A} (key : A -> str) n fl fl' pd m m' i (a : A) :
  (1 <= n)%nat -> (i < n)%nat -> rel9 key n fl pd m ->
  disc_reply n i (key a) a fl = Some fl' ->
  assoc (key a) m' = fst (w_put (assoc (key a) m) i a) ->
  (forall k, k <> key a -> assoc k m' = assoc k m) ->
  match attribute n i a (vlist (assoc (key a) pd)) with
  | None => snd (w_put (assoc (key a) m) i a) = None /\ rel9 key n fl' pd m'
  | Some (q', Some hit) =>
      snd (w_put (assoc (key a) m) i a) = Some (List.map Some (in_child_order n hit)) /\
      (forall b, In b (in_child_order n hit) -> key b = key a) /\
      rel9 key n fl' (m_set (key a) q' pd) m'
  | Some (q', None) => snd (w_put (assoc (key a) m) i a) = None /\ rel9 key n fl' (m_set (key a) q' pd) m'
  end.
Proof.
  intros Hn Hi R D Em Hoth. unfold disc_reply in D. pose proof (R (key a)) as Rk.
  destruct (assoc (key a) fl) as [rs|] eqn:Ef.
  - destruct Rk as [Rq [Rm [Rc Rkey]]]. rewrite Rq, Rm in *. cbn [attribute].
    destruct (has_child i rs) eqn:Eh; [discriminate|].
    rewrite (w_put_slot_vec n i a rs Hi) in *.
    assert (Hkey' : forall p, In p ((i, a) :: rs) -> key (snd p) = key a).
    { intros p [<-|Hp]; [reflexivity | now apply Rkey]. }
    destruct (complete n ((i, a) :: rs)) eqn:Ec; cbn [fst snd] in *; inversion D; subst fl'; clear D.
    + split; [reflexivity|]. split.
      * intros b Hb. apply in_child_order_In in Hb as [j Hj]. apply (Hkey' (j, b) Hj).
      * intro k. destruct (str_dec (key a) k) as [<-|N].
        -- rewrite assoc_m_del_same, assoc_m_set_same, Em. cbn. auto.
        -- rewrite assoc_m_del_other, assoc_m_set_other by assumption. rewrite (Hoth k) by congruence. apply R.
    + split; [reflexivity|]. intro k. destruct (str_dec (key a) k) as [<-|N].
      * rewrite !assoc_m_set_same, Em. cbn [vlist]. auto.
      * rewrite !assoc_m_set_other by assumption. rewrite (Hoth k) by congruence. apply R.
  - destruct Rk as [Rq Rm]. rewrite Rq, Rm in *. cbn [attribute w_put fst snd] in *.
    inversion D; subst fl'. split; [reflexivity|].
    intro k. destruct (str_dec (key a) k) as [<-|N].
    + rewrite Ef, Em. auto.
    + rewrite (Hoth k) by congruence. apply R.
Qed.

Lemma rel9_same {A} (key : A -> str) n fl pd m m' :
  rel9 key n fl pd m -> m' = m -> rel9 key n fl pd m'.
Proof. now intros R ->. Qed.

Lemma c09_step n s x fe fc pe pc t' :
  (1 <= n)%nat -> state_ok n s -> input_ok n x ->
  rel9 ok_id n fe pe (os_s (st_os s)) -> rel9 c_sub n fc pc (cs_counts (st_cs s)) ->
  c09_disc n (x :: t') fe fc = true ->
  exists fe' fc' pe' pc',
    c09_disc n t' fe' fc' = true /\
    (forall o, c09_scan n ((x, out_list (snd (merge_step s x))) :: o) pe pc = c09_scan n o pe' pc') /\
    rel9 ok_id n fe' pe' (os_s (st_os (fst (merge_step s x)))) /\
    rel9 c_sub n fc' pc' (cs_counts (st_cs (fst (merge_step s x)))).
Proof.
  intros Hn Hs Hx Re Rc D. pose proof Hs as [Hd [Hr [Ho Hc]]].
  unfold merge_step. rewrite Hd.
  destruct x as [sub fs|sub|id|sub|i m]; cbn [fst snd out_list c09_disc] in *.
  - exists fe, fc, pe, pc. repeat split; auto.
  - exists fe, fc, pe, pc. repeat split; auto.
  - (* EVENT *)
    destruct (assoc id fe) as [rs|] eqn:Ef; [discriminate|].
    exists (m_set id [] fe), fc, (m_set id (vlist (assoc id pe) ++ [[]]) pe), pc.
    split; [exact D|]. split; [intro o; reflexivity|]. split; [|exact Rc].
    cbn [with_os st_os]. pose proof (Re id) as Rk. rewrite Ef in Rk. destruct Rk as [_ Rm].
    unfold os_try_set. rewrite Rm. cbn [vlist zlen length Z.of_nat h_ok_has_slot Z.gtb Z.compare].
    cbn [os_s]. destruct Ho as [Hsz _]. rewrite Hsz.
    apply (rel9_request ok_id n fe pe (os_s (st_os s))); auto.
    + apply assoc_m_set_same.
    + intros k N. apply assoc_m_set_other. congruence.
  - (* COUNT *)
    destruct (assoc sub fc) as [rs|] eqn:Ef; [discriminate|].
    exists fe, (m_set sub [] fc), pe, (m_set sub (vlist (assoc sub pc) ++ [[]]) pc).
    split; [exact D|]. split; [intro o; reflexivity|]. split; [exact Re|].
    cbn [with_cs st_cs cs_set_sub cs_counts]. destruct Hc as [Hsz _]. rewrite Hsz.
    apply (rel9_request c_sub n fc pc (cs_counts (st_cs s))); auto.
    + apply assoc_m_set_same.
    + intros k N. apply assoc_m_set_other. congruence.
  - destruct m as [sub|sub e|m|c|t|sub p t]; cbn [input_ok] in Hx.
    + destruct (send_eose_spec n s i sub Hr Hx) as [r' [E _]]. rewrite E. cbn [fst snd with_rs st_os st_cs].
      exists fe, fc, pe, pc. repeat split; auto. intro o. cbn [c09_scan].
      destruct (snd (w_eose _ i)); reflexivity.
    + destruct Hx as [Hi Hne].
      destruct (send_event_spec n s i sub e Hr Hi Hne) as [r' [E _]]. rewrite E. cbn [fst snd with_rs st_os st_cs].
      exists fe, fc, pe, pc. repeat split; auto. intro o. cbn [c09_scan].
      destruct (snd (w_event _ i e)); reflexivity.
    + (* OK *)
      destruct (disc_reply n i (ok_id m) m fe) as [fe'|] eqn:Ed; [|discriminate].
      destruct (send_ok_spec n s i m Ho Hx) as [o' [E [_ [Hoth [Hsame Hfull]]]]]. cbv zeta in *.
      rewrite E. cbn [fst snd with_os st_os st_cs].
      pose proof (rel9_reply ok_id n fe fe' pe (os_s (st_os s)) (os_s o') i m Hn Hx Re Ed Hsame Hoth) as P.
      cbn [c09_scan].
      destruct (attribute n i m (vlist (assoc (ok_id m) pe))) as [[q' [hit|]]|].
      * destruct P as [Ew [Hk R']]. rewrite Ew in *. destruct (Hfull _ eq_refl) as [r Er].
        cbn [out_ok]. rewrite Er. cbn [option_map out_list].
        exists fe', fc, (m_set (ok_id m) q' pe), pc. split; [exact D|]. split; [|split; assumption].
        intro o. rewrite (ok_verdict_spec_b _ _ _ (ok_merge_verdict _ _ _ Er Hk)). reflexivity.
      * destruct P as [Ew R']. rewrite Ew. cbn [out_ok out_list].
        exists fe', fc, (m_set (ok_id m) q' pe), pc. repeat split; auto.
      * destruct P as [Ew R']. rewrite Ew. cbn [out_ok out_list].
        exists fe', fc, pe, pc. repeat split; auto.
    + (* COUNT reply *)
      destruct (disc_reply n i (c_sub c) c fc) as [fc'|] eqn:Ed; [|discriminate].
      destruct (send_count_spec n s i c Hc Hx) as [c' [E [_ [Hoth [Hsame Hfull]]]]]. cbv zeta in *.
      rewrite E. cbn [fst snd with_cs st_os st_cs].
      pose proof (rel9_reply c_sub n fc fc' pc (cs_counts (st_cs s)) (cs_counts c') i c Hn Hx Rc Ed Hsame Hoth) as P.
      cbn [c09_scan].
      destruct (attribute n i c (vlist (assoc (c_sub c) pc))) as [[q' [hit|]]|].
      * destruct P as [Ew [Hk R']]. rewrite Ew in *. destruct (Hfull _ eq_refl) as [r Er].
        cbn [out_cnt]. rewrite Er. cbn [option_map out_list].
        exists fe, fc', pe, (m_set (c_sub c) q' pc). split; [exact D|]. split; [|split; assumption].
        intro o. rewrite (count_max_spec_b _ _ _ (cnt_merge_max _ _ _ Er Hk)). reflexivity.
      * destruct P as [Ew R']. rewrite Ew. cbn [out_cnt out_list].
        exists fe, fc', pe, (m_set (c_sub c) q' pc). repeat split; auto.
      * destruct P as [Ew R']. rewrite Ew. cbn [out_cnt out_list].
        exists fe, fc', pe, pc. repeat split; auto.
    + exists fe, fc, pe, pc. repeat split; auto.
    + exists fe, fc, pe, pc. repeat split; auto.
Qed.

Lemma c09_run n t : forall s fe fc pe pc,
  (1 <= n)%nat -> state_ok n s -> trace_ok n t ->
  rel9 ok_id n fe pe (os_s (st_os s)) -> rel9 c_sub n fc pc (cs_counts (st_cs s)) ->
  c09_disc n t fe fc = true ->
  c09_scan n (obs_of s t) pe pc = true.
Proof.
  induction t as [|x t IH]; intros s fe fc pe pc Hn Hs Ht Re Rc D; [reflexivity|].
  inversion Ht as [|? ? Hx Ht']; subst. rewrite obs_of_cons.
  destruct (c09_step n s x fe fc pe pc t Hn Hs Hx Re Rc D) as [fe' [fc' [pe' [pc' [D' [Esc [Re' Rc']]]]]]].
  rewrite Esc. apply (IH _ fe' fc'); auto. now apply step_ok.
Qed.

(** the C09 oracle accepts the model's behaviour on every gated history that
    keeps the discipline *)
Theorem model_satisfies_c09_oracle n t :
  (1 <= n)%nat -> trace_ok n t -> c09_disciplined n t -> c09_oracle n (obs_of (init n) t) = true.
Proof.
  intros Hn Ht D. apply (c09_run n t (init n) [] [] [] []); auto using init_ok.
  - apply rel9_init.
  - apply rel9_init.
Qed.

Theorem agreement_implies_c09_oracle n t :
  (1 <= n)%nat -> trace_ok n (List.map fst t) -> c09_disciplined n (List.map fst t) ->
  model_agrees (init n) t = true -> c09_oracle n t = true.
Proof.
  intros Hn Ht D Ha. rewrite (model_agrees_obs t (init n) Ha). now apply model_satisfies_c09_oracle.
Qed.
