(* MergeOracleProofs.v — C08 and C09: the boolean oracles of Merge.v (the property
   text as a judgement of an observed history, used by the correspondence
   check to judge the implementation) accepts what the model does on EVERY
   gated history.  So the oracle is never stricter than the theorems, and a
   run on which the model reproduces the implementation's observation is a
   run the oracle accepts. *)
From Moc Require Import Base Match MatchProofs Merge MergeProofs MergeAggProofs.
Open Scope Z_scope.

(** the history as the harness would record it if the implementation were
    the model *)
Definition obs_of (s : state) (t : list input) : otrace :=
  combine t (List.map out_list (outs s t)).

Lemma obs_of_cons s x t :
  obs_of s (x :: t) = (x, out_list (snd (merge_step s x))) :: obs_of (fst (merge_step s x)) t.
Proof. unfold obs_of, outs. rewrite exec_cons. reflexivity. Qed.

(* ------------------------------------------------------------------ *)
(** * Reflexivity of the message comparison *)

Lemma event_eqb_refl e : event_eqb e e = true.
Proof. now apply event_eqb_eq. Qed.

Lemma smsg_eqb_refl m : smsg_eqb m m = true.
Proof.
  destruct m as [s|s e|[i a p t]|[s c [b|]]|t|s p t]; cbn; unfold okm_eqb, cntm_eqb; cbn;
    rewrite ?str_eqb_refl, ?event_eqb_refl, ?Bool.eqb_reflx, ?Z.eqb_refl; reflexivity.
Qed.

(* ------------------------------------------------------------------ *)
(** * The oracle's memory against the model's state *)

Definition ans_vec (n : nat) (ans : list nat) : list bool :=
  List.map (fun i => existsb (Nat.eqb i) ans) (seq 0 n).

Definition rel1 (n : nat) (op : sub_phase) (wp : wphase) : Prop :=
  match op, wp with
  | PhOpen fs ans fwd, WOpen eo la se ms =>
      eo = ans_vec n ans /\ all_true eo = false /\ pre_inv fs la se ms fwd
  | PhDone, WClosed => True
  | PhClosed, WClosed => True
  | _, _ => False
  end.

Definition rel (n : nat) (s : state) (ph : list (str * sub_phase)) : Prop :=
  forall sub, rel1 n (phase_of sub ph) (rs_phase (st_rs s) sub).

Lemma phase_of_set_same sub p ph : phase_of sub (m_set sub p ph) = p.
Proof. unfold phase_of. now rewrite assoc_m_set_same. Qed.

Lemma phase_of_set_other sub k p ph : sub <> k -> phase_of k (m_set sub p ph) = phase_of k ph.
Proof. intro N. unfold phase_of. now rewrite assoc_m_set_other. Qed.

(** the model changed only [sub] (to phase [wp]); the oracle rebinds [sub] *)
Lemma rel_upd n s s' ph sub p wp :
  rel n s ph -> rs_upd (st_rs s) (st_rs s') sub wp -> rel1 n p wp -> rel n s' (m_set sub p ph).
Proof.
  intros H U Hp k. destruct (str_dec sub k) as [<-|N].
  - rewrite phase_of_set_same, (rs_upd_same _ _ _ _ U). exact Hp.
  - rewrite (phase_of_set_other _ _ _ _ N), (rs_upd_other _ _ _ _ _ U N). apply H.
Qed.

(** ... or keeps its binding *)
Lemma rel_upd_same n s s' ph sub wp :
  rel n s ph -> rs_upd (st_rs s) (st_rs s') sub wp -> rel1 n (phase_of sub ph) wp -> rel n s' ph.
Proof.
  intros H U Hp k. destruct (str_dec sub k) as [<-|N].
  - rewrite (rs_upd_same _ _ _ _ U). exact Hp.
  - rewrite (rs_upd_other _ _ _ _ _ U N). apply H.
Qed.

Lemma rel_same_rs n s s' ph : rel n s ph -> st_rs s' = st_rs s -> rel n s' ph.
Proof. intros H E k. rewrite E. apply H. Qed.

Lemma ans_vec_nil n : ans_vec n [] = repeat false n.
Proof.
  unfold ans_vec. cbn [existsb]. generalize 0%nat.
  induction n as [|n IH]; intro a; cbn; [reflexivity | now rewrite IH].
Qed.

Lemma ans_vec_length n ans : length (ans_vec n ans) = n.
Proof. unfold ans_vec. now rewrite map_length, seq_length. Qed.

Lemma ans_vec_upd n ans i : (i < n)%nat -> upd_nth i true (ans_vec n ans) = Some (ans_vec n (i :: ans)).
Proof.
  intro Hi. unfold ans_vec. rewrite upd_nth_map_seq by assumption. reflexivity.
Qed.

Lemma all_true_ans_vec n ans : all_true (ans_vec n ans) = covers n ans.
Proof. unfold all_true, ans_vec, covers. apply forallb_map_seq. Qed.

Lemma all_true_repeat_false n : (1 <= n)%nat -> all_true (repeat false n) = false.
Proof. intro H. destruct n; [lia | reflexivity]. Qed.

Lemma rs_upd_set_sub n r sub fs :
  rs_size r = n -> rs_upd r (rs_set_sub r sub fs) sub (ph0 n fs).
Proof.
  intro Hn. split; [reflexivity|]. split; [|split].
  - intros k N. rewrite rs_view_set_sub. apply str_dec_neq. congruence.
  - rewrite rs_view_set_sub, str_dec_refl. exact I.
  - unfold rs_phase. rewrite rs_view_set_sub, str_dec_refl, Hn. reflexivity.
Qed.

(* ------------------------------------------------------------------ *)
(** * An event the model forwards in an open window passes the oracle's test *)

Lemma ts_noninc_last l e : ts_noninc (l ++ [e]) -> forall p, In p l -> ev_ts e <= ev_ts p.
Proof.
  induction l as [|a l IH]; cbn; intros H p Hp; [destruct Hp|].
  destruct H as [H1 H2]. destruct Hp as [<-|Hp].
  - apply H1. apply in_or_app. right. now left.
  - now apply IH.
Qed.

Lemma pre_inv_snoc_ok fs la se ms fwd e :
  pre_inv fs la se ms (fwd ++ [e]) -> pre_eose_ok fs fwd e = true.
Proof.
  intros [Hf [Hm [Hnd [Hts [_ Hlim]]]]]. unfold pre_eose_ok.
  apply andb_true_iff. split; [apply andb_true_iff; split; [apply andb_true_iff; split|]|].
  - apply Forall_app in Hm as [_ Hm]. now inversion Hm.
  - apply negb_true_iff. destruct (existsb _ fwd) eqn:Ex; [|reflexivity]. exfalso.
    apply existsb_exists in Ex as [p [Hp E]]. apply andb_true_iff in E as [E1 E2].
    apply Z.eqb_eq in E1. apply str_eqb_eq in E2.
    rewrite map_app in Hnd. cbn [List.map] in Hnd. apply NoDup_remove_2 in Hnd. apply Hnd.
    rewrite app_nil_r. apply in_map_iff. exists p. split; [|assumption]. unfold ev_key. now rewrite E1, E2.
  - apply forallb_forall. intros p Hp. apply Z.leb_le. now apply (ts_noninc_last fwd e Hts).
  - destruct (single_limit fs) as [l|] eqn:El; [|reflexivity].
    unfold single_limit in El. destruct fs as [|f [|f2 fs2]]; try discriminate.
    destruct ms as [|m [|m2 ms2]]; cbn in Hf; try discriminate.
    assert (Em : lm_f m = f) by now inversion Hf.
    destruct (Hlim m eq_refl) as [_ H2]. specialize (H2 l). rewrite Em in H2. specialize (H2 El).
    rewrite app_length in H2. cbn [length] in H2. apply Z.leb_le. lia.
Qed.

(* ------------------------------------------------------------------ *)
(** * One step *)

Lemma list_eqb_single m : list_eqb smsg_eqb [m] [m] = true.
Proof. cbn. now rewrite smsg_eqb_refl. Qed.

Lemma oracle_step n s ph x :
  (1 <= n)%nat -> state_ok n s -> rel n s ph -> input_ok n x ->
  exists ph',
    (forall t', c08_scan n ((x, out_list (snd (merge_step s x))) :: t') ph = c08_scan n t' ph') /\
    rel n (fst (merge_step s x)) ph'.
Proof.
  intros Hn Hs Hrel Hx. pose proof Hs as [Hd [Hr [Ho Hc]]].
  unfold merge_step. rewrite Hd.
  destruct x as [sub fs|sub|id|sub|i m]; cbn [fst snd out_list].
  - (* REQ *)
    exists (m_set sub (PhOpen fs [] []) ph). split; [intro t'; reflexivity|].
    apply (rel_upd n s _ ph sub _ (ph0 n fs)); [assumption | apply rs_upd_set_sub; apply Hr|].
    cbn. split; [symmetry; apply ans_vec_nil|]. split; [now apply all_true_repeat_false | apply pre_inv_init].
  - (* CLOSE *)
    exists (m_set sub PhClosed ph). split; [intro t'; reflexivity|].
    apply (rel_upd n s _ ph sub _ WClosed); [assumption | apply rs_upd_clear | exact I].
  - exists ph. split; [intro t'; reflexivity | now apply (rel_same_rs n s)].
  - exists ph. split; [intro t'; reflexivity | now apply (rel_same_rs n s)].
  - destruct m as [sub|sub e|m|c|t|sub p t]; cbn [input_ok] in Hx.
    + (* EOSE of child i *)
      destruct (send_eose_spec n s i sub Hr Hx) as [r' [E U]]. rewrite E. cbn [fst snd].
      pose proof (Hrel sub) as R. cbn [c08_scan].
      destruct (phase_of sub ph) as [fs ans fwd| |] eqn:Ep;
        destruct (rs_phase (st_rs s) sub) as [eo la se ms|] eqn:Ew; cbn [rel1] in R; try contradiction.
      * destruct R as [Eeo [Hat Hinv]]. subst eo. cbn [w_eose] in *. rewrite Hat in *.
        rewrite (ans_vec_upd n ans i Hx) in *. rewrite all_true_ans_vec in *.
        destruct (covers n (i :: ans)) eqn:Ec; cbn [fst snd out_list] in *.
        -- exists (m_set sub PhDone ph). split; [intro t'; now rewrite list_eqb_single|].
           apply (rel_upd n s (with_rs s r') ph sub PhDone WClosed); [assumption | exact U | exact I].
        -- exists (m_set sub (PhOpen fs (i :: ans) fwd) ph). split; [intro t'; reflexivity|].
           apply (rel_upd n s (with_rs s r') ph sub _ _ Hrel U). cbn. split; [reflexivity|].
           split; [now rewrite all_true_ans_vec | assumption].
      * cbn [w_eose fst snd out_list] in *. exists ph. split; [intro t'; reflexivity|].
        apply (rel_upd_same n s (with_rs s r') ph sub WClosed Hrel U). now rewrite Ep.
      * cbn [w_eose fst snd out_list] in *. exists ph. split; [intro t'; reflexivity|].
        apply (rel_upd_same n s (with_rs s r') ph sub WClosed Hrel U). now rewrite Ep.
    + (* EVENT of child i *)
      destruct Hx as [Hi Hne].
      destruct (send_event_spec n s i sub e Hr Hi Hne) as [r' [E U]]. rewrite E. cbn [fst snd].
      pose proof (Hrel sub) as R. cbn [c08_scan].
      destruct (phase_of sub ph) as [fs ans fwd| |] eqn:Ep;
        destruct (rs_phase (st_rs s) sub) as [eo la se ms|] eqn:Ew; cbn [rel1] in R; try contradiction.
      * destruct R as [Eeo [Hat Hinv]].
        assert (Hnth : nth_error eo i <> None).
        { intro En. apply nth_error_None in En. rewrite Eeo, ans_vec_length in En. lia. }
        destruct (w_event_pre fs eo la se ms fwd i e Hat Hnth Hinv) as [la' [se' [ms' [E' Hinv']]]].
        rewrite E' in U.
        destruct (snd (w_event (WOpen eo la se ms) i e)); cbn [out_list].
        -- exists (m_set sub (PhOpen fs ans (fwd ++ [e])) ph). split.
           ++ intro t'. now rewrite smsg_eqb_refl, (pre_inv_snoc_ok _ _ _ _ _ _ Hinv').
           ++ apply (rel_upd n s (with_rs s r') ph sub _ _ Hrel U). cbn. auto.
        -- exists ph. split; [intro t'; reflexivity|].
           apply (rel_upd_same n s (with_rs s r') ph sub _ Hrel U). rewrite Ep. cbn. auto.
      * cbn [w_event fst snd out_list] in *. exists ph. split; [intro t'; now rewrite list_eqb_single|].
        apply (rel_upd_same n s (with_rs s r') ph sub WClosed Hrel U). now rewrite Ep.
      * cbn [w_event fst snd out_list] in *. exists ph. split; [intro t'; now rewrite smsg_eqb_refl|].
        apply (rel_upd_same n s (with_rs s r') ph sub WClosed Hrel U). now rewrite Ep.
    + (* OK *)
      destruct (send_ok_spec n s i m Ho Hx) as [o' [E _]]. rewrite E. cbn [fst snd].
      exists ph. split; [|now apply (rel_same_rs n s)].
      intro t'. cbn [c08_scan]. unfold out_ok. destruct (snd (w_put _ i m)); [|reflexivity].
      destruct (ok_merge _); reflexivity.
    + (* COUNT *)
      destruct (send_count_spec n s i c Hc Hx) as [c' [E _]]. rewrite E. cbn [fst snd].
      exists ph. split; [|now apply (rel_same_rs n s)].
      intro t'. cbn [c08_scan]. unfold out_cnt. destruct (snd (w_put _ i c)); [|reflexivity].
      destruct (cnt_merge _); reflexivity.
    + exists ph. split; [intro t'; cbn [c08_scan out_list snd]; now rewrite list_eqb_single | assumption].
    + exists ph. split; [intro t'; cbn [c08_scan out_list snd]; now rewrite list_eqb_single | assumption].
Qed.

(* ------------------------------------------------------------------ *)
(** * Every history *)

Lemma oracle_run n t : forall s ph,
  (1 <= n)%nat -> state_ok n s -> rel n s ph -> trace_ok n t -> c08_scan n (obs_of s t) ph = true.
Proof.
  induction t as [|x t IH]; intros s ph Hn Hs Hrel Ht; [reflexivity|].
  inversion Ht as [|? ? Hx Ht']; subst. rewrite obs_of_cons.
  destruct (oracle_step n s ph x Hn Hs Hrel Hx) as [ph' [Esc Hrel']]. rewrite Esc.
  apply IH; [assumption | now apply step_ok | assumption | assumption].
Qed.

Lemma rel_init n : rel n (init n) [].
Proof. intro sub. cbn. exact I. Qed.

(** the C08 oracle accepts the model's behaviour on every gated history *)
Theorem model_satisfies_c08_oracle n t :
  (1 <= n)%nat -> trace_ok n t -> c08_oracle n (obs_of (init n) t) = true.
Proof. intros Hn Ht. apply oracle_run; auto using init_ok, rel_init. Qed.

(** hence: an observation the model reproduces is an observation the oracle
    accepts (the two halves of the correspondence check are coherent) *)
Lemma list_eqb_smsg_eq a b : list_eqb smsg_eqb a b = true -> a = b.
Proof.
  assert (E : forall x y, smsg_eqb x y = true <-> x = y).
  { intros x y. split; [|intros ->; apply smsg_eqb_refl].
    destruct x as [s|s e|[i a0 p t]|[s c ap]|t|s p t]; destruct y as [s'|s' e'|[i' a' p' t']|[s' c' ap']|t'|s' p' t'];
      cbn; try discriminate; rewrite ?andb_true_iff, ?str_eqb_eq, ?event_eqb_eq.
    - now intros ->.
    - now intros [-> ->].
    - unfold okm_eqb. cbn. rewrite !andb_true_iff, !str_eqb_eq, Bool.eqb_true_iff. now intros [[[-> ->] ->] ->].
    - unfold cntm_eqb. cbn. rewrite !andb_true_iff, str_eqb_eq, Z.eqb_eq. intros [[-> ->] H].
      destruct ap as [[]|], ap' as [[]|]; cbn in H; try discriminate; reflexivity.
    - now intros ->.
    - now intros [[-> ->] ->]. }
  apply (list_eqb_eq smsg_eqb E).
Qed.

Lemma model_agrees_obs t : forall s, model_agrees s t = true -> t = obs_of s (List.map fst t).
Proof.
  induction t as [|[x obs] t IH]; intros s H; [reflexivity|].
  cbn [model_agrees] in H. destruct (merge_step s x) as [s1 o] eqn:E.
  apply andb_true_iff in H as [H H3]. apply andb_true_iff in H as [_ H2].
  cbn [List.map fst]. rewrite obs_of_cons, E. cbn [fst snd].
  apply list_eqb_smsg_eq in H2. rewrite H2. f_equal. now apply IH.
Qed.

Theorem agreement_implies_c08_oracle n t :
  (1 <= n)%nat -> trace_ok n (List.map fst t) -> model_agrees (init n) t = true -> c08_oracle n t = true.
Proof.
  intros Hn Ht Ha. rewrite (model_agrees_obs t (init n) Ha). now apply model_satisfies_c08_oracle.
Qed.


(* ================================================================== *)
(** * C09: the oracle [c09_oracle] accepts what the model does on EVERY
      gated history — any number of requests in flight, repeated ids, replies
      nobody waits for, CLOSE and REQ with the ids of requests in flight.

    The oracle keeps, per id, the FIFO of submissions with the replies
    attributed to each; the code keeps the number of submissions and one FIFO
    of replies per child.  [ent_of] reads the second off the first. *)

Lemma has_child_find {A} i (rs : list (nat * A)) :
  has_child i rs = negb (isNone (find (fun p => Nat.eqb (fst p) i) rs)).
Proof.
  unfold has_child. induction rs as [|p rs IH]; cbn; [reflexivity|].
  destruct (Nat.eqb (fst p) i); cbn; [reflexivity | exact IH].
Qed.

Lemma in_child_order_In {A} n (rs : list (nat * A)) a : In a (in_child_order n rs) -> exists i, In (i, a) rs.
Proof.
  unfold in_child_order. intro H. apply in_flat_map in H as [i [_ H]].
  destruct (find _ rs) as [p|] eqn:Ef; [|destruct H]. destruct H as [<-|[]].
  apply find_some in Ef as [Hin _]. exists (fst p). now destruct p.
Qed.

(** the text's verdict, as the oracle's boolean *)
Lemma is_prefix_app p q : is_prefix p (p ++ q) = true.
Proof. induction p as [|x p IH]; cbn; [reflexivity | now rewrite N.eqb_refl]. Qed.

Lemma find_first_rejecting before c after :
  (forall b, In b before -> ok_acc b = true) -> ok_acc c = false ->
  find (fun r => negb (ok_acc r)) (before ++ c :: after) = Some c.
Proof.
  intros Hb Hc. induction before as [|b before IH]; cbn.
  - now rewrite Hc.
  - rewrite (Hb b (or_introl eq_refl)). cbn. apply IH. intros x Hx. apply Hb. now right.
Qed.

Lemma ok_verdict_spec_b id xs r : ok_verdict_spec id xs r -> ok_out_ok id xs r = true.
Proof.
  intros [Hid [Hacc Hrej]]. unfold ok_out_ok. rewrite Hid, str_eqb_refl. cbn [andb].
  destruct (ok_acc r) eqn:Ea.
  - assert (Hall : forallb ok_acc xs = true) by (apply forallb_forall; now apply Hacc).
    rewrite Hall. cbn.
    destruct (find _ xs) as [c|] eqn:Ef; [|reflexivity]. apply find_some in Ef as [Hin Hc].
    rewrite (proj1 Hacc eq_refl c Hin) in Hc. discriminate.
  - destruct (Hrej eq_refl) as [before [c [after [rest [Exs [Hb [Hc Hm]]]]]]].
    assert (Hall : forallb ok_acc xs = false).
    { destruct (forallb ok_acc xs) eqn:E; [|reflexivity]. rewrite forallb_forall in E.
      rewrite <- Hc. symmetry. apply E. rewrite Exs. apply in_or_app. right. now left. }
    rewrite Hall. cbn. rewrite Exs, (find_first_rejecting _ _ _ Hb Hc), Hm. apply is_prefix_app.
Qed.

Lemma count_max_spec_b sub xs r : count_max_spec sub xs r -> cnt_out_ok sub xs r = true.
Proof.
  intros [Hs [Hin Hmax]]. unfold cnt_out_ok. rewrite Hs, str_eqb_refl. cbn [andb].
  apply andb_true_iff. split.
  - apply forallb_forall. intros x Hx. apply Z.leb_le. now apply Hmax.
  - apply existsb_exists. exists r. split; [assumption | apply Z.eqb_refl].
Qed.


(** the replies of child [i] in the oracle's queue, oldest first *)
Definition child_replies {A} (i : nat) (q : list (list (nat * A))) : list A :=
  flat_map (fun rs => match find (fun p => Nat.eqb (fst p) i) rs with Some p => [snd p] | None => [] end) q.

Definition ent_of {A} (n : nat) (q : list (list (nat * A))) : entry A :=
  match q with
  | [] => None
  | _ :: _ => Some (Z.of_nat (length q), List.map (fun i => child_replies i q) (seq 0 n))
  end.

(** the submissions child [i] has answered are a prefix of the queue *)
Fixpoint pre_has {A} (i : nat) (q : list (list (nat * A))) : Prop :=
  match q with
  | [] => True
  | rs :: q' => (has_child i rs = false -> forall rs', In rs' q' -> has_child i rs' = false) /\ pre_has i q'
  end.

Definition q_ok {A} (n : nat) (q : list (list (nat * A))) : Prop :=
  (forall rs, In rs q -> complete n rs = false) /\ forall i, pre_has i q.

Lemma find_child_cons {A} i j (a : A) rs :
  find (fun p => Nat.eqb (fst p) j) ((i, a) :: rs) = if Nat.eqb i j then Some (i, a) else find (fun p => Nat.eqb (fst p) j) rs.
Proof. reflexivity. Qed.

Lemma has_child_cons {A} i j (a : A) rs : has_child j ((i, a) :: rs) = Nat.eqb i j || has_child j rs.
Proof. reflexivity. Qed.

Lemma child_replies_app {A} i (q1 q2 : list (list (nat * A))) :
  child_replies i (q1 ++ q2) = child_replies i q1 ++ child_replies i q2.
Proof. unfold child_replies. apply flat_map_app. Qed.

Lemma child_replies_cons {A} i (rs : list (nat * A)) q :
  child_replies i (rs :: q) =
  match find (fun p => Nat.eqb (fst p) i) rs with Some p => [snd p] | None => [] end ++ child_replies i q.
Proof. reflexivity. Qed.

Lemma child_replies_none {A} i (q : list (list (nat * A))) :
  (forall rs, In rs q -> has_child i rs = false) -> child_replies i q = [].
Proof.
  induction q as [|rs q IH]; intro H; [reflexivity|]. rewrite child_replies_cons, IH by (intros r Hr; apply H; now right).
  specialize (H rs (or_introl eq_refl)). rewrite has_child_find in H. destruct (find _ rs); [discriminate | reflexivity].
Qed.

Lemma child_replies_all_length {A} i (q : list (list (nat * A))) :
  (forall rs, In rs q -> has_child i rs = true) -> length (child_replies i q) = length q.
Proof.
  induction q as [|rs q IH]; intro H; [reflexivity|]. rewrite child_replies_cons, app_length, IH by (intros r Hr; apply H; now right).
  specialize (H rs (or_introl eq_refl)). rewrite has_child_find in H. destruct (find _ rs); [reflexivity | discriminate].
Qed.

Lemma pre_has_app_inv {A} i (q1 q2 : list (list (nat * A))) : pre_has i (q1 ++ q2) -> pre_has i q1 /\ pre_has i q2.
Proof.
  induction q1 as [|rs q1 IH]; cbn [app pre_has]; [tauto|]. intros [H1 H2]. destruct (IH H2) as [P1 P2].
  split; [|exact P2]. split; [|exact P1]. intros Hf r Hr. apply (H1 Hf). apply in_or_app. now left.
Qed.

(** what [attribute] does on a queue in which child [i]'s answers are a prefix *)
Lemma attr_decomp {A} n i (a : A) (q : list (list (nat * A))) :
  pre_has i q ->
  ((forall rs, In rs q -> has_child i rs = true) /\ attribute n i a q = None) \/
  exists q1 rs q2,
    q = q1 ++ rs :: q2 /\ (forall r, In r q1 -> has_child i r = true) /\ has_child i rs = false /\
    (forall r, In r q2 -> has_child i r = false) /\
    attribute n i a q = if complete n ((i, a) :: rs) then Some (q1 ++ q2, Some ((i, a) :: rs))
                        else Some (q1 ++ ((i, a) :: rs) :: q2, None).
Proof.
  induction q as [|rs q IH]; cbn [pre_has attribute]; intro H.
  - left. split; [intros r []|reflexivity].
  - destruct H as [H1 H2]. destruct (has_child i rs) eqn:Eh.
    + destruct (IH H2) as [[Hall En]|[q1 [r0 [q2 [Eq [Hq1 [Hr0 [Hq2 En]]]]]]]].
      * left. split; [intros r [<-|Hr]; auto|]. now rewrite En.
      * right. exists (rs :: q1), r0, q2. rewrite Eq. split; [reflexivity|]. split; [intros r [<-|Hr]; auto|].
        split; [exact Hr0|]. split; [exact Hq2|]. rewrite <- Eq, En.
        destruct (complete n ((i, a) :: r0)); reflexivity.
    + right. exists [], rs, q. split; [reflexivity|]. split; [intros r []|]. split; [exact Eh|].
      split; [exact (H1 eq_refl)|]. destruct (complete n ((i, a) :: rs)); reflexivity.
Qed.

(** with every child's answers a prefix, a child's queue is empty iff the
    head submission lacks the child *)
Lemma is_nil_child_replies {A} j (rs : list (nat * A)) q :
  pre_has j (rs :: q) -> is_nil (child_replies j (rs :: q)) = negb (has_child j rs).
Proof.
  intros [H1 _]. rewrite child_replies_cons, has_child_find.
  destruct (find _ rs) as [p|] eqn:Ef; [reflexivity|]. cbn [app isNone negb].
  rewrite child_replies_none; [reflexivity|]. apply H1. rewrite has_child_find, Ef. reflexivity.
Qed.

Lemma existsb_nil_queues {A} n (rs : list (nat * A)) q :
  (forall j, pre_has j (rs :: q)) ->
  existsb is_nil (List.map (fun j => child_replies j (rs :: q)) (seq 0 n)) = negb (complete n rs).
Proof.
  intro H. unfold complete. generalize 0%nat. induction n as [|n IH]; intro a0; cbn [seq List.map existsb forallb]; [reflexivity|].
  rewrite IH, (is_nil_child_replies _ _ _ (H a0)), negb_andb. reflexivity.
Qed.

Lemma heads_of_complete {A} n (rs : list (nat * A)) q :
  complete n rs = true ->
  List.map hd_opt (List.map (fun j => child_replies j (rs :: q)) (seq 0 n)) = List.map Some (in_child_order n rs) /\
  List.map (@tl A) (List.map (fun j => child_replies j (rs :: q)) (seq 0 n)) = List.map (fun j => child_replies j q) (seq 0 n).
Proof.
  unfold complete, in_child_order. generalize 0%nat.
  induction n as [|n IH]; intro a0; cbn [seq List.map forallb flat_map]; [split; reflexivity|].
  intro H. apply andb_true_iff in H as [H1 H2]. destruct (IH _ H2) as [E1 E2].
  rewrite child_replies_cons. rewrite has_child_find in H1.
  destruct (find _ rs) as [p|]; [|discriminate]. cbn [app hd_opt tl List.map]. now rewrite E1, E2.
Qed.

Lemma q_ok_nil {A} n : @q_ok A n [].
Proof. split; [intros rs [] | intro i; exact I]. Qed.

Lemma pre_has_snoc_nil {A} i (q : list (list (nat * A))) : pre_has i q -> pre_has i (q ++ [[]]).
Proof.
  induction q as [|rs q IH]; cbn [app pre_has]; [intros _; split; [intros _ r [] | exact I]|].
  intros [H1 H2]. split; [|now apply IH]. intros Hf r Hr. apply in_app_or in Hr as [Hr|[<-|[]]]; [now apply H1 | reflexivity].
Qed.

Lemma q_ok_request {A} n (q : list (list (nat * A))) : (1 <= n)%nat -> q_ok n q -> q_ok n (q ++ [[]]).
Proof.
  intros Hn [H1 H2]. split.
  - intros rs Hr. apply in_app_or in Hr as [Hr|[<-|[]]]; [now apply H1|]. destruct n; [lia | reflexivity].
  - intro i. now apply pre_has_snoc_nil.
Qed.

Lemma ent_of_request {A} n (q : list (list (nat * A))) : ent_of n (q ++ [[]]) = w_req n (ent_of n q).
Proof.
  assert (E : forall j, child_replies j (q ++ [[]]) = child_replies j q).
  { intro j. rewrite child_replies_app. cbn. apply app_nil_r. }
  destruct q as [|rs q]; cbn [app ent_of w_req].
  - f_equal. f_equal. apply map_seq_const. reflexivity.
  - rewrite app_comm_cons. f_equal. f_equal.
    + rewrite app_length. cbn [length]. lia.
    + apply map_ext. intro j. apply (E j).
Qed.

Lemma pre_has_sub {A} i (q1 : list (list (nat * A))) rs q2 : pre_has i (q1 ++ rs :: q2) -> pre_has i (q1 ++ q2).
Proof.
  induction q1 as [|r q1 IH]; cbn [app pre_has]; [tauto|]. intros [H1 H2]. split; [|now apply IH].
  intros Hf r' Hr'. apply (H1 Hf). apply in_app_or in Hr' as [Hr'|Hr']; apply in_or_app; [now left | right; now right].
Qed.

Lemma pre_has_replace {A} i (q1 : list (list (nat * A))) rs rs' q2 :
  has_child i rs' = has_child i rs -> pre_has i (q1 ++ rs :: q2) -> pre_has i (q1 ++ rs' :: q2).
Proof.
  intro E. induction q1 as [|r q1 IH]; cbn [app pre_has].
  - rewrite E. tauto.
  - intros [H1 H2]. split; [|now apply IH]. intros Hf r' Hr'.
    apply in_app_or in Hr' as [Hr'|[<-|Hr']].
    + apply (H1 Hf). apply in_or_app. now left.
    + rewrite E. apply (H1 Hf). apply in_or_app. right. now left.
    + apply (H1 Hf). apply in_or_app. right. now right.
Qed.

Lemma pre_has_none {A} i (q : list (list (nat * A))) : (forall r, In r q -> has_child i r = false) -> pre_has i q.
Proof.
  induction q as [|r q IH]; cbn; intro H; [exact I|]. split; [intros _ r' Hr'; apply H; now right|].
  apply IH. intros r' Hr'. apply H. now right.
Qed.

Lemma pre_has_fill {A} i (q1 : list (list (nat * A))) rs' q2 :
  (forall r, In r q1 -> has_child i r = true) -> has_child i rs' = true ->
  (forall r, In r q2 -> has_child i r = false) -> pre_has i (q1 ++ rs' :: q2).
Proof.
  intros H1 Hr H2. induction q1 as [|r q1 IH]; cbn [app pre_has].
  - split; [rewrite Hr; discriminate | now apply pre_has_none].
  - split; [rewrite (H1 r (or_introl eq_refl)); discriminate|]. apply IH. intros r' Hr'. apply H1. now right.
Qed.

Lemma ent_of_cons {A} n (q : list (list (nat * A))) :
  q <> [] -> ent_of n q = Some (Z.of_nat (length q), List.map (fun j => child_replies j q) (seq 0 n)).
Proof. destruct q; [congruence | reflexivity]. Qed.

Lemma has_child_find_none {A} i (rs : list (nat * A)) :
  has_child i rs = false -> find (fun p => Nat.eqb (fst p) i) rs = None.
Proof. rewrite has_child_find. destruct (find _ rs); [discriminate | reflexivity]. Qed.

(** the code's reply step on [ent_of q] is the oracle's [attribute] on [q] *)
Lemma attr_w_put {A} n i (a : A) (q : list (list (nat * A))) :
  (1 <= n)%nat -> (i < n)%nat -> q_ok n q ->
  match attribute n i a q with
  | None => w_put (ent_of n q) i a = (ent_of n q, None)
  | Some (q', None) => w_put (ent_of n q) i a = (ent_of n q', None) /\ q_ok n q'
  | Some (q', Some hit) =>
      w_put (ent_of n q) i a = (ent_of n q', Some (List.map Some (in_child_order n hit))) /\ q_ok n q'
  end.
Proof.
  intros Hn Hi [Hinc Hpre].
  destruct (attr_decomp n i a q (Hpre i)) as [[Hall En]|[q1 [rs [q2 [Eq [Hq1 [Hrs [Hq2 En]]]]]]]]; rewrite En.
  - (* the child has answered every pending submission: the reply is dropped *)
    destruct q as [|r0 q0]; [reflexivity|]. rewrite ent_of_cons by discriminate. cbn [w_put].
    rewrite (nth_error_map_seq _ n 0 i Hi). cbn [Nat.add].
    replace (zlen (child_replies i (r0 :: q0)) >=? Z.of_nat (length (r0 :: q0))) with true; [reflexivity|].
    symmetry. rewrite zlen_nat, (child_replies_all_length i _ Hall), Z.geb_leb. apply Z.leb_refl.
  - set (rs' := (i, a) :: rs) in *. set (q' := q1 ++ rs' :: q2).
    assert (Hne : q <> []) by (rewrite Eq; destruct q1; discriminate).
    assert (Hne' : q' <> []) by (unfold q'; destruct q1; discriminate).
    assert (Hlen' : length q' = length q) by (unfold q'; rewrite Eq, !app_length; reflexivity).
    assert (Qi : child_replies i q = child_replies i q1).
    { rewrite Eq, child_replies_app, child_replies_cons, (has_child_find_none _ _ Hrs), (child_replies_none i q2 Hq2).
      cbn [app]. apply app_nil_r. }
    assert (Qi' : child_replies i q' = child_replies i q ++ [a]).
    { unfold q', rs'. rewrite Qi, child_replies_app, child_replies_cons, find_child_cons, Nat.eqb_refl, (child_replies_none i q2 Hq2).
      reflexivity. }
    assert (Qj' : forall j, j <> i -> child_replies j q' = child_replies j q).
    { intros j N. unfold q', rs'. rewrite Eq, !child_replies_app, !child_replies_cons, find_child_cons.
      replace (Nat.eqb i j) with false by (symmetry; apply Nat.eqb_neq; congruence). reflexivity. }
    assert (Hhas' : forall j, j <> i -> has_child j rs' = has_child j rs).
    { intros j N. unfold rs'. rewrite has_child_cons.
      replace (Nat.eqb i j) with false by (symmetry; apply Nat.eqb_neq; congruence). reflexivity. }
    assert (Hpre' : forall j, pre_has j q').
    { intro j. destruct (Nat.eq_dec j i) as [->|N].
      - apply pre_has_fill; auto. unfold rs'. rewrite has_child_cons, Nat.eqb_refl. reflexivity.
      - unfold q'. apply (pre_has_replace j q1 rs rs' q2 (Hhas' j N)). rewrite <- Eq. apply Hpre. }
    rewrite (ent_of_cons n q Hne). cbn [w_put]. rewrite (nth_error_map_seq _ n 0 i Hi). cbn [Nat.add].
    replace (zlen (child_replies i q) >=? Z.of_nat (length q)) with false.
    2:{ symmetry. rewrite zlen_nat, Qi, (child_replies_all_length i q1 Hq1), Z.geb_leb. apply Z.leb_gt.
        rewrite Eq, app_length. cbn [length]. lia. }
    rewrite (upd_nth_map_seq _ _ n 0 i Hi). cbn [Nat.add].
    replace (List.map (fun j => if Nat.eqb j i then child_replies i q ++ [a] else child_replies j q) (seq 0 n))
      with (List.map (fun j => child_replies j q') (seq 0 n)).
    2:{ apply map_ext. intro j. destruct (Nat.eqb j i) eqn:Eji.
        - apply Nat.eqb_eq in Eji. subst j. exact Qi'.
        - apply Nat.eqb_neq in Eji. now apply Qj'. }
    destruct q1 as [|r1 q1'].
    + (* the oldest submission gets the reply *)
      cbn [app] in *. unfold q' in *. cbn [app] in *.
      rewrite (existsb_nil_queues n rs' q2 Hpre').
      destruct (complete n rs') eqn:Ec; cbn [negb].
      * destruct (heads_of_complete n rs' q2 Ec) as [E1 E2]. rewrite E1, E2. split.
        -- f_equal. rewrite Eq. cbn [length]. destruct q2 as [|r2 q2']; cbn [ent_of length].
           ++ reflexivity.
           ++ replace (Z.of_nat (S (S (length q2'))) - 1 <=? 0) with false by (symmetry; apply Z.leb_gt; lia).
              do 2 f_equal. lia.
        -- split.
           ++ intros r Hr. apply Hinc. rewrite Eq. now right.
           ++ intro j. specialize (Hpre j). rewrite Eq in Hpre. apply Hpre.
      * split.
        -- f_equal. cbn [ent_of]. do 2 f_equal. rewrite Eq. reflexivity.
        -- split; [|exact Hpre']. intros r [<-|Hr]; [exact Ec|]. apply Hinc. rewrite Eq. now right.
    + (* an older submission is still incomplete *)
      assert (Hr1 : complete n r1 = false) by (apply Hinc; rewrite Eq; now left).
      assert (Ec : complete n rs' = false).
      { destruct (complete n rs') eqn:Ec; [|reflexivity]. exfalso.
        assert (complete n r1 = true); [|congruence].
        unfold complete in *. rewrite forallb_forall in *. intros j Hj.
        destruct (Nat.eq_dec j i) as [->|N]; [apply Hq1; now left|].
        destruct (has_child j r1) eqn:E1; [reflexivity|]. exfalso.
        specialize (Hpre j). rewrite Eq in Hpre. cbn [app pre_has] in Hpre. destruct Hpre as [P _].
        specialize (P E1 rs ltac:(apply in_or_app; right; now left)).
        rewrite <- (Hhas' j N), (Ec j Hj) in P. discriminate. }
      rewrite Ec. unfold q' in *. cbn [app] in *.
      rewrite (existsb_nil_queues n r1 (q1' ++ rs' :: q2) Hpre'), Hr1. cbn [negb]. split.
      * f_equal. cbn [ent_of]. do 2 f_equal. rewrite Eq. cbn [app length]. rewrite !app_length. reflexivity.
      * split; [|exact Hpre']. intros r [<-|Hr]; [exact Hr1|].
        apply in_app_or in Hr as [Hr|[<-|Hr]]; [| exact Ec |]; apply Hinc; rewrite Eq; right; apply in_or_app;
          [now left | right; now right].
Qed.

(** the oracle's memory against the code's table *)
Definition rel9 {A} (n : nat) (ent : str -> entry A) (pd : pending A) : Prop :=
  forall k, ent k = ent_of n (vlist (assoc k pd)) /\ q_ok n (vlist (assoc k pd)).

Lemma rel9_upd {A} n (ent ent' : str -> entry A) pd k q' :
  rel9 n ent pd -> ent' k = ent_of n q' -> q_ok n q' -> (forall k', k' <> k -> ent' k' = ent k') ->
  rel9 n ent' (m_set k q' pd).
Proof.
  intros R E Q F k'. destruct (str_dec k k') as [<-|N].
  - rewrite assoc_m_set_same. cbn [vlist]. auto.
  - rewrite assoc_m_set_other by assumption. rewrite (F k') by congruence. apply R.
Qed.

Lemma rel9_keep {A} n (ent ent' : str -> entry A) pd :
  rel9 n ent pd -> (forall k, ent' k = ent k) -> rel9 n ent' pd.
Proof. intros R F k. rewrite F. apply R. Qed.

Lemma rel9_init {A} n (ent : str -> entry A) : (forall k, ent k = None) -> rel9 n ent [].
Proof. intros H k. cbn. split; [apply H | apply q_ok_nil]. Qed.

Lemma c09_step n s x pe pc :
  (1 <= n)%nat -> state_ok n s -> input_ok n x ->
  rel9 n (os_ent (st_os s)) pe -> rel9 n (cs_ent (st_cs s)) pc ->
  exists pe' pc',
    (forall o, c09_scan n ((x, out_list (snd (merge_step s x))) :: o) pe pc = c09_scan n o pe' pc') /\
    rel9 n (os_ent (st_os (fst (merge_step s x)))) pe' /\
    rel9 n (cs_ent (st_cs (fst (merge_step s x)))) pc'.
Proof.
  intros Hn Hs Hx Re Rc. pose proof Hs as [Hd [Hr [Ho Hc]]].
  unfold merge_step. rewrite Hd.
  destruct x as [sub fs|sub|id|sub|i m]; cbn [fst snd out_list].
  - exists pe, pc. split; [intro o; reflexivity | split; [exact Re | exact Rc]].
  - exists pe, pc. split; [intro o; reflexivity | split; [exact Re | exact Rc]].
  - (* EVENT *)
    destruct (os_try_set_spec n (st_os s) id Ho) as [_ [E1 E2]]. cbn [with_os st_os st_cs].
    exists (m_set id (vlist (assoc id pe) ++ [[]]) pe), pc. split; [intro o; reflexivity|]. split; [|exact Rc].
    destruct (Re id) as [Rk Rq]. apply (rel9_upd n (os_ent (st_os s))); auto.
    + rewrite E1, Rk. symmetry. apply ent_of_request.
    + now apply q_ok_request.
  - (* COUNT *)
    destruct (cs_set_sub_spec n (st_cs s) sub Hc) as [_ [E1 E2]]. cbn [with_cs st_os st_cs].
    exists pe, (m_set sub (vlist (assoc sub pc) ++ [[]]) pc). split; [intro o; reflexivity|]. split; [exact Re|].
    destruct (Rc sub) as [Rk Rq]. apply (rel9_upd n (cs_ent (st_cs s))); auto.
    + rewrite E1, Rk. symmetry. apply ent_of_request.
    + now apply q_ok_request.
  - destruct m as [sub|sub e|m|c|t|sub p t]; cbn [input_ok] in Hx.
    + destruct (send_eose_spec n s i sub Hr Hx) as [r' [E _]]. rewrite E. cbn [fst snd with_rs st_os st_cs].
      exists pe, pc. split; [|split; [exact Re | exact Rc]]. intro o. cbn [c09_scan].
      destruct (snd (w_eose _ i)); reflexivity.
    + destruct Hx as [Hi Hne].
      destruct (send_event_spec n s i sub e Hr Hi Hne) as [r' [E _]]. rewrite E. cbn [fst snd with_rs st_os st_cs].
      exists pe, pc. split; [|split; [exact Re | exact Rc]]. intro o. cbn [c09_scan].
      destruct (snd (w_event _ i e)); reflexivity.
    + (* OK *)
      destruct (send_ok_spec n s i m Ho Hx) as [o' [E [_ [Hoth [Hsame Hfull]]]]]. cbv zeta in *.
      rewrite E. cbn [fst snd with_os st_os st_cs]. cbn [c09_scan].
      destruct (Re (ok_id m)) as [Rk Rq].
      pose proof (attr_w_put n i m (vlist (assoc (ok_id m) pe)) Hn Hx Rq) as P. rewrite <- Rk in P.
      destruct (attribute n i m (vlist (assoc (ok_id m) pe))) as [[q' [hit|]]|].
      * destruct P as [Ew Q']. rewrite Ew in *. cbn [fst snd] in *. destruct (Hfull _ eq_refl) as [r Er].
        cbn [out_ok]. rewrite Er. cbn [option_map out_list].
        exists (m_set (ok_id m) q' pe), pc. split; [|split; [|exact Rc]].
        -- intro o.
           assert (Hk : forall a, In a (in_child_order n hit) -> ok_id a = ok_id m).
           { intros a Ha. apply (w_put_full_In ok_id n (os_ent (st_os s) (ok_id m)) i m (List.map Some (in_child_order n hit)) a (proj1 (proj2 Ho (ok_id m)))).
             - rewrite Ew. reflexivity.
             - now apply in_map. }
           rewrite (ok_verdict_spec_b _ _ _ (ok_merge_verdict _ _ _ Er Hk)). reflexivity.
        -- apply (rel9_upd n (os_ent (st_os s))); auto.
      * destruct P as [Ew Q']. rewrite Ew in *. cbn [fst snd out_ok out_list] in *.
        exists (m_set (ok_id m) q' pe), pc. split; [intro o; reflexivity|]. split; [|exact Rc].
        apply (rel9_upd n (os_ent (st_os s))); auto.
      * rewrite P in *. cbn [fst snd out_ok out_list] in *.
        exists pe, pc. split; [intro o; reflexivity|]. split; [|exact Rc].
        apply (rel9_keep n (os_ent (st_os s))); [exact Re|]. intro k.
        destruct (str_dec k (ok_id m)) as [->|N]; [exact Hsame | now apply Hoth].
    + (* COUNT reply *)
      destruct (send_count_spec n s i c Hc Hx) as [c' [E [_ [Hoth [Hsame Hfull]]]]]. cbv zeta in *.
      rewrite E. cbn [fst snd with_cs st_os st_cs]. cbn [c09_scan].
      destruct (Rc (c_sub c)) as [Rk Rq].
      pose proof (attr_w_put n i c (vlist (assoc (c_sub c) pc)) Hn Hx Rq) as P. rewrite <- Rk in P.
      destruct (attribute n i c (vlist (assoc (c_sub c) pc))) as [[q' [hit|]]|].
      * destruct P as [Ew Q']. rewrite Ew in *. cbn [fst snd] in *. destruct (Hfull _ eq_refl) as [r Er].
        cbn [out_cnt]. rewrite Er. cbn [option_map out_list].
        exists pe, (m_set (c_sub c) q' pc). split; [|split; [exact Re|]].
        -- intro o.
           assert (Hk : forall a, In a (in_child_order n hit) -> c_sub a = c_sub c).
           { intros a Ha. apply (w_put_full_In c_sub n (cs_ent (st_cs s) (c_sub c)) i c (List.map Some (in_child_order n hit)) a (proj1 (proj2 Hc (c_sub c)))).
             - rewrite Ew. reflexivity.
             - now apply in_map. }
           rewrite (count_max_spec_b _ _ _ (cnt_merge_max _ _ _ Er Hk)). reflexivity.
        -- apply (rel9_upd n (cs_ent (st_cs s))); auto.
      * destruct P as [Ew Q']. rewrite Ew in *. cbn [fst snd out_cnt out_list] in *.
        exists pe, (m_set (c_sub c) q' pc). split; [intro o; reflexivity|]. split; [exact Re|].
        apply (rel9_upd n (cs_ent (st_cs s))); auto.
      * rewrite P in *. cbn [fst snd out_cnt out_list] in *.
        exists pe, pc. split; [intro o; reflexivity|]. split; [exact Re|].
        apply (rel9_keep n (cs_ent (st_cs s))); [exact Rc|]. intro k.
        destruct (str_dec k (c_sub c)) as [->|N]; [exact Hsame | now apply Hoth].
    + exists pe, pc. split; [intro o; reflexivity | split; [exact Re | exact Rc]].
    + exists pe, pc. split; [intro o; reflexivity | split; [exact Re | exact Rc]].
Qed.

Lemma c09_run n t : forall s pe pc,
  (1 <= n)%nat -> state_ok n s -> trace_ok n t ->
  rel9 n (os_ent (st_os s)) pe -> rel9 n (cs_ent (st_cs s)) pc ->
  c09_scan n (obs_of s t) pe pc = true.
Proof.
  induction t as [|x t IH]; intros s pe pc Hn Hs Ht Re Rc; [reflexivity|].
  inversion Ht as [|? ? Hx Ht']; subst. rewrite obs_of_cons.
  destruct (c09_step n s x pe pc Hn Hs Hx Re Rc) as [pe' [pc' [Esc [Re' Rc']]]].
  rewrite Esc. apply IH; auto. now apply step_ok.
Qed.

(** the C09 oracle accepts the model's behaviour on every gated history *)
Theorem model_satisfies_c09_oracle n t :
  (1 <= n)%nat -> trace_ok n t -> c09_oracle n (obs_of (init n) t) = true.
Proof.
  intros Hn Ht. apply (c09_run n t (init n) [] []); auto using init_ok.
  - apply rel9_init. reflexivity.
  - apply rel9_init. reflexivity.
Qed.

Theorem agreement_implies_c09_oracle n t :
  (1 <= n)%nat -> trace_ok n (List.map fst t) -> model_agrees (init n) t = true -> c09_oracle n t = true.
Proof.
  intros Hn Ht Ha. rewrite (model_agrees_obs t (init n) Ha). now apply model_satisfies_c09_oracle.
Qed.
