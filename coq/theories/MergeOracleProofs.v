(* MergeOracleProofs.v — C08: the boolean oracle of Merge.v (the property
   text as a judgement of an observed history, used by the correspondence
   check to judge the implementation) accepts what the model does on EVERY
   gated history.  So the oracle is never stricter than the theorems, and a
   run on which the model reproduces the implementation's observation is a
   run the oracle accepts. *)
From Moc Require Import Base Match MatchProofs Merge MergeProofs.
Open Scope Z_scope.

(** the history as the harness would record it if the implementation were
    the model *)
Definition obs_of (s : state) (t : list input) : otrace :=
  combine t (List.map out_list (outs s t)).

Lemma obs_of_cons s x t :
  obs_of s (x :: t) = (x, out_list (snd (merge_step s x))) :: obs_of (fst (merge_step s x)) t.
Proof. unfold obs_of, outs. rewrite exec_cons. reflexivity. Qed.

(* ------------------------------------------------------------------ *)
(** * Reflexivity of the message comparison *)

Lemma event_eqb_refl e : event_eqb e e = true.
Proof. now apply event_eqb_eq. Qed.

Lemma smsg_eqb_refl m : smsg_eqb m m = true.
Proof.
  destruct m as [s|s e|[i a p t]|[s c [b|]]|t|s p t]; cbn; unfold okm_eqb, cntm_eqb; cbn;
    rewrite ?str_eqb_refl, ?event_eqb_refl, ?Bool.eqb_reflx, ?Z.eqb_refl; reflexivity.
Qed.

(* ------------------------------------------------------------------ *)
(** * The oracle's memory against the model's state *)

Definition ans_vec (n : nat) (ans : list nat) : list bool :=
  List.map (fun i => existsb (Nat.eqb i) ans) (seq 0 n).

Definition rel1 (n : nat) (op : sub_phase) (wp : wphase) : Prop :=
  match op, wp with
  | PhOpen fs ans fwd, WOpen eo la se ms =>
      eo = ans_vec n ans /\ all_true eo = false /\ pre_inv fs la se ms fwd
  | PhDone, WClosed => True
  | PhClosed, WClosed => True
  | _, _ => False
  end.

Definition rel (n : nat) (s : state) (ph : list (str * sub_phase)) : Prop :=
  forall sub, rel1 n (phase_of sub ph) (rs_phase (st_rs s) sub).

Lemma phase_of_set_same sub p ph : phase_of sub (m_set sub p ph) = p.
Proof. unfold phase_of. now rewrite assoc_m_set_same. Qed.

Lemma phase_of_set_other sub k p ph : sub <> k -> phase_of k (m_set sub p ph) = phase_of k ph.
Proof. intro N. unfold phase_of. now rewrite assoc_m_set_other. Qed.

(** the model changed only [sub] (to phase [wp]); the oracle rebinds [sub] *)
Lemma rel_upd n s s' ph sub p wp :
  rel n s ph -> rs_upd (st_rs s) (st_rs s') sub wp -> rel1 n p wp -> rel n s' (m_set sub p ph).
Proof.
  intros H U Hp k. destruct (str_dec sub k) as [<-|N].
  - rewrite phase_of_set_same, (rs_upd_same _ _ _ _ U). exact Hp.
  - rewrite (phase_of_set_other _ _ _ _ N), (rs_upd_other _ _ _ _ _ U N). apply H.
Qed.

(** ... or keeps its binding *)
Lemma rel_upd_same n s s' ph sub wp :
  rel n s ph -> rs_upd (st_rs s) (st_rs s') sub wp -> rel1 n (phase_of sub ph) wp -> rel n s' ph.
Proof.
  intros H U Hp k. destruct (str_dec sub k) as [<-|N].
  - rewrite (rs_upd_same _ _ _ _ U). exact Hp.
  - rewrite (rs_upd_other _ _ _ _ _ U N). apply H.
Qed.

Lemma rel_same_rs n s s' ph : rel n s ph -> st_rs s' = st_rs s -> rel n s' ph.
Proof. intros H E k. rewrite E. apply H. Qed.

Lemma ans_vec_nil n : ans_vec n [] = repeat false n.
Proof.
  unfold ans_vec. cbn [existsb]. generalize 0%nat.
  induction n as [|n IH]; intro a; cbn; [reflexivity | now rewrite IH].
Qed.

Lemma ans_vec_length n ans : length (ans_vec n ans) = n.
Proof. unfold ans_vec. now rewrite map_length, seq_length. Qed.

Lemma ans_vec_upd n ans i : (i < n)%nat -> upd_nth i true (ans_vec n ans) = Some (ans_vec n (i :: ans)).
Proof.
  intro Hi. unfold ans_vec. rewrite upd_nth_map_seq by assumption. reflexivity.
Qed.

Lemma all_true_ans_vec n ans : all_true (ans_vec n ans) = covers n ans.
Proof. unfold all_true, ans_vec, covers. apply forallb_map_seq. Qed.

Lemma all_true_repeat_false n : (1 <= n)%nat -> all_true (repeat false n) = false.
Proof. intro H. destruct n; [lia | reflexivity]. Qed.

Lemma rs_upd_set_sub n r sub fs :
  rs_size r = n -> rs_upd r (rs_set_sub r sub fs) sub (ph0 n fs).
Proof.
  intro Hn. split; [reflexivity|]. split; [|split].
  - intros k N. rewrite rs_view_set_sub. apply str_dec_neq. congruence.
  - rewrite rs_view_set_sub, str_dec_refl. exact I.
  - unfold rs_phase. rewrite rs_view_set_sub, str_dec_refl, Hn. reflexivity.
Qed.

(* ------------------------------------------------------------------ *)
(** * An event the model forwards in an open window passes the oracle's test *)

Lemma ts_noninc_last l e : ts_noninc (l ++ [e]) -> forall p, In p l -> ev_ts e <= ev_ts p.
Proof.
  induction l as [|a l IH]; cbn; intros H p Hp; [destruct Hp|].
  destruct H as [H1 H2]. destruct Hp as [<-|Hp].
  - apply H1. apply in_or_app. right. now left.
  - now apply IH.
Qed.

Lemma pre_inv_snoc_ok fs la se ms fwd e :
  pre_inv fs la se ms (fwd ++ [e]) -> pre_eose_ok fs fwd e = true.
Proof.
  intros [Hf [Hm [Hnd [Hts [_ Hlim]]]]]. unfold pre_eose_ok.
  apply andb_true_iff. split; [apply andb_true_iff; split; [apply andb_true_iff; split|]|].
  - apply Forall_app in Hm as [_ Hm]. now inversion Hm.
  - apply negb_true_iff. destruct (existsb _ fwd) eqn:Ex; [|reflexivity]. exfalso.
    apply existsb_exists in Ex as [p [Hp E]]. apply andb_true_iff in E as [E1 E2].
    apply Z.eqb_eq in E1. apply str_eqb_eq in E2.
    rewrite map_app in Hnd. cbn [List.map] in Hnd. apply NoDup_remove_2 in Hnd. apply Hnd.
    rewrite app_nil_r. apply in_map_iff. exists p. split; [|assumption]. unfold ev_key. now rewrite E1, E2.
  - apply forallb_forall. intros p Hp. apply Z.leb_le. now apply (ts_noninc_last fwd e Hts).
  - destruct (single_limit fs) as [l|] eqn:El; [|reflexivity].
    unfold single_limit in El. destruct fs as [|f [|f2 fs2]]; try discriminate.
    destruct ms as [|m [|m2 ms2]]; cbn in Hf; try discriminate.
    assert (Em : lm_f m = f) by now inversion Hf.
    destruct (Hlim m eq_refl) as [_ H2]. specialize (H2 l). rewrite Em in H2. specialize (H2 El).
    rewrite app_length in H2. cbn [length] in H2. apply Z.leb_le. lia.
Qed.

(* ------------------------------------------------------------------ *)
(** * One step *)

Lemma list_eqb_single m : list_eqb smsg_eqb [m] [m] = true.
Proof. cbn. now rewrite smsg_eqb_refl. Qed.

Lemma oracle_step n s ph x :
  (1 <= n)%nat -> state_ok n s -> rel n s ph -> input_ok n x ->
  exists ph',
    (forall t', c08_scan n ((x, out_list (snd (merge_step s x))) :: t') ph = c08_scan n t' ph') /\
    rel n (fst (merge_step s x)) ph'.
Proof.
  intros Hn Hs Hrel Hx. pose proof Hs as [Hd [Hr [Ho Hc]]].
  unfold merge_step. rewrite Hd.
  destruct x as [sub fs|sub|id|sub|i m]; cbn [fst snd out_list].
  - (* REQ *)
    exists (m_set sub (PhOpen fs [] []) ph). split; [intro t'; reflexivity|].
    apply (rel_upd n s _ ph sub _ (ph0 n fs)); [assumption | apply rs_upd_set_sub; apply Hr|].
    cbn. split; [symmetry; apply ans_vec_nil|]. split; [now apply all_true_repeat_false | apply pre_inv_init].
  - (* CLOSE *)
    exists (m_set sub PhClosed ph). split; [intro t'; reflexivity|].
    apply (rel_upd n s _ ph sub _ WClosed); [assumption | apply rs_upd_clear | exact I].
  - exists ph. split; [intro t'; reflexivity | now apply (rel_same_rs n s)].
  - exists ph. split; [intro t'; reflexivity | now apply (rel_same_rs n s)].
  - destruct m as [sub|sub e|m|c|t|sub p t]; cbn [input_ok] in Hx.
    + (* EOSE of child i *)
      destruct (send_eose_spec n s i sub Hr Hx) as [r' [E U]]. rewrite E. cbn [fst snd].
      pose proof (Hrel sub) as R. cbn [c08_scan].
      destruct (phase_of sub ph) as [fs ans fwd| |] eqn:Ep;
        destruct (rs_phase (st_rs s) sub) as [eo la se ms|] eqn:Ew; cbn [rel1] in R; try contradiction.
      * destruct R as [Eeo [Hat Hinv]]. subst eo. cbn [w_eose] in *. rewrite Hat in *.
        rewrite (ans_vec_upd n ans i Hx) in *. rewrite all_true_ans_vec in *.
        destruct (covers n (i :: ans)) eqn:Ec; cbn [fst snd out_list] in *.
        -- exists (m_set sub PhDone ph). split; [intro t'; now rewrite list_eqb_single|].
           apply (rel_upd n s (with_rs s r') ph sub PhDone WClosed); [assumption | exact U | exact I].
        -- exists (m_set sub (PhOpen fs (i :: ans) fwd) ph). split; [intro t'; reflexivity|].
           apply (rel_upd n s (with_rs s r') ph sub _ _ Hrel U). cbn. split; [reflexivity|].
           split; [now rewrite all_true_ans_vec | assumption].
      * cbn [w_eose fst snd out_list] in *. exists ph. split; [intro t'; reflexivity|].
        apply (rel_upd_same n s (with_rs s r') ph sub WClosed Hrel U). now rewrite Ep.
      * cbn [w_eose fst snd out_list] in *. exists ph. split; [intro t'; reflexivity|].
        apply (rel_upd_same n s (with_rs s r') ph sub WClosed Hrel U). now rewrite Ep.
    + (* EVENT of child i *)
      destruct Hx as [Hi Hne].
      destruct (send_event_spec n s i sub e Hr Hi Hne) as [r' [E U]]. rewrite E. cbn [fst snd].
      pose proof (Hrel sub) as R. cbn [c08_scan].
      destruct (phase_of sub ph) as [fs ans fwd| |] eqn:Ep;
        destruct (rs_phase (st_rs s) sub) as [eo la se ms|] eqn:Ew; cbn [rel1] in R; try contradiction.
      * destruct R as [Eeo [Hat Hinv]].
        assert (Hnth : nth_error eo i <> None).
        { intro En. apply nth_error_None in En. rewrite Eeo, ans_vec_length in En. lia. }
        destruct (w_event_pre fs eo la se ms fwd i e Hat Hnth Hinv) as [la' [se' [ms' [E' Hinv']]]].
        rewrite E' in U.
        destruct (snd (w_event (WOpen eo la se ms) i e)); cbn [out_list].
        -- exists (m_set sub (PhOpen fs ans (fwd ++ [e])) ph). split.
           ++ intro t'. now rewrite smsg_eqb_refl, (pre_inv_snoc_ok _ _ _ _ _ _ Hinv').
           ++ apply (rel_upd n s (with_rs s r') ph sub _ _ Hrel U). cbn. auto.
        -- exists ph. split; [intro t'; reflexivity|].
           apply (rel_upd_same n s (with_rs s r') ph sub _ Hrel U). rewrite Ep. cbn. auto.
      * cbn [w_event fst snd out_list] in *. exists ph. split; [intro t'; now rewrite list_eqb_single|].
        apply (rel_upd_same n s (with_rs s r') ph sub WClosed Hrel U). now rewrite Ep.
      * cbn [w_event fst snd out_list] in *. exists ph. split; [intro t'; now rewrite smsg_eqb_refl|].
        apply (rel_upd_same n s (with_rs s r') ph sub WClosed Hrel U). now rewrite Ep.
    + (* OK *)
      destruct (send_ok_spec n s i m Ho Hx) as [o' [E _]]. rewrite E. cbn [fst snd].
      exists ph. split; [|now apply (rel_same_rs n s)].
      intro t'. cbn [c08_scan]. unfold out_ok. destruct (snd (w_put _ i m)); [|reflexivity].
      destruct (ok_merge _); reflexivity.
    + (* COUNT *)
      destruct (send_count_spec n s i c Hc Hx) as [c' [E _]]. rewrite E. cbn [fst snd].
      exists ph. split; [|now apply (rel_same_rs n s)].
      intro t'. cbn [c08_scan]. unfold out_cnt. destruct (snd (w_put _ i c)); [|reflexivity].
      destruct (cnt_merge _); reflexivity.
    + exists ph. split; [intro t'; cbn [c08_scan out_list snd]; now rewrite list_eqb_single | assumption].
    + exists ph. split; [intro t'; cbn [c08_scan out_list snd]; now rewrite list_eqb_single | assumption].
Qed.

(* ------------------------------------------------------------------ *)
(** * Every history *)

Lemma oracle_run n t : forall s ph,
  (1 <= n)%nat -> state_ok n s -> rel n s ph -> trace_ok n t -> c08_scan n (obs_of s t) ph = true.
Proof.
  induction t as [|x t IH]; intros s ph Hn Hs Hrel Ht; [reflexivity|].
  inversion Ht as [|? ? Hx Ht']; subst. rewrite obs_of_cons.
  destruct (oracle_step n s ph x Hn Hs Hrel Hx) as [ph' [Esc Hrel']]. rewrite Esc.
  apply IH; [assumption | now apply step_ok | assumption | assumption].
Qed.

Lemma rel_init n : rel n (init n) [].
Proof. intro sub. cbn. exact I. Qed.

(** the C08 oracle accepts the model's behaviour on every gated history *)
Theorem model_satisfies_c08_oracle n t :
  (1 <= n)%nat -> trace_ok n t -> c08_oracle n (obs_of (init n) t) = true.
Proof. intros Hn Ht. apply oracle_run; auto using init_ok, rel_init. Qed.

(** hence: an observation the model reproduces is an observation the oracle
    accepts (the two halves of the correspondence check are coherent) *)
Lemma list_eqb_smsg_eq a b : list_eqb smsg_eqb a b = true -> a = b.
Proof.
  assert (E : forall x y, smsg_eqb x y = true <-> x = y).
  { intros x y. split; [|intros ->; apply smsg_eqb_refl].
    destruct x as [s|s e|[i a0 p t]|[s c ap]|t|s p t]; destruct y as [s'|s' e'|[i' a' p' t']|[s' c' ap']|t'|s' p' t'];
      cbn; try discriminate; rewrite ?andb_true_iff, ?str_eqb_eq, ?event_eqb_eq.
    - now intros ->.
    - now intros [-> ->].
    - unfold okm_eqb. cbn. rewrite !andb_true_iff, !str_eqb_eq, Bool.eqb_true_iff. now intros [[[-> ->] ->] ->].
    - unfold cntm_eqb. cbn. rewrite !andb_true_iff, str_eqb_eq, Z.eqb_eq. intros [[-> ->] H].
      destruct ap as [[]|], ap' as [[]|]; cbn in H; try discriminate; reflexivity.
    - now intros ->.
    - now intros [[-> ->] ->]. }
  apply (list_eqb_eq smsg_eqb E).
Qed.

Lemma model_agrees_obs t : forall s, model_agrees s t = true -> t = obs_of s (List.map fst t).
Proof.
  induction t as [|[x obs] t IH]; intros s H; [reflexivity|].
  cbn [model_agrees] in H. destruct (merge_step s x) as [s1 o] eqn:E.
  apply andb_true_iff in H as [H H3]. apply andb_true_iff in H as [_ H2].
  cbn [List.map fst]. rewrite obs_of_cons, E. cbn [fst snd].
  apply list_eqb_smsg_eq in H2. rewrite H2. f_equal. now apply IH.
Qed.

Theorem agreement_implies_c08_oracle n t :
  (1 <= n)%nat -> trace_ok n (List.map fst t) -> model_agrees (init n) t = true -> c08_oracle n t = true.
Proof.
  intros Hn Ht Ha. rewrite (model_agrees_obs t (init n) Ha). now apply model_satisfies_c08_oracle.
Qed.
