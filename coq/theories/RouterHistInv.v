(* RouterHistInv.v — C07: invariants of the instrumented run that connect the
   model's state with the stamps of the history: which operation a
   publication tag belongs to, which REQ a registry entry belongs to. *)
From Moc Require Import Base Match Router RouterSpec RouterHist RouterLemmas RouterFrame RouterTrans RouterData
  RouterMust RouterEnv RouterInv RouterDataInv RouterOnce RouterOrder RouterReplies RouterProofs RouterHistBase.
From Coq Require Import Sorted.
Open Scope Z_scope.

Ltac upd_x x :=
  match goal with |- context [upd ?f ?k ?v x] => destruct (upd_cases f k v x) as [[-> ->]|[_ ->]] end.

(* ------------------------------------------------------------------ *)
(** * A cancelled session has accepted a disconnect *)

Definition DDInv (s : rstate) : Prop := forall x, c_dead (r_cs s x) = true -> In ODisc (c_ops (r_cs s x)).

Lemma DDInv_reachable buf s : reachable buf s -> DDInv s.
Proof.
  apply (reachable_ind' DDInv buf); [intros x H; discriminate|].
  intros s0 l s1 _ D T x Hd.
  destruct (trans_ops _ _ _ x T) as [[E1 E2]|(o & _ & _ & E1 & E2 & _)].
  - rewrite E1. apply D. congruence.
  - rewrite E1. rewrite E2 in Hd. destruct o; try discriminate. apply in_or_app. right. now left.
Qed.

(* ------------------------------------------------------------------ *)
(** * The program of a busy connection ends with the last instruction of
      its current operation *)

Definition fin_instr (o : op) : instr :=
  match o with
  | OReq sub _ => IEose sub
  | OClose sub => ISubDel sub
  | OCount sub => ICount sub
  | OEvent e => IOk (ev_id e)
  | ODisc => IUnsubAll
  end.

Definition LOInv (s : rstate) : Prop :=
  forall x, c_pc (r_cs s x) <> [] ->
    exists ops0 o pre, c_ops (r_cs s x) = ops0 ++ [o] /\ c_pc (r_cs s x) = pre ++ [fin_instr o].

Lemma program_fin s c o : program s c o = [] \/ exists pre, program s c o = pre ++ [fin_instr o].
Proof.
  destruct o; cbn.
  - right. destruct (reg_get c (r_reg s)); [exists [ISubAdd sub fs] | exists [IRegAdd; ISubAdd sub fs]]; reflexivity.
  - destruct (reg_get c (r_reg s)); [right; exists []; reflexivity | now left].
  - right. exists []. reflexivity.
  - right. exists [IPubBegin e]. reflexivity.
  - right. exists []. reflexivity.
Qed.

(** how the program of the acting connection changes: the head is consumed,
    possibly replaced by new instructions in front of a non-empty rest *)
Lemma trans_pc_actor s l s' x :
  Inv s -> trans s l s' -> label_of_conn x l = true ->
  (exists o, (l = LOp x o \/ (l = LRun x /\ o = ODisc /\ In x (r_cancel s))) /\
             c_pc (r_cs s x) = [] /\ c_pc (r_cs s' x) = program s x o) \/
  (exists i rest heads, c_pc (r_cs s x) = i :: rest /\ c_pc (r_cs s' x) = heads ++ rest /\ (heads = [] \/ rest <> []) /\
                        (l = LRun x \/ (exists c' ord, l = LVisit x c' ord) \/ l = LSkip x)) \/
  (l = LOp x ODisc /\ c_pc (r_cs s x) <> [] /\ c_pc (r_cs s' x) = c_pc (r_cs s x)).
Proof.
  intros I T Hl.
  assert (Hact : forall c, label_of_conn x (LRun c) = true -> x = c)
    by (intros c H; cbn in H; now apply Nat.eqb_eq in H).
  inversion T; subst; cbn [label_of_conn] in Hl; try discriminate; try (apply Hact in Hl; subst x);
    cbn [r_cs with_cs].
  - left. exists o. rewrite upd_same. auto.
  - right; left. exists IRegAdd, rest, []. rewrite upd_same. auto 6.
  - right; left. exists (ISubAdd sub fs), rest, []. rewrite upd_same. auto 6.
  - right; left. exists (ISubAdd sub fs), rest, []. rewrite upd_same. auto 6.
  - right; left. exists (ISubDel sub), rest, []. rewrite upd_same. auto 6.
  - right; left. exists (ISubDel sub), rest, []. rewrite upd_same. auto 6.
  - right; left. exists i, rest, []. rewrite upd_same. auto 6.
  - right; left. exists (IPubBegin e), rest, [IPub e (c, c_ctr (r_cs s c)) (List.map fst (r_reg s))]. rewrite upd_same. cbn.
    repeat split; auto. right. pose proof (inv_pc s I c) as P. rewrite H in P.
    rewrite (pc_ok_inv_pubbegin _ _ _ _ P). discriminate.
  - right; left. exists (IPub e t []), rest, []. rewrite upd_same. auto 6.
  - assert (x = c) by (destruct H1 as [->|[-> _]]; cbn in Hl; now apply Nat.eqb_eq in Hl). subst x.
    right; left. unfold start_visit. cbn [r_cs with_cs].
    rewrite (pc_upd2 _ _ _ _ (fun st => set_rd st (c :: c_rd st))) by (intro; reflexivity). rewrite upd_same. cbn.
    eexists _, rest, [_; _]. split; [eassumption|]. split; [reflexivity|]. split.
    + right. pose proof (inv_pc s I c) as P. rewrite H in P.
      destruct (pc_ok_inv_pub _ _ _ _ _ _ P) as (n & id & _ & -> & _). discriminate.
    + destruct H1 as [->|[-> _]]; eauto.
  - right; left.
    rewrite (pc_upd2 _ _ _ _ (fun st => set_rd st (remove_conn c (c_rd st)))) by (intro; reflexivity). rewrite upd_same. cbn.
    eexists _, rest, []. eauto 6.
  - right; left.
    rewrite (pc_upd2 _ _ _ _ (send_if_match (r_buf s) e t sub fs)) by (intro; apply ctl_send_if_match). rewrite upd_same. cbn.
    eexists _, rest, [_]. split; [eassumption|]. split; [reflexivity|]. split; [|auto]. right.
    pose proof (inv_pc s I c) as P. rewrite H in P.
    destruct (pc_ok_inv_visit _ _ _ _ _ _ _ P) as (n & rem & id & _ & -> & _). discriminate.
  - right; left. exists IUnsubAll, rest, []. rewrite upd_same. auto 6.
  - right; right. auto.
  - right; left. exists i, rest, []. rewrite upd_same. cbn. auto 7.
  - left. exists ODisc. rewrite upd_same. cbn. auto 7.
Qed.

Lemma LOInv_reachable buf s : reachable buf s -> LOInv s.
Proof.
  intro R. induction R as [|s l R IH]; [intros x H; cbn in H; congruence|].
  destruct (step_trans s l) as [E|T]; [now rewrite E|].
  pose proof (Inv_reachable buf s R) as I. intros x Hx.
  destruct (label_of_conn x l) eqn:Hl.
  - destruct (trans_pc_actor s l _ x I T Hl) as [(o & El & Hpc & Hpc')|[(i & rest & heads & Hpc & Hpc' & Hh & Hlab)|(El & Hne & Hpc')]].
    + destruct (trans_ops _ _ _ x T) as [[E _]|(o' & El' & _ & E & _ & Ep)].
      * exfalso. (* the operations did not grow although one was accepted *)
        destruct El as [->|(-> & -> & Hc)].
        -- pose proof (trans_actor _ _ _ T) as (A1 & A2 & _).
           unfold step in E. cbn [enabled step_enabled] in E. rewrite Hpc, A1 in E. apply mem_conn_false in A2. rewrite A2 in E.
           cbn [orb r_cs with_cs] in E. rewrite upd_same in E. cbn in E. apply (f_equal (@length op)) in E. rewrite app_length in E. cbn in E. lia.
        -- unfold step in E. cbn [enabled step_enabled] in E. unfold run_instr in E. rewrite Hpc in E. apply mem_conn_In in Hc. rewrite Hc in E.
           cbn [r_cs] in E. rewrite upd_same in E. cbn in E. apply (f_equal (@length op)) in E. rewrite app_length in E. cbn in E. lia.
      * assert (o' = o).
        { rewrite Hpc' in Ep. destruct El as [->|(-> & -> & _)], El' as [El'|(El' & -> & _)]; try discriminate; try reflexivity.
          now inversion El'. }
        subst o'. rewrite E, Hpc'.
        destruct (program_fin s x o) as [P0|[pre P0]]; [rewrite Hpc', P0 in Hx; contradiction|].
        exists (c_ops (r_cs s x)), o, pre. auto.
    + assert (Hne : c_pc (r_cs s x) <> []) by (rewrite Hpc; discriminate).
      destruct (IH x Hne) as (ops0 & o & pre & Eo & Ep).
      assert (Eops : c_ops (r_cs (step s l) x) = c_ops (r_cs s x)).
      { destruct (trans_ops _ _ _ x T) as [[E _]|(o' & _ & Hp & _)]; [assumption | congruence]. }
      rewrite Eops, Hpc'. exists ops0, o.
      destruct rest as [|i2 rest2].
      * destruct Hh as [->|Hh]; [|contradiction]. rewrite Hpc' in Hx. cbn in Hx. contradiction.
      * rewrite Hpc in Ep. destruct pre as [|i0 pre]; [cbn in Ep; inversion Ep|].
        cbn in Ep. inversion Ep as [[E1 E2]]. exists (heads ++ pre). rewrite E2. split; [assumption | now rewrite app_assoc].
    + destruct (IH x Hne) as (ops0 & o & pre & Eo & Ep). rewrite Hpc'. exists ops0, o, pre. split; [|assumption].
      destruct (trans_ops _ _ _ x T) as [[E _]|(o' & _ & Hp & _)]; [now rewrite E | contradiction].
  - rewrite (trans_pc_other _ _ _ _ T Hl) in *.
    destruct (IH x Hx) as (ops0 & o & pre & Eo & Ep). exists ops0, o, pre. split; [|assumption].
    destruct (ctl_fields _ _ (trans_ctl_other _ _ _ x T Hl)) as (_ & _ & E & _). now rewrite E.
Qed.

(* ------------------------------------------------------------------ *)
(** * Publication tags and operations *)

Definition is_pubbegin (i : instr) : bool := match i with IPubBegin _ => true | _ => false end.
Definition count_pb (pc : list instr) : nat := count_occ_b is_pubbegin pc.

Definition pub_instr (e : event) (t : ptag) (i : instr) : Prop :=
  match i with
  | IPub e' t' _ => e' = e /\ t' = t
  | IVisit e' t' _ _ => e' = e /\ t' = t
  | _ => False
  end.

(** the program is inside publication [t] of event [e] *)
Definition cur_pub (pc : list instr) (e : event) (t : ptag) : Prop := exists i, In i pc /\ pub_instr e t i.

Record PubInv (st : istate) : Prop := mkPubInv {
  p_len : forall p, length (pubs_of p (i_hops st)) = (c_ctr (r_cs (i_s st) p) + count_pb (c_pc (r_cs (i_s st) p)))%nat;
  p_begin : forall p e, In (IPubBegin e) (c_pc (r_cs (i_s st) p)) ->
              exists P, pub_nth (i_hops st) p (c_ctr (r_cs (i_s st) p)) P /\ h_o P = OEvent e /\ h_d P = None;
  p_cur : forall p e t, cur_pub (c_pc (r_cs (i_s st) p)) e t ->
              exists P, fst t = p /\ pub_nth (i_hops st) p (snd t) P /\ h_o P = OEvent e /\ h_d P = None
}.

Lemma PubInv_init buf : PubInv (i_init buf).
Proof.
  constructor; cbn.
  - reflexivity.
  - intros; contradiction.
  - intros p e t (i & [] & _).
Qed.

Lemma count_pb_program s c o : count_pb (program s c o) = if is_pub_op o then 1%nat else 0%nat.
Proof. destruct o; cbn; try reflexivity; destruct (reg_get c (r_reg s)); reflexivity. Qed.

Lemma program_pubbegin s c o e : In (IPubBegin e) (program s c o) -> o = OEvent e.
Proof.
  destruct o; cbn; try (destruct (reg_get c (r_reg s))); cbn; intro H;
    repeat (destruct H as [H|H]; [try discriminate|]); try contradiction.
  all: now inversion H.
Qed.

Lemma program_no_cur s c o e t : ~ cur_pub (program s c o) e t.
Proof.
  intros (i & Hin & Hp). destruct o; cbn in Hin; try (destruct (reg_get c (r_reg s))); cbn in Hin;
    repeat (destruct Hin as [Hin|Hin]; [subst i; cbn in Hp; try contradiction|]); try contradiction.
Qed.

Lemma trans_pub_view s l s' p :
  Inv s -> trans s l s' -> label_of_conn p l = true ->
  (exists o, l = LOp p o /\ c_pc (r_cs s p) = [] /\ c_pc (r_cs s' p) = program s p o /\ c_ctr (r_cs s' p) = c_ctr (r_cs s p)) \/
  (exists e, l = LRun p /\ c_pc (r_cs s p) = [IPubBegin e; IOk (ev_id e)] /\
             c_pc (r_cs s' p) = [IPub e (p, c_ctr (r_cs s p)) (List.map fst (r_reg s)); IOk (ev_id e)] /\
             c_ctr (r_cs s' p) = S (c_ctr (r_cs s p))) \/
  (c_ctr (r_cs s' p) = c_ctr (r_cs s p) /\ count_pb (c_pc (r_cs s' p)) = count_pb (c_pc (r_cs s p)) /\
   (forall e, In (IPubBegin e) (c_pc (r_cs s' p)) -> In (IPubBegin e) (c_pc (r_cs s p))) /\
   (forall e t, cur_pub (c_pc (r_cs s' p)) e t -> cur_pub (c_pc (r_cs s p)) e t) /\
   (l = LRun p \/ (exists c2 ord, l = LVisit p c2 ord) \/ l = LSkip p)) \/
  (l = LOp p ODisc /\ c_pc (r_cs s p) <> [] /\ c_pc (r_cs s' p) = c_pc (r_cs s p) /\ c_ctr (r_cs s' p) = c_ctr (r_cs s p)).
Proof.
  intros I T Hl.
  assert (Hact : forall c, label_of_conn p (LRun c) = true -> p = c)
    by (intros c H; cbn in H; now apply Nat.eqb_eq in H).
  assert (Pop : forall i rest, c_pc (r_cs s p) = i :: rest -> is_pubbegin i = false ->
                (forall e t, ~ pub_instr e t i) \/ True ->
                count_pb rest = count_pb (c_pc (r_cs s p)) /\
                (forall e, In (IPubBegin e) rest -> In (IPubBegin e) (c_pc (r_cs s p))) /\
                (forall e t, cur_pub rest e t -> cur_pub (c_pc (r_cs s p)) e t)).
  { intros i rest E Hi _. rewrite E. split; [unfold count_pb; cbn; now rewrite Hi|]. split.
    - intros e H. now right.
    - intros e t (j & Hj & Hp). exists j. split; [now right | assumption]. }
  inversion T; subst; cbn [label_of_conn] in Hl; try discriminate; try (apply Hact in Hl; subst p);
    cbn [r_cs with_cs].
  - left. exists o. rewrite upd_same. cbn. auto.
  - right; right; left. rewrite upd_same. cbn [c_ctr c_pc set_pc]. destruct (Pop _ _ H eq_refl (or_intror Logic.I)) as (A & B & C). eauto 10.
  - right; right; left. rewrite upd_same. cbn [c_ctr c_pc set_pc]. destruct (Pop _ _ H eq_refl (or_intror Logic.I)) as (A & B & C). eauto 10.
  - right; right; left. rewrite upd_same. cbn [c_ctr c_pc set_pc]. destruct (Pop _ _ H eq_refl (or_intror Logic.I)) as (A & B & C). eauto 10.
  - right; right; left. rewrite upd_same. cbn [c_ctr c_pc set_pc]. destruct (Pop _ _ H eq_refl (or_intror Logic.I)) as (A & B & C). eauto 10.
  - right; right; left. rewrite upd_same. cbn [c_ctr c_pc set_pc]. destruct (Pop _ _ H eq_refl (or_intror Logic.I)) as (A & B & C). eauto 10.
  - right; right; left. rewrite upd_same. cbn [c_ctr c_pc set_pc push_out].
    assert (Hi : is_pubbegin i = false) by (destruct i; cbn in H0; try contradiction; reflexivity).
    destruct (Pop _ _ H Hi (or_intror Logic.I)) as (A & B & C). eauto 10.
  - right; left. exists e. rewrite upd_same. cbn [c_ctr c_pc].
    pose proof (inv_pc s I c) as P. rewrite H in P. rewrite (pc_ok_inv_pubbegin _ _ _ _ P) in *. auto.
  - right; right; left. rewrite upd_same. cbn [c_ctr c_pc set_pc]. destruct (Pop _ _ H eq_refl (or_intror Logic.I)) as (A & B & C). eauto 10.
  - (* visit *)
    assert (p = c) by (destruct H1 as [->|[-> _]]; cbn in Hl; now apply Nat.eqb_eq in Hl). subst p.
    right; right; left. unfold start_visit. cbn [r_cs with_cs].
    rewrite (pc_upd2 _ _ _ _ (fun st => set_rd st (c :: c_rd st))) by (intro; reflexivity).
    rewrite (ctr_upd2 _ _ _ _ (fun st => set_rd st (c :: c_rd st))) by (intro; reflexivity).
    rewrite upd_same. cbn [c_ctr c_pc set_pc]. rewrite H. split; [reflexivity|]. split; [reflexivity|]. split; [|split].
    + intros e0 [X|[X|X]]; try discriminate. now right.
    + intros e0 t0 (j & [<-|[<-|Hj]] & Hp); cbn in Hp.
      * exists (IPub e t rem). split; [now left | exact Hp].
      * exists (IPub e t rem). split; [now left | exact Hp].
      * exists j. split; [now right | assumption].
    + destruct H1 as [->|[-> _]]; eauto.
  - right; right; left.
    rewrite (pc_upd2 _ _ _ _ (fun st => set_rd st (remove_conn c (c_rd st)))) by (intro; reflexivity).
    rewrite (ctr_upd2 _ _ _ _ (fun st => set_rd st (remove_conn c (c_rd st)))) by (intro; reflexivity).
    rewrite upd_same. cbn [c_ctr c_pc set_pc]. destruct (Pop _ _ H eq_refl (or_intror Logic.I)) as (A & B & C). eauto 10.
  - right; right; left.
    rewrite (pc_upd2 _ _ _ _ (send_if_match (r_buf s) e t sub fs)) by (intro; apply ctl_send_if_match).
    rewrite (ctr_upd2 _ _ _ _ (send_if_match (r_buf s) e t sub fs)) by (intro; apply ctl_send_if_match).
    rewrite upd_same. cbn [c_ctr c_pc set_pc]. rewrite H. split; [reflexivity|]. split; [reflexivity|]. split; [|split].
    + intros e0 [X|X]; [discriminate | now right].
    + intros e0 t0 (j & [<-|Hj] & Hp); cbn in Hp.
      * exists (IVisit e t c' ((sub, fs) :: todo)). split; [now left | exact Hp].
      * exists j. split; [now right | assumption].
    + auto.
  - right; right; left. rewrite upd_same. cbn [c_ctr c_pc]. destruct (Pop _ _ H eq_refl (or_intror Logic.I)) as (A & B & C). eauto 10.
  - (* cancel *) right; right; right. auto.
  - (* skip *)
    right; right; left. rewrite upd_same. cbn [c_ctr c_pc set_pc].
    assert (Hi : is_pubbegin i = false) by (destruct i; cbn in H0; try contradiction; reflexivity).
    destruct (Pop _ _ H Hi (or_intror Logic.I)) as (A & B & C). eauto 10.
  - (* defer *)
    right; right; left. rewrite upd_same. cbn [c_ctr c_pc]. rewrite H. split; [reflexivity|]. split; [reflexivity|]. split; [|split].
    + intros e [X|[]]. discriminate.
    + intros e t (j & [<-|[]] & Hp). contradiction.
    + auto.
Qed.

Lemma istep_pubs_other st l p :
  label_of_conn p l = false -> pubs_of p (i_hops (istep st l)) = pubs_of p (i_hops st).
Proof.
  intro Hl. destruct (step_trans (i_s st) l) as [E|T].
  - now destruct (istep_stutter st l E) as [-> _].
  - rewrite (istep_hops_trans st l T). destruct l as [c o|c|c c' ord|c|c|c]; try reflexivity; cbn in Hl.
    + rewrite pubs_of_app. unfold pubs_of at 2. cbn [filter h_c]. rewrite Nat.eqb_sym, Hl. cbn. apply app_nil_r.
    + destruct (_ && _); [|reflexivity]. rewrite pubs_of_close.
      rewrite <- (map_id (pubs_of p (i_hops st))) at 2. apply map_ext_in.
      intros h Hin. apply filter_In in Hin as [_ Hin]. apply andb_true_iff in Hin as [Hin _]. apply Nat.eqb_eq in Hin.
      apply close1_other. apply Nat.eqb_neq in Hl. congruence.
Qed.

Lemma pub_nth_close H p d c k n P : pub_nth H p n P -> pub_nth (close_hop d c k H) p n (close1 d c k P).
Proof. intro E. unfold pub_nth. rewrite pubs_of_close. now apply map_nth_error. Qed.

Theorem PubInv_step buf st l : reachable buf (i_s st) -> PubInv st -> PubInv (istep st l).
Proof.
  intros R PI. pose proof (Inv_reachable buf _ R) as I.
  destruct (step_trans (i_s st) l) as [E|T].
  { destruct (istep_stutter st l E) as [EH _].
    constructor; rewrite ?istep_s, ?EH, ?E; apply PI. }
  assert (Other : forall p, label_of_conn p l = false ->
            pubs_of p (i_hops (istep st l)) = pubs_of p (i_hops st) /\
            c_pc (r_cs (step (i_s st) l) p) = c_pc (r_cs (i_s st) p) /\
            c_ctr (r_cs (step (i_s st) l) p) = c_ctr (r_cs (i_s st) p)).
  { intros p Hl. split; [now apply istep_pubs_other|].
    destruct (ctl_fields _ _ (trans_ctl_other _ _ _ p T Hl)) as (E1 & _ & _ & E2). auto. }
  pose proof (istep_hops_trans st l T) as EH.
  (* when the program of p goes on, the operations of p are unchanged *)
  assert (Keep : forall p, (l = LRun p \/ (exists c2 ord, l = LVisit p c2 ord) \/ l = LSkip p) ->
            c_pc (r_cs (step (i_s st) l) p) <> [] -> i_hops (istep st l) = i_hops st).
  { intros p Hlab Hne. rewrite EH. destruct Hlab as [->|[(c2 & ord & ->)| ->]]; try reflexivity.
    apply is_nil_false in Hne. rewrite Hne. now rewrite andb_false_r. }
  assert (Len : forall p, (l = LRun p \/ (exists c2 ord, l = LVisit p c2 ord) \/ l = LSkip p) ->
            length (pubs_of p (i_hops (istep st l))) = length (pubs_of p (i_hops st))).
  { intros p Hlab. rewrite EH. destruct Hlab as [->|[(c2 & ord & ->)| ->]]; try reflexivity.
    destruct (_ && _); [|reflexivity]. rewrite pubs_of_close. apply map_length. }
  constructor; rewrite ?istep_s.
  - (* p_len *)
    intro p. destruct (label_of_conn p l) eqn:Hl; [|destruct (Other p Hl) as (-> & -> & ->); apply PI].
    destruct (trans_pub_view _ _ _ p I T Hl) as [(o & -> & Hpc & Hpc' & Hc)|[(e & -> & Hpc & Hpc' & Hc)|[(Hc & Hn & _ & _ & Hlab)|(-> & Hne & Hpc' & Hc)]]].
    + rewrite EH, pubs_of_app, app_length, Hpc', Hc, count_pb_program. pose proof (p_len st PI p) as L. rewrite Hpc in L. cbn in L.
      unfold pubs_of at 2. cbn [filter h_c h_o]. rewrite Nat.eqb_refl. cbn [andb]. destruct (is_pub_op o); cbn; lia.
    + rewrite (Len p (or_introl eq_refl)), Hpc', Hc. pose proof (p_len st PI p) as L. rewrite Hpc in L. cbn in L |- *. lia.
    + rewrite (Len p Hlab), Hc, Hn. apply (p_len st PI p).
    + rewrite EH, pubs_of_app, app_length, Hpc', Hc. unfold pubs_of at 2. cbn [filter h_o is_pub_op]. rewrite andb_false_r. cbn [length].
      rewrite Nat.add_0_r. apply (p_len st PI p).
  - (* p_begin *)
    intros p e Hin. destruct (label_of_conn p l) eqn:Hl.
    2:{ destruct (Other p Hl) as (E1 & E2 & E3). unfold pub_nth. rewrite E1, E3. rewrite E2 in Hin. now apply PI. }
    destruct (trans_pub_view _ _ _ p I T Hl) as [(o & -> & Hpc & Hpc' & Hc)|[(e0 & -> & Hpc & Hpc' & Hc)|[(Hc & _ & Hb & _ & Hlab)|(-> & Hne & Hpc' & Hc)]]].
    + rewrite Hpc' in Hin. apply program_pubbegin in Hin. subst o.
      exists (mkHop p (OEvent e) (i_now st) None). rewrite EH, Hc. split; [|auto].
      unfold pub_nth. rewrite pubs_of_app. pose proof (p_len st PI p) as L. rewrite Hpc in L. cbn in L.
      rewrite nth_error_app2 by lia. replace (_ - _)%nat with 0%nat by lia.
      unfold pubs_of. cbn. now rewrite Nat.eqb_refl.
    + rewrite Hpc' in Hin. destruct Hin as [X|[X|[]]]; discriminate.
    + specialize (Hb e Hin). rewrite Hc. destruct (p_begin st PI p e Hb) as (P & H1 & H2 & H3).
      assert (Hne : c_pc (r_cs (step (i_s st) l) p) <> []) by (intro X; rewrite X in Hin; contradiction).
      exists P. rewrite (Keep p Hlab Hne). auto.
    + rewrite Hpc' in Hin. rewrite Hc. destruct (p_begin st PI p e Hin) as (P & H1 & H2 & H3).
      exists P. split; [|auto]. rewrite EH. unfold pub_nth in *. rewrite pubs_of_app, nth_error_app1; [assumption|].
      apply nth_error_Some. congruence.
  - (* p_cur *)
    intros p e t Hcur. destruct (label_of_conn p l) eqn:Hl.
    2:{ destruct (Other p Hl) as (E1 & E2 & E3). unfold pub_nth. rewrite E1. rewrite E2 in Hcur. now apply PI. }
    destruct (trans_pub_view _ _ _ p I T Hl) as [(o & -> & Hpc & Hpc' & Hc)|[(e0 & -> & Hpc & Hpc' & Hc)|[(Hc & _ & _ & Hb & Hlab)|(-> & Hne & Hpc' & Hc)]]].
    + rewrite Hpc' in Hcur. exfalso. eapply program_no_cur. eassumption.
    + rewrite Hpc' in Hcur. destruct Hcur as (i & [<-|[<-|[]]] & Hp); cbn in Hp; [|contradiction].
      destruct Hp as [<- <-]. cbn [fst snd].
      destruct (p_begin st PI p e0) as (P & H1 & H2 & H3); [rewrite Hpc; now left|].
      assert (Hne : c_pc (r_cs (step (i_s st) (LRun p)) p) <> []) by (rewrite Hpc'; discriminate).
      exists P. rewrite (Keep p (or_introl eq_refl) Hne). auto.
    + specialize (Hb e t Hcur). destruct (p_cur st PI p e t Hb) as (P & H0 & H1 & H2 & H3).
      assert (Hne : c_pc (r_cs (step (i_s st) l) p) <> []) by (intro X; rewrite X in Hcur; destruct Hcur as (? & [] & _)).
      exists P. rewrite (Keep p Hlab Hne). auto.
    + rewrite Hpc' in Hcur. destruct (p_cur st PI p e t Hcur) as (P & H0 & H1 & H2 & H3).
      exists P. split; [assumption|]. split; [|auto]. rewrite EH. unfold pub_nth in *. rewrite pubs_of_app, nth_error_app1; [assumption|].
      apply nth_error_Some. congruence.
Qed.

(* ------------------------------------------------------------------ *)
(** * Every registry entry belongs to a REQ, and whatever the client has
      issued after that REQ against the same id has not taken effect yet *)

(** the effect of operation [o] on subscription [sub] is still to come:
    its instruction is in the connection's program, or (disconnect of a busy
    session) the context is cancelled and the loop has not noticed yet *)
Definition eff_pending (o : op) (sub : str) (pc : list instr) (cancelled : Prop) : Prop :=
  match o with
  | OReq s' _ => s' = sub /\ exists fs, In (ISubAdd sub fs) pc
  | OClose s' => s' = sub /\ In (ISubDel sub) pc
  | ODisc => In IUnsubAll pc \/ cancelled
  | _ => False
  end.

Definition eff_instr (i : instr) : bool :=
  match i with ISubAdd _ _ | ISubDel _ | IUnsubAll => true | _ => false end.

Lemma eff_pending_has o sub pc (canc : Prop) :
  eff_pending o sub pc canc -> existsb eff_instr pc = true \/ (o = ODisc /\ canc).
Proof.
  destruct o; cbn; try contradiction.
  - intros [_ [fs' H]]. left. apply existsb_exists. eexists. split; [eassumption | reflexivity].
  - intros [_ H]. left. apply existsb_exists. eexists. split; [eassumption | reflexivity].
  - intros [H|H]; [left | right; auto]. apply existsb_exists. eexists. split; [eassumption | reflexivity].
Qed.

(** [k] and every later operation of its connection are without end stamp *)
Definition tail_open (H : list hop) (k : hop) : Prop :=
  forall h', In h' H -> h_c h' = h_c k -> h_b k <= h_b h' -> h_d h' = None.

Definition AInv (st : istate) : Prop :=
  forall x sub fs, sub_of (i_s st) x sub = Some fs ->
    exists q, In q (i_hops st) /\ h_c q = x /\ h_o q = OReq sub fs /\
      forall k, In k (i_hops st) -> h_c k = x -> h_b q < h_b k -> op_ends (h_o k) sub = true ->
        eff_pending (h_o k) sub (c_pc (r_cs (i_s st) x)) (In x (r_cancel (i_s st))) /\ tail_open (i_hops st) k.

Lemma AInv_init buf : AInv (i_init buf).
Proof. intros x sub fs H. discriminate. Qed.

(** no operation of [x] is added by the step *)
Definition no_new_of (x : conn) (now : Z) (H H' : list hop) : Prop :=
  forall c o, H' = H ++ [mkHop c o now None] -> c <> x.

(** no operation of [x] gets its end stamp in the step *)
Definition no_close_of (x : conn) (now : Z) (H H' : list hop) : Prop :=
  forall h h', In h H -> In h' H' -> same_op h h' -> h_c h = x -> h_d h' = h_d h.

Lemma AInv_keep_none now H H' x sub fs q (pc' : list instr) (canc' : Prop) :
  hchange now H H' -> no_new_of x now H H' ->
  In q H -> h_c q = x -> h_o q = OReq sub fs ->
  (forall k, In k H -> h_c k = x -> h_b q < h_b k -> op_ends (h_o k) sub = true -> False) ->
  exists q', In q' H' /\ h_c q' = x /\ h_o q' = OReq sub fs /\
    forall k, In k H' -> h_c k = x -> h_b q' < h_b k -> op_ends (h_o k) sub = true ->
      eff_pending (h_o k) sub pc' canc' /\ tail_open H' k.
Proof.
  intros HC NN Hq Hc Ho NL.
  destruct (hchange_fwd now H H' q HC Hq) as (q' & Hq' & (S1 & S2 & S3) & _).
  exists q'. split; [assumption|]. split; [congruence|]. split; [congruence|].
  intros k' Hk' Hck' Hb Hends. exfalso.
  destruct (hchange_bwd now H H' k' HC Hk') as [(k & Hk & (T1 & T2 & T3) & _)|(c & o & -> & E)].
  - apply (NL k Hk); congruence.
  - apply (NN c o E). exact Hck'.
Qed.

Lemma tail_open_keep now H H' x k k' :
  hchange now H H' -> no_new_of x now H H' -> no_close_of x now H H' ->
  In k H -> same_op k k' -> h_c k = x -> tail_open H k -> tail_open H' k'.
Proof.
  intros HC NN NC Hk (T1 & T2 & T3) Hck TO h' Hh' Hch' Hb.
  destruct (hchange_bwd now H H' h' HC Hh') as [(h & Hh & (U1 & U2 & U3) & Ev)|(c & o & -> & E)].
  - rewrite (NC h h' Hh Hh' (conj U1 (conj U2 U3))) by congruence. apply TO; [assumption | congruence | lia].
  - reflexivity.
Qed.

Lemma AInv_keep_pending now H H' x sub fs q (pc : list instr) (canc canc' : Prop) :
  hchange now H H' -> no_new_of x now H H' -> no_close_of x now H H' -> (canc -> canc') ->
  In q H -> h_c q = x -> h_o q = OReq sub fs ->
  (forall k, In k H -> h_c k = x -> h_b q < h_b k -> op_ends (h_o k) sub = true ->
     eff_pending (h_o k) sub pc canc /\ tail_open H k) ->
  exists q', In q' H' /\ h_c q' = x /\ h_o q' = OReq sub fs /\
    forall k, In k H' -> h_c k = x -> h_b q' < h_b k -> op_ends (h_o k) sub = true ->
      eff_pending (h_o k) sub pc canc' /\ tail_open H' k.
Proof.
  intros HC NN NC Hcc Hq Hc Ho NL.
  destruct (hchange_fwd now H H' q HC Hq) as (q' & Hq' & (S1 & S2 & S3) & _).
  exists q'. split; [assumption|]. split; [congruence|]. split; [congruence|].
  intros k' Hk' Hck' Hb Hends.
  destruct (hchange_bwd now H H' k' HC Hk') as [(k & Hk & (T1 & T2 & T3) & _)|(c & o & -> & E)].
  - destruct (NL k Hk) as [P L]; try congruence. split.
    + rewrite T2. destruct (h_o k); cbn in P |- *; auto. destruct P; auto.
    + eapply tail_open_keep; try eassumption; [repeat split; assumption | congruence].
  - exfalso. apply (NN c o E). exact Hck'.
Qed.

Lemma SSorted_filter_gen {A} (R : A -> A -> Prop) (f : A -> bool) l :
  StronglySorted R l -> StronglySorted R (filter f l).
Proof.
  intro S. induction S as [|a l S IH F]; cbn; [constructor|].
  destruct (f a); [|assumption]. constructor; [assumption|].
  rewrite Forall_forall in *. intros b Hb. apply filter_In in Hb as [Hb _]. now apply F.
Qed.

Lemma xops_last_is_last H x L h0 :
  StronglySorted (fun a b => h_b a < h_b b) H -> xops x H = L ++ [h0] ->
  In h0 H /\ h_c h0 = x /\ (forall h', In h' H -> h_c h' = x -> h_b h' <= h_b h0).
Proof.
  intros S E.
  assert (Hin : In h0 (xops x H)) by (rewrite E; apply in_or_app; right; now left).
  apply xops_In in Hin as [Hin Hc]. split; [assumption|]. split; [assumption|].
  intros h' Hh' Hc'.
  assert (Hin' : In h' (xops x H)) by (apply xops_In; auto).
  assert (S' : StronglySorted (fun a b => h_b a < h_b b) (xops x H)) by (unfold xops; now apply SSorted_filter_gen).
  rewrite E in Hin', S'. apply in_app_iff in Hin' as [Hin'|[<-|[]]]; [|lia].
  clear -S' Hin'. induction L as [|a L IH]; [contradiction|].
  cbn in S'. inversion S' as [|? ? S1 S2]; subst. destruct Hin' as [<-|Hin'].
  - rewrite Forall_forall in S2. assert (In h0 (L ++ [h0])) by (apply in_or_app; right; now left).
    specialize (S2 _ H). lia.
  - now apply IH.
Qed.

Lemma map_eq_snoc {A B} (f : A -> B) l l0 b :
  List.map f l = l0 ++ [b] -> exists L h0, l = L ++ [h0] /\ f h0 = b /\ List.map f L = l0.
Proof.
  intro E. destruct (@exists_last _ l) as (L & h0 & ->).
  - intro X. subst l. cbn in E. destruct l0; discriminate.
  - rewrite map_app in E. cbn in E. apply app_inj_tail in E as [E1 E]. eauto.
Qed.

Lemma istep_no_new st l x :
  trans (i_s st) l (step (i_s st) l) -> (forall o, l <> LOp x o) ->
  no_new_of x (i_now st) (i_hops st) (i_hops (istep st l)).
Proof.
  intros T Hno c o E. rewrite (istep_hops_trans st l T) in E.
  destruct l as [c0 o0|c0|c0 c' ord|c0|c0|c0].
  - apply app_inv_head in E. inversion E; subst. intro; subst. eapply Hno. reflexivity.
  - destruct (_ && _); apply (f_equal (@length hop)) in E; unfold close_hop in E;
      rewrite ?map_length, app_length in E; cbn in E; lia.
  - apply (f_equal (@length hop)) in E. rewrite app_length in E. cbn in E. lia.
  - apply (f_equal (@length hop)) in E. rewrite app_length in E. cbn in E. lia.
  - apply (f_equal (@length hop)) in E. rewrite app_length in E. cbn in E. lia.
  - apply (f_equal (@length hop)) in E. rewrite app_length in E. cbn in E. lia.
Qed.

(** the end stamps of [x]'s operations change only when [x]'s own program ends *)
Lemma istep_no_close st l x :
  HInv st -> trans (i_s st) l (step (i_s st) l) ->
  (l <> LRun x \/ c_pc (r_cs (step (i_s st) l) x) <> []) ->
  no_close_of x (i_now st) (i_hops st) (i_hops (istep st l)).
Proof.
  intros HI T Hl h h' Hh Hh' (S1 & S2 & S3) Hc. rewrite (istep_hops_trans st l T) in Hh'.
  assert (Same : In h' (i_hops st) -> h_d h' = h_d h).
  { intro Hin. assert (h' = h) by (eapply hop_eq_of_b; [apply HI | assumption | assumption | assumption]). congruence. }
  destruct l as [c0 o0|c0|c0 c' ord|c0|c0|c0]; auto.
  - apply in_app_iff in Hh' as [Hin|[<-|[]]]; [now apply Same|]. cbn in S3. destruct (h_time st HI h Hh). lia.
  - destruct (negb _ && is_nil (c_pc (r_cs (step (i_s st) (LRun c0)) c0))) eqn:En; [|now apply Same].
    apply in_map_iff in Hh' as [h0 [<- Hh0]]. rewrite close1_b in S3.
    assert (h0 = h) by (eapply hop_eq_of_b; [apply HI | assumption | assumption | assumption]). subst h0.
    apply close1_some || idtac. destruct (Nat.eq_dec c0 x) as [->|N].
    + exfalso. apply andb_true_iff in En as [_ En]. apply is_nil_true in En. destruct Hl as [Hl|Hl]; [now apply Hl | contradiction].
    + now rewrite close1_other by congruence.
Qed.

Lemma program_pending s c o sub fs (canc : Prop) :
  sub_of s c sub = Some fs -> op_ends o sub = true -> eff_pending o sub (program s c o) canc.
Proof.
  intros Hs He. apply sub_of_reg_get in Hs as (m & Hg & _).
  destruct o; cbn in *; try discriminate; rewrite ?Hg.
  - apply str_eqb_eq in He. subst. split; [reflexivity|]. eexists. now left.
  - apply str_eqb_eq in He. subst. split; [reflexivity|]. now left.
  - left. now left.
Qed.

(** when nothing in the connection's program can touch the subscription, the
    only thing pending against it is the cancellation *)
Lemma AInv_actor_canc buf st (H' : list hop) x sub fs pc' :
  reachable buf (i_s st) -> HInv st -> AInv st -> sub_of (i_s st) x sub = Some fs ->
  (forall o, op_ends o sub = true -> eff_pending o sub (c_pc (r_cs (i_s st) x)) False -> False) ->
  hchange (i_now st) (i_hops st) H' -> no_new_of x (i_now st) (i_hops st) H' ->
  (forall k k', In k (i_hops st) -> In k' H' -> same_op k k' -> h_c k = x -> is_disc (h_o k) = true -> h_d k' = h_d k) ->
  forall canc' : Prop, (In x (r_cancel (i_s st)) -> canc') ->
  exists q', In q' H' /\ h_c q' = x /\ h_o q' = OReq sub fs /\
    forall k, In k H' -> h_c k = x -> h_b q' < h_b k -> op_ends (h_o k) sub = true ->
      eff_pending (h_o k) sub pc' canc' /\ tail_open H' k.
Proof.
  intros R HI AI Hs NoPc HC NN ND canc' Hcc. pose proof (Inv_reachable buf _ R) as I.
  destruct (AI x sub fs Hs) as (q & Hq & Hc & Ho & Hk).
  destruct (hchange_fwd _ _ _ q HC Hq) as (q' & Hq' & (S1 & S2 & S3) & _).
  exists q'. split; [assumption|]. split; [congruence|]. split; [congruence|].
  intros k' Hk' Hck' Hb Hends.
  destruct (hchange_bwd _ _ _ k' HC Hk') as [(k & Hin & (T1 & T2 & T3) & Evk)|(c & o & -> & E)];
    [|exfalso; apply (NN c o E); exact Hck'].
  destruct (Hk k Hin) as [P TO]; try congruence.
  (* the pending operation is the disconnect *)
  rewrite T2 in Hends |- *.
  assert (Hdisc : h_o k = ODisc /\ In x (r_cancel (i_s st))).
  { destruct (h_o k) eqn:Eo; cbn in P; try contradiction.
    - exfalso. apply (NoPc (OReq sub0 fs0)); [exact Hends | exact P].
    - exfalso. apply (NoPc (OClose sub0)); [exact Hends | exact P].
    - destruct P as [P|P]; [exfalso; apply (NoPc ODisc); [reflexivity | now left] | auto]. }
  destruct Hdisc as [Eo Hcan]. rewrite Eo. split; [right; auto|].
  assert (Hkd : is_disc (h_o k) = true) by (now rewrite Eo).
  destruct (h_disc st HI k Hin Hkd) as (Last & _ & Fin).
  assert (Hdk : h_d k = None).
  { destruct (h_d k) eqn:Ed; [|reflexivity]. exfalso. destruct Fin as [_ Fd]; [congruence|].
    assert (Ex : h_c k = x) by congruence. rewrite Ex in Fd. rewrite (inv_cancel _ I x Hcan) in Fd. discriminate. }
  intros h' Hh' Hch' Hbh.
  destruct (hchange_bwd _ _ _ h' HC Hh') as [(h & Hh & (U1 & U2 & U3) & _)|(c & o & -> & E)]; [|reflexivity].
  assert (h = k).
  { eapply hop_eq_of_b; [apply HI | assumption | assumption|].
    assert (h_b h <= h_b k) by (apply Last; [assumption | congruence]). lia. }
  subst h. rewrite (ND k h' Hin Hh' (conj U1 (conj U2 U3))) by congruence. exact Hdk.
Qed.
Lemma SSorted_mid {A} (R : A -> A -> Prop) l1 a l2 :
  StronglySorted R (l1 ++ a :: l2) -> Forall (fun b => R b a) l1 /\ Forall (R a) l2.
Proof.
  induction l1 as [|x l1 IH]; cbn; intro S.
  - inversion S; subst. split; [constructor | assumption].
  - inversion S as [|? ? S1 F]; subst. destruct (IH S1) as [I1 I2]. split; [|assumption].
    constructor; [|assumption]. apply Forall_app in F as [_ F]. now inversion F.
Qed.

(** the hop of a cancelled session's disconnect is its last one, and open *)
Lemma cancel_hop_tail_open buf st k :
  reachable buf (i_s st) -> HInv st -> In k (i_hops st) -> is_disc (h_o k) = true ->
  In (h_c k) (r_cancel (i_s st)) -> tail_open (i_hops st) k.
Proof.
  intros R HI Hk Hd Hcan. pose proof (Inv_reachable buf _ R) as I.
  destruct (h_disc st HI k Hk Hd) as (Last & _ & Fin).
  assert (Hdk : h_d k = None).
  { destruct (h_d k) eqn:Ed; [|reflexivity]. exfalso. destruct Fin as [_ Fd]; [congruence|].
    rewrite (inv_cancel _ I _ Hcan) in Fd. discriminate. }
  intros h' Hh' Hch' Hbh.
  assert (h' = k); [|congruence].
  eapply hop_eq_of_b; [apply HI | assumption | assumption|]. specialize (Last h' Hh' Hch'). lia.
Qed.

(** the operation the recv loop accepted last: its hop is the last one of the
    connection, except for the hop of a cancellation *)
Lemma last_op_hop buf st x ops0 o :
  reachable buf (i_s st) -> HInv st -> c_ops (r_cs (i_s st) x) = ops0 ++ [o] ->
  exists q, In q (i_hops st) /\ h_c q = x /\ h_o q = o /\
    forall h', In h' (i_hops st) -> h_c h' = x -> h_b q < h_b h' -> is_disc (h_o h') = true /\ In x (r_cancel (i_s st)).
Proof.
  intros R HI Eo. pose proof (h_ops st HI x) as Eops. rewrite Eo in Eops. unfold cancel_tail in Eops.
  assert (S' : StronglySorted (fun a b => h_b a < h_b b) (xops x (i_hops st))) by (unfold xops; apply SSorted_filter_gen, HI).
  destruct (mem_conn x (r_cancel (i_s st))) eqn:Hcan.
  - destruct (map_eq_snoc _ _ _ _ Eops) as (L1 & kd & EL1 & Ekd & Eops1).
    destruct (map_eq_snoc _ _ _ _ Eops1) as (L & q & EL & Eq & _). subst L1.
    assert (Hq : In q (i_hops st) /\ h_c q = x).
    { apply xops_In. rewrite EL1. apply in_or_app. left. apply in_or_app. right. now left. }
    exists q. split; [apply Hq|]. split; [apply Hq|]. split; [assumption|].
    intros h' Hh' Hc' Hb. split; [|now apply mem_conn_In].
    assert (Hx : In h' (xops x (i_hops st))) by (apply xops_In; auto).
    rewrite EL1, <- app_assoc in Hx, S'. cbn [app] in Hx, S'.
    destruct (SSorted_mid _ _ _ _ S') as [F1 F2]. rewrite Forall_forall in F1.
    apply in_app_iff in Hx as [Hx|[<-|[<-|[]]]]; [specialize (F1 _ Hx); cbn in F1; lia | lia | now rewrite Ekd].
  - rewrite app_nil_r in Eops. destruct (map_eq_snoc _ _ _ _ Eops) as (L & q & EL & Eq & _).
    destruct (xops_last_is_last _ _ _ _ (h_sorted st HI) EL) as (Hin0 & Hc0 & Hlast).
    exists q. split; [assumption|]. split; [assumption|]. split; [assumption|].
    intros h' Hh' Hc' Hb. exfalso. specialize (Hlast h' Hh' Hc'). lia.
Qed.

Theorem AInv_step buf st l : reachable buf (i_s st) -> HInv st -> AInv st -> AInv (istep st l).
Proof.
  intros R HI AI. pose proof (Inv_reachable buf _ R) as I.
  pose proof (istep_hchange st l) as HC.
  destruct (step_trans (i_s st) l) as [E|T].
  { destruct (istep_stutter st l E) as [EH _]. intros x sub fs Hs. rewrite istep_s, E in *. rewrite EH. now apply AI. }
  pose proof (istep_hops_trans st l T) as EH.
  intros x sub fs Hs. rewrite istep_s in *.
  destruct (label_of_conn x l) eqn:Hl.
  2:{ (* x does not act *)
    assert (Hnr : l <> LRun x) by (now apply not_label_not_run).
    assert (Hs0 : sub_of (i_s st) x sub = Some fs).
    { rewrite <- Hs. symmetry. apply sub_of_reg_eq. eapply env_reg; eassumption. }
    rewrite (trans_pc_other _ _ _ _ T Hl).
    destruct (AI x sub fs Hs0) as (q & Hq & Hc & Ho & Hk).
    eapply AInv_keep_pending; try eassumption.
    - apply istep_no_new; [assumption|]. intros o ->. cbn in Hl. now rewrite Nat.eqb_refl in Hl.
    - apply istep_no_close; auto.
    - (* the cancel list, as far as x is concerned *)
      intro Hc0. destruct (trans_cancel _ _ _ T) as [Ec|[(c & El & _ & Ec & _)|(c & El & _ & _ & Ec)]]; rewrite Ec; auto.
      + now right.
      + apply remove_conn_In. split; [|assumption]. intros ->. subst l. cbn in Hl. now rewrite Nat.eqb_refl in Hl. }
  assert (Hact : forall c, label_of_conn x (LRun c) = true -> x = c)
    by (intros c H; cbn in H; now apply Nat.eqb_eq in H).
  assert (NNall : (forall o, l <> LOp x o) -> no_new_of x (i_now st) (i_hops st) (i_hops (istep st l)))
    by (now apply istep_no_new).
  (* the end stamps of x's disconnects do not change unless the deferred UnsubscribeAll runs *)
  assert (NDall : (forall rest, c_pc (r_cs (i_s st) x) <> IUnsubAll :: rest) ->
            forall k k', In k (i_hops st) -> In k' (i_hops (istep st l)) -> same_op k k' -> h_c k = x ->
                         is_disc (h_o k) = true -> h_d k' = h_d k).
  { intros Hnu k k' Hk Hk' (S1 & S2 & S3) Hc Hd. rewrite EH in Hk'.
    assert (Same : In k' (i_hops st) -> h_d k' = h_d k).
    { intro Hin. assert (k' = k) by (eapply hop_eq_of_b; [apply HI | assumption | assumption | assumption]). congruence. }
    destruct l as [c0 o0|c0|c0 c' ord|c0|c0|c0]; auto.
    - apply in_app_iff in Hk' as [Hin|[<-|[]]]; [now apply Same|]. cbn in S3. destruct (h_time st HI k Hk). lia.
    - destruct (_ && _) eqn:En; [|now apply Same].
      apply in_map_iff in Hk' as [k0 [<- Hk0]]. rewrite close1_b in S3.
      assert (k0 = k) by (eapply hop_eq_of_b; [apply HI | assumption | assumption | assumption]). subst k0.
      destruct (is_unsub_head (c_pc (r_cs (i_s st) c0))) eqn:Eu.
      + destruct (Nat.eq_dec c0 x) as [->|N]; [|now rewrite close1_other by congruence].
        exfalso. destruct (c_pc (r_cs (i_s st) x)) as [|i0 r0]; [discriminate|]. destruct i0; try discriminate. eapply Hnu. reflexivity.
      + rewrite close1_kind; [reflexivity | now rewrite Hd]. }
  (* the cases in which only the cancellation can be pending *)
  assert (Canc : forall pc', sub_of (i_s st) x sub = Some fs ->
            (forall o, op_ends o sub = true -> eff_pending o sub (c_pc (r_cs (i_s st) x)) False -> False) ->
            (forall o, l <> LOp x o) -> (forall rest, c_pc (r_cs (i_s st) x) <> IUnsubAll :: rest) ->
            (In x (r_cancel (i_s st)) -> In x (r_cancel (step (i_s st) l))) ->
            exists q', In q' (i_hops (istep st l)) /\ h_c q' = x /\ h_o q' = OReq sub fs /\
              forall k, In k (i_hops (istep st l)) -> h_c k = x -> h_b q' < h_b k -> op_ends (h_o k) sub = true ->
                eff_pending (h_o k) sub pc' (In x (r_cancel (step (i_s st) l))) /\ tail_open (i_hops (istep st l)) k).
  { intros pc' Hs0 NoPc Hno Hnu Hcc. eapply AInv_actor_canc; try eassumption; [now apply NNall | now apply NDall]. }
  remember (step (i_s st) l) as s' eqn:Es'. clear Es'.
  inversion T; subst; cbn [label_of_conn] in Hl; try discriminate; try (apply Hact in Hl; subst x);
    cbn [r_cs r_cancel with_cs start_visit] in *.
  - (* op *)
    rewrite sub_of_with_cs in Hs. rewrite upd_same. cbn [c_pc].
    destruct (AI c sub fs Hs) as (q & Hq & Hc & Ho & Hk).
    rewrite EH. exists q. split; [apply in_or_app; now left|]. split; [assumption|]. split; [assumption|].
    intros k Hin Hck Hb He. apply in_app_iff in Hin as [Hin|[<-|[]]].
    + exfalso. destruct (Hk k Hin Hck Hb He) as [P _]. rewrite H in P.
      destruct (eff_pending_has _ _ _ _ P) as [X|[_ X]]; [discriminate | contradiction].
    + cbn [h_o]. split; [now apply (program_pending _ _ _ _ fs)|].
      intros h' Hin' _ Hbh. cbn [h_b] in Hbh. apply in_app_iff in Hin' as [Hin'|[<-|[]]]; [|reflexivity].
      destruct (h_time st HI h' Hin'). lia.
  - (* regadd *) rewrite sub_of_mk, reg_get_set_same in Hs. discriminate.
  - (* subadd *)
    rewrite sub_of_mk, reg_get_set_same in Hs. rewrite upd_same. cbn [c_pc set_pc].
    pose proof (inv_pc _ I c) as P. rewrite H in P.
    destruct (pc_ok_inv_subadd _ _ _ _ _ P) as (-> & _ & _).
    destruct (pc_ok_inv_subadd_last _ _ _ _ _ P) as (ops0 & Eo).
    destruct (str_dec sub sub0) as [->|N].
    + rewrite assoc_sm_set_same in Hs. inversion Hs; subst fs0.
      assert (EHs : i_hops (istep st (LRun c)) = i_hops st) by (rewrite EH, H, upd_same; reflexivity).
      destruct (last_op_hop buf st c ops0 _ R HI Eo) as (q & Hq & Hcq & Hoq & Hlater).
      rewrite EHs. exists q. split; [assumption|]. split; [assumption|]. split; [assumption|].
      intros k Hk1 Hk2 Hk3 _. destruct (Hlater k Hk1 Hk2 Hk3) as [Hd Hcan].
      assert (TO : tail_open (i_hops st) k) by (eapply cancel_hop_tail_open; try eassumption; now rewrite Hk2).
      destruct (h_o k); try discriminate. split; [right; exact Hcan | exact TO].
    + rewrite assoc_sm_set_other in Hs by assumption.
      assert (Hs0 : sub_of (i_s st) c sub = Some fs) by (unfold sub_of; now rewrite H1).
      apply Canc; auto; try discriminate; [|rewrite H; discriminate].
      intros o He Pd. rewrite H in Pd. destruct o; cbn in Pd; try contradiction.
      * destruct Pd as [-> [fs' [X|[X|[]]]]]; [inversion X; congruence | discriminate].
      * destruct Pd as [-> [X|[X|[]]]]; discriminate.
      * destruct Pd as [[X|[X|[]]]|[]]; discriminate.
  - (* subadd_none *) rewrite sub_of_with_cs in Hs. unfold sub_of in Hs. rewrite H1 in Hs. discriminate.
  - (* subdel *)
    rewrite sub_of_mk, reg_get_set_same in Hs. rewrite upd_same. cbn [c_pc set_pc].
    pose proof (inv_pc _ I c) as P. rewrite H in P. rewrite (pc_ok_inv_subdel _ _ _ _ P) in *.
    destruct (str_dec sub sub0) as [->|N]; [rewrite assoc_sm_del_same in Hs; discriminate|].
    rewrite assoc_sm_del_other in Hs by assumption.
    assert (Hs0 : sub_of (i_s st) c sub = Some fs) by (unfold sub_of; now rewrite H1).
    apply Canc; auto; try discriminate; [|rewrite H; discriminate].
    intros o He Pd. rewrite H in Pd. destruct o; cbn in Pd; try contradiction.
    + destruct Pd as [-> [fs' [X|[]]]]; discriminate.
    + destruct Pd as [-> [X|[]]]. inversion X. congruence.
    + destruct Pd as [[X|[]]|[]]; discriminate.
  - (* subdel_none *) rewrite sub_of_with_cs in Hs. unfold sub_of in Hs. rewrite H1 in Hs. discriminate.
  - (* reply *)
    rewrite sub_of_with_cs in Hs. rewrite upd_same. cbn [c_pc set_pc push_out].
    apply Canc; auto; try discriminate.
    + intros o He Pd. destruct (eff_pending_has _ _ _ _ Pd) as [X|[_ []]]. rewrite H in X.
      pose proof (inv_pc _ I c) as P. rewrite H in P. destruct i; cbn in H0; try contradiction.
      * destruct (pc_ok_inv_eose _ _ _ _ P) as [-> _]. discriminate.
      * rewrite (pc_ok_inv_count _ _ _ _ P) in X. discriminate.
      * rewrite (pc_ok_inv_ok _ _ _ _ P) in X. discriminate.
    + rewrite H. intros rest0 X. inversion X; subst. cbn in H0. contradiction.
  - (* pubbegin *)
    rewrite sub_of_mk in Hs. rewrite upd_same. cbn [c_pc].
    apply Canc; auto; try discriminate; [|rewrite H; discriminate].
    intros o He Pd. destruct (eff_pending_has _ _ _ _ Pd) as [X|[_ []]]. rewrite H in X.
    pose proof (inv_pc _ I c) as P. rewrite H in P. rewrite (pc_ok_inv_pubbegin _ _ _ _ P) in X. discriminate.
  - (* pubend *)
    rewrite sub_of_mk in Hs. rewrite upd_same. cbn [c_pc set_pc].
    apply Canc; auto; try discriminate; [|rewrite H; discriminate].
    intros o He Pd. destruct (eff_pending_has _ _ _ _ Pd) as [X|[_ []]]. rewrite H in X.
    pose proof (inv_pc _ I c) as P. rewrite H in P.
    destruct (pc_ok_inv_pub _ _ _ _ _ _ P) as (n & id & _ & -> & _). discriminate.
  - (* visit *)
    assert (x = c) by (destruct H1 as [->|[-> _]]; cbn in Hl; now apply Nat.eqb_eq in Hl). subst x.
    rewrite sub_of_start_visit in Hs.
    apply Canc; auto; [| destruct H1 as [->|[-> _]]; discriminate | rewrite H; discriminate].
    intros o He Pd. destruct (eff_pending_has _ _ _ _ Pd) as [X|[_ []]]. rewrite H in X.
    pose proof (inv_pc _ I c) as P. rewrite H in P.
    destruct (pc_ok_inv_pub _ _ _ _ _ _ P) as (n & id & _ & -> & _). discriminate.
  - (* visitend *)
    rewrite sub_of_with_cs in Hs.
    apply Canc; auto; try discriminate; [|rewrite H; discriminate].
    intros o He Pd. destruct (eff_pending_has _ _ _ _ Pd) as [X|[_ []]]. rewrite H in X.
    pose proof (inv_pc _ I c) as P. rewrite H in P.
    destruct (pc_ok_inv_visit _ _ _ _ _ _ _ P) as (n & rem & id & _ & -> & _). discriminate.
  - (* send *)
    rewrite sub_of_with_cs in Hs.
    apply Canc; auto; try discriminate; [|rewrite H; discriminate].
    intros o He Pd. destruct (eff_pending_has _ _ _ _ Pd) as [X|[_ []]]. rewrite H in X.
    pose proof (inv_pc _ I c) as P. rewrite H in P.
    destruct (pc_ok_inv_visit _ _ _ _ _ _ _ P) as (n & rem & id & _ & -> & _). discriminate.
  - (* unsuball *) rewrite sub_of_mk, reg_get_del_same in Hs. discriminate.
  - (* cancel: the disconnect becomes pending against every subscription of c *)
    rewrite sub_of_mk in Hs.
    assert (Hs0 : sub_of (i_s st) c sub = Some fs) by exact Hs.
    destruct (AI c sub fs Hs0) as (q & Hq & Hc & Ho & Hk).
    rewrite EH. exists q. split; [apply in_or_app; now left|]. split; [assumption|]. split; [assumption|].
    intros k Hin Hck Hb He. apply in_app_iff in Hin as [Hin|[<-|[]]].
    + destruct (Hk k Hin Hck Hb He) as [Pd TO]. split.
      * destruct (h_o k); cbn in Pd |- *; auto; try (destruct Pd as [Pd|Pd]; [now left | right; now right]).
      * intros h' Hin' Hc' Hbh. apply in_app_iff in Hin' as [Hin'|[<-|[]]]; [now apply TO | reflexivity].
    + cbn [h_o]. split; [right; now left|].
      intros h' Hin' _ Hbh. cbn [h_b] in Hbh. apply in_app_iff in Hin' as [Hin'|[<-|[]]]; [|reflexivity].
      destruct (h_time st HI h' Hin'). lia.
  - (* skip *)
    rewrite sub_of_with_cs in Hs. rewrite upd_same. cbn [c_pc set_pc].
    apply Canc; auto; try discriminate.
    + intros o He Pd. destruct (eff_pending_has _ _ _ _ Pd) as [X|[_ []]]. rewrite H in X.
      pose proof (inv_pc _ I c) as P. rewrite H in P. destruct i; cbn in H0; try contradiction.
      * destruct (pc_ok_inv_eose _ _ _ _ P) as [-> _]. discriminate.
      * rewrite (pc_ok_inv_count _ _ _ _ P) in X. discriminate.
      * rewrite (pc_ok_inv_ok _ _ _ _ P) in X. discriminate.
    + rewrite H. intros rest0 X. inversion X; subst. cbn in H0. contradiction.
  - (* defer: what was pending as a cancellation is now the deferred UnsubscribeAll *)
    rewrite sub_of_mk in Hs. rewrite upd_same. cbn [c_pc].
    assert (Hs0 : sub_of (i_s st) c sub = Some fs) by exact Hs.
    assert (EHs : i_hops (istep st (LRun c)) = i_hops st) by (rewrite EH, H; reflexivity).
    destruct (AI c sub fs Hs0) as (q & Hq & Hc & Ho & Hk).
    rewrite EHs. exists q. split; [assumption|]. split; [assumption|]. split; [assumption|].
    intros k Hin Hck Hb He. destruct (Hk k Hin Hck Hb He) as [Pd TO]. split; [|assumption].
    rewrite H in Pd. destruct (h_o k); cbn in Pd |- *; try contradiction.
    + destruct Pd as [_ [? []]].
    + destruct Pd as [_ []].
    + left. now left.
Qed.

(* ------------------------------------------------------------------ *)
(** * After its EOSE a subscription is established until the client ends it *)

Lemma ends_sub_inv x sub l : ends_sub x sub l = true -> exists o, l = LOp x o /\ op_ends o sub = true.
Proof.
  destruct l as [c o|c|c c' ord|c|c|c]; cbn; try discriminate.
  destruct o; try discriminate; intro H.
  - apply andb_true_iff in H as [H1 H2]. apply Nat.eqb_eq in H1. subst c. eexists. split; [reflexivity | exact H2].
  - apply andb_true_iff in H as [H1 H2]. apply Nat.eqb_eq in H1. subst c. eexists. split; [reflexivity | exact H2].
  - apply Nat.eqb_eq in H. subst c. eexists. split; reflexivity.
Qed.

Lemma op_ends_ends_sub x o sub : op_ends o sub = false -> ends_sub x sub (LOp x o) = false.
Proof.
  destruct o; cbn; try reflexivity; try discriminate; intro H; rewrite H; apply andb_false_r.
Qed.

(** an end stamp appears exactly when the connection's program ends *)
Lemma hop_closed_now st l q q' d :
  HInv st -> trans (i_s st) l (step (i_s st) l) ->
  In q (i_hops st) -> h_d q = None -> In q' (i_hops (istep st l)) -> same_op q q' -> h_d q' = Some d ->
  l = LRun (h_c q) /\ c_pc (r_cs (i_s st) (h_c q)) <> [] /\ c_pc (r_cs (step (i_s st) l) (h_c q)) = [] /\ d = i_now st /\
  is_unsub_head (c_pc (r_cs (i_s st) (h_c q))) = is_disc (h_o q).
Proof.
  intros HI T Hq Hd Hq' (S1 & S2 & S3) Hd'. rewrite (istep_hops_trans st l T) in Hq'.
  assert (Same : In q' (i_hops st) -> False).
  { intro Hin. assert (q' = q) by (eapply hop_eq_of_b; [apply HI | assumption | assumption | assumption]). congruence. }
  destruct l as [c o|c|c c' ord|c|c|c]; try (exfalso; now apply Same).
  - exfalso. apply in_app_iff in Hq' as [Hin|[<-|[]]]; [now apply Same | discriminate].
  - destruct (negb _ && _) eqn:En; [|exfalso; now apply Same].
    apply in_map_iff in Hq' as [q0 [<- Hq0]].
    assert (q0 = q).
    { eapply hop_eq_of_b; [apply HI | assumption | assumption |]. rewrite close1_b in S3. exact S3. }
    subst q0. destruct (close1_d (is_unsub_head (c_pc (r_cs (i_s st) c))) c (i_now st) q) as [E|(_ & E & Ec & _ & Ek)]; [congruence|].
    rewrite E in Hd'. inversion Hd'. subst c. apply andb_true_iff in En as [En1 En2].
    apply negb_true_iff, is_nil_false in En1. apply is_nil_true in En2. auto.
Qed.

(** a cancelled session has a disconnect among its operations *)
Lemma cancel_hop_exists st x :
  HInv st -> In x (r_cancel (i_s st)) -> exists kd, In kd (i_hops st) /\ h_c kd = x /\ h_o kd = ODisc.
Proof.
  intros HI Hc. pose proof (h_ops st HI x) as E. unfold cancel_tail in E. apply mem_conn_In in Hc. rewrite Hc in E.
  assert (Hin : In ODisc (List.map h_o (xops x (i_hops st)))) by (rewrite E; apply in_or_app; right; now left).
  apply in_map_iff in Hin as (kd & Ho & Hin). apply xops_In in Hin as [Hin Hcx]. eauto.
Qed.

Definition KInv (st : istate) : Prop :=
  forall q sub fs dq,
    In q (i_hops st) -> h_o q = OReq sub fs -> h_d q = Some dq ->
    (forall k, In k (i_hops st) -> h_c k = h_c q -> h_b q < h_b k -> op_ends (h_o k) sub = false) ->
    established (i_s st) (h_c q) sub fs.

Lemma KInv_init buf : KInv (i_init buf).
Proof. intros q sub fs dq []. Qed.

Theorem KInv_step buf st l : reachable buf (i_s st) -> HInv st -> KInv st -> KInv (istep st l).
Proof.
  intros R HI KI. pose proof (Inv_reachable buf _ R) as I.
  pose proof (istep_hchange st l) as HC.
  destruct (step_trans (i_s st) l) as [E|T].
  { destruct (istep_stutter st l E) as [EH _]. intros q sub fs dq. rewrite istep_s, E, EH. apply KI. }
  intros q' sub fs dq' Hq' Ho' Hd' Prem. rewrite istep_s.
  destruct (hchange_bwd _ _ _ q' HC Hq') as [(q & Hq & Sq & Ev)|(c & o & -> & _)]; [|discriminate].
  destruct Sq as (S1 & S2 & S3). rewrite S1.
  assert (Prem0 : forall k, In k (i_hops st) -> h_c k = h_c q -> h_b q < h_b k -> op_ends (h_o k) sub = false).
  { intros k Hk Hck Hb. destruct (hchange_fwd _ _ _ k HC Hk) as (k' & Hk' & (T1 & T2 & T3) & _).
    rewrite <- T2. apply Prem; [assumption | congruence | congruence]. }
  destruct (h_d q) as [dq|] eqn:Hd.
  - (* the REQ had ended before *)
    assert (Est : established (i_s st) (h_c q) sub fs) by (eapply KI; eauto; congruence).
    eapply established_trans; [exact Est | | exact T].
    destruct (ends_sub (h_c q) sub l) eqn:He; [|reflexivity]. exfalso.
    destruct (ends_sub_inv _ _ _ He) as (o & -> & Ho).
    assert (Hnew : In (mkHop (h_c q) o (i_now st) None) (i_hops (istep st (LOp (h_c q) o)))).
    { rewrite (istep_hops_trans st _ T). apply in_or_app. right. now left. }
    specialize (Prem _ Hnew). cbn in Prem. rewrite S1, S3 in Prem.
    destruct (h_time st HI q Hq) as [Hb _]. rewrite Prem in Ho; [discriminate | reflexivity | lia].
  - (* it ends now *)
    destruct (hop_closed_now st l q q' dq' HI T Hq Hd Hq' (conj S1 (conj S2 S3)) Hd') as (-> & Hne & Hpc' & -> & Hu).
    assert (Hoq : h_o q = OReq sub fs) by congruence. rewrite Hoq in Hu. cbn in Hu.
    assert (Hl : label_of_conn (h_c q) (LRun (h_c q)) = true) by (cbn; apply Nat.eqb_refl).
    destruct (trans_pc_actor _ _ _ _ I T Hl) as [(o & _ & X & _)|[(i & rest & heads & Hpc & Hpc2 & _)|(X & _)]];
      [contradiction | | discriminate].
    rewrite Hpc' in Hpc2. symmetry in Hpc2. apply app_eq_nil in Hpc2 as [-> ->].
    destruct (LOInv_reachable buf _ R _ Hne) as (ops0 & o & pre & Eo & Ep).
    rewrite Hpc in Ep. destruct pre as [|i0 pre]; [|destruct pre; discriminate]. cbn in Ep. inversion Ep; subst i.
    (* the operation whose last instruction runs is this REQ *)
    destruct (last_op_hop buf st (h_c q) ops0 o R HI Eo) as (q0 & Hq0 & Hcq0 & Hoq0 & Hlater).
    assert (Hnd : is_disc o = false) by (destruct o; try reflexivity; rewrite Hpc in Hu; discriminate).
    assert (Hc : is_close (h_o q) = false) by (now rewrite Hoq).
    assert (Hk : is_disc (h_o q) = false) by (now rewrite Hoq).
    destruct (h_open st HI q Hq Hd Hc Hk) as [Hlast _].
    assert (q0 = q).
    { eapply hop_eq_of_b; [apply HI | assumption | assumption|].
      assert (A1 : h_b q0 <= h_b q) by (apply Hlast; [assumption | assumption | now rewrite Hoq0]).
      destruct (Z.eq_dec (h_b q0) (h_b q)) as [Eq|Nq]; [assumption|]. exfalso.
      destruct (Hlater q Hq eq_refl) as [X _]; [lia | congruence]. }
    subst q0. rewrite Hoq in Hoq0. subst o. cbn in Hpc.
    (* the session is not cancelled: its disconnect would be a later operation *)
    assert (Hnc : ~ In (h_c q) (r_cancel (i_s st))).
    { intro Hcan. destruct (cancel_hop_exists st _ HI Hcan) as (kd & Hkd & Hckd & Hokd).
      assert (Hkdd : is_disc (h_o kd) = true) by (now rewrite Hokd).
      destruct (h_disc st HI kd Hkd Hkdd) as (Lastd & _).
      assert (Hb : h_b q < h_b kd).
      { assert (A1 : h_b q <= h_b kd) by (apply Lastd; [assumption | congruence]).
        destruct (Z.eq_dec (h_b q) (h_b kd)) as [Eq|Nq]; [|lia]. exfalso.
        assert (q = kd) by (eapply hop_eq_of_b; [apply HI | assumption | assumption | assumption]). subst kd. congruence. }
      specialize (Prem0 kd Hkd Hckd Hb). rewrite Hokd in Prem0. discriminate. }
    destruct (req_end_established buf _ _ sub R Hpc Hnc) as (fs' & ops1 & Eo1 & Est & _).
    rewrite Eo in Eo1. apply app_inj_tail in Eo1 as [_ Eo1]. inversion Eo1; subst fs'. exact Est.
Qed.

(* ------------------------------------------------------------------ *)
(** * MUST: a publication reaches what was established before it began and
      is left alone until it ends *)

Lemma istep_new_inv st l h' :
  trans (i_s st) l (step (i_s st) l) -> i_hops (istep st l) = i_hops st ++ [h'] ->
  l = LOp (h_c h') (h_o h') /\ h' = mkHop (h_c h') (h_o h') (i_now st) None.
Proof.
  intros T E. rewrite (istep_hops_trans st l T) in E.
  destruct l as [c0 o0|c0|c0 c' ord|c0|c0|c0].
  - apply app_inv_head in E. inversion E; subst. cbn. auto.
  - destruct (_ && _); apply (f_equal (@length hop)) in E; unfold close_hop in E;
      rewrite ?map_length, app_length in E; cbn in E; lia.
  - apply (f_equal (@length hop)) in E. rewrite app_length in E. cbn in E. lia.
  - apply (f_equal (@length hop)) in E. rewrite app_length in E. cbn in E. lia.
  - apply (f_equal (@length hop)) in E. rewrite app_length in E. cbn in E. lia.
  - apply (f_equal (@length hop)) in E. rewrite app_length in E. cbn in E. lia.
Qed.

Lemma got_st_trans s l s' x sub e t :
  Inv s -> DDInv s -> trans s l s' -> got_st (r_cs s x) sub e t ->
  got_st (r_cs s' x) sub e t \/ In ODisc (c_ops (r_cs s' x)).
Proof.
  intros I D T G.
  assert (Dec : (exists rest, c_pc (r_cs s x) = IUnsubAll :: rest) \/ (forall rest, c_pc (r_cs s x) <> IUnsubAll :: rest)).
  { destruct (c_pc (r_cs s x)) as [|i rest]; [right; discriminate|].
    destruct i; try (right; discriminate). left. eauto. }
  destruct Dec as [(rest & Hpc)|Hno].
  - right. pose proof (inv_pc s I x) as P. rewrite Hpc in P. destruct (pc_ok_inv_unsuball _ _ _ P) as [_ Hd].
    eapply ops_trans; [eassumption|]. now apply D.
  - left. eapply got_dchange; [apply dat_trans; eassumption | assumption | assumption].
Qed.

Definition MInv (st : istate) : Prop :=
  forall P q p n e sub fs dq,
    pub_nth (i_hops st) p n P -> h_o P = OEvent e ->
    In q (i_hops st) -> h_o q = OReq sub fs -> h_d q = Some dq -> dq < h_b P ->
    sub_matches e fs = true ->
    (forall k, In k (i_hops st) -> h_c k = h_c q -> h_b q < h_b k -> op_ends (h_o k) sub = true ->
               lt_opt (h_b k) (h_d P) = false) ->
    (h_d P = None -> established (i_s st) (h_c q) sub fs /\ progress (i_s st) p (h_c q) sub fs e n) /\
    (h_d P <> None ->
       got_st (r_cs (i_s st) (h_c q)) sub e (p, n) \/ In ODisc (c_ops (r_cs (i_s st) (h_c q)))).

Lemma MInv_init buf : MInv (i_init buf).
Proof. intros P q p n e sub fs dq H. unfold pub_nth in H. cbn in H. destruct n; discriminate. Qed.

Theorem MInv_step buf st l :
  reachable buf (i_s st) -> HInv st -> PubInv st -> KInv st -> MInv st -> MInv (istep st l).
Proof.
  intros R HI PI KI MI. pose proof (Inv_reachable buf _ R) as I. pose proof (DDInv_reachable buf _ R) as DD.
  pose proof (istep_hchange st l) as HC.
  destruct (step_trans (i_s st) l) as [E|T].
  { destruct (istep_stutter st l E) as [EH _]. intros P q p n e sub fs dq. rewrite istep_s, E, EH. apply MI. }
  pose proof (PubInv_step buf st l R PI) as PI'.
  intros P' q' p n e sub fs dq' HP' HoP' Hq' Hoq' Hdq' Hlt Hm Prem. rewrite istep_s.
  destruct (pub_nth_hchange_bwd _ _ _ _ _ _ HC HP') as [(P & HP & (SP1 & SP2 & SP3) & EvP)|(En & e0 & EP' & EH')].
  2:{ (* the publication begins now *)
    destruct (istep_new_inv st l P' T EH') as [El _]. subst P'. cbn in El, HoP', Hlt |- *. inversion HoP'; subst e0. subst l.
    rewrite EH' in Hq'. apply in_app_iff in Hq' as [Hq|[X|[]]]; [|subst q'; discriminate].
    split; [intros _|intro X; now contradiction X].
    assert (Est : established (i_s st) (h_c q') sub fs).
    { eapply KI; eauto. intros k Hk Hck Hb.
      destruct (op_ends (h_o k) sub) eqn:He; [|reflexivity]. exfalso.
      assert (Hk' : In k (i_hops (istep st (LOp p (OEvent e))))) by (rewrite EH'; apply in_or_app; now left).
      specialize (Prem k Hk' Hck Hb He). discriminate. }
    split; [refine (established_trans _ (LOp p (OEvent e)) _ _ _ _ Est _ T); reflexivity|].
    left.
    assert (Hl : label_of_conn p (LOp p (OEvent e)) = true) by (cbn; apply Nat.eqb_refl).
    destruct (trans_pub_view _ _ _ p I T Hl) as [(o & El & Hpc & Hpc' & Hc)|[(e1 & El & _)|[(_ & _ & _ & _ & [El|[(c2 & ord & El)|El]])|(El & _)]]];
      try discriminate.
    inversion El; subst o. rewrite Hpc', Hc. cbn. split; [eauto|].
    pose proof (p_len st PI p) as L. rewrite Hpc in L. cbn in L. lia. }
  (* the publication had begun before *)
  destruct (pub_nth_In _ _ _ _ HP) as (HPin & HPc & _).
  destruct (hchange_bwd _ _ _ q' HC Hq') as [(q & Hq & (Sq1 & Sq2 & Sq3) & Evq)|(c & o & -> & _)]; [|discriminate].
  destruct (h_time st HI P HPin) as [HbP _].
  assert (Hdq : h_d q = Some dq').
  { destruct Evq as [Evq|(_ & Evq & _)]; [congruence|]. rewrite Evq in Hdq'. inversion Hdq'. lia. }
  rewrite Sq1 in *.
  assert (Prem0 : forall k, In k (i_hops st) -> h_c k = h_c q -> h_b q < h_b k -> op_ends (h_o k) sub = true ->
                  lt_opt (h_b k) (h_d P) = false).
  { intros k Hk Hck Hb He. destruct (hchange_fwd _ _ _ k HC Hk) as (k' & Hk' & (T1 & T2 & T3) & _).
    assert (X : lt_opt (h_b k') (h_d P') = false) by (apply Prem; congruence).
    rewrite T3 in X. destruct EvP as [EvP|(EvP1 & EvP2 & _)]; [congruence|].
    rewrite EvP2 in X. cbn in X. destruct (h_time st HI k Hk) as [Hbk _]. apply Z.ltb_ge in X. lia. }
  assert (Hlt0 : dq' < h_b P) by lia.
  assert (Hoq : h_o q = OReq sub fs) by congruence.
  assert (HoP : h_o P = OEvent e) by congruence.
  destruct (MI P q p n e sub fs dq' HP HoP Hq Hoq Hdq Hlt0 Hm Prem0) as [C1 C2].
  assert (NoEnd : h_d P' = None -> ends_sub (h_c q) sub l = false).
  { intro HdP'. destruct (ends_sub (h_c q) sub l) eqn:He; [|reflexivity]. exfalso.
    destruct (ends_sub_inv _ _ _ He) as (o & -> & Ho).
    assert (Hnew : In (mkHop (h_c q) o (i_now st) None) (i_hops (istep st (LOp (h_c q) o)))).
    { rewrite (istep_hops_trans st _ T). apply in_or_app. right. now left. }
    specialize (Prem _ Hnew). cbn in Prem. rewrite HdP' in Prem. cbn in Prem.
    destruct (h_time st HI q Hq) as [Hb _]. rewrite Sq3 in Prem. specialize (Prem eq_refl). discriminate Prem; [lia | assumption]. }
  destruct EvP as [EvP|(EvP1 & EvP2 & EvP3)].
  - rewrite EvP. split.
    + intro HdP. destruct (C1 HdP) as [Est Prg].
      assert (He : ends_sub (h_c q) sub l = false) by (apply NoEnd; congruence).
      split; [eapply established_trans; eassumption | eapply progress_trans; eassumption].
    + intro HdP. destruct (C2 HdP) as [G|G].
      * eapply got_st_trans; eassumption.
      * right. eapply ops_trans; eassumption.
  - split; [intro X; congruence | intros _]. left.
    destruct (C1 EvP1) as [Est Prg].
    destruct (pub_nth_In _ _ _ _ HP') as (HPin' & _ & _).
    destruct (hop_closed_now st l P P' (i_now st) HI T HPin EvP1 HPin' (conj SP1 (conj SP2 SP3)) EvP2)
      as (El & _ & Hpc' & _).
    rewrite HPc in El, Hpc'. subst l.
    assert (Prg' : progress (step (i_s st) (LRun p)) p (h_c q) sub fs e n).
    { eapply progress_trans; try eassumption. }
    eapply pub_done_progress; [|exact Prg'].
    split; [|rewrite Hpc'; constructor].
    pose proof (p_len _ PI' p) as L. rewrite istep_s, Hpc' in L. unfold count_pb in L. cbn [count_occ_b] in L.
    assert (n < length (pubs_of p (i_hops (istep st (LRun p)))))%nat by (apply nth_error_Some; unfold pub_nth in HP'; congruence).
    rewrite L, Nat.add_0_r in H. exact H.
Qed.
