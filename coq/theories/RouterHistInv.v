(* RouterHistInv.v — C07: invariants of the instrumented run that connect the
   model's state with the stamps of the history: which operation a
   publication tag belongs to, which REQ a registry entry belongs to. *)
From Moc Require Import Base Match Router RouterSpec RouterHist RouterLemmas RouterFrame RouterTrans RouterData
  RouterMust RouterEnv RouterInv RouterDataInv RouterOnce RouterOrder RouterReplies RouterProofs RouterHistBase.
From Coq Require Import Sorted.
Open Scope Z_scope.

Ltac upd_x x :=
  match goal with |- context [upd ?f ?k ?v x] => destruct (upd_cases f k v x) as [[-> ->]|[_ ->]] end.

(* ------------------------------------------------------------------ *)
(** * A cancelled session has accepted a disconnect *)

Definition DDInv (s : rstate) : Prop := forall x, c_dead (r_cs s x) = true -> In ODisc (c_ops (r_cs s x)).

Lemma DDInv_reachable buf s : reachable buf s -> DDInv s.
Proof.
  apply (reachable_ind' DDInv buf); [intros x H; discriminate|].
  intros s0 l s1 _ D T x Hd.
  destruct (trans_ops _ _ _ x T) as [[E1 E2]|(o & _ & E1 & E2 & _)].
  - rewrite E1. apply D. congruence.
  - rewrite E1. rewrite E2 in Hd. destruct o; try discriminate. apply in_or_app. right. now left.
Qed.

(* ------------------------------------------------------------------ *)
(** * The program of a busy connection ends with the last instruction of
      its current operation *)

Definition fin_instr (o : op) : instr :=
  match o with
  | OReq sub _ => IEose sub
  | OClose sub => ISubDel sub
  | OCount sub => ICount sub
  | OEvent e => IOk (ev_id e)
  | ODisc => IUnsubAll
  end.

Definition LOInv (s : rstate) : Prop :=
  forall x, c_pc (r_cs s x) <> [] ->
    exists ops0 o pre, c_ops (r_cs s x) = ops0 ++ [o] /\ c_pc (r_cs s x) = pre ++ [fin_instr o].

Lemma program_fin s c o : program s c o = [] \/ exists pre, program s c o = pre ++ [fin_instr o].
Proof.
  destruct o; cbn.
  - right. destruct (reg_get c (r_reg s)); [exists [ISubAdd sub fs] | exists [IRegAdd; ISubAdd sub fs]]; reflexivity.
  - destruct (reg_get c (r_reg s)); [right; exists []; reflexivity | now left].
  - right. exists []. reflexivity.
  - right. exists [IPubBegin e]. reflexivity.
  - right. exists []. reflexivity.
Qed.

(** how the program of the acting connection changes: the head is consumed,
    possibly replaced by new instructions in front of a non-empty rest *)
Lemma trans_pc_actor s l s' x :
  Inv s -> trans s l s' -> label_of_conn x l = true ->
  (exists o, l = LOp x o /\ c_pc (r_cs s x) = [] /\ c_pc (r_cs s' x) = program s x o) \/
  (exists i rest heads, c_pc (r_cs s x) = i :: rest /\ c_pc (r_cs s' x) = heads ++ rest /\ (heads = [] \/ rest <> [])).
Proof.
  intros I T Hl.
  assert (Hact : forall c, label_of_conn x (LRun c) = true -> x = c)
    by (intros c H; cbn in H; now apply Nat.eqb_eq in H).
  inversion T; subst; cbn [label_of_conn] in Hl; try discriminate; try (apply Hact in Hl; subst x);
    cbn [r_cs with_cs].
  - left. exists o. rewrite upd_same. auto.
  - right. exists IRegAdd, rest, []. rewrite upd_same. auto.
  - right. exists (ISubAdd sub fs), rest, []. rewrite upd_same. auto.
  - right. exists (ISubAdd sub fs), rest, []. rewrite upd_same. auto.
  - right. exists (ISubDel sub), rest, []. rewrite upd_same. auto.
  - right. exists (ISubDel sub), rest, []. rewrite upd_same. auto.
  - right. exists i, rest, []. rewrite upd_same. auto.
  - right. exists (IPubBegin e), rest, [IPub e (c, c_ctr (r_cs s c)) (List.map fst (r_reg s))]. rewrite upd_same. cbn.
    repeat split; auto. right. pose proof (inv_pc s I c) as P. rewrite H in P.
    rewrite (pc_ok_inv_pubbegin _ _ _ _ P). discriminate.
  - right. exists (IPub e t []), rest, []. rewrite upd_same. auto.
  - assert (x = c) by (destruct H1 as [->|[-> _]]; cbn in Hl; now apply Nat.eqb_eq in Hl). subst x.
    right. unfold start_visit. cbn [r_cs with_cs].
    rewrite (pc_upd2 _ _ _ _ (fun st => set_rd st (c :: c_rd st))) by (intro; reflexivity). rewrite upd_same. cbn.
    eexists _, rest, [_; _]. split; [eassumption|]. split; [reflexivity|]. right.
    pose proof (inv_pc s I c) as P. rewrite H in P.
    destruct (pc_ok_inv_pub _ _ _ _ _ _ P) as (n & id & _ & -> & _). discriminate.
  - right.
    rewrite (pc_upd2 _ _ _ _ (fun st => set_rd st (remove_conn c (c_rd st)))) by (intro; reflexivity). rewrite upd_same. cbn.
    eexists _, rest, []. eauto.
  - right.
    rewrite (pc_upd2 _ _ _ _ (send_if_match (r_buf s) e t sub fs)) by (intro; apply ctl_send_if_match). rewrite upd_same. cbn.
    eexists _, rest, [_]. split; [eassumption|]. split; [reflexivity|]. right.
    pose proof (inv_pc s I c) as P. rewrite H in P.
    destruct (pc_ok_inv_visit _ _ _ _ _ _ _ P) as (n & rem & id & _ & -> & _). discriminate.
  - right. exists IUnsubAll, rest, []. rewrite upd_same. auto.
Qed.

Lemma LOInv_reachable buf s : reachable buf s -> LOInv s.
Proof.
  intro R. induction R as [|s l R IH]; [intros x H; cbn in H; congruence|].
  destruct (step_trans s l) as [E|T]; [now rewrite E|].
  pose proof (Inv_reachable buf s R) as I. intros x Hx.
  destruct (label_of_conn x l) eqn:Hl.
  - destruct (trans_pc_actor s l _ x I T Hl) as [(o & El & Hpc & Hpc')|(i & rest & heads & Hpc & Hpc' & Hh)].
    + destruct (trans_ops _ _ _ x T) as [[E _]|(o' & El' & E & _)].
      * exfalso. subst l. pose proof (trans_actor _ _ _ T) as [A1 A2].
        assert (A : accepted s x = true) by (unfold accepted; now rewrite A1, A2).
        rewrite (accepted_step _ _ o A) in E. apply (f_equal (@length op)) in E. rewrite app_length in E. cbn in E. lia.
      * rewrite El in El'. inversion El'; subst o'. rewrite E, Hpc'.
        destruct (program_fin s x o) as [P0|[pre P0]]; [rewrite Hpc', P0 in Hx; contradiction|].
        exists (c_ops (r_cs s x)), o, pre. auto.
    + assert (Hne : c_pc (r_cs s x) <> []) by (rewrite Hpc; discriminate).
      destruct (IH x Hne) as (ops0 & o & pre & Eo & Ep).
      assert (Eops : c_ops (r_cs (step s l) x) = c_ops (r_cs s x)).
      { destruct (trans_ops _ _ _ x T) as [[E _]|(o' & El' & _ & _ & Ep')]; [assumption|].
        subst l. pose proof (trans_actor _ _ _ T) as [A1 _]. rewrite Hpc in A1. discriminate. }
      rewrite Eops, Hpc'. exists ops0, o.
      destruct rest as [|i2 rest2].
      * destruct Hh as [->|Hh]; [|contradiction]. rewrite Hpc' in Hx. cbn in Hx. contradiction.
      * rewrite Hpc in Ep. destruct pre as [|i0 pre]; [cbn in Ep; inversion Ep|].
        cbn in Ep. inversion Ep as [[E1 E2]]. exists (heads ++ pre). rewrite E2. split; [assumption | now rewrite app_assoc].
  - rewrite (trans_pc_other _ _ _ _ T Hl) in *.
    destruct (IH x Hx) as (ops0 & o & pre & Eo & Ep). exists ops0, o, pre. split; [|assumption].
    destruct (ctl_fields _ _ (trans_ctl_other _ _ _ x T Hl)) as (_ & _ & E & _). now rewrite E.
Qed.

(* ------------------------------------------------------------------ *)
(** * Publication tags and operations *)

Definition is_pubbegin (i : instr) : bool := match i with IPubBegin _ => true | _ => false end.
Definition count_pb (pc : list instr) : nat := count_occ_b is_pubbegin pc.

Definition pub_instr (e : event) (t : ptag) (i : instr) : Prop :=
  match i with
  | IPub e' t' _ => e' = e /\ t' = t
  | IVisit e' t' _ _ => e' = e /\ t' = t
  | _ => False
  end.

(** the program is inside publication [t] of event [e] *)
Definition cur_pub (pc : list instr) (e : event) (t : ptag) : Prop := exists i, In i pc /\ pub_instr e t i.

Record PubInv (st : istate) : Prop := mkPubInv {
  p_len : forall p, length (pubs_of p (i_hops st)) = (c_ctr (r_cs (i_s st) p) + count_pb (c_pc (r_cs (i_s st) p)))%nat;
  p_begin : forall p e, In (IPubBegin e) (c_pc (r_cs (i_s st) p)) ->
              exists P, pub_nth (i_hops st) p (c_ctr (r_cs (i_s st) p)) P /\ h_o P = OEvent e /\ h_d P = None;
  p_cur : forall p e t, cur_pub (c_pc (r_cs (i_s st) p)) e t ->
              exists P, fst t = p /\ pub_nth (i_hops st) p (snd t) P /\ h_o P = OEvent e /\ h_d P = None
}.

Lemma PubInv_init buf : PubInv (i_init buf).
Proof.
  constructor; cbn.
  - reflexivity.
  - intros; contradiction.
  - intros p e t (i & [] & _).
Qed.

Lemma count_pb_program s c o : count_pb (program s c o) = if is_pub_op o then 1%nat else 0%nat.
Proof. destruct o; cbn; try reflexivity; destruct (reg_get c (r_reg s)); reflexivity. Qed.

Lemma program_pubbegin s c o e : In (IPubBegin e) (program s c o) -> o = OEvent e.
Proof.
  destruct o; cbn; try (destruct (reg_get c (r_reg s))); cbn; intro H;
    repeat (destruct H as [H|H]; [try discriminate|]); try contradiction.
  all: now inversion H.
Qed.

Lemma program_no_cur s c o e t : ~ cur_pub (program s c o) e t.
Proof.
  intros (i & Hin & Hp). destruct o; cbn in Hin; try (destruct (reg_get c (r_reg s))); cbn in Hin;
    repeat (destruct Hin as [Hin|Hin]; [subst i; cbn in Hp; try contradiction|]); try contradiction.
Qed.

Lemma trans_pub_view s l s' p :
  Inv s -> trans s l s' -> label_of_conn p l = true ->
  (exists o, l = LOp p o /\ c_pc (r_cs s p) = [] /\ c_pc (r_cs s' p) = program s p o /\ c_ctr (r_cs s' p) = c_ctr (r_cs s p)) \/
  (exists e, l = LRun p /\ c_pc (r_cs s p) = [IPubBegin e; IOk (ev_id e)] /\
             c_pc (r_cs s' p) = [IPub e (p, c_ctr (r_cs s p)) (List.map fst (r_reg s)); IOk (ev_id e)] /\
             c_ctr (r_cs s' p) = S (c_ctr (r_cs s p))) \/
  (c_ctr (r_cs s' p) = c_ctr (r_cs s p) /\ count_pb (c_pc (r_cs s' p)) = count_pb (c_pc (r_cs s p)) /\
   (forall e, In (IPubBegin e) (c_pc (r_cs s' p)) -> In (IPubBegin e) (c_pc (r_cs s p))) /\
   (forall e t, cur_pub (c_pc (r_cs s' p)) e t -> cur_pub (c_pc (r_cs s p)) e t) /\
   (exists c', l = LRun c' \/ exists c2 ord, l = LVisit c' c2 ord)).
Proof.
  intros I T Hl.
  assert (Hact : forall c, label_of_conn p (LRun c) = true -> p = c)
    by (intros c H; cbn in H; now apply Nat.eqb_eq in H).
  assert (Pop : forall i rest, c_pc (r_cs s p) = i :: rest -> is_pubbegin i = false ->
                (forall e t, ~ pub_instr e t i) \/ True ->
                count_pb rest = count_pb (c_pc (r_cs s p)) /\
                (forall e, In (IPubBegin e) rest -> In (IPubBegin e) (c_pc (r_cs s p))) /\
                (forall e t, cur_pub rest e t -> cur_pub (c_pc (r_cs s p)) e t)).
  { intros i rest E Hi _. rewrite E. split; [unfold count_pb; cbn; now rewrite Hi|]. split.
    - intros e H. now right.
    - intros e t (j & Hj & Hp). exists j. split; [now right | assumption]. }
  inversion T; subst; cbn [label_of_conn] in Hl; try discriminate; try (apply Hact in Hl; subst p);
    cbn [r_cs with_cs].
  - left. exists o. rewrite upd_same. cbn. auto.
  - right; right. rewrite upd_same. cbn [c_ctr c_pc set_pc]. destruct (Pop _ _ H eq_refl (or_intror Logic.I)) as (A & B & C). eauto 10.
  - right; right. rewrite upd_same. cbn [c_ctr c_pc set_pc]. destruct (Pop _ _ H eq_refl (or_intror Logic.I)) as (A & B & C). eauto 10.
  - right; right. rewrite upd_same. cbn [c_ctr c_pc set_pc]. destruct (Pop _ _ H eq_refl (or_intror Logic.I)) as (A & B & C). eauto 10.
  - right; right. rewrite upd_same. cbn [c_ctr c_pc set_pc]. destruct (Pop _ _ H eq_refl (or_intror Logic.I)) as (A & B & C). eauto 10.
  - right; right. rewrite upd_same. cbn [c_ctr c_pc set_pc]. destruct (Pop _ _ H eq_refl (or_intror Logic.I)) as (A & B & C). eauto 10.
  - right; right. rewrite upd_same. cbn [c_ctr c_pc set_pc push_out].
    assert (Hi : is_pubbegin i = false) by (destruct i; cbn in H0; try contradiction; reflexivity).
    destruct (Pop _ _ H Hi (or_intror Logic.I)) as (A & B & C). eauto 10.
  - right; left. exists e. rewrite upd_same. cbn [c_ctr c_pc].
    pose proof (inv_pc s I c) as P. rewrite H in P. rewrite (pc_ok_inv_pubbegin _ _ _ _ P) in *. auto.
  - right; right. rewrite upd_same. cbn [c_ctr c_pc set_pc]. destruct (Pop _ _ H eq_refl (or_intror Logic.I)) as (A & B & C). eauto 10.
  - (* visit *)
    assert (p = c) by (destruct H1 as [->|[-> _]]; cbn in Hl; now apply Nat.eqb_eq in Hl). subst p.
    right; right. unfold start_visit. cbn [r_cs with_cs].
    rewrite (pc_upd2 _ _ _ _ (fun st => set_rd st (c :: c_rd st))) by (intro; reflexivity).
    rewrite (ctr_upd2 _ _ _ _ (fun st => set_rd st (c :: c_rd st))) by (intro; reflexivity).
    rewrite upd_same. cbn [c_ctr c_pc set_pc]. rewrite H. split; [reflexivity|]. split; [reflexivity|]. split; [|split].
    + intros e0 [X|[X|X]]; try discriminate. now right.
    + intros e0 t0 (j & [<-|[<-|Hj]] & Hp); cbn in Hp.
      * exists (IPub e t rem). split; [now left | exact Hp].
      * exists (IPub e t rem). split; [now left | exact Hp].
      * exists j. split; [now right | assumption].
    + exists c. destruct H1 as [->|[-> _]]; eauto.
  - right; right.
    rewrite (pc_upd2 _ _ _ _ (fun st => set_rd st (remove_conn c (c_rd st)))) by (intro; reflexivity).
    rewrite (ctr_upd2 _ _ _ _ (fun st => set_rd st (remove_conn c (c_rd st)))) by (intro; reflexivity).
    rewrite upd_same. cbn [c_ctr c_pc set_pc]. destruct (Pop _ _ H eq_refl (or_intror Logic.I)) as (A & B & C). eauto 10.
  - right; right.
    rewrite (pc_upd2 _ _ _ _ (send_if_match (r_buf s) e t sub fs)) by (intro; apply ctl_send_if_match).
    rewrite (ctr_upd2 _ _ _ _ (send_if_match (r_buf s) e t sub fs)) by (intro; apply ctl_send_if_match).
    rewrite upd_same. cbn [c_ctr c_pc set_pc]. rewrite H. split; [reflexivity|]. split; [reflexivity|]. split; [|split].
    + intros e0 [X|X]; [discriminate | now right].
    + intros e0 t0 (j & [<-|Hj] & Hp); cbn in Hp.
      * exists (IVisit e t c' ((sub, fs) :: todo)). split; [now left | exact Hp].
      * exists j. split; [now right | assumption].
    + eauto.
  - right; right. rewrite upd_same. cbn [c_ctr c_pc]. destruct (Pop _ _ H eq_refl (or_intror Logic.I)) as (A & B & C). eauto 10.
Qed.

Lemma istep_pubs_other st l p :
  label_of_conn p l = false -> pubs_of p (i_hops (istep st l)) = pubs_of p (i_hops st).
Proof.
  intro Hl. destruct (step_trans (i_s st) l) as [E|T].
  - now destruct (istep_stutter st l E) as [-> _].
  - rewrite (istep_hops_trans st l T). destruct l as [c o|c|c c' ord|c|c]; try reflexivity; cbn in Hl.
    + rewrite pubs_of_app. unfold pubs_of at 2. cbn [filter h_c]. rewrite Nat.eqb_sym, Hl. cbn. apply app_nil_r.
    + destruct (is_nil _); [|reflexivity]. rewrite pubs_of_close.
      rewrite <- (map_id (pubs_of p (i_hops st))) at 2. apply map_ext_in.
      intros h Hin. apply filter_In in Hin as [_ Hin]. apply andb_true_iff in Hin as [Hin _]. apply Nat.eqb_eq in Hin.
      apply close1_other. apply Nat.eqb_neq in Hl. congruence.
Qed.

Lemma pub_nth_close H p c k n P : pub_nth H p n P -> pub_nth (close_hop c k H) p n (close1 c k P).
Proof. intro E. unfold pub_nth. rewrite pubs_of_close. now apply map_nth_error. Qed.

Theorem PubInv_step buf st l : reachable buf (i_s st) -> PubInv st -> PubInv (istep st l).
Proof.
  intros R PI. pose proof (Inv_reachable buf _ R) as I.
  destruct (step_trans (i_s st) l) as [E|T].
  { destruct (istep_stutter st l E) as [EH _].
    constructor; rewrite ?istep_s, ?EH, ?E; apply PI. }
  assert (Other : forall p, label_of_conn p l = false ->
            pubs_of p (i_hops (istep st l)) = pubs_of p (i_hops st) /\
            c_pc (r_cs (step (i_s st) l) p) = c_pc (r_cs (i_s st) p) /\
            c_ctr (r_cs (step (i_s st) l) p) = c_ctr (r_cs (i_s st) p)).
  { intros p Hl. split; [now apply istep_pubs_other|].
    destruct (ctl_fields _ _ (trans_ctl_other _ _ _ p T Hl)) as (E1 & _ & _ & E2). auto. }
  pose proof (istep_hops_trans st l T) as EH.
  constructor; rewrite ?istep_s.
  - (* p_len *)
    intro p. destruct (label_of_conn p l) eqn:Hl; [|destruct (Other p Hl) as (-> & -> & ->); apply PI].
    destruct (trans_pub_view _ _ _ p I T Hl) as [(o & -> & Hpc & Hpc' & Hc)|[(e & -> & Hpc & Hpc' & Hc)|(Hc & Hn & _ & _ & Hlab)]].
    + rewrite EH, pubs_of_app, app_length, Hpc', Hc, count_pb_program. pose proof (p_len st PI p) as L. rewrite Hpc in L. cbn in L.
      unfold pubs_of at 2. cbn [filter h_c h_o]. rewrite Nat.eqb_refl. cbn [andb]. destruct (is_pub_op o); cbn; lia.
    + rewrite EH, Hpc', Hc. cbn [is_nil]. pose proof (p_len st PI p) as L. rewrite Hpc in L. cbn in L |- *. lia.
    + rewrite Hc, Hn, <- (p_len st PI p). rewrite EH.
      destruct Hlab as (c' & [->|(c2 & ord & ->)]); [|reflexivity].
      destruct (is_nil _); [|reflexivity]. rewrite pubs_of_close. apply map_length.
  - (* p_begin *)
    intros p e Hin. destruct (label_of_conn p l) eqn:Hl.
    2:{ destruct (Other p Hl) as (E1 & E2 & E3). unfold pub_nth. rewrite E1, E3. rewrite E2 in Hin. now apply PI. }
    destruct (trans_pub_view _ _ _ p I T Hl) as [(o & -> & Hpc & Hpc' & Hc)|[(e0 & -> & Hpc & Hpc' & Hc)|(Hc & _ & Hb & _ & Hlab)]].
    + rewrite Hpc' in Hin. apply program_pubbegin in Hin. subst o.
      exists (mkHop p (OEvent e) (i_now st) None). rewrite EH, Hc. split; [|auto].
      unfold pub_nth. rewrite pubs_of_app. pose proof (p_len st PI p) as L. rewrite Hpc in L. cbn in L.
      rewrite nth_error_app2 by lia. replace (_ - _)%nat with 0%nat by lia.
      unfold pubs_of. cbn. now rewrite Nat.eqb_refl.
    + rewrite Hpc' in Hin. destruct Hin as [X|[X|[]]]; discriminate.
    + specialize (Hb e Hin). rewrite Hc. destruct (p_begin st PI p e Hb) as (P & H1 & H2 & H3).
      assert (Hne : c_pc (r_cs (step (i_s st) l) p) <> []) by (intro X; rewrite X in Hin; contradiction).
      exists P. rewrite EH. destruct Hlab as (c' & [->|(c2 & ord & ->)]); [|auto].
      cbn in Hl. apply Nat.eqb_eq in Hl. subst c'. apply is_nil_false in Hne. rewrite Hne. auto.
  - (* p_cur *)
    intros p e t Hcur. destruct (label_of_conn p l) eqn:Hl.
    2:{ destruct (Other p Hl) as (E1 & E2 & E3). unfold pub_nth. rewrite E1. rewrite E2 in Hcur. now apply PI. }
    destruct (trans_pub_view _ _ _ p I T Hl) as [(o & -> & Hpc & Hpc' & Hc)|[(e0 & -> & Hpc & Hpc' & Hc)|(Hc & _ & _ & Hb & Hlab)]].
    + rewrite Hpc' in Hcur. exfalso. eapply program_no_cur. eassumption.
    + rewrite Hpc' in Hcur. destruct Hcur as (i & [<-|[<-|[]]] & Hp); cbn in Hp; [|contradiction].
      destruct Hp as [<- <-]. cbn [fst snd].
      destruct (p_begin st PI p e0) as (P & H1 & H2 & H3); [rewrite Hpc; now left|].
      exists P. rewrite EH, Hpc'. cbn [is_nil]. auto.
    + specialize (Hb e t Hcur). destruct (p_cur st PI p e t Hb) as (P & H0 & H1 & H2 & H3).
      assert (Hne : c_pc (r_cs (step (i_s st) l) p) <> []) by (intro X; rewrite X in Hcur; destruct Hcur as (? & [] & _)).
      exists P. rewrite EH. destruct Hlab as (c' & [->|(c2 & ord & ->)]); [|auto].
      cbn in Hl. apply Nat.eqb_eq in Hl. subst c'. apply is_nil_false in Hne. rewrite Hne. auto.
Qed.

(* ------------------------------------------------------------------ *)
(** * Every registry entry belongs to a REQ, and whatever the client has
      issued after that REQ against the same id has not taken effect yet *)

Definition eff_pending (o : op) (sub : str) (pc : list instr) : Prop :=
  match o with
  | OReq s' _ => s' = sub /\ exists fs, In (ISubAdd sub fs) pc
  | OClose s' => s' = sub /\ In (ISubDel sub) pc
  | ODisc => In IUnsubAll pc
  | _ => False
  end.

Definition eff_instr (i : instr) : bool :=
  match i with ISubAdd _ _ | ISubDel _ | IUnsubAll => true | _ => false end.

Lemma eff_pending_has o sub pc : eff_pending o sub pc -> existsb eff_instr pc = true.
Proof.
  destruct o; cbn; try contradiction.
  - intros [_ [fs' H]]. apply existsb_exists. eexists. split; [eassumption | reflexivity].
  - intros [_ H]. apply existsb_exists. eexists. split; [eassumption | reflexivity].
  - intro H. apply existsb_exists. eexists. split; [eassumption | reflexivity].
Qed.

(** [k] is the latest operation of its connection *)
Definition last_of (H : list hop) (k : hop) : Prop := forall h', In h' H -> h_c h' = h_c k -> h_b h' <= h_b k.

Definition AInv (st : istate) : Prop :=
  forall x sub fs, sub_of (i_s st) x sub = Some fs ->
    exists q, In q (i_hops st) /\ h_c q = x /\ h_o q = OReq sub fs /\
      forall k, In k (i_hops st) -> h_c k = x -> h_b q < h_b k -> op_ends (h_o k) sub = true ->
        eff_pending (h_o k) sub (c_pc (r_cs (i_s st) x)) /\ last_of (i_hops st) k.

Lemma AInv_init buf : AInv (i_init buf).
Proof. intros x sub fs H. discriminate. Qed.

(** no operation of [x] is added by the step *)
Definition no_new_of (x : conn) (now : Z) (H H' : list hop) : Prop :=
  forall c o, H' = H ++ [mkHop c o now None] -> c <> x.

Lemma AInv_keep_none now H H' x sub fs q (pc' : list instr) :
  hchange now H H' -> no_new_of x now H H' ->
  In q H -> h_c q = x -> h_o q = OReq sub fs ->
  (forall k, In k H -> h_c k = x -> h_b q < h_b k -> op_ends (h_o k) sub = true -> False) ->
  exists q', In q' H' /\ h_c q' = x /\ h_o q' = OReq sub fs /\
    forall k, In k H' -> h_c k = x -> h_b q' < h_b k -> op_ends (h_o k) sub = true ->
      eff_pending (h_o k) sub pc' /\ last_of H' k.
Proof.
  intros HC NN Hq Hc Ho NL.
  destruct (hchange_fwd now H H' q HC Hq) as (q' & Hq' & (S1 & S2 & S3) & _).
  exists q'. split; [assumption|]. split; [congruence|]. split; [congruence|].
  intros k' Hk' Hck' Hb Hends. exfalso.
  destruct (hchange_bwd now H H' k' HC Hk') as [(k & Hk & (T1 & T2 & T3) & _)|(c & o & -> & E)].
  - apply (NL k Hk); congruence.
  - apply (NN c o E). exact Hck'.
Qed.

Lemma AInv_keep_pending now H H' x sub fs q (pc : list instr) :
  hchange now H H' -> no_new_of x now H H' ->
  In q H -> h_c q = x -> h_o q = OReq sub fs ->
  (forall k, In k H -> h_c k = x -> h_b q < h_b k -> op_ends (h_o k) sub = true ->
     eff_pending (h_o k) sub pc /\ last_of H k) ->
  exists q', In q' H' /\ h_c q' = x /\ h_o q' = OReq sub fs /\
    forall k, In k H' -> h_c k = x -> h_b q' < h_b k -> op_ends (h_o k) sub = true ->
      eff_pending (h_o k) sub pc /\ last_of H' k.
Proof.
  intros HC NN Hq Hc Ho NL.
  destruct (hchange_fwd now H H' q HC Hq) as (q' & Hq' & (S1 & S2 & S3) & _).
  exists q'. split; [assumption|]. split; [congruence|]. split; [congruence|].
  intros k' Hk' Hck' Hb Hends.
  destruct (hchange_bwd now H H' k' HC Hk') as [(k & Hk & (T1 & T2 & T3) & _)|(c & o & -> & E)].
  - destruct (NL k Hk) as [P L]; try congruence. split; [now rewrite T2|].
    intros h' Hh' Hch'.
    destruct (hchange_bwd now H H' h' HC Hh') as [(h & Hh & (U1 & U2 & U3) & _)|(c & o & -> & E)].
    + rewrite U3, T3. apply L; [assumption | congruence].
    + exfalso. apply (NN c o E). cbn in Hch'. congruence.
  - exfalso. apply (NN c o E). exact Hck'.
Qed.

Lemma SSorted_filter_gen {A} (R : A -> A -> Prop) (f : A -> bool) l :
  StronglySorted R l -> StronglySorted R (filter f l).
Proof.
  intro S. induction S as [|a l S IH F]; cbn; [constructor|].
  destruct (f a); [|assumption]. constructor; [assumption|].
  rewrite Forall_forall in *. intros b Hb. apply filter_In in Hb as [Hb _]. now apply F.
Qed.

Lemma xops_last_is_last H x L h0 :
  StronglySorted (fun a b => h_b a < h_b b) H -> xops x H = L ++ [h0] ->
  In h0 H /\ h_c h0 = x /\ (forall h', In h' H -> h_c h' = x -> h_b h' <= h_b h0).
Proof.
  intros S E.
  assert (Hin : In h0 (xops x H)) by (rewrite E; apply in_or_app; right; now left).
  apply xops_In in Hin as [Hin Hc]. split; [assumption|]. split; [assumption|].
  intros h' Hh' Hc'.
  assert (Hin' : In h' (xops x H)) by (apply xops_In; auto).
  assert (S' : StronglySorted (fun a b => h_b a < h_b b) (xops x H)) by (unfold xops; now apply SSorted_filter_gen).
  rewrite E in Hin', S'. apply in_app_iff in Hin' as [Hin'|[<-|[]]]; [|lia].
  clear -S' Hin'. induction L as [|a L IH]; [contradiction|].
  cbn in S'. inversion S' as [|? ? S1 S2]; subst. destruct Hin' as [<-|Hin'].
  - rewrite Forall_forall in S2. assert (In h0 (L ++ [h0])) by (apply in_or_app; right; now left).
    specialize (S2 _ H). lia.
  - now apply IH.
Qed.

Lemma map_eq_snoc {A B} (f : A -> B) l l0 b :
  List.map f l = l0 ++ [b] -> exists L h0, l = L ++ [h0] /\ f h0 = b.
Proof.
  intro E. destruct (@exists_last _ l) as (L & h0 & ->).
  - intro X. subst l. cbn in E. destruct l0; discriminate.
  - rewrite map_app in E. cbn in E. apply app_inj_tail in E as [_ E]. eauto.
Qed.

Lemma istep_no_new st l x :
  trans (i_s st) l (step (i_s st) l) -> (forall o, l <> LOp x o) ->
  no_new_of x (i_now st) (i_hops st) (i_hops (istep st l)).
Proof.
  intros T Hno c o E. rewrite (istep_hops_trans st l T) in E.
  destruct l as [c0 o0|c0|c0 c' ord|c0|c0].
  - apply app_inv_head in E. inversion E; subst. intro; subst. eapply Hno. reflexivity.
  - destruct (is_nil _); apply (f_equal (@length hop)) in E; unfold close_hop in E;
      rewrite ?map_length, app_length in E; cbn in E; lia.
  - apply (f_equal (@length hop)) in E. rewrite app_length in E. cbn in E. lia.
  - apply (f_equal (@length hop)) in E. rewrite app_length in E. cbn in E. lia.
  - apply (f_equal (@length hop)) in E. rewrite app_length in E. cbn in E. lia.
Qed.

Lemma program_pending s c o sub fs :
  sub_of s c sub = Some fs -> op_ends o sub = true -> eff_pending o sub (program s c o).
Proof.
  intros Hs He. apply sub_of_reg_get in Hs as (m & Hg & _).
  destruct o; cbn in *; try discriminate; rewrite ?Hg.
  - apply str_eqb_eq in He. subst. split; [reflexivity|]. eexists. now left.
  - apply str_eqb_eq in He. subst. split; [reflexivity|]. now left.
  - now left.
Qed.

Lemma AInv_actor_noeff st (H' : list hop) x sub fs pc' :
  AInv st -> sub_of (i_s st) x sub = Some fs ->
  existsb eff_instr (c_pc (r_cs (i_s st) x)) = false ->
  hchange (i_now st) (i_hops st) H' -> no_new_of x (i_now st) (i_hops st) H' ->
  exists q', In q' H' /\ h_c q' = x /\ h_o q' = OReq sub fs /\
    forall k, In k H' -> h_c k = x -> h_b q' < h_b k -> op_ends (h_o k) sub = true ->
      eff_pending (h_o k) sub pc' /\ last_of H' k.
Proof.
  intros AI Hs Hne HC NN. destruct (AI x sub fs Hs) as (q & Hq & Hc & Ho & Hk).
  eapply AInv_keep_none; try eassumption.
  intros k Hin Hck Hb He. destruct (Hk k Hin Hck Hb He) as [P _].
  apply eff_pending_has in P. congruence.
Qed.

Theorem AInv_step buf st l : reachable buf (i_s st) -> HInv st -> AInv st -> AInv (istep st l).
Proof.
  intros R HI AI. pose proof (Inv_reachable buf _ R) as I.
  pose proof (istep_hchange st l) as HC.
  destruct (step_trans (i_s st) l) as [E|T].
  { destruct (istep_stutter st l E) as [EH _]. intros x sub fs Hs. rewrite istep_s, E in *. rewrite EH. now apply AI. }
  pose proof (istep_hops_trans st l T) as EH.
  intros x sub fs Hs. rewrite istep_s in *.
  destruct (label_of_conn x l) eqn:Hl.
  2:{ (* x does not act *)
    assert (Hnr : l <> LRun x) by (now apply not_label_not_run).
    assert (Hs0 : sub_of (i_s st) x sub = Some fs).
    { rewrite <- Hs. symmetry. apply sub_of_reg_eq. eapply env_reg; eassumption. }
    rewrite (trans_pc_other _ _ _ _ T Hl).
    destruct (AI x sub fs Hs0) as (q & Hq & Hc & Ho & Hk).
    eapply AInv_keep_pending; try eassumption.
    apply istep_no_new; [assumption|]. intros o ->. cbn in Hl. now rewrite Nat.eqb_refl in Hl. }
  assert (Hact : forall c, label_of_conn x (LRun c) = true -> x = c)
    by (intros c H; cbn in H; now apply Nat.eqb_eq in H).
  assert (NNrun : forall c, l = LRun c -> no_new_of x (i_now st) (i_hops st) (i_hops (istep st l))).
  { intros c ->. apply istep_no_new; [assumption | discriminate]. }
  assert (NNall : (forall o, l <> LOp x o) -> no_new_of x (i_now st) (i_hops st) (i_hops (istep st l)))
    by (now apply istep_no_new).
  remember (step (i_s st) l) as s' eqn:Es'. clear Es'.
  inversion T; subst; cbn [label_of_conn] in Hl; try discriminate; try (apply Hact in Hl; subst x);
    cbn [r_cs with_cs] in *.
  - (* op *)
    rewrite sub_of_with_cs in Hs. rewrite upd_same. cbn [c_pc].
    destruct (AI c sub fs Hs) as (q & Hq & Hc & Ho & Hk).
    rewrite EH. exists q. split; [apply in_or_app; now left|]. split; [assumption|]. split; [assumption|].
    intros k Hin Hck Hb He. apply in_app_iff in Hin as [Hin|[<-|[]]].
    + exfalso. destruct (Hk k Hin Hck Hb He) as [P _]. rewrite H in P. apply eff_pending_has in P. discriminate.
    + cbn [h_o]. split; [now apply (program_pending _ _ _ _ fs)|].
      intros h' Hin' _. apply in_app_iff in Hin' as [Hin'|[<-|[]]]; [|cbn; lia].
      destruct (h_time st HI h' Hin'). cbn. lia.
  - (* regadd *) rewrite sub_of_mk, reg_get_set_same in Hs. discriminate.
  - (* subadd *)
    rewrite sub_of_mk, reg_get_set_same in Hs. rewrite upd_same. cbn [c_pc set_pc].
    pose proof (inv_pc _ I c) as P. rewrite H in P.
    destruct (pc_ok_inv_subadd _ _ _ _ _ P) as (-> & _ & _).
    destruct (pc_ok_inv_subadd_last _ _ _ _ _ P) as (ops0 & Eo).
    destruct (str_dec sub sub0) as [->|N].
    + rewrite assoc_sm_set_same in Hs. inversion Hs; subst fs0.
      pose proof (h_ops st HI c) as Eops. rewrite Eo in Eops.
      destruct (map_eq_snoc _ _ _ _ Eops) as (L & h0 & EL & Eh0).
      destruct (xops_last_is_last _ _ _ _ (h_sorted st HI) EL) as (Hin0 & Hc0 & Hlast).
      rewrite EH. rewrite upd_same. cbn [c_pc set_pc is_nil].
      exists h0. split; [assumption|]. split; [assumption|]. split; [assumption|].
      intros k Hk1 Hk2 Hk3 _. exfalso. specialize (Hlast k Hk1 Hk2). lia.
    + rewrite assoc_sm_set_other in Hs by assumption.
      assert (Hs0 : sub_of (i_s st) c sub = Some fs) by (unfold sub_of; now rewrite H1).
      destruct (AI c sub fs Hs0) as (q & Hq & Hc & Ho & Hk).
      eapply AInv_keep_none; try eassumption; [now apply (NNrun c)|].
      intros k Hin Hck Hb He. destruct (Hk k Hin Hck Hb He) as [Pd _]. rewrite H in Pd.
      destruct (h_o k); cbn in Pd; try contradiction.
      * destruct Pd as [-> [fs' [X|[X|[]]]]]; [inversion X; congruence | discriminate].
      * destruct Pd as [-> [X|[X|[]]]]; discriminate.
      * destruct Pd as [X|[X|[]]]; discriminate.
  - (* subadd_none *) rewrite sub_of_with_cs in Hs. unfold sub_of in Hs. rewrite H1 in Hs. discriminate.
  - (* subdel *)
    rewrite sub_of_mk, reg_get_set_same in Hs. rewrite upd_same. cbn [c_pc set_pc].
    pose proof (inv_pc _ I c) as P. rewrite H in P. rewrite (pc_ok_inv_subdel _ _ _ _ P) in *.
    destruct (str_dec sub sub0) as [->|N]; [rewrite assoc_sm_del_same in Hs; discriminate|].
    rewrite assoc_sm_del_other in Hs by assumption.
    assert (Hs0 : sub_of (i_s st) c sub = Some fs) by (unfold sub_of; now rewrite H1).
    destruct (AI c sub fs Hs0) as (q & Hq & Hc & Ho & Hk).
    eapply AInv_keep_none; try eassumption; [now apply (NNrun c)|].
    intros k Hin Hck Hb He. destruct (Hk k Hin Hck Hb He) as [Pd _]. rewrite H in Pd.
    destruct (h_o k); cbn in Pd; try contradiction.
    + destruct Pd as [-> [fs' [X|[]]]]; discriminate.
    + destruct Pd as [-> [X|[]]]. inversion X. congruence.
    + destruct Pd as [X|[]]; discriminate.
  - (* subdel_none *) rewrite sub_of_with_cs in Hs. unfold sub_of in Hs. rewrite H1 in Hs. discriminate.
  - (* reply *)
    rewrite sub_of_with_cs in Hs.
    eapply AInv_actor_noeff; try eassumption; [|now apply (NNrun c)].
    pose proof (inv_pc _ I c) as P. rewrite H in P |- *.
    destruct i; cbn in H0; try contradiction.
    + destruct (pc_ok_inv_eose _ _ _ _ P) as [-> _]. reflexivity.
    + rewrite (pc_ok_inv_count _ _ _ _ P). reflexivity.
    + rewrite (pc_ok_inv_ok _ _ _ _ P). reflexivity.
  - (* pubbegin *)
    rewrite sub_of_mk in Hs. eapply AInv_actor_noeff; try eassumption; [|now apply (NNrun c)].
    pose proof (inv_pc _ I c) as P. rewrite H in P |- *. rewrite (pc_ok_inv_pubbegin _ _ _ _ P). reflexivity.
  - (* pubend *)
    rewrite sub_of_mk in Hs. eapply AInv_actor_noeff; try eassumption; [|now apply (NNrun c)].
    pose proof (inv_pc _ I c) as P. rewrite H in P |- *.
    destruct (pc_ok_inv_pub _ _ _ _ _ _ P) as (n & id & _ & -> & _). reflexivity.
  - (* visit *)
    assert (x = c) by (destruct H1 as [->|[-> _]]; cbn in Hl; now apply Nat.eqb_eq in Hl). subst x.
    rewrite sub_of_start_visit in Hs. eapply AInv_actor_noeff; try eassumption.
    + pose proof (inv_pc _ I c) as P. rewrite H in P |- *.
      destruct (pc_ok_inv_pub _ _ _ _ _ _ P) as (n & id & _ & -> & _). reflexivity.
    + apply NNall. destruct H1 as [->|[-> _]]; discriminate.
  - (* visitend *)
    rewrite sub_of_with_cs in Hs. eapply AInv_actor_noeff; try eassumption; [|now apply (NNrun c)].
    pose proof (inv_pc _ I c) as P. rewrite H in P |- *.
    destruct (pc_ok_inv_visit _ _ _ _ _ _ _ P) as (n & rem & id & _ & -> & _). reflexivity.
  - (* send *)
    rewrite sub_of_with_cs in Hs. eapply AInv_actor_noeff; try eassumption; [|now apply (NNrun c)].
    pose proof (inv_pc _ I c) as P. rewrite H in P |- *.
    destruct (pc_ok_inv_visit _ _ _ _ _ _ _ P) as (n & rem & id & _ & -> & _). reflexivity.
  - (* unsuball *) rewrite sub_of_mk, reg_get_del_same in Hs. discriminate.
Qed.

(* ------------------------------------------------------------------ *)
(** * After its EOSE a subscription is established until the client ends it *)

Lemma ends_sub_inv x sub l : ends_sub x sub l = true -> exists o, l = LOp x o /\ op_ends o sub = true.
Proof.
  destruct l as [c o|c|c c' ord|c|c]; cbn; try discriminate.
  destruct o; try discriminate; intro H.
  - apply andb_true_iff in H as [H1 H2]. apply Nat.eqb_eq in H1. subst c. eexists. split; [reflexivity | exact H2].
  - apply andb_true_iff in H as [H1 H2]. apply Nat.eqb_eq in H1. subst c. eexists. split; [reflexivity | exact H2].
  - apply Nat.eqb_eq in H. subst c. eexists. split; reflexivity.
Qed.

Lemma op_ends_ends_sub x o sub : op_ends o sub = false -> ends_sub x sub (LOp x o) = false.
Proof.
  destruct o; cbn; try reflexivity; try discriminate; intro H; rewrite H; apply andb_false_r.
Qed.

(** an end stamp appears exactly when the connection's program ends *)
Lemma hop_closed_now st l q q' d :
  HInv st -> trans (i_s st) l (step (i_s st) l) ->
  In q (i_hops st) -> h_d q = None -> In q' (i_hops (istep st l)) -> same_op q q' -> h_d q' = Some d ->
  l = LRun (h_c q) /\ c_pc (r_cs (step (i_s st) l) (h_c q)) = [] /\ d = i_now st.
Proof.
  intros HI T Hq Hd Hq' (S1 & S2 & S3) Hd'. rewrite (istep_hops_trans st l T) in Hq'.
  assert (Same : In q' (i_hops st) -> False).
  { intro Hin. assert (q' = q) by (eapply hop_eq_of_b; [apply HI | assumption | assumption | assumption]). congruence. }
  destruct l as [c o|c|c c' ord|c|c]; try (exfalso; now apply Same).
  - exfalso. apply in_app_iff in Hq' as [Hin|[<-|[]]]; [now apply Same | discriminate].
  - destruct (is_nil _) eqn:En; [|exfalso; now apply Same].
    apply in_map_iff in Hq' as [q0 [<- Hq0]].
    assert (q0 = q).
    { eapply hop_eq_of_b; [apply HI | assumption | assumption |]. rewrite close1_b in S3. exact S3. }
    subst q0. destruct (close1_d c (i_now st) q) as [E|(_ & E & Ec & _)]; [congruence|].
    rewrite E in Hd'. inversion Hd'. subst c. apply is_nil_true in En. auto.
Qed.

Lemma last_hop_op st x q ops0 o :
  HInv st -> In q (i_hops st) -> h_c q = x -> last_of (i_hops st) q ->
  c_ops (r_cs (i_s st) x) = ops0 ++ [o] -> h_o q = o.
Proof.
  intros HI Hq Hc Hl Eo. pose proof (h_ops st HI x) as Eops. rewrite Eo in Eops.
  destruct (map_eq_snoc _ _ _ _ Eops) as (L & h0 & EL & Eh0).
  destruct (xops_last_is_last _ _ _ _ (h_sorted st HI) EL) as (Hin0 & Hc0 & Hlast).
  assert (q = h0); [|congruence].
  eapply hop_eq_of_b; [apply HI | assumption | assumption |].
  specialize (Hlast q Hq Hc). specialize (Hl h0 Hin0). rewrite Hc0, Hc in Hl. specialize (Hl eq_refl). lia.
Qed.

Definition KInv (st : istate) : Prop :=
  forall q sub fs dq,
    In q (i_hops st) -> h_o q = OReq sub fs -> h_d q = Some dq ->
    (forall k, In k (i_hops st) -> h_c k = h_c q -> h_b q < h_b k -> op_ends (h_o k) sub = false) ->
    established (i_s st) (h_c q) sub fs.

Lemma KInv_init buf : KInv (i_init buf).
Proof. intros q sub fs dq []. Qed.

Theorem KInv_step buf st l : reachable buf (i_s st) -> HInv st -> KInv st -> KInv (istep st l).
Proof.
  intros R HI KI. pose proof (Inv_reachable buf _ R) as I.
  pose proof (istep_hchange st l) as HC.
  destruct (step_trans (i_s st) l) as [E|T].
  { destruct (istep_stutter st l E) as [EH _]. intros q sub fs dq. rewrite istep_s, E, EH. apply KI. }
  intros q' sub fs dq' Hq' Ho' Hd' Prem. rewrite istep_s.
  destruct (hchange_bwd _ _ _ q' HC Hq') as [(q & Hq & Sq & Ev)|(c & o & -> & _)]; [|discriminate].
  destruct Sq as (S1 & S2 & S3). rewrite S1.
  assert (Prem0 : forall k, In k (i_hops st) -> h_c k = h_c q -> h_b q < h_b k -> op_ends (h_o k) sub = false).
  { intros k Hk Hck Hb. destruct (hchange_fwd _ _ _ k HC Hk) as (k' & Hk' & (T1 & T2 & T3) & _).
    rewrite <- T2. apply Prem; [assumption | congruence | congruence]. }
  destruct (h_d q) as [dq|] eqn:Hd.
  - (* the REQ had ended before *)
    assert (Est : established (i_s st) (h_c q) sub fs) by (eapply KI; eauto; congruence).
    eapply established_trans; [exact Est | | exact T].
    destruct (ends_sub (h_c q) sub l) eqn:He; [|reflexivity]. exfalso.
    destruct (ends_sub_inv _ _ _ He) as (o & -> & Ho).
    assert (Hnew : In (mkHop (h_c q) o (i_now st) None) (i_hops (istep st (LOp (h_c q) o)))).
    { rewrite (istep_hops_trans st _ T). apply in_or_app. right. now left. }
    specialize (Prem _ Hnew). cbn in Prem. rewrite S1, S3 in Prem.
    destruct (h_time st HI q Hq) as [Hb _]. rewrite Prem in Ho; [discriminate | reflexivity | lia].
  - (* it ends now *)
    destruct (hop_closed_now st l q q' dq' HI T Hq Hd Hq' (conj S1 (conj S2 S3)) Hd') as (-> & Hpc' & ->).
    assert (Hl : label_of_conn (h_c q) (LRun (h_c q)) = true) by (cbn; apply Nat.eqb_refl).
    destruct (trans_pc_actor _ _ _ _ I T Hl) as [(o & El & _)|(i & rest & heads & Hpc & Hpc2 & _)]; [discriminate|].
    rewrite Hpc' in Hpc2. symmetry in Hpc2. apply app_eq_nil in Hpc2 as [-> ->].
    assert (Hne : c_pc (r_cs (i_s st) (h_c q)) <> []) by (rewrite Hpc; discriminate).
    destruct (LOInv_reachable buf _ R _ Hne) as (ops0 & o & pre & Eo & Ep).
    rewrite Hpc in Ep. destruct pre as [|i0 pre]; [|destruct pre; discriminate]. cbn in Ep. inversion Ep; subst i.
    assert (Hc : is_close (h_o q) = false) by (rewrite <- S2, Ho'; reflexivity).
    destruct (h_open st HI q Hq Hd Hc) as [_ Hlast].
    assert (Eoq : h_o q = o) by (eapply last_hop_op; eauto).
    rewrite <- S2, Ho' in Eoq. subst o. cbn in Hpc.
    destruct (req_end_established buf _ _ sub R Hpc) as (fs' & ops1 & Eo1 & Est & _).
    rewrite Eo in Eo1. apply app_inj_tail in Eo1 as [_ Eo1]. inversion Eo1; subst fs'. exact Est.
Qed.

(* ------------------------------------------------------------------ *)
(** * MUST: a publication reaches what was established before it began and
      is left alone until it ends *)

Lemma istep_new_inv st l h' :
  trans (i_s st) l (step (i_s st) l) -> i_hops (istep st l) = i_hops st ++ [h'] ->
  l = LOp (h_c h') (h_o h') /\ h' = mkHop (h_c h') (h_o h') (i_now st) None.
Proof.
  intros T E. rewrite (istep_hops_trans st l T) in E.
  destruct l as [c0 o0|c0|c0 c' ord|c0|c0].
  - apply app_inv_head in E. inversion E; subst. cbn. auto.
  - destruct (is_nil _); apply (f_equal (@length hop)) in E; unfold close_hop in E;
      rewrite ?map_length, app_length in E; cbn in E; lia.
  - apply (f_equal (@length hop)) in E. rewrite app_length in E. cbn in E. lia.
  - apply (f_equal (@length hop)) in E. rewrite app_length in E. cbn in E. lia.
  - apply (f_equal (@length hop)) in E. rewrite app_length in E. cbn in E. lia.
Qed.

Lemma got_st_trans s l s' x sub e t :
  Inv s -> DDInv s -> trans s l s' -> got_st (r_cs s x) sub e t ->
  got_st (r_cs s' x) sub e t \/ In ODisc (c_ops (r_cs s' x)).
Proof.
  intros I D T G.
  assert (Dec : (exists rest, c_pc (r_cs s x) = IUnsubAll :: rest) \/ (forall rest, c_pc (r_cs s x) <> IUnsubAll :: rest)).
  { destruct (c_pc (r_cs s x)) as [|i rest]; [right; discriminate|].
    destruct i; try (right; discriminate). left. eauto. }
  destruct Dec as [(rest & Hpc)|Hno].
  - right. pose proof (inv_pc s I x) as P. rewrite Hpc in P. destruct (pc_ok_inv_unsuball _ _ _ P) as [_ Hd].
    eapply ops_trans; [eassumption|]. now apply D.
  - left. eapply got_dchange; [apply dat_trans; eassumption | assumption | assumption].
Qed.

Definition MInv (st : istate) : Prop :=
  forall P q p n e sub fs dq,
    pub_nth (i_hops st) p n P -> h_o P = OEvent e ->
    In q (i_hops st) -> h_o q = OReq sub fs -> h_d q = Some dq -> dq < h_b P ->
    sub_matches e fs = true ->
    (forall k, In k (i_hops st) -> h_c k = h_c q -> h_b q < h_b k -> op_ends (h_o k) sub = true ->
               lt_opt (h_b k) (h_d P) = false) ->
    (h_d P = None -> established (i_s st) (h_c q) sub fs /\ progress (i_s st) p (h_c q) sub fs e n) /\
    (h_d P <> None ->
       got_st (r_cs (i_s st) (h_c q)) sub e (p, n) \/ In ODisc (c_ops (r_cs (i_s st) (h_c q)))).

Lemma MInv_init buf : MInv (i_init buf).
Proof. intros P q p n e sub fs dq H. unfold pub_nth in H. cbn in H. destruct n; discriminate. Qed.

Theorem MInv_step buf st l :
  reachable buf (i_s st) -> HInv st -> PubInv st -> KInv st -> MInv st -> MInv (istep st l).
Proof.
  intros R HI PI KI MI. pose proof (Inv_reachable buf _ R) as I. pose proof (DDInv_reachable buf _ R) as DD.
  pose proof (istep_hchange st l) as HC.
  destruct (step_trans (i_s st) l) as [E|T].
  { destruct (istep_stutter st l E) as [EH _]. intros P q p n e sub fs dq. rewrite istep_s, E, EH. apply MI. }
  pose proof (PubInv_step buf st l R PI) as PI'.
  intros P' q' p n e sub fs dq' HP' HoP' Hq' Hoq' Hdq' Hlt Hm Prem. rewrite istep_s.
  destruct (pub_nth_hchange_bwd _ _ _ _ _ _ HC HP') as [(P & HP & (SP1 & SP2 & SP3) & EvP)|(En & e0 & EP' & EH')].
  2:{ (* the publication begins now *)
    destruct (istep_new_inv st l P' T EH') as [El _]. subst P'. cbn in El, HoP', Hlt |- *. inversion HoP'; subst e0. subst l.
    rewrite EH' in Hq'. apply in_app_iff in Hq' as [Hq|[X|[]]]; [|subst q'; discriminate].
    split; [intros _|intro X; now contradiction X].
    assert (Est : established (i_s st) (h_c q') sub fs).
    { eapply KI; eauto. intros k Hk Hck Hb.
      destruct (op_ends (h_o k) sub) eqn:He; [|reflexivity]. exfalso.
      assert (Hk' : In k (i_hops (istep st (LOp p (OEvent e))))) by (rewrite EH'; apply in_or_app; now left).
      specialize (Prem k Hk' Hck Hb He). discriminate. }
    split; [refine (established_trans _ (LOp p (OEvent e)) _ _ _ _ Est _ T); reflexivity|].
    left.
    assert (Hl : label_of_conn p (LOp p (OEvent e)) = true) by (cbn; apply Nat.eqb_refl).
    destruct (trans_pub_view _ _ _ p I T Hl) as [(o & El & Hpc & Hpc' & Hc)|[(e1 & El & _)|(_ & _ & _ & _ & (c' & [El|(c2 & ord & El)]))]];
      try discriminate.
    inversion El; subst o. rewrite Hpc', Hc. cbn. split; [eauto|].
    pose proof (p_len st PI p) as L. rewrite Hpc in L. cbn in L. lia. }
  (* the publication had begun before *)
  destruct (pub_nth_In _ _ _ _ HP) as (HPin & HPc & _).
  destruct (hchange_bwd _ _ _ q' HC Hq') as [(q & Hq & (Sq1 & Sq2 & Sq3) & Evq)|(c & o & -> & _)]; [|discriminate].
  destruct (h_time st HI P HPin) as [HbP _].
  assert (Hdq : h_d q = Some dq').
  { destruct Evq as [Evq|(_ & Evq & _)]; [congruence|]. rewrite Evq in Hdq'. inversion Hdq'. lia. }
  rewrite Sq1 in *.
  assert (Prem0 : forall k, In k (i_hops st) -> h_c k = h_c q -> h_b q < h_b k -> op_ends (h_o k) sub = true ->
                  lt_opt (h_b k) (h_d P) = false).
  { intros k Hk Hck Hb He. destruct (hchange_fwd _ _ _ k HC Hk) as (k' & Hk' & (T1 & T2 & T3) & _).
    assert (X : lt_opt (h_b k') (h_d P') = false) by (apply Prem; congruence).
    rewrite T3 in X. destruct EvP as [EvP|(EvP1 & EvP2 & _)]; [congruence|].
    rewrite EvP2 in X. cbn in X. destruct (h_time st HI k Hk) as [Hbk _]. apply Z.ltb_ge in X. lia. }
  assert (Hlt0 : dq' < h_b P) by lia.
  assert (Hoq : h_o q = OReq sub fs) by congruence.
  assert (HoP : h_o P = OEvent e) by congruence.
  destruct (MI P q p n e sub fs dq' HP HoP Hq Hoq Hdq Hlt0 Hm Prem0) as [C1 C2].
  assert (NoEnd : h_d P' = None -> ends_sub (h_c q) sub l = false).
  { intro HdP'. destruct (ends_sub (h_c q) sub l) eqn:He; [|reflexivity]. exfalso.
    destruct (ends_sub_inv _ _ _ He) as (o & -> & Ho).
    assert (Hnew : In (mkHop (h_c q) o (i_now st) None) (i_hops (istep st (LOp (h_c q) o)))).
    { rewrite (istep_hops_trans st _ T). apply in_or_app. right. now left. }
    specialize (Prem _ Hnew). cbn in Prem. rewrite HdP' in Prem. cbn in Prem.
    destruct (h_time st HI q Hq) as [Hb _]. rewrite Sq3 in Prem. specialize (Prem eq_refl). discriminate Prem; [lia | assumption]. }
  destruct EvP as [EvP|(EvP1 & EvP2 & EvP3)].
  - rewrite EvP. split.
    + intro HdP. destruct (C1 HdP) as [Est Prg].
      assert (He : ends_sub (h_c q) sub l = false) by (apply NoEnd; congruence).
      split; [eapply established_trans; eassumption | eapply progress_trans; eassumption].
    + intro HdP. destruct (C2 HdP) as [G|G].
      * eapply got_st_trans; eassumption.
      * right. eapply ops_trans; eassumption.
  - split; [intro X; congruence | intros _]. left.
    destruct (C1 EvP1) as [Est Prg].
    destruct (pub_nth_In _ _ _ _ HP') as (HPin' & _ & _).
    destruct (hop_closed_now st l P P' (i_now st) HI T HPin EvP1 HPin' (conj SP1 (conj SP2 SP3)) EvP2)
      as (El & Hpc' & _).
    rewrite HPc in El, Hpc'. subst l.
    assert (Prg' : progress (step (i_s st) (LRun p)) p (h_c q) sub fs e n).
    { eapply progress_trans; try eassumption. }
    eapply pub_done_progress; [|exact Prg'].
    split; [|rewrite Hpc'; constructor].
    pose proof (p_len _ PI' p) as L. rewrite istep_s, Hpc' in L. unfold count_pb in L. cbn [count_occ_b] in L.
    assert (n < length (pubs_of p (i_hops (istep st (LRun p)))))%nat by (apply nth_error_Some; unfold pub_nth in HP'; congruence).
    rewrite L, Nat.add_0_r in H. exact H.
Qed.
