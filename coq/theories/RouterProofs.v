(* RouterProofs.v — C07: the theorems about the router model, collected.
   The proofs live in RouterLemmas / RouterFrame / RouterTrans / RouterData /
   RouterMust / RouterInv; this file adds the remaining ones and re-exports. *)
From Moc Require Export Base Match MatchProofs Router RouterLemmas RouterFrame RouterTrans RouterData RouterMust.
From Moc.Gen Require Import GenRouter.
Open Scope Z_scope.
