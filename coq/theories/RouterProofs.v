(* RouterProofs.v — C07: the theorems about the router model.  The invariant
   proofs live in RouterLemmas / RouterFrame / RouterTrans / RouterData /
   RouterMust / RouterEnv / RouterInv / RouterDataInv / RouterOnce /
   RouterOrder / RouterReplies / RouterIndep; this file states the remaining theorems in
   their final form and re-exports everything. *)
From Moc Require Export Base Match MatchProofs Router RouterLemmas RouterFrame RouterTrans RouterData RouterMust
  RouterEnv RouterInv RouterDataInv RouterOnce RouterOrder RouterReplies RouterIndep.
From Moc.Gen Require Import GenRouter.
From Coq Require Import Sorted.
Open Scope Z_scope.

(* ------------------------------------------------------------------ *)
(** * One visit *)

Definition matching_subs (e : event) (m : submap) : list str :=
  List.map fst (filter (fun kv => sub_matches e (snd kv)) m).

Lemma visit_loop_spec buf e t m : forall q,
  visit_loop buf e t m q =
  q ++ List.map (fun sub => MEvent sub e t) (firstn (buf - length q) (matching_subs e m)).
Proof.
  induction m as [|[sub fs] m IH]; intro q; cbn [visit_loop matching_subs filter List.map snd].
  - rewrite firstn_nil. cbn. now rewrite app_nil_r.
  - fold (matching_subs e m). destruct (sub_matches e fs) eqn:Hm.
    + destruct (Nat.ltb (length q) buf) eqn:Hlt.
      * apply Nat.ltb_lt in Hlt. rewrite IH, app_length. cbn [length List.map fst].
        destruct (buf - length q)%nat as [|k] eqn:Ek; [lia|].
        replace (buf - (length q + 1))%nat with k by lia. cbn [firstn List.map]. now rewrite <- app_assoc.
      * apply Nat.ltb_ge in Hlt. rewrite IH. replace (buf - length q)%nat with 0%nat by lia. reflexivity.
    + apply IH.
Qed.

Lemma count_copy_map sub t e l :
  count_occ_b (is_copy sub t) (List.map (fun s => MEvent s e t) l) = count_occ_b (str_eqb sub) l.
Proof.
  induction l as [|k l IH]; cbn; [reflexivity|]. rewrite ptag_eqb_refl, andb_true_r, IH. reflexivity.
Qed.

Lemma matching_subs_keys e m k : In k (matching_subs e m) -> In k (List.map fst m).
Proof.
  unfold matching_subs. intro H. apply in_map_iff in H as [[k' v] [E H]]. apply filter_In in H as [H _].
  cbn in E. subst. now apply in_map_fst in H.
Qed.

Lemma count_matching sub e m :
  NoDup (List.map fst m) ->
  count_occ_b (str_eqb sub) (matching_subs e m) =
  match assoc sub m with Some fs => if sub_matches e fs then 1%nat else 0%nat | None => 0%nat end.
Proof.
  induction m as [|[k v] m IH]; intro ND; [reflexivity|].
  inversion ND as [|? ? Hn ND']; subst. cbn [assoc].
  unfold matching_subs. cbn [filter snd]. fold (matching_subs e m).
  destruct (str_eqb sub k) eqn:E.
  - apply str_eqb_eq in E. subst k.
    assert (Z0 : count_occ_b (str_eqb sub) (matching_subs e m) = 0%nat).
    { apply count_zero_notin. intros a Ha. apply str_eqb_neq. intro; subst a. apply Hn. eapply matching_subs_keys; eassumption. }
    destruct (sub_matches e v); cbn [List.map fst count_occ_b]; [rewrite str_eqb_refl|]; fold (matching_subs e m); rewrite Z0; reflexivity.
  - destruct (sub_matches e v); cbn [List.map fst count_occ_b]; [rewrite E|]; fold (matching_subs e m); now apply IH.
Qed.

(** An uninterrupted visit with room in the queue appends exactly one copy
    per subscription of the visited connection whose filters match, labelled
    with that subscription's id, and nothing else. *)
Theorem visit_exact buf e t m q :
  NoDup (List.map fst m) -> (length q + length (matching_subs e m) <= buf)%nat ->
  exists new, visit_loop buf e t m q = q ++ new /\
    (forall sub, count_occ_b (is_copy sub t) new =
       match assoc sub m with Some fs => if sub_matches e fs then 1%nat else 0%nat | None => 0%nat end) /\
    Forall (fun msg => exists sub, msg = MEvent sub e t) new.
Proof.
  intros ND Hroom. exists (List.map (fun sub => MEvent sub e t) (matching_subs e m)). split; [|split].
  - rewrite visit_loop_spec. rewrite firstn_all2 by lia. reflexivity.
  - intro sub. rewrite count_copy_map. now apply count_matching.
  - apply Forall_forall. intros msg H. apply in_map_iff in H as [sub [E _]]. eauto.
Qed.

(** without room: a prefix of the matching subscriptions (in iteration
    order) gets its copy, the queue ends up full *)
Theorem visit_when_short_of_room buf e t m q :
  (length q <= buf)%nat -> (buf < length q + length (matching_subs e m))%nat ->
  length (visit_loop buf e t m q) = buf.
Proof.
  intros H1 H2. rewrite visit_loop_spec, app_length, map_length, firstn_length. lia.
Qed.

(** the model's visit, run without interruption, is [visit_loop] *)
Lemma step_send s c e t x sub fs todo rest :
  c_pc (r_cs s c) = IVisit e t x ((sub, fs) :: todo) :: rest ->
  step s (LRun c) =
  with_cs s (upd (upd (r_cs s) c (set_pc (r_cs s c) (IVisit e t x todo :: rest))) x
               (send_if_match (r_buf s) e t sub fs (upd (r_cs s) c (set_pc (r_cs s c) (IVisit e t x todo :: rest)) x))).
Proof.
  intro Hpc. unfold step, enabled. rewrite Hpc, trysend_has_default. cbn [orb step_enabled].
  unfold run_instr. now rewrite Hpc.
Qed.

Lemma q_upd_pc f c pc x : c_q (upd f c (set_pc (f c) pc) x) = c_q (f x).
Proof. destruct (upd_cases f c (set_pc (f c) pc) x) as [[-> ->]|[_ ->]]; reflexivity. Qed.

Theorem visit_uninterrupted e t x : forall todo s c rest,
  c_pc (r_cs s c) = IVisit e t x todo :: rest ->
  let s' := run s (repeat (LRun c) (length todo)) in
  c_q (r_cs s' x) = visit_loop (r_buf s) e t todo (c_q (r_cs s x)) /\
  c_pc (r_cs s' c) = IVisit e t x [] :: rest.
Proof.
  induction todo as [|[sub fs] todo IH]; intros s c rest Hpc; cbn [length repeat]; [cbn; auto|].
  rewrite run_cons, (step_send s c e t x sub fs todo rest Hpc).
  set (s1 := with_cs s _).
  assert (Hpc1 : c_pc (r_cs s1 c) = IVisit e t x todo :: rest).
  { unfold s1. cbn [r_cs with_cs].
    rewrite (pc_upd2 _ _ _ _ (send_if_match (r_buf s) e t sub fs)) by (intro; apply ctl_send_if_match).
    now rewrite upd_same. }
  destruct (IH s1 c rest Hpc1) as [Hq Hp]. split; [|exact Hp].
  rewrite Hq. unfold s1. cbn [r_buf r_cs with_cs visit_loop]. rewrite upd_same.
  unfold send_if_match. rewrite q_upd_pc.
  destruct (sub_matches e fs); [|now rewrite q_upd_pc].
  destruct (Nat.ltb (length (c_q (r_cs s x))) (r_buf s)); cbn [c_q]; now rewrite ?q_upd_pc.
Qed.

(* ------------------------------------------------------------------ *)
(** * MUST NOT deliver *)

(** (labelled with its own id / filters match) whatever a connection has
    received as a live event carries the id of one of its own REQs whose
    filters match the event *)
Theorem must_not_unjustified buf s x sub e t :
  reachable buf s -> In (MEvent sub e t) (c_out (r_cs s x)) ->
  exists fs, In (OReq sub fs) (c_ops (r_cs s x)) /\ sub_matches e fs = true.
Proof.
  intros R Hin. pose proof (DInv_reachable buf s R) as D.
  destruct (d_just s D x sub e t) as [J _]; [|exact J].
  rewrite evs_split. apply in_app_iff. left. apply filter_In. split; [assumption | reflexivity].
Qed.

(** copies seen (queued, sent or dropped) for (sub, t) do not increase during
    a transition unless ... *)
Definition no_pending_add (s : rstate) (x : conn) (sub : str) : Prop :=
  Forall (fun i => match i with ISubAdd s' _ => str_eqb sub s' = false | _ => True end) (c_pc (r_cs s x)).

Definition unsubscribed (s : rstate) (x : conn) (sub : str) : Prop :=
  sub_of s x sub = None /\ no_pending_add s x sub.

Lemma unsubscribed_trans s l s' x sub :
  Inv s -> unsubscribed s x sub -> is_req_of x sub l = false -> trans s l s' -> unsubscribed s' x sub.
Proof.
  intros I [Hs Hp] Hl T. unfold unsubscribed, no_pending_add in *.
  destruct (label_of_conn x l) eqn:Hlab.
  - assert (Hact : forall c, label_of_conn x (LRun c) = true -> x = c)
      by (intros c H; cbn in H; now apply Nat.eqb_eq in H).
    inversion T; subst; cbn [label_of_conn] in Hlab; try discriminate; try (apply Hact in Hlab; subst x).
    + (* op *) rewrite sub_of_with_cs. split; [assumption|]. cbn [r_cs with_cs]. rewrite upd_same. cbn [c_pc].
      destruct o as [s2 fs2|s2|s2|e|]; cbn [program]; try (repeat constructor).
      * cbn in Hl. rewrite Nat.eqb_refl in Hl. cbn in Hl.
        assert (E : str_eqb sub s2 = false) by exact Hl.
        destruct (reg_get c (r_reg s)); repeat constructor; assumption.
      * destruct (reg_get c (r_reg s)); repeat constructor.
    + (* regadd *) rewrite sub_of_mk, reg_get_set_same. cbn. split; [reflexivity|].
      cbn [r_cs]. rewrite upd_same. cbn. rewrite H in Hp. now inversion Hp.
    + (* subadd *) rewrite H in Hp. inversion Hp as [|? ? Hne Hp']; subst.
      rewrite sub_of_mk, reg_get_set_same. split.
      * rewrite assoc_sm_set_other by (now apply str_eqb_neq). unfold sub_of in Hs. now rewrite H1 in Hs.
      * cbn [r_cs]. rewrite upd_same. exact Hp'.
    + rewrite sub_of_with_cs. split; [assumption|]. cbn [r_cs with_cs]. rewrite upd_same. cbn.
      rewrite H in Hp. now inversion Hp.
    + (* subdel *) rewrite sub_of_mk, reg_get_set_same. split.
      * destruct (str_dec sub sub0) as [->|N]; [apply assoc_sm_del_same|].
        rewrite assoc_sm_del_other by assumption. unfold sub_of in Hs. now rewrite H1 in Hs.
      * cbn [r_cs]. rewrite upd_same. cbn. rewrite H in Hp. now inversion Hp.
    + rewrite sub_of_with_cs. split; [assumption|]. cbn [r_cs with_cs]. rewrite upd_same. cbn.
      rewrite H in Hp. now inversion Hp.
    + rewrite sub_of_with_cs. split; [assumption|]. cbn [r_cs with_cs]. rewrite upd_same. cbn.
      rewrite H in Hp. now inversion Hp.
    + rewrite sub_of_mk. split; [exact Hs|]. cbn [r_cs]. rewrite upd_same. cbn.
      rewrite H in Hp. inversion Hp; subst. constructor; [exact Logic.I | assumption].
    + rewrite sub_of_mk. split; [exact Hs|]. cbn [r_cs]. rewrite upd_same. cbn. rewrite H in Hp. now inversion Hp.
    + (* visit *)
      assert (x = c) by (destruct H1 as [->|[-> _]]; cbn in Hlab; now apply Nat.eqb_eq in Hlab). subst x.
      rewrite sub_of_start_visit. split; [assumption|]. unfold start_visit. cbn [r_cs with_cs].
      rewrite (pc_upd2 _ _ _ _ (fun st => set_rd st (c :: c_rd st))) by (intro; reflexivity).
      rewrite upd_same. cbn. rewrite H in Hp. inversion Hp; subst. repeat constructor. assumption.
    + rewrite sub_of_with_cs. split; [assumption|]. cbn [r_cs with_cs].
      rewrite (pc_upd2 _ _ _ _ (fun st => set_rd st (remove_conn c (c_rd st)))) by (intro; reflexivity).
      rewrite upd_same. cbn. rewrite H in Hp. now inversion Hp.
    + rewrite sub_of_with_cs. split; [assumption|]. cbn [r_cs with_cs].
      rewrite (pc_upd2 _ _ _ _ (send_if_match (r_buf s) e t sub0 fs)) by (intro; apply ctl_send_if_match).
      rewrite upd_same. cbn. rewrite H in Hp. inversion Hp; subst. constructor; [exact Logic.I | assumption].
    + rewrite sub_of_mk, reg_get_del_same. split; [reflexivity|]. cbn [r_cs]. rewrite upd_same. cbn.
      rewrite H in Hp. now inversion Hp.
    + (* cancel *) rewrite sub_of_mk. split; [exact Hs | exact Hp].
    + (* skip *) rewrite sub_of_with_cs. split; [assumption|]. cbn [r_cs with_cs]. rewrite upd_same. cbn.
      rewrite H in Hp. now inversion Hp.
    + (* defer *) rewrite sub_of_mk. split; [exact Hs|]. cbn [r_cs]. rewrite upd_same. cbn. repeat constructor.
  - destruct (ctl_fields _ _ (trans_ctl_other s l s' x T Hlab)) as (Epc & _). rewrite Epc. split; [|assumption].
    rewrite (sub_of_reg_eq s s' x sub); [assumption|]. eapply env_reg; [eassumption | now apply not_label_not_run].
Qed.

(** (closed or replaced before / never subscribed) while connection x has no
    subscription [sub] and none is being added, no copy labelled [sub] is
    produced for x, whatever is published *)
Theorem must_not_unsubscribed buf s tr x sub t :
  reachable buf s -> unsubscribed s x sub ->
  Forall (fun l => is_req_of x sub l = false) tr ->
  (total (r_cs (run s tr) x) sub t <= total (r_cs s x) sub t)%nat /\ unsubscribed (run s tr) x sub.
Proof.
  intros R U F. revert s R U. induction F as [|l tr Hl F IH]; intros s R U; [cbn; split; [lia | assumption]|].
  rewrite run_cons.
  assert (Step : (total (r_cs (step s l) x) sub t <= total (r_cs s x) sub t)%nat /\ unsubscribed (step s l) x sub).
  { destruct (step_trans s l) as [E|T]; [rewrite E; split; [lia | assumption]|].
    pose proof (Inv_reachable buf s R) as I. split; [|eapply unsubscribed_trans; eassumption].
    destruct (total_trans s l _ x sub t T) as [H|(c & e & todo & rest & fs & _ & Hpc & _)]; [assumption|].
    exfalso. pose proof (inv_pc s I c) as P. rewrite Hpc in P.
    destruct (pc_ok_inv_visit _ _ _ _ _ _ _ P) as (n & rem & id & _ & _ & _ & _ & _ & _ & _ & _ & Htodo).
    specialize (Htodo sub fs (or_introl eq_refl)). destruct U as [U _]. congruence. }
  destruct Step as [S1 S2]. destruct (IH (step s l) (reach_step buf s l R) S2) as [H1 H2]. split; [lia | assumption].
Qed.

(** (created after the OK) once publication (p, n) is over, no further copy
    of it is produced for anybody *)
Lemma pub_done_trans s l s' p n : Inv s -> pub_done s p n -> trans s l s' -> pub_done s' p n.
Proof.
  intros I [Hlt Hfree] T. split; [pose proof (ctr_trans s l s' p T); lia|].
  destruct (label_of_conn p l) eqn:Hl.
  - assert (Hact : forall c, label_of_conn p (LRun c) = true -> p = c)
      by (intros c H; cbn in H; now apply Nat.eqb_eq in H).
    assert (Tail : forall i rest, c_pc (r_cs s p) = i :: rest -> Forall (fun i => tag_free (p, n) i = true) rest)
      by (intros i rest E; rewrite E in Hfree; now inversion Hfree).
    inversion T; subst; cbn [label_of_conn] in Hl; try discriminate; try (apply Hact in Hl; subst p);
      cbn [r_cs with_cs]; rewrite ?upd_same; cbn [c_pc set_pc push_out]; eauto.
    + destruct o; cbn [program]; try (destruct (reg_get c (r_reg s))); repeat constructor.
    + constructor; [|eauto]. cbn. unfold ptag_eqb. cbn. rewrite Nat.eqb_refl. cbn.
      apply negb_true_iff, Nat.eqb_neq. lia.
    + assert (p = c) by (destruct H1 as [->|[-> _]]; cbn in Hl; now apply Nat.eqb_eq in Hl). subst p.
      unfold start_visit. cbn [r_cs with_cs].
      rewrite (pc_upd2 _ _ _ _ (fun st => set_rd st (c :: c_rd st))) by (intro; reflexivity).
      rewrite upd_same. cbn. rewrite H in Hfree. inversion Hfree as [|? ? F1 F2]; subst.
      constructor; [exact F1|]. constructor; [exact F1 | exact F2].
    + rewrite (pc_upd2 _ _ _ _ (fun st => set_rd st (remove_conn c (c_rd st)))) by (intro; reflexivity).
      rewrite upd_same. cbn. eauto.
    + rewrite (pc_upd2 _ _ _ _ (send_if_match (r_buf s) e t sub fs)) by (intro; apply ctl_send_if_match).
      rewrite upd_same. cbn. rewrite H in Hfree. inversion Hfree as [|? ? F1 F2]; subst. constructor; assumption.
  - destruct (ctl_fields _ _ (trans_ctl_other s l s' p T Hl)) as (Epc & _). now rewrite Epc.
Qed.

Theorem must_not_after_ok buf s tr p n x sub :
  reachable buf s -> pub_done s p n ->
  (total (r_cs (run s tr) x) sub (p, n) <= total (r_cs s x) sub (p, n))%nat /\ pub_done (run s tr) p n.
Proof.
  revert s. induction tr as [|l tr IH]; intros s R Dn; [cbn; split; [lia | assumption]|].
  rewrite run_cons.
  assert (Step : (total (r_cs (step s l) x) sub (p, n) <= total (r_cs s x) sub (p, n))%nat /\ pub_done (step s l) p n).
  { destruct (step_trans s l) as [E|T]; [rewrite E; split; [lia | assumption]|].
    pose proof (Inv_reachable buf s R) as I. split; [|eapply pub_done_trans; eassumption].
    destruct (total_trans_p s l _ x sub p n I T) as [H|(_ & e & todo & rest & fs & Hpc & _)]; [assumption|].
    exfalso. destruct Dn as [_ Hfree]. rewrite Hpc in Hfree. inversion Hfree as [|? ? F1 _]; subst.
    cbn in F1. now rewrite ptag_eqb_refl in F1. }
  destruct Step as [S1 S2]. destruct (IH (step s l) (reach_step buf s l R) S2) as [H1 H2]. split; [lia | assumption].
Qed.

(** (finished connection) after the end of a session nothing is queued for
    it or sent to it any more *)
Definition finished (s : rstate) (x : conn) : Prop := c_dead (r_cs s x) = true /\ c_pc (r_cs s x) = [].

Lemma finished_step buf s l x :
  reachable buf s -> finished s x ->
  finished (step s l) x /\ c_out (r_cs (step s l) x) = c_out (r_cs s x).
Proof.
  intros R [Hd Hpc]. destruct (step_trans s l) as [E|T]; [rewrite E; repeat split; assumption|].
  pose proof (Inv_reachable buf s R) as I. pose proof (DInv_reachable buf s R) as D.
  destruct (d_over s D x Hd Hpc) as [Hq Hh].
  assert (Hl : label_of_conn x l = false).
  { destruct (label_of_conn x l) eqn:Hl; [|reflexivity]. exfalso.
    inversion T; subst; cbn [label_of_conn] in Hl; try discriminate.
    all: try (match goal with H1 : _ = LVisit _ _ _ \/ _ |- _ => destruct H1 as [->|[-> _]]; cbn in Hl end).
    all: apply Nat.eqb_eq in Hl; subst x;
      first [congruence | contradiction | (rewrite (inv_cancel s I c) in Hd by assumption; discriminate)]. }
  destruct (ctl_fields _ _ (trans_ctl_other s l _ x T Hl)) as (Epc & Ed & _).
  split; [split; congruence|].
  destruct (dat_trans s l _ x T)
    as [E|m Hl' _ _ _ _ _|c e t sub fs todo rest _ Hpcc E|rest Hl' _ _ _ _ _|m q' _ _ Q _ _ _ _|m _ Hh' _ _ _ _].
  - apply dat_eq in E. tauto.
  - subst l. cbn in Hl. now rewrite Nat.eqb_refl in Hl.
  - apply dat_eq in E as (_ & _ & E3 & _). now rewrite E3, send_if_match_out.
  - subst l. cbn in Hl. now rewrite Nat.eqb_refl in Hl.
  - rewrite Hq in Q. discriminate.
  - rewrite Hh in Hh'. discriminate.
Qed.

Theorem must_not_finished buf s tr x :
  reachable buf s -> finished s x ->
  c_out (r_cs (run s tr) x) = c_out (r_cs s x) /\ c_q (r_cs (run s tr) x) = [] /\ c_hand (r_cs (run s tr) x) = None.
Proof.
  revert s. induction tr as [|l tr IH]; intros s R F.
  - cbn. split; [reflexivity|]. destruct F as [Hd Hpc]. exact (d_over s (DInv_reachable buf s R) x Hd Hpc).
  - rewrite run_cons. destruct (finished_step buf s l x R F) as [F' Eo].
    destruct (IH (step s l) (reach_step buf s l R) F') as (E1 & E2 & E3). rewrite E1, Eo. auto.
Qed.

(** the end of a session: after the deferred UnsubscribeAll has run the
    connection is finished and out of the registry *)
Theorem disconnect_finishes buf s x :
  reachable buf s -> c_pc (r_cs s x) = [IUnsubAll] -> r_pubs s = [] ->
  finished (step s (LRun x)) x /\ reg_get x (r_reg (step s (LRun x))) = None.
Proof.
  intros R Hpc Hp. pose proof (Inv_reachable buf s R) as I.
  pose proof (inv_pc s I x) as P. rewrite Hpc in P. destruct (pc_ok_inv_unsuball _ _ _ P) as [_ Hd].
  unfold step, enabled. rewrite Hpc, Hp. cbn [step_enabled]. unfold run_instr. rewrite Hpc.
  unfold finished. cbn [r_cs r_reg]. rewrite upd_same. cbn. rewrite reg_get_del_same. auto.
Qed.

(* ------------------------------------------------------------------ *)
(** * At most once *)

Lemma count_out_le_evs f st : (count_occ_b f (filter is_event_msg (c_out st)) <= count_occ_b f (evs st))%nat.
Proof. rewrite evs_split, count_occ_b_app. lia. Qed.

Lemma count_filter_event sub t l :
  count_occ_b (is_copy sub t) (filter is_event_msg l) = count_occ_b (is_copy sub t) l.
Proof.
  induction l as [|m l IH]; cbn; [reflexivity|]. destruct m; cbn; try exact IH.
  destruct (str_eqb sub sub0 && ptag_eqb t t0); now rewrite IH.
Qed.

(** a connection receives at most one copy per subscription id and
    publication, and if it received one, none was dropped *)
Theorem deliver_at_most_once buf s x sub t :
  reachable buf s ->
  (count_occ_b (is_copy sub t) (c_out (r_cs s x)) + count_occ_b (is_drop sub t) (c_drops (r_cs s x)) <= 1)%nat.
Proof.
  intro R. pose proof (o_once s (OInv_reachable buf s R) x sub t) as H. unfold total in H.
  pose proof (count_out_le_evs (is_copy sub t) (r_cs s x)) as H2. rewrite count_filter_event in H2. lia.
Qed.

(** likewise for everything in flight *)
Theorem flow_at_most_once buf s x sub t :
  reachable buf s -> (count_occ_b (is_copy sub t) (flow (r_cs s x)) <= 1)%nat.
Proof.
  intro R. pose proof (o_once s (OInv_reachable buf s R) x sub t) as H. unfold total, evs in H.
  rewrite count_filter_event in H. lia.
Qed.

(* ------------------------------------------------------------------ *)
(** * A copy is dropped only when the queue is full *)

Theorem drop_only_when_full buf s l x d :
  reachable buf s ->
  In d (c_drops (r_cs (step s l) x)) -> ~ In d (c_drops (r_cs s x)) ->
  length (c_q (r_cs s x)) = buf /\ c_q (r_cs (step s l) x) = c_q (r_cs s x) /\
  exists c e t sub fs todo rest,
    l = LRun c /\ c_pc (r_cs s c) = IVisit e t x ((sub, fs) :: todo) :: rest /\ d = (sub, e, t) /\ sub_matches e fs = true.
Proof.
  intros R Hin Hnot. destruct (step_trans s l) as [E|T]; [rewrite E in Hin; contradiction|].
  pose proof (d_qlen s (DInv_reachable buf s R) x) as Hle. rewrite (reachable_buf buf s R) in Hle.
  destruct (evs_trans s l _ x T) as [_ Dr _|c e t sub fs todo rest _ _ _ _ _ _ _ Dr|c e t sub fs todo rest El Hpc Hm Hge _ Q _ Dr|rest _ _ _ _ _ Dr];
    try (rewrite Dr in Hin; contradiction).
  rewrite Dr in Hin. apply in_app_iff in Hin as [Hin|[Hin|[]]]; [contradiction|]. subst d.
  rewrite (reachable_buf buf s R) in Hge. split; [lia|]. split; [assumption|].
  exists c, e, t, sub, fs, todo, rest. auto.
Qed.

(** and the queue never exceeds buflen *)
Theorem queue_bounded buf s x : reachable buf s -> (length (c_q (r_cs s x)) <= buf)%nat.
Proof. intro R. pose proof (d_qlen s (DInv_reachable buf s R) x) as H. now rewrite (reachable_buf buf s R) in H. Qed.

(* ------------------------------------------------------------------ *)
(** * Publication order *)

Theorem publisher_order_preserved buf s x p :
  reachable buf s -> StronglySorted le (pub_seq p (c_out (r_cs s x))).
Proof. apply out_order. Qed.

(** sequence numbers are issued in the publisher's program order: number n
    is the n-th EVENT the connection has begun *)
Theorem pub_numbers_in_program_order s c e rest :
  c_pc (r_cs s c) = IPubBegin e :: rest ->
  c_pc (r_cs (step s (LRun c)) c) = IPub e (c, c_ctr (r_cs s c)) (List.map fst (r_reg s)) :: rest /\
  c_ctr (r_cs (step s (LRun c)) c) = S (c_ctr (r_cs s c)).
Proof.
  intro Hpc. unfold step, enabled. rewrite Hpc. cbn [step_enabled]. unfold run_instr. rewrite Hpc.
  cbn [r_cs]. rewrite upd_same. cbn. auto.
Qed.

(* ------------------------------------------------------------------ *)
(** * A publisher never waits for a subscriber *)

Definition publishing (pc : list instr) : bool :=
  match pc with
  | IPubBegin _ :: _ | IPub _ _ _ :: _ | IVisit _ _ _ _ :: _ | IOk _ :: _ => true
  | _ => false
  end.

(** every step of an EVENT is enabled in every state: no rule of the model
    makes the publisher wait for room in anybody's queue *)
Theorem publisher_never_blocked s c : publishing (c_pc (r_cs s c)) = true -> enabled s (LRun c) = true.
Proof.
  unfold enabled. destruct (c_pc (r_cs s c)) as [|i rest]; [discriminate|].
  destruct i; cbn; try discriminate; try reflexivity.
  destruct todo as [|[sub fs] todo]; [reflexivity|]. try rewrite trysend_has_default; reflexivity.
Qed.

Theorem visit_never_blocked s c c' ord : enabled s (LVisit c c' ord) = true.
Proof. reflexivity. Qed.

(** enabledness does not depend on any queue, forwarder slot or output *)
Theorem enabled_ignores_queues s1 s2 l :
  r_pubs s1 = r_pubs s2 ->
  (forall c, c_pc (r_cs s1 c) = c_pc (r_cs s2 c) /\ c_rd (r_cs s1 c) = c_rd (r_cs s2 c)) ->
  enabled s1 l = enabled s2 l.
Proof.
  intros Hp Hc. destruct l as [c o|c|c c' ord|c|c|c]; try reflexivity.
  unfold enabled. destruct (Hc c) as [E1 E2]. rewrite <- E1, <- E2, <- Hp.
  destruct (c_pc (r_cs s1 c)) as [|i rest]; [reflexivity|]. destruct i; try reflexivity.
  all: destruct todo as [|[sub fs] todo]; [reflexivity|]; try rewrite trysend_has_default; reflexivity.
Qed.

(** a step of the publisher makes progress: its program changes *)
Theorem publisher_step_progress s c :
  publishing (c_pc (r_cs s c)) = true -> c_pc (r_cs (step s (LRun c)) c) <> c_pc (r_cs s c).
Proof.
  intro Hp. unfold step. rewrite (publisher_never_blocked s c Hp). cbn [step_enabled]. unfold run_instr.
  destruct (c_pc (r_cs s c)) as [|i rest] eqn:Hpc; [discriminate|].
  destruct i; cbn in Hp; try discriminate.
  - cbn [r_cs]. rewrite upd_same. cbn. intro E. inversion E.
  - destruct rem as [|c1 rem].
    + cbn [r_cs]. rewrite upd_same. cbn. intro E. apply (f_equal (@length instr)) in E. cbn in E. lia.
    + unfold start_visit. cbn [r_cs with_cs].
      rewrite (pc_upd2 _ _ _ _ (fun st => set_rd st (c :: c_rd st))) by (intro; reflexivity).
      rewrite upd_same. cbn. intro E. inversion E.
  - destruct todo as [|[sub fs] todo].
    + cbn [r_cs with_cs].
      rewrite (pc_upd2 _ _ _ _ (fun st => set_rd st (remove_conn c (c_rd st)))) by (intro; reflexivity).
      rewrite upd_same. cbn. intro E. apply (f_equal (@length instr)) in E. cbn in E. lia.
    + cbn [r_cs with_cs].
      rewrite (pc_upd2 _ _ _ _ (send_if_match (r_buf s) e t sub fs)) by (intro; apply ctl_send_if_match).
      rewrite upd_same. cbn. intro E. inversion E as [E2]. apply (f_equal (@length (str * list rfilter))) in E2. cbn in E2. lia.
  - cbn [r_cs with_cs]. rewrite upd_same. cbn. intro E. apply (f_equal (@length instr)) in E. cbn in E. lia.
Qed.

(** and nobody else can undo it: other connections' steps leave the
    publisher's program alone *)
Theorem publisher_not_interfered s l c :
  label_of_conn c l = false -> c_pc (r_cs (step s l) c) = c_pc (r_cs s c).
Proof. apply step_pc_other. Qed.

(* ------------------------------------------------------------------ *)
(** * From "EOSE received" to [established] *)

Theorem req_end_established buf s x sub :
  reachable buf s -> c_pc (r_cs s x) = [IEose sub] -> ~ In x (r_cancel s) ->
  exists fs ops0,
    c_ops (r_cs s x) = ops0 ++ [OReq sub fs] /\
    established (step s (LRun x)) x sub fs /\
    c_out (r_cs (step s (LRun x)) x) = c_out (r_cs s x) ++ [MEose sub].
Proof.
  intros R Hpc Hnc. pose proof (Inv_reachable buf s R) as I.
  pose proof (inv_pc s I x) as P. rewrite Hpc in P.
  destruct (pc_ok_inv_eose_last _ _ _ _ P) as (fs & ops0 & Hs & Ho).
  exists fs, ops0. split; [assumption|].
  assert (Hd : c_dead (r_cs s x) = false).
  { destruct (c_dead (r_cs s x)) eqn:Hd; [|reflexivity].
    destruct (inv_dead s I x Hd) as [E|[E _]]; rewrite E in Hpc; discriminate. }
  unfold step, enabled. rewrite Hpc. cbn [step_enabled]. unfold run_instr. rewrite Hpc.
  unfold established, quiet, quiet0. rewrite sub_of_with_cs. cbn [r_cs r_cancel with_cs]. rewrite upd_same. cbn.
  repeat split; auto.
Qed.
