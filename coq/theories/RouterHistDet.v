(* RouterHistDet.v — C07: schedules that run one client operation at a time
   (the deterministic layer).  For those the set of subscriptions open when
   an EVENT is published is decided by the operations before it, and the
   exact-expectation clause of [det_oracle] holds as well. *)
From Moc Require Import Base Match MatchProofs Router RouterSpec RouterHist RouterLemmas RouterFrame RouterTrans RouterData
  RouterMust RouterEnv RouterInv RouterDataInv RouterOnce RouterOrder RouterReplies RouterProofs
  RouterHistBase RouterHistInv RouterHistCopy RouterHistOracle.
From Coq Require Import Sorted.
Open Scope Z_scope.

(* ------------------------------------------------------------------ *)
(** * One operation at a time *)

Definition all_idle (s : rstate) : Prop := forall x, c_pc (r_cs s x) = [].

(** every operation is accepted in a state in which no connection's
    goroutine has anything left to do (in particular no session is cancelled
    while its recv loop is at work) *)
Fixpoint solo_sched (s : rstate) (tr : list label) : Prop :=
  match tr with
  | [] => True
  | l :: tr' =>
      match l with LOp c o => op_taken s c o = true -> all_idle s | _ => True end /\ solo_sched (step s l) tr'
  end.

Record SoloInv (st : istate) : Prop := mkSolo {
  so_one : forall x y, c_pc (r_cs (i_s st) x) <> [] -> c_pc (r_cs (i_s st) y) <> [] -> x = y;
  so_cancel : r_cancel (i_s st) = [];
  so_open : forall h, In h (i_hops st) -> h_d h = None -> is_close (h_o h) = false ->
              c_pc (r_cs (i_s st) (h_c h)) <> [] /\ (is_disc (h_o h) = false -> c_dead (r_cs (i_s st) (h_c h)) = false);
  so_seq : forall h k, In h (i_hops st) -> In k (i_hops st) -> h_b h < h_b k -> is_close (h_o h) = false ->
             exists d, h_d h = Some d /\ d < h_b k
}.

Lemma SoloInv_init buf : SoloInv (i_init buf).
Proof. constructor; [intros x y H; cbn in H; congruence | reflexivity | intros h [] | intros h k []]. Qed.

Lemma op_taken_true s c o :
  op_taken s c o = true <->
  c_dead (r_cs s c) = false /\ ~ In c (r_cancel s) /\ (c_pc (r_cs s c) = [] \/ o = ODisc).
Proof.
  unfold op_taken. rewrite !andb_true_iff, orb_true_iff, !negb_true_iff, mem_conn_false, is_nil_true.
  assert (E : is_disc o = true <-> o = ODisc) by (destruct o; cbn; split; congruence). rewrite E. tauto.
Qed.

Theorem SoloInv_step buf st l :
  reachable buf (i_s st) -> HInv st ->
  (match l with LOp c o => op_taken (i_s st) c o = true -> all_idle (i_s st) | _ => True end) ->
  SoloInv st -> SoloInv (istep st l).
Proof.
  intros R HI Hsolo SI. pose proof (istep_hchange st l) as HC. pose proof (Inv_reachable buf _ R) as I.
  destruct (step_trans (i_s st) l) as [E|T].
  { destruct (istep_stutter st l E) as [EH _]. constructor; rewrite ?istep_s, ?E, ?EH; apply SI. }
  pose proof (trans_actor _ _ _ T) as Act. pose proof (istep_hops_trans st l T) as EH.
  pose proof (so_cancel st SI) as Hcan.
  (* an operation is taken only when everybody is idle *)
  assert (Taken : forall c o, l = LOp c o -> all_idle (i_s st)).
  { intros c o ->. apply Hsolo. apply op_taken_true. destruct Act as (A1 & A2 & A3).
    split; [assumption|]. split; [assumption|]. destruct A3 as [A3|[A3 _]]; auto. }
  (* no cancellation, hence no deferral *)
  assert (Ecan : r_cancel (step (i_s st) l) = []).
  { destruct (trans_cancel _ _ _ T) as [Ec|[(c & El & Hne & _)|(c & El & _ & Hin & _)]]; [congruence | |rewrite Hcan in Hin; contradiction].
    exfalso. apply Hne. now apply (Taken c ODisc). }
  (* which connections can be busy afterwards *)
  assert (Busy : forall x, c_pc (r_cs (step (i_s st) l) x) <> [] ->
            c_pc (r_cs (i_s st) x) <> [] \/ (exists o, l = LOp x o /\ all_idle (i_s st))).
  { intros x Hx. destruct (label_of_conn x l) eqn:Hl.
    - destruct l as [c o|c|c c' ord|c|c|c]; cbn in Hl; try discriminate; apply Nat.eqb_eq in Hl; subst c.
      + right. exists o. split; [reflexivity|]. now apply (Taken x o).
      + left. destruct Act as [A|A]; [assumption | rewrite Hcan in A; contradiction].
      + now left.
      + left. apply Act.
    - left. now rewrite <- (trans_pc_other _ _ _ _ T Hl). }
  constructor; rewrite ?istep_s.
  - intros x y Hx Hy.
    destruct (Busy x Hx) as [Bx|(o & -> & Idle)]; destruct (Busy y Hy) as [By|(o' & El & Idle')].
    + now apply (so_one st SI).
    + subst l. exfalso. apply Bx. apply Idle'.
    + exfalso. apply By. apply Idle.
    + now inversion El.
  - exact Ecan.
  - (* open operations belong to busy connections *)
    intros h' Hh' Hd' Hc'.
    destruct (hchange_bwd _ _ _ h' HC Hh') as [(h & Hh & (S1 & S2 & S3) & Evh)|(c & o & -> & EH')].
    + assert (Hd : h_d h = None) by (destruct Evh as [Evh|(Evh & _)]; congruence).
      rewrite S2 in Hc'. destruct (so_open st SI h Hh Hd Hc') as [Hne Hdead]. rewrite S1, S2.
      destruct (label_of_conn (h_c h) l) eqn:Hl.
      * (* the connection of h acts: its program must go on, else h would have ended *)
        destruct l as [c o|c|c c' ord|c|c|c]; cbn in Hl; try discriminate; apply Nat.eqb_eq in Hl.
        -- exfalso. apply Hne. rewrite Hl. apply (Taken c o eq_refl).
        -- rewrite Hl in *.
           assert (Hdd : c_dead (r_cs (step (i_s st) (LRun c)) c) = c_dead (r_cs (i_s st) c)).
           { destruct (trans_ops _ _ _ c T) as [[_ X]|(o & _ & X & _)]; [assumption | contradiction]. }
           rewrite Hdd. split; [|assumption]. intro Hpc'.
           (* the program ends: h gets its end stamp *)
           rewrite EH in Hh'. apply is_nil_false in Hne. rewrite Hne in Hh'. apply is_nil_true in Hpc'. rewrite Hpc' in Hh'. cbn [negb andb] in Hh'.
           apply in_map_iff in Hh' as [h0 [E0 Hh0]].
           assert (h0 = h).
           { eapply hop_eq_of_b; [apply HI | assumption | assumption|]. rewrite <- E0, close1_b in S3. exact S3. }
           subst h0. rewrite <- E0 in Hd'.
           assert (Ek : is_disc (h_o h) = is_unsub_head (c_pc (r_cs (i_s st) c))).
           { destruct (is_disc (h_o h)) eqn:Ek.
             - (* an idle disconnect: the program is the deferred UnsubscribeAll *)
               destruct (h_disc st HI h Hh Ek) as (_ & [X|X] & _); [rewrite Hcan in X; contradiction|]. rewrite Hl in X.
               apply is_nil_false in Hne. destruct (inv_dead _ I c X) as [Y|[Y _]]; rewrite Y in *; [reflexivity | contradiction].
             - specialize (Hdead eq_refl). destruct (is_unsub_head (c_pc (r_cs (i_s st) c))) eqn:Eu; [|reflexivity]. exfalso.
               destruct (c_pc (r_cs (i_s st) c)) as [|i0 r0] eqn:Epc; [discriminate|]. destruct i0; try discriminate.
               pose proof (inv_pc _ I c) as P. rewrite Epc in P. destruct (pc_ok_inv_unsuball _ _ _ P) as [_ X]. congruence. }
           rewrite (close1_open _ c _ h Hl Hd Hc' Ek) in Hd'. discriminate.
        -- rewrite Hl in *. pose proof (trans_visit_pc _ _ _ _ _ T) as X. split; [assumption|].
           destruct (trans_ops _ _ _ c T) as [[_ Y]|(o & [Y|(Y & _)] & _)]; [now rewrite Y | discriminate | discriminate].
        -- exfalso. destruct Act as [_ A]. rewrite Hcan in A. contradiction.
      * rewrite (trans_pc_other _ _ _ _ T Hl), (trans_dead_other _ _ _ _ T Hl). auto.
    + (* the operation accepted now *)
      cbn [h_c h_o] in *. destruct (istep_new_inv st l _ T EH') as [El _]. cbn in El. subst l.
      destruct (trans_ops _ _ _ c T) as [[X _]|(o' & [El|(El & _)] & Hpc & _ & Ed & Ep)]; [|inversion El; subst o'|discriminate].
      * exfalso. assert (Idle : all_idle (i_s st)) by (apply (Taken c o eq_refl)).
        destruct Act as (A1 & A2 & _). unfold step in X. cbn [enabled step_enabled] in X. rewrite (Idle c), A1 in X.
        apply mem_conn_false in A2. rewrite A2 in X. cbn [orb r_cs with_cs] in X. rewrite upd_same in X. cbn in X.
        apply (f_equal (@length op)) in X. rewrite app_length in X. cbn in X. lia.
      * rewrite Ep, Ed. split; [now apply program_nonnil | auto].
  - intros h' k' Hh' Hk' Hlt Hc.
    destruct (hchange_bwd _ _ _ h' HC Hh') as [(h & Hh & (S1 & S2 & S3) & Evh)|(c & o & -> & EH')].
    2:{ exfalso. cbn in Hlt.
        destruct (hchange_bwd _ _ _ k' HC Hk') as [(k & Hk & (T1 & T2 & T3) & _)|(c2 & o2 & -> & _)]; [|cbn in Hlt; lia].
        pose proof (HInv_time_lt st k HI Hk). lia. }
    rewrite S2 in Hc.
    destruct (hchange_bwd _ _ _ k' HC Hk') as [(k & Hk & (T1 & T2 & T3) & _)|(c2 & o2 & -> & EH')].
    + destruct (so_seq st SI h k Hh Hk) as (d & Hd & Hdk); [lia | assumption|].
      exists d. split; [|lia]. destruct Evh as [Evh|(Evh & _)]; congruence.
    + (* k' is the operation accepted now: everybody was idle, so h had ended *)
      cbn [h_b].
      destruct (istep_new_inv st l _ T EH') as [El _]. cbn in El. subst l.
      assert (Idle : all_idle (i_s st)) by (apply (Taken c2 o2 eq_refl)).
      destruct (h_d h) as [d|] eqn:Hd.
      * exists d. split; [destruct Evh as [Evh|(Evh & _)]; congruence|]. destruct (h_time st HI h Hh) as [_ Ht]. specialize (Ht d Hd). lia.
      * exfalso. destruct (so_open st SI h Hh Hd Hc) as [Hne _]. apply Hne. apply Idle.
Qed.

Lemma SoloInv_irun buf tr : forall st,
  reachable buf (i_s st) -> HInv st -> solo_sched (i_s st) tr -> SoloInv st -> SoloInv (irun st tr).
Proof.
  induction tr as [|l tr IH]; intros st R HI Hs SI; [assumption|].
  destruct Hs as [Hs1 Hs2]. rewrite irun_cons.
  apply IH; [rewrite istep_s; now constructor | now apply (HInv_step buf) | now rewrite istep_s | now apply (SoloInv_step buf)].
Qed.

(* ------------------------------------------------------------------ *)
(** * open_subs *)

Definition osub_step (x : nat) (o : hop) (R : list (str * list rfilter)) : list (str * list rfilter) :=
  if Nat.eqb (h_c o) x then
    match h_o o with
    | OReq sub fs => filter (fun kv => negb (str_eqb (fst kv) sub)) R ++ [(sub, fs)]
    | OClose sub => filter (fun kv => negb (str_eqb (fst kv) sub)) R
    | ODisc => []
    | _ => R
    end
  else R.

Lemma open_subs_snoc x o : forall ops acc, open_subs x (ops ++ [o]) acc = osub_step x o (open_subs x ops acc).
Proof.
  induction ops as [|a ops IH]; intro acc; cbn [app open_subs].
  - unfold osub_step. destruct (Nat.eqb (h_c o) x); [destruct (h_o o)|]; reflexivity.
  - destruct (Nat.eqb (h_c a) x); [destruct (h_o a)|]; apply IH.
Qed.

Lemma snoc_cases {A} (l : list A) : l = [] \/ exists l' a, l = l' ++ [a].
Proof. destruct l as [|x l]; [now left|]. right. destruct (@exists_last _ (x :: l)) as (l' & a & E); [discriminate | eauto]. Qed.

Lemma op_ends_sym o sub : op_ends o sub = match o with OReq s _ | OClose s => str_eqb s sub | ODisc => true | _ => false end.
Proof. destruct o; cbn; try reflexivity; apply str_eqb_sym. Qed.

(** an entry of [open_subs] is the last REQ with that id of the connection,
    with no CLOSE / REQ of that id / disconnect after it *)
Lemma open_subs_spec x sub fs : forall ops,
  In (sub, fs) (open_subs x ops []) <->
  exists l1 q l2, ops = l1 ++ q :: l2 /\ h_c q = x /\ h_o q = OReq sub fs /\
                  forall k, In k l2 -> h_c k = x -> op_ends (h_o k) sub = false.
Proof.
  intro ops. induction ops as [|o ops IH] using rev_ind.
  - cbn. split; [contradiction|]. intros (l1 & q & l2 & E & _). destruct l1; discriminate.
  - rewrite open_subs_snoc. unfold osub_step. destruct (Nat.eqb (h_c o) x) eqn:Ec.
    + apply Nat.eqb_eq in Ec.
      assert (Keep : op_ends (h_o o) sub = false ->
                (In (sub, fs) (open_subs x ops []) <->
                 exists l1 q l2, ops ++ [o] = l1 ++ q :: l2 /\ h_c q = x /\ h_o q = OReq sub fs /\
                   forall k, In k l2 -> h_c k = x -> op_ends (h_o k) sub = false)).
      { intro He. rewrite IH. split.
        - intros (l1 & q & l2 & -> & Hc & Ho & Hk). exists l1, q, (l2 ++ [o]). rewrite <- app_assoc. split; [reflexivity|].
          repeat split; auto. intros k Hin Hck. apply in_app_iff in Hin as [Hin|[<-|[]]]; auto.
        - intros (l1 & q & l2 & E & Hc & Ho & Hk).
          destruct (@exists_last _ l2) as (l2' & k & ->).
          + intro X. subst l2. apply app_inj_tail in E as [_ E]. subst q. rewrite Ho in He. cbn in He.
            now rewrite str_eqb_refl in He.
          + rewrite app_comm_cons, app_assoc in E. apply app_inj_tail in E as [E _].
            exists l1, q, l2'. repeat split; auto. intros k0 Hin. apply Hk. apply in_or_app. now left. }
      assert (Gone : op_ends (h_o o) sub = true ->
                ~ (exists l1 q l2, ops ++ [o] = l1 ++ q :: l2 /\ h_c q = x /\ h_o q = OReq sub fs /\
                   forall k, In k l2 -> h_c k = x -> op_ends (h_o k) sub = false) \/ exists fs0, h_o o = OReq sub fs0).
      { intro He. destruct (h_o o) eqn:Eo; try (cbn in He; discriminate).
        - right. cbn in He. apply str_eqb_eq in He. subst. eauto.
        - left. intros (l1 & q & l2 & E & Hc & Ho & Hk).
          destruct (@exists_last _ l2) as (l2' & k & ->).
          + intro X. subst l2. apply app_inj_tail in E as [_ E]. subst q. congruence.
          + rewrite app_comm_cons, app_assoc in E. apply app_inj_tail in E as [_ E]. subst k.
            specialize (Hk o). rewrite Eo in Hk. cbn in Hk, He. rewrite He in Hk. discriminate Hk; [apply in_or_app; right; now left | assumption].
        - left. intros (l1 & q & l2 & E & Hc & Ho & Hk).
          destruct (@exists_last _ l2) as (l2' & k & ->).
          + intro X. subst l2. apply app_inj_tail in E as [_ E]. subst q. congruence.
          + rewrite app_comm_cons, app_assoc in E. apply app_inj_tail in E as [_ E]. subst k.
            specialize (Hk o). rewrite Eo in Hk. cbn in Hk. discriminate Hk; [apply in_or_app; right; now left | assumption]. }
      destruct (h_o o) as [s0 fs0|s0|s0|e0|] eqn:Eo.
      * (* REQ *)
        destruct (str_dec s0 sub) as [->|N].
        -- rewrite in_app_iff, filter_In. cbn [fst]. rewrite str_eqb_refl. cbn [negb]. split.
           ++ intros [[_ X]|[X|[]]]; [discriminate|]. inversion X; subst fs0.
              exists ops, o, []. repeat split; auto. intros k [].
           ++ intros (l1 & q & l2 & E & Hc & Ho & Hk). right. left.
              destruct (snoc_cases l2) as [->|(l2' & k & ->)].
              ** apply app_inj_tail in E as [_ E]. subst q. congruence.
              ** exfalso. rewrite app_comm_cons, app_assoc in E. apply app_inj_tail in E as [_ E]. subst k.
                 specialize (Hk o). rewrite Eo in Hk. cbn in Hk. rewrite str_eqb_refl in Hk.
                 discriminate Hk; [apply in_or_app; right; now left | assumption].
        -- assert (He : op_ends (OReq s0 fs0) sub = false) by (cbn; apply str_eqb_neq; congruence).
           rewrite <- (Keep He). rewrite in_app_iff, filter_In. cbn [fst].
           assert (E2 : str_eqb sub s0 = false) by (apply str_eqb_neq; congruence). rewrite E2. cbn [negb]. split.
           ++ intros [[X _]|[X|[]]]; [assumption | inversion X; congruence].
           ++ intro X. left. auto.
      * (* CLOSE *)
        destruct (str_dec s0 sub) as [->|N].
        -- rewrite filter_In. cbn [fst]. rewrite str_eqb_refl. cbn [negb]. split; [intros [_ X]; discriminate|].
           intro X. exfalso. destruct Gone as [G|(fs1 & G)]; [cbn; apply str_eqb_refl | now apply G | discriminate].
        -- assert (He : op_ends (OClose s0) sub = false) by (cbn; apply str_eqb_neq; congruence).
           rewrite <- (Keep He). rewrite filter_In. cbn [fst].
           assert (E2 : str_eqb sub s0 = false) by (apply str_eqb_neq; congruence). rewrite E2. cbn [negb]. tauto.
      * now apply Keep.
      * now apply Keep.
      * split; [contradiction|]. intro X. exfalso. destruct Gone as [G|(fs1 & G)]; [reflexivity | now apply G | discriminate].
    + apply Nat.eqb_neq in Ec. rewrite IH. split.
      * intros (l1 & q & l2 & -> & Hc & Ho & Hk). exists l1, q, (l2 ++ [o]). rewrite <- app_assoc. split; [reflexivity|].
        repeat split; auto. intros k Hin Hck. apply in_app_iff in Hin as [Hin|[<-|[]]]; [auto | contradiction].
      * intros (l1 & q & l2 & E & Hc & Ho & Hk).
        destruct (@exists_last _ l2) as (l2' & k & ->).
        -- intro X. subst l2. apply app_inj_tail in E as [_ E]. subst q. contradiction.
        -- rewrite app_comm_cons, app_assoc in E. apply app_inj_tail in E as [E _].
           exists l1, q, l2'. repeat split; auto. intros k0 Hin. apply Hk. apply in_or_app. now left.
Qed.

(* ------------------------------------------------------------------ *)
(** * In a solo schedule every copy goes to a subscription that the
      operations before the publication leave open *)

Definition before_of (H : list hop) (b : Z) : list hop := filter (fun h => h_b h <? b) H.

Definition Psi (H : list hop) (x : conn) (sub : str) (e : event) (t : ptag) : Prop :=
  exists P q fs,
    pub_nth H (fst t) (snd t) P /\ h_o P = OEvent e /\ In q H /\ h_o q = OReq sub fs /\
    sub_matches e fs = true /\ In (sub, fs) (open_subs x (before_of H (h_b P)) []).

Lemma open_subs_close x d c k : forall L acc, open_subs x (List.map (close1 d c k) L) acc = open_subs x L acc.
Proof.
  induction L as [|a L IH]; intro acc; [reflexivity|]. cbn [List.map open_subs]. rewrite close1_c, close1_o.
  destruct (Nat.eqb (h_c a) x); [destruct (h_o a)|]; apply IH.
Qed.

Lemma before_of_close d c k H b : before_of (close_hop d c k H) b = List.map (close1 d c k) (before_of H b).
Proof. apply filter_map_commute. intro a. now rewrite close1_b. Qed.

Lemma Psi_stable now H H' x sub e t :
  (forall h, In h H -> h_b h < now) -> hchange now H H' -> Psi H x sub e t -> Psi H' x sub e t.
Proof.
  intros Time HC (P & q & fs & HP & HoP & Hq & Hoq & Hm & Hin).
  destruct (pub_nth_In _ _ _ _ HP) as (HPin & _ & _).
  destruct (pub_nth_hchange _ _ _ _ _ _ HC HP) as (P' & HP' & (SP1 & SP2 & SP3) & _).
  destruct (hchange_fwd _ _ _ q HC Hq) as (q' & Hq' & (Sq1 & Sq2 & Sq3) & _).
  exists P', q', fs. split; [assumption|]. split; [congruence|]. split; [assumption|]. split; [congruence|].
  split; [assumption|]. rewrite SP3.
  destruct HC as [->| c o ->| d c ->].
  - assumption.
  - unfold before_of. rewrite filter_app. cbn [filter h_b].
    assert (E : (now <? h_b P) = false) by (apply Z.ltb_ge; specialize (Time P HPin); lia).
    rewrite E, app_nil_r. exact Hin.
  - rewrite before_of_close, open_subs_close. exact Hin.
Qed.

Lemma SSorted_mid {A} (R : A -> A -> Prop) l1 a l2 :
  StronglySorted R (l1 ++ a :: l2) -> Forall (fun b => R b a) l1 /\ Forall (R a) l2.
Proof.
  induction l1 as [|x l1 IH]; cbn; intro S.
  - inversion S; subst. split; [constructor | assumption].
  - inversion S as [|? ? S1 F]; subst. destruct (IH S1) as [I1 I2]. split; [|assumption].
    constructor; [|assumption]. apply Forall_app in F as [_ F]. now inversion F.
Qed.

Lemma before_of_split H b1 P r1 :
  StronglySorted (fun a b => h_b a < h_b b) H -> H = b1 ++ P :: r1 -> before_of H (h_b P) = b1.
Proof.
  intros S ->. destruct (SSorted_mid _ _ _ _ S) as [F1 F2]. unfold before_of. rewrite filter_app. cbn [filter].
  rewrite Z.ltb_irrefl.
  replace (filter (fun h => h_b h <? h_b P) r1) with (@nil hop).
  - rewrite app_nil_r. rewrite <- (app_nil_r b1) at 2. rewrite <- (app_nil_r (filter _ b1)). f_equal.
    clear -F1. induction b1 as [|a b1 IH]; [reflexivity|]. inversion F1; subst. cbn.
    assert (E : h_b a <? h_b P = true) by (now apply Z.ltb_lt). rewrite E. f_equal. now apply IH.
  - clear -F2. induction r1 as [|a r1 IH]; [reflexivity|]. inversion F2; subst. cbn.
    assert (E : h_b a <? h_b P = false) by (apply Z.ltb_ge; lia). rewrite E. now apply IH.
Qed.

Lemma Psi_create st c e t x sub fs todo rest :
  Inv (i_s st) -> HInv st -> PubInv st -> AInv st -> SoloInv st ->
  c_pc (r_cs (i_s st) c) = IVisit e t x ((sub, fs) :: todo) :: rest -> sub_matches e fs = true ->
  Psi (i_hops st) x sub e t.
Proof.
  intros I HI PI AI SI Hpc Hm. pose proof (inv_pc _ I c) as Pk. rewrite Hpc in Pk.
  destruct (pc_ok_inv_visit _ _ _ _ _ _ _ Pk) as (n & rem & id & -> & Erest & _ & _ & _ & _ & _ & _ & Htodo).
  specialize (Htodo sub fs (or_introl eq_refl)).
  destruct (p_cur st PI c e (c, n)) as (P & _ & HP & HoP & HdP).
  { exists (IVisit e (c, n) x ((sub, fs) :: todo)). rewrite Hpc. split; [now left | split; reflexivity]. }
  destruct (pub_nth_In _ _ _ _ HP) as (HPin & _ & _).
  destruct (AI x sub fs Htodo) as (q & Hq & Hcq & Hoq & Hk).
  (* nobody else is busy: nothing is pending against the subscription *)
  assert (NoLater : forall k, In k (i_hops st) -> h_c k = x -> h_b q < h_b k -> op_ends (h_o k) sub = false).
  { intros k Hin Hck Hb. destruct (op_ends (h_o k) sub) eqn:He; [|reflexivity]. exfalso.
    destruct (Hk k Hin Hck Hb He) as [Pd _]. apply eff_pending_has in Pd as [Pd|[_ Pd]];
      [|rewrite (so_cancel st SI) in Pd; contradiction].
    assert (Hx : c_pc (r_cs (i_s st) x) <> []) by (intro X; rewrite X in Pd; discriminate).
    assert (Hc : c_pc (r_cs (i_s st) c) <> []) by (rewrite Hpc; discriminate).
    rewrite (so_one st SI x c Hx Hc), Hpc, Erest in Pd. discriminate. }
  (* the publication is the latest operation *)
  assert (Last : forall h, In h (i_hops st) -> h_b h <= h_b P).
  { intros h Hin. destruct (Z.le_gt_cases (h_b h) (h_b P)) as [L|G]; [assumption|]. exfalso.
    destruct (so_seq st SI P h HPin Hin) as (d & Hd & _); [lia | now rewrite HoP | congruence]. }
  assert (Hlt : h_b q < h_b P).
  { specialize (Last q Hq). destruct (Z.eq_dec (h_b q) (h_b P)) as [E|N]; [|lia]. exfalso.
    assert (q = P) by (eapply hop_eq_of_b; [apply HI | assumption | assumption | assumption]). subst. congruence. }
  exists P, q, fs. repeat split; auto.
  apply in_split in Hq as (A & B & EH). rewrite EH. unfold before_of. rewrite filter_app. cbn [filter].
  assert (Eq : h_b q <? h_b P = true) by (now apply Z.ltb_lt). rewrite Eq.
  apply open_subs_spec. exists (filter (fun h => h_b h <? h_b P) A), q, (filter (fun h => h_b h <? h_b P) B).
  repeat split; auto.
  intros k Hin Hck. apply filter_In in Hin as [Hin _].
  pose proof (h_sorted st HI) as S. rewrite EH in S. destruct (SSorted_mid _ _ _ _ S) as [_ F2].
  rewrite Forall_forall in F2. apply NoLater; [rewrite EH; apply in_or_app; right; now right | assumption | now apply F2].
Qed.

Definition CopyInv3 (st : istate) : Prop :=
  forall x sub e t,
    In (MEvent sub e t) (evs (r_cs (i_s st) x)) \/ In (sub, e, t) (c_drops (r_cs (i_s st) x)) ->
    Psi (i_hops st) x sub e t.

Theorem CopyInv3_step buf st l :
  reachable buf (i_s st) -> HInv st -> PubInv st -> AInv st -> SoloInv st -> CopyInv3 st -> CopyInv3 (istep st l).
Proof.
  intros R HI PI AI SI CI. pose proof (Inv_reachable buf _ R) as I.
  pose proof (istep_hchange st l) as HC.
  destruct (step_trans (i_s st) l) as [E|T].
  { destruct (istep_stutter st l E) as [EH _]. intros x sub e t. rewrite istep_s, E, EH. apply CI. }
  intros x sub e t Hin. rewrite istep_s in Hin.
  apply Psi_stable with (now := i_now st) (H := i_hops st); [intros h Hh; now apply HInv_time_lt | exact HC |].
  destruct (evs_trans _ _ _ x T)
    as [E1 E2 _|c e0 t0 sub0 fs0 todo rest _ Hpc Hm _ E1 _ _ E2|c e0 t0 sub0 fs0 todo rest _ Hpc Hm _ E1 _ _ E2|rest _ _ E1 _ _ E2];
    rewrite E1, E2 in Hin.
  - now apply CI.
  - destruct Hin as [Hin|Hin]; [|apply CI; now right].
    apply in_app_iff in Hin as [Hin|[Hin|[]]]; [apply CI; now left|].
    inversion Hin; subst. eapply Psi_create; eassumption.
  - destruct Hin as [Hin|Hin]; [apply CI; now left|].
    apply in_app_iff in Hin as [Hin|[Hin|[]]]; [apply CI; now right|].
    inversion Hin; subst. eapply Psi_create; eassumption.
  - destruct Hin as [Hin|Hin]; [|apply CI; now right].
    apply CI. left. now apply evs_out_incl.
Qed.

(** all invariants of a solo run *)
Lemma solo_irun buf tr : forall st,
  AllInv buf st -> SoloInv st -> CopyInv3 st -> solo_sched (i_s st) tr ->
  AllInv buf (irun st tr) /\ SoloInv (irun st tr) /\ CopyInv3 (irun st tr).
Proof.
  induction tr as [|l tr IH]; intros st A SI CI Hs; [auto|].
  destruct Hs as [Hs1 Hs2]. rewrite irun_cons. apply IH.
  - now apply AllInv_step.
  - apply (SoloInv_step buf); [apply A | apply A | assumption | assumption].
  - eapply CopyInv3_step; try eassumption; apply A.
  - now rewrite istep_s.
Qed.

(* ------------------------------------------------------------------ *)
(** * The exact-expectation clause *)

Definition exact_clause (h : history) (b1 : list hop) (o : hop) (e : event) : bool :=
  forallb (fun x =>
    let open := open_subs x b1 [] in
    let want := List.map fst (filter (fun kv => matches_specb e (snd kv)) open) in
    let got := flat_map (fun ms : xmsg * Z =>
                 match fst ms with
                 | XEvent s e' => if str_eqb (ev_id e') (ev_id e) then [s] else []
                 | _ => []
                 end) (outs_of h x) in
    forallb (fun s => mem_str s want) got &&&
    (has_disc h x ||| is_sentinel e ||| may_be_full h x o ||| forallb (fun s => mem_str s got) want))
  (seq 0 (length (hi_outs h))).

Lemma exact_walk_intro h : forall rest before,
  (forall b1 o r1 e, before ++ rest = b1 ++ o :: r1 -> h_o o = OEvent e -> exact_clause h b1 o e = true) ->
  exact_walk h before rest = true.
Proof.
  induction rest as [|o rest IH]; intros before H; [reflexivity|]. cbn [exact_walk].
  assert (E1 : match h_o o with OEvent e => exact_clause h before o e | _ => true end = true).
  { destruct (h_o o) eqn:Eo; try reflexivity. apply (H before o rest e); auto. }
  unfold exact_clause in E1. rewrite E1. apply IH.
  intros b1 o1 r1 e E Ho. apply (H b1 o1 r1 e); [|assumption]. now rewrite <- app_assoc in E.
Qed.

Lemma exact_walk_model buf N st :
  AllInv buf st -> SoloInv st -> CopyInv3 st -> quiescent (i_s st) ->
  (forall h, In h (i_hops st) -> (h_c h < N)%nat /\ wf_op (h_o h)) ->
  uniq_pub_ids (hist_of N st) ->
  exact_walk (hist_of N st) [] (hi_ops (hist_of N st)) = true.
Proof.
  intros A SI CI Qs Wf U. pose proof (a_h _ _ A) as HI.
  apply exact_walk_intro. intros b1 P r1 e EH HoP. cbn [app] in EH. rewrite hist_ops in EH.
  assert (HPin : In P (i_hops st)) by (rewrite EH; apply in_or_app; right; now left).
  assert (Eb1 : before_of (i_hops st) (h_b P) = b1) by (eapply before_of_split; [apply HI | exact EH]).
  destruct (Wf P HPin) as [_ WP]. rewrite HoP in WP.
  unfold exact_clause. apply forallb_forall. intros x Hx. rewrite hist_outs_len in Hx. apply in_seq in Hx.
  assert (Hx' : (x < N)%nat) by lia. rewrite (outs_of_hist _ _ _ Hx').
  apply andl_true. split.
  - (* every copy received is for a subscription that was open and matches *)
    apply forallb_forall. intros s Hs. apply in_flat_map in Hs as (ms & Hms & Hs).
    apply in_map_iff in Hms as ([m r] & <- & Hin). unfold xout in Hs. cbn [fst snd] in Hs.
    destruct m as [| | |s' e' t]; try contradiction. cbn [xmsg_of] in Hs.
    destruct (str_eqb (ev_id e') (ev_id e)) eqn:Ei; [|contradiction]. destruct Hs as [<-|[]]. apply str_eqb_eq in Ei.
    assert (Hev : In (MEvent s' e' t) (evs (r_cs (i_s st) x))).
    { apply evs_out_incl. apply filter_In. split; [|reflexivity]. destruct (h_outs st HI x) as [<- _].
      change (MEvent s' e' t) with (fst (MEvent s' e' t, r)). now apply in_map. }
    destruct (CI x s' e' t (or_introl Hev)) as (P' & q & fs & HP' & HoP' & Hq & Hoq & Hm & Hopen).
    destruct (pub_nth_In _ _ _ _ HP') as (HPin' & _ & _).
    destruct (uniq_same_hop _ P' P e' e U HPin' HPin HoP' HoP Ei) as [-> ->].
    rewrite Eb1 in Hopen. apply mem_str_In. apply in_map_iff. exists (s', fs). split; [reflexivity|].
    apply filter_In. split; [assumption|]. cbn [snd]. rewrite <- Hm. symmetry. apply sub_matches_spec; [assumption|].
    destruct (Wf q Hq) as [_ Wq]. now rewrite Hoq in Wq.
  - (* every open matching subscription got its copy, up to the buffer clause *)
    destruct (has_disc (hist_of N st) x) eqn:Hdisc; [reflexivity|].
    destruct (is_sentinel e); [reflexivity|].
    destruct (may_be_full (hist_of N st) x P) eqn:Hfull; [reflexivity|].
    cbn. apply forallb_forall. intros s Hs.
    apply in_map_iff in Hs as ([s0 fs] & Es & Hs). cbn in Es. subst s0.
    apply filter_In in Hs as [Hopen Hms]. cbn [snd] in Hms.
    apply open_subs_spec in Hopen as (l1 & q & l2 & Eb & Hcq & Hoq & Hl2).
    assert (Hq : In q (i_hops st)) by (rewrite EH, Eb; apply in_or_app; left; apply in_or_app; right; now left).
    pose proof (h_sorted st HI) as S. rewrite EH in S. destruct (SSorted_mid _ _ _ _ S) as [F1 F2].
    rewrite Forall_forall in F1, F2.
    assert (Hqb : h_b q < h_b P) by (apply F1; rewrite Eb; apply in_or_app; right; now left).
    destruct (so_seq st SI q P Hq HPin Hqb) as (qd & Hdq & Hqd); [now rewrite Hoq|].
    destruct (h_d P) as [pd|] eqn:HdP.
    2:{ unfold may_be_full in Hfull. rewrite HdP in Hfull. discriminate. }
    assert (Prem : forall k, In k (i_hops st) -> h_c k = h_c q -> h_b q < h_b k -> op_ends (h_o k) s = true ->
                   lt_opt (h_b k) (Some pd) = false).
    { intros k Hk Hck Hb He. rewrite EH in Hk. apply in_app_iff in Hk as [Hk|[<-|Hk]].
      - exfalso. rewrite Eb in Hk, S. rewrite <- app_assoc in S. cbn [app] in S.
        destruct (SSorted_mid _ _ _ _ S) as [G1 G2]. rewrite Forall_forall in G1, G2.
        apply in_app_iff in Hk as [Hk|[<-|Hk]].
        + specialize (G1 k Hk). cbn in G1. lia.
        + lia.
        + rewrite (Hl2 k Hk) in He; [discriminate | congruence].
      - rewrite HoP in He. discriminate.
      - cbn. apply Z.ltb_ge. specialize (F2 k Hk). cbn in F2.
        assert (Hk' : In k (i_hops st)) by (rewrite EH; apply in_or_app; right; now right).
        destruct (so_seq st SI P k HPin Hk' F2) as (d & Hd & Hdk); [now rewrite HoP|]. rewrite HdP in Hd. inversion Hd. lia. }
    destruct (must_core buf N st P e q s fs qd pd A Qs Wf HPin HoP HdP Hq Hoq Hdq Hqd Hms Prem) as [D|[D|D]];
      rewrite Hcq in D; try congruence.
    unfold delivered in D. rewrite (outs_of_hist _ _ _ Hx') in D. apply existsb_exists in D as (ms & Hin & Hd).
    apply mem_str_In. apply in_flat_map. exists ms. split; [assumption|].
    destruct (fst ms) as [| | |s' e'|]; try discriminate.
    apply andl_true in Hd as [Hd1 Hd2]. apply str_eqb_eq in Hd1. rewrite Hd2. left. assumption.
Qed.

(* ------------------------------------------------------------------ *)
(** * The deterministic oracle accepts every one-operation-at-a-time run *)

Theorem model_satisfies_det_oracle buf N tr :
  conns_below N tr -> Forall wf_label tr ->
  solo_sched (r_init buf) tr ->
  quiescent (i_s (irun (i_init buf) tr)) ->
  uniq_pub_ids (model_history buf N tr) ->
  det_oracle (model_history buf N tr) = true.
Proof.
  intros HN Hwf Hs Qs U. unfold det_oracle.
  rewrite (model_satisfies_timed_oracle buf N tr HN Hwf Qs U).
  unfold model_history in *.
  destruct (solo_irun buf tr (i_init buf) (AllInv_init buf) (SoloInv_init buf)) as (A & SI & CI); [intros x sub e t [[]|[]] | exact Hs|].
  assert (Wf : forall h, In h (i_hops (irun (i_init buf) tr)) -> (h_c h < N)%nat /\ wf_op (h_o h))
    by (intros h Hin; eapply hops_conns_wf; eassumption).
  rewrite (exact_walk_model buf N _ A SI CI Qs Wf U).
  now destruct (sequential _).
Qed.
