(* CacheFindFacts.v — general lemmas used by the query-side proofs (C03):
   the order of the created_at tree, sorted lists as canonical forms of sets,
   [tree_set], the event-set operations of the index, and one characterising
   lemma per generated guard that the query path uses.  Nothing here mentions
   the cache state; CacheFindProofs.v applies these to [c_find]. *)
From Coq Require Import List ZArith Lia Bool Permutation Sorted.
From Moc Require Import Base Match MatchProofs Cache CacheSpec CacheInv.
From Moc.Gen Require Import GenMatch GenCache.
Import ListNotations.
Open Scope Z_scope.

(* ------------------------------------------------------------------ *)
(** * Guards of the query path: one characterising lemma each *)

Lemma g_created_key_lt_spec ats aid bts bid :
  g_created_key_lt ats aid bts bid = true <->
  (bts < ats \/ (bts = ats /\ str_ltb bid aid = true)).
Proof.
  unfold g_created_key_lt.
  rewrite orb_true_iff, andb_true_iff, Z.ltb_lt, Z.eqb_eq. tauto.
Qed.

Lemma g_index_over_limit_spec c l : g_index_over_limit c l = true <-> l < c.
Proof. unfold g_index_over_limit. rewrite Z.gtb_lt. tauto. Qed.

Lemma g_full_scan_spec i a k t :
  g_full_scan i a k t = true <-> i = false /\ a = false /\ k = false /\ t = false.
Proof. unfold g_full_scan. destruct i, a, k, t; simpl; intuition congruence. Qed.

(* [g_done_spec], [g_since_reject_spec], [g_until_reject_spec] are in MatchProofs. *)

(* ------------------------------------------------------------------ *)
(** * Go's [<] on strings is a strict total order *)

Lemma str_ltb_irrefl a : str_ltb a a = false.
Proof.
  induction a as [|x a IH]; simpl; [reflexivity|].
  now rewrite N.ltb_irrefl, N.eqb_refl.
Qed.

Lemma str_ltb_trans a : forall b c,
  str_ltb a b = true -> str_ltb b c = true -> str_ltb a c = true.
Proof.
  induction a as [|x a IH]; intros [|y b] [|z c]; simpl; try discriminate; auto.
  intros H1 H2.
  destruct (N.ltb x y) eqn:Exy.
  - apply N.ltb_lt in Exy. destruct (N.ltb y z) eqn:Eyz.
    + apply N.ltb_lt in Eyz. assert (Hxz : (x < z)%N) by lia.
      apply N.ltb_lt in Hxz. now rewrite Hxz.
    + destruct (N.eqb y z) eqn:E2; [|discriminate]. apply N.eqb_eq in E2; subst z.
      apply N.ltb_lt in Exy. now rewrite Exy.
  - destruct (N.eqb x y) eqn:E1; [|discriminate]. apply N.eqb_eq in E1; subst y.
    destruct (N.ltb x z); [reflexivity|].
    destruct (N.eqb x z); [|discriminate]. now apply (IH b c).
Qed.

Lemma str_ltb_total a : forall b,
  str_ltb a b = false -> str_ltb b a = false -> a = b.
Proof.
  induction a as [|x a IH]; intros [|y b]; simpl; try discriminate; auto.
  intros H1 H2.
  destruct (N.ltb x y) eqn:Exy; [discriminate|].
  destruct (N.eqb x y) eqn:E1.
  - apply N.eqb_eq in E1; subst y. rewrite N.ltb_irrefl, N.eqb_refl in H2.
    f_equal. now apply IH.
  - apply N.ltb_ge in Exy. apply N.eqb_neq in E1.
    assert (Hyx : (y < x)%N) by lia. apply N.ltb_lt in Hyx. rewrite Hyx in H2. discriminate.
Qed.

(* ------------------------------------------------------------------ *)
(** * The tree order: newest first, ties by id; a strict total order on
      (created_at, id) *)

(** same tree key *)
Definition keq (a b : event) : Prop := ev_ts a = ev_ts b /\ ev_id a = ev_id b.

Lemma tkey_lt_spec a b :
  tkey_lt a b = true <->
  (ev_ts b < ev_ts a \/ (ev_ts b = ev_ts a /\ str_ltb (ev_id b) (ev_id a) = true)).
Proof. unfold tkey_lt. apply g_created_key_lt_spec. Qed.

Lemma tkey_lt_irrefl a : tkey_lt a a = false.
Proof.
  destruct (tkey_lt a a) eqn:E; [|reflexivity].
  apply tkey_lt_spec in E. destruct E as [E|[_ E]]; [lia|].
  rewrite str_ltb_irrefl in E. discriminate.
Qed.

Lemma tkey_lt_trans a b c : tkey_lt a b = true -> tkey_lt b c = true -> tkey_lt a c = true.
Proof.
  rewrite !tkey_lt_spec. intros [H1|[H1 H1']] [H2|[H2 H2']].
  - left; lia.
  - left; lia.
  - left; lia.
  - right. split; [lia|]. eapply str_ltb_trans; eauto.
Qed.

Lemma tkey_lt_total a b : tkey_lt a b = false -> tkey_lt b a = false -> keq a b.
Proof.
  intros H1 H2.
  assert (N1 : ~ (ev_ts b < ev_ts a \/ (ev_ts b = ev_ts a /\ str_ltb (ev_id b) (ev_id a) = true))).
  { intro H. apply tkey_lt_spec in H. congruence. }
  assert (N2 : ~ (ev_ts a < ev_ts b \/ (ev_ts a = ev_ts b /\ str_ltb (ev_id a) (ev_id b) = true))).
  { intro H. apply tkey_lt_spec in H. congruence. }
  assert (Ets : ev_ts a = ev_ts b) by lia.
  split; [exact Ets|].
  apply str_ltb_total.
  - destruct (str_ltb (ev_id a) (ev_id b)) eqn:E; [|reflexivity]. exfalso. apply N2. right. split; auto.
  - destruct (str_ltb (ev_id b) (ev_id a)) eqn:E; [|reflexivity]. exfalso. apply N1. right. split; [lia|auto].
Qed.

(** the tree order refines non-increasing created_at *)
Lemma tkey_lt_ts a b : tkey_lt a b = true -> ev_ts b <= ev_ts a.
Proof. rewrite tkey_lt_spec. lia. Qed.

Lemma tkey_order a b c :
  tkey_lt a a = false /\
  (tkey_lt a b = true -> tkey_lt b c = true -> tkey_lt a c = true) /\
  (tkey_lt a b = false -> tkey_lt b a = false -> ev_ts a = ev_ts b /\ ev_id a = ev_id b) /\
  (tkey_lt a b = true -> ev_ts b <= ev_ts a).
Proof.
  split; [apply tkey_lt_irrefl|]. split; [apply tkey_lt_trans|].
  split; [apply tkey_lt_total | apply tkey_lt_ts].
Qed.

Lemma tkey_lt_keq_l a a' b : keq a a' -> tkey_lt a b = tkey_lt a' b.
Proof. unfold tkey_lt. intros [-> ->]. reflexivity. Qed.

Lemma tkey_lt_keq_r a b b' : keq b b' -> tkey_lt a b = tkey_lt a b'.
Proof. unfold tkey_lt. intros [-> ->]. reflexivity. Qed.

Lemma tkey_eq_spec a b : tkey_eq a b = true <-> keq a b.
Proof.
  unfold tkey_eq. rewrite andb_true_iff, !negb_true_iff. split.
  - intros [H1 H2]. now apply tkey_lt_total.
  - intro K. split.
    + rewrite (tkey_lt_keq_l a b b K). apply tkey_lt_irrefl.
    + rewrite (tkey_lt_keq_r b a b K). apply tkey_lt_irrefl.
Qed.

Lemma tkey_not_lt_not_eq a b : tkey_lt a b = false -> tkey_eq a b = false -> tkey_lt b a = true.
Proof.
  unfold tkey_eq. intros H1 H2. rewrite H1 in H2. simpl in H2.
  now apply negb_false_iff in H2.
Qed.

(* ------------------------------------------------------------------ *)
(** * Sorted lists are canonical forms of sets *)

Definition tlt (a b : event) : Prop := tkey_lt a b = true.
Definition tsorted (l : list event) : Prop := StronglySorted tlt l.

Lemma tsorted_inv a l : tsorted (a :: l) -> tsorted l /\ Forall (tlt a) l.
Proof. apply StronglySorted_inv. Qed.

Lemma tsorted_cons a l : tsorted l -> (forall x, In x l -> tlt a x) -> tsorted (a :: l).
Proof. intros S H. apply SSorted_cons; [exact S|]. now apply Forall_forall. Qed.

Lemma tsorted_head_lt a l x : tsorted (a :: l) -> In x l -> tkey_lt a x = true.
Proof.
  intros S Hin. apply tsorted_inv in S as [_ F].
  rewrite Forall_forall in F. now apply F.
Qed.

Lemma tsorted_not_in_tail a l : tsorted (a :: l) -> ~ In a l.
Proof.
  intros S Hin. pose proof (tsorted_head_lt a l a S Hin) as H.
  rewrite tkey_lt_irrefl in H. discriminate.
Qed.

Lemma tsorted_NoDup l : tsorted l -> NoDup l.
Proof.
  induction l as [|a l IH]; intro S; [constructor|].
  constructor; [now apply tsorted_not_in_tail | apply IH; now apply tsorted_inv in S].
Qed.

(** two sorted lists with the same elements are the same list *)
Lemma tsorted_ext : forall l1 l2,
  tsorted l1 -> tsorted l2 -> (forall x, In x l1 <-> In x l2) -> l1 = l2.
Proof.
  induction l1 as [|a r1 IH]; intros l2 S1 S2 E.
  - destruct l2 as [|b r2]; [reflexivity|]. exfalso. apply (E b). now left.
  - destruct l2 as [|b r2]; [exfalso; apply (E a); now left|].
    assert (Eab : a = b).
    { destruct (proj1 (E a) (or_introl eq_refl)) as [Hb|Ha]; [now subst|].
      destruct (proj2 (E b) (or_introl eq_refl)) as [Hb'|Hb']; [assumption|].
      pose proof (tsorted_head_lt _ _ _ S2 Ha) as L1.
      pose proof (tsorted_head_lt _ _ _ S1 Hb') as L2.
      pose proof (tkey_lt_trans _ _ _ L1 L2) as L3.
      rewrite tkey_lt_irrefl in L3. discriminate. }
    subst b. f_equal. apply IH.
    + now apply tsorted_inv in S1.
    + now apply tsorted_inv in S2.
    + intro x. split; intro Hx.
      * destruct (proj1 (E x) (or_intror Hx)) as [Hxa|Hx']; [|assumption].
        subst x. exfalso. now apply (tsorted_not_in_tail a r1).
      * destruct (proj2 (E x) (or_intror Hx)) as [Hxa|Hx']; [|assumption].
        subst x. exfalso. now apply (tsorted_not_in_tail a r2).
Qed.

Lemma tsorted_filter p l : tsorted l -> tsorted (filter p l).
Proof.
  induction l as [|a l IH]; intro S; simpl; [constructor|].
  pose proof (tsorted_inv _ _ S) as [S' F].
  destruct (p a); [|now apply IH].
  apply tsorted_cons; [now apply IH|].
  intros x Hx. apply filter_In in Hx as [Hx _].
  rewrite Forall_forall in F. now apply F.
Qed.

Lemma firstn_incl {A} n : forall (l : list A) x, In x (firstn n l) -> In x l.
Proof.
  induction n as [|n IH]; intros [|a l] x; simpl; try tauto.
  intros [H|H]; [now left | right; now apply IH].
Qed.

Lemma skipn_incl {A} n : forall (l : list A) x, In x (skipn n l) -> In x l.
Proof.
  induction n as [|n IH]; intros [|a l] x; simpl; try tauto.
  intro H. right. now apply IH.
Qed.

Lemma tsorted_firstn n : forall l, tsorted l -> tsorted (firstn n l).
Proof.
  induction n as [|n IH]; intros l S; simpl; [constructor|].
  destruct l as [|a l]; [constructor|].
  pose proof (tsorted_inv _ _ S) as [S' F].
  apply tsorted_cons; [now apply IH|].
  intros x Hx. apply firstn_incl in Hx. rewrite Forall_forall in F. now apply F.
Qed.

(** elements before a cut are above elements after it *)
Lemma tsorted_app_inv l1 : forall l2,
  tsorted (l1 ++ l2) -> tsorted l1 /\ tsorted l2 /\ (forall a b, In a l1 -> In b l2 -> tlt a b).
Proof.
  induction l1 as [|x l1 IH]; intros l2 S; simpl in *.
  - split; [constructor|]. split; [assumption|]. intros a b [].
  - pose proof (tsorted_inv _ _ S) as [S' F].
    destruct (IH l2 S') as [S1 [S2 C]].
    rewrite Forall_forall in F.
    split; [|split].
    + apply tsorted_cons; [assumption|]. intros y Hy. apply F. apply in_or_app. now left.
    + assumption.
    + intros a b [<-|Ha] Hb.
      * apply F. apply in_or_app. now right.
      * now apply C.
Qed.

(** pairwise distinct (created_at, id) keys: two events of the list with the
    same tree key are the same event.  Functional ids give this. *)
Definition keys_functional (l : list event) : Prop :=
  forall a b, In a l -> In b l -> keq a b -> a = b.

Lemma idsf_keq l a b : ids_functional l -> In a l -> In b l -> keq a b -> a = b.
Proof. intros F Ha Hb [_ E]. now apply F. Qed.

Lemma idsf_keyf l : ids_functional l -> keys_functional l.
Proof. intros F a b. now apply idsf_keq. Qed.

Lemma keyf_incl l l' : keys_functional l -> incl l' l -> keys_functional l'.
Proof. intros F I a b Ha Hb. apply F; now apply I. Qed.

Lemma idsf_incl l l' : ids_functional l -> incl l' l -> ids_functional l'.
Proof. intros F I a b Ha Hb. apply F; now apply I. Qed.

(* ------------------------------------------------------------------ *)
(** * [tree_set]: an order-preserving set insertion *)

Lemma tree_set_In_sub e : forall t y, In y (tree_set e t) -> y = e \/ In y t.
Proof.
  induction t as [|x t IH]; intros y; simpl.
  - intros [H|[]]. now left.
  - destruct (tkey_lt e x).
    + intros [H|H]; [now left | now right].
    + destruct (tkey_eq e x).
      * intros [H|H]; [now left | right; now right].
      * intros [H|H]; [right; now left|].
        destruct (IH y H) as [H'|H']; [now left | right; now right].
Qed.

Lemma tree_set_In e : forall t,
  (forall x, In x t -> keq e x -> x = e) ->
  forall y, In y (tree_set e t) <-> y = e \/ In y t.
Proof.
  induction t as [|x t IH]; intros Hk y; simpl.
  - intuition.
  - destruct (tkey_lt e x) eqn:L.
    + simpl. intuition.
    + destruct (tkey_eq e x) eqn:Q.
      * apply tkey_eq_spec in Q. assert (x = e) by (apply Hk; [now left | assumption]).
        subst x. simpl. intuition.
      * simpl. rewrite IH.
        -- intuition.
        -- intros z Hz. apply Hk. now right.
Qed.

Lemma tree_set_sorted e : forall t, tsorted t -> tsorted (tree_set e t).
Proof.
  induction t as [|x t IH]; intro S; simpl.
  - apply tsorted_cons; [constructor | intros y []].
  - pose proof (tsorted_inv _ _ S) as [S' F]. rewrite Forall_forall in F.
    destruct (tkey_lt e x) eqn:L.
    + apply tsorted_cons; [assumption|].
      intros y [<-|Hy]; [exact L|]. eapply tkey_lt_trans; [exact L | now apply F].
    + destruct (tkey_eq e x) eqn:Q.
      * apply tkey_eq_spec in Q. apply tsorted_cons; [assumption|].
        intros y Hy. unfold tlt. rewrite (tkey_lt_keq_l e x y Q). now apply F.
      * apply tsorted_cons; [now apply IH|].
        intros y Hy. apply tree_set_In_sub in Hy as [->|Hy].
        -- now apply tkey_not_lt_not_eq.
        -- now apply F.
Qed.

(** a new key makes the list one longer *)
Lemma tree_set_length_new e : forall t,
  (forall x, In x t -> ~ keq e x) -> length (tree_set e t) = S (length t).
Proof.
  induction t as [|x t IH]; intro Hn; simpl; [reflexivity|].
  destruct (tkey_lt e x); [reflexivity|].
  destruct (tkey_eq e x) eqn:Q.
  - apply tkey_eq_spec in Q. exfalso. apply (Hn x); [now left | assumption].
  - simpl. f_equal. apply IH. intros z Hz. apply Hn. now right.
Qed.

(** cutting after [n] elements commutes with insertion *)
Lemma firstn_cons_firstn {A} n (y : A) r : firstn n (y :: firstn n r) = firstn n (y :: r).
Proof.
  destruct n as [|k]; [reflexivity|].
  rewrite !firstn_cons. f_equal. rewrite firstn_firstn. f_equal. lia.
Qed.

Lemma firstn_tree_set x : forall n F,
  firstn n (tree_set x F) = firstn n (tree_set x (firstn n F)).
Proof.
  induction n as [|n IH]; intro F; [reflexivity|].
  destruct F as [|y r]; [reflexivity|].
  rewrite (firstn_cons n y r). cbn [tree_set].
  destruct (tkey_lt x y).
  - rewrite !firstn_cons. f_equal. symmetry. apply firstn_cons_firstn.
  - destruct (tkey_eq x y).
    + rewrite !firstn_cons. f_equal. rewrite firstn_firstn. f_equal. lia.
    + rewrite !firstn_cons. f_equal. apply IH.
Qed.

(** folding insertions *)
Definition fold_tset (l acc : list event) : list event :=
  fold_left (fun a x => tree_set x a) l acc.

Lemma fold_tset_sorted : forall l acc, tsorted acc -> tsorted (fold_tset l acc).
Proof.
  induction l as [|x l IH]; intros acc S; simpl; [assumption|].
  apply IH. now apply tree_set_sorted.
Qed.

Lemma fold_tset_In U : keys_functional U -> forall l acc,
  incl l U -> incl acc U ->
  forall y, In y (fold_tset l acc) <-> In y l \/ In y acc.
Proof.
  intros FU. induction l as [|x l IH]; intros acc Il Ia y; simpl.
  - intuition.
  - assert (Hx : In x U) by (apply Il; now left).
    assert (Hk : forall z, In z acc -> keq x z -> z = x).
    { intros z Hz K. symmetry. apply (FU x z); auto. }
    rewrite IH.
    + rewrite (tree_set_In x acc Hk). intuition.
    + intros z Hz. apply Il. now right.
    + intros z Hz. apply tree_set_In_sub in Hz as [->|Hz]; auto.
Qed.

(** the result of inserting any list into a sorted accumulator is the
    sorted form of the union — independent of the insertion order *)
Lemma fold_tset_filter T : tsorted T -> keys_functional T -> forall l acc,
  incl l T -> incl acc T -> tsorted acc ->
  fold_tset l acc = filter (fun x => eset_mem x l || eset_mem x acc) T.
Proof.
  intros ST FT l acc Il Ia Sa. apply tsorted_ext.
  - now apply fold_tset_sorted.
  - now apply tsorted_filter.
  - intro y. rewrite (fold_tset_In T FT l acc Il Ia), filter_In, orb_true_iff.
    unfold eset_mem. rewrite !existsb_exists. split.
    + intros [H|H]; (split; [auto|]); [left|right]; exists y; (split; [assumption | now apply event_eqb_eq]).
    + intros [_ [[z [Hz E]]|[z [Hz E]]]]; apply event_eqb_eq in E; subst z; auto.
Qed.

Lemma eset_mem_In x s : eset_mem x s = true <-> In x s.
Proof.
  unfold eset_mem. rewrite existsb_exists. split.
  - intros [z [Hz E]]. apply event_eqb_eq in E. now subst.
  - intro H. exists x. split; [assumption | now apply event_eqb_eq].
Qed.

Lemma eset_mem_false x s : eset_mem x s = false <-> ~ In x s.
Proof.
  rewrite <- eset_mem_In. destruct (eset_mem x s); split; intro H; congruence.
Qed.

Lemma fold_tset_sorted_id l : tsorted l -> keys_functional l -> fold_tset l [] = l.
Proof.
  intros S F. apply tsorted_ext.
  - apply fold_tset_sorted. constructor.
  - assumption.
  - intro y. rewrite (fold_tset_In l F l []); [simpl; tauto | apply incl_refl | intros z []].
Qed.

Lemma fold_tset_perm U l l' acc :
  keys_functional U -> incl l U -> incl acc U -> tsorted acc -> Permutation l l' ->
  fold_tset l acc = fold_tset l' acc.
Proof.
  intros FU Il Ia Sa P.
  assert (Il' : incl l' U).
  { intros z Hz. apply Il. eapply Permutation_in; [apply Permutation_sym; exact P | exact Hz]. }
  apply tsorted_ext; try (now apply fold_tset_sorted).
  intro y. rewrite (fold_tset_In U FU l acc Il Ia), (fold_tset_In U FU l' acc Il' Ia).
  split; (intros [H|H]; [left|now right]).
  - eapply Permutation_in; eauto.
  - eapply Permutation_in; [apply Permutation_sym; exact P | exact H].
Qed.

Lemma tree_set_comm a b t :
  keys_functional (a :: b :: t) -> tsorted t ->
  tree_set a (tree_set b t) = tree_set b (tree_set a t).
Proof.
  intros F S.
  change (fold_tset [b; a] t = fold_tset [a; b] t).
  apply (fold_tset_perm (a :: b :: t)); auto.
  - intros z [<-|[<-|[]]]; simpl; auto.
  - intros z Hz. now do 2 right.
  - apply perm_swap.
Qed.

(* ------------------------------------------------------------------ *)
(** * Matching with a filter that has no tag condition never panics
      (this is the only way the cache calls [Match]) *)

Lemma match_impl_notags e f : f_tags f = None -> match_impl e f = Ok (match_specb e f).
Proof.
  intro Ht. unfold match_impl, match_specb, tags_part.
  rewrite g_ids_reject_spec, g_kinds_reject_spec, g_authors_reject_spec, !reject_clause.
  rewrite Ht, since_clause, until_clause. cbn [opt_holdsb].
  destruct (opt_holdsb (f_ids f) (mem_str (ev_id e))); cbn [negb andb]; [|reflexivity].
  destruct (opt_holdsb (f_kinds f) (mem_Z (ev_kind e))); cbn [negb andb].
  2: { destruct (opt_holdsb (f_authors f) (mem_str (ev_pk e))); reflexivity. }
  destruct (opt_holdsb (f_authors f) (mem_str (ev_pk e))); cbn [negb andb]; [|reflexivity].
  destruct (opt_holdsb (f_since f) (fun s => s <=? ev_ts e)); cbn [negb andb]; [|reflexivity].
  destruct (opt_holdsb (f_until f) (fun u => ev_ts e <=? u)); reflexivity.
Qed.

(* ------------------------------------------------------------------ *)
(** * The ordered scan *)

Lemma lm_done_mk f c :
  lm_done (mkLM f c) = match f_limit f with Some L => L <=? c | None => false end.
Proof. unfold lm_done. cbn [lm_f lm_cnt]. rewrite g_done_spec. destruct (f_limit f); reflexivity. Qed.

Lemma lm_limit_match_mk f c x b : match_impl x f = Ok b ->
  lm_limit_match (mkLM f c) x = Ok (if b then mkLM f (c + 1) else mkLM f c, b).
Proof. intro H. unfold lm_limit_match. cbn [lm_f lm_cnt]. rewrite H. destruct b; reflexivity. Qed.

(** what a limit leaves of a list when [c] have been taken already *)
Definition lim_take (lim : option Z) (c : Z) (l : list event) : list event :=
  match lim with None => l | Some L => firstn (Z.to_nat (L - c)) l end.

Lemma fold_tset_cons x l acc : fold_tset (x :: l) acc = fold_tset l (tree_set x acc).
Proof. reflexivity. Qed.

(** the scan inserts exactly the first [limit] matching elements *)
Lemma scan_loop_spec f : forall t,
  (forall x, In x t -> match_impl x f = Ok (match_specb x f)) ->
  forall c acc, scan_loop t (mkLM f c) acc =
    Ok (fold_tset (lim_take (f_limit f) c (filter (fun x => match_specb x f) t)) acc).
Proof.
  induction t as [|x t IH]; intros Hm c acc.
  - cbn [scan_loop filter]. unfold lim_take. destruct (f_limit f); [rewrite firstn_nil|]; reflexivity.
  - assert (Hm' : forall y, In y t -> match_impl y f = Ok (match_specb y f)).
    { intros y Hy. apply Hm. now right. }
    cbn [scan_loop]. rewrite lm_done_mk.
    rewrite (lm_limit_match_mk f c x _ (Hm x (or_introl eq_refl))).
    cbn [filter].
    destruct (f_limit f) as [L|] eqn:EL.
    + destruct (L <=? c) eqn:D.
      * apply Z.leb_le in D. unfold lim_take.
        replace (Z.to_nat (L - c)) with 0%nat by lia. reflexivity.
      * apply Z.leb_gt in D. destruct (match_specb x f) eqn:M.
        -- rewrite (IH Hm'); rewrite ?EL. unfold lim_take.
           replace (Z.to_nat (L - c)) with (S (Z.to_nat (L - (c + 1)))) by lia.
           reflexivity.
        -- rewrite (IH Hm'); rewrite ?EL. reflexivity.
    + destruct (match_specb x f); rewrite (IH Hm'); rewrite ?EL; reflexivity.
Qed.

(* ------------------------------------------------------------------ *)
(** * Event sets (Go: map[*Event]bool) *)

Lemma eset_add_In e s x : In x (eset_add e s) <-> x = e \/ In x s.
Proof.
  unfold eset_add. destruct (eset_mem e s) eqn:M.
  - apply eset_mem_In in M. split; [now right | intros [->|H]; assumption].
  - rewrite in_app_iff. simpl. intuition.
Qed.

Lemma eset_add_NoDup e s : NoDup s -> NoDup (eset_add e s).
Proof.
  intro N. unfold eset_add. destruct (eset_mem e s) eqn:M; [assumption|].
  apply eset_mem_false in M.
  apply (Permutation_NoDup (Permutation_cons_append s e)). now constructor.
Qed.

Lemma eset_union_In : forall b a x, In x (eset_union a b) <-> In x a \/ In x b.
Proof.
  unfold eset_union. induction b as [|y b IH]; intros a x; simpl.
  - tauto.
  - rewrite IH, eset_add_In. intuition.
Qed.

Lemma eset_union_NoDup : forall b a, NoDup a -> NoDup (eset_union a b).
Proof.
  unfold eset_union. induction b as [|y b IH]; intros a N; simpl; [assumption|].
  apply IH. now apply eset_add_NoDup.
Qed.

Lemma eset_inter_In a b x : In x (eset_inter a b) <-> In x a /\ In x b.
Proof. unfold eset_inter. now rewrite filter_In, eset_mem_In. Qed.

Lemma eset_inter_NoDup a b : NoDup a -> NoDup (eset_inter a b).
Proof. apply NoDup_filter. Qed.

(** successive intersection *)
Lemma fold_inter_In : forall l m x,
  In x (fold_left eset_inter l m) <-> In x m /\ forall s, In s l -> In x s.
Proof.
  induction l as [|a l IH]; intros m x; simpl.
  - intuition.
  - rewrite IH, eset_inter_In. split.
    + intros [[Hm Ha] Hl]. split; [assumption|]. intros s [<-|Hs]; auto.
    + intros [Hm Hl]. split; [split|]; auto.
Qed.

Lemma fold_inter_NoDup : forall l m, NoDup m -> NoDup (fold_left eset_inter l m).
Proof.
  induction l as [|a l IH]; intros m N; simpl; [assumption|].
  apply IH. now apply eset_inter_NoDup.
Qed.

Lemma inter_all_spec l c : inter_all l = Some c ->
  forall x, In x c <-> forall s, In s l -> In x s.
Proof.
  destruct l as [|m rest]; simpl; [discriminate|].
  intros E x. inversion E; subst c; clear E.
  rewrite fold_inter_In. split.
  - intros [Hm Hr] s [<-|Hs]; [assumption|]. apply Hr. now apply -> in_rev.
  - intro H. split; [apply H; now left|]. intros s Hs. apply H. right. now apply in_rev.
Qed.

Lemma inter_all_NoDup l c : inter_all l = Some c -> (forall s, In s l -> NoDup s) -> NoDup c.
Proof.
  destruct l as [|m rest]; simpl; [discriminate|].
  intros E N. inversion E; subst c. apply fold_inter_NoDup. apply N. now left.
Qed.

Lemma inter_all_none l : inter_all l = None -> l = [].
Proof. destruct l; simpl; [reflexivity | discriminate]. Qed.

(** the intersection does not depend on the order in which the condition
    sets are taken *)
Lemma inter_all_perm l l' c c' :
  Permutation l l' -> inter_all l = Some c -> inter_all l' = Some c' ->
  forall x, In x c <-> In x c'.
Proof.
  intros P E E' x. rewrite (inter_all_spec l c E), (inter_all_spec l' c' E').
  split; intros H s Hs; apply H.
  - eapply Permutation_in; [apply Permutation_sym; exact P | exact Hs].
  - eapply Permutation_in; eauto.
Qed.

(** sorting by size only permutes *)
Lemma insert_by_len_perm s : forall l, Permutation (insert_by_len s l) (s :: l).
Proof.
  induction l as [|x l IH]; simpl; [apply Permutation_refl|].
  destruct (Nat.leb (length s) (length x)); [apply Permutation_refl|].
  eapply perm_trans; [apply perm_skip; exact IH | apply perm_swap].
Qed.

Lemma sort_by_len_perm : forall l, Permutation (sort_by_len l) l.
Proof.
  induction l as [|a l IH]; simpl; [constructor|].
  eapply perm_trans; [apply insert_by_len_perm | now apply perm_skip].
Qed.

(* ------------------------------------------------------------------ *)
(** * Bounded insertion: any enumeration order of the candidates yields the
      top-[limit] of those passing the matcher *)

Lemma bounded_insert_spec T m limit :
  tsorted T -> keys_functional T ->
  (forall x, In x T -> match_impl x m = Ok (match_specb x m)) ->
  forall cands P acc cnt,
    NoDup cands -> incl cands T -> (forall x, In x cands -> P x = false) ->
    acc = firstn (Z.to_nat limit) (filter (fun y => P y && match_specb y m) T) ->
    cnt = Z.of_nat (length acc) ->
    bounded_insert cands m limit acc cnt =
      Ok (firstn (Z.to_nat limit)
                 (filter (fun y => (P y || eset_mem y cands) && match_specb y m) T)).
Proof.
  intros ST FT Hm. induction cands as [|x rest IH]; intros P acc cnt ND Inc HP Hacc Hcnt.
  - cbn [bounded_insert]. subst acc. do 2 f_equal. apply filter_ext. intro y.
    cbn. now rewrite orb_false_r.
  - subst cnt. assert (HxT : In x T) by (apply Inc; now left).
    apply NoDup_cons_iff in ND as [Hxr ND'].
    set (L := Z.to_nat limit).
    set (P' := fun y => P y || event_eqb y x).
    assert (Hfin : filter (fun y => (P' y || eset_mem y rest) && match_specb y m) T =
                   filter (fun y => (P y || eset_mem y (x :: rest)) && match_specb y m) T).
    { apply filter_ext. intro y. unfold P'. cbn [eset_mem existsb]. now rewrite orb_assoc. }
    assert (Inc' : incl rest T) by (intros z Hz; apply Inc; now right).
    assert (HP' : forall z, In z rest -> P' z = false).
    { intros z Hz. unfold P'. rewrite (HP z (or_intror Hz)). simpl.
      destruct (event_eqb z x) eqn:E; [|reflexivity].
      apply event_eqb_eq in E. subst z. contradiction. }
    cbn [bounded_insert]. rewrite (Hm x HxT).
    destruct (match_specb x m) eqn:Mx.
    + set (F := filter (fun y => P y && match_specb y m) T).
      set (F' := filter (fun y => P' y && match_specb y m) T).
      assert (HxF : ~ In x F).
      { unfold F. rewrite filter_In. intros [_ H]. rewrite (HP x (or_introl eq_refl)) in H. discriminate. }
      assert (HkF : forall z, In z F -> keq x z -> z = x).
      { intros z Hz K. apply filter_In in Hz as [Hz _]. symmetry. now apply (FT x z). }
      assert (HF' : F' = tree_set x F).
      { apply tsorted_ext.
        - now apply tsorted_filter.
        - apply tree_set_sorted. now apply tsorted_filter.
        - intro y. rewrite (tree_set_In x F HkF). unfold F', F, P'.
          rewrite !filter_In, !andb_true_iff, orb_true_iff, event_eqb_eq. split.
          + intros [Hy [[Hp| ->] Hmy]]; [right|left]; auto.
          + intros [->|[Hy [Hp Hmy]]]; auto. }
      assert (Hsub : forall z, In z acc -> In z F).
      { intros z Hz. rewrite Hacc in Hz. now apply firstn_incl in Hz. }
      assert (Hlen : length (tree_set x acc) = S (length acc)).
      { apply tree_set_length_new. intros z Hz K. apply HxF.
        rewrite <- (HkF z (Hsub z Hz) K). now apply Hsub. }
      assert (Hcut : firstn L (tree_set x acc) = firstn L F').
      { rewrite Hacc, HF'. symmetry. apply firstn_tree_set. }
      assert (Hle : (length acc <= L)%nat).
      { rewrite Hacc. apply firstn_le_length. }
      destruct (g_index_over_limit (Z.of_nat (length acc) + 1) limit) eqn:G.
      * apply g_index_over_limit_spec in G.
        assert (HL : length acc = L) by (unfold L in *; lia).
        rewrite (IH P' (removelast (tree_set x acc)) (Z.of_nat (length acc) + 1 - 1) ND' Inc' HP').
        -- now rewrite Hfin.
        -- rewrite removelast_firstn_len, Hlen. cbn [pred]. rewrite HL. exact Hcut.
        -- rewrite removelast_firstn_len, Hlen. cbn [pred]. rewrite firstn_length, Hlen. lia.
      * assert (G' : ~ limit < Z.of_nat (length acc) + 1).
        { intro C. apply g_index_over_limit_spec in C. congruence. }
        rewrite (IH P' (tree_set x acc) (Z.of_nat (length acc) + 1) ND' Inc' HP').
        -- now rewrite Hfin.
        -- change (tree_set x acc = firstn L F'). rewrite <- Hcut. symmetry. apply firstn_all2. rewrite Hlen. unfold L. lia.
        -- rewrite Hlen. lia.
    + rewrite (IH P' acc (Z.of_nat (length acc)) ND' Inc' HP').
      * now rewrite Hfin.
      * rewrite Hacc. f_equal. apply filter_ext_in. intros y Hy. unfold P'.
        destruct (event_eqb y x) eqn:E.
        -- apply event_eqb_eq in E. subst y. rewrite Mx. now rewrite !andb_false_r.
        -- now rewrite orb_false_r.
      * reflexivity.
Qed.
