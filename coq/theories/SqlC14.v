(* SqlC14.v — C14: batches are idempotent (re-inserting a batch is a no-op on
   the tables), a rolled-back batch followed by a retry equals one clean
   insertion, and closing / reopening the database changes nothing because
   the hash seed is re-read, not regenerated.
   Atomicity itself is SQLite's: [insert_batch_faulty] returns the old state
   by construction (assumption-carrying, named in the trusted base). *)
From Moc Require Import Base Match Sql SqlSpec SqlLemmas SqlInv SqlAbs.
From Moc.Gen Require Import GenMsg GenSql.
Open Scope Z_scope.

(* ------------------------------------------------------------------ *)
(** * idempotence *)

(** an event [e] with key [k] is dominated in [s]: the row of its key is of a
    kind that is never replaced, or is at least as new *)
Definition dominated (s : db) (k : ekey) (e : event) : Prop :=
  exists r, In r (d_events s) /\ r_key r = k /\
            (sql_kind_replaceable (r_kind r) = false \/ ev_ts e <= r_ts r).

Lemma dominated_noop seed s k e :
  NoDup (List.map r_key (d_events s)) -> dominated s k e -> fst (insert_event seed s (k, e)) = s.
Proof.
  intros ND [r [Hr [Kr D]]]. apply insert_event_unaffected; [|assumption].
  pose proof (upsert_spec (d_events s) (row_of k e) ND) as U.
  destruct (upsert (d_events s) (row_of k e)) as [evs u]. simpl.
  destruct u as [|old|]; [| |reflexivity].
  - destruct U as [Hf _]. exfalso. apply (Hf r Hr). simpl. assumption.
  - destruct U as [Ho [Ko [Gd _]]]. simpl in Ko.
    assert (old = r).
    { apply (NoDup_map_filter r_key (fun _ => true)) in ND.
      clear - ND Ho Hr Ko Kr. revert Ho Hr. generalize (d_events s) ND. intros l NDl.
      induction l as [|a l IH]; simpl in *; [intros []|].
      inversion NDl as [|? ? Hn NDl']; subst.
      intros [<- |Ho] [<- |Hr]; auto.
      - exfalso. apply Hn. apply in_map_iff. exists r. split; [congruence|].
        apply filter_In. auto.
      - exfalso. apply Hn. apply in_map_iff. exists old. split; [congruence|].
        apply filter_In. auto. }
    subst old. unfold upsert_guard in Gd. simpl in Gd.
    apply andb_true_iff in Gd. destruct Gd as [Gd Gt]. apply andb_true_iff in Gd. destruct Gd as [_ Gk].
    apply Z.ltb_lt in Gt. destruct D as [D|D]; [congruence | lia].
Qed.

(** once dominated, always dominated *)
Lemma dominated_preserved seed s k e k' e' :
  NoDup (List.map r_key (d_events s)) -> dominated s k e -> dominated (fst (insert_event seed s (k', e'))) k e.
Proof.
  intros ND [r [Hr [Kr D]]].
  pose proof (upsert_spec (d_events s) (row_of k' e') ND) as U.
  unfold insert_event. destruct (upsert (d_events s) (row_of k' e')) as [evs u].
  destruct u as [|old|].
  - destruct U as [_ ->]. simpl. exists r. split; [apply in_app_iff; now left | auto].
  - destruct U as [Ho [Ko [Gd [_ Hin]]]]. simpl in Ko. simpl.
    destruct (ekey_dec k k') as [<- |Nk].
    + exists (row_of k e'). split; [apply Hin; now right|]. split; [reflexivity|].
      assert (old = r).
      { assert (E : r_key old = r_key r) by congruence.
        clear - ND Ho Hr E. induction (d_events s) as [|a l IH]; simpl in *; [destruct Ho|].
        inversion ND as [|? ? Hn ND']; subst.
        destruct Ho as [<- |Ho]; destruct Hr as [<- |Hr]; auto.
        - exfalso. apply Hn. rewrite E. now apply in_map.
        - exfalso. apply Hn. rewrite <- E. now apply in_map. }
      subst old. unfold upsert_guard in Gd. simpl in Gd.
      apply andb_true_iff in Gd. destruct Gd as [Gd Gt]. apply andb_true_iff in Gd. destruct Gd as [_ Gk].
      apply Z.ltb_lt in Gt. simpl. destruct D as [D|D]; [congruence | right; lia].
    + exists r. split; [|auto]. apply Hin. left. split; [assumption|]. simpl. congruence.
  - destruct U as [-> _]. simpl. exists r. auto.
Qed.

(** ids determine timestamps among the rows of [s] and the events of the
    batch (what functional ids give) *)
Definition id_ts_compat (s : db) (b : list event) : Prop :=
  (forall r e, In r (d_events s) -> In e b -> r_id r = hexl (ev_id e) -> ev_ts e <= r_ts r) /\
  (forall e e', In e b -> In e' b -> hexl (ev_id e) = hexl (ev_id e') -> ev_ts e = ev_ts e').

(** after its own insertion an event is dominated *)
Lemma dominated_after_insert seed s k e :
  NoDup (List.map r_key (d_events s)) ->
  (forall r, In r (d_events s) -> r_id r = hexl (ev_id e) -> ev_ts e <= r_ts r) ->
  dominated (fst (insert_event seed s (k, e))) k e.
Proof.
  intros ND Hid.
  pose proof (upsert_spec (d_events s) (row_of k e) ND) as U.
  unfold insert_event. destruct (upsert (d_events s) (row_of k e)) as [evs u].
  destruct u as [|old|].
  - destruct U as [_ ->]. simpl. exists (row_of k e). split; [apply in_app_iff; right; now left|].
    split; [reflexivity|]. right. simpl. lia.
  - destruct U as [_ [_ [_ [_ Hin]]]]. simpl. exists (row_of k e). split; [apply Hin; now right|].
    split; [reflexivity|]. right. simpl. lia.
  - destruct U as [-> [old [Ho [Ko Gd]]]]. simpl. exists old. split; [assumption|]. split; [assumption|].
    unfold upsert_guard in Gd. simpl in Gd.
    destruct (str_eqb (r_id old) (hexl (ev_id e))) eqn:E1; simpl in Gd.
    + apply str_eqb_eq in E1. right. now apply Hid.
    + destruct (sql_kind_replaceable (r_kind old)); simpl in Gd; [|now left].
      right. apply Z.ltb_ge in Gd. lia.
Qed.

Definition step seed (s : db) (ke : ekey * event) : db := fst (insert_event seed s ke).

Lemma fold_dominated seed ps : forall s k e,
  Inv s -> (forall k' e', In (k', e') ps -> class_ok k' e') -> dominated s k e ->
  dominated (fold_left (step seed) ps s) k e.
Proof.
  induction ps as [|[k' e'] ps IH]; intros s k e I C D; simpl; [assumption|].
  apply IH.
  - apply insert_event_inv; [assumption | apply C; now left].
  - intros k0 e0 H. apply C. now right.
  - apply dominated_preserved; [apply (inv_keys s I) | assumption].
Qed.

(** rows of a state reached from [s] by inserting events of [b] *)
Definition rows_from (s0 : db) (b : list event) (s : db) : Prop :=
  forall r, In r (d_events s) -> In r (d_events s0) \/ exists k e, In e b /\ r = row_of k e.

Lemma rows_from_step seed s0 b s k e : In e b -> NoDup (List.map r_key (d_events s)) ->
  rows_from s0 b s -> rows_from s0 b (fst (insert_event seed s (k, e))).
Proof.
  intros He ND R r Hr.
  pose proof (upsert_spec (d_events s) (row_of k e) ND) as U.
  unfold insert_event in Hr. destruct (upsert (d_events s) (row_of k e)) as [evs u].
  destruct u as [|old|]; simpl in Hr.
  - destruct U as [_ ->]. apply in_app_iff in Hr. destruct Hr as [Hr|[<- |[]]]; [now apply R | right; eauto].
  - destruct U as [_ [_ [_ [_ Hin]]]]. apply Hin in Hr. destruct Hr as [[Hr _]| ->]; [now apply R | right; eauto].
  - destruct U as [-> _]. now apply R.
Qed.

Lemma all_dominated seed b s0 ps : forall s,
  Inv s -> id_ts_compat s0 b -> rows_from s0 b s ->
  (forall k e, In (k, e) ps -> class_ok k e /\ In e b) ->
  forall k e, In (k, e) ps -> dominated (fold_left (step seed) ps s) k e.
Proof.
  induction ps as [|[k1 e1] ps IH]; intros s I Cp R C k e Hin; [destruct Hin|].
  simpl. destruct (C k1 e1 (or_introl eq_refl)) as [C1 B1].
  assert (I1 : Inv (step seed s (k1, e1))) by now apply insert_event_inv.
  assert (R1 : rows_from s0 b (step seed s (k1, e1))).
  { apply rows_from_step; [assumption | apply (inv_keys s I) | assumption]. }
  destruct Hin as [E|Hin].
  - inversion E; subst k1 e1. apply fold_dominated; [assumption | intros k' e' H; apply C; now right |].
    apply dominated_after_insert; [apply (inv_keys s I)|].
    intros r Hr Eid. destruct Cp as [Cp1 Cp2]. destruct (R r Hr) as [H0|[k' [e' [He' ->]]]].
    + now apply (Cp1 r e).
    + simpl in *. rewrite (Cp2 e e' B1 He'); [lia | congruence].
  - apply IH; auto. intros k' e' H. apply C. now right.
Qed.

Lemma fold_noop seed ps : forall s,
  NoDup (List.map r_key (d_events s)) -> (forall k e, In (k, e) ps -> dominated s k e) ->
  fold_left (step seed) ps s = s.
Proof.
  induction ps as [|[k e] ps IH]; intros s ND D; simpl; [reflexivity|].
  unfold step at 2. rewrite (dominated_noop seed s k e ND); [|apply D; now left].
  apply IH; [assumption|]. intros k' e' H. apply D. now right.
Qed.

Lemma fold_step_inv seed ps : forall s,
  Inv s -> (forall k e, In (k, e) ps -> class_ok k e) -> Inv (fold_left (step seed) ps s).
Proof.
  induction ps as [|[k e] ps IH]; intros s I C; simpl; [assumption|].
  apply IH; [apply insert_event_inv; [assumption | apply C; now left]|]. intros k' e' H. apply C. now right.
Qed.

(** C14 batch_idempotent: inserting the same batch again changes no table *)
Theorem batch_idempotent seed s b :
  Inv s -> id_ts_compat s b -> insert_batch seed (insert_batch seed s b) b = insert_batch seed s b.
Proof.
  intros I Cp. unfold insert_batch.
  destruct (g_sql_no_params (zlen (filter_map (insert_params seed) b))) eqn:Z0; [reflexivity|].
  rewrite !insert_events_fst. set (ps := filter_map (insert_params seed) b).
  change (fun s0 ke => fst (insert_event seed s0 ke)) with (step seed).
  assert (C : forall k e, In (k, e) ps -> class_ok k e /\ In e b) by (intros k e H; now apply batch_params_class in H).
  apply fold_noop.
  - apply inv_keys. apply fold_step_inv; [assumption|]. intros k e H. now apply C.
  - intros k e H. apply (all_dominated seed b s ps s I Cp); auto. intros r Hr. now left.
Qed.

(* ------------------------------------------------------------------ *)
(** * faults *)

(** C14 atomic_by_tx: by construction of the model (SQLite's rollback is
    assumed, not proved): a fault at any driver call of the batch leaves the
    tables, hence every query answer, as before *)
Theorem atomic_by_tx seed s b k :
  (k < batch_calls seed s b)%nat -> insert_batch_faulty seed s b k = s.
Proof.
  intro H. unfold insert_batch_faulty. apply Nat.ltb_lt in H. now rewrite H.
Qed.

Theorem no_fault_is_insert seed s b k :
  (batch_calls seed s b <= k)%nat -> insert_batch_faulty seed s b k = insert_batch seed s b.
Proof.
  intro H. unfold insert_batch_faulty. apply Nat.ltb_ge in H. now rewrite H.
Qed.

(** C14 retry_after_fault: a failed batch followed by a retry is one clean
    insertion, wherever the fault was *)
Theorem retry_after_fault seed s b k :
  Inv s -> id_ts_compat s b ->
  insert_batch seed (insert_batch_faulty seed s b k) b = insert_batch seed s b.
Proof.
  intros I Cp. unfold insert_batch_faulty. destruct (k <? batch_calls seed s b)%nat; [reflexivity|].
  now apply batch_idempotent.
Qed.

(* ------------------------------------------------------------------ *)
(** * close / reopen *)

Definition opened (h : handle) : Prop := d_seed (h_db h) = Some (h_seed h).

Lemma open_db_opened d rnd : opened (open_db d rnd).
Proof.
  unfold opened, open_db. destruct (d_seed d) as [sd|] eqn:E; [simpl; assumption|].
  destruct (g_sql_seed_generate true) eqn:Gs; simpl; [reflexivity|].
  rewrite g_sql_seed_generate_spec in Gs. discriminate.
Qed.

(** C14 reopen_same_seed: the seed row is re-read; reopening is the identity
    on the handle, so every later key, query and insertion is the same *)
Theorem reopen_same_seed h rnd : opened h -> reopen h rnd = h.
Proof.
  unfold opened, reopen, close_db, open_db. intro O. rewrite O. now destruct h.
Qed.

Lemma h_insert_opened h b : opened h -> opened (h_insert h b).
Proof.
  unfold opened, h_insert. simpl. intro O. unfold insert_batch.
  destruct (g_sql_no_params _); [assumption|].
  rewrite insert_events_fst.
  assert (P : forall ps s, d_seed (fold_left (fun s ke => fst (insert_event (h_seed h) s ke)) ps s) = d_seed s).
  { induction ps as [|[k e] ps IH]; intro s; simpl; [reflexivity|]. rewrite IH.
    unfold insert_event. destruct (upsert (d_events s) (row_of k e)) as [evs u].
    destruct (g_sql_unaffected _); reflexivity. }
  now rewrite P.
Qed.

Theorem reopen_query h rnd fs ml : opened h ->
  query (h_db (reopen h rnd)) fs ml = query (h_db h) fs ml.
Proof. intro O. now rewrite reopen_same_seed. Qed.

(** C14 replace_across_reopen / delete_across_reopen: an insertion after the
    restart acts on the same rows as without the restart (it computes the same
    keys), so a newer version still replaces the stored one and a deletion
    request still hides its target (C06 applies to the concatenated history) *)
Theorem insert_across_reopen h rnd b : opened h -> h_insert (reopen h rnd) b = h_insert h b.
Proof. intro O. now rewrite reopen_same_seed. Qed.

Theorem replace_across_reopen h rnd v1 v2 a k :
  opened h -> address v1 = Some a -> address v2 = Some a ->
  get_event_key (h_seed h) v1 = Some k -> get_event_key (h_seed (reopen h rnd)) v2 = Some k.
Proof.
  intros O A1 A2 K. rewrite (reopen_same_seed h rnd O).
  rewrite <- K. symmetry. now apply (address_key_eq (h_seed h) v1 v2 a).
Qed.

(** what would go wrong if the seed were regenerated on open: the newer
    version gets another key, both versions stay *)
Definition ev_v1 : event := mkEvent (repeat 49%N 64) (repeat 97%N 64) 1 0 [] [] (repeat 48%N 128).
Definition ev_v2 : event := mkEvent (repeat 50%N 64) (repeat 97%N 64) 2 0 [] [] (repeat 48%N 128).

Example fresh_seed_breaks_replacement :
  let d1 := insert_batch 1 empty_db [ev_v1] in
  List.length (d_events (insert_batch 1 d1 [ev_v2])) = 1%nat /\
  List.length (d_events (insert_batch 2 d1 [ev_v2])) = 2%nat.
Proof. vm_compute. split; reflexivity. Qed.

(** histories with restarts anywhere between batches *)
Inductive op := OBatch (b : list event) | OReopen (rnd : Z).

Definition run_op (h : handle) (o : op) : handle :=
  match o with
  | OBatch b => h_insert h b
  | OReopen rnd => reopen h rnd
  end.

Definition batches_of (ops : list op) : list (list event) :=
  flat_map (fun o => match o with OBatch b => [b] | OReopen _ => [] end) ops.

(** close/reopen at any positions of a batch history leaves the tables those
    of the history without restarts: every C06 statement carries over *)
Theorem restarts_invisible ops : forall h, opened h ->
  fold_left run_op ops h = mkHandle (run (h_seed h) (h_db h) (batches_of ops)) (h_seed h).
Proof.
  induction ops as [|o ops IH]; intros h O; simpl.
  - now destruct h.
  - destruct o as [b|rnd]; simpl.
    + rewrite IH by now apply h_insert_opened. reflexivity.
    + rewrite reopen_same_seed by assumption. now apply IH.
Qed.
