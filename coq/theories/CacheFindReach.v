(* CacheFindReach.v — C03 over histories: the query theorems of
   CacheFindProofs.v combined with [inv_reachable] (CacheInvProofs.v, owned by
   the invariant group).  Kept apart from Properties/C03.v so that the C03
   target does not depend on files of another group while they are in flux;
   the statements can be moved there verbatim ([exact] of these lemmas). *)
From Coq Require Import List ZArith Sorted.
From Moc Require Import Base Match MatchProofs Cache CacheSpec CacheInv CacheHyp CacheFacts CacheInvProofs
                        CacheFindFacts CacheFindProofs.
Import ListNotations.
Open Scope Z_scope.

(** for every admissible history, capacity and decodable filter list *)
Theorem find_correct_reachable cap h fs out :
  hist_ok h -> Forall filter_ok fs -> c_find (c_run cap h) fs = Ok out ->
  find_spec_ok (c_listing (c_run cap h)) fs out = true.
Proof. intro H. apply find_correct. now apply inv_reachable. Qed.

Theorem find_correct_decl_reachable cap h fs out :
  hist_ok h -> Forall filter_ok fs -> c_find (c_run cap h) fs = Ok out ->
  find_spec (c_listing (c_run cap h)) fs out.
Proof. intro H. apply find_correct_decl. now apply inv_reachable. Qed.

Theorem find_total_reachable cap h fs :
  hist_ok h -> Forall filter_ok fs -> c_find (c_run cap h) fs <> Panic.
Proof. intro H. apply find_total. now apply inv_reachable. Qed.

Theorem paths_agree_reachable cap h f r :
  hist_ok h -> Forall tags_nonempty h -> filter_ok f -> filter_wf f ->
  idx_find (c_idx (c_run cap h)) f = Some (Ok r) ->
  scan_loop (c_tree (c_run cap h)) (lm_new f) [] = Ok r.
Proof.
  intros H TN OK WF. apply paths_agree; auto; [now apply inv_reachable|].
  intros x Hx. rewrite Forall_forall in TN. apply TN.
  destruct H as [IF _]. now apply (proj1 (proj2 (run_inv_sub cap h IF))).
Qed.

(** the concrete state of the examples satisfies the invariant *)
Example ex_state_inv : Inv Ex.s0.
Proof. apply (inv_reachable 10 Ex.hist), hist_okb_spec. vm_compute. reflexivity. Qed.

Print Assumptions find_correct_reachable.
Print Assumptions paths_agree_reachable.
