(* Cache.v — model of event_cache.go (EventCache): the primary table, the
   created_at tree, the secondary index and the deletion registry are kept as
   separate tables with the code's own maintenance, not as derived views.
   Definitions only. *)
From Moc Require Import Base Match.
From Moc.Gen Require Import GenMsg GenCache.
Open Scope Z_scope.

(* ------------------------------------------------------------------ *)
(** * Keys *)

Definition colon_s : str := [colon].
Definition d_name : str := [100%N].   (* "d" *)

(** [slices.IndexFunc(event.Tags, func(t) { len(t) >= 1 && t[0] == "d" })] *)
Fixpoint find_d_tag (tags : list tag) : option tag :=
  match tags with
  | [] => None
  | t :: rest =>
      match t with
      | n :: _ => if str_eqb n d_name then Some t else find_d_tag rest
      | [] => find_d_tag rest
      end
  end.

(** [getEventKey]: the string under which an event is stored *)
Definition event_key (e : event) : str :=
  let ty := g_event_type (ev_kind e) in
  if ty =? 1 then ev_id e
  else if ty =? 2 then showZ (ev_kind e) ++ colon_s ++ ev_pk e
  else if ty =? 4 then
    showZ (ev_kind e) ++ colon_s ++ ev_pk e ++ colon_s ++
    match find_d_tag (ev_tags e) with
    | None => []                 (* a missing d tag counts as an empty d value *)
    | Some t => tag_value t
    end
  else [].

(** [getEventKeyFromKind5Tags] *)
Fixpoint k5_keys_of (tags : list tag) : list str :=
  match tags with
  | [] => []
  | t :: rest =>
      if g_k5_tag_short (Z.of_nat (length t)) then k5_keys_of rest
      else match t with
           | n :: v :: _ => if g_k5_tag_name n then v :: k5_keys_of rest else k5_keys_of rest
           | _ => k5_keys_of rest
           end
  end.

Definition k5_keys (e : event) : list str := k5_keys_of (ev_tags e).

(* ------------------------------------------------------------------ *)
(** * Secondary index keys *)

Inductive ikey := IKId (s : str) | IKAuthor (s : str) | IKKind (k : Z) | IKTag (n v : str).

Definition ikey_eqb (a b : ikey) : bool :=
  match a, b with
  | IKId x, IKId y => str_eqb x y
  | IKAuthor x, IKAuthor y => str_eqb x y
  | IKKind x, IKKind y => Z.eqb x y
  | IKTag n v, IKTag n' v' => str_eqb n n' && str_eqb v v'
  | _, _ => false
  end.

(** [keysFromEvent] *)
Definition tag_ikeys (tags : list tag) : list ikey :=
  flat_map (fun t => match t with
                     | [] => []
                     | n :: _ => if Nat.eqb (length n) 1 then [IKTag n (tag_value t)] else []
                     end) tags.

Definition ikeys_of_event (e : event) : list ikey :=
  [IKId (ev_id e); IKAuthor (ev_pk e); IKKind (ev_kind e)] ++ tag_ikeys (ev_tags e).

(** [keysFromReqFilter]: one key list per present condition *)
Definition ikeys_of_filter (f : rfilter) : list (list ikey) :=
  (match f_ids f with Some l => [List.map IKId l] | None => [] end) ++
  (match f_authors f with Some l => [List.map IKAuthor l] | None => [] end) ++
  (match f_kinds f with Some l => [List.map IKKind l] | None => [] end) ++
  (match f_tags f with
   | Some m => List.map (fun nv => List.map (IKTag (fst nv)) (snd nv)) m
   | None => []
   end).

(* ------------------------------------------------------------------ *)
(** * State *)

(** sets of events (Go: map[*Event]bool), as duplicate-free lists *)
Definition eset := list event.
Definition eset_mem (e : event) (s : eset) : bool := existsb (event_eqb e) s.
Definition eset_add (e : event) (s : eset) : eset := if eset_mem e s then s else s ++ [e].
Definition eset_remove (e : event) (s : eset) : eset := List.filter (fun x => negb (event_eqb e x)) s.
Definition eset_union (a b : eset) : eset := fold_left (fun acc x => eset_add x acc) b a.
Definition eset_inter (a b : eset) : eset := List.filter (fun x => eset_mem x b) a.

Definition dkey := (str * str)%type.   (* eventCacheDeletedEventKey{EventKey, Pubkey} *)
Definition dkey_eqb (a b : dkey) : bool := str_eqb (fst a) (fst b) && str_eqb (snd a) (snd b).

Record cstate := mkC {
  c_cap : Z;
  c_evs : list (str * event);          (* evs: key -> event *)
  c_tree : list event;                 (* evsCreatedAt: ordered by g_created_key_lt *)
  c_idx : list (ikey * eset);          (* evsIndex.idx *)
  c_del : list (dkey * list str)       (* deleted: (key, pubkey) -> set of kind-5 ids *)
}.

Definition c_empty (cap : Z) : cstate := mkC cap [] [] [] [].

(** generic association-list operations with an explicit key equality *)
Section AL.
  Context {K V : Type} (keqb : K -> K -> bool).
  Fixpoint al_get (k : K) (l : list (K * V)) : option V :=
    match l with
    | [] => None
    | (k', v) :: l' => if keqb k k' then Some v else al_get k l'
    end.
  Fixpoint al_set (k : K) (v : V) (l : list (K * V)) : list (K * V) :=
    match l with
    | [] => [(k, v)]
    | (k', v') :: l' => if keqb k k' then (k, v) :: l' else (k', v') :: al_set k v l'
    end.
  Fixpoint al_del (k : K) (l : list (K * V)) : list (K * V) :=
    match l with
    | [] => []
    | (k', v') :: l' => if keqb k k' then l' else (k', v') :: al_del k l'
    end.
End AL.

(* ------------------------------------------------------------------ *)
(** * The created_at tree (igrmk/treemap with the code's comparison) *)

Definition tkey_lt (a b : event) : bool :=
  g_created_key_lt (ev_ts a) (ev_id a) (ev_ts b) (ev_id b).

(** keys are equal for the tree when neither is less than the other *)
Definition tkey_eq (a b : event) : bool := negb (tkey_lt a b) && negb (tkey_lt b a).

(** [Set]: replaces the value under an equal key, otherwise inserts in order *)
Fixpoint tree_set (e : event) (t : list event) : list event :=
  match t with
  | [] => [e]
  | x :: rest =>
      if tkey_lt e x then e :: x :: rest
      else if tkey_eq e x then e :: rest
      else x :: tree_set e rest
  end.

(** [Del] by key *)
Fixpoint tree_del (e : event) (t : list event) : list event :=
  match t with
  | [] => []
  | x :: rest => if tkey_eq e x then rest else x :: tree_del e rest
  end.

(* ------------------------------------------------------------------ *)
(** * Index maintenance *)

Definition idx_add_key (e : event) (idx : list (ikey * eset)) (k : ikey) : list (ikey * eset) :=
  match al_get ikey_eqb k idx with
  | Some s => al_set ikey_eqb k (eset_add e s) idx
  | None => al_set ikey_eqb k [e] idx
  end.

Definition idx_add (e : event) (idx : list (ikey * eset)) : list (ikey * eset) :=
  fold_left (idx_add_key e) (ikeys_of_event e) idx.

Definition idx_del_key (e : event) (idx : list (ikey * eset)) (k : ikey) : list (ikey * eset) :=
  match al_get ikey_eqb k idx with
  | None => idx
  | Some s =>
      let s' := eset_remove e s in
      match s' with
      | [] => al_del ikey_eqb k idx
      | _ => al_set ikey_eqb k s' idx
      end
  end.

Definition idx_delete (e : event) (idx : list (ikey * eset)) : list (ikey * eset) :=
  fold_left (idx_del_key e) (ikeys_of_event e) idx.

(* ------------------------------------------------------------------ *)
(** * delete / add / Add *)

(** removal of one kind-5 id from the registry entries of its keys *)
Definition del_unregister (pk id : str) (del : list (dkey * list str)) (k : str) : list (dkey * list str) :=
  match al_get dkey_eqb (k, pk) del with
  | None => del
  | Some ids =>
      let ids' := List.filter (fun x => negb (str_eqb x id)) ids in
      match ids' with
      | [] => al_del dkey_eqb (k, pk) del
      | _ => al_set dkey_eqb (k, pk) ids' del
      end
  end.

(** [delete(delEvKey)] *)
Definition c_delete (s : cstate) (k : dkey) : cstate :=
  match al_get str_eqb (fst k) (c_evs s) with
  | None => s
  | Some cand =>
      if g_del_other_author (ev_pk cand) (snd k) then s
      else
        let del := if g_del_is_kind5 (ev_kind cand)
                   then fold_left (del_unregister (ev_pk cand) (ev_id cand)) (k5_keys cand) (c_del s)
                   else c_del s in
        mkC (c_cap s)
            (al_del str_eqb (fst k) (c_evs s))
            (tree_del cand (c_tree s))
            (idx_delete cand (c_idx s))
            del
  end.

(** [add(eventKey, event)] *)
Definition c_add_inner (s : cstate) (key : str) (e : event) : cstate * bool :=
  let ins (s0 : cstate) :=
    mkC (c_cap s0) (al_set str_eqb key e (c_evs s0)) (tree_set e (c_tree s0))
        (idx_add e (c_idx s0)) (c_del s0) in
  match al_get str_eqb key (c_evs s) with
  | Some old =>
      if g_add_keep_old (ev_ts old) (ev_ts e) then (s, false)
      else (ins (c_delete s (key, ev_pk old)), true)
  | None => (ins s, true)
  end.

(** [addKind5] *)
Definition del_register (pk id : str) (del : list (dkey * list str)) (k : str) : list (dkey * list str) :=
  match al_get dkey_eqb (k, pk) del with
  | None => al_set dkey_eqb (k, pk) [id] del
  | Some ids => if mem_str id ids then del else al_set dkey_eqb (k, pk) (ids ++ [id]) del
  end.

Definition c_add_kind5 (s : cstate) (e : event) : cstate :=
  mkC (c_cap s) (c_evs s) (c_tree s) (c_idx s)
      (fold_left (del_register (ev_pk e) (ev_id e)) (k5_keys e) (c_del s)).

(** [deleteByKind5] *)
Definition c_delete_by_kind5 (s : cstate) (e : event) : cstate :=
  fold_left (fun s0 k =>
               let s1 := c_delete s0 (k, ev_pk e) in
               (* the id index resolves an e tag naming an event stored under its address *)
               match al_get ikey_eqb (IKId k) (c_idx s1) with
               | None => s1
               | Some evs => fold_left (fun s2 ev => c_delete s2 (event_key ev, ev_pk e)) evs s1
               end) (k5_keys e) s.

Definition c_is_deleted (s : cstate) (key pk : str) : bool :=
  match al_get dkey_eqb (key, pk) (c_del s) with Some _ => true | None => false end.

Definition c_len (s : cstate) : Z := Z.of_nat (length (c_evs s)).

(** [getOldestEvent]: the last element of the tree *)
Definition c_oldest (s : cstate) : option event := last (List.map Some (c_tree s)) None.

(** [Add] *)
Definition c_add (s : cstate) (e : event) : cstate * bool :=
  if g_add_skip_ephemeral (g_event_type (ev_kind e)) then (s, true) else
  let key := event_key e in
  if g_add_blocked (c_is_deleted s key (ev_pk e)) (c_is_deleted s (ev_id e) (ev_pk e)) then (s, false)
  else
    let '(s1, added) := c_add_inner s key e in
    if negb added then (s1, false)
    else
      let s2 := if g_is_kind5 (ev_kind e) then c_delete_by_kind5 (c_add_kind5 s1 e) e else s1 in
      let s3 := if g_over_cap (c_len s2) (c_cap s2)
                then match c_oldest s2 with
                     | Some o => c_delete s2 (event_key o, ev_pk o)
                     | None => s2
                     end
                else s2 in
      (s3, true).

(* ------------------------------------------------------------------ *)
(** * Find *)

(** the ordered scan with a limit-counting matcher (full-scan filters have
    no tag condition, so [match_impl] cannot panic here; a panic is still
    propagated for faithfulness) *)
Fixpoint scan_loop (t : list event) (m : lmatcher) (acc : list event) : outcome (list event) :=
  match t with
  | [] => Ok acc
  | x :: rest =>
      if lm_done m then Ok acc
      else match lm_limit_match m x with
           | Panic => Panic
           | Ok (m', true) => scan_loop rest m' (tree_set x acc)
           | Ok (m', false) => scan_loop rest m' acc
           end
  end.

(** union of the index entries of one condition *)
Definition idx_union (idx : list (ikey * eset)) (keys : list ikey) : eset :=
  fold_left (fun acc k => match al_get ikey_eqb k idx with
                          | Some s => eset_union acc s
                          | None => acc
                          end) keys [].

(** stable insertion sort by size: [slices.SortFunc(idMaps, by len)] *)
Fixpoint insert_by_len (s : eset) (l : list eset) : list eset :=
  match l with
  | [] => [s]
  | x :: rest => if Nat.leb (length s) (length x) then s :: x :: rest else x :: insert_by_len s rest
  end.
Definition sort_by_len (l : list eset) : list eset := fold_right insert_by_len [] l.

(** the loop that intersects idMaps[0] with the last map and drops the last *)
Definition inter_all (l : list eset) : option eset :=
  match l with
  | [] => None       (* idMaps[0] on an empty slice: index out of range *)
  | m :: rest => Some (fold_left eset_inter (rev rest) m)
  end.

(** bounded insertion: Set, then drop the tree's last element when over the limit *)
Fixpoint bounded_insert (cands : list event) (m : rfilter) (limit : Z) (acc : list event) (cnt : Z)
  : outcome (list event) :=
  match cands with
  | [] => Ok acc
  | x :: rest =>
      match match_impl x m with
      | Panic => Panic
      | Ok false => bounded_insert rest m limit acc cnt
      | Ok true =>
          let acc1 := tree_set x acc in
          let cnt1 := cnt + 1 in
          if g_index_over_limit cnt1 limit
          then bounded_insert rest m limit (removelast acc1) (cnt1 - 1)
          else bounded_insert rest m limit acc1 cnt1
      end
  end.

(** [eventCacheEvsIndex.Find]: [None] = not served by the index (full scan) *)
Definition idx_find (idx : list (ikey * eset)) (f : rfilter) : option (outcome (list event)) :=
  if g_full_scan (isSome (f_ids f)) (isSome (f_authors f)) (isSome (f_kinds f)) (isSome (f_tags f))
  then None
  else Some (
    let sets := sort_by_len (List.map (idx_union idx) (ikeys_of_filter f)) in
    match inter_all sets with
    | None => Panic
    | Some cands =>
        let n := Z.of_nat (length cands) in
        let limit := match f_limit f with Some l => Z.min n l | None => n end in
        bounded_insert cands (mkFilter None None None None (f_since f) (f_until f) None) limit [] 0
    end).

Fixpoint find_loop (s : cstate) (fs : list rfilter) (acc : list event) : outcome (list event) :=
  match fs with
  | [] => Ok acc
  | f :: rest =>
      match idx_find (c_idx s) f with
      | Some Panic => Panic
      | Some (Ok t) => find_loop s rest (fold_left (fun a x => tree_set x a) t acc)
      | None =>
          match scan_loop (c_tree s) (lm_new f) acc with
          | Panic => Panic
          | Ok acc' => find_loop s rest acc'
          end
      end
  end.

(** [Find]: nil (= empty) when the store is empty *)
Definition c_find (s : cstate) (fs : list rfilter) : outcome (list event) :=
  if c_len s =? 0 then Ok [] else find_loop s fs [].

(** the retained set as the match-everything query lists it *)
Definition c_listing (s : cstate) : list event :=
  match c_find s [empty_filter] with Ok l => l | Panic => [] end.

(** histories *)
Definition c_run (cap : Z) (h : list event) : cstate :=
  fold_left (fun s e => fst (c_add s e)) h (c_empty cap).
