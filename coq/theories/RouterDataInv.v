(* RouterDataInv.v — C07: invariants about the messages of a connection
   (queue, forwarder slot, output, drop log) in every reachable state. *)
From Moc Require Import Base Match Router RouterLemmas RouterFrame RouterTrans RouterData RouterMust RouterEnv RouterInv.
From Moc.Gen Require Import GenRouter.
Open Scope Z_scope.

(** the live-event copies of a connection in channel order *)
Definition evs (st : cst) : list smsg := filter is_event_msg (flow st).

Lemma evs_split st :
  evs st = filter is_event_msg (c_out st) ++ filter is_event_msg (hand_list st) ++ filter is_event_msg (c_q st).
Proof. unfold evs, flow. now rewrite !filter_app. Qed.

(** how [evs] and the drop log of connection x change in one transition *)
Inductive echange (s : rstate) (l : label) (x : conn) (st st' : cst) : Prop :=
| E_same : evs st' = evs st -> c_drops st' = c_drops st -> (length (c_q st') <= length (c_q st))%nat \/ c_q st' = c_q st -> echange s l x st st'
| E_enq c e t sub fs todo rest :
    l = LRun c -> c_pc (r_cs s c) = IVisit e t x ((sub, fs) :: todo) :: rest ->
    sub_matches e fs = true -> (length (c_q st) < r_buf s)%nat ->
    evs st' = evs st ++ [MEvent sub e t] -> c_q st' = c_q st ++ [MEvent sub e t] ->
    c_hand st' = c_hand st -> c_drops st' = c_drops st ->
    echange s l x st st'
| E_drop c e t sub fs todo rest :
    l = LRun c -> c_pc (r_cs s c) = IVisit e t x ((sub, fs) :: todo) :: rest ->
    sub_matches e fs = true -> (r_buf s <= length (c_q st))%nat ->
    evs st' = evs st -> c_q st' = c_q st -> c_hand st' = c_hand st -> c_drops st' = c_drops st ++ [(sub, e, t)] ->
    echange s l x st st'
| E_reset rest :
    l = LRun x -> c_pc st = IUnsubAll :: rest ->
    evs st' = filter is_event_msg (c_out st) -> c_q st' = [] -> c_hand st' = None -> c_drops st' = c_drops st ->
    echange s l x st st'.

Lemma filter_snoc_false {A} (f : A -> bool) l m : f m = false -> filter f (l ++ [m]) = filter f l.
Proof. intro H. rewrite filter_app. cbn. rewrite H. apply app_nil_r. Qed.

Lemma evs_trans s l s' x : trans s l s' -> echange s l x (r_cs s x) (r_cs s' x).
Proof.
  intro T. destruct (dat_trans s l s' x T)
    as [E|m Hl Hm Ho Hq Hh Hdr|c e t sub fs todo rest Hl Hpc E|rest Hl Hpc Hq' Hh' Ho Hdr|m q' Hl Hh Hq Hq' Hh' Ho Hdr|m Hl Hh Hq Hh' Ho Hdr].
  - apply E_same; [unfold evs; now rewrite (dat_flow _ _ E) | | right]; apply dat_eq in E; tauto.
  - apply E_same; [|assumption | now right].
    rewrite !evs_split. unfold hand_list. rewrite Ho, Hq, Hh. now rewrite filter_snoc_false.
  - apply dat_eq in E as (E1 & E2 & E3 & E4).
    rewrite send_if_match_hand in E2. rewrite send_if_match_out in E3.
    destruct (send_if_match_q (r_buf s) e t sub fs (r_cs s x)) as [(Hm & Hlt & Q & Dr)|[(Hm & Hge & Q & Dr)|(Hm & Q)]].
    + eapply E_enq; try eassumption; try congruence.
      rewrite !evs_split. unfold hand_list. rewrite E1, E2, E3, Q, filter_app. cbn. now rewrite !app_assoc.
    + eapply E_drop; try eassumption; try congruence.
      rewrite !evs_split. unfold hand_list. now rewrite E1, E2, E3, Q.
    + rewrite Q in *. apply E_same; [|assumption | now right].
      rewrite !evs_split. unfold hand_list. now rewrite E1, E2, E3.
  - eapply E_reset; try eassumption.
    rewrite evs_split. unfold hand_list. rewrite Hq', Hh', Ho. cbn. now rewrite app_nil_r.
  - apply E_same; [|assumption | left; rewrite Hq', Hq; cbn; lia].
    rewrite !evs_split. unfold hand_list. rewrite Ho, Hq', Hh', Hh, Hq. cbn. destruct (is_event_msg m); reflexivity.
  - apply E_same; [|assumption | now right].
    rewrite !evs_split. unfold hand_list. rewrite Ho, Hq, Hh', Hh. rewrite filter_app, <- app_assoc. reflexivity.
Qed.

(* ------------------------------------------------------------------ *)
(** * Counters only grow *)

Lemma ctr_upd_pc f c pc x : c_ctr (upd f c (set_pc (f c) pc) x) = c_ctr (f x).
Proof. destruct (upd_cases f c (set_pc (f c) pc) x) as [[-> ->]|[_ ->]]; reflexivity. Qed.

Lemma ctr_trans s l s' x : trans s l s' -> (c_ctr (r_cs s x) <= c_ctr (r_cs s' x))%nat.
Proof.
  intro T. destruct (label_of_conn x l) eqn:Hl.
  - inversion T; subst; cbn [r_cs with_cs];
      try (match goal with |- (_ <= c_ctr (upd ?f ?k ?v x))%nat => destruct (upd_cases f k v x) as [[-> ->]|[_ ->]] end; cbn; lia).
    + unfold start_visit. cbn [r_cs with_cs].
      rewrite (ctr_upd2 _ _ _ _ (fun st => set_rd st (c :: c_rd st))) by (intro; reflexivity). rewrite ctr_upd_pc. lia.
    + rewrite (ctr_upd2 _ _ _ _ (fun st => set_rd st (remove_conn c (c_rd st)))) by (intro; reflexivity). rewrite ctr_upd_pc. lia.
    + rewrite (ctr_upd2 _ _ _ _ (send_if_match (r_buf s) e t sub fs)) by (intro; apply ctl_send_if_match). rewrite ctr_upd_pc. lia.
    + lia.
  - destruct (ctl_fields _ _ (trans_ctl_other s l s' x T Hl)) as (_ & _ & _ & E). rewrite E. lia.
Qed.

(* ------------------------------------------------------------------ *)
(** * The data invariant *)

Definition tag_lt (s : rstate) (t : ptag) : Prop := (snd t < c_ctr (r_cs s (fst t)))%nat.

Definition just (s : rstate) (x : conn) (sub : str) (e : event) : Prop :=
  exists fs, In (OReq sub fs) (c_ops (r_cs s x)) /\ sub_matches e fs = true.

Record DInv (s : rstate) : Prop := mkDInv {
  d_qlen : forall x, (length (c_q (r_cs s x)) <= r_buf s)%nat;
  d_just : forall x sub e t, In (MEvent sub e t) (evs (r_cs s x)) -> just s x sub e /\ tag_lt s t;
  d_just_drop : forall x sub e t, In (sub, e, t) (c_drops (r_cs s x)) -> just s x sub e /\ tag_lt s t;
  d_over : forall x, c_dead (r_cs s x) = true -> c_pc (r_cs s x) = [] ->
                     c_q (r_cs s x) = [] /\ c_hand (r_cs s x) = None
}.

Lemma DInv_init buf : DInv (r_init buf).
Proof. constructor; cbn; intros; try contradiction; try discriminate; lia. Qed.

Lemma just_trans s l s' x sub e : trans s l s' -> just s x sub e -> just s' x sub e.
Proof. intros T (fs & Ho & Hm). exists fs. split; [eapply ops_trans; eassumption | assumption]. Qed.

Lemma tag_lt_trans s l s' t : trans s l s' -> tag_lt s t -> tag_lt s' t.
Proof. intros T H. unfold tag_lt in *. pose proof (ctr_trans s l s' (fst t) T). lia. Qed.

Lemma r_buf_trans s l s' : trans s l s' -> r_buf s' = r_buf s.
Proof. intro T. inversion T; subst; try reflexivity. Qed.

(** the copy a visiting publisher is about to hand over is justified *)
Lemma send_just s c e t x sub fs todo rest :
  Inv s -> c_pc (r_cs s c) = IVisit e t x ((sub, fs) :: todo) :: rest -> sub_matches e fs = true ->
  just s x sub e /\ tag_lt s t.
Proof.
  intros I Hpc Hm. pose proof (inv_pc s I c) as P. rewrite Hpc in P.
  destruct (pc_ok_inv_visit _ _ _ _ _ _ _ P) as (n & rem & id & -> & _ & Hn & _ & _ & _ & _ & _ & Htodo).
  split.
  - exists fs. split; [|assumption]. apply (inv_ops s I). apply Htodo. now left.
  - unfold tag_lt. cbn. lia.
Qed.

Lemma evs_out_incl st m : In m (filter is_event_msg (c_out st)) -> In m (evs st).
Proof. rewrite evs_split, in_app_iff. tauto. Qed.

Ltac self_send T Hpcc Hpc :=
  inversion T; subst;
  try (match goal with H1 : _ = LVisit _ _ _ \/ _ |- _ => destruct H1 as [E|[E _]]; [discriminate | inversion E; subst] end);
  try (match goal with H : c_pc (r_cs _ _) = _ |- _ =>
         tryif constr_eq H Hpcc then fail else (rewrite Hpcc in H; first [discriminate | inversion H; subst]) end);
  try (match goal with H0 : is_reply_instr _ _ |- _ => cbn in H0; contradiction end);
  cbn [r_cs with_cs] in Hpc;
  match type of Hpc with
  | context [send_if_match ?b ?e ?t ?sb ?f] =>
      rewrite (pc_upd2 _ _ _ _ (send_if_match b e t sb f)) in Hpc by (intro; apply ctl_send_if_match)
  end;
  rewrite upd_same in Hpc; discriminate.

Theorem DInv_trans s l s' : Inv s -> DInv s -> trans s l s' -> DInv s'.
Proof.
  intros I D T. pose proof (r_buf_trans s l s' T) as Eb.
  constructor.
  - intro x. rewrite Eb. pose proof (d_qlen s D x) as Hq.
    destruct (evs_trans s l s' x T) as [_ _ [H|H]|c e t sub fs todo rest _ _ _ Hlt _ Q _ _|c e t sub fs todo rest _ _ _ _ _ Q _ _|rest _ _ _ Q _ _].
    + lia.
    + now rewrite H.
    + rewrite Q, app_length. cbn. lia.
    + now rewrite Q.
    + rewrite Q. cbn. lia.
  - intros x sub e t Hin.
    destruct (evs_trans s l s' x T) as [E _ _|c e0 t0 sub0 fs0 todo rest _ Hpc Hm _ E _ _ _|c e0 t0 sub0 fs0 todo rest _ _ _ _ E _ _ _|rest _ _ E _ _ _].
    + rewrite E in Hin. destruct (d_just s D x sub e t Hin). split; [eapply just_trans | eapply tag_lt_trans]; eassumption.
    + rewrite E in Hin. apply in_app_iff in Hin as [Hin|[Hin|[]]].
      * destruct (d_just s D x sub e t Hin). split; [eapply just_trans | eapply tag_lt_trans]; eassumption.
      * inversion Hin; subst. destruct (send_just s c e t x sub fs0 todo rest I Hpc Hm).
        split; [eapply just_trans | eapply tag_lt_trans]; eassumption.
    + rewrite E in Hin. destruct (d_just s D x sub e t Hin). split; [eapply just_trans | eapply tag_lt_trans]; eassumption.
    + rewrite E in Hin. apply evs_out_incl in Hin.
      destruct (d_just s D x sub e t Hin). split; [eapply just_trans | eapply tag_lt_trans]; eassumption.
  - intros x sub e t Hin.
    destruct (evs_trans s l s' x T) as [_ E _|c e0 t0 sub0 fs0 todo rest _ _ _ _ _ _ _ E|c e0 t0 sub0 fs0 todo rest _ Hpc Hm _ _ _ _ E|rest _ _ _ _ _ E].
    + rewrite E in Hin. destruct (d_just_drop s D x sub e t Hin). split; [eapply just_trans | eapply tag_lt_trans]; eassumption.
    + rewrite E in Hin. destruct (d_just_drop s D x sub e t Hin). split; [eapply just_trans | eapply tag_lt_trans]; eassumption.
    + rewrite E in Hin. apply in_app_iff in Hin as [Hin|[Hin|[]]].
      * destruct (d_just_drop s D x sub e t Hin). split; [eapply just_trans | eapply tag_lt_trans]; eassumption.
      * inversion Hin; subst. destruct (send_just s c e t x sub fs0 todo rest I Hpc Hm).
        split; [eapply just_trans | eapply tag_lt_trans]; eassumption.
    + rewrite E in Hin. destruct (d_just_drop s D x sub e t Hin). split; [eapply just_trans | eapply tag_lt_trans]; eassumption.
  - intros x Hd Hpc.
    pose proof (Inv_trans s l s' I T) as I'.
    destruct (evs_trans s l s' x T) as [_ _ Hq|c e t sub fs todo rest El Hpcc _ _ _ _ _ _|c e t sub fs todo rest El Hpcc _ _ _ Q Hh _|rest _ _ _ Q Hh _].
    + (* nothing enqueued: either x was already over, or this is not x's last step *)
      destruct (label_of_conn x l) eqn:Hl.
      * (* x acts and ends up dead with an empty program: only UnsubscribeAll does that, handled by E_reset;
           here the data did not change, so look at the transition *)
        inversion T; subst; cbn [label_of_conn] in Hl; try discriminate;
          try (assert (x = c) by (now apply Nat.eqb_eq in Hl); subst x);
          cbn [r_cs with_cs] in Hd, Hpc |- *; rewrite ?upd_same in *; cbn in Hd, Hpc |- *.
        -- destruct o; cbn in Hpc; try discriminate; destruct (reg_get c (r_reg s)); discriminate.
        -- destruct (inv_dead s I c Hd) as [E|[E _]]; rewrite E in H; discriminate.
        -- destruct (inv_dead s I c Hd) as [E|[E _]]; rewrite E in H; discriminate.
        -- destruct (inv_dead s I c Hd) as [E|[E _]]; rewrite E in H; discriminate.
        -- destruct (inv_dead s I c Hd) as [E|[E _]]; rewrite E in H; discriminate.
        -- destruct (inv_dead s I c Hd) as [E|[E _]]; rewrite E in H; discriminate.
        -- destruct (inv_dead s I c Hd) as [E|[E _]]; rewrite E in H; [inversion H; subst; cbn in H0; contradiction | discriminate].
        -- discriminate.
        -- destruct (inv_dead s I c Hd) as [E|[E _]]; rewrite E in H; discriminate.
        -- assert (x = c) by (destruct H1 as [->|[-> _]]; cbn in Hl; now apply Nat.eqb_eq in Hl). subst x.
           unfold start_visit in Hpc. cbn [r_cs with_cs] in Hpc.
           rewrite (pc_upd2 _ _ _ _ (fun st => set_rd st (c :: c_rd st))) in Hpc by (intro; reflexivity).
           rewrite upd_same in Hpc. discriminate.
        -- rewrite (dead_upd2 _ _ _ _ (fun st => set_rd st (remove_conn c (c_rd st)))) in Hd by (intro; reflexivity).
           rewrite upd_same in Hd. cbn in Hd.
           destruct (inv_dead s I c Hd) as [E|[E _]]; rewrite E in H; discriminate.
        -- rewrite (pc_upd2 _ _ _ _ (send_if_match (r_buf s) e t sub fs)) in Hpc by (intro; apply ctl_send_if_match).
           rewrite upd_same in Hpc. discriminate.
        -- split; reflexivity.
        -- congruence.
        -- rewrite (inv_cancel s I c) in Hd by assumption. discriminate.
        -- discriminate.
      * destruct (ctl_fields _ _ (trans_ctl_other s l s' x T Hl)) as (Epc & Ed & _).
        rewrite Epc in Hpc. rewrite Ed in Hd. destruct (d_over s D x Hd Hpc) as [Q0 H0].
        (* the data part can only have changed by take/deliver, impossible on an empty queue *)
        destruct (dat_trans s l s' x T)
          as [E|m Hl' _ _ Q Hh _|c e t sub fs todo rest _ Hpcc _|rest Hl' _ _ _ _ _|m q' _ _ Q _ _ _ _|m _ Hh _ _ _ _].
        -- apply dat_eq in E as (E1 & E2 & _). now rewrite E1, E2.
        -- now rewrite Q, Hh.
        -- (* a send to x: x would be in the sender's visit, hence registered *)
           exfalso. pose proof (inv_pc s I c) as P. rewrite Hpcc in P.
           destruct (pc_ok_inv_visit _ _ _ _ _ _ _ P) as (n & rem & id & _ & _ & _ & _ & _ & _ & _ & _ & Htodo).
           specialize (Htodo sub fs (or_introl eq_refl)). unfold sub_of in Htodo.
           destruct (inv_dead s I x Hd) as [E|[_ E]]; [rewrite E in Hpc; discriminate | rewrite E in Htodo; discriminate].
        -- subst l. cbn in Hl. now rewrite Nat.eqb_refl in Hl.
        -- rewrite Q0 in Q. discriminate.
        -- rewrite H0 in Hh. discriminate.
    + exfalso. (* enqueue to x: x is registered, so not over *)
      destruct (label_of_conn x l) eqn:Hl.
      * subst l. cbn in Hl. apply Nat.eqb_eq in Hl. subst c.
        (* x sends to itself: its program after the step starts with IVisit *)
        self_send T Hpcc Hpc.
      * destruct (ctl_fields _ _ (trans_ctl_other s l s' x T Hl)) as (Epc & Ed & _).
        rewrite Epc in Hpc. rewrite Ed in Hd.
        pose proof (inv_pc s I c) as P. rewrite Hpcc in P.
        destruct (pc_ok_inv_visit _ _ _ _ _ _ _ P) as (n & rem & id & _ & _ & _ & _ & _ & _ & _ & _ & Htodo).
        specialize (Htodo sub fs (or_introl eq_refl)). unfold sub_of in Htodo.
        destruct (inv_dead s I x Hd) as [E|[_ E]]; [rewrite E in Hpc; discriminate | rewrite E in Htodo; discriminate].
    + exfalso.
      destruct (label_of_conn x l) eqn:Hl.
      * subst l. cbn in Hl. apply Nat.eqb_eq in Hl. subst c.
        self_send T Hpcc Hpc.
      * destruct (ctl_fields _ _ (trans_ctl_other s l s' x T Hl)) as (Epc & Ed & _).
        rewrite Epc in Hpc. rewrite Ed in Hd.
        pose proof (inv_pc s I c) as P. rewrite Hpcc in P.
        destruct (pc_ok_inv_visit _ _ _ _ _ _ _ P) as (n & rem & id & _ & _ & _ & _ & _ & _ & _ & _ & Htodo).
        specialize (Htodo sub fs (or_introl eq_refl)). unfold sub_of in Htodo.
        destruct (inv_dead s I x Hd) as [E|[_ E]]; [rewrite E in Hpc; discriminate | rewrite E in Htodo; discriminate].
    + split; assumption.
Qed.

Theorem DInv_reachable buf s : reachable buf s -> DInv s.
Proof.
  intro R. induction R as [|s l R IH]; [apply DInv_init|].
  destruct (step_trans s l) as [E|T]; [now rewrite E|].
  eapply DInv_trans; [eapply Inv_reachable; eassumption | assumption | eassumption].
Qed.
